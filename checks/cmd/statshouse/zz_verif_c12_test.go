//go:build verif

package main

// C12 — ingestion accepts only valid events and accounts for every rejected one.
//
// The real pipeline worker.HandleMetrics -> Agent.Map -> Agent.ApplyMetric runs against a real agent (one shard,
// never Run(), fixed shard clock) and a real MetricsStorage filled through journal events. After every event the
// rows of all shard buckets are snapshotted; the difference to the previous snapshot is compared with a reference
// interpreter written from the property statement and the contract comment in ApplyMetric:
//
//   rejected event : exactly one row changed: an ingestion-status row (+1) whose status names an applicable reason
//   accepted event : exactly one metric row changed, by count = counter || len(values)+sum(hist weights) || len(uniques),
//                    value sums scaled by counter/total, min/max, unique set; status rows only OK / warnings
//
// The reference never calls the validation or mapping functions of the repository.

import (
	"encoding/json"
	"fmt"
	"math"
	"regexp"
	"sort"
	"strconv"
	"strings"
	"sync"
	"testing"
	"unicode/utf8"

	"pgregory.net/rapid"

	"github.com/VKCOM/statshouse/internal/agent"
	"github.com/VKCOM/statshouse/internal/data_model"
	"github.com/VKCOM/statshouse/internal/data_model/gen2/tl"
	"github.com/VKCOM/statshouse/internal/data_model/gen2/tlmetadata"
	"github.com/VKCOM/statshouse/internal/data_model/gen2/tlstatshouse"
	"github.com/VKCOM/statshouse/internal/metajournal"
	"github.com/VKCOM/statshouse/internal/pcache"
)

// ---------------------------------------------------------------- documented constants (builtin_tags.go value comments)

const (
	c12OK                = 10 // ok_cached
	c12ErrMetricNotFound = 21
	c12ErrNanInfValue    = 23
	c12ErrNanInfCounter  = 24
	c12ErrNegCounter     = 25
	c12WarnTagNotFound   = 33
	c12ErrRawLegacy      = 34 // "warning now, for historic data"
	c12ErrTagValueUTF8   = 39
	c12ErrDisabled       = 42
	c12WarnSetTwice      = 46
	c12WarnLegacyName    = 47
	c12ErrMetricUTF8     = 48
	c12ErrTagNameUTF8    = 49
	c12ErrBothSet        = 50
	c12WarnRaw           = 52
	c12WarnDraft         = 53
	c12ErrSharding       = 54
	c12ErrBuiltin        = 57
	c12WarnFuture        = 59
	c12ErrBigCounter     = 60
	c12ErrBigValue       = 61
	c12ErrZeroCounter    = 62
	c12ErrCorrupted      = 63

	c12StatusMetric        = -11  // __src_ingestion_status
	c12StatusMetricNoShard = -148 // __src_ingestion_status_no_shard
	c12MaxTags             = 48
	c12STop                = 47
	c12T0                  = uint32(1_700_000_000)
)

var c12Warnings = map[int32]bool{c12OK: true, c12WarnTagNotFound: true, c12WarnSetTwice: true, c12WarnLegacyName: true, c12WarnRaw: true, c12WarnDraft: true, c12WarnFuture: true}

var c12Mappings = map[string]int32{"production": 11, "staging": 12, "mapped_a": 1001, "mapped_b": 1002}

// ---------------------------------------------------------------- case

type c12TagDesc struct {
	Name string `json:"name,omitempty"`
	Raw  string `json:"raw,omitempty"`
}

type c12Desc struct {
	Name       string       `json:"name"`
	ID         int32        `json:"id"`
	Tags       []c12TagDesc `json:"tags,omitempty"`
	Drafts     []string     `json:"drafts,omitempty"`
	Disable    bool         `json:"disable,omitempty"`
	Kind       string       `json:"kind,omitempty"`
	Resolution int          `json:"resolution,omitempty"`
	STopName   string       `json:"stop_name,omitempty"`
	Shard      string       `json:"shard,omitempty"` // "", "fixed_ok", "fixed_bad"
}

type c12Tag struct {
	K []byte `json:"k"`
	V []byte `json:"v"`
}

type c12Event struct {
	Metric  []byte   `json:"metric"`
	Tags    []c12Tag `json:"tags,omitempty"`
	Counter vpF      `json:"counter"`
	Ts      uint32   `json:"ts"`
	Values  []vpF    `json:"values,omitempty"`
	Uniques []int64  `json:"uniques,omitempty"`
	Hist    [][2]vpF `json:"hist,omitempty"`
}

type c12Case struct {
	Descs  []c12Desc  `json:"descs"`
	Events []c12Event `json:"events"`
}

// ---------------------------------------------------------------- the system under test

var (
	c12Once  sync.Once
	c12Agent *agent.Agent
	c12Err   error
)

func c12GetAgent() (*agent.Agent, error) {
	c12Once.Do(func() {
		mc, err := pcache.LoadMappingsCacheFile(nil, 1<<20, 86400)
		if err != nil {
			c12Err = err
			return
		}
		var pairs []pcache.MappingPair
		for k, v := range c12Mappings {
			pairs = append(pairs, pcache.MappingPair{Str: k, Value: v})
		}
		sort.Slice(pairs, func(i, j int) bool { return pairs[i].Str < pairs[j].Str })
		mc.AddValues(c12T0*2, pairs) // access time in the future: never refreshed, never expired
		gcr := tlstatshouse.GetConfigResult3{Addresses: []string{"", "", ""}, ShardByMetricCount: 1}
		storage := metajournal.MakeMetricsStorage(nil)
		c12Agent, c12Err = agent.MakeAgent("tcp", "", "", nil, agent.DefaultConfig(), "c12host", 1 /* component agent */, storage, mc,
			nil, nil, func(string, ...interface{}) {}, nil, &gcr, nil)
	})
	return c12Agent, c12Err
}

func c12ResetShards(a *agent.Agent) {
	for _, s := range a.Shards {
		s.CurrentTime = c12T0
		s.SendTime = c12T0 - 2
		for j := range s.SuperQueue {
			s.SuperQueue[j] = &data_model.MetricsBucket{}
		}
	}
}

func (d *c12Desc) journalJSON() string {
	type tag struct {
		Name string `json:"name,omitempty"`
		Raw  string `json:"raw_kind,omitempty"`
	}
	m := map[string]any{}
	var tags []tag
	for _, t := range d.Tags {
		tags = append(tags, tag{Name: t.Name, Raw: t.Raw})
	}
	if len(tags) > 0 {
		m["tags"] = tags
	}
	if len(d.Drafts) > 0 {
		dr := map[string]tag{}
		for _, n := range d.Drafts {
			dr[n] = tag{Name: n}
		}
		m["tags_draft"] = dr
	}
	if d.Disable {
		m["disable"] = true
	}
	if d.Kind != "" {
		m["kind"] = d.Kind
	}
	if d.Resolution != 0 {
		m["resolution"] = d.Resolution
	}
	if d.STopName != "" {
		m["string_top_name"] = d.STopName
	}
	switch d.Shard {
	case "fixed_ok":
		m["shard_strategy"] = "fixed_shard"
		m["shard_num"] = 0
	case "fixed_bad":
		m["shard_strategy"] = "fixed_shard"
		m["shard_num"] = 5 // the agent has one shard
	}
	b, _ := json.Marshal(m)
	return string(b)
}

// ---------------------------------------------------------------- observation: rows of all buckets

type c12RowKey struct {
	slot   int // bucket: low-resolution metrics spread rows with equal keys over several seconds by the hash of the original tag values
	ts     uint32
	metric int32
	tags   [c12MaxTags]int32
	stags  [c12MaxTags]string
	topI   int32
	topS   string
}

type c12Row struct {
	count, sum, sumsq, min, max float64
	set                         bool
	uniq                        int
	digest                      float64
	hasDigest                   bool
}

func c12RowOf(mv *data_model.MultiValue) c12Row {
	r := c12Row{count: mv.Value.Count(), sum: mv.Value.ValueSum, sumsq: mv.Value.ValueSumSquare, min: mv.Value.ValueMin, max: mv.Value.ValueMax,
		set: mv.Value.ValueSet, uniq: mv.HLL.ItemsCount()}
	if mv.ValueTDigest != nil {
		r.hasDigest = true
		r.digest = mv.ValueTDigest.Count()
	}
	return r
}

func c12Snapshot(a *agent.Agent) map[c12RowKey]c12Row {
	res := map[c12RowKey]c12Row{}
	for _, s := range a.Shards {
		for slot, b := range s.SuperQueue {
			for _, item := range b.MultiItems {
				k := c12RowKey{slot: slot, ts: item.Key.Timestamp, metric: item.Key.Metric, tags: item.Key.Tags, stags: item.Key.STags}
				res[k] = c12RowOf(&item.Tail)
				for tk, mv := range item.Top {
					k2 := k
					k2.topI, k2.topS = tk.I, tk.S
					res[k2] = c12RowOf(mv)
				}
			}
		}
	}
	return res
}

func c12Changed(before, after map[c12RowKey]c12Row) []c12RowKey {
	var res []c12RowKey
	for k, r := range after {
		if before[k] != r { // a missing row is the zero row
			res = append(res, k)
		}
	}
	for k, r := range before {
		if _, ok := after[k]; !ok && r != (c12Row{}) {
			res = append(res, k)
		}
	}
	sort.Slice(res, func(i, j int) bool { return fmt.Sprint(res[i]) < fmt.Sprint(res[j]) })
	return res
}

// ---------------------------------------------------------------- reference interpreter

type c12TagVal struct {
	i       int32
	s       string
	unknown bool // the value needs normalisation (C11's subject): the stored string is not predicted
}

type c12Verdict struct {
	lenient  string // non-empty: outcome deliberately not asserted (reason)
	reject   map[int32]bool
	altRaw   bool  // an invalid raw tag value: accepted with the tag left empty and a warning (in-code contract), or rejected with the historic status
	metricID int32 // id expected in the status row (0: unknown metric)
	idKnown  bool
	// accepted
	tagVals           [c12MaxTags][]c12TagVal // candidates per index (a tag set twice keeps either value)
	count, sum, sumsq float64
	min, max          float64
	hasValues         bool
	uniques           []int64
	warn              map[int32]bool
	class             string
	percentiles       bool
}

var (
	c12Canonical = regexp.MustCompile(`^(0|[1-9][0-9]?)$`)
	c12Digits    = regexp.MustCompile(`^[0-9]{1,2}$`)
	c12Decimal   = regexp.MustCompile(`^-?[0-9]{1,25}$`)
)

const c12MaxF32 = 3.4028234663852886e+38

func c12Plain(v []byte) bool {
	if len(v) > 128 {
		return false
	}
	for i, c := range v {
		if c == ' ' {
			if i == 0 || i == len(v)-1 || v[i-1] == ' ' {
				return false
			}
			continue
		}
		if c < 0x21 || c > 0x7e {
			return false
		}
	}
	return true
}

// returns index (>=0), -2 for the host tag, -1 for unknown; legacy / draft flags; ambiguous for spellings the docs do not cover
func (d *c12Desc) resolve(k []byte) (idx int, legacy, draft, ambiguous bool) {
	s := string(k)
	if c12Canonical.MatchString(s) {
		n, _ := strconv.Atoi(s)
		if n < c12MaxTags {
			return n, false, false, false
		}
		return -1, false, false, false
	}
	if c12Digits.MatchString(s) { // "07"
		return -1, false, false, true
	}
	switch s {
	case "_s":
		return c12STop, false, false, false
	case "_h":
		return -2, false, false, false
	}
	for i, t := range d.Tags {
		if i > 0 && t.Name != "" && t.Name == s {
			return i, false, false, false
		}
	}
	if d.STopName != "" && d.STopName == s {
		return c12STop, false, false, false
	}
	if strings.HasPrefix(s, "key") {
		rest := s[3:]
		if c12Canonical.MatchString(rest) {
			n, _ := strconv.Atoi(rest)
			if n < 16 {
				return n, true, false, false
			}
			return -1, false, false, false
		}
		if c12Digits.MatchString(rest) || rest == "" {
			return -1, false, false, rest != ""
		}
	}
	if s == "skey" {
		return -1, false, false, true // deprecated legacy name of _s: not asserted
	}
	for _, n := range d.Drafts {
		if n == s {
			return -1, false, true, false
		}
	}
	return -1, false, false, false
}

func (d *c12Desc) rawKind(idx int) string {
	if idx > 0 && idx < len(d.Tags) {
		return d.Tags[idx].Raw
	}
	return ""
}

func c12Finite32(f float64) bool { return !math.IsNaN(f) && f <= c12MaxF32 && f >= -c12MaxF32 }

func c12Judge(descs []c12Desc, e *c12Event) c12Verdict {
	v := c12Verdict{reject: map[int32]bool{}, warn: map[int32]bool{}}
	// --- the metric
	var d *c12Desc
	for i := range descs {
		if descs[i].Name == string(e.Metric) {
			d = &descs[i]
		}
	}
	if d == nil {
		v.idKnown = true
		switch {
		case strings.HasPrefix(string(e.Metric), "__"):
			v.idKnown = false
			v.reject[c12ErrBuiltin] = true
			v.reject[c12ErrSharding] = true // some builtin metrics have no shard of their own
			v.class = "reject-builtin"
		case !utf8.Valid(e.Metric):
			v.reject[c12ErrMetricUTF8] = true
			v.class = "reject-metric-name-utf8"
		default:
			v.reject[c12ErrMetricNotFound] = true
			v.class = "reject-metric-not-found"
		}
		return v
	}
	v.metricID, v.idKnown = d.ID, true
	v.percentiles = d.Kind == "value_p" || d.Kind == "mixed_p"
	if d.Shard == "fixed_bad" {
		v.reject[c12ErrSharding] = true
		v.class = "reject-sharding"
		// other reasons may apply as well
	}
	if d.Disable {
		v.reject[c12ErrDisabled] = true
		if v.class == "" {
			v.class = "reject-disabled"
		}
		return v
	}
	// --- tags
	set := map[int]bool{}
	hostSet := false
	for _, t := range e.Tags {
		idx, legacy, draft, amb := d.resolve(t.K)
		if amb {
			v.lenient = "tag name spelling not covered by the docs"
			return v
		}
		if idx == -1 {
			if !utf8.Valid(t.K) {
				v.reject[c12ErrTagNameUTF8] = true
				continue
			}
			if !utf8.Valid(t.V) {
				// the statement says tag values must be valid; the agent ignores unknown tags entirely: either outcome
				v.lenient = "invalid UTF-8 value under an unknown tag name"
			}
			if draft {
				v.warn[c12WarnDraft] = true
			} else {
				v.warn[c12WarnTagNotFound] = true
			}
			continue
		}
		if legacy {
			v.warn[c12WarnLegacyName] = true
		}
		if !utf8.Valid(t.V) {
			v.reject[c12ErrTagValueUTF8] = true
			if strings.Contains(string(t.V), "9\x02XV") {
				v.reject[c12ErrCorrupted] = true
			}
			continue
		}
		if strings.Contains(string(t.V), "9\x02XV") {
			v.reject[c12ErrCorrupted] = true
			continue
		}
		if idx == -2 {
			if hostSet {
				v.warn[c12WarnSetTwice] = true
			}
			hostSet = true
			continue
		}
		mark := func(i int, tv c12TagVal) {
			if set[i] {
				v.warn[c12WarnSetTwice] = true
			}
			set[i] = true
			v.tagVals[i] = append(v.tagVals[i], tv)
		}
		raw := d.rawKind(idx)
		switch {
		case len(t.V) == 0:
			mark(idx, c12TagVal{})
		case raw == "int64" || raw == "uint64":
			ok := false
			var u uint64
			if c12Decimal.Match(t.V) {
				if t.V[0] == '-' {
					if n, err := strconv.ParseInt(string(t.V), 10, 64); err == nil {
						u, ok = uint64(n), true
					}
				} else if n, err := strconv.ParseUint(string(t.V), 10, 64); err == nil {
					u, ok = n, true
				}
			}
			if !ok {
				v.warn[c12WarnRaw] = true
				v.altRaw = true
				continue
			}
			mark(idx+1, c12TagVal{i: int32(uint32(u >> 32))})
			mark(idx, c12TagVal{i: int32(uint32(u))})
		case raw != "":
			ok := false
			var n int64
			if c12Decimal.Match(t.V) {
				var err error
				n, err = strconv.ParseInt(string(t.V), 10, 64)
				ok = err == nil && n >= math.MinInt32 && n <= math.MaxUint32
			}
			if !ok {
				v.warn[c12WarnRaw] = true
				v.altRaw = true
				continue
			}
			mark(idx, c12TagVal{i: int32(uint32(uint64(n)))})
		default:
			if id, ok := c12Mappings[string(t.V)]; ok {
				mark(idx, c12TagVal{i: id})
			} else if c12Plain(t.V) {
				mark(idx, c12TagVal{s: string(t.V)})
			} else {
				mark(idx, c12TagVal{unknown: true})
			}
		}
	}
	// --- the data
	hasVal := len(e.Values)+len(e.Hist) > 0
	hasU := len(e.Uniques) > 0
	c := float64(e.Counter)
	if hasVal && hasU {
		v.reject[c12ErrBothSet] = true
	}
	if !hasVal && !hasU && c == 0 {
		v.reject[c12ErrZeroCounter] = true
	}
	counterReasons := func(f float64) {
		switch {
		case math.IsNaN(f):
			v.reject[c12ErrNanInfCounter] = true
		case f < 0:
			v.reject[c12ErrNegCounter] = true
			if math.IsInf(f, 0) {
				v.reject[c12ErrNanInfCounter] = true
			}
		case f > c12MaxF32:
			v.reject[c12ErrBigCounter] = true
			if math.IsInf(f, 0) {
				v.reject[c12ErrNanInfCounter] = true
			}
		}
	}
	valueReasons := func(f float64) {
		switch {
		case math.IsNaN(f):
			v.reject[c12ErrNanInfValue] = true
		case !c12Finite32(f):
			v.reject[c12ErrBigValue] = true
			if math.IsInf(f, 0) {
				v.reject[c12ErrNanInfValue] = true
			}
		}
	}
	counterReasons(c)
	for _, x := range e.Values {
		valueReasons(float64(x))
	}
	for _, h := range e.Hist {
		valueReasons(float64(h[0]))
		counterReasons(float64(h[1]))
	}
	if len(v.reject) > 0 {
		if v.class == "" {
			rs := []string{}
			for r := range v.reject {
				rs = append(rs, strconv.Itoa(int(r)))
			}
			sort.Strings(rs)
			v.class = "reject-" + rs[0]
		}
		if v.altRaw {
			v.reject[c12ErrRawLegacy] = true
			v.reject[c12WarnRaw] = true
		}
		return v
	}
	// --- accepted: the documented weighting
	total := float64(len(e.Values))
	s, q := 0.0, 0.0
	first := true
	upd := func(x float64) {
		if first || x < v.min {
			v.min = x
		}
		if first || x > v.max {
			v.max = x
		}
		first = false
	}
	for _, x := range e.Values {
		s += float64(x)
		q += float64(x) * float64(x)
		upd(float64(x))
	}
	zeroWeight := false
	for _, h := range e.Hist {
		w := float64(h[1])
		total += w
		s += float64(h[0]) * w
		q += float64(h[0]) * float64(h[0]) * w
		if w == 0 {
			zeroWeight = true
		} else {
			upd(float64(h[0]))
		}
	}
	if hasU {
		total = float64(len(e.Uniques))
		for _, u := range e.Uniques {
			s += float64(u)
			q += float64(u) * float64(u)
			upd(float64(u))
		}
		v.uniques = e.Uniques
	}
	v.hasValues = hasVal || hasU
	v.count = c
	if c == 0 {
		v.count = total
	}
	if v.hasValues && total == 0 {
		if c != 0 {
			v.lenient = "counter with a histogram of total weight 0: average undefined"
			return v
		}
		v.hasValues = false // contributes nothing at all
	}
	if v.hasValues {
		v.sum, v.sumsq = s*(v.count/total), q*(v.count/total)
	}
	_ = zeroWeight // min/max of zero-weight entries are not asserted, see c12CheckEvent
	switch {
	case hasU && c != 0:
		v.class = "accept-unique-scaled"
	case hasU:
		v.class = "accept-unique"
	case hasVal && c != 0 && c != total:
		v.class = "accept-values-scaled"
	case len(e.Hist) > 0:
		v.class = "accept-hist"
	case hasVal:
		v.class = "accept-values"
	default:
		v.class = "accept-counter"
	}
	return v
}

// ---------------------------------------------------------------- the oracle

func c12Close(got, want, scale float64) bool {
	if got == want {
		return true
	}
	return math.Abs(got-want) <= 1e-9*(math.Abs(scale)+math.Abs(want)+math.Abs(got))+1e-290
}

type c12RefRow struct {
	uniq      map[int64]bool
	pureValue bool // only value-bearing (non unique) events so far
	touched   bool
}

func c12IsStatus(k c12RowKey) bool {
	return k.metric == c12StatusMetric || k.metric == c12StatusMetricNoShard
}

func c12Prop(t vpT, c c12Case) (nontrivial bool, classes []string) {
	a, err := c12GetAgent()
	if err != nil {
		t.Fatalf("VP-INCONCLUSIVE cannot build agent: %v", err)
	}
	c12ResetShards(a)
	storage := metajournal.MakeMetricsStorage(nil)
	var evs []tlmetadata.Event
	for i := range c.Descs {
		d := &c.Descs[i]
		evs = append(evs, tlmetadata.Event{Id: int64(d.ID), Name: d.Name, EventType: 0 /* metric */, Version: int64(i + 1), Data: d.journalJSON()})
	}
	storage.ApplyEvent(evs)
	for i := range c.Descs {
		if storage.GetMetaMetricByName(c.Descs[i].Name) == nil {
			t.Fatalf("harness: description %d not loaded: %s", i, c.Descs[i].journalJSON())
		}
	}
	w := startWorker(a, storage, nil, nil)
	ref := map[c12RowKey]*c12RefRow{}
	before := c12Snapshot(a)
	var scratch []byte
	for ei := range c.Events {
		e := &c.Events[ei]
		verdict := c12Judge(c.Descs, e)
		// build the wire-level metric exactly as a decoder would leave it
		var m tlstatshouse.MetricBytes
		m.Name = append([]byte{}, e.Metric...)
		for _, tg := range e.Tags {
			m.Tags = append(m.Tags, tl.DictFieldStringStringBytes{Key: append([]byte{}, tg.K...), Value: append([]byte{}, tg.V...)})
		}
		if float64(e.Counter) != 0 || math.IsNaN(float64(e.Counter)) {
			m.SetCounter(float64(e.Counter))
		}
		if e.Ts != 0 {
			m.SetTs(e.Ts)
		}
		if len(e.Values) > 0 {
			vals := make([]float64, len(e.Values))
			for i, x := range e.Values {
				vals[i] = float64(x)
			}
			m.SetValue(vals)
		}
		if len(e.Uniques) > 0 {
			m.SetUnique(append([]int64{}, e.Uniques...))
		}
		if len(e.Hist) > 0 {
			hs := make([][2]float64, len(e.Hist))
			for i, h := range e.Hist {
				hs[i] = [2]float64{float64(h[0]), float64(h[1])}
			}
			m.SetHistogram(hs)
		}
		var firstErr error
		w.HandleMetrics(data_model.HandlerArgs{MetricBytes: &m, Scratch: &scratch, FirstError: &firstErr})
		after := c12Snapshot(a)
		changed := c12Changed(before, after)
		what := fmt.Sprintf("event %d %s", ei, c12Describe(e))
		cls := c12CheckEvent(t, what, &verdict, e, before, after, changed, ref, firstErr)
		classes = append(classes, cls...)
		if len(verdict.reject) > 0 || (len(e.Values)+len(e.Uniques) > 0 && float64(e.Counter) != 0) {
			nontrivial = true
		}
		before = after
	}
	return nontrivial, classes
}

func c12Describe(e *c12Event) string {
	var tags []string
	for _, t := range e.Tags {
		tags = append(tags, fmt.Sprintf("%q=%q", t.K, t.V))
	}
	return fmt.Sprintf("{metric=%q tags=[%s] counter=%v ts=%d values=%v uniques=%v hist=%v}", e.Metric, strings.Join(tags, " "), float64(e.Counter), e.Ts, e.Values, e.Uniques, e.Hist)
}

func c12KeyString(k c12RowKey) string {
	var sb strings.Builder
	fmt.Fprintf(&sb, "metric=%d ts=%d", k.metric, k.ts)
	for i := 0; i < c12MaxTags; i++ {
		if k.tags[i] != 0 || k.stags[i] != "" {
			fmt.Fprintf(&sb, " %d:(%d,%q)", i, k.tags[i], k.stags[i])
		}
	}
	if k.topI != 0 || k.topS != "" {
		fmt.Fprintf(&sb, " top:(%d,%q)", k.topI, k.topS)
	}
	return sb.String()
}

func c12CheckEvent(t vpT, what string, v *c12Verdict, e *c12Event, before, after map[c12RowKey]c12Row, changed []c12RowKey,
	ref map[c12RowKey]*c12RefRow, firstErr error) (classes []string) {
	dump := func() string {
		var sb strings.Builder
		for _, k := range changed {
			fmt.Fprintf(&sb, "\n    %s: %+v -> %+v", c12KeyString(k), before[k], after[k])
		}
		return sb.String()
	}
	var status, metric []c12RowKey
	for _, k := range changed {
		if c12IsStatus(k) {
			status = append(status, k)
		} else {
			metric = append(metric, k)
		}
	}
	// every status row moves by exactly one event
	for _, k := range status {
		if d := after[k].count - before[k].count; d != 1 {
			t.Fatalf("%s: ingestion-status row %s moved by %v, want 1%s", what, c12KeyString(k), d, dump())
		}
	}
	observeMetric := func() { // keep the reference unique sets in step for rows we do not assert
		for _, k := range metric {
			r := ref[k]
			if r == nil {
				r = &c12RefRow{uniq: map[int64]bool{}, pureValue: true}
				ref[k] = r
			}
			r.touched = true
			r.pureValue = false
			for _, u := range e.Uniques {
				r.uniq[u] = true
			}
		}
	}
	if v.lenient != "" {
		observeMetric()
		return []string{"unasserted: " + v.lenient}
	}
	if len(v.reject) > 0 {
		if len(metric) != 0 {
			t.Fatalf("%s: must be rejected (%v) but a metric row changed%s", what, c12Reasons(v.reject), dump())
		}
		if len(status) != 1 {
			t.Fatalf("%s: must produce exactly one ingestion-status record (%v), got %d%s", what, c12Reasons(v.reject), len(status), dump())
		}
		k := status[0]
		if !v.reject[k.tags[2]] {
			t.Fatalf("%s: ingestion-status record names status %d, applicable reasons are %v%s", what, k.tags[2], c12Reasons(v.reject), dump())
		}
		if v.idKnown && k.tags[1] != v.metricID {
			t.Fatalf("%s: ingestion-status record is attributed to metric %d, want %d%s", what, k.tags[1], v.metricID, dump())
		}
		if firstErr == nil && k.tags[2] != c12ErrSharding {
			t.Fatalf("%s: rejected (status %d) but no error was returned to the sender", what, k.tags[2])
		}
		return []string{v.class, "status-" + strconv.Itoa(int(k.tags[2]))}
	}
	// accepted
	if v.altRaw && len(metric) == 0 && len(status) == 1 && (status[0].tags[2] == c12ErrRawLegacy || status[0].tags[2] == c12WarnRaw) {
		return []string{"raw-invalid-rejected"}
	}
	if firstErr != nil {
		t.Fatalf("%s: valid event, but an error was returned to the sender: %v%s", what, firstErr, dump())
	}
	for _, k := range status {
		st := k.tags[2]
		if !c12Warnings[st] {
			t.Fatalf("%s: valid event, but an ingestion-status error record (status %d) was written%s", what, st, dump())
		}
		if k.tags[1] != v.metricID {
			t.Fatalf("%s: ingestion-status record is attributed to metric %d, want %d%s", what, k.tags[1], v.metricID, dump())
		}
		if st != c12OK && st != c12WarnFuture && !v.warn[st] {
			t.Fatalf("%s: warning status %d has no cause in the event (expected warnings %v)%s", what, st, c12Reasons(v.warn), dump())
		}
		classes = append(classes, "status-"+strconv.Itoa(int(st)))
	}
	for wst := range v.warn {
		found := false
		for _, k := range status {
			found = found || k.tags[2] == wst
		}
		if !found {
			t.Fatalf("%s: expected a warning record with status %d%s", what, wst, dump())
		}
	}
	if v.count == 0 {
		if len(metric) != 0 {
			t.Fatalf("%s: event of total weight 0 changed a metric row%s", what, dump())
		}
		return append(classes, "accept-zero-weight")
	}
	if len(metric) == 0 {
		for k, r := range before { // x + tiny == x in floating point: a huge row absorbs the event without a trace
			if k.metric == v.metricID && r.count*1e-15 >= v.count {
				return append(classes, "accept-absorbed-by-huge-row")
			}
		}
	}
	if len(metric) != 1 {
		t.Fatalf("%s: valid event must change exactly one metric row, changed %d%s", what, len(metric), dump())
	}
	k := metric[0]
	if k.metric != v.metricID {
		t.Fatalf("%s: row of metric %d changed, want %d%s", what, k.metric, v.metricID, dump())
	}
	// the row key
	for i := 0; i < c12MaxTags; i++ {
		gotI, gotS := k.tags[i], k.stags[i]
		if i == c12STop {
			gotI, gotS = k.topI, k.topS
			if k.tags[i] != 0 || k.stags[i] != "" {
				t.Fatalf("%s: string-top tag left in the row key%s", what, dump())
			}
		}
		cands := v.tagVals[i]
		if len(cands) == 0 {
			if gotI != 0 || gotS != "" {
				t.Fatalf("%s: tag %d is (%d,%q), the event does not set it%s", what, i, gotI, gotS, dump())
			}
			continue
		}
		ok := false
		for _, cnd := range cands {
			if cnd.unknown {
				ok = ok || (gotI == 0 && gotS != "")
			} else {
				ok = ok || (gotI == cnd.i && gotS == cnd.s)
			}
		}
		if !ok {
			t.Fatalf("%s: tag %d is (%d,%q), want one of %+v%s", what, i, gotI, gotS, cands, dump())
		}
	}
	// the aggregates
	old, now := before[k], after[k]
	if !c12Close(now.count-old.count, v.count, old.count) {
		t.Fatalf("%s: row count moved by %v, want %v%s", what, now.count-old.count, v.count, dump())
	}
	r := ref[k]
	if r == nil {
		r = &c12RefRow{uniq: map[int64]bool{}, pureValue: true}
		ref[k] = r
	}
	if v.hasValues {
		if !c12Close(now.sum-old.sum, v.sum, old.sum) {
			t.Fatalf("%s: row sum moved by %v, want %v (count %v)%s", what, now.sum-old.sum, v.sum, v.count, dump())
		}
		if !c12Close(now.sumsq-old.sumsq, v.sumsq, old.sumsq) {
			t.Fatalf("%s: row sum of squares moved by %v, want %v%s", what, now.sumsq-old.sumsq, v.sumsq, dump())
		}
		zeroW := false
		for _, h := range e.Hist {
			zeroW = zeroW || float64(h[1]) == 0
		}
		if !now.set {
			t.Fatalf("%s: row has no value after a value event%s", what, dump())
		}
		if !zeroW {
			wmin, wmax := v.min, v.max
			if old.set {
				wmin, wmax = math.Min(old.min, v.min), math.Max(old.max, v.max)
			}
			if now.min != wmin || now.max != wmax {
				t.Fatalf("%s: row min/max %v/%v, want %v/%v%s", what, now.min, now.max, wmin, wmax, dump())
			}
		}
	} else if now.sum != old.sum || now.sumsq != old.sumsq || now.set != old.set || now.min != old.min || now.max != old.max {
		t.Fatalf("%s: counter event changed value aggregates%s", what, dump())
	}
	for _, u := range v.uniques {
		r.uniq[u] = true
	}
	if now.uniq != len(r.uniq) {
		t.Fatalf("%s: row holds %d distinct uniques, want %d%s", what, now.uniq, len(r.uniq), dump())
	}
	if len(v.uniques) > 0 || !v.hasValues {
		r.pureValue = false
	}
	r.touched = true
	if v.percentiles && r.pureValue && now.set && now.min != now.max {
		if !now.hasDigest || !c12Close(now.digest, now.count, now.count) {
			t.Fatalf("%s: percentile digest weight %v (present=%v), row count %v%s", what, now.digest, now.hasDigest, now.count, dump())
		}
		classes = append(classes, "digest-checked")
	}
	return append(classes, v.class)
}

func c12Reasons(m map[int32]bool) []int {
	var r []int
	for k := range m {
		r = append(r, int(k))
	}
	sort.Ints(r)
	return r
}

// ---------------------------------------------------------------- generators

var c12Names = []string{"c12_alpha", "c12_beta"}

func c12GenDesc(i int) *rapid.Generator[c12Desc] {
	return rapid.Custom(func(t *rapid.T) c12Desc {
		d := c12Desc{Name: c12Names[i], ID: int32(1001 + i)}
		n := rapid.IntRange(0, 6).Draw(t, "ntags")
		custom := []string{"", "plat", "ver", "code", "uid", "big"}
		for j := 0; j < n; j++ {
			td := c12TagDesc{}
			if j > 0 && rapid.Bool().Draw(t, "named") {
				td.Name = custom[j]
			}
			if j > 0 {
				td.Raw = rapid.SampledFrom([]string{"", "", "", "int", "uint", "hex", "int64", "uint64"}).Draw(t, "raw")
			}
			d.Tags = append(d.Tags, td)
		}
		if rapid.IntRange(0, 2).Draw(t, "draft") == 0 {
			d.Drafts = []string{"drafty"}
		}
		d.Disable = rapid.IntRange(0, 15).Draw(t, "disable") == 7
		d.Kind = rapid.SampledFrom([]string{"", "counter", "value", "value_p", "unique", "mixed", "mixed_p"}).Draw(t, "kind")
		d.Resolution = rapid.SampledFrom([]int{0, 0, 1, 5, 15, 60}).Draw(t, "res")
		if rapid.IntRange(0, 3).Draw(t, "stop") == 0 {
			d.STopName = "stop"
		}
		d.Shard = rapid.SampledFrom([]string{"", "", "", "fixed_ok", "", "", "fixed_bad", "", "", "fixed_ok", "", "", ""}).Draw(t, "shard")
		return d
	})
}

func c12GenEvent(descs []c12Desc) *rapid.Generator[c12Event] {
	return rapid.Custom(func(t *rapid.T) c12Event {
		var e c12Event
		di := rapid.IntRange(0, len(descs)-1).Draw(t, "desc")
		d := &descs[di]
		switch rapid.SampledFrom([]string{"known", "known", "known", "known", "known", "known", "unknown", "bad", "utf", "builtin", "known", "known", "known", "known", "known", "known", "known", "known"}).Draw(t, "mk") {
		case "unknown":
			e.Metric = []byte("c12_unknown")
		case "bad":
			e.Metric = []byte(rapid.SampledFrom([]string{"1bad name", "", "  c12_alpha", "c12_alpha ", "C12_ALPHA", "c12_\u0436"}).Draw(t, "badname"))
		case "utf":
			e.Metric = []byte(rapid.SampledFrom([]string{"c12_\xff", "\xfe\xfe", "c12_alpha\xc3"}).Draw(t, "utfname"))
		case "builtin":
			e.Metric = []byte(rapid.SampledFrom([]string{"__src_ingestion_status", "__agg_insert_time", "__agg_bucket_info"}).Draw(t, "builtin"))
		default:
			e.Metric = []byte(d.Name)
		}
		nt := rapid.SampledFrom([]int{0, 1, 1, 2, 2, 3, 4}).Draw(t, "ntags")
		for j := 0; j < nt; j++ {
			var k string
			if j > 0 && rapid.IntRange(0, 5).Draw(t, "dup") == 0 {
				k = string(e.Tags[rapid.IntRange(0, j-1).Draw(t, "dupof")].K)
			} else {
				switch rapid.SampledFrom([]string{"idx", "custom", "idx", "custom", "idx", "s", "h", "alt", "draft", "unk", "badk", "idx"}).Draw(t, "kk") {
				case "idx":
					k = strconv.Itoa(rapid.SampledFrom([]int{1, 2, 0, 3, 1, 2, 4, 5, 6, 15, 16, 46, 47}).Draw(t, "idx"))
				case "custom":
					if len(d.Tags) > 1 {
						td := d.Tags[rapid.IntRange(1, len(d.Tags)-1).Draw(t, "ci")]
						k = td.Name
					}
					if k == "" {
						k = "1"
					}
				case "s":
					k = "_s"
				case "h":
					k = "_h"
				case "alt":
					k = rapid.SampledFrom([]string{"stop", "key1", "key2", "key15", "key16"}).Draw(t, "alt")
				case "draft":
					k = "drafty"
				case "unk":
					k = rapid.SampledFrom([]string{"nosuch", " a  b ", "48", "99", "plat", "\u0436", "key"}).Draw(t, "unk")
				default:
					k = rapid.SampledFrom([]string{"\xffk", "k\xfe", "\xc3"}).Draw(t, "badk")
				}
			}
			var v string
			switch rapid.SampledFrom([]string{"plain", "num", "plain", "num", "mapped", "plain", "num", "empty", "badnum", "norm", "badv", "corrupted", "plain"}).Draw(t, "vk") {
			case "plain":
				v = rapid.SampledFrom([]string{"v1", "v2", "prod 1", "a", "Z-9_x.y", "v3"}).Draw(t, "plain")
			case "mapped":
				v = rapid.SampledFrom([]string{"production", "staging", "mapped_a", "mapped_b"}).Draw(t, "mapped")
			case "empty":
				v = ""
			case "num":
				v = rapid.SampledFrom([]string{"5", "0", "-5", "123", "2147483647", "2147483648", "4294967295", "-2147483648", "-1", "4294967296", "9223372036854775807",
					"18446744073709551615", "-9223372036854775808", "00012"}).Draw(t, "num")
			case "badnum":
				v = rapid.SampledFrom([]string{"abc", "1.5", "4294967296000000000000", "-2147483649", "12a", "0x10"}).Draw(t, "badnum")
			case "norm":
				v = rapid.SampledFrom([]string{" x  y ", "tab\tx", "line\nbreak", "\u00a0nbsp", "\u0436\u0436", strings.Repeat("L", 200), "\u00e9"}).Draw(t, "norm")
			case "badv":
				v = rapid.SampledFrom([]string{"\xfe\xff", "ok\xc3", "\xed\xa0\x80"}).Draw(t, "badv")
			default:
				v = rapid.SampledFrom([]string{"a9\x02XVb", "9\x02XV", "9\x02XV\xff"}).Draw(t, "corrupted")
			}
			e.Tags = append(e.Tags, c12Tag{K: []byte(k), V: []byte(v)})
		}
		goodF := rapid.SampledFrom([]float64{1, 2, 3, 0.5, -3, 7, 100, 0, 1e6, -0.25, c12MaxF32, -c12MaxF32})
		badF := rapid.SampledFrom([]float64{math.NaN(), math.Inf(1), math.Inf(-1), 3.5e38, -3.5e38, 1e300, math.MaxFloat64})
		val := func(label string) vpF {
			if rapid.IntRange(0, 14).Draw(t, label+"bad") == 0 {
				return vpF(badF.Draw(t, label+"b"))
			}
			return vpF(goodF.Draw(t, label))
		}
		switch rapid.SampledFrom([]string{"zero", "pos", "zero", "pos", "zero", "pos", "zero", "bad", "negzero"}).Draw(t, "ck") {
		case "zero":
			e.Counter = 0
		case "pos":
			e.Counter = vpF(rapid.SampledFrom([]float64{1, 2, 2.5, 7, 20, 0.001, 3, 10, 1e9, c12MaxF32}).Draw(t, "c"))
		case "bad":
			e.Counter = vpF(rapid.SampledFrom([]float64{-1, -0.5, math.NaN(), math.Inf(1), math.Inf(-1), 3.5e38, 1e300, -1e-300}).Draw(t, "cbad"))
		default:
			e.Counter = vpF(math.Copysign(0, -1))
		}
		switch rapid.SampledFrom([]string{"values", "uniques", "counter", "hist", "values", "uniques", "counter", "hist", "values", "mixed", "both"}).Draw(t, "shape") {
		case "counter": // counter only (or empty)
		case "values":
			for i := rapid.IntRange(1, 4).Draw(t, "nv"); i > 0; i-- {
				e.Values = append(e.Values, val("v"))
			}
		case "hist":
			for i := rapid.IntRange(1, 3).Draw(t, "nh"); i > 0; i-- {
				w := vpF(rapid.SampledFrom([]float64{1, 2, 0.5, 3, 10, 1, 2, 0.25, 4, 1, 2, 0, -1, math.NaN(), 3.5e38, math.Inf(1)}).Draw(t, "hw"))
				e.Hist = append(e.Hist, [2]vpF{val("hv"), w})
			}
		case "mixed":
			e.Values = append(e.Values, val("v"))
			e.Hist = append(e.Hist, [2]vpF{val("hv"), vpF(rapid.SampledFrom([]float64{1, 2, 0.5}).Draw(t, "hw"))})
		case "uniques":
			e.Uniques = rapid.SliceOfN(rapid.SampledFrom([]int64{1, 2, 3, 100, -5, 1 << 40, math.MaxInt64, math.MinInt64, 0}), 1, 5).Draw(t, "uniq")
		default:
			e.Values = append(e.Values, val("v"))
			e.Uniques = []int64{1}
		}
		e.Ts = rapid.SampledFrom([]uint32{c12T0, c12T0, c12T0, c12T0, c12T0, c12T0, c12T0 - 1, c12T0 + 1, c12T0 + 2, 0, 1, c12T0 + 1000, c12T0 - 1000, c12T0 + 3, c12T0 + 4}).Draw(t, "ts")
		return e
	})
}

func c12Gen() *rapid.Generator[c12Case] {
	return rapid.Custom(func(t *rapid.T) c12Case {
		var c c12Case
		nd := rapid.IntRange(1, 2).Draw(t, "ndescs")
		for i := 0; i < nd; i++ {
			c.Descs = append(c.Descs, c12GenDesc(i).Draw(t, "desc"))
		}
		c.Events = rapid.SliceOfN(c12GenEvent(c.Descs), 1, 8).Draw(t, "events")
		return c
	})
}

func TestVerifC12Ingest(t *testing.T) {
	ev := vpNewEv(t, "C12", "ingest")
	rapid.Check(t, func(rt *rapid.T) {
		c := c12Gen().Draw(rt, "case")
		vpRunCase(rt, "C12", "ingest", c, func() {
			nt, cls := c12Prop(rt, c)
			ev.Case(nt, c, cls...)
		})
	})
}

func init() {
	vpReplayers["C12/ingest"] = func(t vpT, raw json.RawMessage) {
		var c c12Case
		if err := json.Unmarshal(raw, &c); err != nil {
			t.Fatalf("decode: %v", err)
		}
		c12Prop(t, c)
	}
}
