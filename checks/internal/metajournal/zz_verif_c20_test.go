//go:build verif

package metajournal

import (
	"context"
	"encoding/json"
	"fmt"
	"math"
	"os"
	"path/filepath"
	"sort"
	"strings"
	"testing"

	"github.com/mailru/easyjson"
	"pgregory.net/rapid"

	"github.com/VKCOM/statshouse/internal/data_model"
	"github.com/VKCOM/statshouse/internal/data_model/gen2/tlmetadata"
	"github.com/VKCOM/statshouse/internal/data_model/gen2/tlstatshouse"
	"github.com/VKCOM/statshouse/internal/format"
)

// ---------- C20: metadata replicas converge and name lookups stay correct ----------
//
// A case is a list of operations. Source operations edit a reference model of the metadata engine
// (one table of entities, global version counter, names unique per type, namespace of a name must
// exist, namespaces cannot be renamed - the rules of internal/metadata). Delivery operations move
// events along source -> {full journal, compact journal} -> agents through the real entry points
// (updateJournalIsFinished with a loader, getJournalDiffLocked3Limits + TL round trip of the
// GetMetrics3 result). Reload operations save, optionally truncate, and reload a journal file.
// Selectors are interpreted modulo the current model, so every operation list is valid.

type c20Op struct {
	K string `json:"k"`
	A int    `json:"a,omitempty"`
	B int    `json:"b,omitempty"`
	C int    `json:"c,omitempty"`
	F bool   `json:"f,omitempty"`
}

type c20Case struct {
	Files bool     `json:"files,omitempty"` // journals live in real files instead of byte slices
	Lim   [][2]int `json:"lim,omitempty"`   // when set: replica i always asks with item limit index Lim[i][0] and byte limit index Lim[i][1], also while draining
	Ops   []c20Op  `json:"ops"`
}

var c20ItemLimits = []int{1, 1, 2, 3, 5, data_model.MaxJournalItemsSent}
var c20ByteLimits = []int{data_model.MaxJournalBytesSent, data_model.MaxJournalBytesSent, 1, 300, 100_000}

var c20BaseNames = []string{"a", "ab", "abc", "abd", "b", "ba", "c", "p:a", "p:ab", "q:a", "p:b", "q:ab"}

// metric names additionally include the remote-config metrics, whose description compact journals must keep
var c20RemoteConfigNames = []string{"statshouse_agent_remote_config", "statshouse_aggregator_remote_config", "statshouse_api_remote_config", "statshouse_journal_dump"}
var c20MetricNames = append(append([]string{}, c20BaseNames...), c20RemoteConfigNames...)
var c20NamespaceNames = []string{"p", "q"}
var c20Kinds = []string{format.MetricKindCounter, format.MetricKindValue, format.MetricKindValuePercentiles, format.MetricKindMixedPercentiles}
var c20BigSizes = []int{200_000, 290_000, 150_000}

// content of an entity in the reference model (plain data, rendered to the JSON the API would store)
type c20Content struct {
	DescKind int  // 0 none, 1 plain, 2 with a toggle mark (survives compaction), 3 big plain, 4 big with mark, 5 short with the other marker
	Extra    bool // string top name/description, skip flags and a metric type are set
	DescN    int
	NTags    int
	Raw      bool
	Kind     int
	Weight   int
	Res      int
	Disable  bool
	DashDel  uint32
}

type c20Ent struct {
	typ  int32
	id   int64
	name string
	nsID int64
	c    c20Content
	ev   tlmetadata.Event // what the metadata engine returns for this entity in its journal
}

type c20Source struct {
	ents    map[journalEventID]*c20Ent
	byName  map[int32]map[string]*c20Ent // per type
	freed   map[int32][]string           // names released by a rename and not held now
	nextID  int64
	version int64
	ops     int                        // number of applied source edits (drives update time)
	everHad map[int32]map[string]int64 // name -> id of the last holder
}

func c20NewSource() *c20Source {
	return &c20Source{
		ents:    map[journalEventID]*c20Ent{},
		byName:  map[int32]map[string]*c20Ent{format.MetricEvent: {}, format.MetricsGroupEvent: {}, format.NamespaceEvent: {}, format.DashboardEvent: {}, format.PromConfigEvent: {}},
		freed:   map[int32][]string{},
		everHad: map[int32]map[string]int64{format.MetricEvent: {}, format.MetricsGroupEvent: {}, format.NamespaceEvent: {}, format.DashboardEvent: {}, format.PromConfigEvent: {}},
	}
}

func (c c20Content) description() string {
	switch c.DescKind {
	case 1:
		return fmt.Sprintf("d%d", c.DescN)
	case 2:
		return fmt.Sprintf("d%d %s1", c.DescN, format.ToggleDescriptionMark)
	case 3:
		return fmt.Sprintf("d%d ", c.DescN) + strings.Repeat("x", c20BigSizes[c.DescN%len(c20BigSizes)])
	case 4:
		return fmt.Sprintf("d%d __whales_off ", c.DescN) + strings.Repeat("y", c20BigSizes[c.DescN%len(c20BigSizes)])
	case 5:
		return fmt.Sprintf("__round_sample_factors d%d", c.DescN)
	}
	return ""
}

func (c c20Content) weight() float64 {
	if c.Weight <= 0 {
		return 1
	}
	return float64(c.Weight)
}

// render builds the journal event of e at the current version, the way DBV2.JournalEvents does.
func (s *c20Source) render(t vpT, e *c20Ent) {
	var data string
	switch e.typ {
	case format.MetricEvent:
		v := format.MetricMetaValue{
			MetricID: int32(e.id), Name: e.name, NamespaceID: int32(e.nsID),
			Description: e.c.description(), Disable: e.c.Disable, Kind: c20Kinds[e.c.Kind%len(c20Kinds)],
			Weight: e.c.weight(), Resolution: e.c.Res,
		}
		if e.c.Extra {
			v.StringTopName, v.StringTopDescription = "st", "string top"
			v.SkipMaxHost, v.SkipMinHost, v.SkipSumSquare = true, true, true
			v.MetricType = format.MetricByte
		}
		for i := 0; i < e.c.NTags; i++ {
			tag := format.MetricMetaTag{}
			if i > 0 {
				tag.Name = fmt.Sprintf("t%d", i)
				tag.Description = fmt.Sprintf("tag %d", i)
				if i == 1 && e.c.Raw {
					tag.RawKind = "hex"
				}
			}
			v.Tags = append(v.Tags, tag)
		}
		ev, err := EventFromMetricMeta(v, "")
		if err != nil {
			t.Fatalf("harness: %v", err)
		}
		data = ev.Data
	case format.MetricsGroupEvent:
		ev, err := EventFromGroupMeta(format.MetricsGroup{ID: int32(e.id), Name: e.name, NamespaceID: int32(e.nsID), Weight: e.c.weight(), Disable: e.c.Disable}, "")
		if err != nil {
			t.Fatalf("harness: %v", err)
		}
		data = ev.Data
	case format.NamespaceEvent:
		ev, err := EventFromNamespaceMeta(format.NamespaceMeta{ID: int32(e.id), Name: e.name, Weight: e.c.weight(), Disable: e.c.Disable}, "")
		if err != nil {
			t.Fatalf("harness: %v", err)
		}
		data = ev.Data
	case format.DashboardEvent:
		data = fmt.Sprintf(`{"n":%d}`, e.c.DescN)
	case format.PromConfigEvent:
		data = fmt.Sprintf("cfg-%d", e.c.DescN)
	}
	e.ev = tlmetadata.Event{
		Id: e.id, Name: e.name, Version: s.version, Data: data,
		UpdateTime: uint32(1_700_000_000 + s.ops/3), // several edits share a second
		EventType:  e.typ, Unused: e.c.DashDel,
	}
	e.ev.SetNamespaceId(e.nsID)
}

// resolveNS mirrors metadata.resolveNamespace: a name with a namespace prefix needs that namespace.
func (s *c20Source) resolveNS(typ int32, name string) (int64, bool) {
	if typ != format.MetricEvent && typ != format.MetricsGroupEvent {
		return 0, true
	}
	ns, _ := format.SplitNamespace(name)
	if ns == "" {
		return 0, true
	}
	if e := s.byName[format.NamespaceEvent][ns]; e != nil {
		return e.id, true
	}
	return 0, false
}

// pickName selects a free name for (typ): a freed one when asked and available, else from the pool.
func (s *c20Source) pickName(typ int32, sel int, useFreed bool, pool []string) (string, int64, bool) {
	if useFreed {
		var cand []string
		for _, n := range s.freed[typ] {
			if s.byName[typ][n] == nil {
				cand = append(cand, n)
			}
		}
		if len(cand) > 0 {
			n := cand[sel%len(cand)]
			if ns, ok := s.resolveNS(typ, n); ok {
				return n, ns, true
			}
		}
	}
	for i := 0; i < len(pool); i++ {
		n := pool[(sel+i)%len(pool)]
		if s.byName[typ][n] != nil {
			continue
		}
		ns, ok := s.resolveNS(typ, n)
		if !ok {
			continue
		}
		return n, ns, true
	}
	return "", 0, false
}

func (s *c20Source) list(typ int32) []*c20Ent {
	var l []*c20Ent
	for _, e := range s.ents {
		if e.typ == typ {
			l = append(l, e)
		}
	}
	sort.Slice(l, func(i, j int) bool { return l[i].id < l[j].id })
	return l
}

func (s *c20Source) commit(t vpT, e *c20Ent) {
	s.version++
	s.ops++
	s.render(t, e)
}

func (s *c20Source) create(t vpT, typ int32, name string, nsID int64, id int64, c c20Content) *c20Ent {
	if id == 0 {
		s.nextID++
		id = s.nextID
	}
	e := &c20Ent{typ: typ, id: id, name: name, nsID: nsID, c: c}
	s.ents[journalEventID{typ: typ, id: id}] = e
	s.byName[typ][name] = e
	s.commit(t, e)
	return e
}

// diff is the metadata engine's journal query: latest row of every entity with version > from,
// ascending by version, at most limit rows.
func (s *c20Source) diff(from int64, limit int) []tlmetadata.Event {
	var evs []tlmetadata.Event
	for _, e := range s.ents {
		if e.ev.Version > from {
			evs = append(evs, e.ev)
		}
	}
	sort.Slice(evs, func(i, j int) bool { return evs[i].Version < evs[j].Version })
	if limit > 0 && len(evs) > limit {
		evs = evs[:limit]
	}
	return evs
}

// ---------- replicas ----------

type c20Replica struct {
	name    string
	compact bool
	up      int // -1: fed by the source, else index of the upstream replica
	j       *JournalFast
	ms      *MetricsStorage
	buf     []byte
	path    string
	fp      *os.File
	saved   []tlmetadata.Event // journal content the file holds (as of the last effective save / reload)
	damaged bool               // the file was cut and not rewritten since
}

type c20World struct {
	t                                         vpT
	src                                       *c20Source
	reps                                      []*c20Replica
	files                                     bool
	dir                                       string
	maxItems                                  int
	maxBytes                                  int
	last                                      []tlmetadata.Event
	cls                                       map[string]bool
	lastRen                                   map[int32]*c20Ent // entity of each type renamed most recently
	lim                                       [][2]int          // fixed per-replica limits (nil: every delivery brings its own)
	lastCreated                               map[int32]*c20Ent
	borrow                                    map[int32]c20Borrow // the most recent "name taken after another entity released it", per type
	renameOntoFreed, truncReload, groupToggle bool
}

type c20Borrow struct {
	name         string
	owner, taker *c20Ent
}

func (w *c20World) class(s string) { w.cls[s] = true }

func (w *c20World) loaderFor(idx int) MetricsStorageLoader {
	return func(ctx context.Context, from int64, returnIfEmpty bool) ([]tlmetadata.Event, int64, error) {
		r := w.reps[idx]
		if r.up < 0 {
			evs := w.src.diff(from, w.maxItems)
			w.last = evs
			return evs, w.src.version, nil
		}
		up := w.reps[r.up]
		var ret tlmetadata.GetJournalResponsenew
		up.j.mu.RLock()
		up.j.getJournalDiffLocked3Limits(from, &ret, w.maxItems, w.maxBytes)
		var next tlmetadata.GetJournalResponsenew // the first event the replica is missing, asked for without a byte limit
		up.j.getJournalDiffLocked3Limits(from, &next, 1, math.MaxInt)
		up.j.mu.RUnlock()
		if len(next.Events) > 0 {
			// progress: an empty answer means "nothing new" to the client, it would wait at this version forever
			if w.maxBytes < len(next.Events[0].Name)+len(next.Events[0].Data)+60 {
				w.class("byte-limit-below-next-event")
			}
			if len(ret.Events) == 0 {
				w.t.Fatalf("replica %s is behind %s (asks from version %d, next event is v%d of %d bytes) but the diff with limits items=%d bytes=%d is empty: with this batching it never converges",
					r.name, up.name, from, next.Events[0].Version, len(next.Events[0].Data), w.maxItems, w.maxBytes)
			}
			if ret.Events[0] != next.Events[0] {
				w.t.Fatalf("replica %s asks from version %d: diff starts with v%d, the next event of %s is v%d", r.name, from, ret.Events[0].Version, up.name, next.Events[0].Version)
			}
		} else if len(ret.Events) != 0 {
			w.t.Fatalf("replica %s asks from version %d: %d events returned, %s has nothing newer", r.name, from, len(ret.Events), up.name)
		}
		// the answer travels as the TL result of statshouse.getMetrics3
		args := tlstatshouse.GetMetrics3{From: from}
		wire, err := args.WriteResultTL1(nil, ret)
		if err != nil {
			w.t.Fatalf("harness: cannot serialize journal response: %v", err)
		}
		var got tlmetadata.GetJournalResponsenew
		if _, err = args.ReadResultTL1(wire, &got); err != nil {
			w.t.Fatalf("harness: cannot parse journal response: %v", err)
		}
		if len(got.Events) >= 2 && w.maxItems > len(got.Events) {
			w.class("byte-limited-batch")
		}
		w.last = got.Events
		return got.Events, got.CurrentVersion, nil
	}
}

func (w *c20World) open(idx int) error {
	r := w.reps[idx]
	r.ms = MakeMetricsStorage(nil)
	var err error
	if w.files {
		if r.fp != nil {
			_ = r.fp.Close()
		}
		r.fp, err = os.OpenFile(r.path, os.O_CREATE|os.O_RDWR, 0666)
		if err != nil {
			w.t.Fatalf("harness: %v", err)
		}
		r.j, err = LoadJournalFastFile(r.fp, 0, r.compact, []ApplyEvent{r.ms.ApplyEvent})
	} else {
		r.j, err = LoadJournalFastSlice(&r.buf, 0, r.compact, []ApplyEvent{r.ms.ApplyEvent})
	}
	r.j.metaLoader = w.loaderFor(idx)
	return err // callers ignore load errors ("cache can be damaged")
}

func (r *c20Replica) dump() []tlmetadata.Event {
	var ret tlmetadata.GetJournalResponsenew
	r.j.mu.RLock()
	r.j.getJournalDiffLocked3Limits(0, &ret, math.MaxInt, math.MaxInt)
	r.j.mu.RUnlock()
	return append([]tlmetadata.Event(nil), ret.Events...)
}

// staleCollision reports whether applying evs to r meets an event whose name is still held, in r, by
// another id of the same type (the holder's own rename has not arrived yet).
func (w *c20World) staleCollision(r *c20Replica, evs []tlmetadata.Event) (metric, group bool) {
	mn := map[int64]string{}
	gn := map[int64]string{}
	r.ms.mu.RLock()
	for id, m := range r.ms.metricsByID {
		mn[int64(id)] = m.Name
	}
	for id, g := range r.ms.groupsByID {
		gn[int64(id)] = g.Name
	}
	r.ms.mu.RUnlock()
	scan := func(names map[int64]string, e tlmetadata.Event) bool {
		hit := false
		for id, n := range names {
			if id != e.Id && n == e.Name {
				hit = true
			}
		}
		names[e.Id] = e.Name
		return hit
	}
	for _, e := range evs {
		switch e.EventType {
		case format.MetricEvent:
			if scan(mn, e) {
				metric = true
			}
		case format.MetricsGroupEvent:
			if scan(gn, e) {
				group = true
			}
		}
	}
	return
}

func (w *c20World) deliver(idx, maxItems, maxBytes int) (finished bool) {
	r := w.reps[idx]
	if w.lim != nil {
		maxItems, maxBytes = c20ItemLimits[w.lim[idx][0]%len(c20ItemLimits)], c20ByteLimits[w.lim[idx][1]%len(c20ByteLimits)]
	}
	w.maxItems, w.maxBytes = maxItems, maxBytes
	w.last = nil
	// peek at what will arrive to classify the delivery (the loader is deterministic)
	peek, _, _ := r.j.metaLoader(context.Background(), r.j.loaderVersion, false)
	m, g := w.staleCollision(r, peek)
	owner := map[int32]map[string]int64{format.MetricEvent: {}, format.MetricsGroupEvent: {}}
	r.ms.mu.RLock()
	for n, mv := range r.ms.metricsByName {
		owner[format.MetricEvent][n] = int64(mv.MetricID)
	}
	r.ms.mu.RUnlock()
	fin, err := r.j.updateJournalIsFinished(nil)
	if err != nil {
		w.t.Fatalf("journal update of %s failed: %v", r.name, err)
	}
	if m {
		w.class("stale-name-collision")
		w.class("stale-name-collision-metric")
	}
	if g {
		w.class("stale-name-collision")
		w.class("stale-name-collision-group")
	}
	if len(w.last) > 1 {
		w.class("multi-event-batch")
	}
	if r.compact {
		for _, e := range w.last {
			if e.EventType == format.DashboardEvent || e.EventType == format.PromConfigEvent {
				continue
			}
			if have, ok := r.j.journal[journalEventID{typ: e.EventType, id: e.Id}]; ok && have.Version < e.Version {
				w.class("compact-skip") // equal to the stored event except for the version: not stored again
				if id, ok := owner[e.EventType][e.Name]; e.EventType == format.MetricEvent && (!ok || id != e.Id) {
					w.class("compact-skip-of-name-lent-out") // ... while the name index entry was another metric's
				}
			}
		}
	}
	return fin
}

func (w *c20World) drain() {
	order := []int{}
	for i, r := range w.reps {
		if r.up < 0 {
			order = append(order, i)
		}
	}
	for i, r := range w.reps {
		if r.up >= 0 {
			order = append(order, i)
		}
	}
	for _, i := range order {
		n := 0
		for !w.deliver(i, data_model.MaxJournalItemsSent, data_model.MaxJournalBytesSent) {
			if n++; n > 10000 {
				w.t.Fatalf("replica %s does not finish catching up", w.reps[i].name)
			}
		}
	}
}

func c20SameEvents(a, b []tlmetadata.Event) bool {
	if len(a) != len(b) {
		return false
	}
	for i := range a {
		if a[i] != b[i] {
			return false
		}
	}
	return true
}

func (w *c20World) reload(idx int, save bool, permille, cut int) {
	r := w.reps[idx]
	t := w.t
	if save {
		ok, _, err := r.j.Save()
		if err != nil {
			t.Fatalf("save of %s: %v", r.name, err)
		}
		if ok {
			r.saved = r.dump()
			r.damaged = false
		}
	} else if len(r.saved) != len(r.j.journal) {
		w.class("stale-reload")
	}
	var size int
	if w.files {
		st, err := os.Stat(r.path)
		if err != nil {
			t.Fatalf("harness: %v", err)
		}
		size = int(st.Size())
	} else {
		size = len(r.buf)
	}
	if size > data_model.ChunkSize/2 {
		w.class("multi-chunk-journal")
	}
	k := size*permille/1000 - cut
	if permille >= 1000 && cut == 0 {
		k = size
	}
	if k < 0 {
		k = 0
	}
	if k < size {
		if w.files {
			if err := os.Truncate(r.path, int64(k)); err != nil {
				t.Fatalf("harness: %v", err)
			}
		} else {
			r.buf = r.buf[:k]
		}
	}
	if k < size {
		r.damaged = true
	}
	err := w.open(idx)
	got := r.dump()
	if k == size {
		if err != nil && !r.damaged {
			t.Fatalf("reload of intact journal file of %s: %v", r.name, err)
		}
		if !c20SameEvents(got, r.saved) {
			t.Fatalf("reload of %s: journal differs from the saved one: saved %d events, loaded %d", r.name, len(r.saved), len(got))
		}
	} else {
		if size > 0 {
			w.truncReload = true
			w.class("trunc-reload")
		}
		if len(got) > len(r.saved) || !c20SameEvents(got, r.saved[:len(got)]) {
			t.Fatalf("reload of truncated journal file of %s (%d of %d bytes): loaded events are not a prefix of the saved ones", r.name, k, size)
		}
		if len(got) > 0 && len(got) < len(r.saved) {
			w.class("trunc-reload-partial")
		}
	}
	// the reloaded storage must hold exactly the loaded events' entities
	nm := 0
	for _, e := range got {
		if e.EventType == format.MetricEvent {
			nm++
			if m := r.ms.GetMetaMetric(int32(e.Id)); m == nil || m.Version != e.Version || m.Name != e.Name {
				t.Fatalf("reload of %s: metric %d of the loaded journal is not in the storage", r.name, e.Id)
			}
		}
	}
	if n := len(r.ms.GetMetaMetricList(true)); n > nm {
		t.Fatalf("reload of %s: %d metrics in the storage, %d in the loaded journal", r.name, n, nm)
	}
	r.saved = got
}

// ---------- interpretation of source operations ----------

// selectors: 99 = the entity of this type renamed most recently, 98 = any other one, else by position
// 97 (as a name selector with F) = the borrowed name, 96 = the entity that took it, 95 = the one that released it
const c20SelLastRenamed, c20SelOther, c20SelBorrowed, c20SelTaker, c20SelOwner = 99, 98, 97, 96, 95

// 94 = the entity of this type created most recently
const c20SelLastCreated = 94

// ---- the compacted form, written from the comments of format.MakeCompactMetric / keepCompactMetricDescription:
// the description survives exactly for the remote-config metrics and for descriptions carrying one of the
// marker substrings; tag descriptions and value comments, string top description, pre-key and skip flags and
// the metric type are dropped; kind survives only with percentiles; weight 1 and resolution 1 are defaults.

func c20IsRemoteConfigName(name string) bool {
	for _, n := range c20RemoteConfigNames {
		if n == name {
			return true
		}
	}
	return false
}

func c20CompactDescription(name, description string) string {
	if c20IsRemoteConfigName(name) || strings.Contains(description, "__round_sample_factors") ||
		strings.Contains(description, "__whales_off") || strings.Contains(description, "statshouse$") {
		return description
	}
	return ""
}

func (w *c20World) entOf(typ int32, sel int) *c20Ent {
	l := w.src.list(typ)
	if len(l) == 0 {
		return nil
	}
	if b := w.borrow[typ]; b.taker != nil && sel == c20SelTaker {
		return b.taker
	} else if b.owner != nil && sel == c20SelOwner {
		return b.owner
	}
	if lc := w.lastCreated[typ]; lc != nil && sel == c20SelLastCreated {
		return lc
	}
	if lr := w.lastRen[typ]; lr != nil && sel == c20SelLastRenamed {
		return lr
	} else if lr != nil && sel == c20SelOther && len(l) > 1 {
		for _, e := range l {
			if e != lr {
				return e
			}
		}
	}
	return l[sel%len(l)]
}

func (w *c20World) typOf(k byte) (int32, []string) {
	switch k {
	case 'm':
		return format.MetricEvent, c20MetricNames
	case 'g':
		return format.MetricsGroupEvent, c20BaseNames
	case 'n':
		return format.NamespaceEvent, c20NamespaceNames
	}
	return format.DashboardEvent, []string{"dash1", "dash2", "dash3"}
}

func (w *c20World) rename(e *c20Ent, name string, nsID int64) {
	s := w.src
	delete(s.byName[e.typ], e.name)
	s.freed[e.typ] = append(s.freed[e.typ], e.name)
	s.everHad[e.typ][e.name] = e.id
	if b := w.borrow[e.typ]; b.owner == e && b.name == name {
		w.class("name-returned-to-previous-holder")
	}
	if prev, ok := s.everHad[e.typ][name]; ok && prev != e.id {
		w.renameOntoFreed = true
		w.class("rename-onto-freed")
		w.borrow[e.typ] = c20Borrow{name: name, owner: s.ents[journalEventID{typ: e.typ, id: prev}], taker: e}
	}
	e.name, e.nsID = name, nsID
	s.byName[e.typ][name] = e
	w.lastRen[e.typ] = e
	s.commit(w.t, e)
}

func (w *c20World) pickName(typ int32, sel int, useFreed bool, pool []string) (string, int64, bool) {
	if b := w.borrow[typ]; useFreed && sel == c20SelBorrowed && b.name != "" && w.src.byName[typ][b.name] == nil {
		if ns, ok := w.src.resolveNS(typ, b.name); ok {
			return b.name, ns, true
		}
	}
	return w.src.pickName(typ, sel, useFreed, pool)
}

func (w *c20World) applySourceOp(op c20Op) {
	s := w.src
	t := w.t
	if len(op.K) != 2 {
		return
	}
	typ, pool := w.typOf(op.K[1])
	switch op.K[0] {
	case 'c': // create
		if op.K == "cp" { // prometheus config: fixed negative id, created on first save
			id := int64(format.PrometheusConfigID)
			if e := s.ents[journalEventID{typ: format.PromConfigEvent, id: id}]; e != nil {
				e.c.DescN++
				s.commit(t, e)
				return
			}
			s.create(t, format.PromConfigEvent, "prom-config", 0, id, c20Content{})
			return
		}
		name, nsID, ok := w.pickName(typ, op.A, op.F, pool)
		if !ok {
			return
		}
		prev, had := s.everHad[typ][name]
		c := c20Content{NTags: 1 + op.B%3, Kind: op.B % len(c20Kinds), Weight: 1, Res: 1}
		e := s.create(t, typ, name, nsID, 0, c)
		w.lastCreated[typ] = e
		if had && prev != 0 {
			w.renameOntoFreed = true
			w.class("rename-onto-freed")
			w.borrow[typ] = c20Borrow{name: name, owner: s.ents[journalEventID{typ: typ, id: prev}], taker: e}
		}
	case 'e': // edit content
		e := w.entOf(typ, op.A)
		if e == nil {
			return
		}
		switch typ {
		case format.MetricEvent:
			switch op.B % 12 {
			case 10:
				e.c.DescKind, e.c.DescN = 5, e.c.DescN+1
			case 11:
				e.c.Extra = !e.c.Extra
			case 0:
				e.c.DescKind, e.c.DescN = 1, e.c.DescN+1
				if c20IsRemoteConfigName(e.name) {
					w.class("remote-config-description-only-edit")
				}
			case 1:
				e.c.NTags = e.c.NTags%4 + 1
			case 2:
				e.c.Kind = (e.c.Kind + 1 + op.C%3) % len(c20Kinds)
			case 3:
				e.c.Weight = 3 - e.c.Weight
				if e.c.Weight <= 0 {
					e.c.Weight = 2
				}
			case 4:
				e.c.Res = 6 - e.c.Res
				if e.c.Res <= 0 {
					e.c.Res = 5
				}
			case 5:
				e.c.Disable = !e.c.Disable
			case 6:
				e.c.Raw = !e.c.Raw
				if e.c.NTags < 2 {
					e.c.NTags = 2
				}
			case 7:
				e.c.DescKind, e.c.DescN = 2, e.c.DescN+1
			case 8:
				e.c.DescKind, e.c.DescN = 3, e.c.DescN+1
				w.class("big-event")
			case 9:
				e.c.DescKind, e.c.DescN = 4, e.c.DescN+1
				w.class("big-event")
			}
		case format.MetricsGroupEvent, format.NamespaceEvent:
			if op.B%2 == 0 {
				e.c.Weight = e.c.Weight%3 + 1
			} else {
				e.c.Disable = !e.c.Disable
				if typ == format.MetricsGroupEvent {
					w.groupToggle = true
					w.class("group-toggle")
				}
			}
		default:
			if op.B%3 == 0 {
				if e.c.DashDel == 0 {
					e.c.DashDel = 1_700_000_000
				} else {
					e.c.DashDel = 0
				}
			} else {
				e.c.DescN++
			}
		}
		s.commit(t, e)
	case 't': // save again without any change
		if e := w.entOf(typ, op.A); e != nil {
			s.commit(t, e)
		}
	case 'r': // rename (namespaces cannot be renamed)
		if typ == format.NamespaceEvent {
			return
		}
		e := w.entOf(typ, op.A)
		if e == nil {
			return
		}
		name, nsID, ok := w.pickName(typ, op.B, op.F, pool)
		if !ok {
			return
		}
		w.rename(e, name, nsID)
	}
}

// ---------- the oracle at a quiescent point ----------

func (w *c20World) expectedGroup(name string) int32 {
	best, bestLen := int32(format.BuiltinGroupIDDefault), -1
	for _, g := range w.src.list(format.MetricsGroupEvent) {
		if g.id > 0 && !g.c.Disable && strings.HasPrefix(name, g.name) && len(g.name) > bestLen {
			best, bestLen = int32(g.id), len(g.name)
		}
	}
	return best
}

func c20NS(id int64) int32 {
	if id == 0 {
		return format.BuiltinNamespaceIDDefault
	}
	return int32(id)
}

func (w *c20World) checkQuiescent() {
	t := w.t
	s := w.src
	w.drain()
	var hashes [2]string
	var hashOwner [2]string
	for _, r := range w.reps {
		compactKind := r.compact || (r.up >= 0 && w.reps[r.up].compact)
		where := func(f string, a ...any) string { return "replica " + r.name + ": " + fmt.Sprintf(f, a...) }
		// --- journal contents
		got := r.dump()
		byKey := map[journalEventID]tlmetadata.Event{}
		for i, e := range got {
			if i > 0 && got[i-1].Version >= e.Version {
				t.Fatalf(where("journal not ordered by version"))
			}
			k := journalEventID{typ: e.EventType, id: e.Id}
			if _, dup := byKey[k]; dup {
				t.Fatalf(where("entity %v twice in the journal", k))
			}
			byKey[k] = e
		}
		want := 0
		for k, e := range s.ents {
			if compactKind && (k.typ == format.DashboardEvent || k.typ == format.PromConfigEvent) {
				continue
			}
			want++
			g, ok := byKey[k]
			if !ok {
				t.Fatalf(where("entity %v (%q v%d) missing from the journal", k, e.name, e.ev.Version))
			}
			if compactKind {
				if g.Version > e.ev.Version || g.Name != e.name || g.NamespaceId != e.nsID {
					t.Fatalf(where("entity %v: journal has %q v%d ns %d, source %q v%d ns %d", k, g.Name, g.Version, g.NamespaceId, e.name, e.ev.Version, e.nsID))
				}
			} else if g != e.ev {
				t.Fatalf(where("entity %v: journal has %+v, source %+v", k, g, e.ev))
			}
		}
		if len(byKey) != want {
			t.Fatalf(where("journal has %d entities, source %d", len(byKey), want))
		}
		ver, hash := r.j.VersionHash()
		if !compactKind && ver != s.version {
			t.Fatalf(where("journal version %d, source %d", ver, s.version))
		}
		hi := 0
		if compactKind {
			hi = 1
		}
		if hashOwner[hi] == "" {
			hashes[hi], hashOwner[hi] = hash, r.name
		} else if hashes[hi] != hash {
			t.Fatalf(where("state hash %s differs from %s of replica %s of the same journal", hash, hashes[hi], hashOwner[hi]))
		}
		// --- metrics: latest version by id, reachable by name, nothing stale by name
		ms := r.ms
		metrics := s.list(format.MetricEvent)
		for _, e := range metrics {
			m := ms.GetMetaMetric(int32(e.id))
			if m == nil {
				t.Fatalf(where("metric %d %q missing", e.id, e.name))
			}
			expGroup := w.expectedGroup(e.name)
			if m.MetricID != int32(e.id) || m.Name != e.name || m.NamespaceID != c20NS(e.nsID) || m.Disable != e.c.Disable {
				t.Fatalf(where("metric %d: got name %q ns %d disable %v, source name %q ns %d disable %v", e.id, m.Name, m.NamespaceID, m.Disable, e.name, c20NS(e.nsID), e.c.Disable))
			}
			if m.GroupID != expGroup {
				t.Fatalf(where("metric %d %q: group %d, expected %d (longest enabled user group prefix)", e.id, e.name, m.GroupID, expGroup))
			}
			ref, err := MetricMetaFromEvent(e.ev)
			if err != nil {
				t.Fatalf("harness: %v", err)
			}
			ref.GroupID = expGroup
			if !format.SameCompactMetric(ref, m) {
				t.Fatalf(where("metric %d %q differs (compact comparison) from the source's latest version", e.id, e.name))
			}
			nt := e.c.NTags
			if m.EffectiveResolution != e.c.Res || m.EffectiveWeight != int64(e.c.weight()*format.EffectiveWeightOne) ||
				m.HasPercentiles != strings.HasSuffix(c20Kinds[e.c.Kind%len(c20Kinds)], "_p") {
				t.Fatalf(where("metric %d %q: resolution/weight/percentiles %d/%d/%v differ from the source", e.id, e.name, m.EffectiveResolution, m.EffectiveWeight, m.HasPercentiles))
			}
			for i := 1; i < nt; i++ {
				tg := m.Name2Tag(fmt.Sprintf("t%d", i))
				if tg == nil || int(tg.Index) != i || (tg.RawKind != "") != (i == 1 && e.c.Raw) {
					t.Fatalf(where("metric %d %q: tag t%d wrong or missing", e.id, e.name, i))
				}
			}
			if m.Name2Tag(fmt.Sprintf("t%d", max(nt, 1))) != nil {
				t.Fatalf(where("metric %d %q: has a tag the source's latest version does not have", e.id, e.name))
			}
			if compactKind {
				if m.Version > e.ev.Version {
					t.Fatalf(where("metric %d version %d is newer than the source's %d", e.id, m.Version, e.ev.Version))
				}
				wantDesc := c20CompactDescription(e.name, e.c.description())
				if m.Description != wantDesc {
					t.Fatalf(where("metric %d %q: description %.60q, the compacted form of the source's latest version has %.60q", e.id, e.name, m.Description, wantDesc))
				}
				wantKind, wantRes, wantTags, wantST := "", e.c.Res, nt, ""
				if strings.HasSuffix(c20Kinds[e.c.Kind%len(c20Kinds)], "_p") {
					wantKind = c20Kinds[e.c.Kind%len(c20Kinds)]
				}
				if wantRes == 1 {
					wantRes = 0
				}
				if nt < 2 {
					wantTags = 0 // a trailing tag without name and raw kind is cut
				}
				if e.c.Extra {
					wantST = "st"
				}
				if m.Kind != wantKind || m.Resolution != wantRes || m.Weight != e.c.weight() || len(m.Tags) != wantTags || m.StringTopName != wantST ||
					m.StringTopDescription != "" || m.SkipMaxHost || m.SkipMinHost || m.SkipSumSquare || m.MetricType != "" || m.PreKeyTagID != "" {
					t.Fatalf(where("metric %d %q: compacted form differs: kind %q res %d weight %v tags %d string top %q/%q skips %v%v%v type %q, expected kind %q res %d weight %v tags %d string top %q",
						e.id, e.name, m.Kind, m.Resolution, m.Weight, len(m.Tags), m.StringTopName, m.StringTopDescription, m.SkipMaxHost, m.SkipMinHost, m.SkipSumSquare, m.MetricType,
						wantKind, wantRes, e.c.weight(), wantTags, wantST))
				}
				for i := 1; i < len(m.Tags); i++ {
					if m.Tags[i].Description != "" || len(m.Tags[i].ValueComments) != 0 {
						t.Fatalf(where("metric %d %q: tag %d keeps its description in the compacted form", e.id, e.name, i))
					}
				}
				if c20IsRemoteConfigName(e.name) {
					w.class("remote-config-metric")
					if e.c.DescKind == 1 || e.c.DescKind == 3 {
						w.class("remote-config-metric-description-without-marker")
					}
				} else if wantDesc != "" {
					w.class("marker-description-on-ordinary-metric")
				}
			} else {
				if m.Version != e.ev.Version || m.UpdateTime != e.ev.UpdateTime || m.Description != e.c.description() ||
					m.Kind != c20Kinds[e.c.Kind%len(c20Kinds)] || len(m.Tags) != nt ||
					m.SkipMaxHost != e.c.Extra || m.SkipMinHost != e.c.Extra || m.SkipSumSquare != e.c.Extra || (m.MetricType != "") != e.c.Extra || (m.StringTopDescription != "") != e.c.Extra {
					t.Fatalf(where("metric %d %q: got v%d t%d kind %q %d tags, source v%d t%d kind %q %d tags (or description differs)", e.id, e.name,
						m.Version, m.UpdateTime, m.Kind, len(m.Tags), e.ev.Version, e.ev.UpdateTime, c20Kinds[e.c.Kind%len(c20Kinds)], nt))
				}
				a, _ := easyjson.Marshal(ref)
				b, _ := easyjson.Marshal(m)
				if string(a) != string(b) {
					t.Fatalf(where("metric %d %q: %s differs from the source's %s", e.id, e.name, b, a))
				}
			}
			if bn := ms.GetMetaMetricByName(e.name); bn != m {
				if bn == nil {
					t.Fatalf(where("metric %d holds name %q but a lookup by that name finds nothing", e.id, e.name))
				}
				t.Fatalf(where("lookup of name %q returns metric %d %q v%d, the holder is metric %d v%d", e.name, bn.MetricID, bn.Name, bn.Version, e.id, m.Version))
			}
			if bn := ms.GetMetaMetricByNameBytes([]byte(e.name)); bn != m {
				t.Fatalf(where("byte lookup of name %q does not return its holder", e.name))
			}
		}
		if l := ms.GetMetaMetricList(true); len(l) != len(metrics) {
			t.Fatalf(where("%d metrics listed, source has %d", len(l), len(metrics)))
		}
		ms.mu.RLock()
		nByID, nByName := len(ms.metricsByID), len(ms.metricsByName)
		ms.mu.RUnlock()
		if nByID != len(metrics) || nByName != len(metrics) {
			t.Fatalf(where("%d metrics by id, %d by name, source has %d", nByID, nByName, len(metrics)))
		}
		for _, n := range c20MetricNames {
			if s.byName[format.MetricEvent][n] == nil && ms.GetMetaMetricByName(n) != nil {
				t.Fatalf(where("name %q is held by no metric but a lookup returns metric %d", n, ms.GetMetaMetricByName(n).MetricID))
			}
		}
		// --- groups
		for _, e := range s.list(format.MetricsGroupEvent) {
			g := ms.GetGroup(int32(e.id))
			if g == nil {
				t.Fatalf(where("group %d %q missing", e.id, e.name))
			}
			if g.ID != int32(e.id) || g.Name != e.name || g.Disable != e.c.Disable || g.Weight != e.c.weight() || g.NamespaceID != c20NS(e.nsID) ||
				g.Version > e.ev.Version || (!compactKind && (g.Version != e.ev.Version || g.UpdateTime != e.ev.UpdateTime)) {
				t.Fatalf(where("group %d: got %+v, source %q v%d disable %v weight %v", e.id, *g, e.name, e.ev.Version, e.c.Disable, e.c.weight()))
			}
			if bn := ms.GetGroupByName(e.name); bn != g {
				if bn == nil {
					t.Fatalf(where("group %d holds name %q but a lookup by that name finds nothing", e.id, e.name))
				}
				t.Fatalf(where("lookup of group name %q returns group %d, the holder is %d", e.name, bn.ID, e.id))
			}
		}
		for _, n := range c20BaseNames {
			if s.byName[format.MetricsGroupEvent][n] == nil && ms.GetGroupByName(n) != nil {
				t.Fatalf(where("group name %q is held by no group but a lookup returns group %d", n, ms.GetGroupByName(n).ID))
			}
		}
		ng := 0
		for _, g := range ms.GetGroupsList(true) {
			if g.ID > 0 {
				ng++
			}
		}
		if ng != len(s.list(format.MetricsGroupEvent)) {
			t.Fatalf(where("%d user groups, source has %d", ng, len(s.list(format.MetricsGroupEvent))))
		}
		// --- namespaces
		for _, e := range s.list(format.NamespaceEvent) {
			n := ms.GetNamespace(int32(e.id))
			if n == nil {
				t.Fatalf(where("namespace %d %q missing", e.id, e.name))
			}
			if n.ID != int32(e.id) || n.Name != e.name || n.Disable != e.c.Disable || n.Weight != e.c.weight() ||
				n.Version > e.ev.Version || (!compactKind && n.Version != e.ev.Version) {
				t.Fatalf(where("namespace %d: got %+v, source %q v%d", e.id, *n, e.name, e.ev.Version))
			}
			if ms.GetNamespaceByName(e.name) != n {
				t.Fatalf(where("lookup of namespace name %q does not return its holder %d", e.name, e.id))
			}
		}
		// --- dashboards and prometheus config (dropped by compact journals)
		if !compactKind {
			for _, e := range s.list(format.DashboardEvent) {
				d := ms.GetDashboardMeta(int32(e.id))
				if d == nil || d.Name != e.name || d.Version != e.ev.Version || d.DeleteTime != e.c.DashDel {
					t.Fatalf(where("dashboard %d: got %+v, source %q v%d", e.id, d, e.name, e.ev.Version))
				}
			}
			if e := s.ents[journalEventID{typ: format.PromConfigEvent, id: format.PrometheusConfigID}]; e != nil {
				if pc := ms.PromConfig(); pc.Data != e.ev.Data || pc.Version != e.ev.Version {
					t.Fatalf(where("prometheus config v%d %q, source v%d %q", pc.Version, pc.Data, e.ev.Version, e.ev.Data))
				}
			}
		}
	}
}

// ---------- the property ----------

var c20ReplicaDefs = []struct {
	name    string
	compact bool
	up      int
}{
	{"full", false, -1},
	{"compact", true, -1},
	{"agentA(compact)", false, 1},
	{"agentB(compact)", false, 1},
	{"agentF(full)", false, 0},
}

func c20Prop(t vpT, c c20Case) (nontrivial bool, classes []string) {
	w := &c20World{t: t, src: c20NewSource(), files: c.Files, cls: map[string]bool{}, lastRen: map[int32]*c20Ent{}, lastCreated: map[int32]*c20Ent{}, borrow: map[int32]c20Borrow{}}
	if c.Files {
		dir, err := os.MkdirTemp("", "vp-c20-")
		if err != nil {
			t.Fatalf("harness: %v", err)
		}
		w.dir = dir
		defer os.RemoveAll(dir)
		w.class("file-backed")
	}
	for i, d := range c20ReplicaDefs {
		w.reps = append(w.reps, &c20Replica{name: d.name, compact: d.compact, up: d.up, path: filepath.Join(w.dir, fmt.Sprintf("journal-%d", i))})
		if err := w.open(i); err != nil {
			t.Fatalf("load of an empty journal file: %v", err)
		}
	}
	defer func() {
		for _, r := range w.reps {
			if r.fp != nil {
				_ = r.fp.Close()
			}
		}
	}()
	itemLimits, byteLimits := c20ItemLimits, c20ByteLimits
	if len(c.Lim) == len(c20ReplicaDefs) {
		w.lim = c.Lim
		w.class("fixed-limits-per-replica")
	}
	for _, op := range c.Ops {
		switch op.K {
		case "dl":
			w.deliver(op.A%len(w.reps), itemLimits[op.B%len(itemLimits)], byteLimits[op.C%len(byteLimits)])
		case "sr":
			w.reload(op.A%len(w.reps), op.F, op.B, op.C)
		case "qq":
			w.checkQuiescent()
			w.class("mid-history-quiescence")
		default:
			w.applySourceOp(op)
		}
	}
	w.checkQuiescent()
	for k := range w.cls {
		classes = append(classes, k)
	}
	sort.Strings(classes)
	return w.renameOntoFreed || w.truncReload || w.groupToggle, classes
}

// ---------- generator ----------

func c20GenOp() *rapid.Generator[c20Op] {
	kinds := []string{
		"cm", "cm", "cm", "em", "em", "em", "em", "tm", "rm", "rm", "rm",
		"cg", "cg", "eg", "eg", "eg", "tg", "rg", "rg",
		"cn", "cn", "en", "tn", "cd", "ed", "cp",
		"dl", "dl", "dl", "dl", "dl", "dl", "dl", "dl", "sr", "sr", "qq",
	}
	return rapid.Custom(func(t *rapid.T) c20Op {
		op := c20Op{K: rapid.SampledFrom(kinds).Draw(t, "k")}
		switch op.K {
		case "dl":
			op.A = rapid.IntRange(0, len(c20ReplicaDefs)-1).Draw(t, "replica")
			op.B = rapid.IntRange(0, 5).Draw(t, "items")
			op.C = rapid.IntRange(0, 4).Draw(t, "bytes")
		case "sr":
			op.A = rapid.IntRange(0, len(c20ReplicaDefs)-1).Draw(t, "replica")
			op.F = rapid.IntRange(0, 3).Draw(t, "save") != 0
			switch rapid.IntRange(0, 3).Draw(t, "trunc") {
			case 0:
				op.B = 1000
			case 1:
				op.B = 1000
				op.C = rapid.IntRange(1, 40).Draw(t, "cut")
			default:
				op.B = rapid.IntRange(0, 999).Draw(t, "permille")
			}
		case "qq":
		case "em":
			op.A = rapid.IntRange(0, 5).Draw(t, "ent")
			if rapid.IntRange(0, 39).Draw(t, "big") == 0 {
				op.B = rapid.IntRange(8, 9).Draw(t, "what")
			} else if rapid.IntRange(0, 7).Draw(t, "more") == 0 {
				op.B = rapid.IntRange(10, 11).Draw(t, "what")
			} else {
				op.B = rapid.IntRange(0, 7).Draw(t, "what")
			}
			op.C = rapid.IntRange(0, 2).Draw(t, "arg")
		default:
			op.A = rapid.IntRange(0, 15).Draw(t, "a")
			op.B = rapid.IntRange(0, 15).Draw(t, "b")
			op.F = rapid.IntRange(0, 2).Draw(t, "freed") != 0
		}
		return op
	})
}

func c20GenDelivery(t *rapid.T) c20Op {
	return c20Op{K: "dl", A: rapid.IntRange(0, len(c20ReplicaDefs)-1).Draw(t, "replica"),
		B: rapid.IntRange(0, 5).Draw(t, "items"), C: rapid.IntRange(0, 4).Draw(t, "bytes")}
}

// c20GenSegment emits one random operation or a short pattern that single random operations rarely
// line up: the "name dance" (X releases a name, Y takes it, X is saved again, all while replicas lag),
// a journal grown over one chunk and cut, a restart followed by catching up.
func c20GenSegment() *rapid.Generator[[]c20Op] {
	return rapid.Custom(func(t *rapid.T) []c20Op {
		switch rapid.SampledFrom([]string{"op", "op", "op", "op", "op", "op", "op", "op", "dance", "dance", "borrow", "groups", "big", "restart", "remote"}).Draw(t, "segment") {
		case "dance":
			ty := rapid.SampledFrom([]string{"m", "m", "g"}).Draw(t, "type")
			var ops []c20Op
			ops = append(ops, c20Op{K: "c" + ty, A: rapid.IntRange(0, 11).Draw(t, "name0")})
			switch rapid.IntRange(0, 3).Draw(t, "sync") {
			case 0:
			case 1:
				ops = append(ops, c20Op{K: "qq"})
			default:
				for n := rapid.IntRange(1, 4).Draw(t, "pre"); n > 0; n-- {
					ops = append(ops, c20GenDelivery(t))
				}
			}
			ops = append(ops, c20Op{K: "r" + ty, A: rapid.IntRange(0, 5).Draw(t, "x"), B: rapid.IntRange(0, 11).Draw(t, "name1")})
			if rapid.Bool().Draw(t, "taker-is-new") {
				ops = append(ops, c20Op{K: "c" + ty, A: rapid.IntRange(0, 3).Draw(t, "freed"), B: rapid.IntRange(0, 11).Draw(t, "content"), F: true})
			} else {
				ops = append(ops, c20Op{K: "r" + ty, A: c20SelOther, B: rapid.IntRange(0, 3).Draw(t, "freed"), F: true})
			}
			if rapid.IntRange(0, 2).Draw(t, "mid") == 0 {
				ops = append(ops, c20GenDelivery(t))
			}
			switch rapid.IntRange(0, 3).Draw(t, "again") {
			case 0:
				ops = append(ops, c20Op{K: "t" + ty, A: c20SelLastRenamed})
			case 1:
				ops = append(ops, c20Op{K: "r" + ty, A: c20SelLastRenamed, B: rapid.IntRange(0, 11).Draw(t, "name2")})
			case 2:
				ops = append(ops, c20Op{K: "e" + ty, A: c20SelLastRenamed, B: rapid.IntRange(0, 7).Draw(t, "what")})
			default: // nothing: the plain, ordered case
			}
			if ty == "g" && rapid.Bool().Draw(t, "with-group-change") {
				ops = append(ops, c20Op{K: "eg", A: rapid.IntRange(0, 3).Draw(t, "g"), B: 1})
			}
			for n := rapid.IntRange(0, 3).Draw(t, "post"); n > 0; n-- {
				ops = append(ops, c20GenDelivery(t))
			}
			return ops
		case "borrow": // X holds N; X leaves, Y takes N, only Y's event reaches a replica; Y leaves, X returns to N unchanged
			ty := rapid.SampledFrom([]string{"m", "m", "m", "g"}).Draw(t, "type")
			ops := []c20Op{{K: "c" + ty, A: rapid.IntRange(0, 11).Draw(t, "name0")}}
			if rapid.IntRange(0, 3).Draw(t, "sync") != 0 {
				ops = append(ops, c20Op{K: "qq"})
			}
			ops = append(ops, c20Op{K: "r" + ty, A: rapid.IntRange(0, 5).Draw(t, "x"), B: rapid.IntRange(0, 11).Draw(t, "name1")})
			if rapid.Bool().Draw(t, "taker-is-new") {
				ops = append(ops, c20Op{K: "c" + ty, A: c20SelBorrowed, B: rapid.IntRange(0, 11).Draw(t, "content"), F: true})
			} else {
				ops = append(ops, c20Op{K: "r" + ty, A: c20SelOther, B: c20SelBorrowed, F: true})
			}
			// the taker's event must precede the next event of the previous holder in the journal
			if rapid.IntRange(0, 3).Draw(t, "again") != 0 {
				ops = append(ops, c20Op{K: "t" + ty, A: c20SelOwner})
			}
			if rapid.IntRange(0, 3).Draw(t, "only-taker-reaches-compact") != 0 {
				ops = append(ops, c20Op{K: "dl", A: 1, B: 0}) // one event to the compact journal
			}
			for n := rapid.IntRange(0, 2).Draw(t, "partial"); n > 0; n-- {
				ops = append(ops, c20Op{K: "dl", A: rapid.SampledFrom([]int{1, 0, 2, 3, 4}).Draw(t, "replica"), B: rapid.SampledFrom([]int{0, 0, 2, 5}).Draw(t, "items")})
			}
			ops = append(ops, c20Op{K: "r" + ty, A: c20SelTaker, B: rapid.IntRange(0, 11).Draw(t, "name2")})
			if rapid.IntRange(0, 2).Draw(t, "mid") == 0 {
				ops = append(ops, c20GenDelivery(t))
			}
			ops = append(ops, c20Op{K: "r" + ty, A: c20SelOwner, B: c20SelBorrowed, F: true})
			for n := rapid.IntRange(0, 2).Draw(t, "post"); n > 0; n-- {
				ops = append(ops, c20GenDelivery(t))
			}
			return ops
		case "remote": // a remote-config metric: its (plain) description is the payload, edits of it must reach every replica
			ops := []c20Op{{K: "cm", A: 12 + rapid.IntRange(0, 3).Draw(t, "which"), B: rapid.IntRange(0, 11).Draw(t, "content")}}
			for n := rapid.IntRange(1, 4).Draw(t, "edits"); n > 0; n-- {
				ops = append(ops, c20Op{K: "em", A: c20SelLastCreated, B: rapid.SampledFrom([]int{0, 0, 0, 7, 10, 11, 3}).Draw(t, "what")})
				for d := rapid.IntRange(0, 2).Draw(t, "deliveries"); d > 0; d-- {
					ops = append(ops, c20GenDelivery(t))
				}
				if rapid.IntRange(0, 3).Draw(t, "sync") == 0 {
					ops = append(ops, c20Op{K: "qq"})
				}
			}
			if rapid.IntRange(0, 3).Draw(t, "rename") == 0 { // to or from an ordinary name: the description rule follows the name
				ops = append(ops, c20Op{K: "rm", A: c20SelLastCreated, B: rapid.IntRange(0, 15).Draw(t, "name")})
			}
			return ops
		case "groups":
			ops := []c20Op{{K: "cg", A: rapid.IntRange(0, 11).Draw(t, "name")}}
			for n := rapid.IntRange(1, 3).Draw(t, "n"); n > 0; n-- {
				ops = append(ops, c20Op{K: "eg", A: rapid.IntRange(0, 3).Draw(t, "g"), B: rapid.IntRange(0, 1).Draw(t, "what")})
				if rapid.Bool().Draw(t, "deliver") {
					ops = append(ops, c20GenDelivery(t))
				}
			}
			return ops
		case "big":
			var ops []c20Op
			for n := rapid.IntRange(3, 5).Draw(t, "n"); n > 0; n-- {
				ops = append(ops, c20Op{K: "cm", A: rapid.IntRange(0, 11).Draw(t, "name")},
					c20Op{K: "em", A: rapid.IntRange(0, 7).Draw(t, "ent"), B: rapid.IntRange(8, 9).Draw(t, "what")})
			}
			ops = append(ops, c20Op{K: "em", A: rapid.IntRange(0, 7).Draw(t, "ent"), B: rapid.IntRange(0, 7).Draw(t, "what")})
			if rapid.Bool().Draw(t, "sync") {
				ops = append(ops, c20Op{K: "qq"})
			}
			ops = append(ops, c20Op{K: "sr", A: rapid.IntRange(0, len(c20ReplicaDefs)-1).Draw(t, "replica"), F: true,
				B: rapid.IntRange(350, 1000).Draw(t, "permille"), C: rapid.IntRange(0, 20).Draw(t, "cut")})
			return ops
		case "restart":
			r := rapid.IntRange(0, len(c20ReplicaDefs)-1).Draw(t, "replica")
			ops := []c20Op{{K: "sr", A: r, F: rapid.IntRange(0, 3).Draw(t, "save") != 0,
				B: rapid.SampledFrom([]int{1000, 1000, 999, 900, 500, 0}).Draw(t, "permille"), C: rapid.IntRange(0, 30).Draw(t, "cut")}}
			for n := rapid.IntRange(0, 3).Draw(t, "post"); n > 0; n-- {
				ops = append(ops, c20Op{K: "dl", A: r, B: rapid.IntRange(0, 5).Draw(t, "items"), C: rapid.IntRange(0, 4).Draw(t, "bytes")})
			}
			return ops
		}
		return []c20Op{c20GenOp().Draw(t, "op")}
	})
}

func c20Gen() *rapid.Generator[c20Case] {
	return rapid.Custom(func(t *rapid.T) c20Case {
		c := c20Case{Files: rapid.IntRange(0, 9).Draw(t, "files") == 9}
		if rapid.IntRange(0, 2).Draw(t, "fixed-limits") == 0 { // every replica keeps one (items, bytes) pair for the whole history and the final drain
			for range c20ReplicaDefs {
				c.Lim = append(c.Lim, [2]int{rapid.IntRange(0, len(c20ItemLimits)-1).Draw(t, "items"), rapid.IntRange(0, len(c20ByteLimits)-1).Draw(t, "bytes")})
			}
		}
		for _, seg := range rapid.SliceOfN(c20GenSegment(), 1, 30).Draw(t, "segments") {
			c.Ops = append(c.Ops, seg...)
		}
		return c
	})
}

func TestVerifC20Converge(t *testing.T) {
	ev := vpNewEv(t, "C20", "converge")
	rapid.Check(t, func(rt *rapid.T) {
		c := c20Gen().Draw(rt, "case")
		vpRunCase(rt, "C20", "converge", c, func() {
			nt, cls := c20Prop(rt, c)
			ev.Case(nt, c, cls...)
		})
	})
}

func init() {
	vpReplayers["C20/converge"] = func(t vpT, raw json.RawMessage) {
		var c c20Case
		if err := json.Unmarshal(raw, &c); err != nil {
			t.Fatalf("%v", err)
		}
		c20Prop(t, c)
	}
}
