//go:build verif

package pcache

import (
	"bytes"
	"encoding/binary"
	"encoding/json"
	"fmt"
	"os"
	"path/filepath"
	"sort"
	"strings"
	"testing"

	"github.com/zeebo/xxh3"
	"pgregory.net/rapid"

	"github.com/VKCOM/statshouse/internal/data_model"
	"github.com/VKCOM/statshouse/internal/format"
	"github.com/VKCOM/statshouse/internal/vkgo/basictl"
)

// ---------- C21 (2): MappingsCache against a map model ----------
//
// The cache decides itself which entries to evict (map iteration order), so the oracle judges every
// transition: the contents after an operation must be explainable from the contents before it by
// the rules of the statement (values never change, markers never enter, size bound, exact
// accounting, saved file == contents at save time, damaged file -> the entries of the chunks in
// front of the damage). Contents are observed through GetValue with access time 0 (never updates
// anything) over the whole key universe and cross-checked with the internal map.

type c21CacheOp struct {
	K    string  `json:"k"`              // add, get, ttl, cfg, stats, save, load
	Now  uint32  `json:"now,omitempty"`  // add/get/ttl: seconds after the base time
	Keys []int   `json:"keys,omitempty"` // add: distinct key numbers; get: Keys[0]
	Vals []int32 `json:"vals,omitempty"` // add: 0 = the key's own value, else this value (markers included)
	N    int     `json:"n,omitempty"`    // ttl: maxCount; cfg: index of the size; load: damage position
	TTL  int     `json:"ttl,omitempty"`  // cfg
	Dmg  int     `json:"dmg,omitempty"`  // load: 0 intact, 1 truncate, 2 flip a bit
	Save bool    `json:"save,omitempty"` // load: save first (a clean shutdown), else the file of the last save is found
}

type c21CacheCase struct {
	File    bool         `json:"file,omitempty"`
	Det     bool         `json:"det,omitempty"` // the cache's "deterministic" test flag
	MaxSize int          `json:"max_size"`      // index into c21Sizes
	TTL     int          `json:"ttl"`
	Ops     []c21CacheOp `json:"ops"`
}

var c21Sizes = []int64{0, 40, 100, 170, 400, 1000, 3000, 1 << 30}
var c21KeyLens = []int{0, 0, 0, 0, 1, 1, 2, 3, 5, 8, 13, 20, 30, 40, 60, 80, 100, 128, 200, 300, 1000, 0, 7, 7}

const c21Base = 1_000_000

func c21Key(i int) string {
	if i == 0 {
		return "" // never cacheable
	}
	return fmt.Sprintf("k%d", i) + strings.Repeat("x", c21KeyLens[i%len(c21KeyLens)])
}

func c21Marker(v int32) bool {
	return v == 0 || v == format.TagValueIDMappingFlood || v == format.TagValueIDDoesNotExist
}

type c21Entry struct {
	val int32
	ts  uint32
}

type c21Model struct {
	m          map[string]c21Entry
	maxSize    int64
	ttl        int64
	adds       int64
	evicts     int64
	tsUpdates  int64
	everAdded  map[string]map[int32]bool // values ever offered for a key
	savedBytes []byte
	saved      map[string]c21Entry
	// since the last effective save / load:
	dirty      string // "" or what changed the set of mappings (an add that inserted or evicted, a TTL removal)
	addCalls   int    // AddValues calls that offered at least one cacheable new pair
	partialFit bool   // ... one of them inserted only some of its pairs (and changed the contents)
	ttlRemoved bool   // only used when TTL removals are not required to reach the file
}

// c21TTLRemovalMustBeSaved: a TTL removal changes the set of mappings, so a later Save has to write the
// file (statement: the cache reloads from its saved file to the same contents). Access times alone do not
// count: they change on every lookup and the version check in Save exists to skip exactly those writes.
const c21TTLRemovalMustBeSaved = true

func c21Copy(m map[string]c21Entry) map[string]c21Entry {
	r := make(map[string]c21Entry, len(m))
	for k, v := range m {
		r[k] = v
	}
	return r
}

func c21SumSize(m map[string]c21Entry) (size, ts int64) {
	for k, e := range m {
		size += int64(len(k)*5/4 + 32) // the documented memory estimate of one element
		ts += int64(e.ts)
	}
	return
}

// c21Observe reads the cache contents through the API over the key universe and cross-checks the
// internal map and the accounting.
func c21Observe(t vpT, c *MappingsCache, universe []string, what string) map[string]c21Entry {
	got := map[string]c21Entry{}
	for _, k := range universe {
		v, ok := c.GetValue(0, k)
		v2, ok2 := c.GetValueBytes(0, []byte(k))
		if v != v2 || ok != ok2 {
			t.Fatalf("%s: GetValue(%q)=(%d,%v) but GetValueBytes=(%d,%v)", what, k, v, ok, v2, ok2)
		}
		if !ok {
			if v != 0 {
				t.Fatalf("%s: miss for %q returned value %d", what, k, v)
			}
			continue
		}
		if c21Marker(v) || k == "" {
			t.Fatalf("%s: GetValue(%q) returned marker/empty-key value %d", what, k, v)
		}
		got[k] = c21Entry{val: v}
	}
	c.mu.RLock()
	defer c.mu.RUnlock()
	if len(c.cache) != len(got) {
		t.Fatalf("%s: cache holds %d entries, %d are reachable through GetValue over the key universe", what, len(c.cache), len(got))
	}
	for k, e := range c.cache {
		g, ok := got[k]
		if !ok || g.val != e.value {
			t.Fatalf("%s: internal entry %q=%d not returned by GetValue", what, k, e.value)
		}
		got[k] = c21Entry{val: e.value, ts: e.accessTS}
	}
	size, ts := c21SumSize(got)
	if c.sumSize != size || c.sumTS != ts {
		t.Fatalf("%s: accounting sumSize=%d sumTS=%d, recomputed from contents %d %d", what, c.sumSize, c.sumTS, size, ts)
	}
	return got
}

// ---- independent parser of the saved file (format comment of chunked_storage2.go + Save's item layout)

type c21FileChunk struct {
	start, end int
	items      map[string]c21Entry
	order      []string
}

// c21ParseFile returns the well-formed chunks at the start of data and whether they cover it completely.
func c21ParseFile(t vpT, data []byte) ([]c21FileChunk, bool) {
	var chunks []c21FileChunk
	var prev [16]byte
	pos := 0
	for pos < len(data) {
		if pos+24 > len(data) || binary.LittleEndian.Uint32(data[pos:]) != data_model.ChunkedMagicMappings {
			return chunks, false
		}
		size := int(binary.LittleEndian.Uint32(data[pos+4:]))
		if size > data_model.ChunkSize || pos+8+size+16 > len(data) {
			return chunks, false
		}
		h := xxh3.New()
		_, _ = h.Write(prev[:])
		_, _ = h.Write(data[pos : pos+8+size])
		sum := h.Sum128()
		var want [16]byte
		binary.BigEndian.PutUint64(want[:], sum.Hi)
		binary.BigEndian.PutUint64(want[8:], sum.Lo)
		if !bytes.Equal(want[:], data[pos+8+size:pos+24+size]) {
			return chunks, false
		}
		ch := c21FileChunk{start: pos, end: pos + 24 + size, items: map[string]c21Entry{}}
		body := data[pos+8 : pos+8+size]
		for len(body) > 0 {
			var k string
			var e c21Entry
			var err error
			if body, err = basictl.StringRead(body, &k); err == nil {
				if body, err = basictl.IntRead(body, &e.val); err == nil {
					body, err = basictl.NatRead(body, &e.ts)
				}
			}
			if err != nil {
				t.Fatalf("saved file: chunk at %d does not hold whole items: %v", pos, err)
			}
			ch.items[k] = e
			ch.order = append(ch.order, k)
		}
		chunks = append(chunks, ch)
		prev = want
		pos += 24 + size
	}
	return chunks, true
}

func c21ItemsOf(chunks []c21FileChunk) map[string]c21Entry {
	m := map[string]c21Entry{}
	for _, ch := range chunks {
		for k, e := range ch.items {
			m[k] = e
		}
	}
	return m
}

type c21CacheWorld struct {
	t              vpT
	c              *MappingsCache
	mod            *c21Model
	universe       []string
	cs             c21CacheCase
	buf            []byte
	dir            string
	fp             *os.File
	gen            int
	cls            map[string]bool
	scratch        []byte // the reused "packet buffer" of GetValueBytes callers
	bytesRefreshed bool
}

func (w *c21CacheWorld) fileBytes() []byte {
	if !w.cs.File {
		return append([]byte(nil), w.buf...)
	}
	d, err := os.ReadFile(w.fp.Name())
	if err != nil {
		w.t.Fatalf("harness: %v", err)
	}
	return d
}

// open loads a cache from data the way the binaries do and makes it the current one.
func (w *c21CacheWorld) open(data []byte) error {
	var err error
	if w.cs.File {
		if w.fp != nil {
			_ = w.fp.Close()
		}
		w.gen++
		path := filepath.Join(w.dir, fmt.Sprintf("mappings-%d.cache", w.gen))
		if err := os.WriteFile(path, data, 0666); err != nil {
			w.t.Fatalf("harness: %v", err)
		}
		w.fp, err = os.OpenFile(path, os.O_CREATE|os.O_RDWR, 0666)
		if err != nil {
			w.t.Fatalf("harness: %v", err)
		}
		w.c, err = LoadMappingsCacheFile(w.fp, w.mod.maxSize, int(w.mod.ttl))
	} else {
		w.buf = append([]byte(nil), data...)
		w.c, err = LoadMappingsCacheSlice(&w.buf, w.mod.maxSize)
		w.c.SetSizeTTL(w.mod.maxSize, int(w.mod.ttl))
	}
	w.c.testMode = true
	w.c.deterministic = w.cs.Det
	return err
}

func (w *c21CacheWorld) observe(what string) map[string]c21Entry {
	return c21Observe(w.t, w.c, w.universe, what)
}

func (w *c21CacheWorld) add(op c21CacheOp) {
	t, mod := w.t, w.mod
	now := c21Base + op.Now
	pre := mod.m
	var pairs []MappingPair
	valid := map[string]int32{}
	var validSize int64
	for i, kn := range op.Keys {
		k := c21Key(kn % len(w.universe))
		v := int32(100 + kn%len(w.universe))
		if i < len(op.Vals) && op.Vals[i] != 0 {
			switch op.Vals[i] {
			case 1:
				v = 0
			case 2:
				v = format.TagValueIDMappingFlood
			case 3:
				v = format.TagValueIDDoesNotExist
			default:
				v = op.Vals[i]
				w.cls["value-other-than-own"] = true
			}
		}
		pairs = append(pairs, MappingPair{Str: k, Value: v})
		if c21Marker(v) || k == "" {
			w.cls["marker-or-empty-offered"] = true
			continue
		}
		if e, ok := pre[k]; ok {
			if e.val != v {
				w.cls["conflicting-value-for-present-key"] = true
			}
			continue
		}
		valid[k] = v
		validSize += int64(len(k)*5/4 + 32)
	}
	preSize, _ := c21SumSize(pre)
	w.c.AddValues(now, pairs)
	what := fmt.Sprintf("AddValues(now=%d, %d pairs)", op.Now, len(pairs))
	post := w.observe(what)
	var evicted, added int64
	for k, e := range post {
		if p, ok := pre[k]; ok {
			if p != e {
				t.Fatalf("%s: entry %q changed from %+v to %+v", what, k, p, e)
			}
			continue
		}
		v, ok := valid[k]
		if !ok {
			t.Fatalf("%s: entry %q=%d appeared but was not a cacheable pair of this call", what, k, e.val)
		}
		if e.val != v || e.ts != now {
			t.Fatalf("%s: new entry %q has value %d time %d, added value %d time %d", what, k, e.val, e.ts, v, now)
		}
		added++
	}
	for k := range pre {
		if _, ok := post[k]; !ok {
			evicted++
		}
	}
	postSize, _ := c21SumSize(post)
	if limit := max(mod.maxSize, preSize); postSize > limit {
		t.Fatalf("%s: size %d after the call exceeds the configured %d (size before %d)", what, postSize, mod.maxSize, preSize)
	}
	if preSize+validSize <= mod.maxSize {
		if evicted != 0 || added != int64(len(valid)) {
			t.Fatalf("%s: everything fits (%d+%d <= %d) but %d entries were evicted and %d of %d pairs added", what, preSize, validSize, mod.maxSize, evicted, added, len(valid))
		}
	} else if len(valid) > 0 {
		w.cls["add-over-capacity"] = true
	}
	if evicted > 0 {
		w.cls["evict-on-add"] = true
	}
	if added < int64(len(valid)) {
		w.cls["pair-not-added-for-size"] = true
	}
	if mod.maxSize < preSize {
		w.cls["add-while-over-lowered-limit"] = true
	}
	if len(valid) > 0 {
		mod.addCalls++
	}
	if w.bytesRefreshed && added >= 3 {
		w.cls["map-grows-after-getBytes-refresh"] = true
	}
	if added > 0 || evicted > 0 {
		mod.dirty = what
		if added < int64(len(valid)) {
			mod.partialFit = true
			w.cls["partial-fit-add"] = true
		}
	}
	mod.adds += added
	mod.evicts += evicted
	mod.m = post
}

func (w *c21CacheWorld) get(op c21CacheOp) {
	t, mod := w.t, w.mod
	if len(op.Keys) == 0 {
		return
	}
	k := c21Key(op.Keys[0] % len(w.universe))
	if op.Keys[0] >= 100 && len(mod.m) > 0 { // 100+i: the i-th present key
		var present []string
		for pk := range mod.m {
			present = append(present, pk)
		}
		sort.Strings(present)
		k = present[(op.Keys[0]-100)%len(present)]
	}
	ts := c21Base + op.Now
	if op.N%8 == 7 {
		ts = 0
	}
	var v int32
	var ok bool
	what := fmt.Sprintf("GetValue(%d, %q)", ts, k)
	if op.N%2 == 0 {
		v, ok = w.c.GetValue(ts, k)
	} else {
		// the caller parses the key out of a packet buffer it reuses: one buffer per case, holding the key only
		// during the call, then whatever comes next (another key of the universe, or garbage)
		if w.scratch == nil {
			w.scratch = make([]byte, 2048)
		}
		buf := w.scratch[:len(k)]
		copy(buf, k)
		v, ok = w.c.GetValueBytes(ts, buf)
		if op.N%4 == 1 {
			other := c21Key((op.Keys[0] + 1 + op.N) % len(w.universe))
			copy(w.scratch, other)
			for i := len(other); i < len(w.scratch); i++ {
				w.scratch[i] = '#'
			}
		} else {
			for i := range w.scratch {
				w.scratch[i] = byte('A' + (i+op.N)%23)
			}
		}
		what = fmt.Sprintf("GetValueBytes(%d, %q) from a reused buffer, overwritten afterwards", ts, k)
		w.cls["getBytes-from-reused-buffer"] = true
		if e, has := mod.m[k]; has && ts > e.ts {
			w.cls["getBytes-refresh-then-buffer-overwritten"] = true
			w.bytesRefreshed = true
		}
	}
	e, has := mod.m[k]
	if ok != has || (has && v != e.val) || (!has && v != 0) {
		t.Fatalf("%s = (%d,%v), model has %+v present=%v", what, v, ok, e, has)
	}
	if has && ts > e.ts {
		e.ts = ts
		mod.m[k] = e
		mod.tsUpdates++
		w.cls["get-updates-access-time"] = true
	}
	post := w.observe(what)
	if len(post) != len(mod.m) {
		t.Fatalf("%s changed the number of entries from %d to %d", what, len(mod.m), len(post))
	}
	for k2, e2 := range mod.m {
		if post[k2] != e2 {
			t.Fatalf("%s: entry %q is %+v, expected %+v", what, k2, post[k2], e2)
		}
	}
}

func (w *c21CacheWorld) removeByTTL(op c21CacheOp) {
	t, mod := w.t, w.mod
	now := c21Base + op.Now
	maxCount := op.N
	w.c.RemoveByTTL(maxCount, now)
	what := fmt.Sprintf("RemoveByTTL(%d, now=%d) with ttl %d", maxCount, op.Now, mod.ttl)
	post := w.observe(what)
	var removed, expired int64
	for k, e := range mod.m {
		exp := mod.ttl > 0 && int64(e.ts)+mod.ttl < int64(now) // "older items will be unconditionally evicted"
		if exp {
			expired++
		}
		p, ok := post[k]
		if ok {
			if p != e {
				t.Fatalf("%s: entry %q changed from %+v to %+v", what, k, e, p)
			}
			continue
		}
		removed++
		if !exp {
			t.Fatalf("%s: removed %q accessed at %d, which is not older than the ttl", what, k, e.ts-c21Base)
		}
	}
	if len(post) != len(mod.m)-int(removed) {
		t.Fatalf("%s: entries appeared", what)
	}
	if maxCount >= len(mod.m) && removed != expired {
		t.Fatalf("%s: visited the whole cache but removed %d of %d expired entries", what, removed, expired)
	}
	if removed > 0 {
		w.cls["ttl-evict"] = true
		if c21TTLRemovalMustBeSaved {
			mod.dirty = what
		} else {
			mod.ttlRemoved = true
		}
	}
	mod.evicts += removed
	mod.m = post
}

func (w *c21CacheWorld) stats() {
	t, mod := w.t, w.mod
	n, sumSize, avgTS, adds, evicts, tsUpd, tsSkips := w.c.Stats()
	size, ts := c21SumSize(mod.m)
	wantAvg := 0.0
	if len(mod.m) != 0 {
		wantAvg = float64(ts) / float64(len(mod.m))
	}
	if n != len(mod.m) || sumSize != size || avgTS != wantAvg || adds != mod.adds || evicts != mod.evicts || tsUpd != mod.tsUpdates || tsSkips != 0 {
		t.Fatalf("Stats() = elements %d size %d avgTS %v adds %d evicts %d tsUpdates %d skips %d; model: %d %d %v %d %d %d 0",
			n, sumSize, avgTS, adds, evicts, tsUpd, tsSkips, len(mod.m), size, wantAvg, mod.adds, mod.evicts, mod.tsUpdates)
	}
	mod.adds, mod.evicts, mod.tsUpdates = 0, 0, 0
}

func (w *c21CacheWorld) save() {
	t, mod := w.t, w.mod
	before := w.fileBytes()
	ok, err := w.c.Save()
	if err != nil {
		t.Fatalf("Save: %v", err)
	}
	after := w.fileBytes()
	if mod.dirty != "" {
		w.cls["save-after-change"] = true
		if mod.partialFit && mod.addCalls == 1 {
			w.cls["save-after-partial-fit-add"] = true // the only add since the last save/load inserted some of its pairs
		}
	}
	if !ok {
		if !bytes.Equal(before, after) {
			t.Fatalf("Save reported nothing to do but changed the file")
		}
		if mod.dirty != "" {
			t.Fatalf("Save reported nothing to save, but the mappings changed since the last save/load (%s): the file still holds %d entries, the cache %d",
				mod.dirty, len(mod.saved), len(mod.m))
		}
		if mod.ttlRemoved {
			return
		}
		// nothing but access times changed: the file on disk must still reload to the live mappings
		onDisk, _ := c21ParseFile(t, after)
		items := c21ItemsOf(onDisk)
		if len(items) != len(mod.m) {
			t.Fatalf("after Save (nothing to save): file holds %d entries, cache %d", len(items), len(mod.m))
		}
		for k, e := range mod.m {
			if f, ok := items[k]; !ok || f.val != e.val {
				t.Fatalf("after Save (nothing to save): file has %q=%+v, cache %+v", k, f, e)
			}
		}
		return
	}
	// the file must hold exactly the current contents
	got := map[string]c21Entry{}
	savedChunks, complete := c21ParseFile(t, after)
	if !complete {
		t.Fatalf("Save: the file of %d bytes is not a sequence of well-formed chunks", len(after))
	}
	for _, ch := range savedChunks {
		for k, e := range ch.items {
			if _, dup := got[k]; dup {
				t.Fatalf("Save: key %q twice in the file", k)
			}
			got[k] = e
		}
	}
	if len(got) != len(mod.m) {
		t.Fatalf("Save: file holds %d entries, cache %d", len(got), len(mod.m))
	}
	for k, e := range mod.m {
		if got[k] != e {
			t.Fatalf("Save: file has %q=%+v, cache %+v", k, got[k], e)
		}
	}
	// and an actual reload of it gives the live contents back
	if mod.dirty != "" {
		cp := append([]byte(nil), after...)
		c2, err := LoadMappingsCacheSlice(&cp, mod.maxSize)
		if err != nil {
			t.Fatalf("reload right after Save: %v", err)
		}
		c2.testMode = true
		re := c21Observe(t, c2, w.universe, "reload right after Save")
		if len(re) != len(mod.m) {
			t.Fatalf("reload right after Save: %d entries, cache %d", len(re), len(mod.m))
		}
		for k, e := range mod.m {
			if re[k] != e {
				t.Fatalf("reload right after Save: %q=%+v, cache %+v", k, re[k], e)
			}
		}
	}
	mod.savedBytes = after
	mod.saved = c21Copy(mod.m)
	mod.dirty, mod.addCalls, mod.partialFit, mod.ttlRemoved = "", 0, false, false
	w.cls["save"] = true
}

// load restarts the process: the file (as of the last effective save), optionally damaged, is loaded.
func (w *c21CacheWorld) load(op c21CacheOp) {
	t, mod := w.t, w.mod
	data := append([]byte(nil), mod.savedBytes...)
	what := "reload of the saved file"
	if op.Dmg%3 != 0 && len(data) > 0 {
		pos := op.N % len(data)
		if op.Dmg%3 == 1 {
			data = data[:pos]
			what = fmt.Sprintf("reload of the saved file cut at %d of %d bytes", pos, len(mod.savedBytes))
		} else {
			data[pos] ^= 1 << (op.N / 11 % 8)
			what = fmt.Sprintf("reload of the saved file with a bit of byte %d of %d flipped", pos, len(data))
		}
		w.cls["reload-damaged"] = true
	} else {
		w.cls["reload-undamaged"] = true
	}
	// what a reader of the documented format finds in front of the first malformed chunk
	chunks, complete := c21ParseFile(t, data) // (flipping the same bit of an already damaged file again repairs it)
	want := c21ItemsOf(chunks)
	expectErr := !complete
	if len(want) > 0 && len(want) < len(mod.saved) {
		w.cls["reload-damaged-partial"] = true
	}
	err := w.open(data)
	if expectErr != (err != nil) {
		t.Fatalf("%s: load error %v, expected an error: %v", what, err, expectErr)
	}
	got := w.observe(what)
	if len(got) != len(want) {
		t.Fatalf("%s: %d entries loaded, the undamaged chunks hold %d (saved %d)", what, len(got), len(want), len(mod.saved))
	}
	for k, e := range want {
		if got[k] != e {
			t.Fatalf("%s: entry %q loaded as %+v, saved %+v", what, k, got[k], e)
		}
	}
	mod.m = got
	mod.saved = c21Copy(got)
	mod.savedBytes = data
	mod.adds, mod.evicts, mod.tsUpdates = 0, 0, 0
	mod.dirty, mod.addCalls, mod.partialFit, mod.ttlRemoved = "", 0, false, false
}

func c21CacheProp(t vpT, cs c21CacheCase) (nontrivial bool, classes []string) {
	w := &c21CacheWorld{t: t, cs: cs, cls: map[string]bool{}}
	w.mod = &c21Model{m: map[string]c21Entry{}, saved: map[string]c21Entry{}, maxSize: c21Sizes[cs.MaxSize%len(c21Sizes)], ttl: int64(cs.TTL)}
	for i := 0; i < len(c21KeyLens); i++ {
		w.universe = append(w.universe, c21Key(i))
	}
	if cs.File {
		dir, err := os.MkdirTemp("", "vp-c21c-")
		if err != nil {
			t.Fatalf("harness: %v", err)
		}
		w.dir = dir
		defer os.RemoveAll(dir)
		defer func() {
			if w.fp != nil {
				_ = w.fp.Close()
			}
		}()
		w.cls["file"] = true
	}
	if err := w.open(nil); err != nil {
		t.Fatalf("load of an empty file: %v", err)
	}
	for _, op := range cs.Ops {
		switch op.K {
		case "add":
			w.add(op)
		case "get":
			w.get(op)
		case "ttl":
			w.removeByTTL(op)
		case "cfg":
			old := w.mod.maxSize
			w.mod.maxSize = c21Sizes[op.N%len(c21Sizes)]
			w.mod.ttl = int64(op.TTL)
			w.c.SetSizeTTL(w.mod.maxSize, op.TTL)
			if size, _ := c21SumSize(w.mod.m); w.mod.maxSize < old && size > w.mod.maxSize {
				w.cls["limit-lowered-below-contents"] = true
			}
		case "stats":
			w.stats()
		case "save":
			w.save()
		case "load":
			if op.Save {
				w.save()
			}
			w.load(op)
		}
	}
	w.stats()
	for k := range w.cls {
		classes = append(classes, k)
	}
	sort.Strings(classes)
	return w.cls["evict-on-add"] || w.cls["ttl-evict"] || w.cls["reload-damaged"], classes
}

// ---------- big caches: several chunks in the saved file ----------

type c21BigCase struct {
	File   bool   `json:"file,omitempty"`
	Det    bool   `json:"det,omitempty"`
	N      int    `json:"n"`       // entries
	KeyLen int    `json:"key_len"` // padding of every key
	Seed   uint64 `json:"seed"`
	Dmg    int    `json:"dmg"` // 0 intact, 1 truncate, 2 flip
	Pos    uint64 `json:"pos"`
	Near   bool   `json:"near,omitempty"` // Pos counts back from the end of chunk Pos/64
}

func c21BigProp(t vpT, cs c21BigCase) (nontrivial bool, classes []string) {
	cls := map[string]bool{}
	var buf []byte
	c, err := LoadMappingsCacheSlice(&buf, 1<<40)
	if err != nil {
		t.Fatalf("load of an empty file: %v", err)
	}
	c.testMode = true
	c.deterministic = cs.Det
	model := map[string]c21Entry{}
	x := cs.Seed*0x9E3779B97F4A7C15 + 1
	pad := strings.Repeat("p", cs.KeyLen)
	for i := 0; i < cs.N; {
		var pairs []MappingPair
		now := uint32(c21Base + i/500)
		for j := 0; j < 700 && i < cs.N; j, i = j+1, i+1 {
			x ^= x << 13
			x ^= x >> 7
			x ^= x << 17
			k := fmt.Sprintf("%s%d-%x", pad[:int(x>>40)%(cs.KeyLen+1)], i, x&0xffff)
			v := int32(i + 1)
			pairs = append(pairs, MappingPair{Str: k, Value: v})
			model[k] = c21Entry{val: v, ts: now}
		}
		c.AddValues(now, pairs)
	}
	if ok, err := c.Save(); err != nil || !ok {
		t.Fatalf("Save: %v %v", ok, err)
	}
	chunks, complete := c21ParseFile(t, buf)
	if !complete {
		t.Fatalf("Save: the file of %d bytes is not a sequence of well-formed chunks", len(buf))
	}
	inFile := 0
	for _, ch := range chunks {
		for k, e := range ch.items {
			if model[k] != e {
				t.Fatalf("Save: file has %q=%+v, cache %+v", k, e, model[k])
			}
		}
		inFile += len(ch.items)
	}
	if inFile != len(model) {
		t.Fatalf("Save: file holds %d entries, cache %d", inFile, len(model))
	}
	if len(chunks) > 1 {
		cls["multi-chunk-file"] = true
	}
	data := append([]byte(nil), buf...)
	want := map[string]c21Entry{}
	expectErr := false
	what := "reload of the saved file"
	if cs.Dmg%3 != 0 {
		pos := int(cs.Pos % uint64(len(data)))
		if cs.Near {
			pos = chunks[int(cs.Pos/64)%len(chunks)].end - int(cs.Pos%64)
			if pos < 0 {
				pos = 0
			}
			if pos >= len(data) {
				pos = len(data) - 1
			}
		}
		if cs.Dmg%3 == 1 {
			data = data[:pos]
			what = fmt.Sprintf("reload of the saved file cut at %d of %d bytes", pos, len(buf))
			cls["truncate"] = true
		} else {
			data[pos] ^= 1 << (cs.Pos / 13 % 8)
			what = fmt.Sprintf("reload of the saved file with a bit of byte %d of %d flipped", pos, len(buf))
			cls["bitflip"] = true
		}
		after, ok := c21ParseFile(t, data)
		want = c21ItemsOf(after)
		expectErr = !ok
		if ok {
			cls["truncate-at-chunk-boundary"] = true
		}
		if len(after) > len(chunks) {
			t.Fatalf("harness: damage created chunks")
		}
		if len(want) > 0 && len(want) < len(model) {
			cls["reload-damaged-partial"] = true
		}
	} else {
		want = model
	}
	var c2 *MappingsCache
	if cs.File {
		dir, err := os.MkdirTemp("", "vp-c21b-")
		if err != nil {
			t.Fatalf("harness: %v", err)
		}
		defer os.RemoveAll(dir)
		path := filepath.Join(dir, "mappings.cache")
		if err := os.WriteFile(path, data, 0666); err != nil {
			t.Fatalf("harness: %v", err)
		}
		fp, err := os.OpenFile(path, os.O_CREATE|os.O_RDWR, 0666)
		if err != nil {
			t.Fatalf("harness: %v", err)
		}
		defer fp.Close()
		c2, err = LoadMappingsCacheFile(fp, 1<<40, 0)
		if expectErr != (err != nil) {
			t.Fatalf("%s: load error %v, expected an error: %v", what, err, expectErr)
		}
		cls["file"] = true
	} else {
		c2, err = LoadMappingsCacheSlice(&data, 1<<40)
		if expectErr != (err != nil) {
			t.Fatalf("%s: load error %v, expected an error: %v", what, err, expectErr)
		}
	}
	c2.mu.RLock()
	n, sumSize, sumTS := len(c2.cache), c2.sumSize, c2.sumTS
	c2.mu.RUnlock()
	if n != len(want) {
		t.Fatalf("%s: %d entries loaded, the undamaged chunks hold %d (saved %d)", what, n, len(want), len(model))
	}
	for k, e := range want {
		v, ok := c2.GetValue(0, k)
		if !ok || v != e.val {
			t.Fatalf("%s: %q loaded as (%d,%v), saved %d", what, k, v, ok, e.val)
		}
		c2.mu.RLock()
		ts := c2.cache[k].accessTS
		c2.mu.RUnlock()
		if ts != e.ts {
			t.Fatalf("%s: %q loaded with access time %d, saved %d", what, k, ts, e.ts)
		}
	}
	size, ts := c21SumSize(want)
	if sumSize != size || sumTS != ts {
		t.Fatalf("%s: accounting sumSize=%d sumTS=%d, recomputed %d %d", what, sumSize, sumTS, size, ts)
	}
	for k := range cls {
		classes = append(classes, k)
	}
	sort.Strings(classes)
	return cs.Dmg%3 != 0 || len(chunks) > 1, classes
}

// ---------- generators ----------

func c21GenCacheOp() *rapid.Generator[c21CacheOp] {
	kinds := []string{"add", "add", "add", "add", "add", "get", "get", "get", "get", "ttl", "ttl", "cfg", "stats", "save", "save", "load", "load"}
	return rapid.Custom(func(t *rapid.T) c21CacheOp {
		op := c21CacheOp{K: rapid.SampledFrom(kinds).Draw(t, "k")}
		switch op.K {
		case "add":
			op.Now = uint32(rapid.IntRange(0, 60).Draw(t, "now"))
			op.Keys = rapid.SliceOfNDistinct(rapid.IntRange(0, len(c21KeyLens)-1), 0, 8, rapid.ID[int]).Draw(t, "keys")
			if rapid.IntRange(0, 3).Draw(t, "special") == 0 {
				for range op.Keys {
					op.Vals = append(op.Vals, rapid.SampledFrom([]int32{0, 0, 1, 2, 3, 777}).Draw(t, "val"))
				}
			}
		case "get":
			op.Now = uint32(rapid.IntRange(0, 90).Draw(t, "now"))
			if rapid.IntRange(0, 3).Draw(t, "any") == 0 {
				op.Keys = []int{rapid.IntRange(0, len(c21KeyLens)-1).Draw(t, "key")}
			} else {
				op.Keys = []int{100 + rapid.IntRange(0, 9).Draw(t, "present")}
			}
			op.N = rapid.IntRange(0, 7).Draw(t, "how")
		case "ttl":
			op.Now = uint32(rapid.IntRange(0, 150).Draw(t, "now"))
			op.N = rapid.SampledFrom([]int{0, 1, 2, 5, 1000, 1000}).Draw(t, "max")
		case "cfg":
			op.N = rapid.IntRange(0, len(c21Sizes)-1).Draw(t, "size")
			op.TTL = rapid.SampledFrom([]int{0, 1, 5, 20, 1000}).Draw(t, "ttl")
		case "load":
			op.Dmg = rapid.SampledFrom([]int{0, 1, 2}).Draw(t, "dmg")
			op.N = rapid.IntRange(0, 1<<16).Draw(t, "pos")
			op.Save = rapid.IntRange(0, 3).Draw(t, "save") != 0
		}
		return op
	})
}

// c21GenCacheSegment: one operation, or "save/load, then one add that cannot fit completely, then save
// (and reload)": the add changes the contents through the eviction path right after the versions were equal.
func c21GenCacheSegment() *rapid.Generator[[]c21CacheOp] {
	return rapid.Custom(func(t *rapid.T) []c21CacheOp {
		switch rapid.IntRange(0, 7).Draw(t, "pattern") {
		case 0:
		case 1: // lookups from the reused buffer that refresh access times, then growth of the map, then save/reload
			var ops []c21CacheOp
			if rapid.IntRange(0, 2).Draw(t, "roomy") != 0 {
				ops = append(ops, c21CacheOp{K: "cfg", N: len(c21Sizes) - 1 - rapid.IntRange(0, 1).Draw(t, "size"), TTL: rapid.SampledFrom([]int{0, 1000}).Draw(t, "ttl")})
			}
			ops = append(ops, c21CacheOp{K: "add", Now: uint32(rapid.IntRange(0, 20).Draw(t, "now0")),
				Keys: rapid.SliceOfNDistinct(rapid.IntRange(1, len(c21KeyLens)-1), 1, 6, rapid.ID[int]).Draw(t, "keys0")})
			now := 20
			for n := rapid.IntRange(1, 5).Draw(t, "lookups"); n > 0; n-- {
				now += rapid.IntRange(1, 10).Draw(t, "later")
				ops = append(ops, c21CacheOp{K: "get", Now: uint32(now), Keys: []int{100 + rapid.IntRange(0, 9).Draw(t, "present")}, N: rapid.SampledFrom([]int{1, 3, 5}).Draw(t, "how")})
			}
			for n := rapid.IntRange(0, 3).Draw(t, "growth"); n > 0; n-- {
				ops = append(ops, c21CacheOp{K: "add", Now: uint32(now),
					Keys: rapid.SliceOfNDistinct(rapid.IntRange(1, len(c21KeyLens)-1), 3, 10, rapid.ID[int]).Draw(t, "keys1")})
			}
			if rapid.Bool().Draw(t, "restart") {
				ops = append(ops, c21CacheOp{K: "load", Save: true})
			}
			return ops
		default:
			return []c21CacheOp{c21GenCacheOp().Draw(t, "op")}
		}
		var ops []c21CacheOp
		if rapid.Bool().Draw(t, "small-limit") {
			ops = append(ops, c21CacheOp{K: "cfg", N: rapid.IntRange(2, 5).Draw(t, "size"), TTL: rapid.SampledFrom([]int{0, 20}).Draw(t, "ttl")})
		}
		if rapid.Bool().Draw(t, "sync-by-load") {
			ops = append(ops, c21CacheOp{K: "load", Save: true})
		} else {
			ops = append(ops, c21CacheOp{K: "save"})
		}
		ops = append(ops, c21CacheOp{K: "add", Now: uint32(rapid.IntRange(0, 60).Draw(t, "now")),
			Keys: rapid.SliceOfNDistinct(rapid.IntRange(1, len(c21KeyLens)-1), 3, 10, rapid.ID[int]).Draw(t, "keys")})
		ops = append(ops, c21CacheOp{K: "save"})
		if rapid.Bool().Draw(t, "reload") {
			ops = append(ops, c21CacheOp{K: "load"})
		}
		return ops
	})
}

func c21GenCacheCase() *rapid.Generator[c21CacheCase] {
	return rapid.Custom(func(t *rapid.T) c21CacheCase {
		c := c21CacheCase{
			File:    rapid.IntRange(0, 7).Draw(t, "file") == 7,
			Det:     rapid.Bool().Draw(t, "det"),
			MaxSize: rapid.IntRange(0, len(c21Sizes)-1).Draw(t, "size"),
			TTL:     rapid.SampledFrom([]int{0, 5, 20, 20}).Draw(t, "ttl"),
		}
		for _, seg := range rapid.SliceOfN(c21GenCacheSegment(), 4, 50).Draw(t, "segments") {
			c.Ops = append(c.Ops, seg...)
		}
		return c
	})
}

func c21GenBigCase() *rapid.Generator[c21BigCase] {
	return rapid.Custom(func(t *rapid.T) c21BigCase {
		return c21BigCase{
			File:   rapid.IntRange(0, 3).Draw(t, "file") == 3,
			Det:    rapid.Bool().Draw(t, "det"),
			N:      rapid.IntRange(2500, 5000).Draw(t, "n"),
			KeyLen: rapid.IntRange(450, 900).Draw(t, "keylen"),
			Seed:   rapid.Uint64Range(0, 1<<20).Draw(t, "seed"),
			Dmg:    rapid.SampledFrom([]int{0, 1, 1, 2, 2}).Draw(t, "dmg"),
			Pos:    rapid.Uint64Range(0, 1<<24).Draw(t, "pos"),
			Near:   rapid.Bool().Draw(t, "near"),
		}
	})
}

func TestVerifC21Cache(t *testing.T) {
	ev := vpNewEv(t, "C21", "cache")
	rapid.Check(t, func(rt *rapid.T) {
		c := c21GenCacheCase().Draw(rt, "case")
		vpRunCase(rt, "C21", "cache", c, func() {
			nt, cls := c21CacheProp(rt, c)
			ev.Case(nt, c, cls...)
		})
	})
}

func TestVerifC21BigCache(t *testing.T) {
	ev := vpNewEv(t, "C21", "cachebig")
	rapid.Check(t, func(rt *rapid.T) {
		c := c21GenBigCase().Draw(rt, "case")
		vpRunCase(rt, "C21", "cachebig", c, func() {
			nt, cls := c21BigProp(rt, c)
			ev.Case(nt, c, cls...)
		})
	})
}

func init() {
	vpReplayers["C21/cache"] = func(t vpT, raw json.RawMessage) {
		var c c21CacheCase
		if err := json.Unmarshal(raw, &c); err != nil {
			t.Fatalf("%v", err)
		}
		c21CacheProp(t, c)
	}
	vpReplayers["C21/cachebig"] = func(t vpT, raw json.RawMessage) {
		var c c21BigCase
		if err := json.Unmarshal(raw, &c); err != nil {
			t.Fatalf("%v", err)
		}
		c21BigProp(t, c)
	}
}
