//go:build verif

package data_model

import (
	"os"
	"path/filepath"
	"regexp"
	"sort"
	"testing"

	_ "github.com/VKCOM/statshouse/internal/data_model/gen2/factory"
	_ "github.com/VKCOM/statshouse/internal/data_model/gen2/factory_bytes"
	gen2meta "github.com/VKCOM/statshouse/internal/data_model/gen2/meta"
	_ "github.com/VKCOM/statshouse/internal/vkgo/sqlitev2/checkpoint/gen2/factory"
	_ "github.com/VKCOM/statshouse/internal/vkgo/sqlitev2/checkpoint/gen2/factory_bytes"
	cpmeta "github.com/VKCOM/statshouse/internal/vkgo/sqlitev2/checkpoint/gen2/meta"
	barsictl "github.com/VKCOM/statshouse/internal/vkgo/vktl/gen/tl"
	"github.com/VKCOM/statshouse/internal/vkgo/vktl/gen/tlbarsic"
)

// ---------- C14: the three generated trees reachable from this package ----------
// (the fsbinlog tree is internal to its package and is checked there)

func c14Gen2Items() []c14Item { return c14FromFactory("gen2", gen2meta.GetAllTLItems()) }

func c14CheckpointItems() []c14Item { return c14FromFactory("checkpoint", cpmeta.GetAllTLItems()) }

// tlbarsic has no factory: enumerated by hand, and compared at run time with the TL names that occur in
// the generated sources (c14BarsicNamesInSource) so that a type added later makes the check inconclusive.
func c14BarsicItems() []c14Item {
	mk := func(name string, tag uint32, tl2 bool, n func() c14Obj, nb func() c14Obj) c14Item {
		return c14Item{Fam: "barsic", Name: name, Tag: tag, HasTL2: tl2, New: n, NewBytes: nb}
	}
	return []c14Item{
		mk("barsic.applyPayload", 0, false, func() c14Obj { return new(tlbarsic.ApplyPayload) }, func() c14Obj { return new(tlbarsic.ApplyPayloadBytes) }),
		mk("barsic.changeRole", 0, false, func() c14Obj { return new(tlbarsic.ChangeRole) }, nil),
		mk("barsic.commit", 0x12357324, false, func() c14Obj { return new(tlbarsic.Commit) }, func() c14Obj { return new(tlbarsic.CommitBytes) }),
		mk("barsic.engineStarted", 0, false, func() c14Obj { return new(tlbarsic.EngineStarted) }, func() c14Obj { return new(tlbarsic.EngineStartedBytes) }),
		mk("barsic.engineStatus", 0, false, func() c14Obj { return new(tlbarsic.EngineStatus) }, func() c14Obj { return new(tlbarsic.EngineStatusBytes) }),
		mk("barsic.engineWantsRestart", 0, false, func() c14Obj { return new(tlbarsic.EngineWantsRestart) }, nil),
		mk("barsic.reindex", 0, false, func() c14Obj { return new(tlbarsic.Reindex) }, nil),
		mk("barsic.revert", 0, false, func() c14Obj { return new(tlbarsic.Revert) }, nil),
		mk("barsic.shutdown", 0, false, func() c14Obj { return new(tlbarsic.Shutdown) }, nil),
		mk("barsic.skip", 0, false, func() c14Obj { return new(tlbarsic.Skip) }, nil),
		mk("barsic.snapshotDependency", 0, false, func() c14Obj { return new(tlbarsic.SnapshotDependency) }, func() c14Obj { return new(tlbarsic.SnapshotDependencyBytes) }),
		mk("barsic.snapshotExternalFile", 0, false, func() c14Obj { return new(tlbarsic.SnapshotExternalFile) }, func() c14Obj { return new(tlbarsic.SnapshotExternalFileBytes) }),
		mk("barsic.snapshotHeader", 0x1d0d1b74, false, func() c14Obj { return new(tlbarsic.SnapshotHeader) }, func() c14Obj { return new(tlbarsic.SnapshotHeaderBytes) }),
		mk("barsic.split", 0, false, func() c14Obj { return new(tlbarsic.Split) }, func() c14Obj { return new(tlbarsic.SplitBytes) }),
		mk("barsic.start", 0, false, func() c14Obj { return new(tlbarsic.Start) }, func() c14Obj { return new(tlbarsic.StartBytes) }),
		// the template instantiations the tree exports
		mk("vector#barsic.snapshotDependency", 0x1cb5c415, false, func() c14Obj { return new(tlbarsic.VectorSnapshotDependency) }, func() c14Obj { return new(tlbarsic.VectorSnapshotDependencyBytes) }),
		mk("vector#barsic.snapshotExternalFile", 0x1cb5c415, false, func() c14Obj { return new(tlbarsic.VectorSnapshotExternalFile) }, func() c14Obj { return new(tlbarsic.VectorSnapshotExternalFileBytes) }),
		mk("vector#long", 0x1cb5c415, true, func() c14Obj { return new(barsictl.VectorLong) }, nil),
		mk("true#", 0x3fedd339, true, func() c14Obj { return new(tlbarsic.Commit__Result) }, nil),
	}
}

// c14BarsicTags fills in the tags the hand list leaves at 0 from the objects themselves (the tag an
// object reports is compared with the boxed encoding by the property, so this is not circular).
func c14BarsicItemsResolved() []c14Item {
	items := c14BarsicItems()
	for i := range items {
		if items[i].Tag == 0 {
			items[i].Tag = items[i].New().TLTag()
		}
	}
	return items
}

var c14TLNameRe = regexp.MustCompile(`TLName\(\) string \{ return "([^"]+)" \}`)

// c14BarsicNamesInSource lists the distinct "barsic.*" TL names declared by the generated sources.
func c14BarsicNamesInSource() ([]string, error) {
	root := os.Getenv("VERIF_REPO")
	if root == "" {
		root = "/repo"
	}
	files, err := filepath.Glob(filepath.Join(root, "internal/vkgo/vktl/gen/internal/tlbarsic/*/*.go"))
	if err != nil || len(files) == 0 {
		return nil, err
	}
	set := map[string]bool{}
	for _, f := range files {
		b, err := os.ReadFile(f)
		if err != nil {
			return nil, err
		}
		for _, m := range c14TLNameRe.FindAllSubmatch(b, -1) {
			set[string(m[1])] = true
		}
	}
	var out []string
	for k := range set {
		out = append(out, k)
	}
	sort.Strings(out)
	return out, nil
}

func TestVerifC14Gen2(t *testing.T) {
	items := c14Gen2Items()
	c14RunFamily(t, "gen2", items, len(gen2meta.GetAllTLItems()))
}

func TestVerifC14Checkpoint(t *testing.T) {
	items := c14CheckpointItems()
	c14RunFamily(t, "checkpoint", items, len(cpmeta.GetAllTLItems()))
}

func TestVerifC14Barsic(t *testing.T) {
	items := c14BarsicItemsResolved()
	total := len(items)
	names, err := c14BarsicNamesInSource()
	if err != nil || len(names) == 0 {
		t.Logf("cannot list the generated barsic sources (%v): enumeration not cross-checked", err)
		total = -1
	} else {
		have := map[string]bool{}
		for _, it := range items {
			have[it.Name] = true
		}
		for _, n := range names {
			if !have[n] {
				t.Logf("generated type %s is not in the hand enumeration", n)
				total++
			}
		}
	}
	c14RunFamily(t, "barsic", items, total)
}

func init() {
	vpReplayers["C14/gen2"] = c14Replayer(c14Gen2Items)
	vpReplayers["C14/checkpoint"] = c14Replayer(c14CheckpointItems)
	vpReplayers["C14/barsic"] = c14Replayer(c14BarsicItemsResolved)
}
