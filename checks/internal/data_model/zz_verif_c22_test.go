//go:build verif

package data_model

import (
	"encoding/json"
	"strings"
	"testing"
	"time"

	"pgregory.net/rapid"

	"github.com/VKCOM/statshouse/internal/format"
)

// ---------- C22: query time axes are aligned, gap-free and bounded ----------
//
// No reference implementation: the oracle is a set of validity predicates over the returned axis, written from the
// statement (see c22Prop). Calendar arithmetic uses time.Date only.

type c22Metric struct {
	Resolution int   `json:"resolution"`
	Offset     int64 `json:"offset"`
}

type c22Case struct {
	Now         int64       `json:"now"`
	Start       int64       `json:"start"`
	End         int64       `json:"end"`
	Step        int64       `json:"step"`
	ScreenWidth int64       `json:"screen_width"`
	Mode        int         `json:"mode"`
	Extend      bool        `json:"extend"`
	Zone        string      `json:"zone,omitempty"` // named zone; "" = fixed offset ZoneOff
	ZoneOff     int         `json:"zone_off"`
	WeekStart   int         `json:"week_start"` // 0 (Sunday) .. 6
	WeekShift   int         `json:"week_shift"` // utc offset is congruent to zone offset + (4-WeekStart) days; this picks the representative
	Metrics     []c22Metric `json:"metrics,omitempty"`
}

var c22Zones = []string{"UTC", "Europe/Moscow", "America/New_York", "Europe/Berlin", "Asia/Kolkata", "Asia/Kathmandu",
	"Australia/Lord_Howe", "Pacific/Chatham", "America/St_Johns", "Asia/Tokyo", "America/Los_Angeles",
	// zones that have moved clocks forward at local midnight, some of them on the first day of a month
	"America/Asuncion", "America/Havana", "America/Sao_Paulo", "America/Santiago", "Asia/Beirut", "Asia/Amman", "Africa/Cairo"}

func c22LoadZone(name string) *time.Location {
	loc, err := time.LoadLocation(name)
	if err != nil {
		return nil
	}
	return loc
}

func c22TZDataAvailable() bool { return c22LoadZone("Europe/Moscow") != nil }

func c22Mod(a, b int64) int64 {
	m := a % b
	if m < 0 {
		m += b
	}
	return m
}

// c22Loc returns the location and the fixed utc offset the API would be configured with (derived here from the
// definition: seconds to add to a UNIX time so that weeks start at WeekStart and days at local midnight, zone offset taken
// at the epoch as the API does at start-up).
func c22Loc(c *c22Case) (*time.Location, int64, bool) {
	var loc *time.Location
	if c.Zone != "" {
		if loc = c22LoadZone(c.Zone); loc == nil {
			return nil, 0, false
		}
	} else {
		loc = time.FixedZone("vp", c.ZoneOff)
	}
	_, zoneOff := time.Unix(0, 0).In(loc).Zone()
	// 1970-01-01 was a Thursday (weekday 4)
	days := int64(c22Mod(int64(4-c.WeekStart), 7)) + 7*int64(c.WeekShift)
	return loc, int64(zoneOff) + days*86400, true
}

func c22MonthIndex(ts int64, loc *time.Location) int {
	lt := time.Unix(ts, 0).In(loc)
	return lt.Year()*12 + int(lt.Month())
}

// c22Next: the next point of a level. For the monthly level it is the first second of the next calendar month in loc
// (searched, so that zones which skip local midnight on the first day of a month are handled by the definition).
func c22Next(t, step int64, loc *time.Location) int64 {
	if step != _1M {
		return t + step
	}
	target := c22MonthIndex(t, loc) + 1
	lt := time.Unix(t, 0).In(loc)
	cand := time.Date(lt.Year(), lt.Month()+1, 1, 0, 0, 0, 0, loc).Unix()
	lo, hi := cand-2*86400, cand+2*86400 // monthIndex(lo) < target <= monthIndex(hi)
	for lo+1 < hi {
		mid := lo + (hi-lo)/2
		if c22MonthIndex(mid, loc) >= target {
			hi = mid
		} else {
			lo = mid
		}
	}
	return hi
}

// c22Aligned: a monthly point is the first second of a calendar month in loc; other points are multiples of the step
// after adding the utc offset.
func c22Aligned(t vpT, ts, step, off int64, loc *time.Location) bool {
	if step == _1M {
		if c22MonthIndex(ts-1, loc) != c22MonthIndex(ts, loc) {
			return true
		}
		// clocks moved back over midnight: the second local 00:00:00 of day 1 is a month start as well
		lt := time.Unix(ts, 0).In(loc)
		h, m, s := lt.Clock()
		return lt.Day() == 1 && h == 0 && m == 0 && s == 0
	}
	return c22Mod(ts+off, step) == 0
}

// c22IsNext: b is the point that follows a on a level with the given step.
func c22IsNext(a, b, step, off int64, loc *time.Location) bool {
	if step == _1M {
		return c22MonthIndex(b, loc) == c22MonthIndex(a, loc)+1 && c22Aligned(nil, b, step, off, loc)
	}
	return b == a+step
}

func c22Prop(t vpT, c c22Case) (nontrivial bool, classes []string) {
	loc, off, ok := c22Loc(&c)
	if !ok {
		return false, []string{"zone-unavailable"}
	}
	args := GetTimescaleArgs{
		Start:       c.Start,
		End:         c.End,
		Step:        c.Step,
		TimeNow:     c.Now,
		ScreenWidth: c.ScreenWidth,
		Mode:        QueryMode(c.Mode),
		Extend:      c.Extend,
		Location:    loc,
		UTCOffset:   off,
	}
	metrics := make([]*format.MetricMetaValue, len(c.Metrics))
	var maxOffset int64
	for i, m := range c.Metrics {
		metrics[i] = &format.MetricMetaValue{MetricID: int32(i + 1), Resolution: m.Resolution}
		args.QueryStat.Add(metrics[i], m.Offset)
		if maxOffset < m.Offset {
			maxOffset = m.Offset
		}
	}
	add := func(b bool, name string) {
		if b {
			classes = append(classes, name)
		}
	}
	add(c.Zone != "", "named-zone")
	add(c.Extend, "extend")
	add(c.Mode == int(PointQuery), "point-query")
	add(off != 0, "utc-offset-nonzero")
	add(off < 0, "utc-offset-negative")
	add(maxOffset != 0, "metric-offset")
	ts, err := GetTimescale(args)
	if err != nil {
		switch {
		case err == errQueryOutOfRange:
			return false, append(classes, "error-out-of-range")
		case strings.HasPrefix(err.Error(), "offset ") && len(c.Metrics) != 0:
			return false, append(classes, "error-offset")
		}
		t.Fatalf("undocumented error: %v", err)
	}
	T, L := ts.Time, ts.LODs
	n := len(T)
	if n == 0 {
		if len(L) != 0 && c.Mode != int(PointQuery) {
			t.Fatalf("no time points but %d LODs", len(L))
		}
		return false, append(classes, "empty")
	}
	// each level's step is one of the table resolutions; levels get finer toward the present
	total := 0
	for i, l := range L {
		if _, ok := LODTables[Version6][l.Step]; !ok {
			t.Fatalf("LOD %d step %d is not a table resolution", i, l.Step)
		}
		if l.Version != Version6 {
			t.Fatalf("LOD %d version %q", i, l.Version)
		}
		if i > 0 && L[i-1].Step < l.Step {
			t.Fatalf("LOD steps get coarser toward the present: %d then %d", L[i-1].Step, l.Step)
		}
		if l.Len <= 0 {
			t.Fatalf("LOD %d has length %d", i, l.Len)
		}
		total += l.Len
	}
	add(len(L) >= 2, "multi-lod")
	add(len(L) >= 3, "three-lods")
	add(L[0].Step == _1M, "monthly")
	if c.Mode == int(PointQuery) {
		step := L[0].Step
		if n != 2 || len(L) != 1 {
			t.Fatalf("point query: %d time points, %d LODs", n, len(L))
		}
		if !(T[0] < T[1]) {
			t.Fatalf("point query: interval [%d,%d) is empty or reversed", T[0], T[1])
		}
		for _, p := range T {
			if !c22Aligned(t, p, step, off, loc) {
				t.Fatalf("point query: %d is not aligned to step %d with utc offset %d", p, step, off)
			}
		}
		if c.Extend {
			if !(T[0] <= c.Start && c.End <= T[1]) {
				t.Fatalf("point query with extend: [%d,%d) does not cover [%d,%d)", T[0], T[1], c.Start, c.End)
			}
		} else {
			// the interval reported is the requested one up to one (partial) step on each side
			if !(c22Next(T[0], step, loc) > c.Start && T[0] <= c22Next(c.Start, step, loc)) {
				t.Fatalf("point query: interval start %d is more than one step %d away from %d", T[0], step, c.Start)
			}
			if !(c22Next(T[1], step, loc) > c.End && T[1] <= c22Next(c.End, step, loc)) {
				t.Fatalf("point query: interval end %d is more than one step %d away from %d", T[1], step, c.End)
			}
		}
		return L[0].Step == _1M || off != 0, classes
	}
	// the number of points stays within the limit
	if n > MaxSlice {
		t.Fatalf("%d time points exceed the limit %d", n, MaxSlice)
	}
	if total != n {
		t.Fatalf("LOD lengths sum to %d, %d time points", total, n)
	}
	// strictly increasing, consecutive difference == step of the level covering the index, every point aligned
	fixedZone := c.Zone == ""
	first := make([]int, len(L)) // index of the first point of each level
	j := 0
	for i, l := range L {
		first[i] = j
		for k := 0; k < l.Len; k++ {
			p := T[j]
			if !c22Aligned(t, p, l.Step, off, loc) {
				t.Fatalf("point %d (%d, level step %d) is not aligned (utc offset %d, zone %v)", j, p, l.Step, off, loc)
			}
			if fixedZone && (l.Step == _24h || l.Step == _7d) {
				lt := time.Unix(p, 0).In(loc)
				if h, m, s := lt.Clock(); h != 0 || m != 0 || s != 0 {
					t.Fatalf("point %d (%d, level step %d) is not a local midnight: %v", j, p, l.Step, lt)
				}
				if l.Step == _7d && int(lt.Weekday()) != c.WeekStart {
					t.Fatalf("point %d (%d, weekly level) falls on %v, weeks start on day %d", j, p, lt.Weekday(), c.WeekStart)
				}
			}
			if j+1 < n {
				if !(T[j+1] > p) {
					t.Fatalf("time not strictly increasing at %d: %d then %d", j, p, T[j+1])
				}
				if !c22IsNext(p, T[j+1], l.Step, off, loc) {
					t.Fatalf("gap at %d: %d then %d, level step %d wants %d", j, p, T[j+1], l.Step, c22Next(p, l.Step, loc))
				}
			}
			j++
		}
	}
	last := L[len(L)-1].Step
	// the requested range is covered starting at the reported start index
	if ts.StartX < 1 || ts.StartX > n {
		t.Fatalf("StartX=%d with %d points", ts.StartX, n)
	}
	if !(T[ts.StartX-1] < c.Start) {
		t.Fatalf("point %d before StartX=%d is inside the requested range starting at %d", T[ts.StartX-1], ts.StartX, c.Start)
	}
	if c.Extend {
		if ts.StartX >= n || T[ts.StartX] > c.Start {
			t.Fatalf("extend: Time[StartX=%d] does not cover the range start %d", ts.StartX, c.Start)
		}
		if T[n-1] < c.End {
			t.Fatalf("extend: last point %d is before the range end %d", T[n-1], c.End)
		}
	}
	if c22Next(T[n-1], last, loc) < c.End {
		t.Fatalf("last point %d + step %d does not reach the range end %d", T[n-1], last, c.End)
	}
	add(ts.StartX < n && T[ts.StartX] == c.Start, "start-aligned")
	add(ts.StartX == n, "no-point-in-range")
	// per-level ranges handed to the storage layer are contiguous and match those points
	for mi, m := range metrics {
		offset := c.Metrics[mi].Offset
		lods := ts.GetLODs(m, offset)
		if len(lods) != len(L) {
			t.Fatalf("GetLODs returned %d ranges for %d levels", len(lods), len(L))
		}
		for i, lod := range lods {
			if lod.StepSec != L[i].Step || lod.Version != L[i].Version || lod.Metric != m || lod.Location != loc {
				t.Fatalf("storage range %d does not match its level: %+v vs %+v", i, lod, L[i])
			}
			if i > 0 && lods[i-1].ToSec != lod.FromSec {
				t.Fatalf("storage ranges not contiguous: %d ends at %d, %d starts at %d", i-1, lods[i-1].ToSec, i, lod.FromSec)
			}
			if lod.StepSec != _1M {
				if lod.FromSec != T[first[i]]-offset {
					t.Fatalf("storage range %d starts at %d, first point of the level is %d (metric offset %d)", i, lod.FromSec, T[first[i]], offset)
				}
				if want := c22Next(T[first[i]+L[i].Len-1], lod.StepSec, loc) - offset; lod.ToSec != want {
					t.Fatalf("storage range %d ends at %d, want %d", i, lod.ToSec, want)
				}
			} else {
				if offset == 0 && lod.FromSec != T[first[i]] {
					t.Fatalf("monthly storage range starts at %d, first point is %d", lod.FromSec, T[first[i]])
				}
				if !c22Aligned(t, lod.FromSec, _1M, off, loc) || !c22Aligned(t, lod.ToSec, _1M, off, loc) {
					t.Fatalf("monthly storage range [%d,%d) is not made of calendar months", lod.FromSec, lod.ToSec)
				}
				if c22MonthIndex(lod.ToSec, loc)-c22MonthIndex(lod.FromSec, loc) != L[i].Len {
					t.Fatalf("monthly storage range [%d,%d) does not span %d months", lod.FromSec, lod.ToSec, L[i].Len)
				}
			}
		}
	}
	return len(L) >= 2 || L[0].Step == _1M || off != 0, classes
}

func c22Gen() *rapid.Generator[c22Case] {
	tz := c22TZDataAvailable()
	steps := []int64{0, 1, 5, 15, 60, 300, 900, 3600, 4 * 3600, 86400, 7 * 86400, _1M}
	edges := []int64{33*_24h - 2*_1m, 52*_1h - 2*_1s, 0}
	return rapid.Custom(func(t *rapid.T) c22Case {
		var c c22Case
		if tz && rapid.IntRange(0, 2).Draw(t, "named") == 0 {
			c.Zone = rapid.SampledFrom(c22Zones).Draw(t, "zone")
		} else {
			switch rapid.IntRange(0, 3).Draw(t, "zonekind") {
			case 0:
				c.ZoneOff = 0
			case 1:
				c.ZoneOff = 3 * 3600
			case 2:
				c.ZoneOff = rapid.IntRange(-14*4, 14*4).Draw(t, "zone15") * 900
			default:
				c.ZoneOff = rapid.IntRange(-14*3600, 14*3600).Draw(t, "zonesec")
			}
		}
		c.WeekStart = rapid.IntRange(0, 6).Draw(t, "weekstart")
		c.WeekShift = rapid.SampledFrom([]int{0, 0, 0, -1, 1}).Draw(t, "weekshift")
		loc, off, _ := c22Loc(&c)
		if rapid.IntRange(0, 9).Draw(t, "smallnow") == 0 {
			c.Now = rapid.Int64Range(0, 100*86400).Draw(t, "now")
		} else {
			c.Now = rapid.Int64Range(1_200_000_000, 2_000_000_000).Draw(t, "now")
		}
		c.Mode = rapid.SampledFrom([]int{int(RangeQuery), int(RangeQuery), int(RangeQuery), int(InstantQuery), int(PointQuery), int(TagsQuery)}).Draw(t, "mode")
		c.Extend = rapid.Bool().Draw(t, "extend")
		// step
		switch rapid.IntRange(0, 9).Draw(t, "stepkind") {
		case 0, 1, 2, 3, 4, 5:
			c.Step = rapid.SampledFrom(steps).Draw(t, "step")
		case 6:
			c.Step = _1M
		case 7:
			c.Step = rapid.Int64Range(0, 120).Draw(t, "step")
		default:
			c.Step = rapid.Int64Range(0, 40*86400).Draw(t, "step")
		}
		switch rapid.IntRange(0, 5).Draw(t, "swkind") {
		case 0, 1:
			c.ScreenWidth = 0
		case 2:
			c.ScreenWidth = rapid.SampledFrom([]int64{1, 100, 1000, 1920, 4000, 7680, 8000, 100000}).Draw(t, "sw")
		default:
			c.ScreenWidth = rapid.Int64Range(1, 10000).Draw(t, "sw")
		}
		// end relative to now: at / around a level switch, recent, old, or in the future
		var endAge int64
		switch rapid.IntRange(0, 7).Draw(t, "endkind") {
		case 0:
			endAge = 0
		case 1:
			endAge = rapid.Int64Range(-3600, 7200).Draw(t, "endage")
		case 2:
			endAge = rapid.SampledFrom(edges).Draw(t, "edge") + rapid.Int64Range(-5000, 5000).Draw(t, "endage")
		case 3:
			endAge = rapid.Int64Range(0, 40*86400).Draw(t, "endage")
		case 4:
			endAge = rapid.Int64Range(0, 800*86400).Draw(t, "endage")
		case 5:
			endAge = -rapid.Int64Range(0, 40*86400).Draw(t, "endage")
		default:
			endAge = rapid.Int64Range(0, 3*86400).Draw(t, "endage")
		}
		c.End = c.Now - endAge
		var length int64
		switch rapid.IntRange(0, 9).Draw(t, "lenkind") {
		case 0:
			length = rapid.Int64Range(1, 300).Draw(t, "len")
		case 1:
			length = rapid.Int64Range(1, 3*3600).Draw(t, "len")
		case 2:
			length = rapid.Int64Range(1, 3*86400).Draw(t, "len")
		case 3: // start around a level switch
			length = c.Now - rapid.SampledFrom(edges[:2]).Draw(t, "sedge") + rapid.Int64Range(-5000, 5000).Draw(t, "len") - c.End
		case 4:
			length = rapid.Int64Range(1, 40*86400).Draw(t, "len")
		case 5:
			length = rapid.Int64Range(1, 800*86400).Draw(t, "len")
		case 6:
			length = rapid.Int64Range(1, 30*366*86400).Draw(t, "len")
		case 7: // around the point limit at the coarsest steps
			length = rapid.SampledFrom([]int64{7680 * 7 * 86400, 7680 * 31 * 86400, 7680 * 86400, 7680 * 3600, 7680 * 60, 7680}).Draw(t, "limit") + rapid.Int64Range(-3*7*86400, 3*7*86400).Draw(t, "len")
		case 8:
			length = rapid.Int64Range(-10, 0).Draw(t, "len")
		default:
			length = rapid.Int64Range(1, 86400).Draw(t, "len") * rapid.SampledFrom([]int64{1, 5, 15, 60, 300, 900, 3600}).Draw(t, "lenmul")
		}
		c.Start = c.End - length
		if rapid.IntRange(0, 3).Draw(t, "cross-switch") == 0 {
			// a fine step over a range that crosses one or both level switches: the shape that yields several levels
			c.Step = rapid.SampledFrom([]int64{0, 1, 5, 15, 60, 300}).Draw(t, "fine-step")
			if rapid.Bool().Draw(t, "fine-sw") {
				c.ScreenWidth = 0
			}
			c.End = c.Now - rapid.SampledFrom([]int64{0, 0, 60, 3600, 40 * 3600, 10 * 86400, 32 * 86400}).Draw(t, "cross-end-age") - rapid.Int64Range(0, 3600).Draw(t, "cross-end-jitter")
			c.Start = c.Now - rapid.SampledFrom(edges[:2]).Draw(t, "cross-edge") - rapid.SampledFrom([]int64{1, 60, 3600, 86400, 5 * 86400, 30 * 86400, 200 * 86400}).Draw(t, "cross-extra") - rapid.Int64Range(0, 7200).Draw(t, "cross-start-jitter")
		}
		// snap the range to a grid so that start == aligned point is reached
		snap := func(v int64, label string) int64 {
			g := rapid.SampledFrom([]int64{1, 1, 1, 5, 15, 60, 300, 900, 3600, 4 * 3600, 86400, 7 * 86400, _1M}).Draw(t, label)
			switch {
			case g == _1M:
				lt := time.Unix(v, 0).In(loc)
				return time.Date(lt.Year(), lt.Month(), 1, 0, 0, 0, 0, loc).Unix()
			case g > 1:
				return v - c22Mod(v+off, g)
			}
			return v
		}
		c.Start = snap(c.Start, "snap-start")
		c.End = snap(c.End, "snap-end")
		if c.End <= c.Start && rapid.IntRange(0, 9).Draw(t, "keep-empty") != 0 {
			c.Start, c.End = c.End-1, c.Start+1
		}
		// metrics
		nm := rapid.SampledFrom([]int{0, 1, 1, 1, 2, 3}).Draw(t, "nmetrics")
		for i := 0; i < nm; i++ {
			m := c22Metric{Resolution: rapid.SampledFrom([]int{0, 1, 1, 5, 15, 60, 2, 7, 30, 59}).Draw(t, "res")}
			switch rapid.IntRange(0, 7).Draw(t, "offkind") {
			case 0, 1, 2, 3:
			case 4:
				m.Offset = rapid.SampledFrom([]int64{86400, 7 * 86400, _1M, 28 * 86400, 364 * 86400, 3600}).Draw(t, "offset") * rapid.Int64Range(1, 12).Draw(t, "offmul")
			case 5:
				m.Offset = 7 * 86400 * rapid.Int64Range(-4, 60).Draw(t, "offweeks")
			case 6:
				m.Offset = _1M * rapid.Int64Range(-2, 24).Draw(t, "offmonths")
			default:
				m.Offset = rapid.Int64Range(-86400, 400*86400).Draw(t, "offset")
			}
			if c.Step == _1M && m.Offset%_1M != 0 && rapid.IntRange(0, 3).Draw(t, "month-offset-fix") != 0 {
				m.Offset = _1M * rapid.Int64Range(0, 24).Draw(t, "offmonths")
			}
			c.Metrics = append(c.Metrics, m)
		}
		return c
	})
}

func TestVerifC22Axis(t *testing.T) {
	ev := vpNewEv(t, "C22", "axis")
	if !c22TZDataAvailable() {
		ev.Class("tzdata-missing", 1)
	}
	rapid.Check(t, func(rt *rapid.T) {
		c := c22Gen().Draw(rt, "case")
		vpRunCase(rt, "C22", "axis", c, func() {
			nt, cls := c22Prop(rt, c)
			ev.Case(nt, c, cls...)
		})
	})
}

func init() {
	vpReplayers["C22/axis"] = func(t vpT, raw json.RawMessage) {
		var c c22Case
		if err := json.Unmarshal(raw, &c); err != nil {
			t.Fatalf("decode: %v", err)
		}
		c22Prop(t, c)
	}
}
