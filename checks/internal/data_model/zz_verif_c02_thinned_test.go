//go:build verif

package data_model

// C02/thinned — a unique set that was thinned on the agent (more than 65536 distinct values, skip degree
// >= 1) survives the transfer: the row goes through the same round trip as C02/transfer (c02Run), the
// unique event is N = 66k–150k values of a seeded stream stored in the case. On the aggregator the sketch
// must have the agent's skip degree, item count, hashes and Size() estimate (c02Compare checks them
// against the canonical sketch of the event list's hash set). Expensive, hence its own small unit.

import (
	"encoding/json"
	"testing"

	"pgregory.net/rapid"
)

func c02ThinnedGen() *rapid.Generator[c02Case] {
	return rapid.Custom(func(t *rapid.T) c02Case {
		c := c02Case{
			Percentiles: rapid.IntRange(0, 3).Draw(t, "percentiles") == 0,
			Metric:      int32(rapid.IntRange(1, 1<<20).Draw(t, "metric")),
			BucketTime:  uint32(rapid.IntRange(BelieveTimestampWindow+10, 2_000_000_000).Draw(t, "bucketTime")),
			Seed:        rapid.Uint64().Draw(t, "seed"),
			AggHost:     rapid.SampledFrom([]vpRefHost{{I: 100}, {S: "agent-host"}}).Draw(t, "aggHost"),
			SF:          rapid.SampledFrom([]float64{1, 1, 2, 2.5, 100}).Draw(t, "sf"),
			SendTop:     20,
		}
		c.Timestamp = c.BucketTime
		if rapid.IntRange(0, 3).Draw(t, "tsBack") == 0 {
			c.Timestamp -= uint32(rapid.IntRange(1, 3600).Draw(t, "tsBackV"))
		}
		if rapid.Bool().Draw(t, "tag") {
			c.Tags = append(c.Tags, c02Tag{Idx: rapid.IntRange(0, 46).Draw(t, "tagIdx"), I: int32(rapid.IntRange(-3, 1000).Draw(t, "tagV"))})
			if c.Tags[0].I == 0 {
				c.Tags[0].I = 1
			}
		}
		seed := rapid.Uint64().Draw(t, "useed")
		nr := rapid.SampledFrom([]int{1, 1, 1, 2}).Draw(t, "nRanges")
		for i := 0; i < nr; i++ {
			r := c02URange{
				Seed:  seed,
				Host:  rapid.SampledFrom(vpRefHosts).Draw(t, "host"),
				Start: uint64(rapid.SampledFrom([]int{0, 0, 1000, 40000}).Draw(t, "start")),
			}
			// first range is always above the exact-mode limit: thinned once (66k–131k) or twice (>131k)
			if i == 0 {
				r.N = uint64(rapid.SampledFrom([]int{66000, 70000, 90000, 120000, 135000, 150000}).Draw(t, "n"))
				r.N += uint64(rapid.IntRange(0, 2000).Draw(t, "nJitter"))
			} else {
				r.N = uint64(rapid.IntRange(1, 70000).Draw(t, "n2"))
			}
			if rapid.IntRange(0, 3).Draw(t, "top") == 0 {
				r.Top = rapid.SampledFrom(c02Tops).Draw(t, "topV")
			}
			if rapid.IntRange(0, 2).Draw(t, "explicitCount") == 0 {
				r.Count = float64(rapid.SampledFrom([]int{1, 1000, 200000}).Draw(t, "count"))
			}
			c.URanges = append(c.URanges, r)
		}
		// a few ordinary events around it
		pal := vpRefGenPalette(t)
		ne := rapid.IntRange(0, 3).Draw(t, "nEvents")
		for i := 0; i < ne; i++ {
			c.Events = append(c.Events, c02Ev{
				Top: rapid.SampledFrom(c02Tops[:5]).Draw(t, "evTop"),
				Ev:  vpRefGenEvent(t, pal, []int{0, 1, 2}, vpRefHosts, 12),
			})
		}
		return c
	})
}

func TestVerifC02Thinned(t *testing.T) {
	ev := vpNewEv(t, "C02", "thinned")
	rapid.Check(t, func(rt *rapid.T) {
		c := c02ThinnedGen().Draw(rt, "case")
		vpRunCase(rt, "C02", "thinned", c, func() {
			nt, cls := c02Prop(rt, c)
			ev.Case(nt, c, cls...)
		})
	})
}

func init() {
	vpReplayers["C02/thinned"] = func(t vpT, raw json.RawMessage) {
		var c c02Case
		if err := json.Unmarshal(raw, &c); err != nil {
			t.Fatalf("decode: %v", err)
		}
		c02Prop(t, c)
	}
}
