//go:build verif

package data_model

// C04 — aggregation does not depend on merge order or grouping.
//
// merge:  a multiset of contributions (MultiValue built from events with host tags, unique sets up to
//         5 000 values) is merged as a left fold, as a left fold of a permutation and along a random
//         binary tree; every result is compared with the exact-rational reference of the union (vpRef).
// sketch: ChUnique operands including large ones (66k–300k values from a seeded stream, so operands
//         are thinned to different skip degrees) merged in three orders through Merge and through the
//         wire path MarshallAppend → MergeRead; every result must be the canonical sketch of the union.

import (
	"bytes"
	"encoding/json"
	"fmt"
	"sort"
	"testing"

	"pgregory.net/rand"
	"pgregory.net/rapid"
)

// ---------- merge orders ----------

// c04Order describes one way to merge n operands: the list is permuted, then every step merges
// element Steps[k][1] of the current work list into element Steps[k][0] and removes it.
type c04Order struct {
	Perm  []int    `json:"perm"`
	Steps [][2]int `json:"steps"`
	Wire  []bool   `json:"wire,omitempty"` // sketch sub-check: step k goes through MarshallAppend → MergeRead
}

func c04LeftFold(n int) c04Order {
	o := c04Order{}
	for i := 0; i < n; i++ {
		o.Perm = append(o.Perm, i)
	}
	for i := 1; i < n; i++ {
		o.Steps = append(o.Steps, [2]int{0, 1})
	}
	return o
}

func (o *c04Order) valid(n int) bool {
	if len(o.Perm) != n || len(o.Steps) != n-1 {
		return false
	}
	seen := make([]bool, n)
	for _, p := range o.Perm {
		if p < 0 || p >= n || seen[p] {
			return false
		}
		seen[p] = true
	}
	m := n
	for _, s := range o.Steps {
		if s[0] < 0 || s[1] < 0 || s[0] >= m || s[1] >= m || s[0] == s[1] {
			return false
		}
		m--
	}
	return true
}

func (o *c04Order) identity() bool {
	for i, p := range o.Perm {
		if p != i {
			return false
		}
	}
	for _, s := range o.Steps {
		if s != [2]int{0, 1} {
			return false
		}
	}
	return true
}

func c04GenOrder(t *rapid.T, n int, fold bool, label string) c04Order {
	o := c04Order{Perm: rapid.Permutation(c04Iota(n)).Draw(t, label+"Perm")}
	m := n
	for k := 0; k < n-1; k++ {
		if fold {
			o.Steps = append(o.Steps, [2]int{0, 1})
		} else {
			i := rapid.IntRange(0, m-1).Draw(t, label+"I")
			j := rapid.IntRange(0, m-2).Draw(t, label+"J")
			if j >= i {
				j++
			}
			o.Steps = append(o.Steps, [2]int{i, j})
		}
		m--
	}
	return o
}

func c04Iota(n int) []int {
	r := make([]int, n)
	for i := range r {
		r[i] = i
	}
	return r
}

// ---------- sub-check "merge": MultiValue ----------

type c04Range struct {
	Seed  uint64 `json:"seed"`
	Start uint64 `json:"start"`
	N     uint64 `json:"n"`
}

type c04Contrib struct {
	Events []vpRefEvent `json:"events"`
	URange *c04Range    `json:"urange,omitempty"` // additional unique event with N values of the stream
	UHost  vpRefHost    `json:"uhost,omitempty"`
}

type c04Case struct {
	Contribs []c04Contrib `json:"contribs"`
	Perm     c04Order     `json:"perm_fold"`
	Tree     c04Order     `json:"tree"`
	Seed     uint64       `json:"seed"`
}

func (c *c04Contrib) events() []*vpRefEvent {
	var out []*vpRefEvent
	for i := range c.Events {
		out = append(out, &c.Events[i])
	}
	if c.URange != nil && c.URange.N > 0 {
		e := &vpRefEvent{Kind: vpRefKindUnique, Host: c.UHost}
		for i := uint64(0); i < c.URange.N; i++ {
			e.Uniq = append(e.Uniq, int64(vpRefSplitMix(c.URange.Seed, c.URange.Start+i)>>24)) // 40-bit values
		}
		out = append(out, e)
	}
	return out
}

func c04Build(evs [][]*vpRefEvent, rng *rand.Rand) []*MultiValue {
	out := make([]*MultiValue, len(evs))
	for i, l := range evs {
		mv := &MultiValue{}
		for _, e := range l {
			vpRefApplyReal(mv, rng, e, false, false)
		}
		out[i] = mv
	}
	return out
}

func c04RunOrder(o *c04Order, ops []*MultiValue, rng *rand.Rand) *MultiValue {
	work := make([]*MultiValue, len(ops))
	for i, p := range o.Perm {
		work[i] = ops[p]
	}
	for _, s := range o.Steps {
		work[s[0]].Merge(rng, work[s[1]])
		work = append(work[:s[1]], work[s[1]+1:]...)
	}
	return work[0]
}

func c04Prop(t vpT, c c04Case) (bool, []string) {
	cls := map[string]bool{}
	n := len(c.Contribs)
	if n < 2 || !c.Perm.valid(n) || !c.Tree.valid(n) {
		t.Fatalf("bad case: %d contributions, orders valid %v %v", n, c.Perm.valid(n), c.Tree.valid(n))
	}
	evs := make([][]*vpRefEvent, n)
	var all []*vpRefEvent
	ref := vpRefNew()
	dyadicCounts := true
	nUniq := 0
	for i := range c.Contribs {
		evs[i] = c.Contribs[i].events()
		for _, e := range evs[i] {
			ref.Apply(e)
			all = append(all, e)
			_, cnt := e.totals()
			if !vpRefSmallDyadic(cnt, 4, 1<<30) {
				dyadicCounts = false
			}
		}
		if c.Contribs[i].URange != nil {
			cls["medium-unique-set"] = true
		}
	}
	exact := vpRefExactEvents(all)
	if exact {
		cls["exact"] = true
	}
	if len(ref.Hashes) > 0 {
		cls["uniques"] = true
		nUniq = len(ref.Hashes)
	}
	wantSkip, wantItems := vpRefSketchOfSet(ref.Hashes)
	if wantSkip != 0 {
		t.Fatalf("bad case: %d unique hashes belong to the sketch sub-check", nUniq)
	}

	left := c04LeftFold(n)
	orders := []struct {
		name string
		o    *c04Order
	}{{"left fold", &left}, {"fold of permutation", &c.Perm}, {"tree", &c.Tree}}
	var first *MultiValue
	for k, ord := range orders {
		rng := rand.New(c.Seed + uint64(k))
		res := c04RunOrder(ord.o, c04Build(evs, rng), rng)
		const rel = 1e-9
		v := &res.Value
		if !vpRatClose(v.Count(), ref.Count, ref.Count, exact || dyadicCounts, rel) {
			t.Fatalf("%s: count %v, contributions add up to %v", ord.name, v.Count(), vpRatF(ref.Count))
		}
		if v.ValueSet != ref.ValueSet {
			t.Fatalf("%s: ValueSet %v, want %v", ord.name, v.ValueSet, ref.ValueSet)
		}
		if ref.ValueSet {
			if v.ValueMin != ref.Min || v.ValueMax != ref.Max {
				t.Fatalf("%s: min/max %v/%v, want %v/%v", ord.name, v.ValueMin, v.ValueMax, ref.Min, ref.Max)
			}
			if !vpRatClose(v.ValueSum, ref.Sum, ref.SumAbs, exact, rel) {
				t.Fatalf("%s: sum %v, want %v (exact demanded: %v)", ord.name, v.ValueSum, vpRatF(ref.Sum), exact)
			}
			if !vpRatClose(v.ValueSumSquare, ref.SumSq, ref.SumSq, exact, rel) {
				t.Fatalf("%s: sumsquare %v, want %v (exact demanded: %v)", ord.name, v.ValueSumSquare, vpRatF(ref.SumSq), exact)
			}
			if !ref.MinHosts[v.MinHostTag] {
				t.Fatalf("%s: min host %+v did not contribute the min %v (contributors %v)", ord.name, v.MinHostTag, ref.Min, c04Hosts(ref.MinHosts))
			}
			if !ref.MaxHosts[v.MaxHostTag] {
				t.Fatalf("%s: max host %+v did not contribute the max %v (contributors %v)", ord.name, v.MaxHostTag, ref.Max, c04Hosts(ref.MaxHosts))
			}
		}
		if ref.Count.Sign() > 0 && !ref.CntHosts[v.MaxCounterHostTag] {
			t.Fatalf("%s: max-count host %+v is not a contributing host (contributors %v)", ord.name, v.MaxCounterHostTag, c04Hosts(ref.CntHosts))
		}
		if got := res.HLL.Size(false); got != uint64(wantItems) || res.HLL.ItemsCount() != wantItems {
			t.Fatalf("%s: unique estimate %d (items %d), contributions hold %d distinct hashes", ord.name, got, res.HLL.ItemsCount(), wantItems)
		}
		if first == nil {
			first = res
		} else if v.Count() != first.Value.Count() && (exact || dyadicCounts) {
			t.Fatalf("%s: count %v differs from left fold %v", ord.name, v.Count(), first.Value.Count())
		}
	}

	hosts := map[TagUnion]bool{}
	for h := range ref.CntHosts {
		hosts[h] = true
	}
	if len(hosts) >= 2 {
		cls["multi-host"] = true
	}
	if len(ref.MinHosts) >= 2 || len(ref.MaxHosts) >= 2 {
		cls["min-or-max-tie-between-hosts"] = true
	}
	if !dyadicCounts {
		cls["non-dyadic-counts"] = true
	}
	nonIdentity := !c.Perm.identity() || !c.Tree.identity()
	out := make([]string, 0, len(cls))
	for k := range cls {
		out = append(out, k)
	}
	sort.Strings(out)
	return nonIdentity && (len(hosts) >= 2 || nUniq > 0), out
}

func c04Hosts(m map[TagUnion]bool) string {
	var l []string
	for h := range m {
		l = append(l, fmt.Sprintf("%+v", h))
	}
	sort.Strings(l)
	return fmt.Sprint(l)
}

func c04Gen() *rapid.Generator[c04Case] {
	return rapid.Custom(func(t *rapid.T) c04Case {
		c := c04Case{Seed: rapid.Uint64().Draw(t, "seed")}
		n := rapid.SampledFrom([]int{2, 2, 3, 3, 4, 5, 6, 8, 12}).Draw(t, "n")
		pal := vpRefGenPalette(t)
		kinds := rapid.SampledFrom([][]int{{0, 1}, {1}, {0, 1, 2}, {1, 2}, {2}, {0}}).Draw(t, "kinds")
		hosts := rapid.SampledFrom([][]vpRefHost{vpRefHosts, vpRefHosts, {{I: 1}, {I: 2}}, {{}}, {{S: "ha"}, {S: "hb"}, {I: 3}}}).Draw(t, "hosts")
		useRanges := rapid.IntRange(0, 5).Draw(t, "useRanges") == 0
		rseed := rapid.Uint64().Draw(t, "rseed")
		for i := 0; i < n; i++ {
			var cb c04Contrib
			ne := rapid.SampledFrom([]int{1, 1, 1, 2, 3}).Draw(t, "ne")
			for j := 0; j < ne; j++ {
				cb.Events = append(cb.Events, vpRefGenEvent(t, pal, kinds, hosts, 100))
			}
			if useRanges && rapid.Bool().Draw(t, "hasRange") {
				cb.URange = &c04Range{Seed: rseed, Start: uint64(rapid.IntRange(0, 6000).Draw(t, "rstart")), N: uint64(rapid.IntRange(1, 5000).Draw(t, "rn"))}
				cb.UHost = rapid.SampledFrom(hosts).Draw(t, "uhost")
			}
			c.Contribs = append(c.Contribs, cb)
		}
		c.Perm = c04GenOrder(t, n, true, "perm")
		c.Tree = c04GenOrder(t, n, false, "tree")
		return c
	})
}

func TestVerifC04Merge(t *testing.T) {
	ev := vpNewEv(t, "C04", "merge")
	rapid.Check(t, func(rt *rapid.T) {
		c := c04Gen().Draw(rt, "case")
		vpRunCase(rt, "C04", "merge", c, func() {
			nt, cls := c04Prop(rt, c)
			ev.Case(nt, c, cls...)
		})
	})
}

// ---------- sub-check "sketch": ChUnique with thinning ----------

type c04Set struct {
	Seed     uint64   `json:"seed"`
	Start    uint64   `json:"start"`
	N        uint64   `json:"n"`
	Explicit []uint64 `json:"explicit,omitempty"`
}

type c04SketchCase struct {
	Sets   []c04Set    `json:"sets"`
	Orders [3]c04Order `json:"orders"` // [0] is a left fold
}

func c04Clone(ch *ChUnique) *ChUnique {
	c := *ch
	c.buf = append([]uint32(nil), ch.buf...)
	return &c
}

func c04SketchProp(t vpT, c c04SketchCase) (bool, []string) {
	cls := map[string]bool{}
	n := len(c.Sets)
	if n < 2 {
		t.Fatalf("bad case: %d operands", n)
	}
	var total uint64
	for _, s := range c.Sets {
		total += s.N + uint64(len(s.Explicit))
	}
	if total > 2_000_000 {
		t.Fatalf("bad case: %d values", total)
	}
	ops := make([]*ChUnique, n)
	union := make([]uint32, 0, total)
	skips := map[uint32]bool{}
	for i, s := range c.Sets {
		ch := &ChUnique{}
		for j := uint64(0); j < s.N; j++ {
			v := vpRefSplitMix(s.Seed, s.Start+j)
			ch.Insert(v)
			union = append(union, vpRefIntHash32(v))
		}
		for _, v := range s.Explicit {
			ch.Insert(v)
			union = append(union, vpRefIntHash32(v))
		}
		ops[i] = ch
		// a single operand must already be canonical (insertion path)
		from := len(union) - int(s.N) - len(s.Explicit)
		own := vpRefDedup(append([]uint32(nil), union[from:]...))
		sk, it := vpRefSketch(own)
		if ch.skipDegree != sk || ch.ItemsCount() != it {
			t.Fatalf("operand %d (%d values): skip degree %d items %d, canonical sketch has %d / %d", i, len(own), ch.skipDegree, ch.ItemsCount(), sk, it)
		}
		skips[sk] = true
		switch {
		case len(own) > vpRefUniqMax:
			cls["large-operand"] = true
		case len(own) > 100:
			cls["medium-operand"] = true
		default:
			cls["small-operand"] = true
		}
		if len(own) == vpRefUniqMax {
			cls["operand-exactly-65536"] = true
		}
	}
	if len(skips) >= 2 {
		cls["operands with different skipDegree"] = true
	}
	union = vpRefDedup(union)
	wantSkip, wantItems := vpRefSketch(union)
	wantSize := vpRefSketchSize(wantSkip, wantItems)
	if wantSkip > 0 {
		cls["result-thinned"] = true
	}
	nonIdentity := false
	for k := range c.Orders {
		o := &c.Orders[k]
		if !o.valid(n) || (len(o.Wire) != 0 && len(o.Wire) != n-1) {
			t.Fatalf("bad case: order %d invalid", k)
		}
		if !o.identity() {
			nonIdentity = true
		}
		work := make([]*ChUnique, n)
		for i, p := range o.Perm {
			work[i] = c04Clone(ops[p])
		}
		for si, s := range o.Steps {
			dst, src := work[s[0]], work[s[1]]
			if len(o.Wire) != 0 && o.Wire[si] {
				cls["wire-merge"] = true
				if src.skipDegree > dst.skipDegree && dst.buf != nil {
					cls["wire-merge-raises-skipDegree"] = true
				}
				if err := dst.MergeRead(bytes.NewBuffer(src.MarshallAppend(nil))); err != nil {
					t.Fatalf("order %d step %d: MergeRead: %v", k, si, err)
				}
			} else {
				if src.skipDegree < dst.skipDegree {
					cls["merge-lower-skipDegree-into-higher"] = true
				}
				dst.Merge(*src)
			}
			work = append(work[:s[1]], work[s[1]+1:]...)
		}
		res := work[0]
		gotSkip, gotH, ok := vpRefSketchWire(res.MarshallAppend(nil))
		if !ok {
			t.Fatalf("order %d: result does not marshal", k)
		}
		if res.skipDegree != wantSkip || res.ItemsCount() != wantItems || gotSkip != wantSkip || len(gotH) != wantItems {
			t.Fatalf("order %d (%+v): skip degree %d, items %d (marshalled %d/%d), size %d; the union of %d distinct hashes has canonical skip degree %d, items %d, size %d",
				k, *o, res.skipDegree, res.ItemsCount(), gotSkip, len(gotH), res.Size(false), len(union), wantSkip, wantItems, wantSize)
		}
		if got := res.Size(false); got != wantSize {
			t.Fatalf("order %d: unique estimate %d, want %d", k, got, wantSize)
		}
		if got := res.Size(true); got != uint64(wantItems)<<wantSkip {
			t.Fatalf("order %d: raw unique estimate %d, want %d", k, got, uint64(wantItems)<<wantSkip)
		}
		// the retained hashes are exactly the union's hashes divisible by 2^skip
		j := 0
		mask := uint32(1)<<wantSkip - 1
		for _, h := range union {
			if h&mask != 0 {
				continue
			}
			if j >= len(gotH) || gotH[j] != h {
				t.Fatalf("order %d: retained hash set differs from the union's at position %d", k, j)
			}
			j++
		}
	}
	out := make([]string, 0, len(cls))
	for k := range cls {
		out = append(out, k)
	}
	sort.Strings(out)
	return nonIdentity, out
}

// c04GenSketch: mode 0 = small and medium operands only; mode 1 = at least one operand above the
// exact-mode limit (thinned); mode 2 = one operand with (almost) exactly 65536 distinct hashes plus
// small/medium/empty ones, so that a sketch filled to the limit travels over the wire.
func c04GenSketch(mode int) *rapid.Generator[c04SketchCase] {
	return rapid.Custom(func(t *rapid.T) c04SketchCase {
		var c c04SketchCase
		n := rapid.SampledFrom([]int{2, 2, 3, 3, 4, 6}).Draw(t, "n")
		if mode == 2 {
			n = rapid.IntRange(2, 4).Draw(t, "n")
		}
		seeds := []uint64{rapid.Uint64().Draw(t, "seedA"), rapid.Uint64().Draw(t, "seedB")}
		bigAt := -1
		if mode != 0 {
			bigAt = rapid.IntRange(0, n-1).Draw(t, "bigAt")
		}
		for i := 0; i < n; i++ {
			s := c04Set{Seed: rapid.SampledFrom(seeds).Draw(t, "seed")}
			class := rapid.SampledFrom([]int{0, 0, 1, 1, 2, 3}).Draw(t, "sizeClass")
			if mode != 1 && class >= 2 {
				class -= 2
			}
			if i == bigAt && class < 2 {
				class = 2
			}
			if mode == 2 {
				if i == bigAt {
					class = 3
				} else if rapid.IntRange(0, 3).Draw(t, "emptyOperand") == 0 {
					class = 4
				}
			}
			switch class {
			case 0: // small
				s.N = uint64(rapid.IntRange(0, 100).Draw(t, "n"))
				s.Start = uint64(rapid.IntRange(0, 300000).Draw(t, "start"))
				ne := rapid.IntRange(0, 5).Draw(t, "ne")
				for j := 0; j < ne; j++ {
					s.Explicit = append(s.Explicit, rapid.SampledFrom([]uint64{0, 1, 2, 1 << 32, 1<<64 - 1, 12345}).Draw(t, "explicit"))
				}
			case 1: // medium
				s.N = uint64(rapid.IntRange(101, 5000).Draw(t, "n"))
				s.Start = uint64(rapid.IntRange(0, 300000).Draw(t, "start"))
				if mode == 2 && rapid.Bool().Draw(t, "mediumBig") {
					s.N = uint64(rapid.IntRange(5000, 60000).Draw(t, "n"))
				}
			case 2: // large: thinned once, twice or three times
				s.N = uint64(rapid.SampledFrom([]int{66000, 70000, 100000, 131000, 140000, 200000, 262000, 300000}).Draw(t, "nLarge"))
				s.N += uint64(rapid.IntRange(0, 3000).Draw(t, "nJitter"))
				s.Start = uint64(rapid.SampledFrom([]int{0, 0, 1000, 50000, 150000}).Draw(t, "start"))
			case 3: // around the exact-mode limit
				if rapid.Bool().Draw(t, "nearLimit") {
					s.N = uint64(rapid.IntRange(65534, 65539).Draw(t, "nLimit"))
				} else {
					s.N = uint64(rapid.IntRange(65500, 65560).Draw(t, "nLimit"))
				}
				s.Start = uint64(rapid.SampledFrom([]int{0, 0, 100, 70000}).Draw(t, "start"))
			default: // empty operand
			}
			c.Sets = append(c.Sets, s)
		}
		c.Orders[0] = c04LeftFold(n)
		c.Orders[1] = c04GenOrder(t, n, true, "perm")
		c.Orders[2] = c04GenOrder(t, n, false, "tree")
		for k := range c.Orders {
			for i := 0; i < n-1; i++ {
				c.Orders[k].Wire = append(c.Orders[k].Wire, rapid.IntRange(0, 2).Draw(t, "wire") != 2)
			}
		}
		return c
	})
}

func TestVerifC04Sketch(t *testing.T) {
	ev := vpNewEv(t, "C04", "sketch")
	rapid.Check(t, func(rt *rapid.T) {
		c := c04GenSketch(0).Draw(rt, "case")
		vpRunCase(rt, "C04", "sketch", c, func() {
			nt, cls := c04SketchProp(rt, c)
			ev.Case(nt, c, cls...)
		})
	})
}

// Large operands are expensive (hundreds of thousands of inserts per case): own test function so
// that the props file can give it a small case count.
func TestVerifC04LargeSketch(t *testing.T) {
	ev := vpNewEv(t, "C04", "sketch-large")
	rapid.Check(t, func(rt *rapid.T) {
		c := c04GenSketch(1).Draw(rt, "case")
		vpRunCase(rt, "C04", "sketch-large", c, func() {
			nt, cls := c04SketchProp(rt, c)
			ev.Case(nt, c, cls...)
		})
	})
}

// A sketch filled to exactly the limit of 65536 hashes is the boundary of the wire readers.
func TestVerifC04LimitSketch(t *testing.T) {
	ev := vpNewEv(t, "C04", "sketch-limit")
	rapid.Check(t, func(rt *rapid.T) {
		c := c04GenSketch(2).Draw(rt, "case")
		vpRunCase(rt, "C04", "sketch-limit", c, func() {
			nt, cls := c04SketchProp(rt, c)
			ev.Case(nt, c, cls...)
		})
	})
}

func init() {
	vpReplayers["C04/merge"] = func(t vpT, raw json.RawMessage) {
		var c c04Case
		if err := json.Unmarshal(raw, &c); err != nil {
			t.Fatalf("decode: %v", err)
		}
		c04Prop(t, c)
	}
	sk := func(t vpT, raw json.RawMessage) {
		var c c04SketchCase
		if err := json.Unmarshal(raw, &c); err != nil {
			t.Fatalf("decode: %v", err)
		}
		c04SketchProp(t, c)
	}
	vpReplayers["C04/sketch"] = sk
	vpReplayers["C04/sketch-large"] = sk
	vpReplayers["C04/sketch-limit"] = sk
}
