//go:build verif

package data_model

// vpRef: reference aggregates shared by C02, C04 and C07 (DESIGN.md §3 "vpRef").
//
// Everything here is written from the documentation of the event semantics (the comment block at the
// end of agent.Agent.ApplyMetric and the StatsHouse docs), not from bucket.go: exact rationals for
// count / sum / sum of squares, plain float comparison for min / max, the set of hosts that could
// legitimately be reported, and the exact set of 32-bit ClickHouse hashes of the unique values
// together with the canonical thinned form of the "uniq" sketch.

import (
	"math"
	"math/big"
	"math/bits"
	"sort"

	"pgregory.net/rand"
	"pgregory.net/rapid"
)

// ---------- plain-data pieces of cases ----------

type vpRefHost struct {
	I int32  `json:"i,omitempty"`
	S string `json:"s,omitempty"`
}

func (h vpRefHost) TU() TagUnion {
	if h.I != 0 {
		return TagUnion{I: h.I}
	}
	return TagUnion{S: h.S}
}

const (
	vpRefKindCounter = 0
	vpRefKindValues  = 1
	vpRefKindUnique  = 2
)

// vpRefEvent is one event as agent.ApplyMetric dispatches it after mapping: a counter-only event,
// a value event (values and/or histogram, optional explicit counter) or a unique event (hashes,
// optional explicit counter). Count==0 means "not given".
type vpRefEvent struct {
	Kind   int          `json:"k"`
	Count  float64      `json:"c,omitempty"`
	Values []float64    `json:"v,omitempty"`
	Hist   [][2]float64 `json:"h,omitempty"`
	Uniq   []int64      `json:"u,omitempty"`
	Host   vpRefHost    `json:"host,omitempty"`
}

// effective kind: an event without arrays is a counter event whatever Kind says
func (e *vpRefEvent) kind() int {
	if len(e.Uniq) != 0 {
		return vpRefKindUnique
	}
	if len(e.Values)+len(e.Hist) != 0 {
		return vpRefKindValues
	}
	return vpRefKindCounter
}

// total number of samples carried by the arrays, and the count the event stands for
func (e *vpRefEvent) totals() (total, count float64) {
	switch e.kind() {
	case vpRefKindUnique:
		total = float64(len(e.Uniq))
	case vpRefKindValues:
		total = float64(len(e.Values))
		for _, kv := range e.Hist {
			total += kv[1]
		}
	}
	count = e.Count
	if count == 0 {
		count = total
	}
	return total, count
}

// vpRefApplyReal feeds the event to the code under test exactly as agent.Shard.ApplyUnique /
// ApplyValues / ApplyCounter do once they hold the *MultiValue.
func vpRefApplyReal(mv *MultiValue, rng *rand.Rand, e *vpRefEvent, hasPercentiles, legacy bool) {
	total, count := e.totals()
	if count <= 0 {
		return
	}
	switch e.kind() {
	case vpRefKindUnique:
		mv.ApplyUnique(rng, e.Uniq, count, e.Host.TU())
	case vpRefKindValues:
		if legacy {
			mv.ApplyValuesLegacy(rng, e.Hist, e.Values, count, total, e.Host.TU(), AgentPercentileCompression, hasPercentiles)
		} else {
			mv.ApplyValues(rng, e.Hist, e.Values, count, total, e.Host.TU(), AgentPercentileCompression, hasPercentiles)
		}
	default:
		mv.AddCounterHost(rng, count, e.Host.TU())
	}
}

// ---------- rationals ----------

func vpRat(f float64) *big.Rat {
	r := new(big.Rat)
	if r.SetFloat64(f) == nil {
		panic("vpRat: non-finite input")
	}
	return r
}

func vpRatF(r *big.Rat) float64 {
	f, _ := r.Float64()
	return f
}

// vpRatClose: got equals want exactly (when exact is demanded) or |got-want| <= rel*scale where
// scale is the sum of absolute values of the terms (so cancellation cannot raise a false alarm).
func vpRatClose(got float64, want, scale *big.Rat, exact bool, rel float64) bool {
	if math.IsNaN(got) || math.IsInf(got, 0) {
		return false
	}
	if exact {
		return vpRat(got).Cmp(want) == 0
	}
	d := new(big.Rat).Sub(vpRat(got), want)
	d.Abs(d)
	tol := new(big.Rat).Mul(new(big.Rat).Abs(scale), vpRat(rel))
	tol.Add(tol, vpRat(1e-300)) // products of tiny values underflow into denormals, where relative error is unbounded
	return d.Cmp(tol) <= 0
}

// ---------- reference aggregate ----------

type vpRefAgg struct {
	Count    *big.Rat
	Sum      *big.Rat
	SumSq    *big.Rat
	SumAbs   *big.Rat // sum of |value|*weight
	ValueSet bool
	Min, Max float64
	MinHosts map[TagUnion]bool // hosts that contributed a value equal to Min
	MaxHosts map[TagUnion]bool
	CntHosts map[TagUnion]bool   // hosts that contributed a positive count
	Hashes   map[uint32]struct{} // ClickHouse intHash32 of every unique value
	Kinds    int                 // bit set of event kinds seen
	NValued  int                 // number of events that carried values
	NEvents  int
}

func vpRefNew() *vpRefAgg {
	return &vpRefAgg{Count: new(big.Rat), Sum: new(big.Rat), SumSq: new(big.Rat), SumAbs: new(big.Rat),
		MinHosts: map[TagUnion]bool{}, MaxHosts: map[TagUnion]bool{}, CntHosts: map[TagUnion]bool{}, Hashes: map[uint32]struct{}{}}
}

func (a *vpRefAgg) addValue(v float64, w *big.Rat, host TagUnion) {
	rv := vpRat(v)
	t := new(big.Rat).Mul(rv, w)
	a.Sum.Add(a.Sum, t)
	a.SumAbs.Add(a.SumAbs, new(big.Rat).Abs(t))
	t2 := new(big.Rat).Mul(t, rv)
	a.SumSq.Add(a.SumSq, t2)
	if !a.ValueSet || v < a.Min {
		a.Min = v
		a.MinHosts = map[TagUnion]bool{}
	}
	if v == a.Min {
		a.MinHosts[host] = true
	}
	if !a.ValueSet || v > a.Max {
		a.Max = v
		a.MaxHosts = map[TagUnion]bool{}
	}
	if v == a.Max {
		a.MaxHosts[host] = true
	}
	a.ValueSet = true
}

// Apply adds one event. Semantics (ApplyMetric comment): arrays empty → counter event; counter 0 →
// every sample has weight 1; counter and arrays both set → the counter is the true number of events
// and the samples are a sub-sample, each sample weighs counter/total; uniques are additionally
// recorded as values float64(hash).
func (a *vpRefAgg) Apply(e *vpRefEvent) {
	total, count := e.totals()
	if count <= 0 {
		return
	}
	a.NEvents++
	host := e.Host.TU()
	a.Count.Add(a.Count, vpRat(count))
	a.CntHosts[host] = true
	k := e.kind()
	a.Kinds |= 1 << k
	if k == vpRefKindCounter {
		return
	}
	a.NValued++
	mult := new(big.Rat).Quo(vpRat(count), vpRat(total))
	if k == vpRefKindUnique {
		for _, h := range e.Uniq {
			a.addValue(float64(h), mult, host)
			a.Hashes[vpRefIntHash32(uint64(h))] = struct{}{}
		}
		return
	}
	for _, v := range e.Values {
		a.addValue(v, mult, host)
	}
	for _, kv := range e.Hist {
		a.addValue(kv[0], new(big.Rat).Mul(mult, vpRat(kv[1])), host)
	}
}

// Merge adds another reference aggregate (used when string-top entries are folded into the tail).
func (a *vpRefAgg) Merge(b *vpRefAgg) {
	a.Count.Add(a.Count, b.Count)
	a.Sum.Add(a.Sum, b.Sum)
	a.SumSq.Add(a.SumSq, b.SumSq)
	a.SumAbs.Add(a.SumAbs, b.SumAbs)
	for h := range b.CntHosts {
		a.CntHosts[h] = true
	}
	for h := range b.Hashes {
		a.Hashes[h] = struct{}{}
	}
	a.Kinds |= b.Kinds
	a.NValued += b.NValued
	a.NEvents += b.NEvents
	if !b.ValueSet {
		return
	}
	if !a.ValueSet || b.Min < a.Min {
		a.Min = b.Min
		a.MinHosts = map[TagUnion]bool{}
	}
	if b.Min == a.Min {
		for h := range b.MinHosts {
			a.MinHosts[h] = true
		}
	}
	if !a.ValueSet || b.Max > a.Max {
		a.Max = b.Max
		a.MaxHosts = map[TagUnion]bool{}
	}
	if b.Max == a.Max {
		for h := range b.MaxHosts {
			a.MaxHosts[h] = true
		}
	}
	a.ValueSet = true
}

// vpRefSmallDyadic: f is a multiple of 1/den with |f| <= lim.
func vpRefSmallDyadic(f float64, den float64, lim float64) bool {
	if math.Abs(f) > lim {
		return false
	}
	x := f * den
	return x == math.Trunc(x)
}

func vpRefPow2(f float64) bool {
	if f < 1 {
		return false
	}
	fr, _ := math.Frexp(f)
	return fr == 0.5
}

// vpRefExactEvents: "integers of moderate size" — the inputs for which count, sum and sum of
// squares are claimed exact. Integer values |v| <= 1024, integer counts <= 1024, at most 16 samples
// per event, a weight count/total that is 1 or has a power-of-two denominator, at most 32 events:
// every intermediate of any summation order is then a multiple of 2^-4 below 2^40 (2^46 after a
// sample factor <= 64 that is a multiple of 1/2), i.e. exactly representable in float64.
func vpRefExactEvents(evs []*vpRefEvent) bool {
	if len(evs) > 32 {
		return false
	}
	for _, e := range evs {
		total, count := e.totals()
		if !vpRefSmallDyadic(count, 1, 1024) || !vpRefSmallDyadic(e.Count, 1, 1024) {
			return false
		}
		if e.kind() != vpRefKindCounter && count != total && !vpRefPow2(total) {
			return false
		}
		if total > 16 {
			return false
		}
		for _, v := range e.Values {
			if !vpRefSmallDyadic(v, 1, 1024) {
				return false
			}
		}
		for _, kv := range e.Hist {
			if !vpRefSmallDyadic(kv[0], 1, 1024) || !vpRefSmallDyadic(kv[1], 1, 16) {
				return false
			}
		}
		for _, h := range e.Uniq {
			if h > 1024 || h < -1024 {
				return false
			}
		}
	}
	return true
}

// ---------- ClickHouse "uniq" sketch, reference side ----------

// intHash32 from ClickHouse src/Common/HashTable/Hash.h, written with rotations.
func vpRefIntHash32(key uint64) uint32 {
	key = ^key + (key << 18)
	key ^= bits.RotateLeft64(key, 64-31)
	key *= 21
	key ^= bits.RotateLeft64(key, 64-11)
	key += key << 6
	key ^= bits.RotateLeft64(key, 64-22)
	return uint32(key)
}

const vpRefUniqMax = 1 << 16 // UNIQUES_HASH_MAX_SIZE

// vpRefSketch: canonical state of UniquesHashSet holding the given set of hashes, independent of
// insertion or merge order: the smallest skip degree d such that at most 65536 hashes are divisible
// by 2^d, and the number of those hashes. (Counts only grow while a set is accumulated and the
// degree is raised only when the count exceeds the limit, so every order ends in this state.)
func vpRefSketch(hashes []uint32) (skip uint32, items int) {
	for d := uint32(0); ; d++ {
		n := 0
		mask := uint32(1)<<d - 1
		for _, h := range hashes {
			if h&mask == 0 {
				n++
			}
		}
		if n <= vpRefUniqMax {
			return d, n
		}
	}
}

func vpRefSketchOfSet(set map[uint32]struct{}) (skip uint32, items int) {
	hs := make([]uint32, 0, len(set))
	for h := range set {
		hs = append(hs, h)
	}
	return vpRefSketch(hs)
}

// vpRefSketchSize: UniquesHashSet::size() — exact below the limit, otherwise items*2^d plus a
// pseudo-random remainder and the correction for collisions in 32 bits.
func vpRefSketchSize(skip uint32, items int) uint64 {
	if skip == 0 {
		return uint64(items)
	}
	res := int64(items) << skip
	res += int64(vpRefIntHash32(uint64(items)) & (uint32(1)<<skip - 1))
	const p32 = float64(1 << 32)
	return uint64(math.Round(p32 * (math.Log(p32) - math.Log(p32-float64(res)))))
}

// vpRefDedup sorts and removes duplicates in place.
func vpRefDedup(hs []uint32) []uint32 {
	sort.Slice(hs, func(i, j int) bool { return hs[i] < hs[j] })
	out := hs[:0]
	for i, h := range hs {
		if i == 0 || h != hs[i-1] {
			out = append(out, h)
		}
	}
	return out
}

// vpRefSketchWire parses the ClickHouse wire form (skip degree, varint count, hashes) into the skip
// degree and the sorted hash list; ok=false on malformed input.
func vpRefSketchWire(b []byte) (skip uint32, hashes []uint32, ok bool) {
	if len(b) < 2 {
		return 0, nil, false
	}
	skip = uint32(b[0])
	n := uint64(0)
	i := 1
	for shift := uint(0); ; shift += 7 {
		if i >= len(b) || shift > 63 {
			return 0, nil, false
		}
		c := b[i]
		i++
		n |= uint64(c&0x7f) << shift
		if c < 0x80 {
			break
		}
	}
	if uint64(len(b)-i) != 4*n {
		return 0, nil, false
	}
	hashes = make([]uint32, 0, n)
	for ; i < len(b); i += 4 {
		hashes = append(hashes, uint32(b[i])|uint32(b[i+1])<<8|uint32(b[i+2])<<16|uint32(b[i+3])<<24)
	}
	sort.Slice(hashes, func(x, y int) bool { return hashes[x] < hashes[y] })
	return skip, hashes, true
}

// vpRefSplitMix: deterministic value stream for large unique sets (case stores seed and range only).
func vpRefSplitMix(seed uint64, i uint64) uint64 {
	z := seed + (i+1)*0x9E3779B97F4A7C15
	z = (z ^ (z >> 30)) * 0xBF58476D1CE4E5B9
	z = (z ^ (z >> 27)) * 0x94D049BB133111EB
	return z ^ (z >> 31)
}

// ---------- shared generators ----------

// vpRefPalette describes how numbers of one case are drawn: mode 0 = small integers (the exact
// class), 1 = dyadic fractions, 2 = decimal fractions and large magnitudes. A small palette of
// values per case makes "all values identical" (min == max) common.
type vpRefPalette struct {
	Mode   int
	Values []float64
}

func vpRefGenPalette(t *rapid.T) vpRefPalette {
	p := vpRefPalette{Mode: rapid.SampledFrom([]int{0, 0, 0, 1, 2, 2}).Draw(t, "numMode")}
	n := rapid.SampledFrom([]int{1, 1, 1, 2, 2, 3, 5, 8}).Draw(t, "paletteLen")
	for i := 0; i < n; i++ {
		p.Values = append(p.Values, vpRefGenValue(t, p.Mode))
	}
	return p
}

func vpRefGenValue(t *rapid.T, mode int) float64 {
	switch mode {
	case 0:
		if rapid.IntRange(0, 3).Draw(t, "tiny") != 0 {
			return float64(rapid.IntRange(-3, 12).Draw(t, "vint"))
		}
		return float64(rapid.IntRange(-1024, 1024).Draw(t, "vint"))
	case 1:
		return float64(rapid.IntRange(-8000, 8000).Draw(t, "v8")) / 8
	default:
		switch rapid.IntRange(0, 5).Draw(t, "vclass") {
		case 0:
			return float64(rapid.IntRange(-50, 50).Draw(t, "v10")) / 10
		case 1:
			return rapid.Float64Range(-1e6, 1e6).Draw(t, "vf")
		case 2:
			return rapid.SampledFrom([]float64{1e-30, -1e-30, 1e15, -1e15, 3e18, 1e-9, 0}).Draw(t, "vbig")
		case 3:
			return float64(rapid.Float32Range(-1e9, 1e9).Draw(t, "vf32"))
		default:
			return float64(rapid.IntRange(-100000, 100000).Draw(t, "vi"))
		}
	}
}

// explicit counter of an event that carries total samples; 0 = not given
func vpRefGenCount(t *rapid.T, mode int, total float64) float64 {
	switch rapid.IntRange(0, 5).Draw(t, "cntClass") {
	case 0, 1:
		return 0
	case 2:
		return total
	case 3:
		return float64(rapid.IntRange(1, 20).Draw(t, "cnt"))
	default:
		switch mode {
		case 0:
			return float64(rapid.IntRange(1, 1024).Draw(t, "cnt"))
		case 1:
			return float64(rapid.IntRange(1, 4000).Draw(t, "cnt4")) / 4
		default:
			return rapid.SampledFrom([]float64{0.1, 0.3, 2.5, 7.7, 1e6, 123456.789, 1e-3}).Draw(t, "cntf")
		}
	}
}

var vpRefHosts = []vpRefHost{{}, {}, {I: 1}, {I: 2}, {I: 3}, {S: "ha"}, {S: "hb"}}

// vpRefGenEvent draws one event. kinds is the list to sample the kind from; uniqMax bounds the size
// of a unique event.
func vpRefGenEvent(t *rapid.T, p vpRefPalette, kinds []int, hosts []vpRefHost, uniqMax int) vpRefEvent {
	e := vpRefEvent{Kind: rapid.SampledFrom(kinds).Draw(t, "kind"), Host: rapid.SampledFrom(hosts).Draw(t, "host")}
	pick := func() float64 {
		if rapid.IntRange(0, 9).Draw(t, "offPalette") == 0 {
			return vpRefGenValue(t, p.Mode)
		}
		return rapid.SampledFrom(p.Values).Draw(t, "pv")
	}
	switch e.Kind {
	case vpRefKindCounter:
		e.Count = vpRefGenCount(t, p.Mode, 1)
		if e.Count == 0 {
			e.Count = 1
		}
	case vpRefKindValues:
		nv := rapid.SampledFrom([]int{1, 1, 1, 2, 3, 4, 8}).Draw(t, "nv")
		nh := 0
		if rapid.IntRange(0, 4).Draw(t, "hist") == 0 {
			nh = rapid.IntRange(1, 3).Draw(t, "nh")
			if rapid.Bool().Draw(t, "histOnly") {
				nv = 0
			}
		}
		for i := 0; i < nv; i++ {
			e.Values = append(e.Values, pick())
		}
		for i := 0; i < nh; i++ {
			var cc float64
			switch p.Mode {
			case 0:
				cc = float64(rapid.IntRange(1, 5).Draw(t, "hc"))
			case 1:
				cc = float64(rapid.IntRange(1, 40).Draw(t, "hc4")) / 4
			default:
				cc = rapid.SampledFrom([]float64{0.5, 1, 2.5, 3.3, 100}).Draw(t, "hcf")
			}
			e.Hist = append(e.Hist, [2]float64{pick(), cc})
		}
		total, _ := e.totals()
		e.Count = vpRefGenCount(t, p.Mode, total)
	case vpRefKindUnique:
		n := rapid.IntRange(1, uniqMax).Draw(t, "nu")
		for i := 0; i < n; i++ {
			var h int64
			switch p.Mode {
			case 0:
				h = int64(rapid.IntRange(-1024, 1024).Draw(t, "uh"))
			case 1:
				h = int64(rapid.IntRange(-100000, 100000).Draw(t, "uh"))
			default:
				if rapid.Bool().Draw(t, "uhBig") {
					h = rapid.Int64().Draw(t, "uh64")
				} else {
					h = int64(rapid.IntRange(0, 50).Draw(t, "uh"))
				}
			}
			e.Uniq = append(e.Uniq, h)
		}
		e.Count = vpRefGenCount(t, p.Mode, float64(n))
	}
	return e
}
