//go:build verif

package data_model

// C07 — string-top rows conserve totals and keep the heaviest values.
//
// History = events with a string-top value written into ONE MultiItem through MapStringTop /
// MapStringTopBytes with a small capacity (so the probabilistic eviction "resample" runs), followed by
// FinishStringTop(N). After every step the totals over Top+Tail are compared with the event log
// (vpRef, exact rationals); after the finish the retained entries must be the heaviest ones.

import (
	"encoding/json"
	"fmt"
	"math/big"
	"sort"
	"testing"
	"time"

	"pgregory.net/rand"
	"pgregory.net/rapid"
)

type c07Op struct {
	Top   vpRefHost  `json:"top"`
	Bytes bool       `json:"bytes,omitempty"` // MapStringTopBytes instead of MapStringTop
	Ev    vpRefEvent `json:"ev"`
}

type c07Case struct {
	ReuseBuf bool    `json:"reuse_buf,omitempty"` // bytes path: one scratch buffer holds the tag and is overwritten after every call, as the real callers do
	Capacity int     `json:"capacity"`            // string top capacity while collecting (0 = default 100)
	Ops      []c07Op `json:"ops"`
	FinishN  int     `json:"finish_n"` // StringTopCountSend / StringTopCountInsert
	Seed     uint64  `json:"seed"`
}

type c07Totals struct {
	count, sum, sumsq float64
	valueSet          bool
	min, max          float64
	hashes            map[uint32]struct{}
}

// c07Observe adds up what the item holds. Plain float additions of the entries in a fixed order:
// for the exact class every partial sum is an integer far below 2^53.
func c07Observe(t vpT, item *MultiItem) c07Totals {
	tot := c07Totals{hashes: map[uint32]struct{}{}}
	type kv struct {
		k TagUnion
		v *MultiValue
	}
	entries := make([]kv, 0, len(item.Top))
	for k, v := range item.Top {
		if v == nil {
			t.Fatalf("nil entry for top key %+v", k)
		}
		if k.Empty() {
			t.Fatalf("empty top key in Top map")
		}
		if k.I != 0 && k.S != "" {
			t.Fatalf("top key %+v is not normalized", k)
		}
		if got, ok := item.Top[k]; !ok || got != v {
			t.Fatalf("top key %+v (%q) is stored in the map but cannot be looked up: the key changed after it was inserted", k, k.S)
		}
		entries = append(entries, kv{k, v})
	}
	sort.Slice(entries, func(i, j int) bool {
		if entries[i].k.I != entries[j].k.I {
			return entries[i].k.I < entries[j].k.I
		}
		return entries[i].k.S < entries[j].k.S
	})
	add := func(mv *MultiValue) {
		tot.count += mv.Value.Count()
		if mv.Value.ValueSet {
			tot.sum += mv.Value.ValueSum
			tot.sumsq += mv.Value.ValueSumSquare
			if !tot.valueSet || mv.Value.ValueMin < tot.min {
				tot.min = mv.Value.ValueMin
			}
			if !tot.valueSet || mv.Value.ValueMax > tot.max {
				tot.max = mv.Value.ValueMax
			}
			tot.valueSet = true
		}
		skip, hs, ok := vpRefSketchWire(mv.HLL.MarshallAppend(nil))
		if !ok || skip != 0 {
			t.Fatalf("unexpected sketch state (ok=%v skip=%d)", ok, skip)
		}
		for _, h := range hs {
			tot.hashes[h] = struct{}{}
		}
	}
	add(&item.Tail)
	for _, e := range entries {
		add(e.v)
	}
	return tot
}

func c07Check(t vpT, when string, item *MultiItem, ref *vpRefAgg, exact bool) {
	const rel = 1e-9
	tot := c07Observe(t, item)
	if !vpRatClose(tot.count, ref.Count, ref.Count, exact, rel) {
		t.Fatalf("%s: count over top+tail %v, events wrote %v (top entries %d, sampleFactorLog2 %d)", when, tot.count, vpRatF(ref.Count), len(item.Top), item.sampleFactorLog2)
	}
	if tot.valueSet != ref.ValueSet {
		t.Fatalf("%s: values present %v, events wrote values %v", when, tot.valueSet, ref.ValueSet)
	}
	if ref.ValueSet {
		if !vpRatClose(tot.sum, ref.Sum, ref.SumAbs, exact, rel) {
			t.Fatalf("%s: sum over top+tail %v, events wrote %v", when, tot.sum, vpRatF(ref.Sum))
		}
		if !vpRatClose(tot.sumsq, ref.SumSq, ref.SumSq, exact, rel) {
			t.Fatalf("%s: sumsquare over top+tail %v, events wrote %v", when, tot.sumsq, vpRatF(ref.SumSq))
		}
		if tot.min != ref.Min || tot.max != ref.Max {
			t.Fatalf("%s: min/max over top+tail %v/%v, events wrote %v/%v", when, tot.min, tot.max, ref.Min, ref.Max)
		}
	}
	if len(tot.hashes) != len(ref.Hashes) {
		t.Fatalf("%s: union of unique sets has %d hashes, events wrote %d", when, len(tot.hashes), len(ref.Hashes))
	}
	for h := range tot.hashes {
		if _, ok := ref.Hashes[h]; !ok {
			t.Fatalf("%s: unique hash %d was never written", when, h)
		}
	}
}

// c07HangTimeout bounds ONE call of MapStringTop / MapStringTopBytes / FinishStringTop. Such a call takes
// microseconds; the eviction loop `for len(Top) >= capacity { resample }` spins forever when entries can no
// longer be deleted, and a hang on valid input is a violation, not an inconclusive run. The bound is far
// above anything scheduling noise can cause on a loaded machine.
const c07HangTimeout = 30 * time.Second

// c07Guard runs f (code under test only, no t.* calls inside) on its own goroutine and waits for it; a
// panic is re-raised on the caller's goroutine, a hang is reported as a failure (the spinning goroutine
// is abandoned).
func c07Guard(t vpT, what string, f func()) {
	done := make(chan any, 1)
	go func() {
		defer func() { done <- recover() }()
		f()
	}()
	timer := time.NewTimer(c07HangTimeout)
	defer timer.Stop()
	select {
	case r := <-done:
		if r != nil {
			panic(fmt.Sprintf("%s panicked: %v", what, r))
		}
	case <-timer.C:
		t.Fatalf("%s did not return within %v (eviction loop spins: entries cannot be removed from Top)", what, c07HangTimeout)
	}
}

func c07Prop(t vpT, c c07Case) (bool, []string) {
	cls := map[string]bool{}
	rng := rand.New(c.Seed)
	item := &MultiItem{SF: 1}
	ref := vpRefNew()
	written := map[TagUnion]bool{} // normalized top values the history wrote
	scratch := make([]byte, 0, 64)
	var evs []*vpRefEvent
	for i := range c.Ops {
		evs = append(evs, &c.Ops[i].Ev)
	}
	exact := vpRefExactEvents(evs) && len(c.Ops) <= 32
	if exact {
		cls["exact"] = true
	}
	for i := range c.Ops {
		op := &c.Ops[i]
		_, count := op.Ev.totals()
		if count <= 0 {
			continue
		}
		top := op.Top.TU()
		var mv *MultiValue
		if !top.Empty() {
			nt := top
			nt.Normalize()
			written[nt] = true
		}
		if op.Bytes {
			cls["bytes-path"] = true
			tagS := []byte(top.S)
			if c.ReuseBuf {
				cls["bytes-path-reused-buffer"] = true
				scratch = append(scratch[:0], top.S...)
				tagS = scratch
			}
			c07Guard(t, "step "+itoa07(i)+": MapStringTopBytes", func() {
				mv = item.MapStringTopBytes(rng, c.Capacity, TagUnionBytes{S: tagS, I: top.I}, count)
			})
			if c.ReuseBuf { // the caller's buffer now holds the next packet
				for j := range scratch[:cap(scratch)] {
					scratch[:cap(scratch)][j] = '#'
				}
			}
		} else {
			c07Guard(t, "step "+itoa07(i)+": MapStringTop", func() {
				mv = item.MapStringTop(rng, c.Capacity, top, count)
			})
		}
		if mv == nil {
			t.Fatalf("step %d: MapStringTop returned nil", i)
		}
		if mv == &item.Tail && !top.Empty() {
			cls["not-admitted-goes-to-tail"] = true
		}
		vpRefApplyReal(mv, rng, &op.Ev, false, false)
		ref.Apply(&op.Ev)
		c07Check(t, "after step "+itoa07(i), item, ref, exact)
		c07Keys(t, "after step "+itoa07(i), item, written)
	}
	resampled := item.sampleFactorLog2 > 0
	if resampled {
		cls["resampled"] = true
	}
	if c.Capacity == 1 {
		cls["capacity-1"] = true
	}

	// ---- finalization
	type kc struct {
		k TagUnion
		c float64
	}
	var before []kc
	for k, v := range item.Top {
		before = append(before, kc{k, v.Value.Count()})
	}
	c07Guard(t, "FinishStringTop", func() { item.FinishStringTop(rng, c.FinishN) })
	c07Check(t, "after finish", item, ref, exact)
	c07Keys(t, "after finish", item, written)
	n := c.FinishN
	if n < 0 {
		n = 0
	}
	if len(item.Top) > n {
		t.Fatalf("FinishStringTop(%d) left %d entries", c.FinishN, len(item.Top))
	}
	minKept, maxFolded := 0.0, 0.0
	haveKept, haveFolded := false, false
	for _, e := range before {
		if _, ok := item.Top[e.k]; ok {
			if !haveKept || e.c < minKept {
				minKept = e.c
			}
			haveKept = true
		} else {
			if !haveFolded || e.c > maxFolded {
				maxFolded = e.c
			}
			haveFolded = true
		}
	}
	if haveKept && haveFolded && minKept < maxFolded {
		t.Fatalf("FinishStringTop(%d): retained an entry of count %v but folded one of count %v into the tail", c.FinishN, minKept, maxFolded)
	}
	if haveFolded {
		cls["finish-folded"] = true
	}
	if haveKept {
		cls["finish-kept"] = true
	}
	out := make([]string, 0, len(cls))
	for k := range cls {
		out = append(out, k)
	}
	sort.Strings(out)
	return resampled || haveFolded, out
}

// c07Keys: every retained top value is a value that was written (a key that changed under the map is not).
func c07Keys(t vpT, when string, item *MultiItem, written map[TagUnion]bool) {
	for k := range item.Top {
		if !written[k] {
			t.Fatalf("%s: top key %+v (%q) was never written; written: %d values", when, k, k.S, len(written))
		}
	}
}

func itoa07(i int) string { return big.NewInt(int64(i)).String() }

// ---------- generator ----------

func c07Gen() *rapid.Generator[c07Case] {
	return rapid.Custom(func(t *rapid.T) c07Case {
		c := c07Case{
			Capacity: rapid.SampledFrom([]int{1, 2, 2, 3, 3, 4, 5, 6, 8, 12, 12, 20, 24, 0}).Draw(t, "capacity"),
			Seed:     rapid.Uint64().Draw(t, "seed"),
			ReuseBuf: rapid.IntRange(0, 3).Draw(t, "reuseBuf") != 0,
		}
		bytesRate := rapid.SampledFrom([]int{1, 1, 2, 4, 0}).Draw(t, "bytesRate") // 1 = every event through MapStringTopBytes (aggregator), 0 = none
		alpha := rapid.SampledFrom([]int{2, 4, 8, 16, 30, 60}).Draw(t, "alphabet")
		pal := vpRefGenPalette(t)
		if rapid.IntRange(0, 2).Draw(t, "forceExact") == 0 {
			pal.Mode = 0
			for i := range pal.Values {
				pal.Values[i] = float64(int64(pal.Values[i]) % 1024)
			}
		}
		kinds := rapid.SampledFrom([][]int{{0}, {0, 1}, {1}, {0, 1, 2}, {0, 0, 0, 1}, {2}}).Draw(t, "kinds")
		nmax := 32
		if rapid.IntRange(0, 3).Draw(t, "long") == 0 {
			nmax = 120
		}
		n := rapid.IntRange(1, nmax).Draw(t, "nOps")
		for i := 0; i < n; i++ {
			op := c07Op{Bytes: bytesRate == 1 || (bytesRate > 1 && rapid.IntRange(1, bytesRate).Draw(t, "bytes") == 1)}
			switch rapid.IntRange(0, 9).Draw(t, "topClass") {
			case 0:
				// empty: goes to the tail
			case 1, 2:
				op.Top.I = int32(rapid.IntRange(1, alpha).Draw(t, "topI"))
			default:
				op.Top.S = "s" + itoa07(rapid.IntRange(0, alpha-1).Draw(t, "topS"))
			}
			op.Ev = vpRefGenEvent(t, pal, kinds, vpRefHosts, 6)
			// heavy-tailed counts on counter events: some values are whales that must survive
			if op.Ev.kind() == vpRefKindCounter && rapid.IntRange(0, 3).Draw(t, "whale") == 0 {
				op.Ev.Count = float64(rapid.SampledFrom([]int{50, 100, 500, 1000}).Draw(t, "whaleCount"))
			}
			c.Ops = append(c.Ops, op)
		}
		c.FinishN = rapid.SampledFrom([]int{0, 1, 1, 2, 2, 3, 5, 5, 10, 20}).Draw(t, "finishN")
		return c
	})
}

func TestVerifC07Top(t *testing.T) {
	ev := vpNewEv(t, "C07", "top")
	rapid.Check(t, func(rt *rapid.T) {
		c := c07Gen().Draw(rt, "case")
		vpRunCase(rt, "C07", "top", c, func() {
			nt, cls := c07Prop(rt, c)
			ev.Case(nt, c, cls...)
		})
	})
}

func init() {
	vpReplayers["C07/top"] = func(t vpT, raw json.RawMessage) {
		var c c07Case
		if err := json.Unmarshal(raw, &c); err != nil {
			t.Fatalf("decode: %v", err)
		}
		c07Prop(t, c)
	}
}
