//go:build verif

package data_model

// C02 — row aggregates survive the agent→aggregator transfer.
//
// A row is built from an event list through the real MapStringTop + ApplyValues/ApplyUnique/
// AddCounterHost + FinishStringTop, encoded exactly as agent sampleBucket.keepF does
// (TLMultiItemFromKey, MultiValueToTL, WriteTL1), read back as MultiItemBytes and merged into an
// empty aggregator item exactly as handleSendSourceBucket does (KeyFromStatshouseMultiItem, string
// tags copied, MergeWithTLMultiItem with the aggregator's host tag). The oracle is a reference
// aggregate computed from the event list with exact rationals (vpRef).

import (
	"encoding/json"
	"fmt"
	"math"
	"math/big"
	"sort"
	"testing"

	"pgregory.net/rand"
	"pgregory.net/rapid"

	"github.com/VKCOM/statshouse/internal/data_model/gen2/tlstatshouse"
	"github.com/VKCOM/statshouse/internal/format"
)

type c02Tag struct {
	Idx int    `json:"idx"`
	I   int32  `json:"i,omitempty"`
	S   string `json:"s,omitempty"`
}

type c02Ev struct {
	Top vpRefHost  `json:"top"` // string-top value of the event (mapped int, string, or empty)
	Ev  vpRefEvent `json:"ev"`
}

type c02Case struct {
	Percentiles bool      `json:"percentiles"`
	Legacy      bool      `json:"legacy"`
	Metric      int32     `json:"metric"`
	Tags        []c02Tag  `json:"tags"`
	BucketTime  uint32    `json:"bucket_time"`
	Timestamp   uint32    `json:"timestamp"`
	Events      []c02Ev   `json:"events"`
	SF          float64   `json:"sf"`
	AggHost     vpRefHost `json:"agg_host"`
	SendTop     int       `json:"send_top"` // StringTopCountSend
	Seed        uint64    `json:"seed"`
	// unique events too large to spell out: N values of a seeded stream (thinned sets need > 65536 distinct values)
	URanges []c02URange `json:"uranges,omitempty"`
}

type c02URange struct {
	Top   vpRefHost `json:"top"`
	Host  vpRefHost `json:"host"`
	Seed  uint64    `json:"seed"`
	Start uint64    `json:"start"`
	N     uint64    `json:"n"`
	Count float64   `json:"count,omitempty"` // explicit counter of the event, 0 = not given
}

// c02AllEvents: the spelled-out events followed by the expanded range events.
func c02AllEvents(c *c02Case) []c02Ev {
	evs := append([]c02Ev(nil), c.Events...)
	for _, r := range c.URanges {
		e := c02Ev{Top: r.Top, Ev: vpRefEvent{Kind: vpRefKindUnique, Host: r.Host, Count: r.Count}}
		for i := uint64(0); i < r.N; i++ {
			e.Ev.Uniq = append(e.Ev.Uniq, int64(vpRefSplitMix(r.Seed, r.Start+i)>>24)) // 40-bit values
		}
		evs = append(evs, e)
	}
	return evs
}

type c02Centroid struct {
	Mean, Weight float32
}

func c02SortCentroids(cc []c02Centroid) {
	sort.Slice(cc, func(i, j int) bool {
		if cc[i].Mean != cc[j].Mean {
			return cc[i].Mean < cc[j].Mean
		}
		return cc[i].Weight < cc[j].Weight
	})
}

// c02Encode is agent.Shard.sampleBucket's keepF (top elements in sorted order instead of map order).
func c02Encode(v *MultiItem, bucketTime uint32) []byte {
	var scratch []byte
	item := v.Key.TLMultiItemFromKey(bucketTime)
	scratch = v.Tail.MultiValueToTL(v.MetricMeta, &item.Tail, v.SF, &item.FieldsMask, scratch)
	keys := make([]TagUnion, 0, len(v.Top))
	for k := range v.Top {
		keys = append(keys, k)
	}
	sort.Slice(keys, func(i, j int) bool {
		if keys[i].I != keys[j].I {
			return keys[i].I < keys[j].I
		}
		return keys[i].S < keys[j].S
	})
	var top []tlstatshouse.TopElement
	for _, key := range keys {
		value := v.Top[key]
		el := tlstatshouse.TopElement{Stag: key.S}
		if key.I != 0 {
			el.SetTag(key.I)
		}
		scratch = value.MultiValueToTL(v.MetricMeta, &el.Value, v.SF, &el.FieldsMask, scratch)
		top = append(top, el)
	}
	if len(top) != 0 {
		item.SetTop(top)
	}
	return item.WriteTL1(nil)
}

func c02HostOr(h TagUnion, def TagUnion) TagUnion {
	if h.Empty() {
		return def
	}
	return h
}

type c02Info struct {
	nontrivial bool
	classes    map[string]bool
}

func (i *c02Info) cls(s string) { i.classes[s] = true }

func c02Prop(t vpT, c c02Case) (bool, []string) {
	info := &c02Info{classes: map[string]bool{}}
	c02Run(t, c, info)
	out := make([]string, 0, len(info.classes))
	for k := range info.classes {
		out = append(out, k)
	}
	sort.Strings(out)
	return info.nontrivial, out
}

func c02Run(t vpT, c c02Case, info *c02Info) {
	if !(c.SF >= 1) || c.BucketTime == 0 {
		t.Fatalf("bad case: sf %v bucket time %d", c.SF, c.BucketTime)
	}
	rng := rand.New(c.Seed)
	meta := &format.MetricMetaValue{MetricID: c.Metric, HasPercentiles: c.Percentiles}
	key := Key{Metric: c.Metric, Timestamp: c.Timestamp}
	for _, tg := range c.Tags {
		if tg.Idx < 0 || tg.Idx >= format.StringTopTagIndexV3 {
			t.Fatalf("bad case: tag index %d", tg.Idx)
		}
		if tg.I != 0 {
			key.Tags[tg.Idx] = tg.I
		} else {
			key.STags[tg.Idx] = tg.S
		}
	}
	wantKey := key
	if c.Timestamp == 0 {
		wantKey.Timestamp = c.BucketTime // "no timestamp" means the bucket's second
	}
	if c.Timestamp > c.BucketTime || int64(c.Timestamp) < int64(c.BucketTime)-BelieveTimestampWindow && c.Timestamp != 0 {
		t.Fatalf("bad case: timestamp %d outside the window the agent produces (bucket %d)", c.Timestamp, c.BucketTime)
	}

	// ---- sender: build the row from events, reference alongside
	item := &MultiItem{Key: key, SF: 1, MetricMeta: meta}
	refs := map[TagUnion]*vpRefAgg{}
	refTail := vpRefNew()
	var evPtrs []*vpRefEvent
	allEvents := c02AllEvents(&c)
	for i := range allEvents {
		ev := &allEvents[i].Ev
		_, count := ev.totals()
		if count <= 0 {
			continue
		}
		evPtrs = append(evPtrs, ev)
		top := allEvents[i].Top.TU()
		mv := item.MapStringTop(rng, DefaultStringTopCapacity, top, count)
		vpRefApplyReal(mv, rng, ev, c.Percentiles, c.Legacy)
		r := refTail
		if !top.Empty() {
			r = refs[top]
			if r == nil {
				r = vpRefNew()
				refs[top] = r
			}
		}
		r.Apply(ev)
	}
	if len(refs) >= DefaultStringTopCapacity {
		t.Fatalf("bad case: too many top values for a deterministic reference")
	}
	item.FinishStringTop(rng, c.SendTop)
	if len(item.Top) > c.SendTop && c.SendTop >= 0 {
		t.Fatalf("FinishStringTop(%d) left %d top entries", c.SendTop, len(item.Top))
	}
	for k, r := range refs {
		if _, ok := item.Top[k]; !ok { // folded into the tail by the sender (which ones is the sender's choice)
			refTail.Merge(r)
			delete(refs, k)
			info.cls("top-folded-before-send")
		}
	}
	if len(item.Top) != len(refs) {
		t.Fatalf("sender has %d top entries, events produced %d", len(item.Top), len(refs))
	}
	item.SF = c.SF

	// ---- wire
	wire := c02Encode(item, c.BucketTime)
	var mib tlstatshouse.MultiItemBytes
	rest, err := mib.ReadTL1(wire)
	if err != nil || len(rest) != 0 {
		t.Fatalf("aggregator cannot read the row: err=%v rest=%d", err, len(rest))
	}

	// ---- receiver (handleSendSourceBucket, no mapping of string tags available)
	gotKey, warn := KeyFromStatshouseMultiItem(&mib, c.BucketTime)
	for i, str := range mib.Skeys {
		if i >= format.MaxTags {
			break
		}
		gotKey.STags[i] = string(str)
	}
	if warn != 0 {
		t.Fatalf("ingestion warning %d for timestamp %d in bucket %d", warn, c.Timestamp, c.BucketTime)
	}
	if gotKey != wantKey {
		t.Fatalf("key changed in transfer:\n sent %+v\n got  %+v", wantKey, gotKey)
	}
	aggHost := c.AggHost.TU()
	recv := &MultiItem{Key: gotKey}
	rrng := rand.New(c.Seed + 1)
	ingErr := recv.MergeWithTLMultiItem(rrng, AggregatorStringTopCapacity, &mib, aggHost)

	exact := vpRefExactEvents(evPtrs) && vpRefSmallDyadic(c.SF, 2, 64)
	if exact {
		info.cls("exact")
	}
	rsf := vpRat(c.SF)
	maxF32 := vpRat(math.MaxFloat32)
	tooBig := func(r *vpRefAgg) bool {
		return new(big.Rat).Mul(r.Count, rsf).Cmp(maxF32) > 0 || new(big.Rat).Mul(new(big.Rat).Abs(r.Sum), rsf).Cmp(maxF32) > 0 ||
			math.Abs(r.Min) > math.MaxFloat32 || math.Abs(r.Max) > math.MaxFloat32
	}
	if ingErr != 0 {
		over := tooBig(refTail)
		for _, r := range refs {
			over = over || tooBig(r)
		}
		if !over {
			t.Fatalf("aggregator rejected the row with ingestion status %d although every aggregate is within limits", ingErr)
		}
		info.cls("rejected-too-big")
		return
	}

	// ---- compare
	if len(recv.Top) != len(refs) {
		t.Fatalf("top keys: sent %d, aggregator has %d", len(refs), len(recv.Top))
	}
	c02Compare(t, c, info, "tail", &item.Tail, &recv.Tail, refTail, aggHost, exact)
	for k, r := range refs {
		got, ok := recv.Top[k]
		if !ok {
			t.Fatalf("top key %+v missing at the aggregator", k)
		}
		c02Compare(t, c, info, fmt.Sprintf("top %+v", k), item.Top[k], got, r, aggHost, exact)
	}

	// ---- classes / non-trivial rule
	kinds := refTail.Kinds
	all := []*vpRefAgg{refTail}
	for _, r := range refs {
		kinds |= r.Kinds
		all = append(all, r)
	}
	nk := 0
	for b := 0; b < 3; b++ {
		if kinds&(1<<b) != 0 {
			nk++
		}
	}
	for _, r := range all {
		if r.ValueSet && r.Min == r.Max {
			info.cls("min==max")
			if r.Kinds&1 != 0 {
				info.cls("min==max+counter-events") // the shape where the compact encoding cannot re-derive the sum
				info.nontrivial = true
			}
			if new(big.Rat).Mul(vpRat(r.Min), r.Count).Cmp(r.Sum) != 0 {
				info.cls("min==max,sum!=min*count")
			}
		}
		if r.Count.Sign() > 0 && !r.ValueSet {
			info.cls("counter-only-entry")
		}
	}
	if nk >= 2 {
		info.cls("mixed-kinds")
		info.nontrivial = true
	}
	if c.SF != 1 {
		info.cls("sf!=1")
		info.nontrivial = true
	}
	if len(refs) > 0 {
		info.cls("top-entries")
		info.nontrivial = true
	}
	if c.Percentiles {
		info.cls("percentiles")
	}
	if c.Legacy {
		info.cls("legacy-apply")
	}
	if c.Timestamp != 0 && c.Timestamp != c.BucketTime {
		info.cls("explicit-timestamp")
	}
	if c.Timestamp == 0 {
		info.cls("timestamp-zero")
	}
	if len(mib.Skeys) != 0 {
		info.cls("string-tags")
	}
}

func c02Compare(t vpT, c c02Case, info *c02Info, where string, sent, got *MultiValue, ref *vpRefAgg, aggHost TagUnion, exact bool) {
	rsf := vpRat(c.SF)
	const rel = 1e-9
	// the sender itself must agree with the event list (otherwise the round trip would compare garbage)
	if !vpRatClose(sent.Value.Count(), ref.Count, ref.Count, exact, rel) {
		t.Fatalf("%s: sender count %v, events say %v", where, sent.Value.Count(), vpRatF(ref.Count))
	}
	wantCount := new(big.Rat).Mul(ref.Count, rsf)
	if !vpRatClose(got.Value.Count(), wantCount, wantCount, exact, rel) {
		t.Fatalf("%s: count: aggregator %v, want count*sf = %v (sf %v)", where, got.Value.Count(), vpRatF(wantCount), c.SF)
	}
	if ref.Count.Sign() == 0 {
		if got.Value.ValueSet || got.HLL.ItemsCount() != 0 || got.ValueTDigest != nil {
			t.Fatalf("%s: empty entry arrived non-empty: %+v", where, got.Value)
		}
		return
	}
	// hosts: the sender's attribution when it has one, else the aggregator's tag for this agent
	if w := c02HostOr(sent.Value.MaxCounterHostTag, aggHost); got.Value.MaxCounterHostTag != w {
		t.Fatalf("%s: max-count host: sender %+v, aggregator host %+v, arrived %+v", where, sent.Value.MaxCounterHostTag, aggHost, got.Value.MaxCounterHostTag)
	}
	if !ref.CntHosts[sent.Value.MaxCounterHostTag] {
		t.Fatalf("%s: sender max-count host %+v did not contribute", where, sent.Value.MaxCounterHostTag)
	}
	if sent.Value.MaxCounterHostTag.Empty() != sent.Value.MaxHostTag.Empty() || sent.Value.MinHostTag.Empty() != sent.Value.MaxHostTag.Empty() {
		info.cls("hosts-partly-empty")
	}
	if got.Value.ValueSet != ref.ValueSet {
		t.Fatalf("%s: ValueSet: aggregator %v, events %v", where, got.Value.ValueSet, ref.ValueSet)
	}
	if ref.ValueSet {
		if got.Value.ValueMin != ref.Min || got.Value.ValueMax != ref.Max {
			t.Fatalf("%s: min/max: aggregator %v/%v, events %v/%v", where, got.Value.ValueMin, got.Value.ValueMax, ref.Min, ref.Max)
		}
		wantSum := new(big.Rat).Mul(ref.Sum, rsf)
		scale := new(big.Rat).Mul(ref.SumAbs, rsf)
		if !vpRatClose(got.Value.ValueSum, wantSum, scale, exact, rel) {
			t.Fatalf("%s: sum: aggregator %v, want sum*sf = %v (sender sum %v count %v min %v max %v sf %v)", where,
				got.Value.ValueSum, vpRatF(wantSum), sent.Value.ValueSum, sent.Value.Count(), sent.Value.ValueMin, sent.Value.ValueMax, c.SF)
		}
		wantSq := new(big.Rat).Mul(ref.SumSq, rsf)
		if !vpRatClose(got.Value.ValueSumSquare, wantSq, wantSq, exact, rel) {
			t.Fatalf("%s: sumsquare: aggregator %v, want sumsquare*sf = %v (sender %v, sf %v)", where,
				got.Value.ValueSumSquare, vpRatF(wantSq), sent.Value.ValueSumSquare, c.SF)
		}
		if w := c02HostOr(sent.Value.MinHostTag, aggHost); got.Value.MinHostTag != w {
			t.Fatalf("%s: min host: sender %+v (max host %+v), aggregator host %+v, arrived %+v", where, sent.Value.MinHostTag, sent.Value.MaxHostTag, aggHost, got.Value.MinHostTag)
		}
		if w := c02HostOr(sent.Value.MaxHostTag, aggHost); got.Value.MaxHostTag != w {
			t.Fatalf("%s: max host: sender %+v, aggregator host %+v, arrived %+v", where, sent.Value.MaxHostTag, aggHost, got.Value.MaxHostTag)
		}
		if !ref.MinHosts[sent.Value.MinHostTag] || !ref.MaxHosts[sent.Value.MaxHostTag] {
			t.Fatalf("%s: sender min/max host %+v/%+v did not contribute the min/max", where, sent.Value.MinHostTag, sent.Value.MaxHostTag)
		}
	} else if !got.Value.MinHostTag.Empty() || !got.Value.MaxHostTag.Empty() {
		t.Fatalf("%s: counter-only entry arrived with min/max host %+v/%+v", where, got.Value.MinHostTag, got.Value.MaxHostTag)
	}

	// unique set: same hashes as the sender's sketch and as the event list
	if len(ref.Hashes) != 0 {
		info.cls("uniques")
	}
	sentSkip, sentH, ok1 := vpRefSketchWire(sent.HLL.MarshallAppend(nil))
	gotSkip, gotH, ok2 := vpRefSketchWire(got.HLL.MarshallAppend(nil))
	if !ok1 || !ok2 {
		t.Fatalf("%s: cannot parse marshalled sketch", where)
	}
	// canonical state of the set of hashes the events wrote: thinned (skip degree >= 1) above 65536 hashes
	wantSkip, wantItems := vpRefSketchOfSet(ref.Hashes)
	wantSize := vpRefSketchSize(wantSkip, wantItems)
	if wantSkip != 0 {
		info.cls("unique-thinned-set")
	}
	if sentSkip != wantSkip || len(sentH) != wantItems {
		t.Fatalf("%s: sender sketch: skip degree %d with %d hashes, events (%d distinct hashes) give skip degree %d with %d hashes", where,
			sentSkip, len(sentH), len(ref.Hashes), wantSkip, wantItems)
	}
	if gotSkip != wantSkip || len(gotH) != wantItems || got.HLL.ItemsCount() != wantItems ||
		got.HLL.Size(true) != uint64(wantItems)<<wantSkip || got.HLL.Size(false) != wantSize {
		t.Fatalf("%s: unique set: aggregator state has skip degree %d, %d hashes (ItemsCount %d), estimate %d (raw %d); the agent sent skip degree %d, %d hashes, estimate %d (raw %d) for %d distinct values", where,
			gotSkip, len(gotH), got.HLL.ItemsCount(), got.HLL.Size(false), got.HLL.Size(true),
			sentSkip, len(sentH), wantSize, uint64(wantItems)<<wantSkip, len(ref.Hashes))
	}
	mask := uint32(1)<<wantSkip - 1
	for i, h := range gotH {
		if _, ok := ref.Hashes[h]; !ok || sentH[i] != h || h&mask != 0 {
			t.Fatalf("%s: unique set differs at %d: aggregator %d sender %d", where, i, h, sentH[i])
		}
	}

	// centroids
	var want []c02Centroid
	if c.Percentiles && ref.ValueSet {
		if sent.ValueTDigest != nil {
			for _, ce := range sent.ValueTDigest.Centroids() {
				w := float32(ce.Weight * c.SF)
				if w == 0 {
					continue
				}
				want = append(want, c02Centroid{float32(ce.Mean), w})
			}
			info.cls("centroids")
		} else {
			info.cls("implicit-centroid")
		}
	}
	if !(c.Percentiles && ref.ValueSet) || (sent.ValueTDigest != nil && len(want) == 0) {
		if got.ValueTDigest != nil && len(got.ValueTDigest.Centroids()) != 0 {
			t.Fatalf("%s: aggregator has centroids %v for a row without percentiles", where, got.ValueTDigest.Centroids())
		}
		return
	}
	if got.ValueTDigest == nil {
		t.Fatalf("%s: percentile row arrived without digest", where)
	}
	gc := got.ValueTDigest.Centroids()
	if sent.ValueTDigest == nil {
		// all values identical: one centroid (value, count*sf), float64 as sent
		if len(gc) != 1 || gc[0].Mean != ref.Min || !vpRatClose(gc[0].Weight, wantCount, wantCount, exact, rel) {
			t.Fatalf("%s: implicit centroid: aggregator %v, want (%v, %v)", where, gc, ref.Min, vpRatF(wantCount))
		}
		return
	}
	var gotC []c02Centroid
	var gw, ww, gm, wm float64
	for _, ce := range gc {
		gotC = append(gotC, c02Centroid{float32(ce.Mean), float32(ce.Weight)})
		gw += ce.Weight
		gm += ce.Mean * ce.Weight
	}
	distinct := true
	c02SortCentroids(want)
	for i, ce := range want {
		ww += float64(ce.Weight)
		wm += float64(ce.Mean) * float64(ce.Weight)
		if i > 0 && want[i-1].Mean == ce.Mean {
			distinct = false
		}
	}
	// the aggregator digest (compression 80) may only coarsen what was sent (compression 40): total
	// weight and first moment are conserved up to float32 rounding
	if len(gotC) > len(want) || math.Abs(gw-ww) > 1e-5*ww {
		t.Fatalf("%s: centroids: sent %d with weight %v, aggregator has %d with weight %v", where, len(want), ww, len(gotC), gw)
	}
	var absm float64
	for _, ce := range want {
		absm += math.Abs(float64(ce.Mean)) * float64(ce.Weight)
	}
	if math.Abs(gm-wm) > 1e-5*absm {
		t.Fatalf("%s: centroids: first moment sent %v, aggregator %v", where, wm, gm)
	}
	if distinct && len(gotC) == len(want) {
		c02SortCentroids(gotC)
		for i := range want {
			if gotC[i] != want[i] {
				t.Fatalf("%s: centroid %d: sent %v (= sender centroid × sf %v), aggregator %v", where, i, want[i], c.SF, gotC[i])
			}
		}
	} else if len(gotC) != len(want) {
		info.cls("centroids-coarsened")
	}
}

// ---------- generator ----------

var c02Tops = []vpRefHost{{}, {}, {}, {S: "a"}, {S: "b"}, {S: "c"}, {S: "dd"}, {I: 7}, {I: 8}, {I: -5}}

func c02Gen() *rapid.Generator[c02Case] {
	return rapid.Custom(func(t *rapid.T) c02Case {
		c := c02Case{
			Percentiles: rapid.IntRange(0, 2).Draw(t, "percentiles") == 0,
			Legacy:      rapid.IntRange(0, 5).Draw(t, "legacy") == 0,
			Metric:      int32(rapid.IntRange(1, 1<<20).Draw(t, "metric")),
			BucketTime:  uint32(rapid.IntRange(BelieveTimestampWindow+10, 2_000_000_000).Draw(t, "bucketTime")),
			Seed:        rapid.Uint64().Draw(t, "seed"),
			AggHost:     rapid.SampledFrom([]vpRefHost{{I: 100}, {I: 100}, {S: "agent-host"}, {}}).Draw(t, "aggHost"),
		}
		if rapid.IntRange(0, 9).Draw(t, "negMetric") == 0 {
			c.Metric = -c.Metric
		}
		switch rapid.IntRange(0, 5).Draw(t, "tsMode") {
		case 0, 1, 2:
			c.Timestamp = c.BucketTime
		case 3:
			c.Timestamp = c.BucketTime - uint32(rapid.IntRange(1, 120).Draw(t, "tsBack"))
		case 4:
			c.Timestamp = c.BucketTime - uint32(rapid.IntRange(1, BelieveTimestampWindow).Draw(t, "tsBack"))
		default:
			c.Timestamp = 0
		}
		// key: any subset of the 47 ordinary tags, int or string
		var ntags int
		switch rapid.IntRange(0, 3).Draw(t, "tagsClass") {
		case 0:
			ntags = 0
		case 1, 2:
			ntags = rapid.IntRange(1, 5).Draw(t, "ntags")
		default:
			ntags = rapid.IntRange(6, 47).Draw(t, "ntags")
		}
		used := map[int]bool{}
		for i := 0; i < ntags; i++ {
			idx := rapid.IntRange(0, format.StringTopTagIndexV3-1).Draw(t, "tagIdx")
			if used[idx] {
				continue
			}
			used[idx] = true
			tg := c02Tag{Idx: idx}
			if rapid.IntRange(0, 2).Draw(t, "stag") == 0 {
				tg.S = rapid.StringMatching(`[a-zA-Z0-9_.\-]{1,12}`).Draw(t, "stagv")
			} else {
				tg.I = int32(rapid.IntRange(-5, 100000).Draw(t, "tagv"))
				if tg.I == 0 {
					tg.I = 1
				}
			}
			c.Tags = append(c.Tags, tg)
		}
		switch rapid.IntRange(0, 5).Draw(t, "sfClass") {
		case 0, 1:
			c.SF = 1
		case 2:
			c.SF = rapid.SampledFrom([]float64{2, 2.5, 4, 1.5, 64}).Draw(t, "sf")
		case 3:
			c.SF = 1000
		case 4:
			c.SF = float64(rapid.IntRange(2, 128).Draw(t, "sf2")) / 2
		default:
			c.SF = rapid.Float64Range(1, 500).Draw(t, "sfr")
		}
		pal := vpRefGenPalette(t)
		if pal.Mode == 0 && rapid.IntRange(0, 3).Draw(t, "sfExact") != 0 && !vpRefSmallDyadic(c.SF, 2, 64) {
			c.SF = float64(rapid.IntRange(2, 128).Draw(t, "sf2")) / 2
		}
		kinds := rapid.SampledFrom([][]int{
			{0, 1}, {0, 1}, {0, 1, 1, 1}, {1}, {0}, {2}, {0, 2}, {0, 1, 2}, {1, 2},
		}).Draw(t, "kinds")
		hosts := rapid.SampledFrom([][]vpRefHost{
			{{}}, {{}}, {{I: 1}}, {{S: "ha"}}, vpRefHosts, vpRefHosts, {{}, {I: 1}}, {{I: 1}, {S: "ha"}, {I: 2}},
		}).Draw(t, "hosts")
		tops := c02Tops[:3]
		if rapid.IntRange(0, 2).Draw(t, "useTops") == 0 {
			tops = c02Tops
		}
		n := rapid.SampledFrom([]int{1, 2, 2, 3, 3, 4, 6, 10, 20}).Draw(t, "nEvents")
		for i := 0; i < n; i++ {
			c.Events = append(c.Events, c02Ev{
				Top: rapid.SampledFrom(tops).Draw(t, "top"),
				Ev:  vpRefGenEvent(t, pal, kinds, hosts, 12),
			})
		}
		c.SendTop = rapid.SampledFrom([]int{20, 20, 20, 0, 1, 2, 3, 5}).Draw(t, "sendTop")
		return c
	})
}

func TestVerifC02Transfer(t *testing.T) {
	ev := vpNewEv(t, "C02", "transfer")
	rapid.Check(t, func(rt *rapid.T) {
		c := c02Gen().Draw(rt, "case")
		vpRunCase(rt, "C02", "transfer", c, func() {
			nt, cls := c02Prop(rt, c)
			ev.Case(nt, c, cls...)
		})
	})
}

func init() {
	vpReplayers["C02/transfer"] = func(t vpT, raw json.RawMessage) {
		var c c02Case
		if err := json.Unmarshal(raw, &c); err != nil {
			t.Fatalf("decode: %v", err)
		}
		c02Prop(t, c)
	}
}
