//go:build verif

package data_model

import (
	"bytes"
	"encoding/binary"
	"encoding/json"
	"math"
	"testing"

	"pgregory.net/rapid"

	"github.com/VKCOM/statshouse/internal/vkgo/basictl"
)

// ---------- C14 primitives: the TL1 codecs with 4-byte alignment every generated type is built from ----------
// Oracle: an encoder written here from the TL serialisation rules (little endian words; strings: one
// length byte for len<=253, else 0xfe + 3 length bytes, else 0xff + 7 length bytes, then the bytes, then zero
// padding to a multiple of 4), compared byte for byte with the package's writers; readers must return
// the values, consume exactly the encoding, and reject truncated, badly padded and non-canonical forms.

type c14POp struct {
	K    string `json:"k"` // nat int long float double str
	U    uint64 `json:"u,omitempty"`
	N    int    `json:"n,omitempty"`    // str: length when Raw is nil
	Seed uint64 `json:"seed,omitempty"` // str: pattern
	Raw  []byte `json:"raw,omitempty"`
}

type c14PCase struct {
	Ops  []c14POp `json:"ops"`
	Cuts []uint32 `json:"cuts,omitempty"`
	Pad  byte     `json:"pad"`           // non-zero byte written into a padding position
	TL2  []uint32 `json:"tl2,omitempty"` // sizes for the TL2 size codec
}

func c14PStr(op c14POp) []byte {
	if op.Raw != nil {
		return op.Raw
	}
	b := make([]byte, op.N)
	st := op.Seed
	for i := range b {
		if i%64 == 0 {
			st = st*6364136223846793005 + 1442695040888963407
		}
		b[i] = byte(st>>33) + byte(i)
	}
	return b
}

func c14PRefString(w []byte, s []byte) []byte {
	l := len(s)
	switch {
	case l <= 253:
		w = append(w, byte(l))
	case l < 1<<24:
		w = append(w, 0xfe, byte(l), byte(l>>8), byte(l>>16))
	default:
		w = append(w, 0xff, byte(l), byte(l>>8), byte(l>>16), byte(l>>24), byte(l>>32), byte(l>>40), byte(l>>48))
	}
	w = append(w, s...)
	for len(w)%4 != 0 {
		w = append(w, 0)
	}
	return w
}

// c14PReadAll reads the op sequence from r; returns how many ops were read before the first error.
func c14PReadAll(t vpT, ops []c14POp, strs [][]byte, r []byte, check bool) (done int, rest []byte, err error) {
	for i, op := range ops {
		switch op.K {
		case "nat":
			var v uint32
			if r, err = basictl.NatRead(r, &v); err != nil {
				return i, r, err
			}
			if check && v != uint32(op.U) {
				t.Fatalf("op %d: NatRead gave %d, wrote %d", i, v, uint32(op.U))
			}
		case "int":
			var v int32
			if r, err = basictl.IntRead(r, &v); err != nil {
				return i, r, err
			}
			if check && v != int32(uint32(op.U)) {
				t.Fatalf("op %d: IntRead gave %d, wrote %d", i, v, int32(uint32(op.U)))
			}
		case "long":
			var v int64
			if r, err = basictl.LongRead(r, &v); err != nil {
				return i, r, err
			}
			if check && v != int64(op.U) {
				t.Fatalf("op %d: LongRead gave %d, wrote %d", i, v, int64(op.U))
			}
		case "float":
			var v float32
			if r, err = basictl.FloatRead(r, &v); err != nil {
				return i, r, err
			}
			if check && math.Float32bits(v) != uint32(op.U) {
				t.Fatalf("op %d: FloatRead gave bits %08x, wrote %08x", i, math.Float32bits(v), uint32(op.U))
			}
		case "double":
			var v float64
			if r, err = basictl.DoubleRead(r, &v); err != nil {
				return i, r, err
			}
			if check && math.Float64bits(v) != op.U {
				t.Fatalf("op %d: DoubleRead gave bits %016x, wrote %016x", i, math.Float64bits(v), op.U)
			}
		case "str":
			if i%2 == 0 {
				var v string
				if r, err = basictl.StringRead(r, &v); err != nil {
					return i, r, err
				}
				if check && v != string(strs[i]) {
					t.Fatalf("op %d: StringRead gave %d bytes, wrote %d (or content differs)", i, len(v), len(strs[i]))
				}
			} else {
				v := make([]byte, 3, 300) // a reused destination with stale content
				copy(v, "old")
				if r, err = basictl.StringReadBytes(r, &v); err != nil {
					return i, r, err
				}
				if check && !bytes.Equal(v, strs[i]) {
					t.Fatalf("op %d: StringReadBytes gave %d bytes, wrote %d (or content differs)", i, len(v), len(strs[i]))
				}
			}
		}
	}
	return len(ops), r, nil
}

func c14PProp(t vpT, c c14PCase) (nontrivial bool, classes []string) {
	cls := map[string]bool{}
	defer func() {
		for k := range cls {
			classes = append(classes, k)
		}
	}()
	strs := make([][]byte, len(c.Ops))
	var w, ref []byte
	type span struct{ op, start, end, slen int }
	var strSpans []span
	for i, op := range c.Ops {
		start := len(w)
		switch op.K {
		case "nat":
			w = basictl.NatWrite(w, uint32(op.U))
			ref = binary.LittleEndian.AppendUint32(ref, uint32(op.U))
		case "int":
			w = basictl.IntWrite(w, int32(uint32(op.U)))
			ref = binary.LittleEndian.AppendUint32(ref, uint32(op.U))
		case "long":
			w = basictl.LongWrite(w, int64(op.U))
			ref = binary.LittleEndian.AppendUint64(ref, op.U)
		case "float":
			w = basictl.FloatWrite(w, math.Float32frombits(uint32(op.U)))
			ref = binary.LittleEndian.AppendUint32(ref, uint32(op.U))
		case "double":
			w = basictl.DoubleWrite(w, math.Float64frombits(op.U))
			ref = binary.LittleEndian.AppendUint64(ref, op.U)
		case "str":
			s := c14PStr(op)
			strs[i] = s
			if i%2 == 0 {
				w = basictl.StringWrite(w, string(s))
			} else {
				w = basictl.StringWriteBytes(w, s)
			}
			ref = c14PRefString(ref, s)
			strSpans = append(strSpans, span{i, start, len(w), len(s)})
			switch l := len(s); {
			case l == 0:
				cls["str-empty"] = true
			case l <= 253:
				cls["str-tiny"] = true
			case l < 1<<24:
				cls["str-medium"] = true
			default:
				cls["str-huge"] = true
			}
			if len(s) >= 1<<24-1 {
				cls["str-16MiB-boundary"] = true
			}
			if l := len(s); l >= 250 && l <= 258 {
				cls["str-253/254-boundary"] = true
			}
		default:
			t.Fatalf("bad op %q", op.K)
		}
		if len(w)%4 != 0 {
			t.Fatalf("op %d (%s): buffer is %d bytes, not a multiple of 4", i, op.K, len(w))
		}
		if !bytes.Equal(w[start:], ref[start:]) {
			a, b := w[start:], ref[start:]
			if len(a) > 24 {
				a = a[:24]
			}
			if len(b) > 24 {
				b = b[:24]
			}
			t.Fatalf("op %d (%s, len %d): encoding differs from the TL rules: got %d bytes %x.., want %d bytes %x..", i, op.K, len(strs[i]), len(w)-start, a, len(ref)-start, b)
		}
	}
	nontrivial = len(strSpans) > 0 && len(c.Ops) > 1
	done, rest, err := c14PReadAll(t, c.Ops, strs, append([]byte(nil), w...), true)
	if err != nil {
		t.Fatalf("read back failed at op %d: %v", done, err)
	}
	if len(rest) != 0 {
		t.Fatalf("read back left %d bytes", len(rest))
	}
	// truncation
	if len(w) > 0 {
		cuts := []int{len(w) - 1, len(w) - 4, 0}
		for _, cu := range c.Cuts {
			cuts = append(cuts, int(cu%uint32(len(w))))
		}
		for _, sp := range strSpans {
			cuts = append(cuts, sp.start+1, sp.end-1, sp.end-4)
		}
		for _, k := range cuts {
			if k < 0 || k >= len(w) {
				continue
			}
			if done, _, err := c14PReadAll(t, c.Ops, strs, w[:k:k], false); err == nil {
				t.Fatalf("all %d ops read from the encoding truncated to %d of %d bytes", done, k, len(w))
			}
		}
	}
	// non-zero padding must be rejected by the string readers
	for _, sp := range strSpans {
		hdr := 1
		if sp.slen > 253 {
			hdr = 4
		}
		if sp.slen >= 1<<24 {
			hdr = 8
		}
		padStart := sp.start + hdr + sp.slen
		if padStart >= sp.end || c.Pad == 0 {
			continue
		}
		cls["padding-corrupted"] = true
		for p := padStart; p < sp.end; p++ {
			bad := append([]byte(nil), w[:sp.end]...)
			bad[p] = c.Pad
			done, _, err := c14PReadAll(t, c.Ops[:sp.op+1], strs, bad, false)
			if err == nil || done != sp.op {
				t.Fatalf("op %d: string of %d bytes with padding byte %d set to %#x was accepted (done=%d err=%v)", sp.op, sp.slen, p-padStart, c.Pad, done, err)
			}
		}
		if sp.slen >= 1<<24 {
			break
		}
	}
	// non-canonical length forms must be rejected
	for _, sp := range strSpans {
		s := strs[sp.op]
		var forms [][]byte
		if len(s) <= 253 {
			f := []byte{0xfe, byte(len(s)), 0, 0}
			f = append(f, s...)
			for len(f)%4 != 0 {
				f = append(f, 0)
			}
			forms = append(forms, f)
		}
		if len(s) < 1<<16 {
			f := []byte{0xff, byte(len(s)), byte(len(s) >> 8), byte(len(s) >> 16), 0, 0, 0, 0}
			f = append(f, s...)
			for len(f)%4 != 0 {
				f = append(f, 0)
			}
			forms = append(forms, f)
		}
		for _, f := range forms {
			cls["non-canonical-length"] = true
			var v string
			if _, err := basictl.StringRead(f, &v); err == nil {
				t.Fatalf("StringRead accepted the non-canonical form %x.. of a %d byte string", f[:4], len(s))
			}
			var vb []byte
			if _, err := basictl.StringReadBytes(f, &vb); err == nil {
				t.Fatalf("StringReadBytes accepted the non-canonical form %x.. of a %d byte string", f[:4], len(s))
			}
		}
	}
	// TL2 size codec and strings: round trip and mutual consistency of the three size functions
	for _, l32 := range c.TL2 {
		l := int(l32)
		e := basictl.TL2WriteSize(nil, l)
		if basictl.TL2CalculateSize(l) != len(e) {
			t.Fatalf("TL2CalculateSize(%d)=%d, TL2WriteSize wrote %d", l, basictl.TL2CalculateSize(l), len(e))
		}
		var pb [9]byte
		if n := basictl.TL2PutSize(pb[:], l); n != len(e) || !bytes.Equal(pb[:n], e) {
			t.Fatalf("TL2PutSize(%d) differs from TL2WriteSize", l)
		}
		rest, got, err := basictl.TL2ParseSize(append(append([]byte(nil), e...), 0xAA))
		if err != nil || got != l || len(rest) != 1 {
			t.Fatalf("TL2ParseSize(basictl.TL2WriteSize(%d)) = %d, rest %d, err %v", l, got, len(rest), err)
		}
		for k := 0; k < len(e); k++ {
			if _, _, err := basictl.TL2ParseSize(e[:k:k]); err == nil {
				t.Fatalf("TL2ParseSize accepted %d of %d size bytes", k, len(e))
			}
		}
		switch {
		case l >= 250 && l <= 258:
			cls["tl2-size-253/254"] = true
		case l >= 65780 && l <= 65800:
			cls["tl2-size-65789/65790"] = true
		}
	}
	for _, sp := range strSpans {
		s := strs[sp.op]
		if len(s) >= 1<<24 {
			continue
		}
		e := basictl.StringWriteTL2(nil, string(s))
		if eb := basictl.StringWriteTL2Bytes(nil, s); !bytes.Equal(e, eb) {
			t.Fatalf("StringWriteTL2 and StringWriteTL2Bytes differ for %d bytes", len(s))
		}
		var v string
		rest, err := basictl.StringReadTL2(append(append([]byte(nil), e...), 1, 2), &v)
		if err != nil || v != string(s) || len(rest) != 2 {
			t.Fatalf("StringReadTL2 round trip of %d bytes: err %v, %d bytes back, rest %d", len(s), err, len(v), len(rest))
		}
		vb := make([]byte, 2, 64)
		rest, err = basictl.StringReadTL2Bytes(e, &vb)
		if err != nil || !bytes.Equal(vb, s) || len(rest) != 0 {
			t.Fatalf("StringReadTL2Bytes round trip of %d bytes: err %v, %d bytes back, rest %d", len(s), err, len(vb), len(rest))
		}
		if len(e) > 0 {
			for _, k := range []int{0, 1, len(e) / 2, len(e) - 1} {
				if k < len(e) {
					if _, err := basictl.StringReadTL2(e[:k:k], &v); err == nil {
						t.Fatalf("StringReadTL2 accepted %d of %d bytes", k, len(e))
					}
				}
			}
		}
	}
	return nontrivial, nil
}

func c14PGen() *rapid.Generator[c14PCase] {
	lens := []int{0, 1, 2, 3, 4, 5, 252, 253, 254, 255, 256, 257, 65535, 65536, 65789, 65790}
	words := []uint64{0, 1, 0x7f, 0x80, 0xfe, 0xff, 0x7fffffff, 0x80000000, 0xffffffff, 0x7fffffffffffffff, 0x8000000000000000, 0xffffffffffffffff,
		math.Float64bits(math.NaN()), math.Float64bits(math.Inf(-1)), 0x7ff0000000000001, uint64(math.Float32bits(float32(math.NaN()))), 0x7f800001}
	return rapid.Custom(func(t *rapid.T) c14PCase {
		var c c14PCase
		n := rapid.IntRange(1, 8).Draw(t, "nops")
		huge := false
		for i := 0; i < n; i++ {
			op := c14POp{K: rapid.SampledFrom([]string{"nat", "int", "long", "float", "double", "str", "str", "str"}).Draw(t, "k")}
			if op.K != "str" {
				if rapid.IntRange(0, 2).Draw(t, "special") == 0 {
					op.U = rapid.SampledFrom(words).Draw(t, "word")
				} else {
					op.U = rapid.Uint64().Draw(t, "u")
				}
				if op.K == "nat" || op.K == "int" || op.K == "float" {
					op.U &= 0xffffffff
				}
			} else {
				// rapid favours the ends of a range: the rare 16 MiB class sits in the middle
				switch sk := rapid.IntRange(0, 399).Draw(t, "sk"); {
				case sk == 217 && !huge: // around the 3-byte/7-byte length boundary: at most one per case
					op.N = rapid.SampledFrom([]int{1<<24 - 1, 1 << 24, 1<<24 + 1, 1<<24 + 6}).Draw(t, "hugelen")
					huge = true
				case sk < 140:
					op.Raw = rapid.SliceOfN(rapid.Byte(), 0, 12).Draw(t, "raw")
				case sk < 240:
					op.N = rapid.SampledFrom(lens).Draw(t, "len")
				case sk < 320:
					op.N = rapid.IntRange(240, 270).Draw(t, "len")
				default:
					op.N = rapid.IntRange(0, 2000).Draw(t, "len")
				}
				if op.Raw == nil {
					op.Seed = rapid.Uint64().Draw(t, "seed")
				}
			}
			c.Ops = append(c.Ops, op)
		}
		c.Cuts = rapid.SliceOfN(rapid.Uint32(), 0, 3).Draw(t, "cuts")
		c.Pad = byte(rapid.IntRange(1, 255).Draw(t, "pad"))
		for i, k := 0, rapid.IntRange(0, 3).Draw(t, "ntl2"); i < k; i++ {
			if rapid.Bool().Draw(t, "tl2b") {
				c.TL2 = append(c.TL2, uint32(rapid.SampledFrom([]int{0, 1, 252, 253, 254, 255, 65788, 65789, 65790, 65791, 1 << 24, 1<<31 - 1}).Draw(t, "tl2s")))
			} else {
				c.TL2 = append(c.TL2, rapid.Uint32Range(0, 1<<31-1).Draw(t, "tl2r"))
			}
		}
		return c
	})
}

func TestVerifC14Prim(t *testing.T) {
	ev := vpNewEv(t, "C14", "prim")
	rapid.Check(t, func(rt *rapid.T) {
		c := c14PGen().Draw(rt, "case")
		vpRunCase(rt, "C14", "prim", c, func() {
			nt, cls := c14PProp(rt, c)
			ev.Case(nt, c, cls...)
		})
	})
}

func init() {
	vpReplayers["C14/prim"] = func(t vpT, raw json.RawMessage) {
		var c c14PCase
		if err := json.Unmarshal(raw, &c); err != nil {
			t.Fatalf("decode: %v", err)
		}
		c14PProp(t, c)
	}
}
