//go:build verif

package data_model

// vpsamp: shared pieces of the sampling checks C05 and C06.
//
//   * the case as plain data (metrics with namespace/group/weight/fair key/fixed budget, rows with
//     size and whale weight, sampler options, budget);
//   * the interpretation of a case as the hierarchy the property statement talks about
//     (namespace -> group -> metric -> fair key, fixed-budget metrics as their own partitions).
//     Partitions are identified by their id at that level (a namespace is "all rows of that
//     namespace"), never by the way the sampler happens to cut its sorted slice;
//   * a runner that feeds the case to the real sampler and records every KeepF/DiscardF call.

import (
	"math"
	"sort"

	"github.com/hrissan/tdigest"
	"pgregory.net/rand"
	"pgregory.net/rapid"

	"github.com/VKCOM/statshouse/internal/data_model/gen2/tlstatshouse"
	"github.com/VKCOM/statshouse/internal/format"
)

const (
	vpsampMetaStorage = 0 // meta served by SamplerConfig.Meta
	vpsampMetaInline  = 1 // meta attached to the row (MultiItem.MetricMeta), as the agent does
	vpsampMetaMissing = 2 // no meta anywhere: the sampler must fall back to the "missing" group/namespace, weight 1
)

type vpsampMetric struct {
	ID       int32  `json:"id"`
	NS       int32  `json:"ns"`
	Group    int32  `json:"group"`
	Weight   int64  `json:"w"`
	NoSample bool   `json:"nosample,omitempty"`
	FairKey  []int  `json:"fk,omitempty"`     // MetricMetaValue.FairKeyIndex
	Budget   uint32 `json:"budget,omitempty"` // fixed per-metric budget handed to every row of the metric (0 = none)
	Meta     int    `json:"meta,omitempty"`   // vpsampMeta*
}

type vpsampWeight struct {
	ID int32 `json:"id"`
	W  int64 `json:"w"`
}

type vpsampRow struct {
	M     int      `json:"m"` // index into Metrics
	Size  int      `json:"size"`
	Whale float64  `json:"whale"`
	Tags  [3]int32 `json:"tags"`          // Key.Tags[1..3]
	Pct   bool     `json:"pct,omitempty"` // row carries a percentile digest (not a "single value counter")
	// contents of the row's tail (small integers, so that true count/sum/sumsquare are exact)
	Shape int        `json:"shape,omitempty"` // vpsampShape*
	Ev    [4]float64 `json:"ev,omitempty"`    // shape parameters: v1, c1, v2 or extra count, c2
}

const (
	vpsampShapeCounter   = 0 // counter-only events: count max(1, Ev[1])
	vpsampShapeSingle    = 1 // value Ev[0] x Ev[1]: sum is min*count
	vpsampShapeIdentical = 2 // value Ev[0] x Ev[1] plus counter-only weight Ev[2]: min == max but sum != min*count
	vpsampShapeTwo       = 3 // values Ev[0] x Ev[1] and Ev[2] x Ev[3]
)

type vpsampTruth struct {
	Count, Sum, SumSq float64
	ValueSet          bool
}

func (r *vpsampRow) truth() vpsampTruth {
	c1 := math.Max(1, r.Ev[1])
	switch r.Shape {
	case vpsampShapeSingle:
		return vpsampTruth{c1, r.Ev[0] * c1, r.Ev[0] * r.Ev[0] * c1, true}
	case vpsampShapeIdentical:
		return vpsampTruth{c1 + math.Max(1, r.Ev[2]), r.Ev[0] * c1, r.Ev[0] * r.Ev[0] * c1, true}
	case vpsampShapeTwo:
		c2 := math.Max(1, r.Ev[3])
		return vpsampTruth{c1 + c2, r.Ev[0]*c1 + r.Ev[2]*c2, r.Ev[0]*r.Ev[0]*c1 + r.Ev[2]*r.Ev[2]*c2, true}
	}
	return vpsampTruth{Count: c1}
}

func (r *vpsampRow) fill(v *ItemValue) {
	c1 := math.Max(1, r.Ev[1])
	switch r.Shape {
	case vpsampShapeSingle:
		v.AddValueCounter(r.Ev[0], c1)
	case vpsampShapeIdentical:
		v.AddValueCounter(r.Ev[0], c1)
		v.AddCounter(math.Max(1, r.Ev[2]))
	case vpsampShapeTwo:
		v.AddValueCounter(r.Ev[0], c1)
		v.AddValueCounter(r.Ev[2], math.Max(1, r.Ev[3]))
	default:
		v.AddCounter(c1)
	}
}

// received: what the aggregator accumulates for a kept row: the agent's keepF conversion
// (TLMultiItemFromKey, MultiValueToTL with the row's sample factor, WriteTL1), the wire, ReadTL1 and
// MergeWithTL2 into an empty row.
func (h *vpsampHarness) received(t vpT, i int, sf float64) vpsampTruth {
	it := h.items[i]
	was := it.SF
	it.SF = sf
	tl := it.Key.TLMultiItemFromKey(1)
	_ = it.Tail.MultiValueToTL(h.metas[h.c.Rows[i].M], &tl.Tail, it.SF, &tl.FieldsMask, nil)
	it.SF = was
	wire := tl.WriteTL1(nil)
	var mib tlstatshouse.MultiItemBytes
	if rest, err := mib.ReadTL1(wire); err != nil || len(rest) != 0 {
		t.Fatalf("row %d: aggregator cannot read the row sent with factor %v: err=%v rest=%d", i, sf, err, len(rest))
	}
	var recv MultiValue
	if e := recv.MergeWithTL2(rand.New(1), &mib.Tail, mib.FieldsMask, TagUnion{I: 7}, AggregatorPercentileCompression); e != 0 {
		t.Fatalf("row %d: ingestion error %d for the row sent with factor %v", i, e, sf)
	}
	return vpsampTruth{recv.Value.Count(), recv.Value.ValueSum, recv.Value.ValueSumSquare, recv.Value.ValueSet}
}

type vpsampOpt struct {
	ModeAgent       bool `json:"agent,omitempty"`
	KeepSingle      bool `json:"keep_single,omitempty"`
	DisableNoSample bool `json:"disable_nosample,omitempty"`
	Budgets         bool `json:"budgets,omitempty"`
	Namespaces      bool `json:"namespaces,omitempty"`
	Groups          bool `json:"groups,omitempty"`
	Keys            bool `json:"keys,omitempty"`
	MetaNil         bool `json:"meta_nil,omitempty"`
}

type vpsampCase struct {
	Metrics    []vpsampMetric `json:"metrics"`
	Groups     []vpsampWeight `json:"groups,omitempty"`
	Namespaces []vpsampWeight `json:"namespaces,omitempty"`
	Rows       []vpsampRow    `json:"rows"`
	Budget     int64          `json:"budget"`
	Opt        vpsampOpt      `json:"opt"`
}

// ---------- interpretation of the input (documented lookup rules) ----------

type vpsampEff struct { // what the sampler is documented to see for a metric
	NS, Group int32
	Weight    int64
	NoSample  bool
	FairKey   []int
}

func (c *vpsampCase) eff(mi int) vpsampEff {
	m := c.Metrics[mi]
	if m.Meta == vpsampMetaMissing || (m.Meta == vpsampMetaStorage && c.Opt.MetaNil) {
		return vpsampEff{NS: format.BuiltinNamespaceIDMissing, Group: format.BuiltinGroupIDMissing, Weight: 1}
	}
	e := vpsampEff{NS: m.NS, Group: m.Group, Weight: m.Weight, NoSample: m.NoSample}
	if c.Opt.Keys {
		e.FairKey = m.FairKey
		if len(e.FairKey) > 3 { // at most three fair key tags are used
			e.FairKey = e.FairKey[:3]
		}
	}
	return e
}

func vpsampLookup(ws []vpsampWeight, id int32) int64 {
	for _, w := range ws {
		if w.ID == id && w.W >= 1 {
			return w.W
		}
	}
	return 1
}

func (c *vpsampCase) groupWeight(id int32) int64 {
	if c.Opt.MetaNil {
		return 1
	}
	return vpsampLookup(c.Groups, id)
}

func (c *vpsampCase) nsWeight(id int32) int64 {
	if c.Opt.MetaNil {
		return 1
	}
	return vpsampLookup(c.Namespaces, id)
}

func (c *vpsampCase) fairKeyValue(r *vpsampRow, idx int) int32 {
	if idx >= 1 && idx <= 3 {
		return r.Tags[idx-1]
	}
	return 0 // other tags are never set by the generator; out of range indices read as 0
}

// noSampleActive: "rows whose metric is marked not-to-sample on the agent are always kept"
func (c *vpsampCase) noSampleActive(mi int) bool {
	return c.Opt.ModeAgent && !c.Opt.DisableNoSample && c.eff(mi).NoSample
}

func (c *vpsampCase) fixedBudget(mi int) int64 {
	if c.Opt.Budgets {
		return int64(c.Metrics[mi].Budget)
	}
	return 0
}

// ---------- hierarchy ----------

type vpsampPart struct {
	Level    string // root, ns, group, metric, key
	ID       int64
	Metric   int // metric index for metric/key partitions, else -1
	Weight   int64
	Size     int64
	Rows     []int // indices of rows with Size >= 1, ascending
	Fixed    bool  // metric with its own fixed budget
	FixedB   int64
	NoSample bool // metric partition of an active no-sample metric
	Kids     []*vpsampPart
	Parent   *vpsampPart
}

func (p *vpsampPart) leaf() bool { return len(p.Kids) == 0 }

func (p *vpsampPart) path() string {
	if p.Parent == nil {
		return "root"
	}
	return p.Parent.path() + "/" + p.Level + ":" + vpsampItoa(p.ID)
}

func vpsampItoa(v int64) string {
	if v == 0 {
		return "0"
	}
	neg := v < 0
	if neg {
		v = -v
	}
	var b [24]byte
	i := len(b)
	for v > 0 {
		i--
		b[i] = byte('0' + v%10)
		v /= 10
	}
	if neg {
		i--
		b[i] = '-'
	}
	return string(b[i:])
}

func (c *vpsampCase) tree() *vpsampPart {
	root := &vpsampPart{Level: "root", Metric: -1, Weight: 1}
	for i := range c.Rows {
		if c.Rows[i].Size >= 1 {
			root.Rows = append(root.Rows, i)
			root.Size += int64(c.Rows[i].Size)
		}
	}
	var levels []string
	if c.Opt.Namespaces {
		levels = append(levels, "ns")
	}
	if c.Opt.Groups {
		levels = append(levels, "group")
	}
	levels = append(levels, "metric")
	// fixed-budget metrics are partitions of their own, directly below the root
	var rest []int
	fixed := map[int]*vpsampPart{}
	var fixedOrder []int
	for _, ri := range root.Rows {
		mi := c.Rows[ri].M
		if c.fixedBudget(mi) > 0 {
			p := fixed[mi]
			if p == nil {
				p = &vpsampPart{Level: "metric", ID: int64(c.Metrics[mi].ID), Metric: mi, Weight: 1, Fixed: true, FixedB: c.fixedBudget(mi),
					NoSample: c.noSampleActive(mi), Parent: root}
				fixed[mi] = p
				fixedOrder = append(fixedOrder, mi)
			}
			p.Rows = append(p.Rows, ri)
			p.Size += int64(c.Rows[ri].Size)
		} else {
			rest = append(rest, ri)
		}
	}
	sort.Ints(fixedOrder)
	for _, mi := range fixedOrder {
		root.Kids = append(root.Kids, fixed[mi])
		c.splitKeys(fixed[mi], 0)
	}
	c.split(root, rest, levels)
	return root
}

func (c *vpsampCase) split(parent *vpsampPart, rows []int, levels []string) {
	if len(rows) == 0 {
		return
	}
	level := levels[0]
	byID := map[int64]*vpsampPart{}
	var ids []int64
	for _, ri := range rows {
		mi := c.Rows[ri].M
		e := c.eff(mi)
		var id int64
		switch level {
		case "ns":
			id = int64(e.NS)
		case "group":
			id = int64(e.Group)
		default:
			id = int64(c.Metrics[mi].ID)
		}
		p := byID[id]
		if p == nil {
			p = &vpsampPart{Level: level, ID: id, Metric: -1, Parent: parent}
			switch level {
			case "ns":
				p.Weight = c.nsWeight(e.NS)
			case "group":
				p.Weight = c.groupWeight(e.Group)
			default:
				p.Weight = e.Weight
				p.Metric = mi
				p.NoSample = c.noSampleActive(mi)
			}
			byID[id] = p
			ids = append(ids, id)
		}
		p.Rows = append(p.Rows, ri)
		p.Size += int64(c.Rows[ri].Size)
	}
	sort.Slice(ids, func(i, j int) bool { return ids[i] < ids[j] })
	for _, id := range ids {
		p := byID[id]
		parent.Kids = append(parent.Kids, p)
		if level == "metric" {
			c.splitKeys(p, 0)
		} else {
			c.split(p, p.Rows, levels[1:])
		}
	}
}

func (c *vpsampCase) splitKeys(parent *vpsampPart, depth int) {
	fk := c.eff(parent.Metric).FairKey
	if depth >= len(fk) {
		return
	}
	byID := map[int64]*vpsampPart{}
	var ids []int64
	for _, ri := range parent.Rows {
		id := int64(c.fairKeyValue(&c.Rows[ri], fk[depth]))
		p := byID[id]
		if p == nil {
			p = &vpsampPart{Level: "key", ID: id, Metric: parent.Metric, Weight: 1, Parent: parent}
			byID[id] = p
			ids = append(ids, id)
		}
		p.Rows = append(p.Rows, ri)
		p.Size += int64(c.Rows[ri].Size)
	}
	sort.Slice(ids, func(i, j int) bool { return ids[i] < ids[j] })
	for _, id := range ids {
		parent.Kids = append(parent.Kids, byID[id])
		c.splitKeys(byID[id], depth+1)
	}
}

// wideLevel: some partition has >= 3 children of one level whose ids are more than 2^31 apart (a
// three-way comparator written as an int32 subtraction is cyclic on them).
func (p *vpsampPart) wideLevel() bool {
	found := false
	p.walk(func(q *vpsampPart) {
		type span struct {
			lo, hi int64
			n      int
		}
		by := map[string]*span{}
		for _, k := range q.Kids {
			sp := by[k.Level]
			if sp == nil {
				sp = &span{lo: k.ID, hi: k.ID}
				by[k.Level] = sp
			}
			sp.lo, sp.hi, sp.n = min(sp.lo, k.ID), max(sp.hi, k.ID), sp.n+1
		}
		for _, sp := range by {
			if sp.n >= 3 && sp.hi-sp.lo >= 1<<31 {
				found = true
			}
		}
	})
	return found
}

func (p *vpsampPart) walk(f func(*vpsampPart)) {
	f(p)
	for _, k := range p.Kids {
		k.walk(f)
	}
}

// ---------- running the real sampler ----------

type vpsampMeta struct {
	metrics    map[int32]*format.MetricMetaValue
	groups     map[int32]*format.MetricsGroup
	namespaces map[int32]*format.NamespaceMeta
}

func (m *vpsampMeta) GetMetaMetric(id int32) *format.MetricMetaValue {
	if v, ok := m.metrics[id]; ok {
		return v
	}
	return nil
}
func (m *vpsampMeta) GetMetaMetricByName(string) *format.MetricMetaValue { return nil }
func (m *vpsampMeta) GetGroup(id int32) *format.MetricsGroup {
	if v, ok := m.groups[id]; ok {
		return v
	}
	return nil
}
func (m *vpsampMeta) GetNamespace(id int32) *format.NamespaceMeta {
	if v, ok := m.namespaces[id]; ok {
		return v
	}
	return nil
}
func (m *vpsampMeta) GetNamespaceByName(string) *format.NamespaceMeta { return nil }
func (m *vpsampMeta) GetGroupByName(string) *format.MetricsGroup      { return nil }

type vpsampObs struct {
	Keep    int     // number of KeepF calls for the row
	Discard int     // number of DiscardF calls for the row
	SF      float64 // MultiItem.SF at the time of the call
	Quota   uint32  // third argument of KeepF
}

type vpsampHarness struct {
	c      *vpsampCase
	meta   *vpsampMeta
	items  []*MultiItem
	metas  []*format.MetricMetaValue
	index  map[*MultiItem]int
	Obs    []vpsampObs
	SFs    []tlstatshouse.SampleFactor // reported through SampleFactorF (metric, average factor)
	Groups []samplerGroup
}

func vpsampNewHarness(c *vpsampCase) *vpsampHarness {
	h := &vpsampHarness{c: c, index: map[*MultiItem]int{}}
	h.meta = &vpsampMeta{metrics: map[int32]*format.MetricMetaValue{}, groups: map[int32]*format.MetricsGroup{}, namespaces: map[int32]*format.NamespaceMeta{}}
	metas := make([]*format.MetricMetaValue, len(c.Metrics))
	for i, m := range c.Metrics {
		mv := &format.MetricMetaValue{MetricID: m.ID, NamespaceID: m.NS, GroupID: m.Group, EffectiveWeight: m.Weight, NoSampleAgent: m.NoSample,
			FairKeyIndex: append([]int(nil), m.FairKey...)}
		metas[i] = mv
		h.metas = append(h.metas, mv)
		if m.Meta == vpsampMetaStorage {
			h.meta.metrics[m.ID] = mv
		}
	}
	for _, g := range c.Groups {
		h.meta.groups[g.ID] = &format.MetricsGroup{ID: g.ID, EffectiveWeight: g.W}
	}
	for _, n := range c.Namespaces {
		h.meta.namespaces[n.ID] = &format.NamespaceMeta{ID: n.ID, EffectiveWeight: n.W}
	}
	for i := range c.Rows {
		r := &c.Rows[i]
		m := c.Metrics[r.M]
		it := &MultiItem{}
		it.Key.Metric = m.ID
		it.Key.Tags[1], it.Key.Tags[2], it.Key.Tags[3] = r.Tags[0], r.Tags[1], r.Tags[2]
		r.fill(&it.Tail.Value)
		if r.Pct {
			it.Tail.ValueTDigest = tdigest.New()
		}
		if m.Meta == vpsampMetaInline {
			it.MetricMeta = metas[r.M]
		}
		h.items = append(h.items, it)
		h.index[it] = i
	}
	h.Obs = make([]vpsampObs, len(c.Rows))
	return h
}

type vpsampRunCfg struct {
	Rand    *rand.Rand
	RoundF  func(float64, *rand.Rand) float64
	SelectF func([]SamplingMultiItemPair, float64, *rand.Rand) int
	SampleF SampleF
}

// run feeds all rows to a fresh real sampler, always in the same order.
func (h *vpsampHarness) run(rc vpsampRunCfg) {
	c := h.c
	for i := range h.Obs {
		h.Obs[i] = vpsampObs{}
		h.items[i].SF = 0
	}
	h.SFs = h.SFs[:0]
	cfg := SamplerConfig{
		ModeAgent:            c.Opt.ModeAgent,
		SampleKeepSingle:     c.Opt.KeepSingle,
		DisableNoSampleAgent: c.Opt.DisableNoSample,
		SampleBudgets:        c.Opt.Budgets,
		SampleNamespaces:     c.Opt.Namespaces,
		SampleGroups:         c.Opt.Groups,
		SampleKeys:           c.Opt.Keys,
		Rand:                 rc.Rand,
		RoundF:               rc.RoundF,
		SelectF:              rc.SelectF,
		SampleF:              rc.SampleF,
		SampleFactorF: func(metricID int32, sf float64) {
			h.SFs = append(h.SFs, tlstatshouse.SampleFactor{Metric: metricID, Value: float32(sf)})
		},
		KeepF: func(it *MultiItem, _ uint32, quota uint32) {
			o := &h.Obs[h.index[it]]
			o.Keep++
			o.SF = it.SF
			o.Quota = quota
		},
		DiscardF: func(it *MultiItem, _ uint32) {
			o := &h.Obs[h.index[it]]
			o.Discard++
			o.SF = it.SF
		},
	}
	if !c.Opt.MetaNil {
		cfg.Meta = h.meta
	}
	s := NewSampler(cfg)
	for i := range c.Rows {
		r := &c.Rows[i]
		s.Add(SamplingMultiItemPair{
			Item:        h.items[i],
			WhaleWeight: r.Whale,
			Size:        r.Size,
			MetricID:    c.Metrics[r.M].ID,
			BucketTs:    1,
			Budget:      c.Metrics[r.M].Budget,
		})
	}
	s.Run(c.Budget)
	h.Groups = s.MetricGroups
}

// ---------- generator ----------

type vpsampGenCfg struct {
	MaxRows   int
	EqualSize bool // rows of one metric always have the same size (precondition of "kept bytes <= budget")
	ZeroSize  bool // allow a few rows with Size < 1
	ZeroMode  bool // some cases: budget 0..4 over a small nested bucket (see vpsampGenZero)
}

var (
	vpsampWeightsM     = []int64{1, 32, 128, 128, 128, 256, 1280, 12800}
	vpsampWeightsG     = []int64{1, 64, 128, 128, 256, 1280, 1280000}
	vpsampWeightsSmall = []int64{1, 1, 1, 2, 3, 5}
	vpsampFairKeys     = []int{1, 2, 3, 1, 2, -1, 50}
	vpsampWhales       = []float64{0, 0, 1, 1, 1, 2, 3, 10, 1000}
	vpsampFixedFrac    = []float64{0.1, 0.5, 0.9, 1.0, 1.5, 3}
)

// ids and tag values are arbitrary int32 (raw tags, hashes, builtin metrics near MinInt32): in "wide"
// cases they are drawn from the extremes as well as from the small values
var vpsampExtremes = []int32{math.MinInt32, math.MinInt32 + 1, -2000000000, 2000000000, math.MaxInt32 - 1, math.MaxInt32}

func vpsampIDs(t *rapid.T, label string, wide bool, small []int32, n int) []int32 {
	if !wide {
		return small[:n]
	}
	pool := append(append([]int32{}, vpsampExtremes...), small...)
	return rapid.SliceOfNDistinct(rapid.SampledFrom(pool), n, n, func(v int32) int32 { return v }).Draw(t, label)
}

func vpsampDrawShape(t *rapid.T, r *vpsampRow) {
	r.Shape = rapid.IntRange(0, 3).Draw(t, "shape")
	r.Ev = [4]float64{float64(rapid.IntRange(-3, 9).Draw(t, "v1")), float64(rapid.IntRange(1, 5).Draw(t, "c1")),
		float64(rapid.IntRange(1, 5).Draw(t, "v2")), float64(rapid.IntRange(1, 5).Draw(t, "c2"))}
	if r.Shape == vpsampShapeTwo && r.Ev[2] == r.Ev[0] {
		r.Ev[2] = r.Ev[0] + 1
	}
}

// vpsampGenZero: the budget that reaches the sampled level is zero. Run(0) happens on the agent when
// the per-metric budgets handed out by the aggregator use up the shard budget and MinSampleBudget is
// 0; with a budget of 1..4 bytes a nested share below one byte is rounded down to 0 in some of the
// runs (random rounding) or in all of them (floor). The sampler then falls back to a finite factor
// proportional to size/weight (sumWeight*size/weight). The bucket is kept tiny (rows of 28..32 bytes,
// equal weights, one or two children per level) so that this factor stays within 28..~250 and the
// statistical clause of C05 keeps its power with the larger number of runs used for these cases.
func vpsampGenZero(t *rapid.T) vpsampCase {
	var c vpsampCase
	b := func(label string, pct int) bool { return rapid.IntRange(0, 99).Draw(t, label) < pct }
	shape := rapid.IntRange(0, 3).Draw(t, "zero_shape") // 0 flat, 1 namespaces+groups, 2 fair keys, 3 both
	nested, keys := shape == 1 || shape == 3, shape >= 2
	c.Opt = vpsampOpt{ModeAgent: b("agent", 50), Budgets: b("budgets", 60), Namespaces: nested, Groups: nested, Keys: keys}
	w := rapid.SampledFrom([]int64{1, 128}).Draw(t, "weight")
	wide := b("wide_ids", 50)
	nsIDs := vpsampIDs(t, "ns_ids", wide, []int32{format.BuiltinNamespaceIDDefault, 1}, 2)
	for _, id := range nsIDs {
		c.Namespaces = append(c.Namespaces, vpsampWeight{ID: id, W: w})
	}
	c.Groups = []vpsampWeight{{ID: format.BuiltinGroupIDDefault, W: w}, {ID: 10, W: w}}
	nMetrics := rapid.IntRange(1, 3).Draw(t, "n_metrics")
	metricIDs := vpsampIDs(t, "metric_ids", wide, []int32{100, 101, 102}, nMetrics)
	tagVals := [2][]int32{vpsampIDs(t, "tag_values", wide, []int32{0, 1, 2, 3, -1}, 4), vpsampIDs(t, "tag_values", wide, []int32{0, 1, 2}, 2)}
	for i := 0; i < nMetrics; i++ {
		m := vpsampMetric{ID: metricIDs[i], NS: nsIDs[0], Group: format.BuiltinGroupIDDefault, Weight: w}
		if nested {
			m.NS = rapid.SampledFrom(nsIDs).Draw(t, "metric_ns")
			if m.NS == nsIDs[0] && b("own_group", 50) {
				m.Group = 10
			}
		}
		if keys {
			m.FairKey = [][]int{{1}, {1, 2}}[rapid.IntRange(0, 1).Draw(t, "fk")]
		}
		if b("inline_meta", 20) {
			m.Meta = vpsampMetaInline
		}
		c.Metrics = append(c.Metrics, m)
	}
	n := rapid.IntRange(1, 8).Draw(t, "n_rows")
	for i := 0; i < n; i++ {
		r := vpsampRow{M: rapid.IntRange(0, nMetrics-1).Draw(t, "row_metric"), Size: rapid.IntRange(28, 32).Draw(t, "row_size"),
			Whale: rapid.SampledFrom(vpsampWhales).Draw(t, "whale"), Pct: b("pct", 20)}
		vpsampDrawShape(t, &r)
		r.Tags[0] = tagVals[0][rapid.IntRange(0, 3).Draw(t, "tag")]
		r.Tags[1] = tagVals[1][rapid.IntRange(0, 1).Draw(t, "tag")]
		c.Rows = append(c.Rows, r)
	}
	c.Budget = rapid.SampledFrom([]int64{0, 0, 0, 0, 1, 2, 3, 4}).Draw(t, "budget")
	return c
}

func vpsampGen(gc vpsampGenCfg) *rapid.Generator[vpsampCase] {
	return rapid.Custom(func(t *rapid.T) vpsampCase {
		var c vpsampCase
		b := func(label string, pct int) bool { return rapid.IntRange(0, 99).Draw(t, label) < pct }
		if gc.ZeroMode && rapid.IntRange(0, 99).Draw(t, "zero_mode") >= 76 { // rapid favours small values: about 12% of the cases
			return vpsampGenZero(t)
		}
		c.Opt = vpsampOpt{
			ModeAgent:       b("agent", 50),
			KeepSingle:      b("keep_single", 25),
			DisableNoSample: b("disable_nosample", 30),
			Budgets:         b("budgets", 60),
			Namespaces:      b("namespaces", 70),
			Groups:          b("groups", 70),
			Keys:            b("keys", 70),
			MetaNil:         b("meta_nil", 8),
		}
		if b("flat", 20) { // metrics directly below the root
			c.Opt.Namespaces, c.Opt.Groups = false, false
		}
		// weights: either the realistic ones (default 128, limits 1 and 100x/10000x) or small integers, where
		// partitions with a fixed budget (weight 1) sort between the others
		wM, wG := vpsampWeightsM, vpsampWeightsG
		if b("small_weights", 40) {
			wM, wG = vpsampWeightsSmall, vpsampWeightsSmall
		}
		// namespaces and groups
		wide := b("wide_ids", 50)
		nsIDs := vpsampIDs(t, "ns_ids", wide, []int32{format.BuiltinNamespaceIDDefault, 1, 2}, rapid.IntRange(1, 3).Draw(t, "n_ns"))
		for _, id := range nsIDs {
			if b("ns_has_meta", 85) {
				c.Namespaces = append(c.Namespaces, vpsampWeight{ID: id, W: rapid.SampledFrom(wG).Draw(t, "ns_w")})
			}
		}
		type grp struct{ id, ns int32 }
		groups := []grp{{format.BuiltinGroupIDDefault, 0}} // the default group exists in every namespace
		nGroups := rapid.IntRange(0, 3).Draw(t, "n_groups")
		for _, id := range vpsampIDs(t, "group_ids", wide, []int32{10, 11, 12}, nGroups) {
			groups = append(groups, grp{id, rapid.SampledFrom(nsIDs).Draw(t, "group_ns")})
		}
		for _, g := range groups {
			if b("group_has_meta", 85) {
				c.Groups = append(c.Groups, vpsampWeight{ID: g.id, W: rapid.SampledFrom(wG).Draw(t, "group_w")})
			}
		}
		// metrics
		nMetrics := rapid.IntRange(1, 12).Draw(t, "n_metrics")
		if b("few_metrics", 30) && nMetrics > 5 {
			nMetrics = 2 + nMetrics%4
		}
		bigLeaves := b("big_leaves", 20) // few metrics with many rows each: whales
		if bigLeaves && nMetrics > 3 {
			nMetrics = 1 + nMetrics%3
		}
		metricIDs := vpsampIDs(t, "metric_ids", wide, []int32{100, 101, 102, 103, 104, 105, 106, 107, 108, 109, 110, 111}, nMetrics)
		var tagVals [3][]int32
		for j := range tagVals {
			tagVals[j] = vpsampIDs(t, "tag_values", wide, []int32{0, 1, 2, -1}, 3)
		}
		baseSize := make([]int, nMetrics)
		flood := make([]int, nMetrics)
		anyBudget := b("any_budget", 55)
		budgetFrac := make([]float64, nMetrics)
		for i := 0; i < nMetrics; i++ {
			g := groups[0]
			if len(groups) > 1 && b("other_group", 55) { // keep several metrics per group
				g = groups[1+rapid.IntRange(0, len(groups)-2).Draw(t, "metric_group")%((len(groups)+1)/2)]
			}
			ns := g.ns
			if g.ns == 0 {
				ns = rapid.SampledFrom(nsIDs).Draw(t, "metric_ns")
			}
			m := vpsampMetric{ID: metricIDs[i], NS: ns, Group: g.id, Weight: rapid.SampledFrom(wM).Draw(t, "metric_w")}
			switch k := rapid.IntRange(0, 19).Draw(t, "meta_kind"); {
			case k == 0:
				m.Meta = vpsampMetaMissing
			case k <= 3:
				m.Meta = vpsampMetaInline
			}
			m.NoSample = b("nosample", 12)
			if !bigLeaves && b("fair_key", 45) {
				m.FairKey = rapid.SliceOfN(rapid.SampledFrom(vpsampFairKeys), 1, 4).Draw(t, "fk")
			}
			if anyBudget && b("has_budget", 35) {
				budgetFrac[i] = rapid.SampledFrom(vpsampFixedFrac).Draw(t, "budget_frac")
			}
			if b("small_rows", 60) {
				baseSize[i] = rapid.IntRange(28, 200).Draw(t, "base_size")
			} else {
				baseSize[i] = rapid.IntRange(28, 4000).Draw(t, "base_size")
			}
			flood[i] = rapid.SampledFrom([]int{1, 1, 1, 2, 4, 16}).Draw(t, "flood")
			c.Metrics = append(c.Metrics, m)
		}
		// rows
		var n int
		switch k := rapid.IntRange(0, 9).Draw(t, "rows_class"); {
		case k < 4:
			n = rapid.IntRange(1, 30).Draw(t, "n_rows")
		case k < 9:
			n = rapid.IntRange(30, 120).Draw(t, "n_rows")
		default:
			n = rapid.IntRange(120, 400).Draw(t, "n_rows")
		}
		if bigLeaves && n < 20 {
			n += 20
		}
		if n > gc.MaxRows {
			n = 1 + n%gc.MaxRows
		}
		var pick []int
		for i, f := range flood {
			for j := 0; j < f; j++ {
				pick = append(pick, i)
			}
		}
		equal := gc.EqualSize || b("equal_size", 50)
		zero := gc.ZeroSize && b("zero_size", 10)
		floatWhales := b("float_whales", 30)
		metricSize := make([]int64, nMetrics)
		var total int64
		for i := 0; i < n; i++ {
			r := vpsampRow{M: rapid.SampledFrom(pick).Draw(t, "row_metric")}
			r.Size = baseSize[r.M]
			if !equal && b("jitter", 50) {
				r.Size = rapid.IntRange(28, 4000).Draw(t, "row_size")
			}
			if zero && b("row_zero", 15) {
				r.Size = rapid.IntRange(-1, 0).Draw(t, "row_size0")
			}
			if floatWhales {
				r.Whale = float64(rapid.IntRange(0, 1000000).Draw(t, "whale")) / 16
			} else {
				r.Whale = rapid.SampledFrom(vpsampWhales).Draw(t, "whale")
			}
			for j := range r.Tags {
				r.Tags[j] = tagVals[j][rapid.IntRange(0, 2).Draw(t, "tag")]
			}
			r.Pct = b("pct", 20)
			vpsampDrawShape(t, &r)
			if r.Size >= 1 {
				metricSize[r.M] += int64(r.Size)
				total += int64(r.Size)
			}
			c.Rows = append(c.Rows, r)
		}
		for i := range c.Metrics {
			if budgetFrac[i] > 0 && metricSize[i] > 0 {
				v := int64(budgetFrac[i] * float64(metricSize[i]))
				if v < 1 {
					v = 1
				}
				c.Metrics[i].Budget = uint32(v)
			}
		}
		if c.Opt.Budgets { // the budget is shared by the metrics without a fixed budget
			total = 0
			for i := range c.Metrics {
				if c.Metrics[i].Budget == 0 {
					total += metricSize[i]
				}
			}
		}
		if total < 1 {
			total = 1
		}
		switch k := rapid.IntRange(0, 19).Draw(t, "budget_class"); {
		case k < 2:
			c.Budget = total + rapid.Int64Range(0, total).Draw(t, "budget_extra")
		case k < 3:
			c.Budget = rapid.Int64Range(1, 60).Draw(t, "budget_tiny")
		case k < 5:
			c.Budget = total - rapid.Int64Range(0, 3).Draw(t, "budget_edge")
		case k < 12: // tight: most levels are sampled
			c.Budget = total * rapid.Int64Range(20, 400).Draw(t, "budget_permille") / 1000
		default:
			c.Budget = total * rapid.Int64Range(20, 999).Draw(t, "budget_permille") / 1000
		}
		if c.Budget < 1 {
			c.Budget = 1
		}
		return c
	})
}
