//go:build verif

package data_model

import (
	"bytes"
	"encoding/binary"
	"encoding/json"
	"fmt"
	"os"
	"path/filepath"
	"testing"

	"github.com/zeebo/xxh3"
	"pgregory.net/rapid"
)

// ---------- C21 (1): ChunkedStorage2 reloads exactly what was saved; damage yields a prefix ----------
//
// Items are self-delimiting ([4-byte length][payload derived from (seed, item number)]) so the
// harness can tell whether a chunk holds whole items. "Saved chunks" are found by an independent
// parser written from the format comment in chunked_storage2.go:
//   file: [chunk]...   chunk: [magic u32 LE][body size u32 LE][body][xxh3-128 BE]
//   hash = xxh3_128(hash of previous chunk (zeros for the first) ‖ magic ‖ size ‖ body)

const c21Magic = 0x5ec21a07

type c21Session struct {
	Mode  int   `json:"mode"`  // 0: read to the end, append; 1: read, ResetToStartOfFile, rewrite; 2: write from a storage that never read
	Items []int `json:"items"` // payload lengths
}

type c21ChunkCase struct {
	File     bool         `json:"file,omitempty"`
	Seed     uint64       `json:"seed"`
	Sessions []c21Session `json:"sessions"`
	Damage   int          `json:"damage,omitempty"` // 0 none, 1 truncate, 2 flip one bit
	Near     bool         `json:"near,omitempty"`   // position is relative to the end of a chunk
	Hdr      bool         `json:"hdr,omitempty"`    // Pos enumerates the bits of the chunks' magic, size and hash fields: chunk Pos/192, byte Pos%192/8 (0-7 header, 8-23 hash), bit Pos%8
	Pos      uint64       `json:"pos,omitempty"`
	Append   bool         `json:"append,omitempty"` // the process that read the damaged file appends Then
	Then     []int        `json:"then,omitempty"`
}

func c21Item(seed uint64, n int, payload int) []byte {
	b := make([]byte, 4+payload)
	binary.LittleEndian.PutUint32(b, uint32(payload))
	x := seed*0x9E3779B97F4A7C15 + uint64(n)*0xBF58476D1CE4E5B9 + 1
	for i := 4; i < len(b); i++ {
		x ^= x << 13
		x ^= x >> 7
		x ^= x << 17
		b[i] = byte(x >> 24)
	}
	return b
}

type c21Chunk struct {
	start, end int
	body       []byte
}

// c21Parse is the independent reader: it returns the well-formed chunks at the start of data and
// whether they cover data completely.
func c21Parse(data []byte, magic uint32) (chunks []c21Chunk, complete bool) {
	var prev [16]byte
	pos := 0
	for pos < len(data) {
		if pos+8+16 > len(data) {
			return chunks, false
		}
		if binary.LittleEndian.Uint32(data[pos:]) != magic {
			return chunks, false
		}
		size := int(binary.LittleEndian.Uint32(data[pos+4:]))
		if size > ChunkSize || pos+8+size+16 > len(data) {
			return chunks, false
		}
		h := xxh3.New()
		_, _ = h.Write(prev[:])
		_, _ = h.Write(data[pos : pos+8+size])
		sum := h.Sum128()
		var want [16]byte
		binary.BigEndian.PutUint64(want[:], sum.Hi)
		binary.BigEndian.PutUint64(want[8:], sum.Lo)
		if !bytes.Equal(want[:], data[pos+8+size:pos+8+size+16]) {
			return chunks, false
		}
		chunks = append(chunks, c21Chunk{start: pos, end: pos + 8 + size + 16, body: data[pos+8 : pos+8+size]})
		prev = want
		pos += 8 + size + 16
	}
	return chunks, true
}

type c21Backing struct {
	file bool
	buf  []byte
	path string
	fp   *os.File
}

func (b *c21Backing) open(t vpT) *ChunkedStorage2 {
	if !b.file {
		return NewChunkedStorage2Slice(&b.buf)
	}
	b.close()
	fp, err := os.OpenFile(b.path, os.O_CREATE|os.O_RDWR, 0666) // the flags the code recommends
	if err != nil {
		t.Fatalf("harness: %v", err)
	}
	b.fp = fp
	return NewChunkedStorage2File(fp)
}

func (b *c21Backing) close() {
	if b.fp != nil {
		_ = b.fp.Close()
		b.fp = nil
	}
}

func (b *c21Backing) bytes(t vpT) []byte {
	if !b.file {
		return append([]byte(nil), b.buf...)
	}
	d, err := os.ReadFile(b.path)
	if err != nil {
		t.Fatalf("harness: %v", err)
	}
	return d
}

func (b *c21Backing) size(t vpT) int {
	if !b.file {
		return len(b.buf)
	}
	st, err := os.Stat(b.path)
	if err != nil {
		return 0
	}
	return int(st.Size())
}

// set makes d the contents (a slice backing takes ownership of d)
func (b *c21Backing) set(t vpT, d []byte) {
	if !b.file {
		b.buf = d
		return
	}
	b.close()
	if err := os.WriteFile(b.path, d, 0666); err != nil {
		t.Fatalf("harness: %v", err)
	}
}

type c21PanicError struct{ v any }

func (e c21PanicError) Error() string { return fmt.Sprintf("ReadNext panicked: %v", e.v) }

func c21ReadAll(st *ChunkedStorage2) (chunks [][]byte, err error) {
	defer func() {
		if r := recover(); r != nil {
			err = c21PanicError{r} // reported by the callers through t.Fatalf so that the case is saved
		}
	}()
	for n := 0; ; n++ {
		chunk, err := st.ReadNext(c21Magic)
		if err != nil {
			return chunks, err
		}
		if len(chunk) == 0 {
			return chunks, nil
		}
		if (n == 0) != st.IsFirst() {
			return chunks, fmt.Errorf("harness-visible: IsFirst()=%v for chunk %d", st.IsFirst(), n)
		}
		chunks = append(chunks, append([]byte(nil), chunk...))
	}
}

func c21Write(t vpT, st *ChunkedStorage2, items [][]byte) {
	chunk := st.StartWriteChunk(c21Magic, 0)
	var err error
	for _, it := range items {
		chunk = append(chunk, it...)
		if chunk, err = st.FinishItem(chunk); err != nil {
			t.Fatalf("FinishItem: %v", err)
		}
	}
	if err = st.FinishWriteChunk(chunk); err != nil {
		t.Fatalf("FinishWriteChunk: %v", err)
	}
}

// c21CheckClean: data must be a sequence of well-formed chunks, each made of whole items, that
// concatenate to want; the storage reader must return exactly those chunks and then a clean end.
func c21CheckClean(t vpT, b *c21Backing, want [][]byte, what string) []c21Chunk {
	data := b.bytes(t) // a copy: the returned chunks stay valid when the file is rewritten
	chunks, complete := c21Parse(data, c21Magic)
	if !complete {
		t.Fatalf("%s: file of %d bytes is not a sequence of well-formed chunks (%d parsed)", what, len(data), len(chunks))
	}
	wi := 0
	for ci, c := range chunks {
		if len(c.body) == 0 {
			t.Fatalf("%s: chunk %d is empty", what, ci)
		}
		rest := c.body
		for len(rest) > 0 {
			if wi >= len(want) {
				t.Fatalf("%s: chunk %d holds more than the %d saved items", what, ci, len(want))
			}
			if len(rest) < len(want[wi]) || !bytes.Equal(rest[:len(want[wi])], want[wi]) {
				t.Fatalf("%s: chunk %d: item %d differs from the saved one or is split across chunks", what, ci, wi)
			}
			rest = rest[len(want[wi]):]
			wi++
		}
	}
	if wi != len(want) {
		t.Fatalf("%s: file holds %d items, %d were saved", what, wi, len(want))
	}
	got, err := c21ReadAll(b.open(t))
	if err != nil {
		t.Fatalf("%s: reload of an intact file: %v", what, err)
	}
	if len(got) != len(chunks) {
		t.Fatalf("%s: reload returned %d chunks, file has %d", what, len(got), len(chunks))
	}
	for i := range got {
		if !bytes.Equal(got[i], chunks[i].body) {
			t.Fatalf("%s: reloaded chunk %d differs from the saved one", what, i)
		}
	}
	return chunks
}

func c21ChunkProp(t vpT, c c21ChunkCase) (nontrivial bool, classes []string) {
	cls := map[string]bool{}
	b := &c21Backing{file: c.File}
	if c.File {
		dir, err := os.MkdirTemp("", "vp-c21-")
		if err != nil {
			t.Fatalf("harness: %v", err)
		}
		defer os.RemoveAll(dir)
		b.path = filepath.Join(dir, "storage")
		cls["file"] = true
	}
	defer b.close()
	itemNo := 0
	mk := func(lens []int) [][]byte {
		var items [][]byte
		for _, l := range lens {
			if l < 0 {
				l = 0
			}
			if l > ChunkSize/2-5 {
				l = ChunkSize/2 - 5 // each individual item must be < chunkSize/2
			}
			if l > 100_000 {
				cls["big-item"] = true
			}
			items = append(items, c21Item(c.Seed, itemNo, l))
			itemNo++
		}
		return items
	}
	var want [][]byte
	var chunks []c21Chunk
	for si, s := range c.Sessions {
		items := mk(s.Items)
		st := b.open(t)
		before := b.size(t)
		switch s.Mode % 3 {
		case 0:
			if got, err := c21ReadAll(st); err != nil || len(got) != len(chunks) {
				t.Fatalf("session %d: reading the file back: %d chunks, err %v; expected %d chunks", si, len(got), err, len(chunks))
			}
			want = append(want, items...)
			cls["append"] = true
		case 1:
			if _, err := c21ReadAll(st); err != nil {
				t.Fatalf("session %d: reading the file back: %v", si, err)
			}
			st.ResetToStartOfFile()
			want = items
			cls["rewrite"] = true
		case 2:
			want = items
			cls["write-without-reading"] = true
		}
		c21Write(t, st, items)
		chunks = c21CheckClean(t, b, want, fmt.Sprintf("after session %d", si))
		if b.size(t) < before {
			cls["rewrite-shrinks"] = true
		}
	}
	if len(chunks) > 1 {
		cls["multi-chunk"] = true
		nontrivial = true
	}
	if c.Damage%3 == 0 || len(chunks) == 0 {
		return nontrivial, c21Keys(cls)
	}
	c21Damage(t, c, b, b.bytes(t), chunks, want, mk, cls)
	return true, c21Keys(cls)
}

// c21Damage cuts or flips a copy of the saved file (data, made of chunks holding the items want), reloads
// it and optionally lets the reader append.
func c21Damage(t vpT, c c21ChunkCase, b *c21Backing, data []byte, chunks []c21Chunk, want [][]byte, mk func([]int) [][]byte, cls map[string]bool) {
	// ---- damage a copy of the file
	pos := int(c.Pos % uint64(len(data)))
	if c.Near {
		ch := chunks[int(c.Pos/64)%len(chunks)]
		pos = ch.end - 1 - int(c.Pos%40)
		if c.Pos%64 >= 40 {
			pos = ch.start + int(c.Pos%64-40) // magic, size and the first body bytes
		}
		if pos < 0 || pos >= len(data) {
			pos = len(data) - 1
		}
	}
	bitIdx := uint(c.Pos / 7 % 8)
	if c.Hdr {
		ch := chunks[int(c.Pos/192)%len(chunks)]
		if by := int(c.Pos % 192 / 8); by < 8 {
			pos = ch.start + by
		} else {
			pos = ch.end - 16 + (by - 8)
		}
		bitIdx = uint(c.Pos % 8)
	}
	var survivors int
	var cleanEnd bool
	what := ""
	switch c.Damage % 3 {
	case 1:
		data = data[:pos]
		for _, ch := range chunks {
			if ch.end <= pos {
				survivors++
			}
		}
		cleanEnd = survivors == 0 && pos == 0 || survivors > 0 && chunks[survivors-1].end == pos
		what = fmt.Sprintf("file cut at %d of %d bytes", pos, len(data))
		cls["truncate"] = true
		if cleanEnd {
			cls["truncate-at-chunk-boundary"] = true
		}
	case 2:
		bit := byte(1) << bitIdx
		data[pos] ^= bit
		for _, ch := range chunks {
			if ch.end <= pos {
				survivors++
			}
		}
		ch := chunks[survivors]
		switch {
		case pos < ch.start+8:
			cls["flip-in-header"] = true
			if ns := int(binary.LittleEndian.Uint32(data[ch.start+4:])); pos >= ch.start+4 && ns > ChunkSize && ch.start+8+ns+16 <= len(data) {
				// the damaged size exceeds the hard limit (and the reader's buffer) but still fits into the file
				cls["size-field-high-bit-flip-on-large-file"] = true
			}
		case pos >= ch.end-16:
			cls["flip-in-hash"] = true
		default:
			cls["flip-in-body"] = true
		}
		what = fmt.Sprintf("bit 0x%x of byte %d flipped", bit, pos)
		cls["bitflip"] = true
	}
	d := &c21Backing{file: c.File, path: b.path + ".damaged"}
	defer d.close()
	d.set(t, data)
	st := d.open(t)
	got, err := c21ReadAll(st)
	if pe, ok := err.(c21PanicError); ok {
		t.Fatalf("%s: %v (after %d chunks)", what, pe, len(got))
	}
	if len(got) > survivors {
		t.Fatalf("%s: reload returned %d chunks, only %d saved chunks are undamaged", what, len(got), survivors)
	}
	for i := range got {
		if !bytes.Equal(got[i], chunks[i].body) {
			t.Fatalf("%s: reloaded chunk %d is not byte-identical to the saved one", what, i)
		}
	}
	if len(got) < survivors {
		t.Fatalf("%s: reload returned %d chunks (err %v), the %d chunks before the damage are intact", what, len(got), err, survivors)
	}
	if cleanEnd && err != nil {
		t.Fatalf("%s (a chunk boundary): reload failed: %v", what, err)
	}
	if !cleanEnd && err == nil {
		t.Fatalf("%s: reload reported a clean end after %d chunks", what, len(got))
	}
	if !c.Append {
		return
	}
	// ---- the process that read the damaged file keeps appending (callers ignore load errors)
	cls["append-after-damage"] = true
	var keep [][]byte
	n := 0
	for _, it := range want {
		if n >= c21SurvivorBytes(chunks, survivors) {
			break
		}
		keep = append(keep, it)
		n += len(it)
	}
	extra := mk(c.Then)
	c21Write(t, st, extra)
	c21CheckClean(t, d, append(keep, extra...), what+", then appended")
}

func c21SurvivorBytes(chunks []c21Chunk, n int) int {
	total := 0
	for _, ch := range chunks[:n] {
		total += len(ch.body)
	}
	return total
}

func c21Keys(m map[string]bool) []string {
	var l []string
	for k := range m {
		l = append(l, k)
	}
	return l
}

func c21GenLens(label string) *rapid.Generator[[]int] {
	return rapid.Custom(func(t *rapid.T) []int {
		n := rapid.IntRange(0, 8).Draw(t, label+"-n")
		var l []int
		for i := 0; i < n; i++ {
			switch rapid.SampledFrom([]string{"tiny", "tiny", "small", "small", "mid", "big", "big", "max"}).Draw(t, label+"-class") {
			case "tiny":
				l = append(l, rapid.IntRange(0, 8).Draw(t, "len"))
			case "small":
				l = append(l, rapid.IntRange(0, 300).Draw(t, "len"))
			case "mid":
				l = append(l, rapid.IntRange(1000, 70_000).Draw(t, "len"))
			case "big":
				l = append(l, rapid.IntRange(150_000, 400_000).Draw(t, "len"))
			default:
				l = append(l, ChunkSize/2-5-rapid.IntRange(0, 3).Draw(t, "below-max"))
			}
		}
		return l
	})
}

func c21GenChunkCase() *rapid.Generator[c21ChunkCase] {
	return rapid.Custom(func(t *rapid.T) c21ChunkCase {
		c := c21ChunkCase{
			File: rapid.IntRange(0, 4).Draw(t, "file") == 4,
			Seed: rapid.Uint64Range(0, 1<<20).Draw(t, "seed"),
		}
		for n := rapid.IntRange(1, 3).Draw(t, "sessions"); n > 0; n-- {
			c.Sessions = append(c.Sessions, c21Session{Mode: rapid.SampledFrom([]int{0, 0, 0, 1, 2}).Draw(t, "mode"), Items: c21GenLens("items").Draw(t, "items")})
		}
		if rapid.IntRange(0, 11).Draw(t, "large") == 0 { // 2.5-4 MiB in one session, then a flip in a header/hash field
			c.Sessions = []c21Session{{Mode: 0, Items: c21LargeItems(rapid.Uint64Range(0, 1<<30).Draw(t, "large-seed"))}}
			c.Damage, c.Hdr = 2, true
			c.Pos = rapid.Uint64Range(0, 192*8-1).Draw(t, "hdr-bit")
			if rapid.Bool().Draw(t, "size-field") {
				c.Pos = c.Pos/192*192 + uint64(rapid.IntRange(4*8, 8*8-1).Draw(t, "size-bit"))
			}
			return c
		}
		c.Damage = rapid.SampledFrom([]int{0, 1, 1, 2, 2}).Draw(t, "damage")
		if c.Damage != 0 {
			c.Near = rapid.Bool().Draw(t, "near")
			c.Pos = rapid.Uint64Range(0, 1<<22).Draw(t, "pos")
			if c.Append = rapid.Bool().Draw(t, "then"); c.Append {
				c.Then = c21GenLens("then").Draw(t, "then-items")
			}
		}
		return c
	})
}

func TestVerifC21Chunks(t *testing.T) {
	ev := vpNewEv(t, "C21", "chunks")
	rapid.Check(t, func(rt *rapid.T) {
		c := c21GenChunkCase().Draw(rt, "case")
		vpRunCase(rt, "C21", "chunks", c, func() {
			nt, cls := c21ChunkProp(rt, c)
			ev.Case(nt, c, cls...)
		})
	})
}

// TestVerifC21ChunksEnum enumerates damage positions of one three-chunk file: every byte offset within
// 24 bytes of a chunk start or end as truncation point and as bit-flip target (all 8 bits), plus a
// stride through the bodies (one bit each).
func TestVerifC21ChunksEnum(t *testing.T) {
	ev := vpNewEv(t, "C21", "chunks")
	seed := uint64(7)
	if s := os.Getenv("VERIF_SEED"); s != "" {
		_, _ = fmt.Sscan(s, &seed)
	}
	base := c21ChunkCase{Seed: seed, Sessions: []c21Session{{Mode: 0, Items: []int{10, 300_000, 250_000, 5, 400_000, 200_000, 0, 17}}}}
	b := &c21Backing{}
	var want [][]byte
	for i, l := range base.Sessions[0].Items {
		want = append(want, c21Item(seed, i, l))
	}
	c21Write(t, b.open(t), want)
	chunks := c21CheckClean(t, b, want, "enum base")
	if len(chunks) != 3 {
		t.Fatalf("harness: expected 3 chunks, got %d", len(chunks))
	}
	size := len(b.buf)
	shared := append([]byte(nil), b.buf...)
	near := map[int]bool{}
	for _, ch := range chunks {
		for d := -24; d <= 24; d++ {
			for _, p := range []int{ch.start + d, ch.end + d} {
				if p >= 0 && p < size {
					near[p] = true
				}
			}
		}
	}
	stride := 2503
	if os.Getenv("VERIF_TIER") == "thorough" {
		stride = 1009
	}
	n := 0
	run := func(p int, dmg int, bit uint64) {
		c := base
		c.Damage = dmg
		c.Pos = c21SolvePos(uint64(p), bit, uint64(size)) // byte = Pos % size, bit = (Pos/7) % 8
		vpRunCase(t, "C21", "chunks", c, func() {
			cls := map[string]bool{"enumerated-position": true, "multi-chunk": true}
			saved := shared[p]
			c21Damage(t, c, b, shared, chunks, want, nil, cls) // flips in place, no append
			shared[p] = saved
			ev.Case(true, c, c21Keys(cls)...)
		})
		n++
	}
	for p := 0; p < size; p++ {
		if near[p] {
			run(p, 1, 0)
			for bit := uint64(0); bit < 8; bit++ {
				run(p, 2, bit)
			}
		} else if p%stride == 0 {
			run(p, 1, 0)
			run(p, 2, uint64(p/stride)%8)
		}
	}
	t.Logf("enumerated %d damaged variants of a %d-byte file", n, size)
}

// c21LargeItems returns item lengths that add up to 2.5-4 MiB (several full chunks).
func c21LargeItems(seed uint64) []int {
	x := seed*0x9E3779B97F4A7C15 + 0x1234567
	next := func(n int) int {
		x ^= x << 13
		x ^= x >> 7
		x ^= x << 17
		return int(x>>33) % n
	}
	target := 2_621_440 + next(1_572_864) // 2.5 MiB + [0, 1.5 MiB)
	var l []int
	for total := 0; total < target; {
		n := 1 + next(ChunkSize/2-5)
		switch next(4) {
		case 0:
			n = next(300)
		case 1:
			n = ChunkSize/2 - 5 - next(4)
		}
		l = append(l, n)
		total += n + 4
	}
	return l
}

// TestVerifC21ChunksHeaderEnum: on files of 2.5-4 MiB every bit of the magic, size and hash field of every
// chunk is flipped (chunks x 24 x 8 variants per file). A damaged size field above the hard limit that still
// fits into the file must give an error after the intact prefix, not an overrun of the reader's buffer.
func TestVerifC21ChunksHeaderEnum(t *testing.T) {
	ev := vpNewEv(t, "C21", "chunks")
	seed := uint64(1)
	if s := os.Getenv("VERIF_SEED"); s != "" {
		_, _ = fmt.Sscan(s, &seed)
	}
	files := 4
	if os.Getenv("VERIF_TIER") == "thorough" {
		files = 16
	}
	n := 0
	for f := 0; f < files; f++ {
		base := c21ChunkCase{Seed: seed + uint64(f), Sessions: []c21Session{{Mode: 0, Items: c21LargeItems(seed*131 + uint64(f))}}, Damage: 2, Hdr: true}
		b := &c21Backing{}
		var want [][]byte
		for i, l := range base.Sessions[0].Items {
			want = append(want, c21Item(base.Seed, i, l))
		}
		c21Write(t, b.open(t), want)
		chunks := c21CheckClean(t, b, want, "header enum base")
		if len(b.buf) < 2_621_440 || len(chunks) < 3 {
			t.Fatalf("harness: file of %d bytes in %d chunks is too small", len(b.buf), len(chunks))
		}
		shared := append([]byte(nil), b.buf...)
		for p := uint64(0); p < uint64(len(chunks))*192; p++ {
			c := base
			c.Pos = p
			vpRunCase(t, "C21", "chunks", c, func() {
				cls := map[string]bool{"enumerated-header-bit": true, "multi-chunk": true, "large-file": true}
				c21Damage(t, c, b, shared, chunks, want, nil, cls) // flips in place
				ch := chunks[p/192]
				copy(shared[ch.start:ch.start+8], b.buf[ch.start:])
				copy(shared[ch.end-16:ch.end], b.buf[ch.end-16:])
				ev.Case(true, c, c21Keys(cls)...)
			})
			n++
		}
	}
	t.Logf("enumerated %d header/hash bit flips on %d large files", n, files)
}

// c21SolvePos finds Pos with Pos%size == p and (Pos/7)%8 == bit.
func c21SolvePos(p, bit, size uint64) uint64 {
	for k := uint64(0); k < 1000; k++ {
		v := p + k*size
		if (v/7)%8 == bit {
			return v
		}
	}
	return p
}

func init() {
	vpReplayers["C21/chunks"] = func(t vpT, raw json.RawMessage) {
		var c c21ChunkCase
		if err := json.Unmarshal(raw, &c); err != nil {
			t.Fatalf("%v", err)
		}
		c21ChunkProp(t, c)
	}
}
