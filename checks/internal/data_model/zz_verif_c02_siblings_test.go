//go:build verif

package data_model

// C02/siblings — every row keeps its own key and its own aggregates on the aggregator.
//
// A bucket holds 2–8 rows of ONE metric and ONE timestamp whose keys differ only slightly: the value in
// the last used tag positions is negative / zero / positive / absent (raw tags and builtin values are
// negative), one more tag after the last one, string tags set or not. The rows are built per Key value
// (and, alongside, in a real agent-side MultiItemMap as Shard.Apply* does, asserted last), every row is
// encoded as sampleBucket.keepF does, and the aggregator side replays handleSendSourceBucket's real call
// sequence per item: KeyFromStatshouseMultiItem → string tags copied → Key.XXHash (MarshalAppend) →
// shard = hash % AggregationShardsPerSecond → GetOrCreateMultiItem(&k, nil, keyBytes) on that shard's real
// MultiItemMap → MergeWithTLMultiItem. Oracle: the multiset of (key → aggregates) found in the aggregator's
// maps equals the per-key reference computed from the event list (keys compared as Go values, independent
// of any key serialisation).

import (
	"encoding/json"
	"fmt"
	"sort"
	"testing"

	"pgregory.net/rand"
	"pgregory.net/rapid"

	"github.com/VKCOM/statshouse/internal/data_model/gen2/tlstatshouse"
	"github.com/VKCOM/statshouse/internal/format"
)

type c02sRow struct {
	Tags   []c02Tag `json:"tags"` // the whole key of the row (index, int or string value); value 0 / "" = absent
	Events []c02Ev  `json:"events"`
}

type c02sCase struct {
	Metric      int32     `json:"metric"`
	Percentiles bool      `json:"percentiles"`
	BucketTime  uint32    `json:"bucket_time"`
	TsBack      uint32    `json:"ts_back"` // all rows share the timestamp bucket_time - ts_back
	Rows        []c02sRow `json:"rows"`
	SF          float64   `json:"sf"`
	AggHost     vpRefHost `json:"agg_host"`
	Seed        uint64    `json:"seed"`
}

func c02sKeyString(k Key) string {
	s := fmt.Sprintf("{metric %d ts %d", k.Metric, k.Timestamp)
	for i := range k.Tags {
		if k.Tags[i] != 0 {
			s += fmt.Sprintf(" %d:%d", i, k.Tags[i])
		}
		if k.STags[i] != "" {
			s += fmt.Sprintf(" %d:%q", i, k.STags[i])
		}
	}
	return s + "}"
}

// c02sTrimNonPositive: the key with trailing non-positive int tags removed (what a too eager "ignore empty
// trailing tags" would keep); used only to classify cases.
func c02sTrimNonPositive(k Key) Key {
	for i := len(k.Tags) - 1; i >= 0 && k.Tags[i] <= 0; i-- {
		k.Tags[i] = 0
	}
	return k
}

type c02sSent struct {
	item   *MultiItem
	tail   *vpRefAgg
	tops   map[TagUnion]*vpRefAgg
	events []*vpRefEvent
}

func c02sProp(t vpT, c c02sCase) (bool, []string) {
	info := &c02Info{classes: map[string]bool{}}
	if !(c.SF >= 1) || c.BucketTime <= BelieveTimestampWindow || c.TsBack > BelieveTimestampWindow || len(c.Rows) == 0 {
		t.Fatalf("bad case")
	}
	rng := rand.New(c.Seed)
	meta := &format.MetricMetaValue{MetricID: c.Metric, HasPercentiles: c.Percentiles}

	// ---- agent side: events land in a real MultiItemMap, reference keyed by the Key value
	var agentMap MultiItemMap
	agentCollapsed := ""
	sent := map[Key]*c02sSent{}
	var order []Key
	for ri := range c.Rows {
		r := &c.Rows[ri]
		key := Key{Metric: c.Metric, Timestamp: c.BucketTime - c.TsBack}
		for _, tg := range r.Tags {
			if tg.Idx < 0 || tg.Idx >= format.StringTopTagIndexV3 {
				t.Fatalf("bad case: tag index %d", tg.Idx)
			}
			if tg.I != 0 {
				key.Tags[tg.Idx] = tg.I
			} else {
				key.STags[tg.Idx] = tg.S
			}
		}
		for ei := range r.Events {
			ev := &r.Events[ei].Ev
			_, count := ev.totals()
			if count <= 0 {
				continue
			}
			// the agent's real map is exercised alongside (asserted at the end); the rows that are sent are kept
			// per Key value so that the aggregator-side assertions do not depend on the agent-side map
			if mapItem, _ := agentMap.GetOrCreateMultiItem(&key, meta, nil); mapItem.Key != key {
				agentCollapsed = fmt.Sprintf("agent: MultiItemMap returned the row of %s for key %s", c02sKeyString(mapItem.Key), c02sKeyString(key))
			}
			s := sent[key]
			if s == nil {
				s = &c02sSent{item: &MultiItem{Key: key, SF: 1, MetricMeta: meta}, tail: vpRefNew(), tops: map[TagUnion]*vpRefAgg{}}
				sent[key] = s
				order = append(order, key)
			}
			item := s.item
			top := r.Events[ei].Top.TU()
			mv := item.MapStringTop(rng, DefaultStringTopCapacity, top, count)
			vpRefApplyReal(mv, rng, ev, c.Percentiles, false)
			ref := s.tail
			if !top.Empty() {
				ref = s.tops[top]
				if ref == nil {
					ref = vpRefNew()
					s.tops[top] = ref
				}
			}
			ref.Apply(ev)
			s.events = append(s.events, ev)
		}
	}
	if len(sent) == 0 {
		return false, nil
	}

	// ---- wire: every row of the agent's map, encoded as keepF does (deterministic order)
	type wireRow struct {
		key  Key
		wire []byte
	}
	var wires []wireRow
	for _, k := range order {
		it := sent[k].item
		it.SF = c.SF
		wires = append(wires, wireRow{it.Key, c02Encode(it, c.BucketTime)})
	}
	sort.Slice(wires, func(i, j int) bool { return c02sKeyString(wires[i].key) < c02sKeyString(wires[j].key) })
	wperm := rand.New(c.Seed + 7).Perm(len(wires))

	// ---- aggregator side: handleSendSourceBucket's call sequence
	var shards [AggregationShardsPerSecond]MultiItemMap
	aggHost := c.AggHost.TU()
	rrng := rand.New(c.Seed + 1)
	var keyBytes []byte
	createdN := 0
	for _, wi := range wperm {
		var mib tlstatshouse.MultiItemBytes
		if rest, err := mib.ReadTL1(wires[wi].wire); err != nil || len(rest) != 0 {
			t.Fatalf("aggregator cannot read the row: err=%v rest=%d", err, len(rest))
		}
		k, warn := KeyFromStatshouseMultiItem(&mib, c.BucketTime)
		if warn != 0 {
			t.Fatalf("ingestion warning %d", warn)
		}
		for i, str := range mib.Skeys {
			if i >= format.MaxTags {
				break
			}
			k.STags[i] = string(str)
		}
		var hash uint64
		keyBytes, hash = k.XXHash(keyBytes)
		sID := int(hash % AggregationShardsPerSecond)
		mi, created := shards[sID].GetOrCreateMultiItem(&k, nil, keyBytes)
		if created {
			createdN++
		}
		if ingErr := mi.MergeWithTLMultiItem(rrng, AggregatorStringTopCapacity, &mib, aggHost); ingErr != 0 {
			t.Fatalf("row %s rejected with ingestion status %d", c02sKeyString(k), ingErr)
		}
	}

	// ---- oracle: multiset of (key → aggregates) on the aggregator == what the agent's events say
	got := map[Key]*MultiItem{}
	nAgg := 0
	for s := range shards {
		for _, mi := range shards[s].MultiItems {
			nAgg++
			if prev := got[mi.Key]; prev != nil {
				t.Fatalf("aggregator holds key %s twice", c02sKeyString(mi.Key))
			}
			got[mi.Key] = mi
		}
	}
	if nAgg != len(sent) || createdN != len(sent) {
		var have, want []string
		for k := range got {
			have = append(have, c02sKeyString(k))
		}
		for k := range sent {
			want = append(want, c02sKeyString(k))
		}
		sort.Strings(have)
		sort.Strings(want)
		t.Fatalf("agent sent %d rows, aggregator created %d and holds %d rows:\n sent %v\n has  %v", len(sent), createdN, nAgg, want, have)
	}
	cc := c02Case{SF: c.SF, Percentiles: c.Percentiles}
	for _, k := range order {
		s := sent[k]
		mi := got[k]
		if mi == nil {
			t.Fatalf("row %s sent by the agent does not exist on the aggregator", c02sKeyString(k))
		}
		exact := vpRefExactEvents(s.events) && vpRefSmallDyadic(c.SF, 2, 64)
		where := "row " + c02sKeyString(k)
		if len(mi.Top) != len(s.tops) {
			t.Fatalf("%s: %d top keys sent, aggregator has %d", where, len(s.tops), len(mi.Top))
		}
		c02Compare(t, cc, info, where+" tail", &s.item.Tail, &mi.Tail, s.tail, aggHost, exact)
		for tk, ref := range s.tops {
			g, ok := mi.Top[tk]
			if !ok {
				t.Fatalf("%s: top key %+v missing at the aggregator", where, tk)
			}
			c02Compare(t, cc, info, fmt.Sprintf("%s top %+v", where, tk), s.item.Top[tk], g, ref, aggHost, exact)
		}
	}

	// ---- the agent's own map must have kept the rows apart as well
	if agentCollapsed != "" {
		t.Fatalf("%s", agentCollapsed)
	}
	if len(agentMap.MultiItems) != len(sent) {
		t.Fatalf("agent: events of %d distinct keys were collected into %d rows", len(sent), len(agentMap.MultiItems))
	}

	// ---- classes
	cls := map[string]bool{}
	if len(sent) < len(c.Rows) {
		cls["sibling-rows-same-key"] = true
	}
	for i := 0; i < len(order); i++ {
		for j := i + 1; j < len(order); j++ {
			a, b := order[i], order[j]
			if c02sTrimNonPositive(a) == c02sTrimNonPositive(b) {
				cls["sibling-keys-trailing-negative"] = true
			}
			if a.Tags == b.Tags {
				cls["sibling-keys-differ-only-in-string-tags"] = true
			}
			if a.STags == b.STags {
				cls["sibling-keys-differ-only-in-int-tags"] = true
			}
		}
	}
	for _, k := range order {
		last := -1
		for i := range k.Tags {
			if k.Tags[i] != 0 {
				last = i
			}
		}
		if last >= 0 && k.Tags[last] < 0 {
			cls["key-ends-with-negative-tag"] = true
		}
		if last >= 40 {
			cls["key-uses-tags-above-40"] = true
		}
	}
	if c.SF != 1 {
		cls["siblings-sf!=1"] = true
	}
	out := make([]string, 0, len(cls))
	for k := range cls {
		out = append(out, k)
	}
	sort.Strings(out)
	return len(sent) >= 2, out
}

// ---------- generator ----------

func c02sGen() *rapid.Generator[c02sCase] {
	return rapid.Custom(func(t *rapid.T) c02sCase {
		c := c02sCase{
			Metric:      int32(rapid.IntRange(1, 1<<20).Draw(t, "metric")),
			Percentiles: rapid.IntRange(0, 3).Draw(t, "percentiles") == 0,
			BucketTime:  uint32(rapid.IntRange(BelieveTimestampWindow+10, 2_000_000_000).Draw(t, "bucketTime")),
			Seed:        rapid.Uint64().Draw(t, "seed"),
			AggHost:     rapid.SampledFrom([]vpRefHost{{I: 100}, {S: "agent-host"}}).Draw(t, "aggHost"),
			SF:          rapid.SampledFrom([]float64{1, 1, 1, 2, 2.5, 16}).Draw(t, "sf"),
		}
		if rapid.IntRange(0, 9).Draw(t, "negMetric") == 0 {
			c.Metric = -c.Metric - 1000
		}
		if rapid.IntRange(0, 3).Draw(t, "tsBack") == 0 {
			c.TsBack = uint32(rapid.IntRange(1, 3600).Draw(t, "tsBackV"))
		}
		// base key: a few leading tags, L = last used position (anywhere in 0..45, so L+1 <= 46)
		last := rapid.SampledFrom([]int{0, 1, 2, 3, 5, 15, 16, 31, 45}).Draw(t, "last")
		if rapid.IntRange(0, 3).Draw(t, "lastAny") == 0 {
			last = rapid.IntRange(0, 45).Draw(t, "lastV")
		}
		var base []c02Tag
		for i := 0; i < last; i++ {
			switch rapid.IntRange(0, 5).Draw(t, "baseKind") {
			case 0:
				base = append(base, c02Tag{Idx: i, I: int32(rapid.IntRange(1, 1000).Draw(t, "baseV"))})
			case 1:
				base = append(base, c02Tag{Idx: i, I: int32(-rapid.IntRange(1, 3).Draw(t, "baseNeg"))})
			case 2:
				base = append(base, c02Tag{Idx: i, S: rapid.SampledFrom([]string{"x", "y"}).Draw(t, "baseS")})
			}
		}
		tailVals := []int32{-2, -1, -1, 0, 0, 1, 2}
		pal := vpRefGenPalette(t)
		kinds := rapid.SampledFrom([][]int{{0}, {0, 1}, {1}, {0, 1, 2}}).Draw(t, "kinds")
		nrows := rapid.SampledFrom([]int{2, 2, 3, 3, 4, 6, 8}).Draw(t, "nRows")
		for ri := 0; ri < nrows; ri++ {
			r := c02sRow{Tags: append([]c02Tag(nil), base...)}
			// the last used position and the one after it: negative / zero(absent) / positive / string
			for d := 0; d < 2; d++ {
				switch rapid.IntRange(0, 5).Draw(t, "tailKind") {
				case 0, 1, 2, 3:
					if v := rapid.SampledFrom(tailVals).Draw(t, "tailV"); v != 0 {
						r.Tags = append(r.Tags, c02Tag{Idx: last + d, I: v})
					}
				case 4:
					r.Tags = append(r.Tags, c02Tag{Idx: last + d, S: rapid.SampledFrom([]string{"a", "b"}).Draw(t, "tailS")})
				}
			}
			ne := rapid.SampledFrom([]int{1, 1, 2, 3}).Draw(t, "nEvents")
			for i := 0; i < ne; i++ {
				e := c02Ev{Ev: vpRefGenEvent(t, pal, kinds, vpRefHosts, 6)}
				if rapid.IntRange(0, 4).Draw(t, "top") == 0 {
					e.Top = rapid.SampledFrom(c02Tops).Draw(t, "topV")
				}
				r.Events = append(r.Events, e)
			}
			c.Rows = append(c.Rows, r)
		}
		return c
	})
}

func TestVerifC02Siblings(t *testing.T) {
	ev := vpNewEv(t, "C02", "siblings")
	rapid.Check(t, func(rt *rapid.T) {
		c := c02sGen().Draw(rt, "case")
		vpRunCase(rt, "C02", "siblings", c, func() {
			nt, cls := c02sProp(rt, c)
			ev.Case(nt, c, cls...)
		})
	})
}

func init() {
	vpReplayers["C02/siblings"] = func(t vpT, raw json.RawMessage) {
		var c c02sCase
		if err := json.Unmarshal(raw, &c); err != nil {
			t.Fatalf("decode: %v", err)
		}
		c02sProp(t, c)
	}
}
