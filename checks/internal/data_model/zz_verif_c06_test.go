//go:build verif

package data_model

// C06 — sampling is fair: partitions within their share are never sampled.
//
// The real sampler runs once per case with the deterministic selection the statement speaks of
// (RoundF = floor, SelectF = floor(len/sf)). The oracle is an exact (math/big) water-filling model
// over the hierarchy of the case (vpsamp: namespace -> group -> metric -> fair key, partitions
// identified by id, fixed-budget metrics as partitions of their own):
//
//   at one level with budget B, children i with size s_i and weight w_i are taken by ascending
//   s_i/w_i; a child with s_i * W <= B * w_i (W, B = remaining weight / budget at its turn) is kept
//   whole and B -= s_i, W -= w_i; the first child that does not fit stops this, it and all later ones
//   get B*w_i/W. A child with a fixed budget F is whole iff s <= F and gets F otherwise; it neither
//   consumes nor receives anything from the level. A sampled child that is not a leaf distributes
//   floor(its budget) among its children in the same way.
//
// Asserted (only what the statement claims):
//   (a) whole bucket fits => every row kept with factor 1;
//   (b) a partition that the model keeps whole is kept whole (all rows KeepF, SF 1). The weakest
//       reading — size <= weight-proportional share of a lower bound of the parent's budget computed
//       from start-of-level shares only — is evaluated too; it must imply the model's verdict (self
//       check) and is named in the message;
//       (b') conversely a partition for which the model predicts a sampled, non-exempt leaf shows at
//       least one row with SF > 1 (it does not silently take more than its share);
//   (c) kept bytes <= budget: for the root, for every fixed-budget metric and for every sampled
//       partition against its model budget, when rows inside every leaf below it have equal sizes
//       (selection is by row count); always: rows kept in a sampled leaf <= len/sf;
//   (d) among non-fixed siblings: a whole partition never has a larger size/weight than a sampled
//       one; for sibling leaves the sample factor (the rows' common factor, halved when whales were
//       taken out, as documented in sampler.sample) is monotone in size/weight; the per-metric factor
//       reported through SampleFactorF is monotone in size/weight among sibling metrics;
//   (e) quota mode: see c06PropQuota.
// Rows kept unconditionally (active not-to-sample metric, SampleKeepSingle on a single-row leaf)
// are exempt from (b'), (c) and (d).

import (
	"encoding/json"
	"fmt"
	"math"
	"math/big"
	"os"
	"sort"
	"testing"

	"pgregory.net/rand"
	"pgregory.net/rapid"
)

type c06Case struct {
	S vpsampCase `json:"s"`
}

type c06Node struct {
	whole    bool     // model: kept entirely
	lbWhole  bool     // weakest reading of "fits its share" (see header)
	exempt   bool     // active not-to-sample metric that does not fit: kept anyway
	num, den *big.Int // budget when sampled
	sampled  bool     // model: not whole, not exempt, reached by the recursion
	expectSF bool     // model predicts at least one row with SF > 1 below
}

type c06Model struct {
	c     *vpsampCase
	nodes map[*vpsampPart]*c06Node
}

func c06Big(v int64) *big.Int { return big.NewInt(v) }

func (m *c06Model) node(p *vpsampPart) *c06Node {
	n := m.nodes[p]
	if n == nil {
		n = &c06Node{}
		m.nodes[p] = n
	}
	return n
}

// ratioLess: s_a/w_a < s_b/w_b
func c06RatioCmp(a, b *vpsampPart) int {
	l := new(big.Int).Mul(c06Big(a.Size), c06Big(b.Weight))
	r := new(big.Int).Mul(c06Big(b.Size), c06Big(a.Weight))
	return l.Cmp(r)
}

func (m *c06Model) markWhole(p *vpsampPart) {
	p.walk(func(q *vpsampPart) { m.node(q).whole = true })
}

func (m *c06Model) keepSingle(p *vpsampPart) bool {
	return m.c.Opt.KeepSingle && p.leaf() && len(p.Rows) == 1 && !m.c.Rows[p.Rows[0]].Pct
}

// fill distributes budget b among the children of p.
func (m *c06Model) fill(p *vpsampPart, b *big.Int) {
	var free []*vpsampPart
	for _, k := range p.Kids {
		n := m.node(k)
		if k.Fixed {
			if k.Size <= k.FixedB {
				m.markWhole(k)
			} else {
				n.num, n.den = c06Big(k.FixedB), c06Big(1)
			}
			continue
		}
		free = append(free, k)
	}
	sort.SliceStable(free, func(i, j int) bool { return c06RatioCmp(free[i], free[j]) < 0 })
	brem := new(big.Int).Set(b)
	wrem := new(big.Int)
	for _, k := range free {
		wrem.Add(wrem, c06Big(k.Weight))
	}
	i := 0
	for ; i < len(free); i++ {
		k := free[i]
		l := new(big.Int).Mul(c06Big(k.Size), wrem)
		r := new(big.Int).Mul(brem, c06Big(k.Weight))
		if l.Cmp(r) > 0 {
			break
		}
		m.markWhole(k)
		brem.Sub(brem, c06Big(k.Size))
		wrem.Sub(wrem, c06Big(k.Weight))
	}
	for ; i < len(free); i++ {
		k := free[i]
		n := m.node(k)
		n.num = new(big.Int).Mul(brem, c06Big(k.Weight))
		n.den = new(big.Int).Set(wrem)
	}
	for _, k := range p.Kids {
		n := m.node(k)
		if n.whole {
			continue
		}
		if k.NoSample && k.Level == "metric" {
			k.walk(func(q *vpsampPart) { m.node(q).exempt = true })
			continue
		}
		n.sampled = true
		if k.leaf() {
			n.expectSF = !m.keepSingle(k)
		} else {
			m.fill(k, new(big.Int).Div(n.num, n.den)) // floor, both non-negative
			for _, kk := range k.Kids {
				n.expectSF = n.expectSF || m.node(kk).expectSF
			}
		}
		if n.expectSF {
			m.node(p).expectSF = true
		}
	}
}

// lower bound reading: only start-of-level shares, floor at every level
func (m *c06Model) fillLB(p *vpsampPart, b *big.Int) {
	w := new(big.Int)
	for _, k := range p.Kids {
		if !k.Fixed {
			w.Add(w, c06Big(k.Weight))
		}
	}
	for _, k := range p.Kids {
		var num, den *big.Int
		if k.Fixed {
			num, den = c06Big(k.FixedB), c06Big(1)
		} else {
			num, den = new(big.Int).Mul(b, c06Big(k.Weight)), w
		}
		if new(big.Int).Mul(c06Big(k.Size), den).Cmp(num) <= 0 {
			k.walk(func(q *vpsampPart) { m.node(q).lbWhole = true })
			continue
		}
		if !k.leaf() {
			m.fillLB(k, new(big.Int).Div(num, den))
		}
	}
}

func c06RoundF(v float64, _ *rand.Rand) float64 { return math.Floor(v) }

func c06SelectF(s []SamplingMultiItemPair, sf float64, _ *rand.Rand) int {
	n := int(float64(len(s)) / sf)
	if n > len(s) {
		n = len(s)
	}
	if n < 0 {
		n = 0
	}
	return n
}

type c06Obs struct {
	whole    bool // every row KeepF with SF 1
	anyExmpt bool
	kept     int64 // bytes of kept, non-exempt rows
	keptRows int
	equal    bool // every leaf below has rows of one size
}

func c06Prop(t vpT, c c06Case) (nontrivial bool, classes []string) {
	s := &c.S
	if len(s.Rows) == 0 || s.Budget < 0 {
		return false, nil
	}
	h := vpsampNewHarness(s)
	root := s.tree()
	m := &c06Model{c: s, nodes: map[*vpsampPart]*c06Node{}}
	m.fill(root, c06Big(s.Budget))
	m.fillLB(root, c06Big(s.Budget))
	h.run(vpsampRunCfg{Rand: rand.New(1), RoundF: c06RoundF, SelectF: c06SelectF})

	for i := range s.Rows {
		o := h.Obs[i]
		if o.Keep+o.Discard != 1 {
			t.Fatalf("row %d got %d keep and %d discard calls", i, o.Keep, o.Discard)
		}
	}
	// exempt rows
	exempt := make([]bool, len(s.Rows))
	root.walk(func(p *vpsampPart) {
		n := m.node(p)
		if n.exempt || (n.sampled && m.keepSingle(p)) {
			for _, ri := range p.Rows {
				exempt[ri] = true
			}
		}
	})
	obs := map[*vpsampPart]*c06Obs{}
	root.walk(func(p *vpsampPart) {
		o := &c06Obs{whole: true, equal: true}
		for _, ri := range p.Rows {
			ob := h.Obs[ri]
			if ob.Keep != 1 || ob.SF != 1 {
				o.whole = false
			}
			if exempt[ri] {
				o.anyExmpt = true
			} else if ob.Keep == 1 {
				o.kept += int64(s.Rows[ri].Size)
				o.keptRows++
			}
		}
		obs[p] = o
	})
	var eq func(p *vpsampPart) bool
	eq = func(p *vpsampPart) bool {
		ok := true
		if p.leaf() {
			for _, ri := range p.Rows {
				ok = ok && s.Rows[ri].Size == s.Rows[p.Rows[0]].Size
			}
		}
		for _, k := range p.Kids {
			ok = eq(k) && ok
		}
		obs[p].equal = ok
		return ok
	}
	eq(root)
	describe := func(p *vpsampPart) string {
		n := m.node(p)
		b := "-"
		if n.num != nil {
			b = new(big.Rat).SetFrac(n.num, new(big.Int).Set(c06One(n.den))).FloatString(3)
		}
		return fmt.Sprintf("%s (size %d, weight %d, %d rows, model budget %s)", p.path(), p.Size, p.Weight, len(p.Rows), b)
	}
	firstBad := func(p *vpsampPart) string {
		for _, ri := range p.Rows {
			if ob := h.Obs[ri]; ob.Keep != 1 || ob.SF != 1 {
				return fmt.Sprintf("row %d (metric %d, size %d): kept=%v SF=%v", ri, s.Metrics[s.Rows[ri].M].ID, s.Rows[ri].Size, ob.Keep == 1, ob.SF)
			}
		}
		return ""
	}

	// (a)
	fitsAll := true
	var restSize int64
	for _, k := range root.Kids {
		if k.Fixed {
			fitsAll = fitsAll && k.Size <= k.FixedB
		} else {
			restSize += k.Size
		}
	}
	fitsAll = fitsAll && restSize <= s.Budget
	if fitsAll && !obs[root].whole {
		t.Fatalf("(a) the whole bucket fits (size %d, budget %d) but %s", restSize, s.Budget, firstBad(root))
	}
	// (b), (b')
	var sawWholeAndSampledSiblings, sawZeroBudget bool
	levelsWithTwo := 0
	root.walk(func(p *vpsampPart) {
		if p == root {
			return
		}
		n := m.node(p)
		if n.lbWhole && !n.whole && !n.exempt {
			t.Fatalf("MODEL SELF-CHECK: %s fits the start-of-level share but the model samples it", describe(p))
		}
		pn := m.node(p.Parent)
		if n.whole && (p.Parent == root || !pn.whole) { // top-most whole partition
			if !obs[p].whole {
				how := "fits its share at its turn of the water-filling"
				if n.lbWhole {
					how = "fits its weight-proportional share of the parent's budget even at the start of the level"
				}
				t.Fatalf("(b) partition %s %s but is not kept whole: %s", describe(p), how, firstBad(p))
			}
		}
	})
	root.walk(func(p *vpsampPart) {
		if n := m.node(p); p != root && n.sampled && n.expectSF && obs[p].whole {
			t.Fatalf("(b') partition %s exceeds its share but every row is kept with factor 1", describe(p))
		}
	})
	// (c)
	var keptFree int64
	for _, k := range root.Kids {
		if !k.Fixed {
			keptFree += obs[k].kept
		}
	}
	if obs[root].equal && keptFree > s.Budget {
		t.Fatalf("(c) kept %d bytes of non-exempt rows outside fixed-budget metrics, budget %d", keptFree, s.Budget)
	}
	root.walk(func(p *vpsampPart) {
		n := m.node(p)
		if !n.sampled {
			return
		}
		if n.num.Sign() == 0 {
			sawZeroBudget = true
		}
		if obs[p].equal {
			if new(big.Int).Mul(c06Big(obs[p].kept), n.den).Cmp(n.num) > 0 {
				t.Fatalf("(c) partition %s keeps %d bytes (rows of equal size per leaf)", describe(p), obs[p].kept)
			}
		}
		if p.leaf() && !m.keepSingle(p) {
			// rows kept <= len/sf = len*budget/size
			l := new(big.Int).Mul(c06Big(int64(obs[p].keptRows)), new(big.Int).Mul(n.den, c06Big(p.Size)))
			r := new(big.Int).Mul(c06Big(int64(len(p.Rows))), n.num)
			if l.Cmp(r) > 0 {
				t.Fatalf("(c) leaf %s keeps %d of %d rows, more than len/sf", describe(p), obs[p].keptRows, len(p.Rows))
			}
		}
	})
	// (d)
	reported := map[int32]float32{}
	for _, sf := range h.SFs {
		reported[sf.Metric] = sf.Value
	}
	leafSF := func(p *vpsampPart) (float64, bool) { // observed factor of a leaf partition
		if obs[p].anyExmpt {
			return 0, false
		}
		if obs[p].whole {
			return 1, true
		}
		v, whales := 0.0, false
		for _, ri := range p.Rows {
			sf := h.Obs[ri].SF
			if sf == 1 && h.Obs[ri].Keep == 1 {
				whales = true
				continue
			}
			if v != 0 && sf != v {
				t.Fatalf("(d) rows of leaf %s have different factors %v and %v", describe(p), v, sf)
			}
			v = sf
		}
		if whales {
			v /= 2
		}
		return v, true
	}
	// structural consequence of "a partition is all rows of one key": the rows of one sampled leaf are treated
	// as one partition, i.e. apart from whales they all carry one factor (a leaf cut into several partitions by
	// a broken row order gets several budgets and several factors)
	root.walk(func(p *vpsampPart) {
		if n := m.node(p); p != root && p.leaf() && n.sampled && !obs[p].anyExmpt {
			leafSF(p)
		}
	})
	root.walk(func(p *vpsampPart) {
		if p.leaf() || m.node(p).whole || m.node(p).exempt {
			return
		}
		var free []*vpsampPart
		for _, k := range p.Kids {
			if !k.Fixed && !obs[k].anyExmpt {
				free = append(free, k)
			}
		}
		if len(p.Kids) >= 2 {
			levelsWithTwo++
			w, sm := false, false
			for _, k := range p.Kids {
				w = w || m.node(k).whole
				sm = sm || (m.node(k).sampled && m.node(k).expectSF)
			}
			if w && sm {
				sawWholeAndSampledSiblings = true
			}
		}
		var pb *big.Int // budget the level distributes
		if p == root {
			pb = c06Big(s.Budget)
		} else {
			pb = new(big.Int).Div(m.node(p).num, m.node(p).den)
		}
		if pb.Sign() == 0 {
			sawZeroBudget = true
		}
		for _, a := range free {
			for _, b := range free {
				cmp := c06RatioCmp(a, b)
				if cmp > 0 || a == b {
					continue
				}
				// size/weight of a <= size/weight of b
				if obs[b].whole && !obs[a].whole {
					t.Fatalf("(d) %s is sampled while its sibling %s with a size/weight not smaller is kept whole", describe(a), describe(b))
				}
				if a.leaf() && b.leaf() {
					sa, oka := leafSF(a)
					sb, okb := leafSF(b)
					if oka && okb && (sa > sb || (cmp == 0 && sa != sb)) {
						t.Fatalf("(d) leaf %s has factor %v, sibling %s with size/weight not smaller has factor %v", describe(a), sa, describe(b), sb)
					}
				}
				if a.Level == "metric" && b.Level == "metric" && a.leaf() && b.leaf() {
					ra, oka := reported[int32(a.ID)]
					rb, okb := reported[int32(b.ID)]
					if !oka {
						ra = 1
					}
					if !okb {
						rb = 1
					}
					if (m.node(a).sampled || m.node(b).sampled) && ra > rb {
						t.Fatalf("(d) reported factor of metric %s is %v, of sibling %s with size/weight not smaller %v", describe(a), ra, describe(b), rb)
					}
				}
			}
		}
	})

	if fitsAll {
		classes = append(classes, "all-fit")
	}
	if root.wideLevel() {
		classes = append(classes, "level-values-over-2^31-apart")
	}
	if sawZeroBudget {
		classes = append(classes, "zero-budget-partition")
	}
	if sawWholeAndSampledSiblings {
		classes = append(classes, "whole-beside-sampled")
	}
	if levelsWithTwo >= 2 {
		classes = append(classes, "two-levels-with-two")
	}
	if obs[root].equal {
		classes = append(classes, "equal-row-sizes")
	}
	fixedOver, lbw := false, false
	root.walk(func(p *vpsampPart) {
		if p.Fixed && p.Size > p.FixedB {
			fixedOver = true
		}
		if p != root && m.node(p).lbWhole && !m.node(p.Parent).lbWhole && !fitsAll {
			lbw = true
		}
	})
	if fixedOver {
		classes = append(classes, "fixed-budget-exceeded")
	}
	if lbw {
		classes = append(classes, "fits-start-share")
	}
	for _, e := range exempt {
		if e {
			classes = append(classes, "exempt-rows")
			break
		}
	}
	return sawWholeAndSampledSiblings && levelsWithTwo >= 2, classes
}

func c06One(d *big.Int) *big.Int {
	if d.Sign() == 0 {
		return big.NewInt(1)
	}
	return d
}

func c06Gen() *rapid.Generator[c06Case] {
	maxRows := 200
	if os.Getenv("VERIF_TIER") == "thorough" {
		maxRows = 400
	}
	g := vpsampGen(vpsampGenCfg{MaxRows: maxRows, ZeroMode: true})
	return rapid.Custom(func(t *rapid.T) c06Case { return c06Case{S: g.Draw(t, "bucket")} })
}

func TestVerifC06Fair(t *testing.T) {
	ev := vpNewEv(t, "C06", "fair")
	rapid.Check(t, func(rt *rapid.T) {
		c := c06Gen().Draw(rt, "case")
		vpRunCase(rt, "C06", "fair", c, func() {
			nt, cls := c06Prop(rt, c)
			ev.Case(nt, c, cls...)
		})
	})
}

// ---------- (e) quota mode, as Aggregator.calcHostMetricBudgets configures the sampler ----------
//
// One row per (metric, host) with Size = the size the host reported; SampleF = SampleQuota,
// SampleKeys = false, no fixed budgets, real Meta. KeepF's third argument is the quota of the host.
//   (e1) the quotas of all hosts sum to at most the total budget;
//   (e2) inside one metric the quotas are proportional to the reported sizes: there is a constant c
//        with quota_i = floor(c*size_i) for every host (hosts without a quota count as 0);
//   (e3) c is the metric's share: quota_i = floor(budget_m * size_i / sum of sizes) with budget_m from
//        the water-filling model; a metric (or group, namespace) that fits its share gets quota = size;
//        the quotas of a sampled partition sum to at most its budget.
// The doubling of quotas of metrics that fit (quota*2 when originalSize <= quota) happens in the
// aggregator's KeepF wrapper and is outside this package.

func c06PropQuota(t vpT, c c06Case) (nontrivial bool, classes []string) {
	s := &c.S
	if len(s.Rows) == 0 || s.Budget < 1 {
		return false, nil
	}
	if s.Opt.Keys || s.Opt.Budgets || s.Opt.ModeAgent || s.Opt.KeepSingle || s.Opt.MetaNil {
		t.Fatalf("not a quota-mode case")
	}
	h := vpsampNewHarness(s)
	root := s.tree()
	m := &c06Model{c: s, nodes: map[*vpsampPart]*c06Node{}}
	m.fill(root, c06Big(s.Budget))
	h.run(vpsampRunCfg{Rand: rand.New(1), RoundF: c06RoundF, SelectF: c06SelectF, SampleF: SampleQuota})
	quota := make([]int64, len(s.Rows))
	var sum int64
	for i := range s.Rows {
		o := h.Obs[i]
		if o.Keep+o.Discard != 1 {
			t.Fatalf("row %d got %d keep and %d discard calls", i, o.Keep, o.Discard)
		}
		if o.Keep == 1 {
			if o.Quota < 1 {
				t.Fatalf("row %d kept with quota %d", i, o.Quota)
			}
			quota[i] = int64(o.Quota)
			sum += quota[i]
		}
	}
	if sum > s.Budget {
		t.Fatalf("(e1) quotas sum to %d, total budget %d", sum, s.Budget)
	}
	sawWhole, sawSampled, sawDiscard := false, false, false
	root.walk(func(p *vpsampPart) {
		n := m.node(p)
		if p == root {
			return
		}
		if n.whole && (p.Parent == root || !m.node(p.Parent).whole) {
			sawWhole = true
			for _, ri := range p.Rows {
				if quota[ri] != int64(s.Rows[ri].Size) {
					t.Fatalf("(e3/b) partition %s fits its share but host row %d of size %d got quota %d", p.path(), ri, s.Rows[ri].Size, quota[ri])
				}
			}
		}
		if n.sampled {
			var qs int64
			for _, ri := range p.Rows {
				qs += quota[ri]
			}
			if new(big.Int).Mul(c06Big(qs), n.den).Cmp(n.num) > 0 {
				t.Fatalf("(e3/c) quotas of partition %s sum to %d, above its budget %s/%s", p.path(), qs, n.num, n.den)
			}
		}
		if p.Level != "metric" {
			return
		}
		// (e2): intersection of [q_i/s_i, (q_i+1)/s_i) over hosts is not empty
		var loN, loD, hiN, hiD int64 = 0, 1, 0, 0
		for _, ri := range p.Rows {
			q, sz := quota[ri], int64(s.Rows[ri].Size)
			if new(big.Int).Mul(c06Big(q), c06Big(loD)).Cmp(new(big.Int).Mul(c06Big(loN), c06Big(sz))) > 0 {
				loN, loD = q, sz
			}
			if hiD == 0 || new(big.Int).Mul(c06Big(q+1), c06Big(hiD)).Cmp(new(big.Int).Mul(c06Big(hiN), c06Big(sz))) < 0 {
				hiN, hiD = q+1, sz
			}
		}
		if new(big.Int).Mul(c06Big(loN), c06Big(hiD)).Cmp(new(big.Int).Mul(c06Big(hiN), c06Big(loD))) >= 0 {
			t.Fatalf("(e2) quotas of metric %s are not proportional to sizes: need c >= %d/%d and c < %d/%d", p.path(), loN, loD, hiN, hiD)
		}
		if n.sampled {
			if len(p.Rows) >= 2 {
				sawSampled = true
			}
			for _, ri := range p.Rows {
				want := new(big.Int).Mul(n.num, c06Big(int64(s.Rows[ri].Size)))
				want.Div(want, new(big.Int).Mul(n.den, c06Big(p.Size)))
				if want.Cmp(c06Big(quota[ri])) != 0 {
					t.Fatalf("(e3) metric %s budget %s/%s size %d: host row %d of size %d got quota %d, want %s", p.path(), n.num, n.den, p.Size, ri, s.Rows[ri].Size, quota[ri], want)
				}
				if quota[ri] == 0 {
					sawDiscard = true
				}
			}
		}
	})
	if sawWhole {
		classes = append(classes, "whole-metric")
	}
	if sawSampled {
		classes = append(classes, "sampled-metric")
	}
	if sawDiscard {
		classes = append(classes, "host-without-quota")
	}
	return sawWhole && sawSampled, classes
}

func c06GenQuota() *rapid.Generator[c06Case] {
	g := vpsampGen(vpsampGenCfg{MaxRows: 150})
	return rapid.Custom(func(t *rapid.T) c06Case {
		c := g.Draw(t, "bucket")
		c.Opt = vpsampOpt{Namespaces: c.Opt.Namespaces, Groups: c.Opt.Groups}
		for i := range c.Metrics {
			c.Metrics[i].Budget = 0
			c.Metrics[i].FairKey = nil
			c.Metrics[i].NoSample = false
			if c.Metrics[i].Meta == vpsampMetaInline {
				c.Metrics[i].Meta = vpsampMetaStorage
			}
		}
		var total int64
		for i := range c.Rows {
			r := &c.Rows[i]
			r.Pct = false
			switch rapid.IntRange(0, 3).Draw(t, "host_size_class") {
			case 0:
				r.Size = rapid.IntRange(1, 100).Draw(t, "host_size")
			case 1:
				r.Size = rapid.IntRange(100, 5000).Draw(t, "host_size")
			case 2:
				r.Size = rapid.IntRange(5000, 300000).Draw(t, "host_size")
			default: // keep the size of the metric
			}
			total += int64(r.Size)
		}
		if rapid.IntRange(0, 9).Draw(t, "fits") == 0 {
			c.Budget = total + rapid.Int64Range(0, total).Draw(t, "extra")
		} else {
			c.Budget = total * rapid.Int64Range(5, 999).Draw(t, "permille") / 1000
		}
		if c.Budget < 1 {
			c.Budget = 1
		}
		if c.Budget > 1000000 {
			c.Budget = 1000000
		}
		return c06Case{S: c}
	})
}

func TestVerifC06Quota(t *testing.T) {
	ev := vpNewEv(t, "C06", "quota")
	rapid.Check(t, func(rt *rapid.T) {
		c := c06GenQuota().Draw(rt, "case")
		vpRunCase(rt, "C06", "quota", c, func() {
			nt, cls := c06PropQuota(rt, c)
			ev.Case(nt, c, cls...)
		})
	})
}

func init() {
	vpReplayers["C06/quota"] = func(t vpT, raw json.RawMessage) {
		var c c06Case
		if err := json.Unmarshal(raw, &c); err != nil {
			t.Fatalf("decode: %v", err)
		}
		c06PropQuota(t, c)
	}
	vpReplayers["C06/fair"] = func(t vpT, raw json.RawMessage) {
		var c c06Case
		if err := json.Unmarshal(raw, &c); err != nil {
			t.Fatalf("decode: %v", err)
		}
		c06Prop(t, c)
	}
}
