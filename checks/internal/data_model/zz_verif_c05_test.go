//go:build verif

package data_model

// C05 — sampling keeps the expected value of every row unchanged.
//
// The real sampler (real selectRandom, real roundSampleFactor) is run N times on the same bucket
// with N different generator seeds. Per run the deterministic part of the statement is checked
// (exactly one KeepF xor DiscardF per row, SF >= 1, a discarded row never has SF 1, not-to-sample
// metrics are kept with SF 1, a bucket that fits is kept entirely with SF 1). Over the N runs the
// statistical part is tested:
//
//   H0 (the statement): in every run, given the random budget roundings of that run (they fix the
//   factor SF_r the row is going to be reported with, whale or not), the row is kept with
//   probability exactly 1/SF_r, independently of the other rows and of the other runs.
//
// The sampler stores the factor in MultiItem.SF for kept *and* discarded rows, so SF_r is observed
// in every run. Put X_r = SF_r if kept, 0 if discarded, and Y_r = X_r - 1. Under H0, conditionally
// on the sequence (SF_r):  E Y_r = 0,  Var Y_r = (SF_r-1)^2/SF_r + (1-1/SF_r) = SF_r - 1,
// |Y_r| <= max(SF_r-1, 1) =: M_r, and the Y_r are independent. Bernstein's inequality for
// independent zero-mean variables bounded by M with total variance V:
//
//   P(|sum Y_r| >= t) <= 2 exp(-t^2 / (2 (V + M t / 3))).
//
// The right-hand side equals delta for t* = M L/3 + sqrt((M L/3)^2 + 2 L V), L = ln(2/delta).
// So a test "|sum Y_r| <= t*" with V = sum (SF_r - 1), M = max M_r computed from the observed
// factors has false-alarm probability <= delta under H0 *whatever the factors are* (no estimated
// variance, no normal approximation). The same bound is applied to sums over all rows of a leaf
// partition, over the whole bucket, to count-weighted sums (Y = c_i (X - 1)) and to keep frequencies
// (Y = 1[kept] - 1/SF_r, variance (1/SF_r)(1 - 1/SF_r), |Y| <= 1); rows are independent given the
// roundings because selectRandom draws one uniform number per row.
//
// Received values: every kept row additionally goes through the agent's real keepF conversion with its
// factor (TLMultiItemFromKey, MultiValueToTL(SF), WriteTL1 -> ReadTL1, MergeWithTL2 into an empty row;
// memoised per row and factor, the conversion is deterministic). With R = received count (sum,
// sumsquare) if kept and 0 if discarded and T = the true value (exact small integers: counter-only rows,
// one value, identical values plus counter-only weight, two different values), the statement says
// E R = T; under H0 R - T = T*(X - 1), so the same bound applies scaled by |T|: |sum (R - T)| <= |T| t*.
// A row kept with factor 1 must arrive exactly.
//
// delta = 1e-15 per test. A case runs at most 5*rows + 2*leaves + 7 <= ~2900 tests; a thorough run
// of 1e4 cases therefore has a false-alarm probability below 3e-8 (union bound), a quick run below
// 2e-9. The number of tests performed is reported in the evidence ("bernstein-tests").
// Idealisations: the generator's outputs for different seeds are treated as independent uniform
// numbers; r.Float64()*sf < 1 is treated as probability exactly 1/sf (error < 2^-52).
//
// Power: for a row reported with a constant factor f the threshold on |mean(X) - 1| is about
// sqrt(2 L (f-1)/N) + 2 L (f-1)/(3N): 0.16 for f = 2, 0.5 for f = 8 at N = 3000, and it shrinks
// with sqrt(rows) for the per-leaf and per-bucket sums. "SF reported before doubling" gives mean
// 0.5, "probability 1/sf reported as sf+1" gives 1 + 1/sf, "whales reported with SF f != 1" gives
// mean f with zero-variance: all far outside for the small factors the generator produces in most
// cases.

import (
	"encoding/json"
	"math"
	"os"
	"testing"

	"pgregory.net/rand"
	"pgregory.net/rapid"
)

type c05Case struct {
	S    vpsampCase `json:"s"`
	Seed uint64     `json:"seed"`
	N    int        `json:"n"`
}

const c05Delta = 1e-15

var c05L = math.Log(2 / c05Delta)

// c05Bound returns t* of the header comment.
func c05Bound(v, m float64) float64 {
	a := m * c05L / 3
	return a + math.Sqrt(a*a+2*c05L*v)
}

func c05Mix(seed uint64, i int) uint64 { // splitmix64 of (seed, i)
	z := seed + uint64(i+1)*0x9e3779b97f4a7c15
	z = (z ^ (z >> 30)) * 0xbf58476d1ce4e5b9
	z = (z ^ (z >> 27)) * 0x94d049bb133111eb
	return z ^ (z >> 31)
}

type c05Acc struct {
	s, v, m    float64 // sum (X-1), sum (SF-1), max max(SF-1,1)
	ks, kv     float64 // sum (1[kept]-1/SF), sum (1/SF)(1-1/SF)
	ws, wv, wm float64 // count-weighted
	n          int
}

func (a *c05Acc) add(kept bool, sf, w float64) {
	a.n++
	if sf == 1 {
		return // kept with factor 1 (checked by the caller): X - 1 = 0 surely
	}
	x := 0.0
	k := 0.0
	if kept {
		x = sf
		k = 1
	}
	a.s += x - 1
	a.v += sf - 1
	m := math.Max(sf-1, 1)
	a.m = math.Max(a.m, m)
	a.ks += k - 1/sf
	a.kv += (1 / sf) * (1 - 1/sf)
	a.ws += w * (x - 1)
	a.wv += w * w * (sf - 1)
	a.wm = math.Max(a.wm, w*m)
}

func (a *c05Acc) merge(b *c05Acc) {
	a.s += b.s
	a.v += b.v
	a.m = math.Max(a.m, b.m)
	a.ks += b.ks
	a.kv += b.kv
	a.ws += b.ws
	a.wv += b.wv
	a.wm = math.Max(a.wm, b.wm)
	a.n += b.n
}

func c05Prop(t vpT, c c05Case) (nontrivial bool, classes []string, tests int) {
	s := &c.S
	if c.N < 1 || len(s.Rows) == 0 {
		return false, nil, 0
	}
	h := vpsampNewHarness(s)
	root := s.tree()
	var leaves []*vpsampPart
	root.walk(func(p *vpsampPart) {
		if p.leaf() && p != root {
			leaves = append(leaves, p)
		}
	})
	// "if the whole bucket fits": every fixed-budget metric fits its own budget and the rest fits the budget
	fitsAll := true
	var restSize int64
	for _, k := range root.Kids {
		if k.Fixed {
			fitsAll = fitsAll && k.Size <= k.FixedB
		} else {
			restSize += k.Size
		}
	}
	fitsAll = fitsAll && restSize <= s.Budget
	rows := make([]c05Acc, len(s.Rows))
	truth := make([]vpsampTruth, len(s.Rows))
	recvCache := make([]map[float64]vpsampTruth, len(s.Rows))
	recvDev := make([][3]float64, len(s.Rows)) // sum over runs of received - true: count, sum, sumsquare
	for i := range s.Rows {
		truth[i] = s.Rows[i].truth()
	}
	sawIdentExtra := false
	sawWhale, sawSampled, sawBigSF, sawNoSample := false, false, false, false
	for r := 0; r < c.N; r++ {
		seed := c05Mix(c.Seed, r)
		h.run(vpsampRunCfg{Rand: rand.New(seed)})
		for i := range s.Rows {
			o := h.Obs[i]
			row := &s.Rows[i]
			if o.Keep+o.Discard != 1 {
				t.Fatalf("run %d (seed %d): row %d (metric %d) got %d keep and %d discard calls, want exactly one call", r, seed, i, s.Metrics[row.M].ID, o.Keep, o.Discard)
			}
			if row.Size < 1 {
				if o.Keep != 0 {
					t.Fatalf("run %d: row %d of size %d was kept", r, i, row.Size)
				}
				continue
			}
			// the only documented "never kept" factor is MaxFloat32 (Size < 1 in Add, no quota in quota mode): a
			// row that goes through sampling is kept with probability 1/SF > 0, so its factor is a finite number
			if math.IsInf(o.SF, 0) || math.IsNaN(o.SF) {
				t.Fatalf("run %d (seed %d): row %d (metric %d, size %d) reported with factor %v (kept=%v): keep probability 1/SF must be positive", r, seed, i, s.Metrics[row.M].ID, row.Size, o.SF, o.Keep == 1)
			}
			if !(o.SF >= 1) {
				t.Fatalf("run %d (seed %d): row %d (metric %d) reported with sample factor %v < 1 (kept=%v)", r, seed, i, s.Metrics[row.M].ID, o.SF, o.Keep == 1)
			}
			if o.Discard == 1 && o.SF == 1 {
				t.Fatalf("run %d (seed %d): row %d discarded although its factor is 1 (keep probability 1)", r, seed, i)
			}
			if s.noSampleActive(row.M) {
				sawNoSample = true
				if o.Keep != 1 || o.SF != 1 {
					t.Fatalf("run %d (seed %d): row %d of not-to-sample metric %d: kept=%v SF=%v, want kept with factor 1", r, seed, i, s.Metrics[row.M].ID, o.Keep == 1, o.SF)
				}
			}
			if fitsAll && (o.Keep != 1 || o.SF != 1) {
				t.Fatalf("run %d (seed %d): bucket fits the budget but row %d: kept=%v SF=%v", r, seed, i, o.Keep == 1, o.SF)
			}
			if o.SF > 64 {
				sawBigSF = true
			}
			rows[i].add(o.Keep == 1, o.SF, row.Whale+1)
			tr := truth[i]
			if o.Keep != 1 {
				recvDev[i][0] -= tr.Count
				recvDev[i][1] -= tr.Sum
				recvDev[i][2] -= tr.SumSq
				continue
			}
			rc, ok := recvCache[i][o.SF]
			if !ok {
				rc = h.received(t, i, o.SF)
				if recvCache[i] == nil {
					recvCache[i] = map[float64]vpsampTruth{}
				}
				if len(recvCache[i]) < 64 {
					recvCache[i][o.SF] = rc
				}
			}
			if rc.ValueSet != tr.ValueSet {
				t.Fatalf("run %d (seed %d): row %d (shape %d) sent with factor %v arrives with ValueSet=%v", r, seed, i, row.Shape, o.SF, rc.ValueSet)
			}
			if o.SF == 1 && (rc.Count != tr.Count || rc.Sum != tr.Sum || rc.SumSq != tr.SumSq) {
				t.Fatalf("run %d (seed %d): row %d (shape %d) kept with factor 1 arrives as count %v sum %v sumsquare %v, true %v %v %v", r, seed, i, row.Shape, rc.Count, rc.Sum, rc.SumSq, tr.Count, tr.Sum, tr.SumSq)
			}
			recvDev[i][0] += rc.Count - tr.Count
			recvDev[i][1] += rc.Sum - tr.Sum
			recvDev[i][2] += rc.SumSq - tr.SumSq
			if row.Shape == vpsampShapeIdentical && o.SF > 1 {
				sawIdentExtra = true
			}
		}
		for _, sf := range h.SFs {
			if v := float64(sf.Value); math.IsInf(v, 0) || math.IsNaN(v) {
				t.Fatalf("run %d (seed %d): factor %v reported for metric %d", r, seed, v, sf.Metric)
			}
		}
		if !sawWhale || !sawSampled {
			for _, lf := range leaves {
				one, more := false, false
				for _, ri := range lf.Rows {
					if h.Obs[ri].SF == 1 {
						one = true
					} else {
						more = true
					}
				}
				sawSampled = sawSampled || more
				sawWhale = sawWhale || (one && more)
			}
		}
	}
	// ---- statistical clause
	check := func(what string, sum, v, m float64, n int) {
		tests++
		if math.IsInf(v, 0) || math.IsNaN(v) || math.IsInf(m, 0) || math.IsNaN(m) {
			t.Fatalf("%s: variance bound %v / magnitude bound %v not finite: the test would be vacuous", what, v, m)
		}
		if v == 0 {
			if sum != 0 {
				t.Fatalf("%s: deviation %v with zero variance", what, sum)
			}
			return
		}
		if bound := c05Bound(v, m); math.Abs(sum) > bound || math.IsNaN(sum) {
			t.Fatalf("%s: sum of deviations over %d runs x %d rows = %.6g (mean %.4g per row and run), Bernstein bound at delta=1e-15 is %.6g (V=%.6g M=%.6g); base seed %d",
				what, c.N, n/c.N, sum, sum/float64(n), bound, v, m, c.Seed)
		}
	}
	checkScaled := func(what string, dev, scale, v, m float64, n int) {
		tests++
		if math.IsInf(v, 0) || math.IsNaN(v) || math.IsNaN(dev) {
			t.Fatalf("%s: not finite (dev %v, V %v)", what, dev, v)
		}
		bound := scale*c05Bound(v, m) + 1e-9*scale*float64(n) // + float rounding of received values
		if v == 0 {
			bound = 1e-9 * scale * float64(n)
		}
		if math.Abs(dev) > bound {
			t.Fatalf("%s: received minus true summed over %d runs = %.6g (%.4g of the true value per run), Bernstein bound at delta=1e-15 is %.6g (true value %v, V=%.6g M=%.6g); base seed %d",
				what, c.N, dev, dev/scale/float64(c.N), bound, scale, v, m, c.Seed)
		}
	}
	stat := [3]string{"count", "sum", "sumsquare"}
	var all c05Acc
	var allDev, allV, allM [3]float64
	for i := range rows {
		if s.Rows[i].Size < 1 {
			continue
		}
		a := &rows[i]
		for k, tv := range [3]float64{truth[i].Count, truth[i].Sum, truth[i].SumSq} {
			sc := math.Abs(tv)
			checkScaled("E[received "+stat[k]+"]=true "+stat[k]+" of row "+vpsampItoa(int64(i))+" (shape "+vpsampItoa(int64(s.Rows[i].Shape))+", metric "+vpsampItoa(int64(s.Metrics[s.Rows[i].M].ID))+")",
				recvDev[i][k], sc, a.v, a.m, a.n)
			allDev[k] += recvDev[i][k]
			allV[k] += sc * sc * a.v
			allM[k] = math.Max(allM[k], sc*a.m)
		}
		check("E[kept*SF]=1 of row "+vpsampItoa(int64(i))+" (metric "+vpsampItoa(int64(s.Metrics[s.Rows[i].M].ID))+")", a.s, a.v, a.m, a.n)
		check("P(keep)=1/SF of row "+vpsampItoa(int64(i)), a.ks, a.kv, 1, a.n)
	}
	for _, lf := range leaves {
		var g c05Acc
		for _, ri := range lf.Rows {
			g.merge(&rows[ri])
		}
		check("E[kept*SF]=1 over leaf "+lf.path(), g.s, g.v, g.m, g.n)
		check("P(keep)=1/SF over leaf "+lf.path(), g.ks, g.kv, 1, g.n)
		all.merge(&g)
	}
	check("E[kept*SF]=1 over the bucket", all.s, all.v, all.m, all.n)
	check("P(keep)=1/SF over the bucket", all.ks, all.kv, 1, all.n)
	check("count-weighted E[kept*SF*count]=count over the bucket", all.ws, all.wv, all.wm, all.n)
	for k := range stat {
		checkScaled("E[received "+stat[k]+"]=true "+stat[k]+" over the bucket", allDev[k], 1, allV[k], allM[k], all.n)
	}
	if sawIdentExtra {
		classes = append(classes, "kept-identical-values-extra-count")
	}

	if sawSampled {
		classes = append(classes, "sampled-leaf")
	}
	if sawWhale {
		classes = append(classes, "whale")
	}
	if sawBigSF {
		classes = append(classes, "sf-above-64")
	}
	if sawNoSample {
		classes = append(classes, "nosample-active")
	}
	if fitsAll {
		classes = append(classes, "all-fit")
	}
	if root.wideLevel() {
		classes = append(classes, "level-values-over-2^31-apart")
	}
	if s.Budget == 0 && len(root.Rows) > 0 {
		classes = append(classes, "zero-budget-at-sampled-level")
	} else if s.Budget <= 4 && len(root.Kids) > 0 && !root.Kids[len(root.Kids)-1].leaf() {
		classes = append(classes, "tiny-budget-nested")
	}
	for _, k := range root.Kids {
		if k.Fixed {
			classes = append(classes, "fixed-budget")
			if k.Size > k.FixedB {
				classes = append(classes, "fixed-budget-exceeded")
			}
			break
		}
	}
	if len(root.Kids) > 0 && !root.Kids[len(root.Kids)-1].leaf() {
		classes = append(classes, "multi-level")
	}
	return sawSampled && sawWhale, classes, tests
}

func c05Gen() *rapid.Generator[c05Case] {
	ns := []int{1500, 3000}
	maxRows := 200
	if os.Getenv("VERIF_TIER") == "thorough" {
		ns = []int{3000, 10000}
		maxRows = 400
	}
	g := vpsampGen(vpsampGenCfg{MaxRows: maxRows, ZeroSize: true, ZeroMode: true})
	return rapid.Custom(func(t *rapid.T) c05Case {
		c := c05Case{S: g.Draw(t, "bucket"), Seed: rapid.Uint64().Draw(t, "seed"), N: rapid.SampledFrom(ns).Draw(t, "runs")}
		if c.S.Budget <= 4 && len(c.S.Rows) <= 8 {
			// zero-budget mode: the legitimate fallback factor is 28..~250, keep probabilities are small; the
			// tiny bucket makes many more runs affordable (power against "kept less often than 1/SF")
			c.N = ns[len(ns)-1] * 7
		}
		return c
	})
}

func TestVerifC05Unbiased(t *testing.T) {
	ev := vpNewEv(t, "C05", "unbiased")
	var tests int64
	rapid.Check(t, func(rt *rapid.T) {
		c := c05Gen().Draw(rt, "case")
		vpRunCase(rt, "C05", "unbiased", c, func() {
			nt, cls, n := c05Prop(rt, c)
			tests += int64(n)
			ev.Case(nt, c, cls...)
		})
	})
	ev.Class("bernstein-tests", tests)
	ev.Extra("false_alarm_bound", float64(tests)*c05Delta)
}

func init() {
	vpReplayers["C05/unbiased"] = func(t vpT, raw json.RawMessage) {
		var c c05Case
		if err := json.Unmarshal(raw, &c); err != nil {
			t.Fatalf("decode: %v", err)
		}
		c05Prop(t, c)
	}
}
