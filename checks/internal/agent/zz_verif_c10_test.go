//go:build verif

package agent

import (
	"encoding/json"
	"fmt"
	"testing"

	"pgregory.net/rapid"

	"github.com/VKCOM/statshouse/internal/data_model"
	"github.com/VKCOM/statshouse/internal/format"
)

// ---------- C10 (1b): Agent.shard — primary within the configured shards, secondary differs from primary ----------

type c10AgentShardCase struct {
	NumShards      int      `json:"num_shards"`
	ByMetricShards int      `json:"by_metric"` // resolved (1..NumShards), what the aggregator sends to agents
	Strategy       string   `json:"strategy"`
	ShardNum       uint32   `json:"shard_num"`
	FixedKey       uint32   `json:"fixed_key"`
	FixedKey2      uint32   `json:"fixed_key2"`
	FixedKey2Ts    uint32   `json:"fixed_key2_ts"`
	MetricID       int32    `json:"metric"`
	Tags           [][2]int `json:"tags"` // (index, value)
	STag           string   `json:"stag"`
	T1             uint32   `json:"t1"`
	T2             uint32   `json:"t2"`
}

func c10AgentWithShards(n int, byMetric int) *Agent {
	a := &Agent{shardByMetricCount: uint32(byMetric)}
	for i := 0; i < n; i++ {
		a.Shards = append(a.Shards, &Shard{ShardNum: i, ShardKey: int32(i) + 1})
	}
	return a
}

func c10PropAgentShard(t vpT, c c10AgentShardCase) (nontrivial bool, classes []string) {
	if c.NumShards < 1 || c.ByMetricShards < 1 || c.ByMetricShards > c.NumShards {
		t.Fatalf("bad case %+v", c)
	}
	a := c10AgentWithShards(c.NumShards, c.ByMetricShards)
	meta := &format.MetricMetaValue{MetricID: c.MetricID, Name: "m", ShardStrategy: c.Strategy, ShardNum: c.ShardNum,
		ShardFixedKey: c.FixedKey, ShardFixedKey2: c.FixedKey2, ShardFixedKey2Timestamp: c.FixedKey2Ts}
	mk := func(ts uint32) data_model.Key {
		k := data_model.Key{Timestamp: ts, Metric: c.MetricID}
		for _, tv := range c.Tags {
			if tv[0] >= 0 && tv[0] < format.MaxTags {
				k.Tags[tv[0]] = int32(tv[1])
			}
		}
		k.STags[format.MaxTags-1] = c.STag
		return k
	}
	index := func(s *Shard) int {
		for i, x := range a.Shards {
			if x == s {
				return i
			}
		}
		return -1
	}
	k1, k2 := mk(c.T1), mk(c.T2)
	var scratch []byte
	sh1, ok1, sh2 := a.shard(&k1, meta, &scratch)
	sh1b, ok1b, sh2b := a.shard(&k2, meta, nil)
	if sh1 == nil {
		t.Fatalf("nil primary shard")
	}
	i1 := index(sh1)
	if i1 < 0 {
		t.Fatalf("primary shard is not one of the %d configured shards", c.NumShards)
	}
	if sh1b != sh1 || ok1b != ok1 || sh2b != sh2 {
		t.Fatalf("shard choice depends on timestamp: t=%d -> (%d,%v,%v) t=%d -> (%d,%v,%v)", c.T1, i1, ok1, sh2 != nil, c.T2, index(sh1b), ok1b, sh2b != nil)
	}
	// reference
	want, wantOK := 0, false
	kind := "other"
	switch {
	case c.FixedKey > 0:
		kind = "fixed-key"
		if c.FixedKey-1 < uint32(c.NumShards) {
			want, wantOK = int(c.FixedKey-1), true
		}
	case c.Strategy == format.ShardFixed:
		kind = "fixed"
		if c.ShardNum < uint32(c.NumShards) {
			want, wantOK = int(c.ShardNum), true
		}
	case c.Strategy == format.ShardByMetricID:
		kind = "by-metric"
		want, wantOK = int(uint32(c.MetricID)%uint32(c.ByMetricShards)), true
	case c.Strategy == format.ShardByTagsHash:
		kind = "tags-hash"
		want, wantOK = i1, true
		if i1 >= c.ByMetricShards {
			t.Fatalf("tags-hash shard %d outside of shard-by-metric count %d", i1, c.ByMetricShards)
		}
	}
	classes = append(classes, kind)
	if ok1 != wantOK || i1 != want {
		t.Fatalf("%s: got shard %d ok=%v, reference %d ok=%v", kind, i1, ok1, want, wantOK)
	}
	if !ok1 {
		classes = append(classes, "not-ok")
	}
	// secondary shard
	if sh2 != nil {
		classes = append(classes, "secondary")
		i2 := index(sh2)
		if i2 < 0 {
			t.Fatalf("secondary shard is not one of the configured shards")
		}
		if sh2 == sh1 {
			t.Fatalf("secondary shard %d equals primary", i2)
		}
		if c.FixedKey2 == 0 || uint32(i2) != c.FixedKey2-1 {
			t.Fatalf("secondary shard %d but configured shard2=%d", i2, c.FixedKey2)
		}
	} else if c.FixedKey2 > 0 && c.FixedKey2-1 < uint32(c.NumShards) && int(c.FixedKey2-1) != i1 {
		t.Fatalf("secondary shard %d configured and valid, but not returned (primary %d)", c.FixedKey2-1, i1)
	}
	if c.FixedKey2 > 0 && sh2 == nil {
		classes = append(classes, "secondary-suppressed")
	}
	nontrivial = c.NumShards > 1 && (kind == "tags-hash" || sh2 != nil || c.FixedKey2 > 0)
	return nontrivial, classes
}

func c10GenAgentShard() *rapid.Generator[c10AgentShardCase] {
	strategies := []string{format.ShardByTagsHash, format.ShardFixed, format.ShardByMetricID, format.ShardBuiltinDist}
	return rapid.Custom(func(t *rapid.T) c10AgentShardCase {
		var c c10AgentShardCase
		c.NumShards = rapid.IntRange(1, 64).Draw(t, "n")
		if rapid.Bool().Draw(t, "full") {
			c.ByMetricShards = c.NumShards
		} else {
			c.ByMetricShards = rapid.IntRange(1, c.NumShards).Draw(t, "s")
		}
		c.Strategy = strategies[rapid.IntRange(0, 6).Draw(t, "strat")%len(strategies)]
		small := func(label string) uint32 {
			switch rapid.IntRange(0, 5).Draw(t, label+"k") {
			case 0:
				return uint32(c.NumShards) + uint32(rapid.IntRange(-1, 2).Draw(t, label+"d"))
			case 1:
				return rapid.Uint32().Draw(t, label+"u")
			default:
				return uint32(rapid.IntRange(0, c.NumShards+1).Draw(t, label))
			}
		}
		c.ShardNum = small("shardnum")
		if rapid.IntRange(0, 3).Draw(t, "fk") == 0 {
			c.FixedKey = small("fixedkey")
		}
		if rapid.IntRange(0, 1).Draw(t, "fk2") == 0 {
			c.FixedKey2 = small("fixedkey2")
			c.FixedKey2Ts = rapid.Uint32().Draw(t, "fk2ts")
		}
		if rapid.Bool().Draw(t, "mk") {
			c.MetricID = rapid.Int32().Draw(t, "metric")
		} else {
			c.MetricID = int32(rapid.IntRange(1, 100000).Draw(t, "metric"))
		}
		nt := rapid.IntRange(0, 4).Draw(t, "ntags")
		for i := 0; i < nt; i++ {
			c.Tags = append(c.Tags, [2]int{rapid.IntRange(0, format.MaxTags-1).Draw(t, "ti"), int(rapid.Int32().Draw(t, "tv"))})
		}
		if rapid.IntRange(0, 3).Draw(t, "st") == 0 {
			c.STag = rapid.StringMatching(`[a-z]{1,8}`).Draw(t, "stag")
		}
		c.T1 = rapid.Uint32().Draw(t, "t1")
		c.T2 = rapid.Uint32().Draw(t, "t2")
		return c
	})
}

func TestVerifC10AgentShard(t *testing.T) {
	ev := vpNewEv(t, "C10", "agent-shard")
	rapid.Check(t, func(rt *rapid.T) {
		c := c10GenAgentShard().Draw(rt, "case")
		vpRunCase(rt, "C10", "agent-shard", c, func() {
			nt, cls := c10PropAgentShard(rt, c)
			ev.Case(nt, c, cls...)
		})
	})
}

// ---------- C10 (2): primary / spare replica of a second ----------

type c10ReplicaCase struct {
	NumShards int    `json:"num_shards"`
	ShardNum  int    `json:"shard"`
	Mask      int    `json:"mask"`   // alive mask of the three replicas of ShardNum (bit i = replica i alive)
	Others    uint64 `json:"others"` // alive bits of all other replicas (must not matter)
	T         uint32 `json:"t"`      // first second of a window of 6 consecutive seconds
}

func c10AgentWithReplicas(numShards int) *Agent {
	a := &Agent{}
	for i := 0; i < numShards*3; i++ {
		a.ShardReplicas = append(a.ShardReplicas, &ShardReplica{ShardReplicaNum: i, ShardKey: int32(i/3) + 1, ReplicaKey: int32(i%3) + 1})
	}
	return a
}

func (c c10ReplicaCase) apply(a *Agent, mask int) {
	for i, r := range a.ShardReplicas {
		if i/3 == c.ShardNum {
			r.alive.Store(mask&(1<<(i%3)) != 0)
		} else {
			r.alive.Store(c.Others&(1<<(uint(i)%64)) != 0)
		}
	}
}

// c10PropReplica checks 6 consecutive seconds starting at c.T.
func c10PropReplica(t vpT, c c10ReplicaCase) (nontrivial bool, classes []string) {
	if c.NumShards < 1 || c.ShardNum < 0 || c.ShardNum >= c.NumShards || c.Mask < 0 || c.Mask > 7 {
		t.Fatalf("bad case %+v", c)
	}
	a := c10AgentWithReplicas(c.NumShards)
	local := func(r *ShardReplica) int { // replica index inside the shard, -1 if the replica belongs to another shard
		for i, x := range a.ShardReplicas {
			if x == r {
				if i/3 != c.ShardNum {
					return -1
				}
				return i % 3
			}
		}
		return -1
	}
	pairs := map[[2]int]int{}
	for d := uint32(0); d < 6; d++ {
		ts := c.T + d // may wrap around, fine
		p := int(ts % 3)
		// who is the spare of this second: ask with only the primary dead
		c.apply(a, 7&^(1<<p))
		r, spare := a.getShardReplicaForSecond(c.ShardNum, ts)
		if r == nil || !spare {
			t.Fatalf("t=%d primary %d dead, others alive: got replica=%v spare=%v", ts, p, r != nil, spare)
		}
		s := local(r)
		if s < 0 {
			t.Fatalf("t=%d: spare belongs to another shard", ts)
		}
		if s == p {
			t.Fatalf("t=%d: spare %d equals primary", ts, s)
		}
		pairs[[2]int{p, s}]++
		// now the drawn alive mask
		c.apply(a, c.Mask)
		r, spare = a.getShardReplicaForSecond(c.ShardNum, ts)
		switch {
		case c.Mask&(1<<p) != 0:
			if r == nil || spare || local(r) != p {
				t.Fatalf("t=%d mask=%03b: primary %d alive, got replica %v spare=%v", ts, c.Mask, p, r, spare)
			}
		case c.Mask&(1<<s) != 0:
			if r == nil || !spare || local(r) != s {
				t.Fatalf("t=%d mask=%03b: primary %d dead, spare %d alive, got %v spare=%v", ts, c.Mask, p, s, r, spare)
			}
		default:
			if r != nil || spare {
				t.Fatalf("t=%d mask=%03b: primary %d and spare %d dead, got %v spare=%v", ts, c.Mask, p, s, r, spare)
			}
		}
	}
	// within any 6 consecutive seconds each primary occurs twice and both other replicas serve as its spare
	if c.T <= ^uint32(0)-6 { // 2^32 is not a multiple of 3: skip the window that wraps around
		for p := 0; p < 3; p++ {
			for s := 0; s < 3; s++ {
				if s != p && pairs[[2]int{p, s}] != 1 {
					t.Fatalf("window t=%d..+5: primary %d / spare %d used %d times, want 1 (pairs %v)", c.T, p, s, pairs[[2]int{p, s}], pairs)
				}
			}
		}
	} else {
		classes = append(classes, "wraparound")
	}
	switch {
	case c.Mask == 7:
		classes = append(classes, "all-alive")
	case c.Mask == 0:
		classes = append(classes, "all-dead")
	default:
		classes = append(classes, "some-dead")
	}
	return c.Mask != 7, classes
}

// exhaustive: all 8 alive masks × every window start t in [0, 600) × shard position {first, middle, last} of 3 shards
func TestVerifC10ReplicaGrid(t *testing.T) {
	ev := vpNewEv(t, "C10", "replica-grid")
	n := 0
	for shard := 0; shard < 3; shard++ {
		for mask := 0; mask < 8; mask++ {
			for ts := uint32(0); ts < 600; ts++ {
				c := c10ReplicaCase{NumShards: 3, ShardNum: shard, Mask: mask, Others: uint64(ts) * 0x9e3779b97f4a7c15, T: ts}
				vpRunCase(t, "C10", "replica", c, func() {
					nt, cls := c10PropReplica(t, c)
					if ts%97 == 0 {
						ev.Case(nt, fmt.Sprintf("%d/%d/%d", shard, mask, ts), cls...)
					} else {
						ev.Case(false, "", cls...)
					}
				})
				n++
			}
		}
	}
	ev.Extra("grid_points", n)
}

func TestVerifC10Replica(t *testing.T) {
	ev := vpNewEv(t, "C10", "replica")
	rapid.Check(t, func(rt *rapid.T) {
		var c c10ReplicaCase
		c.NumShards = rapid.IntRange(1, 21).Draw(rt, "n")
		c.ShardNum = rapid.IntRange(0, c.NumShards-1).Draw(rt, "shard")
		c.Mask = rapid.IntRange(0, 7).Draw(rt, "mask")
		c.Others = rapid.Uint64().Draw(rt, "others")
		switch rapid.IntRange(0, 3).Draw(rt, "tk") {
		case 0:
			c.T = ^uint32(0) - uint32(rapid.IntRange(0, 12).Draw(rt, "tend"))
		case 1:
			c.T = uint32(rapid.IntRange(1_600_000_000, 1_900_000_000).Draw(rt, "tnow"))
		default:
			c.T = rapid.Uint32().Draw(rt, "t")
		}
		vpRunCase(rt, "C10", "replica", c, func() {
			nt, cls := c10PropReplica(rt, c)
			ev.Case(nt, c, cls...)
		})
	})
}

func init() {
	vpReplayers["C10/agent-shard"] = func(t vpT, raw json.RawMessage) {
		var c c10AgentShardCase
		if err := json.Unmarshal(raw, &c); err != nil {
			t.Fatalf("decode: %v", err)
		}
		c10PropAgentShard(t, c)
	}
	vpReplayers["C10/replica"] = func(t vpT, raw json.RawMessage) {
		var c c10ReplicaCase
		if err := json.Unmarshal(raw, &c); err != nil {
			t.Fatalf("decode: %v", err)
		}
		c10PropReplica(t, c)
	}
}
