//go:build verif

package agent

import (
	"encoding/json"
	"fmt"
	"math"
	"sort"
	"strconv"
	"strings"
	"sync"
	"testing"
	"time"

	"pgregory.net/rand"
	"pgregory.net/rapid"

	"github.com/VKCOM/statshouse/internal/data_model"
	"github.com/VKCOM/statshouse/internal/data_model/gen2/tl"
	"github.com/VKCOM/statshouse/internal/data_model/gen2/tlstatshouse"
	"github.com/VKCOM/statshouse/internal/format"
	"github.com/VKCOM/statshouse/internal/pcache"
)

// ---------- C08: every accepted event lands in exactly one correct send second ----------
//
// Built like Test_AgentQueue: literal Agent/Shard, fake clock through goFlushIteration(now), buckets
// observed on Shard.BucketsToPreprocess. Events enter the way cmd/statshouse's worker feeds them:
// fillTime/fillMetricMeta (re-done here, the worker lives in package main), Agent.Map, Agent.ApplyMetric.
//
// Every event i of a history carries counter 2^i, so the count of any row decodes to the exact set of
// events merged into it: "exactly one bucket" is decided per event, not per sum.

const (
	c08T0        = 1000 * 24 * 3600
	c08RingLen   = 128 // ring of per-second buckets
	c08Future    = 3   // seconds an event may be ahead of the shard clock before it is clamped
	c08MaxEvents = 50   // per series: event j of a series carries counter 2^j
	c08MaxTotal  = 2500 // events per history
	// An event must fit into the ring for every resolution (up to 60 s: rounded ts + 60 + 0..59) and every
	// allowed future offset: CurrentTime+3+119 <= SendTime+127. Beyond that the receive queue "has a gap".
	c08GapLimit = c08RingLen - 1 - c08Future - 119
)

type c08Tag struct {
	I     int `json:"i"`     // tag index
	V     int `json:"v"`     // value index in the pool
	Alias int `json:"alias"` // 0: "N", 1: custom name (if the metric has one), 2: legacy "keyN"
	Bad   int `json:"bad,omitempty"` // >0 and the tag is raw: send text #Bad that is not a number; the tag must stay unset (warning only)
}

type c08Ev struct {
	M     int      `json:"m"`
	Tags  []c08Tag `json:"tags"`
	PermB []int    `json:"perm_b"` // order of Tags on agent B
	Ts    int      `json:"ts"`     // seconds relative to the fake clock
	Ts0   bool     `json:"ts0,omitempty"`
	Kind  int      `json:"kind"` // 0 counter 1 value 2 unique
	Host  int      `json:"host,omitempty"`
	STop  int      `json:"stop,omitempty"`
}

type c08Op struct {
	K   string `json:"k"` // ev adv flush drain map stop
	Ev  *c08Ev `json:"ev,omitempty"`
	Dms int    `json:"dms,omitempty"` // adv
	Sh  int    `json:"sh,omitempty"`  // drain: bit mask of shards
	Str int    `json:"str,omitempty"` // map: tag index*100+value index
	Who int    `json:"who,omitempty"` // map: 1 A, 2 B, 3 both
	// burst: N events of metric M with N distinct series (numbered Base, Base+1, ...), all with timestamp now+Ts
	M    int `json:"m,omitempty"`
	N    int `json:"n,omitempty"`
	Base int `json:"base,omitempty"`
	Ts   int `json:"ts,omitempty"`
}

// c08BurstEvent builds event k of a burst: the series number in base 4 says which of the tags 0..4 are set
// (digit 0: absent) and to which value; agent B sends the tags in reverse order.
func c08BurstEvent(op c08Op, k int) *c08Ev {
	code := (op.Base + k) % 1024
	ev := &c08Ev{M: op.M, Ts: op.Ts, Kind: k % 3}
	for i := 0; i < 5; i++ {
		d := code % 4
		code /= 4
		if d != 0 {
			ev.Tags = append(ev.Tags, c08Tag{I: i, V: d - 1})
		}
	}
	for i := len(ev.Tags) - 1; i >= 0; i-- {
		ev.PermB = append(ev.PermB, i)
	}
	return ev
}

type c08Case struct {
	Shards    int     `json:"shards"`
	StartOff  int     `json:"start_off"` // seconds added to T0 (ring alignment)
	StartMs   int     `json:"start_ms"`
	HwRes     int     `json:"hw_res"`
	HwSlowRes int     `json:"hw_slow_res"`
	DualStart int     `json:"dual_start"` // ShardFixedKey2Timestamp relative to the start second
	Dual      [][2]int `json:"dual,omitempty"` // per re-sharded metric: ShardFixedKey, ShardFixedKey2 (1-based shard keys); default 1,2
	MapA      []int   `json:"map_a"`
	MapB      []int   `json:"map_b"`
	Ops       []c08Op `json:"ops"`
}

type c08Metric struct {
	meta *format.MetricMetaValue
	hw   int // 0 no, 1 fast, 2 slow
	dual bool
}

func c08Metrics(c c08Case) []c08Metric {
	mk := func(id int32, name string, res int, strategy string, k1, k2 uint32) *format.MetricMetaValue {
		m := &format.MetricMetaValue{MetricID: id, Name: name, Resolution: res, ShardStrategy: strategy,
			ShardFixedKey: k1, ShardFixedKey2: k2,
			Tags: []format.MetricMetaTag{{}, {Name: "alpha"}, {}, {RawKind: "int"}, {}, {RawKind: "int64"}, {}}}
		if k2 != 0 {
			m.ShardFixedKey2Timestamp = uint32(c08T0 + c.StartOff + c.DualStart)
		}
		if err := m.RestoreCachedInfo(); err != nil {
			panic(err)
		}
		return m
	}
	dk := func(i int) (uint32, uint32) {
		if i < len(c.Dual) && c.Dual[i][0] >= 1 && c.Dual[i][0] <= c.Shards && c.Dual[i][1] >= 1 {
			return uint32(c.Dual[i][0]), uint32(c.Dual[i][1])
		}
		return 1, 2
	}
	d0k1, d0k2 := dk(0)
	d1k1, d1k2 := dk(1)
	d2k1, d2k2 := dk(2)
	ms := []c08Metric{
		{meta: mk(101, "c08_r1", 1, format.ShardByMetricID, 0, 0)},
		{meta: mk(102, "c08_r5", 5, format.ShardByMetricID, 0, 0)},
		{meta: mk(103, "c08_r15", 15, format.ShardByMetricID, 0, 0)},
		{meta: mk(104, "c08_r60", 60, format.ShardByMetricID, 0, 0)},
		{meta: mk(105, "c08_r5h", 5, format.ShardByTagsHash, 0, 0)},
		{meta: mk(106, "c08_dual", 1, format.ShardByMetricID, d0k1, d0k2), dual: true},
		{meta: mk(107, "c08_dual15", 15, format.ShardByMetricID, d1k1, d1k2), dual: true},
		{meta: format.BuiltinMetrics[format.BuiltinMetricIDCPUUsage], hw: 1},
	}
	var slow *format.MetricMetaValue
	for _, m := range format.BuiltinMetrics {
		if m.IsHardwareSlowMetric && format.HardwareMetric(m.MetricID) && (slow == nil || m.MetricID > slow.MetricID) {
			slow = m
		}
	}
	ms = append(ms, c08Metric{meta: slow, hw: 2})
	ms = append(ms, c08Metric{meta: mk(108, "c08_dual5", 5, format.ShardByMetricID, d2k1, d2k2), dual: true})
	return ms
}

func (m c08Metric) resolution(c c08Case) uint32 {
	switch m.hw {
	case 1:
		return uint32(c.HwRes)
	case 2:
		return uint32(c.HwSlowRes)
	}
	return uint32(m.meta.EffectiveResolution)
}

func c08TagRaw(meta *format.MetricMetaValue, i int) bool {
	return i < len(meta.Tags) && meta.Tags[i].Raw()
}

var c08BadRaw = []string{"n/a", "null", "12x", "--1", "0x10", "1e3", "1.5", "99999999999999999999999", "none", "v3_0"}

// a raw tag whose value is not a number is not part of the series: the event is accepted, the tag stays unset
func c08TagBad(meta *format.MetricMetaValue, t c08Tag) bool {
	return t.Bad > 0 && c08TagRaw(meta, t.I)
}

func c08ValueString(meta *format.MetricMetaValue, t c08Tag) string {
	if c08TagBad(meta, t) {
		return c08BadRaw[(t.Bad-1)%len(c08BadRaw)]
	}
	if c08TagRaw(meta, t.I) {
		return strconv.Itoa(t.V + 1)
	}
	return fmt.Sprintf("v%d_%d", t.I, t.V)
}

func c08MappedInt(i, v int) int32 { return int32(1000 + i*100 + v) }

func c08TagName(m c08Metric, t c08Tag) string {
	switch t.Alias {
	case 1:
		if m.hw == 0 && t.I == 1 {
			return "alpha"
		}
	case 2:
		if t.I < 16 {
			return "key" + strconv.Itoa(t.I)
		}
	}
	return strconv.Itoa(t.I)
}

func c08Series(metric int32, tags map[int]string) string {
	var ks []int
	for k := range tags {
		ks = append(ks, k)
	}
	sort.Ints(ks)
	var sb strings.Builder
	fmt.Fprintf(&sb, "%d", metric)
	for _, k := range ks {
		fmt.Fprintf(&sb, "|%d=%s", k, tags[k])
	}
	return sb.String()
}

// never saved or loaded here; NewChunkedStorageNop allocates a large buffer, so one is shared by all agents
var c08Storage = data_model.NewChunkedStorageNop()

func c08MakeAgent(c c08Case, now time.Time, seed uint64) *Agent {
	config := Config{HardwareMetricResolution: c.HwRes, HardwareSlowMetricResolution: c.HwSlowRes}
	nowUnix := uint32(now.Unix())
	a := &Agent{
		config:                                 config,
		logF:                                   func(string, ...any) {},
		mappingsCache:                          pcache.NewMappingsCache(c08Storage, 1024*1024, 86400),
		shardByMetricCount:                     uint32(c.Shards),
		componentTag:                           format.TagValueIDComponentAgent,
		builtinMetricMetaUsageCPU:              *format.BuiltinMetricMetaUsageCPU,
		builtinMetricMetaUsageMemory:           *format.BuiltinMetricMetaUsageMemory,
		builtinMetricMetaHeartbeatVersion:      *format.BuiltinMetricMetaHeartbeatVersion,
		builtinMetricMetaHeartbeatVersionAgent: *format.BuiltinMetricMetaHeartbeatVersionAgent,
		beforeFlushTime:                        nowUnix,
		startTimestamp:                         nowUnix,
	}
	rng := rand.New(seed)
	for i := 0; i < c.Shards; i++ {
		shard := &Shard{
			config:              config,
			agent:               a,
			ShardNum:            i,
			ShardKey:            int32(i) + 1,
			rng:                 rng,
			BucketsToPreprocess: make(chan *data_model.MetricsBucket, 1),
			CurrentTime:         nowUnix,
			SendTime:            nowUnix - 2,
		}
		shard.hardwareMetricResolutionResolved.Store(int32(c.HwRes))
		shard.hardwareSlowMetricResolutionResolved.Store(int32(c.HwSlowRes))
		for j := 0; j < superQueueLen; j++ {
			shard.SuperQueue[j] = &data_model.MetricsBucket{}
		}
		shard.cond = sync.NewCond(&shard.mu)
		a.Shards = append(a.Shards, shard)
	}
	a.initBuiltInMetrics()
	return a
}

type c08Desc struct {
	who   string
	i     int
	st    *c08EvState
	extra string
}

func (d c08Desc) String() string {
	st := d.st
	return fmt.Sprintf("agent %s event #%d (op %d, metric %s res %d, series %s, ts %d clamped %d, shard clock %d, send cursors %v)", d.who, d.i, st.op, st.metric.meta.Name, st.res, st.series, st.tsEff, st.clamped, st.cur, st.send) + d.extra
}

type c08Occ struct {
	shard      int
	bucketTime uint32
	rowTs      uint32
	series     string
	deliverOp  int // index of the op at which the bucket was observed (len(ops) = shutdown flush)
}

type c08EvState struct {
	op       int
	ev       *c08Ev
	metric   c08Metric
	series   string
	res      uint32
	tsEff    uint32
	clamped  uint32
	rounded  uint32
	cur      uint32   // CurrentTime of the shards at insertion
	send     []uint32 // SendTime per shard at insertion
	gap      []bool   // per shard: receive queue had a gap
	stopped  bool
	occ      []c08Occ
	mapState string // which of the event's values were mapped on this agent
	badText  string // the refused raw values, in tag-index order
	badRaw   int    // raw tags sent with a text that is not a number
	unmapped int    // string tags whose value was not in the mapping cache
}

type c08Run struct {
	evs      []*c08EvState
	bySeries map[string][]int // series -> indices into evs, in arrival order
	jumps [][]int // per shard: op indices of flushes that moved SendTime by a whole ring or more
	cls   map[string]bool
}

func c08Execute(t vpT, c c08Case, variantB bool) *c08Run {
	ms := c08Metrics(c)
	mids := map[int32]int{}
	for i, m := range ms {
		mids[m.meta.MetricID] = i
	}
	now := time.Unix(int64(c08T0+c.StartOff), int64(c.StartMs)*1e6)
	a := c08MakeAgent(c, now, 1)
	run := &c08Run{jumps: make([][]int, c.Shards), cls: map[string]bool{}, bySeries: map[string][]int{}}
	rev := map[int32]string{}
	addMap := func(code int) {
		i, v := code/100, code%100
		s := fmt.Sprintf("v%d_%d", i, v)
		a.mappingsCache.AddValues(uint32(now.Unix()), []pcache.MappingPair{{Str: s, Value: c08MappedInt(i, v)}})
		rev[c08MappedInt(i, v)] = s
	}
	initial := c.MapA
	if variantB {
		initial = c.MapB
	}
	for _, code := range initial {
		addMap(code)
	}
	canon := func(k *data_model.Key) string {
		mi, ok := mids[k.Metric]
		if !ok {
			return ""
		}
		tags := map[int]string{}
		for i := 0; i < format.StringTopTagIndexV3; i++ {
			switch {
			case k.STags[i] != "":
				tags[i] = k.STags[i]
			case k.Tags[i] == 0:
			case c08TagRaw(ms[mi].meta, i):
				tags[i] = strconv.Itoa(int(k.Tags[i]))
			default:
				s, ok := rev[k.Tags[i]]
				if !ok {
					s = fmt.Sprintf("?unmapped int %d", k.Tags[i])
				}
				tags[i] = s
			}
		}
		return c08Series(k.Metric, tags)
	}
	observe := func(shard int, b *data_model.MetricsBucket, opIdx int) {
		for _, item := range b.MultiItems {
			if _, ok := mids[item.Key.Metric]; !ok {
				continue
			}
			cnt := item.Tail.Value.Count()
			for _, tv := range item.Top {
				cnt += tv.Value.Count()
			}
			series := canon(&item.Key)
			lst := run.bySeries[series]
			if cnt != math.Trunc(cnt) || cnt < 1 || cnt >= math.Ldexp(1, len(lst)) {
				t.Fatalf("shard %d bucket %d row %s ts %d has count %v which is not a sum of distinct weights of the %d events sent for that series so far", shard, b.Time, series, item.Key.Timestamp, cnt, len(lst))
			}
			bits := uint64(cnt)
			for j, i := range lst {
				if bits&(1<<uint(j)) != 0 {
					run.evs[i].occ = append(run.evs[i].occ, c08Occ{shard: shard, bucketTime: b.Time, rowTs: item.Key.Timestamp, series: series, deliverOp: opIdx})
				}
			}
		}
	}
	stopped := false
	var scratch []byte
	nEv := 0
	applyEvent := func(oi int, ev *c08Ev) {
		{
			if nEv >= c08MaxTotal || ev == nil || ev.M < 0 || ev.M >= len(ms) {
				t.Fatalf("bad case")
			}
			m := ms[ev.M]
			nowUnix := uint32(now.Unix())
			st := &c08EvState{op: oi, ev: ev, metric: m, res: m.resolution(c), stopped: stopped}
			order := make([]int, len(ev.Tags))
			for i := range order {
				order[i] = i
			}
			if variantB && len(ev.PermB) == len(ev.Tags) {
				copy(order, ev.PermB)
			}
			mb := tlstatshouse.MetricBytes{Name: []byte(m.meta.Name)}
			tagVals := map[int]string{}
			var mapState, badTexts []string
			for _, ti := range order {
				tg := ev.Tags[ti]
				if tg.Bad > 0 && !c08TagRaw(m.meta, tg.I) {
					continue // this metric has no raw tag at that index (hardware metrics): nothing to refuse
				}
				val := c08ValueString(m.meta, tg)
				if c08TagBad(m.meta, tg) {
					st.badRaw++
					badTexts = append(badTexts, fmt.Sprintf("%d=%s", tg.I, val))
				} else {
					if _, dup := tagVals[tg.I]; dup {
						t.Fatalf("bad case: tag set twice")
					}
					tagVals[tg.I] = val
				}
				mb.Tags = append(mb.Tags, tl.DictFieldStringStringBytes{Key: []byte(c08TagName(m, tg)), Value: []byte(val)})
				if !c08TagRaw(m.meta, tg.I) {
					if _, ok := a.mappingsCache.GetValue(nowUnix, val); ok {
						mapState = append(mapState, strconv.Itoa(tg.I))
					} else {
						st.unmapped++
					}
				}
			}
			sort.Strings(badTexts)
			st.badText = strings.Join(badTexts, ";")
			sort.Strings(mapState)
			st.mapState = strings.Join(mapState, ",")
			if ev.Host != 0 {
				mb.Tags = append(mb.Tags, tl.DictFieldStringStringBytes{Key: []byte("_h"), Value: []byte("host" + strconv.Itoa(ev.Host))})
			}
			if ev.STop != 0 {
				mb.Tags = append(mb.Tags, tl.DictFieldStringStringBytes{Key: []byte("_s"), Value: []byte("top" + strconv.Itoa(ev.STop))})
			}
			switch ev.Kind {
			case 1:
				mb.Value = []float64{float64(ev.Ts)}
			case 2:
				mb.Unique = []int64{int64(ev.Ts) + 7}
			}
			st.series = c08Series(m.meta.MetricID, tagVals)
			sidx := len(run.bySeries[st.series])
			if sidx >= c08MaxEvents {
				t.Fatalf("bad case: too many events for one series")
			}
			mb.Counter = math.Ldexp(1, sidx)
			// worker.fillTime / fillMetricMeta
			var h data_model.MappedMetricHeader
			h.ReceiveTime = now
			if !ev.Ts0 {
				mb.Ts = uint32(int64(nowUnix) + int64(ev.Ts))
				h.Key.Timestamp = mb.Ts
			} else {
				h.Key.Timestamp = nowUnix
			}
			st.tsEff = h.Key.Timestamp
			h.MetricMeta = m.meta
			h.Key.Metric = m.meta.MetricID
			// public state the drop conditions of the statement are read from
			st.cur = a.Shards[0].CurrentTime
			for si, sh := range a.Shards {
				if sh.CurrentTime != st.cur {
					t.Fatalf("shards disagree on CurrentTime: %d vs %d", sh.CurrentTime, st.cur)
				}
				st.send = append(st.send, sh.SendTime)
				st.gap = append(st.gap, int64(sh.CurrentTime)-int64(sh.SendTime) > c08GapLimit)
				_ = si
			}
			st.clamped = st.tsEff
			if st.clamped > st.cur+c08Future {
				st.clamped = st.cur + c08Future
				run.cls["clamped-future"] = true
			}
			st.rounded = st.clamped / st.res * st.res
			a.Map(data_model.HandlerArgs{MetricBytes: &mb, Scratch: &scratch}, &h, nil)
			if h.IngestionStatus != 0 {
				t.Fatalf("bad case: generated event rejected by mapping: status %d", h.IngestionStatus)
			}
			// the mapped header must describe exactly the series: key tags, and the original values that feed the
			// resolution hash (tags that are absent or were refused must leave no trace in either)
			if got := canon(&h.Key); got != st.series {
				t.Fatalf("event of series %s (tags sent: %s) was mapped to key %s", st.series, mb.String(), got)
			}
			for i := 0; i < format.StringTopTagIndexV3; i++ {
				if got, want := string(h.OriginalTagValues[i]), tagVals[i]; got != want {
					t.Fatalf("event of series %s (tags sent: %s): original value of tag %d that feeds the resolution hash is %q, the series has %q", st.series, mb.String(), i, got, want)
				}
			}
			if st.badRaw > 0 {
				if h.InvalidRawTagKey == 0 {
					t.Fatalf("event with a non-numeric raw tag value (%s) got no invalid-raw warning", mb.String())
				}
				run.cls["invalid-raw"] = true
				if st.unmapped > 0 {
					run.cls["invalid-raw-with-unmapped"] = true
				}
			}
			a.ApplyMetric(&mb, &h, &scratch)
			run.bySeries[st.series] = append(run.bySeries[st.series], len(run.evs))
			run.evs = append(run.evs, st)
			nEv++
		}
	}
	for oi, op := range c.Ops {
		switch op.K {
		case "ev":
			applyEvent(oi, op.Ev)
		case "burst":
			if op.N < 0 || op.N > 1024 {
				t.Fatalf("bad case")
			}
			for k := 0; k < op.N; k++ {
				applyEvent(oi, c08BurstEvent(op, k))
			}
		case "adv":
			if stopped {
				break
			}
			now = now.Add(time.Duration(op.Dms) * time.Millisecond)
			if op.Dms < 0 {
				run.cls["clock-back"] = true
			}
		case "flush":
			if stopped {
				break
			}
			before := make([]uint32, c.Shards)
			for si, sh := range a.Shards {
				before[si] = sh.SendTime
			}
			a.goFlushIteration(now)
			for si, sh := range a.Shards {
				if sh.SendTime < before[si] {
					t.Fatalf("shard %d SendTime went back %d -> %d", si, before[si], sh.SendTime)
				}
				if sh.SendTime-before[si] >= c08RingLen {
					run.jumps[si] = append(run.jumps[si], oi)
					run.cls["jump-ahead"] = true
				}
			}
		case "drain":
			for si, sh := range a.Shards {
				if op.Sh&(1<<uint(si)) == 0 {
					continue
				}
				select {
				case b := <-sh.BucketsToPreprocess:
					observe(si, b, oi)
				default:
				}
			}
		case "map":
			if op.Who&1 != 0 && !variantB || op.Who&2 != 0 && variantB {
				addMap(op.Str)
			}
		case "stop":
			if !stopped {
				stopped = true
				for _, sh := range a.Shards {
					sh.StopReceivingIncomingData()
				}
			}
		default:
			t.Fatalf("bad op %q", op.K)
		}
	}
	// shutdown: stop receiving, then Agent.FlushAllData with a consumer per shard (the preprocessor's role)
	if !stopped {
		for _, sh := range a.Shards {
			sh.StopReceivingIncomingData()
		}
	}
	var wg sync.WaitGroup
	got := make([][]*data_model.MetricsBucket, c.Shards)
	for si, sh := range a.Shards {
		wg.Add(1)
		go func(si int, sh *Shard) {
			defer wg.Done()
			for b := range sh.BucketsToPreprocess {
				got[si] = append(got[si], b)
			}
		}(si, sh)
	}
	a.FlushAllData()
	wg.Wait()
	for si := range got {
		var last uint32
		for i, b := range got[si] {
			if i > 0 && b.Time <= last {
				t.Fatalf("shard %d shutdown flush delivers bucket %d after %d", si, b.Time, last)
			}
			last = b.Time
			observe(si, b, len(c.Ops))
		}
	}
	return run
}

func (r *c08Run) shifted(occ c08Occ, st *c08EvState) bool {
	for _, j := range r.jumps[occ.shard] {
		if st.op < j && j <= occ.deliverOp {
			return true
		}
	}
	return false
}

// checks of one agent run; returns per event the send second usable for the "depends only on" clause (0 = not usable)
func c08CheckRun(t vpT, c c08Case, r *c08Run, who string) []uint32 {
	usable := make([]uint32, len(r.evs))
	type grp struct {
		time uint32
		ev   int
	}
	groups := map[string]grp{}
	for i, st := range r.evs {
		desc := c08Desc{who: who, i: i, st: st}
		var maxLag int64
		for _, snd := range st.send {
			maxLag = max(maxLag, int64(st.cur)-int64(snd))
		}
		if st.res == 60 && maxLag >= 6 && maxLag <= 8 && st.clamped == st.cur+c08Future {
			r.cls["lag6to8-res60-future-ts"] = true
			if int64(st.clamped%60) <= maxLag-6 { // rounded ts + 60 + last sub-slots would leave the ring
				r.cls["lag6to8-res60-future-ts-at-boundary"] = true
			}
		}
		if st.res == 60 && maxLag >= 3 && maxLag <= 5 && st.clamped == st.cur+c08Future && st.clamped%60 <= 2 {
			r.cls["lag3to5-res60-future-ts-at-boundary"] = true
		}
		perShard := make([]int, c.Shards)
		for _, o := range st.occ {
			perShard[o.shard]++
			if o.series != st.series {
				t.Fatalf("%s was merged into row %s", desc, o.series)
			}
			if o.rowTs != st.rounded {
				t.Fatalf("%s is in a row with timestamp %d, expected %d (clamped timestamp rounded down to the resolution)", desc, o.rowTs, st.rounded)
			}
			if o.bucketTime < st.clamped {
				t.Fatalf("%s was sent in bucket %d, earlier than its clamped timestamp", desc, o.bucketTime)
			}
		}
		anyGap := false
		for _, g := range st.gap {
			anyGap = anyGap || g
		}
		if anyGap {
			r.cls["event-while-queue-gap"] = true
		}
		if st.stopped {
			r.cls["event-after-stop"] = true
		}
		dual := st.metric.dual
		total := 0
		for si, n := range perShard {
			total += n
			if n > 1 {
				t.Fatalf("%s was delivered %d times on shard %d: %+v", desc, n, si, st.occ)
			}
		}
		primary := -1
		if !dual {
			if total > 1 {
				t.Fatalf("%s was delivered in %d buckets: %+v", desc, total, st.occ)
			}
			if total == 0 {
				if !anyGap && !st.stopped {
					t.Fatalf("%s was dropped although no shard had a receive-queue gap and the agent was not shutting down", desc)
				}
				r.cls["drop-observed"] = true
			}
		} else {
			// re-sharded metric: destination shards are the primary (ShardFixedKey) and, if it exists and is a
			// different shard, the secondary (ShardFixedKey2) from its start time on; one bucket per destination
			start := st.metric.meta.ShardFixedKey2Timestamp
			primary = int(st.metric.meta.ShardFixedKey) - 1
			secondary := int(st.metric.meta.ShardFixedKey2) - 1
			switch {
			case secondary == primary:
				r.cls["reshard-secondary-equals-primary"] = true
				secondary = -1
			case secondary >= c.Shards:
				r.cls["reshard-secondary-out-of-range"] = true
				secondary = -1
			case secondary == primary-1:
				r.cls["reshard-secondary-is-primary-minus-1"] = true
			default:
				r.cls["reshard-secondary-other"] = true
			}
			desc.extra = fmt.Sprintf(" [re-sharded metric: primary shard %d, secondary shard %d (-1: none), start %d]", primary, secondary, start)
			for si, n := range perShard {
				switch {
				case si == primary:
					if n == 0 && !st.gap[si] && !st.stopped {
						t.Fatalf("%s was dropped on its primary shard without a drop condition", desc)
					}
				case si == secondary:
					if st.rounded >= start {
						r.cls["dual-after-start"] = true
						if n == 0 && !st.gap[si] && !st.stopped {
							t.Fatalf("%s was dropped on its secondary shard although its timestamp is not before the start time %d", desc, start)
						}
					} else if st.clamped < start {
						r.cls["dual-before-start"] = true
						if n == 0 {
							r.cls["dual-before-start-dropped"] = true
						}
					}
				default:
					if n != 0 {
						t.Fatalf("%s appeared on shard %d which is neither its primary nor its secondary shard", desc, si)
					}
				}
			}
		}
		// "when the row is not late, its send second depends only on the metric, original tag values and timestamp"
		for _, o := range st.occ {
			late := false
			if st.res == 1 {
				late = st.clamped < st.send[o.shard]
			} else {
				late = st.rounded+st.res < st.send[o.shard] // earliest slot a low-resolution row can have
			}
			if late {
				if st.res == 1 {
					r.cls["late-res1"] = true
				} else {
					r.cls["late-lowres"] = true
				}
				continue
			}
			if r.shifted(o, st) {
				r.cls["in-ring-during-jump"] = true
				continue
			}
			key := fmt.Sprintf("%s@%d", st.series, st.rounded)
			if dual {
				key += fmt.Sprintf("/shard%d", o.shard)
			}
			if g, ok := groups[key]; ok {
				if g.time != o.bucketTime {
					t.Fatalf("%s was sent in second %d but event #%d of the same row (not late either) in second %d", desc, o.bucketTime, g.ev, g.time)
				}
				r.cls["same-row-twice-not-late"] = true
			} else {
				groups[key] = grp{time: o.bucketTime, ev: i}
			}
			if !dual || o.shard == primary {
				usable[i] = o.bucketTime
			}
			if st.res > 1 {
				r.cls["lowres-not-late"] = true
				if st.badRaw > 0 {
					r.cls["invalid-raw-lowres-not-late"] = true
					if g := groups[key]; g.ev != i && r.evs[g.ev].badText != st.badText {
						r.cls["invalid-raw-same-row-different-garbage"] = true
					}
				}
			}
		}
	}
	return usable
}

type c08Result struct {
	nontrivial bool
	classes    []string
}

func c08Prop(t vpT, c c08Case) c08Result {
	if c.Shards < 1 || c.Shards > 3 {
		t.Fatalf("bad case")
	}
	ra := c08Execute(t, c, false)
	rb := c08Execute(t, c, true)
	ua := c08CheckRun(t, c, ra, "A")
	ub := c08CheckRun(t, c, rb, "B")
	cls := map[string]bool{}
	for k := range ra.cls {
		cls[k] = true
	}
	for k := range rb.cls {
		cls[k] = true
	}
	nt := false
	for i := range ra.evs {
		sa, sb := ra.evs[i], rb.evs[i]
		differs := sa.mapState != sb.mapState
		perm := false
		for k, p := range sa.ev.PermB {
			perm = perm || p != k
		}
		if differs {
			cls["mapping-state-differs"] = true
		}
		if perm {
			cls["tag-order-permuted"] = true
		}
		if ua[i] == 0 || ub[i] == 0 || sa.clamped != sb.clamped {
			continue
		}
		if ua[i] != ub[i] {
			t.Fatalf("event #%d (op %d, metric %s res %d, series %s, ts %d) is not late on either agent but agent A (mapped tags [%s]) sends it in second %d and agent B (mapped tags [%s], tag order %v) in second %d",
				i, sa.op, sa.metric.meta.Name, sa.res, sa.series, sa.clamped, sa.mapState, ua[i], sb.mapState, sa.ev.PermB, ub[i])
		}
		cls["cross-agent-compared"] = true
		if sa.res > 1 && (differs || perm) {
			cls["cross-agent-compared-lowres-differing-input"] = true
			nt = true
		}
		if len(sa.occ) > 0 && len(sb.occ) > 0 && sa.occ[0].shard != sb.occ[0].shard {
			cls["cross-agent-different-shard"] = true
		}
	}
	var out []string
	for k := range cls {
		out = append(out, k)
	}
	sort.Strings(out)
	return c08Result{nontrivial: nt, classes: out}
}

// ----- generator -----

var c08Resolutions = []int{1, 2, 3, 4, 5, 6, 10, 12, 15, 20, 30, 60}

func c08Gen() *rapid.Generator[c08Case] {
	return rapid.Custom(func(t *rapid.T) c08Case {
		c := c08Case{
			Shards:    rapid.SampledFrom([]int{1, 2, 2, 3}).Draw(t, "shards"),
			StartOff:  rapid.IntRange(0, 127).Draw(t, "startoff"),
			StartMs:   rapid.IntRange(0, 999).Draw(t, "startms"),
			HwRes:     rapid.SampledFrom([]int{5, 5, 10, 2, 1}).Draw(t, "hwres"),
			HwSlowRes: rapid.SampledFrom([]int{15, 15, 60, 30}).Draw(t, "hwslow"),
			DualStart: rapid.IntRange(-20, 40).Draw(t, "dualstart"),
		}
		for i := 0; i < 3; i++ { // primary within the agent's shards; secondary: same shard, the one before, any other, or beyond
			k1 := rapid.IntRange(1, c.Shards).Draw(t, "k1")
			k2 := rapid.SampledFrom([]int{k1, k1, max(1, k1-1), k1 + 1, 1, 2, 3, 4}).Draw(t, "k2")
			c.Dual = append(c.Dual, [2]int{k1, k2})
		}
		codes := []int{}
		for _, i := range []int{0, 1, 2, 4} {
			for v := 0; v < 3; v++ {
				codes = append(codes, i*100+v)
			}
		}
		for _, code := range codes {
			switch rapid.IntRange(0, 3).Draw(t, "mapinit") {
			case 0:
				c.MapA = append(c.MapA, code)
			case 1:
				c.MapB = append(c.MapB, code)
			case 2:
				c.MapA = append(c.MapA, code)
				c.MapB = append(c.MapB, code)
			}
		}
		genTags := func() []c08Tag {
			var tags []c08Tag
			for _, i := range []int{0, 1, 2, 3, 4, 5} {
				p := 2
				if i == 5 {
					p = 5 // the raw64 tag is rarer
				}
				if rapid.IntRange(0, p).Draw(t, "hastag") == 0 {
					continue
				}
				tg := c08Tag{I: i, V: rapid.IntRange(0, 2).Draw(t, "val"), Alias: rapid.SampledFrom([]int{0, 0, 1, 2}).Draw(t, "alias")}
				if i == 3 || i == 5 {
					switch rapid.IntRange(0, 9).Draw(t, "rawclass") {
					case 0, 1, 2: // not a number: accepted with a warning, tag unset
						tg.Bad = rapid.IntRange(1, len(c08BadRaw)).Draw(t, "bad")
					case 3: // a valid value and a refused one for the same tag
						tags = append(tags, c08Tag{I: i, V: tg.V, Bad: rapid.IntRange(1, len(c08BadRaw)).Draw(t, "bad")})
					}
				}
				tags = append(tags, tg)
			}
			return rapid.Permutation(tags).Draw(t, "order")
		}
		type tmpl struct {
			m    int
			tags []c08Tag
		}
		var pool []tmpl
		for i := 0; i < 3; i++ {
			pool = append(pool, tmpl{m: rapid.SampledFrom([]int{0, 1, 1, 2, 3, 3, 4, 4, 5, 6, 9, 7, 8}).Draw(t, "metric"), tags: genTags()})
		}
		nEv := 0
		event := func() c08Op {
			var tp tmpl
			if rapid.IntRange(0, 9).Draw(t, "frompool") < 7 {
				tp = pool[rapid.IntRange(0, len(pool)-1).Draw(t, "pool")]
				tp.tags = rapid.Permutation(tp.tags).Draw(t, "evorder")
				for i := range tp.tags { // same series again, other garbage in the refused raw tags
					if tp.tags[i].Bad > 0 {
						tp.tags[i].Bad = rapid.IntRange(1, len(c08BadRaw)).Draw(t, "bad")
					}
				}
			} else {
				tp = tmpl{m: rapid.IntRange(0, 9).Draw(t, "metric"), tags: genTags()}
			}
			ev := &c08Ev{M: tp.m, Tags: tp.tags, Kind: rapid.SampledFrom([]int{0, 0, 1, 2}).Draw(t, "kind")}
			idx := make([]int, len(tp.tags))
			for i := range idx {
				idx[i] = i
			}
			ev.PermB = rapid.Permutation(idx).Draw(t, "permb")
			switch rapid.IntRange(0, 19).Draw(t, "tsclass") {
			case 0, 1, 2, 3, 4, 5, 6, 7:
				ev.Ts = 0
			case 8, 9, 10, 11:
				ev.Ts = -rapid.IntRange(1, 3).Draw(t, "ts")
			case 12, 13:
				ev.Ts = rapid.IntRange(1, 3).Draw(t, "ts")
			case 14:
				ev.Ts = rapid.IntRange(4, 10).Draw(t, "ts")
			case 15, 16, 17:
				ev.Ts = -rapid.IntRange(4, 130).Draw(t, "ts")
			case 18:
				ev.Ts = -rapid.IntRange(131, 200).Draw(t, "ts")
			default:
				ev.Ts0 = true
			}
			if rapid.IntRange(0, 9).Draw(t, "host") == 0 {
				ev.Host = rapid.IntRange(1, 3).Draw(t, "hostv")
			}
			if rapid.IntRange(0, 9).Draw(t, "stop") == 0 {
				ev.STop = rapid.IntRange(1, 3).Draw(t, "stopv")
			}
			nEv++
			return c08Op{K: "ev", Ev: ev}
		}
		all := 1<<uint(c.Shards) - 1
		if rapid.IntRange(0, 7).Draw(t, "stallmode") == 0 {
			// Stalled conveyor x 60-second metrics x timestamps at the future clamp x many series: the receive
			// queue must refuse (or place correctly) exactly where rounded_ts+60+sub-slot would leave the ring.
			c.HwSlowRes = 60
			nowMs := c.StartMs
			cur := func(extraTicks int) int { return c.StartOff + (nowMs+1000*extraTicks)/1000 }
			tick := func(drain bool) {
				c.Ops = append(c.Ops, c08Op{K: "adv", Dms: 1000}, c08Op{K: "flush"})
				nowMs += 1000
				if drain {
					c.Ops = append(c.Ops, c08Op{K: "drain", Sh: all})
				}
			}
			for i, n := 0, rapid.IntRange(2, 5).Draw(t, "prelude"); i < n; i++ {
				tick(true)
				if rapid.Bool().Draw(t, "preludeev") {
					c.Ops = append(c.Ops, event())
				}
			}
			// the lag reaches 6..8 around the 6th..8th tick without a drain; aim that tick at a minute boundary
			aim := rapid.IntRange(5, 8).Draw(t, "aimtick")
			d := rapid.SampledFrom([]int{0, 0, 0, 1, 1, 2, 59, 3}).Draw(t, "boundaryoff")
			for (cur(aim)+c08Future)%60 != d {
				tick(true)
			}
			burst := func() {
				ts := rapid.SampledFrom([]int{3, 3, 3, 3, 3, 3, 4, 7, 2, 0}).Draw(t, "burstts")
				c.Ops = append(c.Ops, c08Op{K: "burst", M: rapid.SampledFrom([]int{3, 3, 8}).Draw(t, "burstmetric"), N: rapid.IntRange(50, 200).Draw(t, "burstn"), Base: rapid.IntRange(0, 1023).Draw(t, "burstbase"), Ts: ts})
			}
			for j, n := 1, rapid.IntRange(8, 11).Draw(t, "stallticks"); j <= n; j++ {
				tick(false)
				if j >= 3 {
					burst()
				}
			}
			for i, n := 0, rapid.IntRange(5, 30).Draw(t, "catchup"); i < n; i++ {
				c.Ops = append(c.Ops, c08Op{K: "flush"}, c08Op{K: "drain", Sh: all})
			}
			for i, n := 0, rapid.IntRange(0, 5).Draw(t, "coda"); i < n; i++ {
				tick(true)
				if rapid.Bool().Draw(t, "codaev") {
					c.Ops = append(c.Ops, event())
				}
			}
			return c
		}
		nops := rapid.IntRange(10, 220).Draw(t, "nops")
		for len(c.Ops) < nops {
			k := rapid.IntRange(0, 99).Draw(t, "kind")
			switch {
			case k < 40 && nEv < 36:
				c.Ops = append(c.Ops, event())
			case k < 80: // the flusher's tick with a healthy preprocessor
				c.Ops = append(c.Ops, c08Op{K: "adv", Dms: rapid.SampledFrom([]int{100, 100, 300, 500, 700, 1000, 1000, 1000, 1500, 2500}).Draw(t, "dms")},
					c08Op{K: "flush"}, c08Op{K: "drain", Sh: all})
			case k < 83:
				c.Ops = append(c.Ops, c08Op{K: "adv", Dms: rapid.IntRange(100, 1000).Draw(t, "dms")})
			case k < 87: // preprocessor stuck on some shards
				c.Ops = append(c.Ops, c08Op{K: "adv", Dms: rapid.IntRange(500, 3000).Draw(t, "dms")}, c08Op{K: "flush"}, c08Op{K: "drain", Sh: rapid.IntRange(0, all).Draw(t, "mask")})
			case k < 89:
				c.Ops = append(c.Ops, c08Op{K: "drain", Sh: rapid.IntRange(0, all).Draw(t, "mask")})
			case k < 92: // machine sleep
				c.Ops = append(c.Ops, c08Op{K: "adv", Dms: 1000 * rapid.SampledFrom([]int{3, 6, 10, 30, 60, 100, 124, 125, 126, 127, 128, 130, 200, 255, 256, 300, 400}).Draw(t, "pause")}, c08Op{K: "flush"}, c08Op{K: "drain", Sh: all})
			case k < 94:
				c.Ops = append(c.Ops, c08Op{K: "adv", Dms: -rapid.IntRange(100, 2000).Draw(t, "back")}, c08Op{K: "flush"}, c08Op{K: "drain", Sh: all})
			case k < 97: // catching up after a stall
				for i, n := 0, rapid.IntRange(2, 8).Draw(t, "catchup"); i < n; i++ {
					c.Ops = append(c.Ops, c08Op{K: "flush"}, c08Op{K: "drain", Sh: all})
				}
			default:
				c.Ops = append(c.Ops, c08Op{K: "map", Str: rapid.SampledFrom(codes).Draw(t, "code"), Who: rapid.IntRange(1, 3).Draw(t, "who")})
			}
		}
		if rapid.IntRange(0, 4).Draw(t, "withstop") == 0 { // shutdown while components still write
			c.Ops = append(c.Ops, c08Op{K: "stop"})
			for i, n := 0, rapid.IntRange(1, 4).Draw(t, "afterstop"); i < n && nEv < 40; i++ {
				c.Ops = append(c.Ops, event())
			}
		}
		return c
	})
}

func TestVerifC08Placement(t *testing.T) {
	ev := vpNewEv(t, "C08", "placement")
	rapid.Check(t, func(rt *rapid.T) {
		c := c08Gen().Draw(rt, "case")
		vpRunCase(rt, "C08", "placement", c, func() {
			r := c08Prop(rt, c)
			ev.Case(r.nontrivial, c, r.classes...)
		})
	})
}

func init() {
	vpReplayers["C08/placement"] = func(t vpT, raw json.RawMessage) {
		var c c08Case
		if err := json.Unmarshal(raw, &c); err != nil {
			t.Fatalf("decode: %v", err)
		}
		c08Prop(t, c)
	}
}
