//go:build verif

package agent

// C02/bucket — row aggregates survive the agent→aggregator transfer, through the REAL sender.
//
// A whole MetricsBucket (1–12 rows, several with string tops) is built with the real data_model
// functions, handed to the real Shard.sampleBucket (FinishStringTop, sampler with a budget that binds or
// not, keepF encoding of every kept row into one SourceBucket3), serialised with WriteTL1Boxed, read
// back as SourceBucket3Bytes as the aggregator handler does, and every item is merged into an empty
// item (KeyFromStatshouseMultiItem, string tags copied, MergeWithTLMultiItem). Every KEPT row is compared
// with a per-row reference computed from the event list (copy of the data_model vpRef helper, because
// shared check files are per package) scaled by the row's own sample factor.

import (
	"encoding/json"
	"fmt"
	"math"
	"math/big"
	"math/bits"
	"sort"
	"sync"
	"testing"

	"pgregory.net/rand"
	"pgregory.net/rapid"

	"github.com/VKCOM/statshouse/internal/data_model"
	"github.com/VKCOM/statshouse/internal/data_model/gen2/tlstatshouse"
	"github.com/VKCOM/statshouse/internal/format"
	"github.com/VKCOM/statshouse/internal/pcache"
)

// ======================================================================================
// Reference helper: copy of /verif/checks/internal/data_model/zz_verif_vpref_test.go (prefix c02bRef)
// ======================================================================================

// ---------- plain-data pieces of cases ----------

type c02bRefHost struct {
	I int32  `json:"i,omitempty"`
	S string `json:"s,omitempty"`
}

func (h c02bRefHost) TU() data_model.TagUnion {
	if h.I != 0 {
		return data_model.TagUnion{I: h.I}
	}
	return data_model.TagUnion{S: h.S}
}

const (
	c02bRefKindCounter = 0
	c02bRefKindValues  = 1
	c02bRefKindUnique  = 2
)

// c02bRefEvent is one event as agent.ApplyMetric dispatches it after mapping: a counter-only event,
// a value event (values and/or histogram, optional explicit counter) or a unique event (hashes,
// optional explicit counter). Count==0 means "not given".
type c02bRefEvent struct {
	Kind   int          `json:"k"`
	Count  float64      `json:"c,omitempty"`
	Values []float64    `json:"v,omitempty"`
	Hist   [][2]float64 `json:"h,omitempty"`
	Uniq   []int64      `json:"u,omitempty"`
	Host   c02bRefHost  `json:"host,omitempty"`
}

// effective kind: an event without arrays is a counter event whatever Kind says
func (e *c02bRefEvent) kind() int {
	if len(e.Uniq) != 0 {
		return c02bRefKindUnique
	}
	if len(e.Values)+len(e.Hist) != 0 {
		return c02bRefKindValues
	}
	return c02bRefKindCounter
}

// total number of samples carried by the arrays, and the count the event stands for
func (e *c02bRefEvent) totals() (total, count float64) {
	switch e.kind() {
	case c02bRefKindUnique:
		total = float64(len(e.Uniq))
	case c02bRefKindValues:
		total = float64(len(e.Values))
		for _, kv := range e.Hist {
			total += kv[1]
		}
	}
	count = e.Count
	if count == 0 {
		count = total
	}
	return total, count
}

// c02bRefApplyReal feeds the event to the code under test exactly as agent.Shard.ApplyUnique /
// ApplyValues / ApplyCounter do once they hold the *data_model.MultiValue.
func c02bRefApplyReal(mv *data_model.MultiValue, rng *rand.Rand, e *c02bRefEvent, hasPercentiles, legacy bool) {
	total, count := e.totals()
	if count <= 0 {
		return
	}
	switch e.kind() {
	case c02bRefKindUnique:
		mv.ApplyUnique(rng, e.Uniq, count, e.Host.TU())
	case c02bRefKindValues:
		if legacy {
			mv.ApplyValuesLegacy(rng, e.Hist, e.Values, count, total, e.Host.TU(), data_model.AgentPercentileCompression, hasPercentiles)
		} else {
			mv.ApplyValues(rng, e.Hist, e.Values, count, total, e.Host.TU(), data_model.AgentPercentileCompression, hasPercentiles)
		}
	default:
		mv.AddCounterHost(rng, count, e.Host.TU())
	}
}

// ---------- rationals ----------

func c02bRat(f float64) *big.Rat {
	r := new(big.Rat)
	if r.SetFloat64(f) == nil {
		panic("c02bRat: non-finite input")
	}
	return r
}

func c02bRatF(r *big.Rat) float64 {
	f, _ := r.Float64()
	return f
}

// c02bRatClose: got equals want exactly (when exact is demanded) or |got-want| <= rel*scale where
// scale is the sum of absolute values of the terms (so cancellation cannot raise a false alarm).
func c02bRatClose(got float64, want, scale *big.Rat, exact bool, rel float64) bool {
	if math.IsNaN(got) || math.IsInf(got, 0) {
		return false
	}
	if exact {
		return c02bRat(got).Cmp(want) == 0
	}
	d := new(big.Rat).Sub(c02bRat(got), want)
	d.Abs(d)
	tol := new(big.Rat).Mul(new(big.Rat).Abs(scale), c02bRat(rel))
	tol.Add(tol, c02bRat(1e-300)) // products of tiny values underflow into denormals, where relative error is unbounded
	return d.Cmp(tol) <= 0
}

// ---------- reference aggregate ----------

type c02bRefAgg struct {
	Count    *big.Rat
	Sum      *big.Rat
	SumSq    *big.Rat
	SumAbs   *big.Rat // sum of |value|*weight
	ValueSet bool
	Min, Max float64
	MinHosts map[data_model.TagUnion]bool // hosts that contributed a value equal to Min
	MaxHosts map[data_model.TagUnion]bool
	CntHosts map[data_model.TagUnion]bool // hosts that contributed a positive count
	Hashes   map[uint32]struct{}          // ClickHouse intHash32 of every unique value
	Kinds    int                          // bit set of event kinds seen
	NValued  int                          // number of events that carried values
	NEvents  int
}

func c02bRefNew() *c02bRefAgg {
	return &c02bRefAgg{Count: new(big.Rat), Sum: new(big.Rat), SumSq: new(big.Rat), SumAbs: new(big.Rat),
		MinHosts: map[data_model.TagUnion]bool{}, MaxHosts: map[data_model.TagUnion]bool{}, CntHosts: map[data_model.TagUnion]bool{}, Hashes: map[uint32]struct{}{}}
}

func (a *c02bRefAgg) addValue(v float64, w *big.Rat, host data_model.TagUnion) {
	rv := c02bRat(v)
	t := new(big.Rat).Mul(rv, w)
	a.Sum.Add(a.Sum, t)
	a.SumAbs.Add(a.SumAbs, new(big.Rat).Abs(t))
	t2 := new(big.Rat).Mul(t, rv)
	a.SumSq.Add(a.SumSq, t2)
	if !a.ValueSet || v < a.Min {
		a.Min = v
		a.MinHosts = map[data_model.TagUnion]bool{}
	}
	if v == a.Min {
		a.MinHosts[host] = true
	}
	if !a.ValueSet || v > a.Max {
		a.Max = v
		a.MaxHosts = map[data_model.TagUnion]bool{}
	}
	if v == a.Max {
		a.MaxHosts[host] = true
	}
	a.ValueSet = true
}

// Apply adds one event. Semantics (ApplyMetric comment): arrays empty → counter event; counter 0 →
// every sample has weight 1; counter and arrays both set → the counter is the true number of events
// and the samples are a sub-sample, each sample weighs counter/total; uniques are additionally
// recorded as values float64(hash).
func (a *c02bRefAgg) Apply(e *c02bRefEvent) {
	total, count := e.totals()
	if count <= 0 {
		return
	}
	a.NEvents++
	host := e.Host.TU()
	a.Count.Add(a.Count, c02bRat(count))
	a.CntHosts[host] = true
	k := e.kind()
	a.Kinds |= 1 << k
	if k == c02bRefKindCounter {
		return
	}
	a.NValued++
	mult := new(big.Rat).Quo(c02bRat(count), c02bRat(total))
	if k == c02bRefKindUnique {
		for _, h := range e.Uniq {
			a.addValue(float64(h), mult, host)
			a.Hashes[c02bRefIntHash32(uint64(h))] = struct{}{}
		}
		return
	}
	for _, v := range e.Values {
		a.addValue(v, mult, host)
	}
	for _, kv := range e.Hist {
		a.addValue(kv[0], new(big.Rat).Mul(mult, c02bRat(kv[1])), host)
	}
}

// Merge adds another reference aggregate (used when string-top entries are folded into the tail).
func (a *c02bRefAgg) Merge(b *c02bRefAgg) {
	a.Count.Add(a.Count, b.Count)
	a.Sum.Add(a.Sum, b.Sum)
	a.SumSq.Add(a.SumSq, b.SumSq)
	a.SumAbs.Add(a.SumAbs, b.SumAbs)
	for h := range b.CntHosts {
		a.CntHosts[h] = true
	}
	for h := range b.Hashes {
		a.Hashes[h] = struct{}{}
	}
	a.Kinds |= b.Kinds
	a.NValued += b.NValued
	a.NEvents += b.NEvents
	if !b.ValueSet {
		return
	}
	if !a.ValueSet || b.Min < a.Min {
		a.Min = b.Min
		a.MinHosts = map[data_model.TagUnion]bool{}
	}
	if b.Min == a.Min {
		for h := range b.MinHosts {
			a.MinHosts[h] = true
		}
	}
	if !a.ValueSet || b.Max > a.Max {
		a.Max = b.Max
		a.MaxHosts = map[data_model.TagUnion]bool{}
	}
	if b.Max == a.Max {
		for h := range b.MaxHosts {
			a.MaxHosts[h] = true
		}
	}
	a.ValueSet = true
}

// c02bRefSmallDyadic: f is a multiple of 1/den with |f| <= lim.
func c02bRefSmallDyadic(f float64, den float64, lim float64) bool {
	if math.Abs(f) > lim {
		return false
	}
	x := f * den
	return x == math.Trunc(x)
}

func c02bRefPow2(f float64) bool {
	if f < 1 {
		return false
	}
	fr, _ := math.Frexp(f)
	return fr == 0.5
}

// c02bRefExactEvents: "integers of moderate size" — the inputs for which count, sum and sum of
// squares are claimed exact. Integer values |v| <= 1024, integer counts <= 1024, at most 16 samples
// per event, a weight count/total that is 1 or has a power-of-two denominator, at most 32 events:
// every intermediate of any summation order is then a multiple of 2^-4 below 2^40 (2^46 after a
// sample factor <= 64 that is a multiple of 1/2), i.e. exactly representable in float64.
func c02bRefExactEvents(evs []*c02bRefEvent) bool {
	if len(evs) > 32 {
		return false
	}
	for _, e := range evs {
		total, count := e.totals()
		if !c02bRefSmallDyadic(count, 1, 1024) || !c02bRefSmallDyadic(e.Count, 1, 1024) {
			return false
		}
		if e.kind() != c02bRefKindCounter && count != total && !c02bRefPow2(total) {
			return false
		}
		if total > 16 {
			return false
		}
		for _, v := range e.Values {
			if !c02bRefSmallDyadic(v, 1, 1024) {
				return false
			}
		}
		for _, kv := range e.Hist {
			if !c02bRefSmallDyadic(kv[0], 1, 1024) || !c02bRefSmallDyadic(kv[1], 1, 16) {
				return false
			}
		}
		for _, h := range e.Uniq {
			if h > 1024 || h < -1024 {
				return false
			}
		}
	}
	return true
}

// ---------- ClickHouse "uniq" sketch, reference side ----------

// intHash32 from ClickHouse src/Common/HashTable/Hash.h, written with rotations.
func c02bRefIntHash32(key uint64) uint32 {
	key = ^key + (key << 18)
	key ^= bits.RotateLeft64(key, 64-31)
	key *= 21
	key ^= bits.RotateLeft64(key, 64-11)
	key += key << 6
	key ^= bits.RotateLeft64(key, 64-22)
	return uint32(key)
}

// c02bRefSketchWire parses the ClickHouse wire form (skip degree, varint count, hashes) into the skip
// degree and the sorted hash list; ok=false on malformed input.
func c02bRefSketchWire(b []byte) (skip uint32, hashes []uint32, ok bool) {
	if len(b) < 2 {
		return 0, nil, false
	}
	skip = uint32(b[0])
	n := uint64(0)
	i := 1
	for shift := uint(0); ; shift += 7 {
		if i >= len(b) || shift > 63 {
			return 0, nil, false
		}
		c := b[i]
		i++
		n |= uint64(c&0x7f) << shift
		if c < 0x80 {
			break
		}
	}
	if uint64(len(b)-i) != 4*n {
		return 0, nil, false
	}
	hashes = make([]uint32, 0, n)
	for ; i < len(b); i += 4 {
		hashes = append(hashes, uint32(b[i])|uint32(b[i+1])<<8|uint32(b[i+2])<<16|uint32(b[i+3])<<24)
	}
	sort.Slice(hashes, func(x, y int) bool { return hashes[x] < hashes[y] })
	return skip, hashes, true
}

// ---------- shared generators ----------

// c02bRefPalette describes how numbers of one case are drawn: mode 0 = small integers (the exact
// class), 1 = dyadic fractions, 2 = decimal fractions and large magnitudes. A small palette of
// values per case makes "all values identical" (min == max) common.
type c02bRefPalette struct {
	Mode   int
	Values []float64
}

func c02bRefGenPalette(t *rapid.T) c02bRefPalette {
	p := c02bRefPalette{Mode: rapid.SampledFrom([]int{0, 0, 0, 1, 2, 2}).Draw(t, "numMode")}
	n := rapid.SampledFrom([]int{1, 1, 1, 2, 2, 3, 5, 8}).Draw(t, "paletteLen")
	for i := 0; i < n; i++ {
		p.Values = append(p.Values, c02bRefGenValue(t, p.Mode))
	}
	return p
}

func c02bRefGenValue(t *rapid.T, mode int) float64 {
	switch mode {
	case 0:
		if rapid.IntRange(0, 3).Draw(t, "tiny") != 0 {
			return float64(rapid.IntRange(-3, 12).Draw(t, "vint"))
		}
		return float64(rapid.IntRange(-1024, 1024).Draw(t, "vint"))
	case 1:
		return float64(rapid.IntRange(-8000, 8000).Draw(t, "v8")) / 8
	default:
		switch rapid.IntRange(0, 5).Draw(t, "vclass") {
		case 0:
			return float64(rapid.IntRange(-50, 50).Draw(t, "v10")) / 10
		case 1:
			return rapid.Float64Range(-1e6, 1e6).Draw(t, "vf")
		case 2:
			return rapid.SampledFrom([]float64{1e-30, -1e-30, 1e15, -1e15, 3e18, 1e-9, 0}).Draw(t, "vbig")
		case 3:
			return float64(rapid.Float32Range(-1e9, 1e9).Draw(t, "vf32"))
		default:
			return float64(rapid.IntRange(-100000, 100000).Draw(t, "vi"))
		}
	}
}

// explicit counter of an event that carries total samples; 0 = not given
func c02bRefGenCount(t *rapid.T, mode int, total float64) float64 {
	switch rapid.IntRange(0, 5).Draw(t, "cntClass") {
	case 0, 1:
		return 0
	case 2:
		return total
	case 3:
		return float64(rapid.IntRange(1, 20).Draw(t, "cnt"))
	default:
		switch mode {
		case 0:
			return float64(rapid.IntRange(1, 1024).Draw(t, "cnt"))
		case 1:
			return float64(rapid.IntRange(1, 4000).Draw(t, "cnt4")) / 4
		default:
			return rapid.SampledFrom([]float64{0.1, 0.3, 2.5, 7.7, 1e6, 123456.789, 1e-3}).Draw(t, "cntf")
		}
	}
}

var c02bRefHosts = []c02bRefHost{{}, {}, {I: 1}, {I: 2}, {I: 3}, {S: "ha"}, {S: "hb"}}

// c02bRefGenEvent draws one event. kinds is the list to sample the kind from; uniqMax bounds the size
// of a unique event.
func c02bRefGenEvent(t *rapid.T, p c02bRefPalette, kinds []int, hosts []c02bRefHost, uniqMax int) c02bRefEvent {
	e := c02bRefEvent{Kind: rapid.SampledFrom(kinds).Draw(t, "kind"), Host: rapid.SampledFrom(hosts).Draw(t, "host")}
	pick := func() float64 {
		if rapid.IntRange(0, 9).Draw(t, "offPalette") == 0 {
			return c02bRefGenValue(t, p.Mode)
		}
		return rapid.SampledFrom(p.Values).Draw(t, "pv")
	}
	switch e.Kind {
	case c02bRefKindCounter:
		e.Count = c02bRefGenCount(t, p.Mode, 1)
		if e.Count == 0 {
			e.Count = 1
		}
	case c02bRefKindValues:
		nv := rapid.SampledFrom([]int{1, 1, 1, 2, 3, 4, 8}).Draw(t, "nv")
		nh := 0
		if rapid.IntRange(0, 4).Draw(t, "hist") == 0 {
			nh = rapid.IntRange(1, 3).Draw(t, "nh")
			if rapid.Bool().Draw(t, "histOnly") {
				nv = 0
			}
		}
		for i := 0; i < nv; i++ {
			e.Values = append(e.Values, pick())
		}
		for i := 0; i < nh; i++ {
			var cc float64
			switch p.Mode {
			case 0:
				cc = float64(rapid.IntRange(1, 5).Draw(t, "hc"))
			case 1:
				cc = float64(rapid.IntRange(1, 40).Draw(t, "hc4")) / 4
			default:
				cc = rapid.SampledFrom([]float64{0.5, 1, 2.5, 3.3, 100}).Draw(t, "hcf")
			}
			e.Hist = append(e.Hist, [2]float64{pick(), cc})
		}
		total, _ := e.totals()
		e.Count = c02bRefGenCount(t, p.Mode, total)
	case c02bRefKindUnique:
		n := rapid.IntRange(1, uniqMax).Draw(t, "nu")
		for i := 0; i < n; i++ {
			var h int64
			switch p.Mode {
			case 0:
				h = int64(rapid.IntRange(-1024, 1024).Draw(t, "uh"))
			case 1:
				h = int64(rapid.IntRange(-100000, 100000).Draw(t, "uh"))
			default:
				if rapid.Bool().Draw(t, "uhBig") {
					h = rapid.Int64().Draw(t, "uh64")
				} else {
					h = int64(rapid.IntRange(0, 50).Draw(t, "uh"))
				}
			}
			e.Uniq = append(e.Uniq, h)
		}
		e.Count = c02bRefGenCount(t, p.Mode, float64(n))
	}
	return e
}

// ======================================================================================
// C02/bucket
// ======================================================================================

type c02bTag struct {
	Idx int    `json:"idx"`
	I   int32  `json:"i,omitempty"`
	S   string `json:"s,omitempty"`
}

type c02bEv struct {
	Top c02bRefHost  `json:"top"`
	Ev  c02bRefEvent `json:"ev"`
}

type c02bRow struct {
	MetricIdx int       `json:"metric_idx"` // index into Metrics (rows may share a metric)
	Tags      []c02bTag `json:"tags"`
	TsBack    uint32    `json:"ts_back"` // key timestamp = bucket time - TsBack
	Events    []c02bEv  `json:"events"`
}

type c02bMetric struct {
	ID            int32 `json:"id"`
	Percentiles   bool  `json:"percentiles,omitempty"`
	NoSampleAgent bool  `json:"no_sample_agent,omitempty"`
}

type c02bCase struct {
	BucketTime uint32       `json:"bucket_time"`
	Metrics    []c02bMetric `json:"metrics"`
	Rows       []c02bRow    `json:"rows"`
	Budget     int          `json:"budget"`   // SampleBudget in bytes; 0 = default (does not bind)
	SendTop    int          `json:"send_top"` // StringTopCountSend
	AggHost    c02bRefHost  `json:"agg_host"`
	Seed       uint64       `json:"seed"`
}

// c02bMakeShard: literal Agent + Shard the way Test_AgentQueue / Benchmark_SampleBucket* build them.
func c02bMakeShard(config Config, nowUnix uint32) *Shard {
	agent := &Agent{
		config:             config,
		logF:               func(f string, a ...any) {},
		mappingsCache:      pcache.NewMappingsCache(data_model.NewChunkedStorageNop(), 1024*1024, 86400),
		shardByMetricCount: 1,
		componentTag:       format.TagValueIDComponentAgent,
	}
	shard := &Shard{
		config:      config,
		agent:       agent,
		CurrentTime: nowUnix,
		SendTime:    nowUnix - 2,
	}
	for j := 0; j < superQueueLen; j++ {
		shard.SuperQueue[j] = &data_model.MetricsBucket{}
	}
	shard.cond = sync.NewCond(&shard.mu)
	shard.metricBudgetsFromAgg = data_model.NewExpDecay(config.BudgetDecayHalfLife)
	agent.Shards = append(agent.Shards, shard)
	agent.initBuiltInMetrics()
	return shard
}

type c02bCentroid struct {
	Mean, Weight float32
}

func c02bSortCentroids(cc []c02bCentroid) {
	sort.Slice(cc, func(i, j int) bool {
		if cc[i].Mean != cc[j].Mean {
			return cc[i].Mean < cc[j].Mean
		}
		return cc[i].Weight < cc[j].Weight
	})
}

func c02bHostOr(h, def data_model.TagUnion) data_model.TagUnion {
	if h.Empty() {
		return def
	}
	return h
}

type c02bSent struct {
	item    *data_model.MultiItem // the sender's row (pointer survives sampleBucket)
	meta    *format.MetricMetaValue
	refTail *c02bRefAgg
	refs    map[data_model.TagUnion]*c02bRefAgg
	events  []*c02bRefEvent
	seen    bool
}

func c02bProp(t vpT, c c02bCase) (bool, []string) {
	cls := map[string]bool{}
	nt := c02bRun(t, c, cls)
	out := make([]string, 0, len(cls))
	for k := range cls {
		out = append(out, k)
	}
	sort.Strings(out)
	return nt, out
}

func c02bRun(t vpT, c c02bCase, cls map[string]bool) bool {
	if c.BucketTime <= data_model.BelieveTimestampWindow || len(c.Rows) == 0 || len(c.Metrics) == 0 {
		t.Fatalf("bad case")
	}
	config := DefaultConfig()
	config.StringTopCountSend = c.SendTop
	config.MinSampleBudget = 1
	if c.Budget > 0 {
		config.SampleBudget = c.Budget
	}
	shard := c02bMakeShard(config, c.BucketTime)
	rng := rand.New(c.Seed)

	metas := make([]*format.MetricMetaValue, len(c.Metrics))
	for i, m := range c.Metrics {
		if m.ID <= 0 {
			t.Fatalf("bad case: metric id %d", m.ID)
		}
		metas[i] = &format.MetricMetaValue{MetricID: m.ID, HasPercentiles: m.Percentiles, NoSampleAgent: m.NoSampleAgent,
			EffectiveResolution: 1, EffectiveWeight: 1}
	}

	// ---- build the bucket as Shard.ApplyValues / ApplyUnique / ApplyCounter do
	bucket := &data_model.MetricsBucket{Time: c.BucketTime}
	rows := map[data_model.Key]*c02bSent{}
	for ri := range c.Rows {
		r := &c.Rows[ri]
		if r.MetricIdx < 0 || r.MetricIdx >= len(metas) || r.TsBack > data_model.BelieveTimestampWindow {
			t.Fatalf("bad case: row %d", ri)
		}
		meta := metas[r.MetricIdx]
		key := data_model.Key{Metric: meta.MetricID, Timestamp: c.BucketTime - r.TsBack}
		for _, tg := range r.Tags {
			if tg.Idx < 0 || tg.Idx >= format.StringTopTagIndexV3 {
				t.Fatalf("bad case: tag index %d", tg.Idx)
			}
			if tg.I != 0 {
				key.Tags[tg.Idx] = tg.I
			} else {
				key.STags[tg.Idx] = tg.S
			}
		}
		for ei := range r.Events {
			ev := &r.Events[ei].Ev
			_, count := ev.totals()
			if count <= 0 {
				continue
			}
			item, _ := bucket.GetOrCreateMultiItem(&key, meta, nil)
			s := rows[key]
			if s == nil {
				s = &c02bSent{item: item, meta: meta, refTail: c02bRefNew(), refs: map[data_model.TagUnion]*c02bRefAgg{}}
				rows[key] = s
			} else if s.item != item {
				t.Fatalf("GetOrCreateMultiItem returned another item for the same key")
			}
			top := r.Events[ei].Top.TU()
			mv := item.MapStringTop(rng, config.StringTopCapacity, top, count)
			c02bRefApplyReal(mv, rng, ev, meta.HasPercentiles, false)
			ref := s.refTail
			if !top.Empty() {
				ref = s.refs[top]
				if ref == nil {
					ref = c02bRefNew()
					s.refs[top] = ref
				}
			}
			ref.Apply(ev)
			s.events = append(s.events, ev)
		}
	}
	if len(rows) == 0 {
		return false
	}
	rowsWithTopsBuilt := 0
	metricRows := map[int32]int{}
	for k, s := range rows {
		if len(s.refs) >= config.StringTopCapacity {
			t.Fatalf("bad case: too many top values")
		}
		if len(s.refs) > 0 {
			rowsWithTopsBuilt++
		}
		metricRows[k.Metric]++
	}
	for _, n := range metricRows {
		if n >= 2 {
			cls["rows-share-metric"] = true
		}
	}

	// ---- the real sender
	var sb tlstatshouse.SourceBucket3
	shard.sampleBucket(bucket, &sb, data_model.SamplerBuffers{}, nil, map[int32]uint32{}, map[int32]uint32{}, rng)
	wire := sb.WriteTL1Boxed(nil)

	// ---- the aggregator side (handleSendSourceBucket)
	var got tlstatshouse.SourceBucket3Bytes
	if rest, err := got.ReadTL1Boxed(wire); err != nil || len(rest) != 0 {
		t.Fatalf("aggregator cannot read the bucket: err=%v rest=%d", err, len(rest))
	}
	aggHost := c.AggHost.TU()
	rrng := rand.New(c.Seed + 1)
	keptWithTops := 0
	for i := range got.Metrics {
		it := &got.Metrics[i]
		k, warn := data_model.KeyFromStatshouseMultiItem(it, c.BucketTime)
		for j, str := range it.Skeys {
			if j >= format.MaxTags {
				break
			}
			k.STags[j] = string(str)
		}
		if warn != 0 {
			t.Fatalf("item %d: ingestion warning %d", i, warn)
		}
		s := rows[k]
		if s == nil {
			t.Fatalf("item %d: the aggregator reconstructs key %+v, no such row was written (rows: %d)", i, c02bKeyString(k), len(rows))
		}
		if s.seen {
			t.Fatalf("item %d: key %v arrives twice", i, c02bKeyString(k))
		}
		s.seen = true
		sf := s.item.SF
		if !(sf >= 1) {
			t.Fatalf("row %v kept with sample factor %v", c02bKeyString(k), sf)
		}
		if sf != 1 {
			cls["row-sf!=1"] = true
		}
		// tops the sender folded into the tail (FinishStringTop inside sampleBucket)
		refTail := c02bRefNew()
		refTail.Merge(s.refTail)
		refs := map[data_model.TagUnion]*c02bRefAgg{}
		for tk, r := range s.refs {
			if _, ok := s.item.Top[tk]; ok {
				refs[tk] = r
			} else {
				refTail.Merge(r)
				cls["top-folded-before-send"] = true
			}
		}
		if len(s.item.Top) != len(refs) {
			t.Fatalf("row %v: sender has %d top entries, events produced %d", c02bKeyString(k), len(s.item.Top), len(refs))
		}
		if !s.meta.NoSampleAgent && len(refs) > c.SendTop {
			t.Fatalf("row %v: %d top entries sent with StringTopCountSend %d", c02bKeyString(k), len(refs), c.SendTop)
		}
		recv := &data_model.MultiItem{Key: k}
		ingErr := recv.MergeWithTLMultiItem(rrng, data_model.AggregatorStringTopCapacity, it, aggHost)
		exact := c02bRefExactEvents(s.events) && c02bRefSmallDyadic(sf, 2, 64)
		if exact {
			cls["exact-row"] = true
		}
		rsf := c02bRat(sf)
		maxF32 := c02bRat(math.MaxFloat32)
		tooBig := func(r *c02bRefAgg) bool {
			return new(big.Rat).Mul(r.Count, rsf).Cmp(maxF32) > 0 || new(big.Rat).Mul(new(big.Rat).Abs(r.Sum), rsf).Cmp(maxF32) > 0
		}
		if ingErr != 0 {
			over := tooBig(refTail)
			for _, r := range refs {
				over = over || tooBig(r)
			}
			if !over {
				t.Fatalf("row %v: aggregator rejected the row with ingestion status %d although every aggregate is within limits", c02bKeyString(k), ingErr)
			}
			cls["rejected-too-big"] = true
			continue
		}
		if len(recv.Top) != len(refs) {
			t.Fatalf("row %v: %d top keys sent, aggregator has %d (%v)", c02bKeyString(k), len(refs), len(recv.Top), c02bTopKeys(recv.Top))
		}
		where := "row " + c02bKeyString(k)
		c02bCompare(t, cls, where+" tail", s.meta, sf, &s.item.Tail, &recv.Tail, refTail, aggHost, exact)
		tks := make([]data_model.TagUnion, 0, len(refs))
		for tk := range refs {
			tks = append(tks, tk)
		}
		sort.Slice(tks, func(a, b int) bool {
			if tks[a].I != tks[b].I {
				return tks[a].I < tks[b].I
			}
			return tks[a].S < tks[b].S
		})
		for _, tk := range tks {
			g, ok := recv.Top[tk]
			if !ok {
				t.Fatalf("%s: top key %+v missing at the aggregator, it has %v", where, tk, c02bTopKeys(recv.Top))
			}
			c02bCompare(t, cls, fmt.Sprintf("%s top %+v", where, tk), s.meta, sf, s.item.Top[tk], g, refs[tk], aggHost, exact)
		}
		if len(refs) > 0 {
			keptWithTops++
		}
		if k.Timestamp != c.BucketTime {
			cls["explicit-timestamp"] = true
		}
		if len(it.Skeys) != 0 {
			cls["string-tags"] = true
		}
		if s.meta.NoSampleAgent {
			cls["no-sample-agent-row"] = true
		}
	}
	kept := 0
	for _, s := range rows {
		if s.seen {
			kept++
		}
	}
	if kept < len(rows) {
		cls["row-discarded"] = true
	} else {
		cls["all-rows-kept"] = true
	}
	if c.Budget == 0 && kept < len(rows) {
		t.Fatalf("%d of %d rows arrived although the default budget (%d bytes) cannot bind", kept, len(rows), config.SampleBudget)
	}
	if kept >= 2 {
		cls["multi-row"] = true
	}
	if keptWithTops >= 2 {
		cls[">=2 rows with string tops"] = true
	}
	return keptWithTops >= 2
}

func c02bKeyString(k data_model.Key) string {
	s := fmt.Sprintf("{metric %d ts %d", k.Metric, k.Timestamp)
	for i := range k.Tags {
		if k.Tags[i] != 0 {
			s += fmt.Sprintf(" %d:%d", i, k.Tags[i])
		}
		if k.STags[i] != "" {
			s += fmt.Sprintf(" %d:%q", i, k.STags[i])
		}
	}
	return s + "}"
}

func c02bTopKeys(m map[data_model.TagUnion]*data_model.MultiValue) string {
	var l []string
	for k := range m {
		l = append(l, fmt.Sprintf("%+v", k))
	}
	sort.Strings(l)
	return fmt.Sprint(l)
}

func c02bCompare(t vpT, cls map[string]bool, where string, meta *format.MetricMetaValue, sf float64, sent, got *data_model.MultiValue, ref *c02bRefAgg, aggHost data_model.TagUnion, exact bool) {
	rsf := c02bRat(sf)
	const rel = 1e-9
	if !c02bRatClose(sent.Value.Count(), ref.Count, ref.Count, exact, rel) {
		t.Fatalf("%s: sender count %v, events say %v", where, sent.Value.Count(), c02bRatF(ref.Count))
	}
	wantCount := new(big.Rat).Mul(ref.Count, rsf)
	if !c02bRatClose(got.Value.Count(), wantCount, wantCount, exact, rel) {
		t.Fatalf("%s: count: aggregator %v, want count*sf = %v (sf %v)", where, got.Value.Count(), c02bRatF(wantCount), sf)
	}
	if ref.Count.Sign() == 0 {
		if got.Value.ValueSet || got.HLL.ItemsCount() != 0 || got.ValueTDigest != nil {
			t.Fatalf("%s: empty entry arrived non-empty: %+v", where, got.Value)
		}
		return
	}
	if w := c02bHostOr(sent.Value.MaxCounterHostTag, aggHost); got.Value.MaxCounterHostTag != w {
		t.Fatalf("%s: max-count host: sender %+v, aggregator host %+v, arrived %+v", where, sent.Value.MaxCounterHostTag, aggHost, got.Value.MaxCounterHostTag)
	}
	if !ref.CntHosts[sent.Value.MaxCounterHostTag] {
		t.Fatalf("%s: sender max-count host %+v did not contribute", where, sent.Value.MaxCounterHostTag)
	}
	if got.Value.ValueSet != ref.ValueSet {
		t.Fatalf("%s: ValueSet: aggregator %v, events %v", where, got.Value.ValueSet, ref.ValueSet)
	}
	if ref.ValueSet {
		if got.Value.ValueMin != ref.Min || got.Value.ValueMax != ref.Max {
			t.Fatalf("%s: min/max: aggregator %v/%v, events %v/%v", where, got.Value.ValueMin, got.Value.ValueMax, ref.Min, ref.Max)
		}
		wantSum := new(big.Rat).Mul(ref.Sum, rsf)
		scale := new(big.Rat).Mul(ref.SumAbs, rsf)
		if !c02bRatClose(got.Value.ValueSum, wantSum, scale, exact, rel) {
			t.Fatalf("%s: sum: aggregator %v, want sum*sf = %v (sender sum %v count %v sf %v)", where, got.Value.ValueSum, c02bRatF(wantSum), sent.Value.ValueSum, sent.Value.Count(), sf)
		}
		wantSq := new(big.Rat).Mul(ref.SumSq, rsf)
		if !c02bRatClose(got.Value.ValueSumSquare, wantSq, wantSq, exact, rel) {
			t.Fatalf("%s: sumsquare: aggregator %v, want sumsquare*sf = %v (sf %v)", where, got.Value.ValueSumSquare, c02bRatF(wantSq), sf)
		}
		if w := c02bHostOr(sent.Value.MinHostTag, aggHost); got.Value.MinHostTag != w {
			t.Fatalf("%s: min host: sender %+v, aggregator host %+v, arrived %+v", where, sent.Value.MinHostTag, aggHost, got.Value.MinHostTag)
		}
		if w := c02bHostOr(sent.Value.MaxHostTag, aggHost); got.Value.MaxHostTag != w {
			t.Fatalf("%s: max host: sender %+v, aggregator host %+v, arrived %+v", where, sent.Value.MaxHostTag, aggHost, got.Value.MaxHostTag)
		}
		if !ref.MinHosts[sent.Value.MinHostTag] || !ref.MaxHosts[sent.Value.MaxHostTag] {
			t.Fatalf("%s: sender min/max host %+v/%+v did not contribute the min/max", where, sent.Value.MinHostTag, sent.Value.MaxHostTag)
		}
	} else if !got.Value.MinHostTag.Empty() || !got.Value.MaxHostTag.Empty() {
		t.Fatalf("%s: counter-only entry arrived with min/max host %+v/%+v", where, got.Value.MinHostTag, got.Value.MaxHostTag)
	}

	// unique set
	if len(ref.Hashes) != 0 {
		cls["uniques"] = true
	}
	gotSkip, gotH, ok := c02bRefSketchWire(got.HLL.MarshallAppend(nil))
	if !ok {
		t.Fatalf("%s: cannot parse marshalled sketch", where)
	}
	if len(gotH) != len(ref.Hashes) || got.HLL.ItemsCount() != len(ref.Hashes) || gotSkip != 0 || got.HLL.Size(false) != uint64(len(ref.Hashes)) {
		t.Fatalf("%s: unique set: aggregator has %d hashes (ItemsCount %d, Size %d, skip %d), events have %d distinct", where,
			len(gotH), got.HLL.ItemsCount(), got.HLL.Size(false), gotSkip, len(ref.Hashes))
	}
	for _, h := range gotH {
		if _, ok := ref.Hashes[h]; !ok {
			t.Fatalf("%s: unique hash %d was never written to this row", where, h)
		}
	}

	// centroids
	var want []c02bCentroid
	if meta.HasPercentiles && ref.ValueSet {
		if sent.ValueTDigest != nil {
			for _, ce := range sent.ValueTDigest.Centroids() {
				w := float32(ce.Weight * sf)
				if w == 0 {
					continue
				}
				want = append(want, c02bCentroid{float32(ce.Mean), w})
			}
			cls["centroids"] = true
		} else {
			cls["implicit-centroid"] = true
		}
	}
	if !(meta.HasPercentiles && ref.ValueSet) || (sent.ValueTDigest != nil && len(want) == 0) {
		if got.ValueTDigest != nil && len(got.ValueTDigest.Centroids()) != 0 {
			t.Fatalf("%s: aggregator has centroids %v for a row without percentiles", where, got.ValueTDigest.Centroids())
		}
		return
	}
	if got.ValueTDigest == nil {
		t.Fatalf("%s: percentile row arrived without digest", where)
	}
	gc := got.ValueTDigest.Centroids()
	if sent.ValueTDigest == nil {
		if len(gc) != 1 || gc[0].Mean != ref.Min || !c02bRatClose(gc[0].Weight, wantCount, wantCount, exact, rel) {
			t.Fatalf("%s: implicit centroid: aggregator %v, want (%v, %v)", where, gc, ref.Min, c02bRatF(wantCount))
		}
		return
	}
	var gotC []c02bCentroid
	var gw, ww, gm, wm, absm float64
	for _, ce := range gc {
		gotC = append(gotC, c02bCentroid{float32(ce.Mean), float32(ce.Weight)})
		gw += ce.Weight
		gm += ce.Mean * ce.Weight
	}
	distinct := true
	c02bSortCentroids(want)
	for i, ce := range want {
		ww += float64(ce.Weight)
		wm += float64(ce.Mean) * float64(ce.Weight)
		absm += math.Abs(float64(ce.Mean)) * float64(ce.Weight)
		if i > 0 && want[i-1].Mean == ce.Mean {
			distinct = false
		}
	}
	if len(gotC) > len(want) || math.Abs(gw-ww) > 1e-5*ww {
		t.Fatalf("%s: centroids: sent %d with weight %v, aggregator has %d with weight %v", where, len(want), ww, len(gotC), gw)
	}
	if math.Abs(gm-wm) > 1e-5*absm {
		t.Fatalf("%s: centroids: first moment sent %v, aggregator %v", where, wm, gm)
	}
	if distinct && len(gotC) == len(want) {
		c02bSortCentroids(gotC)
		for i := range want {
			if gotC[i] != want[i] {
				t.Fatalf("%s: centroid %d: sent %v (= sender centroid × sf %v), aggregator %v", where, i, want[i], sf, gotC[i])
			}
		}
	}
}

// ---------- generator ----------

var c02bTops = []c02bRefHost{{}, {S: "a"}, {S: "b"}, {S: "c"}, {S: "dd"}, {I: 7}, {I: 8}, {I: -5}}

func c02bGen() *rapid.Generator[c02bCase] {
	return rapid.Custom(func(t *rapid.T) c02bCase {
		c := c02bCase{
			BucketTime: uint32(rapid.IntRange(data_model.BelieveTimestampWindow+10, 2_000_000_000).Draw(t, "bucketTime")),
			Seed:       rapid.Uint64().Draw(t, "seed"),
			AggHost:    rapid.SampledFrom([]c02bRefHost{{I: 100}, {I: 100}, {S: "agent-host"}, {}}).Draw(t, "aggHost"),
			SendTop:    rapid.SampledFrom([]int{20, 20, 20, 5, 5, 6}).Draw(t, "sendTop"),
		}
		nm := rapid.IntRange(1, 4).Draw(t, "nMetrics")
		for i := 0; i < nm; i++ {
			c.Metrics = append(c.Metrics, c02bMetric{
				ID:            int32(1 + i + 10*rapid.IntRange(0, 1000).Draw(t, "metricBase")),
				Percentiles:   rapid.IntRange(0, 2).Draw(t, "percentiles") == 0,
				NoSampleAgent: rapid.IntRange(0, 7).Draw(t, "noSampleAgent") == 0,
			})
		}
		// budget: mostly does not bind; sometimes binds (rows then carry their own sample factor)
		switch rapid.IntRange(0, 3).Draw(t, "budgetClass") {
		case 0:
			c.Budget = rapid.IntRange(40, 1500).Draw(t, "budget")
		case 1:
			c.Budget = rapid.SampledFrom([]int{100, 200, 300, 500}).Draw(t, "budget")
		}
		pal := c02bRefGenPalette(t)
		kinds := rapid.SampledFrom([][]int{{0, 1}, {0, 1}, {0, 1, 1, 1}, {1}, {0}, {2}, {0, 1, 2}, {1, 2}}).Draw(t, "kinds")
		hosts := rapid.SampledFrom([][]c02bRefHost{{{}}, {{}}, {{I: 1}}, c02bRefHosts, c02bRefHosts, {{}, {I: 1}}}).Draw(t, "hosts")
		nrows := rapid.SampledFrom([]int{1, 2, 2, 3, 3, 4, 5, 6, 8, 12}).Draw(t, "nRows")
		topRate := rapid.SampledFrom([]int{1, 2, 2, 4}).Draw(t, "topRate") // 1 = every row has tops
		for ri := 0; ri < nrows; ri++ {
			r := c02bRow{MetricIdx: rapid.IntRange(0, nm-1).Draw(t, "metricIdx")}
			// distinct keys: tag 0 carries the row number unless we deliberately collide
			if rapid.IntRange(0, 9).Draw(t, "sameKey") != 0 {
				r.Tags = append(r.Tags, c02bTag{Idx: 0, I: int32(ri + 1)})
			}
			nt := rapid.SampledFrom([]int{0, 0, 1, 2, 5}).Draw(t, "ntags")
			used := map[int]bool{0: true}
			for i := 0; i < nt; i++ {
				idx := rapid.IntRange(1, format.StringTopTagIndexV3-1).Draw(t, "tagIdx")
				if used[idx] {
					continue
				}
				used[idx] = true
				tg := c02bTag{Idx: idx}
				if rapid.Bool().Draw(t, "stag") {
					tg.S = rapid.StringMatching(`[a-z0-9_.]{1,10}`).Draw(t, "stagv")
				} else {
					tg.I = int32(rapid.IntRange(1, 100000).Draw(t, "tagv"))
				}
				r.Tags = append(r.Tags, tg)
			}
			switch rapid.IntRange(0, 4).Draw(t, "tsMode") {
			case 0:
				r.TsBack = uint32(rapid.IntRange(1, 120).Draw(t, "tsBack"))
			case 1:
				r.TsBack = uint32(rapid.IntRange(1, data_model.BelieveTimestampWindow).Draw(t, "tsBack"))
			}
			withTops := rapid.IntRange(1, topRate).Draw(t, "withTops") == 1
			ne := rapid.SampledFrom([]int{1, 2, 3, 4, 6, 10}).Draw(t, "nEvents")
			for i := 0; i < ne; i++ {
				e := c02bEv{Ev: c02bRefGenEvent(t, pal, kinds, hosts, 8)}
				if withTops {
					e.Top = rapid.SampledFrom(c02bTops).Draw(t, "top")
				}
				r.Events = append(r.Events, e)
			}
			c.Rows = append(c.Rows, r)
		}
		return c
	})
}

func TestVerifC02Bucket(t *testing.T) {
	ev := vpNewEv(t, "C02", "bucket")
	rapid.Check(t, func(rt *rapid.T) {
		c := c02bGen().Draw(rt, "case")
		vpRunCase(rt, "C02", "bucket", c, func() {
			nt, cls := c02bProp(rt, c)
			ev.Case(nt, c, cls...)
		})
	})
}

func init() {
	vpReplayers["C02/bucket"] = func(t vpT, raw json.RawMessage) {
		var c c02bCase
		if err := json.Unmarshal(raw, &c); err != nil {
			t.Fatalf("decode: %v", err)
		}
		c02bProp(t, c)
	}
}

var _ = bits.Len // math/bits is used by the copied helper
