//go:build verif

package agent

// C01, layer A' — "an agent forgets a buffered second (in memory or on disk) only after an
// aggregator acknowledged it".
//
// A real Agent from MakeAgent (cache dir, 3 replica addresses) talks to three scripted rpc.Servers.
// The harness starts the same sender goroutines Agent.Run starts (goSendRecent x MaxConveyorDelay,
// goSendHistoric x MaxHistorySendStreams, goEraseHistoric), feeds seconds through
// Shard.sendToSenders (what preProcess calls), shuts the incarnation down the way cmd/statshouse
// does (DisableNewSends, WaitRecentSenders), reads the cache directory with an independent parser
// and starts the next incarnation on the same directory. The last incarnation ends with a drain
// phase in which every replica is healthy and answers discard.
//
// Oracle (invariant over the recorded history, none of it compares the agent with itself):
//  O1 no loss at restart: after a graceful shutdown every accepted second for which no server has
//     issued a discard, which is inside the historic window and cannot have been hit by the disk
//     limit rule, is a live record of the cache directory with its exact time and payload.
//  O2 no phantom: every live record of the directory is an accepted second (time, payload), once.
//  O3 wire integrity: every request carries the time and payload of the second it names; at most one
//     offering of a second is non-historic (every re-offer goes through the historic conveyor).
//  O4 nothing is forgotten while un-acknowledged (state based, time only decides when to look): in
//     the drain phase (after the recent senders of the last incarnation have finished) an outstanding
//     second must be somewhere: in Shard.historicBucketsToSend, in the hands of a sender goroutine, or
//     a live record of the cache directory. It is a violation only if it is in none of them: not in
//     the queue, all 24 goSendHistoric goroutines parked in cond.Wait and goEraseHistoric idle (read
//     from a labelled goroutine profile), and not live on disk - seen twice, 0.5 s apart. A second
//     that is still present but was not offered within the budget makes the history inconclusive.
//  O5 restart yields exactly what is on disk: right after MakeAgent of a later incarnation every live
//     record found at the previous exit is indexed by the new disk cache (same file, position, time)
//     and queued in historicBucketsToSend, or lies in the part of the tail not read yet; and the cache
//     indexes nothing else.

import (
	"bytes"
	"context"
	"encoding/binary"
	"encoding/json"
	"errors"
	"fmt"
	"hash/crc32"
	"io"
	"log"
	"net"
	"os"
	"path/filepath"
	"runtime/pprof"
	"sort"
	"strings"
	"sync"
	"sync/atomic"
	"testing"
	"time"

	"github.com/VKCOM/tl/pkg/rpc"
	"pgregory.net/rapid"

	"github.com/VKCOM/statshouse/internal/compress"
	"github.com/VKCOM/statshouse/internal/data_model"
	"github.com/VKCOM/statshouse/internal/data_model/gen2/tlstatshouse"
	"github.com/VKCOM/statshouse/internal/format"
	"github.com/VKCOM/statshouse/internal/pcache"
	"github.com/VKCOM/statshouse/internal/vkgo/semaphore"
)

// ---------- case (plain data) ----------

const (
	c01apActDiscard = 0
	c01apActKeep    = 1
	c01apActRPCErr  = 2
	c01apActHang    = 3 // hang 300 ms, then the connection is dropped without a response
	c01apActDrop    = 4 // request processed, connection dropped at once (lost response)
	c01apActHangL   = 5 // hang 1 s, then drop
)

type c01apSec struct {
	Age          int   `json:"age"`           // time of the second = unix time at phase start - Age (>= 1)
	Pad          int   `json:"pad"`           // payload padding
	DelayMs      int   `json:"delay_ms"`      // pause before feeding it
	Script       []int `json:"script"`        // answer to the k-th offering of this second
	Stubborn     bool  `json:"stubborn"`      // after the script: keep until the drain phase (else discard)
	AfterDisable bool  `json:"after_disable"` // fed after DisableNewSends (shutdown flush path)
}

type c01apPhase struct {
	Down   []bool     `json:"down"` // replica refuses connections during the phase (not in the drain)
	Secs   []c01apSec `json:"secs"`
	HoldMs int        `json:"hold_ms"`
}

type c01apHist struct {
	HistoricWindow  int          `json:"historic_window"`
	DiskMode        int          `json:"disk_mode"` // 0 disk, default limit; 1 disk, small limit; 2 no cache dir; 3 limit 0
	DiskLimit       int64        `json:"disk_limit"`
	SaveImmediately bool         `json:"save_immediately"`
	LiveWin         int          `json:"live_win"`
	LiveSucc        int          `json:"live_succ"`
	SpreadMs        int          `json:"spread_ms"`
	RecentSenders   int          `json:"recent_senders"` // goSendRecent goroutines; 0 = MaxConveyorDelay as in Agent.Run. 1-2 reaches the "all recent senders busy" path of sendToSenders without 24 s of slow answers
	Phases          []c01apPhase `json:"phases"`
}

// ---------- timing constants (pacing only; none of them decides O1..O3) ----------

var (
	c01apDrainBudget = 90 * time.Second // real-time budget of the drain; running out of it is inconclusive, never a violation
	c01apRecentWait  = 50 * time.Second // a recent send has a 24 s deadline
	c01apLookAfter   = 1500 * time.Millisecond
)

// ---------- model of what the harness did and what the servers saw ----------

type c01apOffer struct {
	phase    int
	replica  int
	historic bool
	spare    bool
	action   int
}

type c01apSecState struct {
	ord      int
	phase    int
	t        uint32
	data     []byte
	plan     c01apSec
	accepted bool
	memOnly  bool // the configuration has no disk copy
	offers   []c01apOffer
	discard  bool // some server issued a discard for it
}

type c01apWorld struct {
	h  c01apHist
	mu sync.Mutex

	secs      []*c01apSecState
	phase     int
	drain     bool
	lastReq   time.Time
	inflight  int
	release   chan struct{} // closed when hanging handlers must let go
	protoErr  string        // first O3 violation seen by a server
	bytesPut  int64         // upper bound of bytes ever written to the cache dir
	logs      []string
	classes   map[string]bool
	srv       [3]*c01apSrv
	keepalive int
}

func (w *c01apWorld) class(c string) {
	w.mu.Lock()
	w.classes[c] = true
	w.mu.Unlock()
}

func (w *c01apWorld) logf(f string, a ...any) {
	s := fmt.Sprintf(f, a...)
	w.mu.Lock()
	if len(w.logs) < 400 {
		w.logs = append(w.logs, s)
	}
	switch {
	case strings.Contains(s, "does not fit into full admission window"):
		w.classes["dropped-out-of-window"] = true
	case strings.Contains(s, "violates disk size limit"):
		w.classes["dropped-disk-limit"] = true
	case strings.Contains(s, "Aggregator Dead"):
		w.classes["replica-marked-dead"] = true
	case strings.Contains(s, "Aggregator Alive"):
		w.classes["replica-revived"] = true
	}
	w.mu.Unlock()
}

// ---------- scripted replica ----------

type c01apListener struct {
	net.Listener
	w     *c01apWorld
	mu    sync.Mutex
	down  bool
	conns map[string]net.Conn
}

func (l *c01apListener) Accept() (net.Conn, error) {
	for {
		c, err := l.Listener.Accept()
		if err != nil {
			return nil, err
		}
		l.w.mu.Lock()
		l.w.lastReq = time.Now() // an agent that is (re)connecting is not silent
		l.w.mu.Unlock()
		l.mu.Lock()
		if l.down {
			l.mu.Unlock()
			_ = c.Close()
			continue
		}
		l.conns[c.RemoteAddr().String()] = c
		l.mu.Unlock()
		return c, nil
	}
}

func (l *c01apListener) drop(remote string) {
	l.mu.Lock()
	c := l.conns[remote]
	delete(l.conns, remote)
	l.mu.Unlock()
	if c != nil {
		_ = c.Close()
	}
}

func (l *c01apListener) setDown(down bool) {
	l.mu.Lock()
	l.down = down
	var cs []net.Conn
	if down {
		for k, c := range l.conns {
			cs = append(cs, c)
			delete(l.conns, k)
		}
	}
	l.mu.Unlock()
	for _, c := range cs {
		_ = c.Close()
	}
}

type c01apSrv struct {
	w    *c01apWorld
	idx  int
	ln   *c01apListener
	srv  *rpc.Server
	addr string
	done chan struct{}
}

var c01apErrDropped = errors.New("c01ap: connection dropped by script")

func c01apStartSrv(w *c01apWorld, idx int) (*c01apSrv, error) {
	ln, err := net.Listen("tcp4", "127.0.0.1:0")
	if err != nil {
		return nil, err
	}
	s := &c01apSrv{w: w, idx: idx, addr: ln.Addr().String(), done: make(chan struct{})}
	s.ln = &c01apListener{Listener: ln, w: w, conns: map[string]net.Conn{}}
	h := tlstatshouse.Handler{
		RawSendSourceBucket3: s.handleBucket,
		RawSendKeepAlive3:    s.handleKeepAlive,
	}
	s.srv = rpc.NewServer(
		rpc.ServerWithCryptoKeys([]string{""}),
		rpc.ServerWithLogf(func(string, ...any) {}),
		rpc.ServerWithHandler(h.Handle),
		rpc.ServerWithDisableContextTimeout(true),
		rpc.ServerWithDefaultResponseTimeout(0),
	)
	go func() {
		_ = s.srv.Serve(s.ln)
		close(s.done)
	}()
	return s, nil
}

func (s *c01apSrv) stop() {
	s.ln.setDown(true)
	_ = s.srv.Close()
	<-s.done
}

func (s *c01apSrv) handleKeepAlive(_ context.Context, hctx *rpc.HandlerContext) error {
	var args tlstatshouse.SendKeepAlive3Bytes
	if _, err := args.ReadTL1(hctx.Request); err != nil {
		return err
	}
	s.w.mu.Lock()
	s.w.keepalive++
	s.w.mu.Unlock()
	var resp tlstatshouse.SendSourceBucket3ResponseBytes
	hctx.Response, _ = args.WriteResultTL1(hctx.Response, resp)
	return nil
}

func (s *c01apSrv) handleBucket(_ context.Context, hctx *rpc.HandlerContext) error {
	w := s.w
	var args tlstatshouse.SendSourceBucket3Bytes
	if _, err := args.ReadTL1(hctx.Request); err != nil {
		w.proto("replica %d: undecodable sendSourceBucket3: %v", s.idx, err)
		return err
	}
	remote := hctx.RemoteAddr().String()
	ord := -1
	if raw, err := compress.Decompress(args.OriginalSize, args.CompressedData); err == nil {
		var b tlstatshouse.SourceBucket3Bytes
		if _, err := b.ReadTL1Boxed(raw); err == nil && len(b.Metrics) == 1 && len(b.Metrics[0].Keys) >= 2 {
			ord = int(b.Metrics[0].Keys[1])
		}
	}
	w.mu.Lock()
	w.lastReq = time.Now()
	if ord < 0 || ord >= len(w.secs) {
		w.protoLocked("replica %d: request for time %d with a payload that is not a fed second", s.idx, args.Time)
		w.mu.Unlock()
		return &rpc.Error{Code: -4001, Description: "c01ap: unknown payload"}
	}
	st := w.secs[ord]
	if args.Time != st.t || args.OriginalSize != binary.LittleEndian.Uint32(st.data) || string(args.CompressedData) != string(st.data[4:]) {
		w.protoLocked("replica %d: second #%d (time %d) offered with time %d / a different payload", s.idx, ord, st.t, args.Time)
	}
	k := len(st.offers)
	historic := args.IsSetHistoric()
	if !historic {
		// handlers of one second may run out of order (a request read from a connection that was then
		// dropped can be handled after its historic successor), so the rule is a count, not an order
		for _, o := range st.offers {
			if !o.historic {
				w.protoLocked("second #%d (time %d) was offered twice without the historic flag (offers so far %s)", ord, st.t, c01apOffers(st.offers))
			}
		}
	}
	action := c01apActDiscard
	switch {
	case w.drain:
		action = c01apActDiscard
	case k < len(st.plan.Script):
		action = st.plan.Script[k]
	case st.plan.Stubborn:
		action = c01apActKeep
	}
	st.offers = append(st.offers, c01apOffer{phase: w.phase, replica: s.idx, historic: historic, spare: args.IsSetSpare(), action: action})
	if action == c01apActDiscard {
		st.discard = true // recorded before the response can reach the agent
	}
	release := w.release
	w.inflight++
	w.mu.Unlock()
	defer func() {
		w.mu.Lock()
		w.inflight--
		w.lastReq = time.Now()
		w.mu.Unlock()
	}()

	respond := func(discard bool) error {
		var resp tlstatshouse.SendSourceBucket3ResponseBytes
		resp.SetDiscard(discard)
		hctx.Response, _ = args.WriteResultTL1(hctx.Response, resp)
		return nil
	}
	switch action {
	case c01apActDiscard:
		return respond(true)
	case c01apActKeep:
		return respond(false)
	case c01apActRPCErr:
		return &rpc.Error{Code: -4000, Description: "c01ap: scripted error"}
	case c01apActHang, c01apActHangL:
		d := 300 * time.Millisecond
		if action == c01apActHangL {
			d = time.Second
		}
		select {
		case <-time.After(d):
		case <-release:
		}
		s.ln.drop(remote)
		return c01apErrDropped
	default: // c01apActDrop
		s.ln.drop(remote)
		return c01apErrDropped
	}
}

func (w *c01apWorld) proto(f string, a ...any) {
	w.mu.Lock()
	w.protoLocked(f, a...)
	w.mu.Unlock()
}

func (w *c01apWorld) protoLocked(f string, a ...any) {
	if w.protoErr == "" {
		w.protoErr = fmt.Sprintf(f, a...)
	}
}

// ---------- independent reader of the cache directory ----------

type c01apDiskRec struct {
	t    uint32
	body []byte
	file string
	pos  int64
}

var c01apCastagnoli = crc32.MakeTable(crc32.Castagnoli)

// c01apReadDir returns the live records of all files of a shard directory. The format is taken
// from the comment in disk_cache.go: [magic u32][time u32][len u64][crc32c u32] body.
func c01apReadDir(dir string) (live []c01apDiskRec, problems []string) {
	des, err := os.ReadDir(dir)
	if err != nil {
		if os.IsNotExist(err) {
			return nil, nil
		}
		return nil, []string{err.Error()}
	}
	var names []string
	for _, de := range des {
		if !de.IsDir() {
			names = append(names, de.Name())
		}
	}
	sort.Strings(names)
	for _, n := range names {
		b, err := os.ReadFile(filepath.Join(dir, n))
		if err != nil {
			problems = append(problems, err.Error())
			continue
		}
		pos := 0
		for pos < len(b) {
			if len(b)-pos < 20 {
				problems = append(problems, fmt.Sprintf("%s: %d trailing bytes", n, len(b)-pos))
				break
			}
			magic := binary.LittleEndian.Uint32(b[pos:])
			tm := binary.LittleEndian.Uint32(b[pos+4:])
			sz := binary.LittleEndian.Uint64(b[pos+8:])
			crc := binary.LittleEndian.Uint32(b[pos+16:])
			if sz > uint64(len(b)-pos-20) {
				problems = append(problems, fmt.Sprintf("%s: record at %d has size %d beyond the file", n, pos, sz))
				break
			}
			body := b[pos+20 : pos+20+int(sz)]
			switch magic {
			case 0x59b907EC:
				if crc32.Checksum(body, c01apCastagnoli) != crc {
					problems = append(problems, fmt.Sprintf("%s: record at %d (time %d) fails its checksum", n, pos, tm))
				} else {
					live = append(live, c01apDiskRec{t: tm, body: body, file: n, pos: int64(pos)})
				}
			case 0x000007EC:
			default:
				problems = append(problems, fmt.Sprintf("%s: unknown magic %x at %d", n, magic, pos))
				pos = len(b)
				continue
			}
			pos += 20 + int(sz)
		}
	}
	return live, problems
}

// ---------- one incarnation of the agent ----------

type c01apInc struct {
	ag         *Agent
	histCancel context.CancelFunc
	kaStop     atomic.Bool
	kaWG       sync.WaitGroup
	histWG     sync.WaitGroup // the goSendHistoric goroutines
	tag        string         // pprof label of its goSendHistoric/goEraseHistoric goroutines
}

// ---------- where are the sender goroutines of an incarnation? (labelled goroutine profile) ----------

type c01apPark struct {
	histParked int // goSendHistoric goroutines inside cond.Wait (they hold no second)
	eraseIdle  int // goEraseHistoric inside cond.Wait or in its 60 s select (it holds no second there)
}

var c01apProf struct {
	mu  sync.Mutex
	at  time.Time
	seq int
	m   map[string]c01apPark
}

var c01apTagSeq atomic.Int64

// c01apParked returns the parking state of every labelled incarnation; the profile is shared by the
// concurrently running histories for 300 ms. seq identifies the profile.
func c01apParked() (map[string]c01apPark, int) {
	c01apProf.mu.Lock()
	defer c01apProf.mu.Unlock()
	if c01apProf.m != nil && time.Since(c01apProf.at) < 300*time.Millisecond {
		return c01apProf.m, c01apProf.seq
	}
	var buf bytes.Buffer
	_ = pprof.Lookup("goroutine").WriteTo(&buf, 1)
	m := map[string]c01apPark{}
	for _, block := range strings.Split(buf.String(), "\n\n") {
		lines := strings.Split(strings.TrimSpace(block), "\n")
		n, tag := 0, ""
		var funcs []string
		for _, ln := range lines {
			switch {
			case strings.HasPrefix(ln, "# labels:"):
				if i := strings.Index(ln, `"c01ap":"`); i >= 0 {
					rest := ln[i+len(`"c01ap":"`):]
					if j := strings.IndexByte(rest, '"'); j >= 0 {
						tag = rest[:j]
					}
				}
			case strings.HasPrefix(ln, "#\t"):
				f := strings.Split(ln, "\t")
				if len(f) >= 3 {
					name := f[2]
					if k := strings.LastIndex(name, "+0x"); k >= 0 {
						name = name[:k]
					}
					funcs = append(funcs, name)
				}
			case strings.Contains(ln, " @ "):
				_, _ = fmt.Sscanf(ln, "%d @", &n)
			}
		}
		if tag == "" || n == 0 {
			continue
		}
		pk := m[tag]
		for i := 1; i < len(funcs); i++ {
			callee := funcs[i-1]
			switch {
			case strings.HasSuffix(funcs[i], ".(*Shard).goSendHistoric") && callee == "sync.(*Cond).Wait":
				pk.histParked += n
			case strings.HasSuffix(funcs[i], ".(*Shard).goEraseHistoric") && (callee == "sync.(*Cond).Wait" || callee == "runtime.selectgo"):
				pk.eraseIdle += n
			}
		}
		m[tag] = pk
	}
	c01apProf.m, c01apProf.at = m, time.Now()
	c01apProf.seq++
	return m, c01apProf.seq
}

// c01apPoison is the Locker of the condition variable a dead incarnation gets: goSendHistoric and
// goEraseHistoric have no exit, so after the incarnation was shut down and checked, their next
// cond.Wait panics (with Shard.mu held, which their deferred Unlock releases) and the harness's
// wrapper recovers. Nothing of this happens before the oracle has read everything it needs.
type c01apPoison struct{}

func (c01apPoison) Lock()   {}
func (c01apPoison) Unlock() { panic(c01apPoison{}) }

func c01apReap(f func()) {
	defer func() {
		if r := recover(); r != nil {
			if _, ok := r.(c01apPoison); !ok {
				panic(r)
			}
		}
	}()
	f()
}

// bury makes the sender goroutines of a dead incarnation exit
func (inc *c01apInc) bury() {
	clear := func() *sync.Cond {
		sh := inc.ag.Shards[0]
		sh.mu.Lock()
		defer sh.mu.Unlock()
		sh.historicBucketsToSend = nil
		old := sh.cond
		if _, ok := old.L.(c01apPoison); ok {
			return nil
		}
		sh.cond = sync.NewCond(c01apPoison{})
		return old
	}
	if old := clear(); old != nil {
		old.Broadcast()
	}
	inc.histWG.Wait()
	// goEraseHistoric may have been between its pop and its re-append: empty the queue once more so
	// that its next iteration (at most 60 s away) reaches cond.Wait
	time.AfterFunc(500*time.Millisecond, func() { clear() })
}

func c01apStartAgent(w *c01apWorld, cacheDir string, prevLive []c01apDiskRec, first bool) (_ *c01apInc, o5 string, _ error) {
	h := w.h
	cfg := DefaultConfig()
	cfg.HistoricWindow = uint(h.HistoricWindow)
	switch h.DiskMode {
	case 1:
		cfg.MaxHistoricDiskSize = h.DiskLimit
	case 3:
		cfg.MaxHistoricDiskSize = 0
	}
	cfg.SaveSecondsImmediately = h.SaveImmediately
	cfg.LivenessResponsesWindowLength = h.LiveWin
	cfg.LivenessResponsesWindowSuccesses = h.LiveSucc
	if err := cfg.ValidateConfigSource(); err != nil {
		return nil, "", err
	}
	if h.DiskMode == 2 {
		cacheDir = ""
	}
	addrs := []string{w.srv[0].addr, w.srv[1].addr, w.srv[2].addr}
	ag, err := MakeAgent("tcp4", cacheDir, "", nil, cfg, "c01ap-host", format.TagValueIDComponentAgent, nil,
		pcache.NewMappingsCache(data_model.NewChunkedStorageNop(), 1<<20, 86400), nil, nil, w.logf, nil,
		&tlstatshouse.GetConfigResult3{Addresses: addrs, ShardByMetricCount: 1}, nil)
	if err != nil {
		return nil, "", err
	}
	inc := &c01apInc{ag: ag, tag: fmt.Sprint(c01apTagSeq.Add(1))}
	if !first && ag.diskBucketCache != nil {
		o5 = c01apCheckYield(ag, filepath.Join(cacheDir, "0"), prevLive) // no sender runs yet: nothing moves
	}
	// load spreading delay before a recent send: up to 1 s in production, shortened to save wall time
	ag.Shards[0].timeSpreadDelta = time.Duration(h.SpreadMs) * time.Millisecond
	histCtx, cancel := context.WithCancel(context.Background())
	inc.histCancel = cancel
	// the sender part of Agent.Run (the flusher, preprocessor, live checker and test-connection
	// loops of Run cannot be stopped and are not part of the property)
	ag.recentSendersSema = semaphore.NewWeighted(ag.totalRecentSenders())
	for _, shard := range ag.Shards {
		nRecent := data_model.MaxConveyorDelay
		if h.RecentSenders > 0 && h.RecentSenders < nRecent {
			nRecent = h.RecentSenders
		}
		for j := 0; j < nRecent; j++ {
			_ = ag.recentSendersSema.Acquire(context.Background(), 1)
			ag.sendersWG.Add(1)
			go shard.goSendRecent(j, &ag.sendersWG, ag.recentSendersSema, histCtx, shard.BucketsToSend)
		}
		for j := 0; j < data_model.MaxHistorySendStreams; j++ {
			ag.sendersWG.Add(1)
			inc.histWG.Add(1)
			go func() {
				defer inc.histWG.Done()
				pprof.Do(context.Background(), pprof.Labels("c01ap", inc.tag), func(context.Context) {
					c01apReap(func() { shard.goSendHistoric(&ag.sendersWG, histCtx) })
				})
			}()
		}
		ag.sendersWG.Add(1)
		// never cancelled, as in production (returning from its select would unlock an unlocked mutex)
		go pprof.Do(context.Background(), pprof.Labels("c01ap", inc.tag), func(context.Context) {
			c01apReap(func() { shard.goEraseHistoric(&ag.sendersWG, context.Background()) })
		})
	}
	// stand-in for goLiveChecker (which cannot be stopped): probe dead replicas with the real sendKeepLive
	for _, sr := range ag.ShardReplicas {
		sr := sr
		inc.kaWG.Add(1)
		go func() {
			defer inc.kaWG.Done()
			for !inc.kaStop.Load() {
				time.Sleep(60 * time.Millisecond)
				if !sr.alive.Load() && !inc.kaStop.Load() {
					_ = sr.sendKeepLive()
				}
			}
		}()
	}
	return inc, o5, nil
}

// c01apCheckYield is O5: what a freshly made agent knows of its cache directory against the live
// records an independent reader found there at the previous exit.
func c01apCheckYield(ag *Agent, shardDir string, prevLive []c01apDiskRec) string {
	sh := ag.diskBucketCache.shards[0]
	sh.mu.Lock()
	defer sh.mu.Unlock()
	type key struct {
		file string
		pos  int64
	}
	indexed := map[key]int64{}
	for id, kb := range sh.knownBuckets {
		indexed[key{kb.file.name, kb.pos}] = id
	}
	unread := func(k key) bool {
		if rt := sh.readingFileTail; rt != nil && rt.name == k.file && k.pos >= rt.nextPos {
			return true
		}
		for _, wf := range sh.waitingFilesTail {
			if wf.name == k.file {
				return true
			}
		}
		return false
	}
	queued := map[int64]uint32{}
	for _, cbd := range ag.Shards[0].historicBucketsToSend {
		queued[cbd.id] = cbd.time
	}
	want := map[key]bool{}
	for _, r := range prevLive {
		k := key{filepath.Join(shardDir, r.file), r.pos}
		want[k] = true
		id, ok := indexed[k]
		switch {
		case ok && sh.knownBuckets[id].time != r.t:
			return fmt.Sprintf("after a restart the live record of time %d at %s:%d is indexed under time %d", r.t, r.file, r.pos, sh.knownBuckets[id].time)
		case ok:
			if tm, q := queued[id]; !q || tm != r.t {
				return fmt.Sprintf("after a restart the live record of time %d at %s:%d was read from the cache but is not queued for sending", r.t, r.file, r.pos)
			}
		case !unread(k):
			return fmt.Sprintf("after a restart the live record of time %d at %s:%d is neither indexed by the new disk cache nor in the part of the tail it has still to read: it will never be offered", r.t, r.file, r.pos)
		}
	}
	for k := range indexed {
		if !want[k] {
			return fmt.Sprintf("after a restart the disk cache indexes a record at %s:%d that was not live at the previous exit", k.file, k.pos)
		}
	}
	return ""
}

func c01apPayload(ord, pad int) []byte {
	keys := []int32{0x0c01a, int32(ord)}
	for i := 0; i < pad; i++ {
		keys = append(keys, int32(ord*7919+i*104729))
	}
	sb := tlstatshouse.SourceBucket3{Metrics: []tlstatshouse.MultiItem{{Metric: int32(1000 + ord), Keys: keys}}}
	return compress.CompressAndFrame(sb.WriteTL1Boxed(nil))
}

// ---------- running one history ----------

type c01apResult struct {
	violation    string
	inconclusive string
	nontrivial   bool
	classes      []string
	logs         []string
}

func (w *c01apWorld) feed(inc *c01apInc, ph int, base uint32, s c01apSec) {
	time.Sleep(time.Duration(s.DelayMs) * time.Millisecond)
	w.mu.Lock()
	ord := len(w.secs)
	st := &c01apSecState{ord: ord, phase: ph, t: base - uint32(s.Age), data: c01apPayload(ord, s.Pad), plan: s,
		memOnly: w.h.DiskMode >= 2}
	w.secs = append(w.secs, st)
	w.bytesPut += int64(len(st.data)) + 20
	w.mu.Unlock()
	sh := inc.ag.Shards[0]
	sh.sendToSenders(compressedBucketData{time: st.t, data: st.data})
	sh.mu.Lock()
	busy := false
	for _, cbd := range sh.historicBucketsToSend {
		if cbd.time == st.t {
			busy = true
		}
	}
	sh.mu.Unlock()
	w.mu.Lock()
	st.accepted = true
	if busy && !s.AfterDisable {
		w.classes["recent-senders-busy-path"] = true
	}
	w.mu.Unlock()
}

// limitMayFire: the disk limit rule (diskUsed > limit) can only fire if more bytes than the limit were ever written
func (w *c01apWorld) limitMayFireLocked() bool {
	return w.h.DiskMode == 1 && w.bytesPut > w.h.DiskLimit
}

// stopRecent is the graceful part of the shutdown of cmd/statshouse: DisableNewSends, (shutdown flush), WaitRecentSenders
func (w *c01apWorld) stopRecent(inc *c01apInc, ph int, after []c01apSec, base uint32) (inconcl string) {
	w.mu.Lock()
	close(w.release) // hanging handlers drop their connections now
	w.release = make(chan struct{})
	w.mu.Unlock()
	inc.ag.DisableNewSends()
	for _, s := range after {
		w.feed(inc, ph, base, s)
	}
	t0 := time.Now()
	inc.ag.WaitRecentSenders(c01apRecentWait)
	if time.Since(t0) >= c01apRecentWait {
		inconcl = "recent senders did not finish"
	}
	return inconcl
}

// exit freezes the disk cache of a stopped incarnation (process exit) and returns its live records
func (w *c01apWorld) exit(inc *c01apInc, cacheDir string) (live []c01apDiskRec, viol string) {
	inc.histCancel()
	inc.kaStop.Store(true)
	_ = inc.ag.rpcClientConfig.Close()
	inc.kaWG.Wait()
	if dc := inc.ag.diskBucketCache; dc != nil {
		sh := dc.shards[0]
		sh.mu.Lock() // every read and write of the cache takes this lock: the directory is stable while we read it
		var problems []string
		live, problems = c01apReadDir(filepath.Join(cacheDir, "0"))
		// process exit: the old incarnation must never touch the directory again
		sh.Close()
		sh.waitingFilesTail = nil
		sh.waitingFilesSize = 0
		_ = dc.lockFile.Close()
		sh.mu.Unlock()
		if len(problems) != 0 {
			viol = "cache directory is damaged after a graceful shutdown: " + strings.Join(problems, "; ")
		}
	}
	inc.bury()
	return live, viol
}

// checkDisk is O1 and O2 for the directory content found at a shutdown
func (w *c01apWorld) checkDisk(live []c01apDiskRec, nowAfter uint32, strictLoss bool) string {
	w.mu.Lock()
	defer w.mu.Unlock()
	byBody := map[string]*c01apSecState{}
	for _, st := range w.secs {
		byBody[string(st.data)] = st
	}
	seen := map[int]int{}
	for _, r := range live {
		st := byBody[string(r.body)]
		if st == nil {
			return fmt.Sprintf("cache file %s holds a live record (time %d, %d bytes) that is not a second the agent accepted", r.file, r.t, len(r.body))
		}
		if st.t != r.t {
			return fmt.Sprintf("cache file %s holds the payload of second #%d under time %d, it was accepted for time %d", r.file, st.ord, r.t, st.t)
		}
		seen[st.ord]++
		if seen[st.ord] > 1 {
			return fmt.Sprintf("second #%d (time %d) is stored twice in the cache directory", st.ord, st.t)
		}
	}
	if len(live) != 0 {
		w.classes["restart-with-unsent-on-disk"] = true
	}
	if !strictLoss || w.h.DiskMode >= 2 {
		return ""
	}
	hw := uint32(w.h.HistoricWindow)
	for _, st := range w.secs {
		if !st.accepted || st.discard || seen[st.ord] > 0 {
			continue
		}
		if nowAfter >= hw && st.t < nowAfter-hw {
			continue // may have been thrown out by the historic window rule
		}
		if w.limitMayFireLocked() {
			w.classes["disk-limit-regime"] = true
			continue
		}
		return fmt.Sprintf("second #%d (time %d, fed in phase %d, offers %s) is gone from the cache directory after a graceful shutdown although no replica ever answered discard for it (window %d s, now %d)",
			st.ord, st.t, st.phase, c01apOffers(st.offers), hw, nowAfter)
	}
	return ""
}

func c01apOffers(os []c01apOffer) string {
	var sb strings.Builder
	sb.WriteString("[")
	for i, o := range os {
		if i > 0 {
			sb.WriteString(" ")
		}
		kind := "recent"
		if o.historic {
			kind = "historic"
		}
		if o.spare {
			kind += "+spare"
		}
		fmt.Fprintf(&sb, "p%d/r%d/%s:%s", o.phase, o.replica, kind, [...]string{"discard", "keep", "rpc-error", "hang-drop", "drop", "hang-drop"}[o.action])
	}
	sb.WriteString("]")
	return sb.String()
}

// outstanding: accepted seconds a correct agent must still be offering
func (w *c01apWorld) outstandingLocked(now uint32, lastPhase int) (out []*c01apSecState) {
	hw := uint32(w.h.HistoricWindow)
	for _, st := range w.secs {
		if !st.accepted || st.discard {
			continue
		}
		if st.memOnly && st.phase != lastPhase {
			continue
		}
		if now >= hw && st.t < now-hw {
			continue
		}
		if w.limitMayFireLocked() {
			continue
		}
		out = append(out, st)
	}
	return out
}

// drainLoop is O4. All replicas are healthy and answer discard, the recent senders have finished (a
// recent send may wait 24 s for its deadline), only the historic conveyor works.
func (w *c01apWorld) drainLoop(inc *c01apInc, cacheDir string, last int) (viol, inconcl string) {
	start := time.Now()
	shard := inc.ag.Shards[0]
	type verdict struct {
		seq   int
		at    time.Time
		gone  map[int]bool // seconds found nowhere
		stuck bool         // every outstanding second is present (on disk) but nobody will send it
	}
	var prev *verdict
	for {
		now := time.Now()
		w.mu.Lock()
		out := w.outstandingLocked(uint32(now.Unix()), last)
		lastReq, inflight := w.lastReq, w.inflight
		w.mu.Unlock()
		if len(out) == 0 {
			break
		}
		if now.Sub(start) > c01apDrainBudget {
			inconcl = fmt.Sprintf("drain still active after %v (%d seconds outstanding)", c01apDrainBudget, len(out))
			break
		}
		if inflight != 0 || now.Sub(lastReq) < c01apLookAfter || now.Sub(start) < c01apLookAfter || (prev != nil && now.Sub(prev.at) < 500*time.Millisecond) {
			if inflight != 0 || now.Sub(lastReq) < c01apLookAfter {
				prev = nil
			}
			time.Sleep(20 * time.Millisecond)
			continue
		}
		// look at the state of the agent
		parked, seq := c01apParked()
		pk := parked[inc.tag]
		allParked := pk.histParked == data_model.MaxHistorySendStreams && pk.eraseIdle == 1
		inQueue := map[uint32][][]byte{}
		shard.mu.Lock()
		for _, cbd := range shard.historicBucketsToSend {
			inQueue[cbd.time] = append(inQueue[cbd.time], cbd.data)
		}
		shard.mu.Unlock()
		var live []c01apDiskRec
		if dc := inc.ag.diskBucketCache; dc != nil {
			dc.shards[0].mu.Lock()
			live, _ = c01apReadDir(filepath.Join(cacheDir, "0"))
			dc.shards[0].mu.Unlock()
		}
		onDisk := map[string]bool{}
		for _, r := range live {
			onDisk[string(r.body)] = true
		}
		cur := &verdict{seq: seq, at: time.Now(), gone: map[int]bool{}, stuck: allParked}
		for _, st := range out {
			queued := false
			for _, d := range inQueue[st.t] {
				if d == nil || bytes.Equal(d, st.data) { // an entry without data is read from disk when sent: counts as present
					queued = true
				}
			}
			switch {
			case queued || !allParked:
				cur.stuck = false // it is, or may be, on its way
			case !onDisk[string(st.data)]:
				cur.gone[st.ord] = true
				cur.stuck = false
			}
		}
		if prev != nil && prev.seq != cur.seq {
			for _, st := range out {
				if prev.gone[st.ord] && cur.gone[st.ord] {
					return fmt.Sprintf("second #%d (time %d, fed in phase %d, offers %s) was never acknowledged with discard and is inside the historic window (%d s), but the agent has forgotten it: it is not in historicBucketsToSend, all %d goSendHistoric goroutines are parked in cond.Wait and goEraseHistoric is idle, and the cache directory has no live record of it (seen twice, %v apart)",
						st.ord, st.t, st.phase, c01apOffers(st.offers), w.h.HistoricWindow, data_model.MaxHistorySendStreams, cur.at.Sub(prev.at).Round(time.Millisecond)), ""
				}
			}
			if prev.stuck && cur.stuck {
				w.class("stranded-on-disk")
				return "", fmt.Sprintf("%d outstanding seconds are live on disk but the agent is idle and does not queue them (they would be offered after the next restart)", len(out))
			}
		}
		prev = cur
		time.Sleep(20 * time.Millisecond)
	}
	if time.Since(start) > 4*time.Second {
		w.class("slow-drain")
	}
	return "", inconcl
}

func c01apRun(h c01apHist, dir string) (res c01apResult) {
	w := &c01apWorld{h: h, classes: map[string]bool{}, release: make(chan struct{}), lastReq: time.Now()}
	defer func() {
		w.mu.Lock()
		for c := range w.classes {
			res.classes = append(res.classes, c)
		}
		sort.Strings(res.classes)
		res.logs = w.logs
		w.mu.Unlock()
	}()
	for i := range w.srv {
		s, err := c01apStartSrv(w, i)
		if err != nil {
			res.inconclusive = "listen: " + err.Error()
			return
		}
		w.srv[i] = s
		defer s.stop()
	}
	cacheDir := filepath.Join(dir, "cache")
	if err := os.MkdirAll(cacheDir, 0o777); err != nil {
		res.inconclusive = err.Error()
		return
	}
	last := len(h.Phases) - 1
	var prevLive []c01apDiskRec
	for pi, ph := range h.Phases {
		w.mu.Lock()
		w.phase = pi
		w.mu.Unlock()
		for r := 0; r < 3; r++ {
			w.srv[r].ln.setDown(r < len(ph.Down) && ph.Down[r])
		}
		inc, o5, err := c01apStartAgent(w, cacheDir, prevLive, pi == 0)
		if err != nil {
			res.violation = fmt.Sprintf("phase %d: agent does not start on its own cache directory: %v", pi, err)
			return
		}
		if o5 != "" {
			res.violation = fmt.Sprintf("phase %d: %s", pi, o5)
		}
		base := uint32(time.Now().Unix())
		var after []c01apSec
		for _, s := range ph.Secs {
			if s.AfterDisable {
				after = append(after, s)
				continue
			}
			w.feed(inc, pi, base, s)
		}
		time.Sleep(time.Duration(ph.HoldMs) * time.Millisecond)
		if pi == last {
			// drain: every replica healthy, every offering answered discard
			w.mu.Lock()
			w.drain = true
			w.mu.Unlock()
			for r := 0; r < 3; r++ {
				w.srv[r].ln.setDown(false)
			}
		}
		inconcl := w.stopRecent(inc, pi, after, base)
		if pi == last && inconcl == "" && res.violation == "" {
			res.violation, res.inconclusive = w.drainLoop(inc, cacheDir, last)
		}
		live, viol := w.exit(inc, cacheDir)
		prevLive = live
		nowAfter := uint32(time.Now().Unix())
		if res.violation == "" {
			res.violation = viol
		}
		if res.inconclusive == "" {
			res.inconclusive = inconcl
		}
		if res.violation == "" {
			// O1 needs the recent senders to have finished, nothing else: the historic conveyor only ever drops its memory copy
			res.violation = w.checkDisk(live, nowAfter, inconcl == "")
		}
		if pi == last && res.violation == "" && len(live) == 0 {
			w.class("disk-clean-at-end")
		}
		w.mu.Lock()
		if res.violation == "" && w.protoErr != "" {
			res.violation = w.protoErr
		}
		w.mu.Unlock()
		if res.violation != "" || res.inconclusive != "" {
			return
		}
	}
	// classes and the non-trivial rule
	w.mu.Lock()
	defer w.mu.Unlock()
	for _, st := range w.secs {
		bad := false
		for i, o := range st.offers {
			switch o.action {
			case c01apActKeep:
				w.classes["answer-keep"] = true
				bad = true
			case c01apActRPCErr:
				w.classes["answer-rpc-error"] = true
				bad = true
			case c01apActHang, c01apActHangL, c01apActDrop:
				w.classes["answer-hang-or-drop"] = true
				bad = true
			case c01apActDiscard:
				if bad {
					w.classes["discard-after-keep-or-error"] = true
					res.nontrivial = true
				}
			}
			if o.spare {
				w.classes["offered-to-spare"] = true
			}
			if i == 0 && o.historic {
				w.classes["first-offer-historic"] = true
			}
			if i == 0 && !o.historic {
				w.classes["first-offer-recent"] = true
			}
			if o.phase != st.phase {
				w.classes["offered-after-restart"] = true
			}
		}
		if len(st.offers) == 0 {
			w.classes["never-offered"] = true
		}
	}
	if w.classes["restart-with-unsent-on-disk"] {
		res.nontrivial = true
	}
	if len(h.Phases) > 1 {
		w.classes["restarts"] = true
	}
	w.classes[fmt.Sprintf("disk-mode-%d", h.DiskMode)] = true
	if h.HistoricWindow < 100 {
		w.classes["small-historic-window"] = true
	}
	return
}

// ---------- generator ----------

func c01apGenSec(hw int) *rapid.Generator[c01apSec] {
	return rapid.Custom(func(t *rapid.T) c01apSec {
		var s c01apSec
		switch rapid.IntRange(0, 11).Draw(t, "ageclass") {
		case 0, 1, 2, 3, 4, 5:
			s.Age = rapid.IntRange(1, 4).Draw(t, "age")
		case 6, 7:
			s.Age = rapid.IntRange(7, 11).Draw(t, "age") // around MaxShortWindow+FutureWindow
		case 8, 9, 10:
			s.Age = rapid.IntRange(12, 30).Draw(t, "age")
		default:
			s.Age = max(1, hw+rapid.IntRange(-4, 3).Draw(t, "age"))
		}
		s.Pad = rapid.IntRange(0, 40).Draw(t, "pad")
		s.DelayMs = rapid.IntRange(0, 120).Draw(t, "delay")
		n := rapid.IntRange(0, 3).Draw(t, "nscript")
		for i := 0; i < n; i++ {
			a := rapid.SampledFrom([]int{1, 1, 1, 2, 2, 3, 4, 5, 0}).Draw(t, "act")
			s.Script = append(s.Script, a)
			if a == c01apActDiscard {
				break
			}
		}
		s.Stubborn = rapid.IntRange(0, 9).Draw(t, "stubborn") < 4
		s.AfterDisable = rapid.IntRange(0, 9).Draw(t, "afterdisable") == 0
		return s
	})
}

func c01apGenHist() *rapid.Generator[c01apHist] {
	return rapid.Custom(func(t *rapid.T) c01apHist {
		var h c01apHist
		h.HistoricWindow = 86400
		if rapid.IntRange(0, 9).Draw(t, "hwclass") < 3 {
			h.HistoricWindow = rapid.IntRange(3, 14).Draw(t, "hw")
		}
		h.DiskMode = rapid.SampledFrom([]int{0, 0, 0, 0, 0, 0, 0, 0, 0, 0, 0, 0, 0, 1, 1, 1, 2, 2, 3, 3}).Draw(t, "diskmode")
		if h.DiskMode == 1 {
			h.DiskLimit = int64(rapid.IntRange(30, 1200).Draw(t, "disklimit"))
		}
		h.SaveImmediately = rapid.Bool().Draw(t, "saveimm")
		lv := rapid.SampledFrom([][2]int{{5, 3}, {5, 3}, {2, 1}, {1, 1}, {3, 3}}).Draw(t, "liveness")
		h.LiveWin, h.LiveSucc = lv[0], lv[1]
		h.SpreadMs = rapid.IntRange(0, 40).Draw(t, "spread")
		h.RecentSenders = rapid.SampledFrom([]int{0, 0, 0, 0, 0, 0, 1, 1, 2, 3}).Draw(t, "recentsenders")
		np := 1
		if h.DiskMode < 2 {
			np = rapid.SampledFrom([]int{1, 2, 2, 2, 3, 3}).Draw(t, "phases")
		}
		for p := 0; p < np; p++ {
			var ph c01apPhase
			ph.Down = make([]bool, 3)
			if rapid.IntRange(0, 9).Draw(t, "anydown") < 3 {
				ph.Down[rapid.IntRange(0, 2).Draw(t, "down")] = true
			}
			lo := 0
			if p == 0 {
				lo = 1
			}
			secs := rapid.SliceOfN(c01apGenSec(h.HistoricWindow), lo, 5).Draw(t, "secs")
			// the flush path emits strictly increasing times: oldest first, distinct
			sort.SliceStable(secs, func(i, j int) bool { return secs[i].Age > secs[j].Age })
			used := map[int]bool{}
			for _, s := range secs {
				if !used[s.Age] {
					used[s.Age] = true
					ph.Secs = append(ph.Secs, s)
				}
			}
			// seconds fed after DisableNewSends are the newest ones
			seenAfter := false
			for i := range ph.Secs {
				if ph.Secs[i].AfterDisable {
					seenAfter = true
				}
				ph.Secs[i].AfterDisable = seenAfter
			}
			ph.HoldMs = rapid.IntRange(100, 2500).Draw(t, "hold")
			h.Phases = append(h.Phases, ph)
		}
		return h
	})
}

// ---------- test ----------

func c01apFormat(r c01apResult) string {
	logs := r.logs
	if len(logs) > 60 {
		logs = logs[len(logs)-60:]
	}
	return r.violation + "\nagent log tail:\n  " + strings.Join(logs, "\n  ")
}

func c01apProp(t vpT, h c01apHist) c01apResult {
	dir, err := os.MkdirTemp("", "c01ap")
	if err != nil {
		t.Fatalf("VP-INCONCLUSIVE %v", err)
	}
	defer os.RemoveAll(dir)
	r := c01apRun(h, dir)
	if r.violation != "" {
		t.Fatalf("%s", c01apFormat(r))
	}
	return r
}

func c01apEnvInt(name string, def int) int {
	var v int
	if _, err := fmt.Sscanf(os.Getenv(name), "%d", &v); err == nil && v > 0 {
		return v
	}
	return def
}

func TestVerifC01APrime(t *testing.T) {
	log.SetOutput(io.Discard) // goSendRecent and WaitRecentSenders print through the global logger
	ev := vpNewEv(t, "C01", "aprime")
	batch := c01apEnvInt("VERIF_C01AP_BATCH", 40)
	var total, inconclusive atomic.Int64
	var incMu sync.Mutex
	var incWhy []string
	// A history costs 5-30 s of real time, so rapid's shrinking (which re-runs whole batches) is not
	// affordable: the first failing history is saved as it is and every later invocation of the
	// property in this process fails at once with the same history.
	var firstFail *c01apHist
	var firstMsg string
	rapid.Check(t, func(rt *rapid.T) {
		hs := rapid.SliceOfN(c01apGenHist(), batch, batch).Draw(rt, "batch")
		if firstFail != nil {
			vpRunCase(rt, "C01", "aprime", *firstFail, func() { rt.Fatalf("%s", firstMsg) })
		}
		results := make([]c01apResult, len(hs))
		var wg sync.WaitGroup
		for i := range hs {
			wg.Add(1)
			go func(i int) {
				defer wg.Done()
				time.Sleep(time.Duration(i) * 15 * time.Millisecond)
				dir, err := os.MkdirTemp("", "c01ap")
				if err != nil {
					results[i].inconclusive = err.Error()
					return
				}
				defer os.RemoveAll(dir)
				results[i] = c01apRun(hs[i], dir)
			}(i)
		}
		wg.Wait()
		for i, r := range results {
			total.Add(1)
			if r.violation != "" {
				firstFail, firstMsg = &hs[i], c01apFormat(r)
				vpRunCase(rt, "C01", "aprime", hs[i], func() { rt.Fatalf("%s", firstMsg) })
			}
			if r.inconclusive != "" {
				inconclusive.Add(1)
				incMu.Lock()
				if len(incWhy) < 5 {
					incWhy = append(incWhy, r.inconclusive)
				}
				incMu.Unlock()
				ev.Class("inconclusive-history", 1)
				continue
			}
			ev.Case(r.nontrivial, hs[i], r.classes...)
		}
	})
	if n, tot := inconclusive.Load(), total.Load(); tot > 0 && n*5 > tot {
		t.Fatalf("VP-INCONCLUSIVE %d of %d histories did not reach quiescence: %v", n, tot, incWhy)
	}
}

func init() {
	vpReplayers["C01/aprime"] = func(t vpT, raw json.RawMessage) {
		log.SetOutput(io.Discard)
		var h c01apHist
		if err := json.Unmarshal(raw, &h); err != nil {
			t.Fatalf("%v", err)
		}
		if r := c01apProp(t, h); r.inconclusive != "" {
			t.Fatalf("VP-INCONCLUSIVE %s", r.inconclusive)
		}
	}
}
