//go:build verif

package agent

import (
	"bytes"
	"encoding/binary"
	"encoding/json"
	"fmt"
	"os"
	"path/filepath"
	"sort"
	"strconv"
	"testing"
	"time"

	"pgregory.net/rapid"
)

// ---------- C09: agent disk cache survives restarts and torn writes ----------
//
// The reference model below is written from the property statement and the documented file format
// ([magic][time][len][crc] body; erase = magic overwrite; a new file after every restart). It never
// calls into disk_cache.go. Real files live under $TMPDIR (tmpfs scratch of the driver).

const (
	c09Hdr       = 20       // documented record header size
	c09RotateAt  = 50 << 20 // documented rotation size
	c09MagicDead = 0x000007EC
	c09CopyLimit = 4 << 20 // images up to this size are copied for the full re-read oracle at every reopen
	c09EnumLimit = 1 << 20 // images up to this size are copied once per enumerated truncation offset
	c09EnumFull  = 280     // records of up to this many bytes (header included) get every offset, larger ones c09EnumSome samples
	c09EnumSome  = 64
)

type c09Op struct {
	K    string `json:"k"`              // put get erase tail restart crash flip
	S    int    `json:"s,omitempty"`    // shard
	T    uint32 `json:"t,omitempty"`    // put: second
	Seed uint64 `json:"seed,omitempty"` // put: payload seed
	N    int    `json:"n,omitempty"`    // put: payload size
	R    int    `json:"r,omitempty"`    // get/erase/flip: record selector
	C    int    `json:"c,omitempty"`    // tail/erase: repeat C+1 times
	Dead bool   `json:"dead,omitempty"` // get/erase: address an id that is already erased / 0
	Keep bool   `json:"keep,omitempty"` // erase: spare the most recently stored second of the shard
	Bit  int    `json:"bit,omitempty"`  // flip: bit selector
	Off  []int  `json:"off,omitempty"`  // crash: per shard offset inside the last record (-1: no tear)
	Enum int    `json:"enum,omitempty"` // crash: 1 = additionally check truncation offsets of the torn record on copies of the image (every offset if the record is small, a sample otherwise)
}

type c09Case struct {
	Shards int     `json:"shards"`
	Ops    []c09Op `json:"ops"`
}

var c09PayloadBuf, c09GetBuf []byte // reused: payloads of up to 26 MiB must not be reallocated for every call

// c09Payload returns the reference payload; the slice is valid until the next call.
func c09Payload(seed uint64, n int) []byte {
	if cap(c09PayloadBuf) < n+8 {
		c09PayloadBuf = make([]byte, n+8+n/4)
	}
	b := c09PayloadBuf[:n+8]
	x := seed*0x9E3779B97F4A7C15 + 0x1234567
	for i := 0; i < n; i += 8 {
		x ^= x << 13
		x ^= x >> 7
		x ^= x << 17
		binary.LittleEndian.PutUint64(b[i:], x)
	}
	return b[:n]
}

func c09Get(d *DiskBucketStorage, si int, id int64, tm uint32) ([]byte, error) {
	scratch := c09GetBuf[:0]
	got, err := d.GetBucket(si, id, tm, &scratch)
	if cap(scratch) > cap(c09GetBuf) {
		c09GetBuf = scratch[:0]
	}
	return got, err
}

// c09Tail guards against an implementation that spins forever inside the tail reader (a mutant's wrong
// position arithmetic on a bare-header record): reported as inconclusive, never as a violation.
func c09Tail(t vpT, d *DiskBucketStorage, si int) (uint32, int64) {
	type res struct {
		tm uint32
		id int64
	}
	ch := make(chan res, 1)
	go func() {
		tm, id := d.ReadNextTailBucket(si)
		ch <- res{tm, id}
	}()
	select {
	case r := <-ch:
		return r.tm, r.id
	case <-time.After(20 * time.Second):
		t.Fatalf("VP-INCONCLUSIVE ReadNextTailBucket did not return within 20 s (endless loop in the tail reader?)")
		return 0, 0
	}
}

// ----- model -----

type c09Rec struct {
	time    uint32
	seed    uint64
	size    int
	off     int64
	erased  bool // magic overwritten on disk
	torn    bool // write did not complete
	corrupt bool // a body bit was flipped
	id      int64
	known   bool // id is valid in the current session and the record was not erased through it
	file    *c09File
}

func (r *c09Rec) live() bool { return !r.erased && !r.torn }

type c09File struct {
	name     string
	recs     []*c09Rec
	size     int64 // bytes on disk (includes a torn tail)
	waiting  bool  // existed at session start and was not yet opened by the tail reader
	reading  bool  // the tail reader's current file
	writing  bool  // this session's writing file
	gone     bool
}

type c09Shard struct {
	dir        string
	files      []*c09File // creation order, including gone ones
	writing    *c09File
	start      []*c09File // files present at session start, in name order
	rdFile     int        // index into start of the file being read (or next to open)
	rdRec      int        // next record index in that file
	rdPos      int64      // bytes of the reading file already scanned
	ids        map[int64]*c09Rec
	deadIDs    []int64
	lastPut    *c09Rec // set iff the last operation on this shard was a put
	deleted    int     // files deleted because all their seconds were erased
}

type c09Model struct {
	root   string
	shards []*c09Shard
}

type c09Snap struct { // plain image description for the re-read oracle
	Files [][]c09SnapFile
}
type c09SnapFile struct {
	name string
	size int64
	recs []c09Rec
	src  *c09File
}

func (m *c09Model) snapshot() c09Snap {
	var s c09Snap
	for _, sh := range m.shards {
		var fs []c09SnapFile
		for _, f := range sh.files {
			if f.gone {
				continue
			}
			sf := c09SnapFile{name: filepath.Base(f.name), size: f.size, src: f}
			for _, r := range f.recs {
				sf.recs = append(sf.recs, *r)
			}
			fs = append(fs, sf)
		}
		s.Files = append(s.Files, fs)
	}
	return s
}

func c09ListDir(t vpT, dir string) map[string]int64 {
	res := map[string]int64{}
	des, err := os.ReadDir(dir)
	if err != nil {
		t.Fatalf("readdir %s: %v", dir, err)
	}
	for _, de := range des {
		if de.IsDir() {
			continue
		}
		st, err := os.Stat(filepath.Join(dir, de.Name()))
		if err != nil {
			t.Fatalf("stat: %v", err)
		}
		res[de.Name()] = st.Size()
	}
	return res
}

// must the file be on disk according to the statement?
func (f *c09File) mustExist() bool {
	if f.gone {
		return false
	}
	if f.writing || f.waiting || f.reading {
		return true
	}
	for _, r := range f.recs {
		if r.known && r.live() {
			return true
		}
	}
	return false
}

func (sh *c09Shard) settle() { // files that nobody needs any more are deleted
	for _, f := range sh.files {
		if !f.gone && !f.mustExist() {
			f.gone = true
			sh.deleted++
		}
	}
}

func (sh *c09Shard) expectSizes() (total, unsent int64, files map[string]int64) {
	files = map[string]int64{}
	for _, f := range sh.files {
		if f.gone {
			continue
		}
		files[filepath.Base(f.name)] = f.size
		total += f.size
		if f.waiting {
			unsent += f.size
		}
		if f.reading {
			unsent += f.size - sh.rdPos
		}
		for _, r := range f.recs {
			if r.known && r.live() {
				unsent += c09Hdr + int64(r.size)
			}
		}
	}
	return
}

func c09CheckShard(t vpT, d *DiskBucketStorage, si int, sh *c09Shard, where string) {
	total, unsent, files := sh.expectSizes()
	disk := c09ListDir(t, sh.dir)
	var diskSum int64
	for _, sz := range disk {
		diskSum += sz
	}
	at, au := d.TotalFileSize(si)
	if at != diskSum {
		t.Fatalf("%s: shard %d reports total %d but the files on disk sum to %d (%v)", where, si, at, diskSum, disk)
	}
	if len(disk) != len(files) {
		t.Fatalf("%s: shard %d has files %v on disk, statement implies %v", where, si, disk, files)
	}
	for n, sz := range files {
		if dsz, ok := disk[n]; !ok || dsz != sz {
			t.Fatalf("%s: shard %d has files %v on disk, statement implies %v", where, si, disk, files)
		}
	}
	if at != total {
		t.Fatalf("%s: shard %d total %d, expected %d", where, si, at, total)
	}
	if au != unsent {
		t.Fatalf("%s: shard %d reports unsent %d, live+unread bytes are %d (total %d)", where, si, au, unsent, total)
	}
}

func c09Nolog(string, ...interface{}) {}

func c09Open(t vpT, root string, n int) *DiskBucketStorage {
	d, err := MakeDiskBucketStorage(root, n, c09Nolog)
	if err != nil {
		t.Fatalf("open: %v", err)
	}
	return d
}

// closes every descriptor the way a killed process would: no Close(), no bookkeeping
func c09Kill(d *DiskBucketStorage) {
	seen := map[*os.File]bool{}
	for _, sh := range d.shards {
		for _, b := range sh.knownBuckets {
			if b.file != nil {
				seen[b.file.fp] = true
			}
		}
		if sh.readingFileTail != nil {
			seen[sh.readingFileTail.fp] = true
		}
		if sh.writingFile != nil {
			seen[sh.writingFile.fp] = true
		}
	}
	for fp := range seen {
		_ = fp.Close()
	}
	_ = d.lockFile.Close()
}

func c09PeekErased(path string, off int64) bool {
	fp, err := os.Open(path)
	if err != nil {
		return true // the file is gone: only possible when nothing in it is live
	}
	defer fp.Close()
	var b [4]byte
	if _, err := fp.ReadAt(b[:], off); err != nil {
		return true
	}
	return binary.LittleEndian.Uint32(b[:]) == c09MagicDead
}

// ----- full re-read oracle on an image (consumes the image) -----

type c09Stats struct {
	images int
}

func c09DrainCheck(t vpT, root string, snap c09Snap, where string, res *c09Result) {
	n := len(snap.Files)
	d := c09Open(t, root, n)
	closed := false
	defer func() {
		if !closed {
			c09Kill(d)
		}
	}()
	for si := 0; si < n; si++ {
		dir := filepath.Join(root, strconv.Itoa(si))
		files := snap.Files[si]
		var sum int64
		want := map[string]int64{}
		for _, f := range files {
			sum += f.size
			want[f.name] = f.size
		}
		disk := c09ListDir(t, dir)
		if fmt.Sprint(disk) != fmt.Sprint(want) {
			t.Fatalf("%s: image of shard %d has %v, expected %v", where, si, disk, want)
		}
		if at, au := d.TotalFileSize(si); at != sum || au != sum {
			t.Fatalf("%s: after reopen shard %d reports total %d unsent %d, files on disk sum to %d", where, si, at, au, sum)
		}
		type exp struct {
			rec  *c09Rec
			file int
			id   int64
		}
		var seq []exp
		for fi := range files {
			for ri := range files[fi].recs {
				r := &files[fi].recs[ri]
				if r.torn {
					break
				}
				if r.erased {
					continue
				}
				seq = append(seq, exp{rec: r, file: fi})
			}
		}
		ids := map[int64]bool{}
		for i := range seq {
			tm, id := c09Tail(t, d, si)
			if id == 0 {
				t.Fatalf("%s: shard %d re-read stops after %d of %d seconds (missing second %d that was put, not erased and not torn)", where, si, i, len(seq), seq[i].rec.time)
			}
			if tm != seq[i].rec.time {
				t.Fatalf("%s: shard %d re-read #%d returns second %d, expected %d (write order)", where, si, i, tm, seq[i].rec.time)
			}
			if ids[id] {
				t.Fatalf("%s: shard %d id %d handed out twice", where, si, id)
			}
			ids[id] = true
			seq[i].id = id
		}
		for k := 0; k < 2; k++ {
			if tm, id := c09Tail(t, d, si); id != 0 || tm != 0 {
				t.Fatalf("%s: shard %d re-read returns extra second %d id %d after the %d expected ones (erased or torn second came back)", where, si, tm, id, len(seq))
			}
		}
		check := func(stage string) {
			var total, unsent int64
			want := map[string]int64{}
			for fi, f := range files {
				alive := false
				for _, e := range seq {
					if e.file == fi && !e.rec.erased {
						alive = true
						unsent += c09Hdr + int64(e.rec.size)
					}
				}
				if alive {
					total += f.size
					want[f.name] = f.size
				}
			}
			disk := c09ListDir(t, dir)
			if fmt.Sprint(disk) != fmt.Sprint(want) {
				t.Fatalf("%s: %s shard %d has files %v, expected %v (a file whose seconds are all erased must be deleted, others kept)", where, stage, si, disk, want)
			}
			at, au := d.TotalFileSize(si)
			if at != total || au != unsent {
				t.Fatalf("%s: %s shard %d reports total %d unsent %d, expected %d %d", where, stage, si, at, au, total, unsent)
			}
		}
		check("after full re-read")
		for i := range seq {
			e := &seq[i]
			got, err := c09Get(d, si, e.id, e.rec.time)
			if e.rec.corrupt {
				if err == nil {
					t.Fatalf("%s: shard %d second %d with a flipped body bit was returned as good data", where, si, e.rec.time)
				}
				if c09PeekErased(filepath.Join(dir, files[e.file].name), e.rec.off) {
					e.rec.erased = true
				}
				res.classes["flip-detected"] = true
				continue
			}
			if err != nil {
				t.Fatalf("%s: shard %d second %d: %v", where, si, e.rec.time, err)
			}
			if !bytes.Equal(got, c09Payload(e.rec.seed, e.rec.size)) {
				t.Fatalf("%s: shard %d second %d returned different bytes", where, si, e.rec.time)
			}
		}
		check("after reading all bodies")
		for i := range seq {
			if seq[i].rec.erased {
				continue
			}
			if err := d.EraseBucket(si, seq[i].id); err != nil {
				t.Fatalf("%s: erase: %v", where, err)
			}
			seq[i].rec.erased = true
			if _, err := c09Get(d, si, seq[i].id, seq[i].rec.time); err == nil {
				t.Fatalf("%s: shard %d erased second %d still returned", where, si, seq[i].rec.time)
			}
		}
		check("after erasing everything")
	}
	closed = true
	if err := d.Close(); err != nil {
		t.Fatalf("%s: close: %v", where, err)
	}
}

func c09CopyTree(t vpT, src, dst string, n int) {
	for si := 0; si < n; si++ {
		sd := filepath.Join(src, strconv.Itoa(si))
		dd := filepath.Join(dst, strconv.Itoa(si))
		if err := os.MkdirAll(dd, 0o777); err != nil {
			t.Fatalf("mkdir: %v", err)
		}
		des, err := os.ReadDir(sd)
		if err != nil {
			t.Fatalf("readdir: %v", err)
		}
		for _, de := range des {
			b, err := os.ReadFile(filepath.Join(sd, de.Name()))
			if err != nil {
				t.Fatalf("read: %v", err)
			}
			if err := os.WriteFile(filepath.Join(dd, de.Name()), b, 0o666); err != nil {
				t.Fatalf("write: %v", err)
			}
		}
	}
}

func (m *c09Model) imageSize() int64 {
	var s int64
	for _, sh := range m.shards {
		for _, f := range sh.files {
			if !f.gone {
				s += f.size
			}
		}
	}
	return s
}

type c09Result struct {
	nontrivial bool
	classes    map[string]bool
	enumFull   int // records whose every truncation offset was checked
	enumOffs   int
	images     int
}

func c09TearOffsets(l int) (offs []int, full bool) {
	limit := c09EnumSome
	if l+1 <= c09EnumFull {
		for k := 0; k <= l; k++ {
			offs = append(offs, k)
		}
		return offs, true
	}
	seen := map[int]bool{}
	add := func(k int) {
		if k >= 0 && k <= l && !seen[k] {
			seen[k] = true
			offs = append(offs, k)
		}
	}
	for k := 0; k <= c09Hdr+2; k++ {
		add(k)
	}
	add(l - 2)
	add(l - 1)
	add(l)
	for i := 1; len(offs) < limit && i < limit; i++ {
		add(c09Hdr + int(int64(i)*int64(l-c09Hdr)/int64(limit)))
	}
	sort.Ints(offs)
	return offs, false
}

func c09Prop(t vpT, c c09Case) c09Result {
	res := c09Result{classes: map[string]bool{}}
	n := c.Shards
	if n < 1 || n > 3 {
		t.Fatalf("bad case")
	}
	base, err := os.MkdirTemp("", "c09-")
	if err != nil {
		t.Fatalf("tmp: %v", err)
	}
	defer os.RemoveAll(base)
	root := filepath.Join(base, "main")
	if err := os.MkdirAll(root, 0o777); err != nil {
		t.Fatalf("mkdir: %v", err)
	}
	m := &c09Model{root: root}
	for i := 0; i < n; i++ {
		m.shards = append(m.shards, &c09Shard{dir: filepath.Join(root, strconv.Itoa(i)), ids: map[int64]*c09Rec{}})
	}
	d := c09Open(t, root, n)
	open := true
	defer func() {
		if open {
			c09Kill(d)
		}
	}()
	imgN := 0
	verifyImage := func(snap c09Snap, mutate func(dir string), where string) {
		imgN++
		dst := filepath.Join(base, "img"+strconv.Itoa(imgN))
		c09CopyTree(t, root, dst, n)
		if mutate != nil {
			mutate(dst)
		}
		c09DrainCheck(t, dst, snap, where, &res)
		_ = os.RemoveAll(dst)
		res.images++
	}
	newSession := func() {
		for _, sh := range m.shards {
			sh.settle()
			sh.start = sh.start[:0]
			for _, f := range sh.files {
				if f.gone {
					continue
				}
				f.waiting, f.reading, f.writing = true, false, false
				sh.start = append(sh.start, f)
				for _, r := range f.recs {
					r.known, r.id = false, 0
				}
			}
			sh.writing = nil
			sh.rdFile, sh.rdRec, sh.rdPos = 0, 0, 0
			sh.ids = map[int64]*c09Rec{}
			sh.deadIDs = nil
			sh.lastPut = nil
		}
	}
	liveOnDisk := func(sh *c09Shard) (live, erased int) {
		for _, f := range sh.files {
			if f.gone {
				continue
			}
			for _, r := range f.recs {
				if r.live() {
					live++
				} else if r.erased {
					erased++
				}
			}
		}
		return
	}
	knownRecs := func(sh *c09Shard) []*c09Rec {
		var rs []*c09Rec
		for _, f := range sh.files {
			for _, r := range f.recs {
				if r.known && r.live() {
					rs = append(rs, r)
				}
			}
		}
		return rs
	}
	for oi, op := range c.Ops {
		si := ((op.S % n) + n) % n
		sh := m.shards[si]
		where := fmt.Sprintf("op %d %s", oi, op.K)
		if op.K != "crash" && op.K != "restart" {
			sh.lastPut = nil
		}
		switch op.K {
		case "put":
			if op.N < 0 || op.N > 30<<20 {
				t.Fatalf("bad case")
			}
			data := c09Payload(op.Seed, op.N)
			if op.N == 0 {
				res.classes["zero-body-put"] = true
			}
			if sh.writing != nil && sh.writing.size+c09Hdr+int64(op.N) > c09RotateAt {
				old := sh.writing
				sh.writing.writing = false
				sh.writing = nil
				sh.settle()
				res.classes["rotation"] = true
				if old.gone {
					res.classes["rotation-deletes-erased-file"] = true
				}
			}
			before := c09ListDir(t, sh.dir)
			id, err := d.PutBucket(si, op.T, data)
			if err != nil {
				t.Fatalf("%s: %v", where, err)
			}
			if id == 0 {
				t.Fatalf("%s: put returned id 0", where)
			}
			if r, ok := sh.ids[id]; ok && r.known {
				t.Fatalf("%s: put returned id %d which still addresses second %d", where, id, r.time)
			}
			if sh.writing == nil {
				f := &c09File{writing: true}
				after := c09ListDir(t, sh.dir)
				for name := range after {
					if _, ok := before[name]; !ok {
						if f.name != "" {
							t.Fatalf("%s: more than one new file", where)
						}
						f.name = filepath.Join(sh.dir, name)
					}
				}
				if f.name == "" {
					t.Fatalf("%s: no new file after the first put of a session/rotation (cache must never append to an old file)", where)
				}
				for _, of := range sh.files {
					if of.name >= f.name {
						t.Fatalf("VP-INCONCLUSIVE %s: new file %s does not sort after %s (wall clock stepped back?)", where, f.name, of.name)
					}
				}
				sh.files = append(sh.files, f)
				sh.writing = f
			}
			r := &c09Rec{time: op.T, seed: op.Seed, size: op.N, off: sh.writing.size, id: id, known: true, file: sh.writing}
			sh.writing.recs = append(sh.writing.recs, r)
			sh.writing.size += c09Hdr + int64(op.N)
			sh.ids[id] = r
			sh.lastPut = r
			if sh.rdFile < len(sh.start) {
				res.classes["put-before-tail-drained"] = true
			}
		case "get", "erase":
			reps := 1
			if op.K == "erase" {
				reps = op.C%4 + 1
			}
			for rep := 0; rep < reps; rep++ {
				ks := knownRecs(sh)
				if op.K == "erase" && op.Keep && len(ks) > 0 {
					last := 0
					for i, kr := range ks {
						if kr.id > ks[last].id {
							last = i
						}
					}
					ks = append(append([]*c09Rec{}, ks[:last]...), ks[last+1:]...)
					if len(ks) == 0 {
						break
					}
				}
				var r *c09Rec
				var id int64
				if op.Dead || len(ks) == 0 {
					if len(sh.deadIDs) > 0 && op.R%3 != 0 {
						id = sh.deadIDs[op.R%len(sh.deadIDs)]
					}
				} else {
					r = ks[(op.R+rep)%len(ks)]
					id = r.id
				}
				if op.K == "erase" {
					if err := d.EraseBucket(si, id); err != nil {
						t.Fatalf("%s: %v", where, err)
					}
					if r != nil {
						r.erased, r.known = true, false
						sh.deadIDs = append(sh.deadIDs, id)
						sh.settle()
					} else {
						res.classes["erase-nop"] = true
					}
					c09CheckShard(t, d, si, sh, where)
					continue
				}
						if r == nil {
					if _, err := c09Get(d, si, id, 0); err == nil {
						t.Fatalf("%s: erased/unknown id %d returned data", where, id)
					}
					res.classes["get-erased"] = true
					continue
				}
				got, err := c09Get(d, si, id, r.time)
				if r.corrupt {
					if err == nil {
						t.Fatalf("%s: second %d with a flipped body bit was returned as good data", where, r.time)
					}
					res.classes["flip-detected"] = true
					if c09PeekErased(r.file.name, r.off) {
						r.erased, r.known = true, false
						sh.deadIDs = append(sh.deadIDs, id)
						sh.settle()
					}
					continue
				}
				if err != nil {
					t.Fatalf("%s: second %d: %v", where, r.time, err)
				}
				if !bytes.Equal(got, c09Payload(r.seed, r.size)) {
					t.Fatalf("%s: second %d returned different bytes", where, r.time)
				}
			}
		case "tail":
			cnt := op.C%4 + 1
			for k := 0; k < cnt; k++ {
				// model: next second in write order among the files that existed at session start
				var exp *c09Rec
				for sh.rdFile < len(sh.start) {
					f := sh.start[sh.rdFile]
					if f.waiting {
						f.waiting, f.reading = false, true
						sh.rdRec, sh.rdPos = 0, 0
					}
					for sh.rdRec < len(f.recs) && exp == nil {
						r := f.recs[sh.rdRec]
						if r.torn {
							sh.rdRec = len(f.recs)
							break
						}
						sh.rdRec++
						sh.rdPos = r.off + c09Hdr + int64(r.size)
						if !r.erased {
							exp = r
						}
					}
					if exp != nil {
						break
					}
					f.reading = false
					sh.rdFile++
				}
				tm, id := c09Tail(t, d, si)
				if exp == nil {
					if id != 0 || tm != 0 {
						t.Fatalf("%s: tail returned second %d id %d, expected end of queue (erased or torn second came back)", where, tm, id)
					}
					sh.settle()
					continue
				}
				if id == 0 {
					t.Fatalf("%s: tail ended, expected second %d (put, not erased, not torn)", where, exp.time)
				}
				if tm != exp.time {
					t.Fatalf("%s: tail returned second %d, expected %d (write order)", where, tm, exp.time)
				}
				if r, ok := sh.ids[id]; ok && r.known {
					t.Fatalf("%s: tail returned id %d which still addresses second %d", where, id, r.time)
				}
				exp.id, exp.known = id, true
				sh.ids[id] = exp
				sh.settle()
				res.classes["tail-read"] = true
				if sh.writing != nil {
					res.classes["tail-after-put"] = true
				}
			}
		case "flip":
			var cands []*c09Rec
			for _, f := range sh.files {
				if f.gone {
					continue
				}
				for _, r := range f.recs {
					if r.live() && r.size > 0 && r.size <= 1<<20 {
						cands = append(cands, r)
					}
				}
			}
			if len(cands) == 0 {
				break
			}
			r := cands[op.R%len(cands)]
			bit := op.Bit % (r.size * 8)
			fp, err := os.OpenFile(r.file.name, os.O_RDWR, 0)
			if err != nil {
				t.Fatalf("%s: %v", where, err)
			}
			var b [1]byte
			pos := r.off + c09Hdr + int64(bit/8)
			if _, err := fp.ReadAt(b[:], pos); err != nil {
				t.Fatalf("%s: %v", where, err)
			}
			b[0] ^= 1 << (bit % 8)
			if _, err := fp.WriteAt(b[:], pos); err != nil {
				t.Fatalf("%s: %v", where, err)
			}
			_ = fp.Close()
			// several flips may cancel out: compare the body on disk with the reference payload
			cur := make([]byte, r.size)
			fp2, err := os.Open(r.file.name)
			if err != nil {
				t.Fatalf("%s: %v", where, err)
			}
			if _, err := fp2.ReadAt(cur, r.off+c09Hdr); err != nil {
				t.Fatalf("%s: %v", where, err)
			}
			_ = fp2.Close()
			r.corrupt = !bytes.Equal(cur, c09Payload(r.seed, r.size))
			res.classes["flip"] = true
		case "restart", "crash":
			for _, s2 := range m.shards {
				l, e := liveOnDisk(s2)
				if l > 0 && e > 0 {
					res.classes["reopen-with-erased-and-live"] = true
					res.nontrivial = true
				}
			}
			if op.K == "restart" {
				open = false
				if err := d.Close(); err != nil {
					t.Fatalf("%s: %v", where, err)
				}
				for _, s2 := range m.shards {
					s2.lastPut = nil
				}
			} else {
				open = false
				c09Kill(d)
				res.classes["crash"] = true
			}
			// after Close/kill every file that exists stays; bookkeeping of the session is gone
			type tear struct {
				sh  *c09Shard
				rec *c09Rec
				k   int
			}
			var tears []tear
			if op.K == "crash" {
				for i, s2 := range m.shards {
					lp := s2.lastPut
					s2.lastPut = nil
					if lp == nil || i >= len(op.Off) || op.Off[i] < 0 {
						continue
					}
					l := c09Hdr + lp.size
					tears = append(tears, tear{sh: s2, rec: lp, k: op.Off[i] % (l + 1)})
				}
			}
			// every truncation offset of the last write (or a sample), each on its own copy of the image
			if op.Enum > 0 && m.imageSize() <= c09EnumLimit {
				for _, tr := range tears {
					l := c09Hdr + tr.rec.size
					offs, full := c09TearOffsets(l)
					for _, k := range offs {
						snap := m.snapshotWithTear(tr.rec, k)
						rel, _ := filepath.Rel(root, tr.rec.file.name)
						verifyImage(snap, func(dst string) {
							if err := os.Truncate(filepath.Join(dst, rel), tr.rec.off+int64(k)); err != nil {
								t.Fatalf("truncate: %v", err)
							}
						}, fmt.Sprintf("%s: last write of shard dir %s torn at byte %d of %d", where, filepath.Base(tr.sh.dir), k, l))
						res.enumOffs++
					}
					if full {
						res.enumFull++
						res.classes["enum-every-offset"] = true
					} else {
						res.classes["enum-sampled-offsets"] = true
					}
				}
			}
			for _, tr := range tears {
				l := c09Hdr + tr.rec.size
				if tr.k == l {
					res.classes["crash-after-complete-write"] = true
					continue
				}
				if err := os.Truncate(tr.rec.file.name, tr.rec.off+int64(tr.k)); err != nil {
					t.Fatalf("%s: truncate: %v", where, err)
				}
				tr.rec.torn = true
				tr.rec.file.size = tr.rec.off + int64(tr.k)
				res.nontrivial = true
				switch {
				case tr.k == 0:
					res.classes["torn-at-0"] = true
				case tr.k < c09Hdr:
					res.classes["torn-in-header"] = true
				case tr.k == c09Hdr:
					res.classes["torn-after-header"] = true
				default:
					res.classes["torn-in-body"] = true
				}
				if tr.rec.off == 0 {
					res.classes["torn-first-record-of-file"] = true
				}
			}
			for _, s2 := range m.shards {
				for _, f := range s2.files {
					if f.gone {
						continue
					}
					var lastRec *c09Rec
					others, othersDead := 0, 0
					for _, r := range f.recs {
						if r.torn {
							continue
						}
						if lastRec != nil {
							others++
							if lastRec.erased {
								othersDead++
							}
						}
						lastRec = r
					}
					if lastRec != nil && lastRec.live() && lastRec.size == 0 {
						res.classes["zero-body-last-in-file-at-reopen"] = true
						if others == 0 {
							res.classes["zero-body-only-record-at-reopen"] = true
						} else if others == othersDead {
							res.classes["zero-body-last-others-erased-at-reopen"] = true
						}
					}
				}
			}
			newSession()
			if m.imageSize() <= c09CopyLimit {
				verifyImage(m.snapshot(), nil, where+": re-read of the image")
			} else {
				res.classes["image-too-big-for-copy"] = true
			}
			d = c09Open(t, root, n)
			open = true
		default:
			t.Fatalf("bad op %q", op.K)
		}
		for i, s2 := range m.shards {
			c09CheckShard(t, d, i, s2, where)
		}
	}
	// final: clean restart, then the full re-read oracle in place
	open = false
	if err := d.Close(); err != nil {
		t.Fatalf("final close: %v", err)
	}
	newSession()
	c09DrainCheck(t, root, m.snapshot(), "final re-read", &res)
	res.images++
	if n > 1 {
		res.classes["multi-shard"] = true
	}
	for _, sh := range m.shards {
		if sh.deleted > 0 {
			res.classes["file-deleted-all-erased"] = true
		}
	}
	return res
}

func (m *c09Model) snapshotWithTear(rec *c09Rec, k int) c09Snap {
	s := m.snapshot()
	l := c09Hdr + rec.size
	if k == l {
		return s
	}
	for si := range s.Files {
		for fi := range s.Files[si] {
			f := &s.Files[si][fi]
			if f.src != rec.file {
				continue
			}
			last := &f.recs[len(f.recs)-1]
			last.torn = true
			f.size = rec.off + int64(k)
		}
	}
	return s
}

// ----- generator -----

func c09Gen() *rapid.Generator[c09Case] {
	thorough := os.Getenv("VERIF_TIER") == "thorough"
	return rapid.Custom(func(t *rapid.T) c09Case {
		c := c09Case{Shards: rapid.SampledFrom([]int{1, 1, 2, 3}).Draw(t, "shards")}
		bigMode := rapid.IntRange(0, 24).Draw(t, "bigmode") == 0
		nops := rapid.IntRange(3, 40).Draw(t, "nops")
		if bigMode {
			nops = rapid.IntRange(4, 14).Draw(t, "nopsbig")
		}
		lastPutSize := make([]int, c.Shards) // -1: last op on the shard was not a put
		for i := range lastPutSize {
			lastPutSize[i] = -1
		}
		size := func(pz int) int {
			if rapid.IntRange(0, 99).Draw(t, "zero") < pz {
				return 0 // the API accepts an empty body: the record is a bare header
			}
			if bigMode && rapid.IntRange(0, 9).Draw(t, "big") < 7 {
				if rapid.IntRange(0, 3).Draw(t, "bigclass") == 0 {
					return rapid.IntRange(9<<20, 17<<20).Draw(t, "bigsize")
				}
				return rapid.IntRange(17<<20, 26<<20).Draw(t, "bigsize") // two of these fill a file, the third rotates
			}
			switch rapid.IntRange(0, 9).Draw(t, "sizeclass") {
			case 0:
				return rapid.IntRange(1, 3).Draw(t, "size")
			case 1, 2, 3, 4, 5:
				return rapid.IntRange(1, 64).Draw(t, "size")
			case 6, 7:
				return rapid.IntRange(1, 236).Draw(t, "size")
			case 8:
				return rapid.IntRange(237, 4096).Draw(t, "size")
			default:
				return rapid.IntRange(4097, 65536).Draw(t, "size")
			}
		}
		put := func(s int, pz int) c09Op {
			n := size(pz)
			lastPutSize[s] = n
			return c09Op{K: "put", S: s, T: uint32(rapid.IntRange(1, 12).Draw(t, "time")), Seed: rapid.Uint64Range(1, 1<<20).Draw(t, "seed"), N: n}
		}
		off := func(n int) int {
			l := c09Hdr + n
			switch rapid.IntRange(0, 9).Draw(t, "offclass") {
			case 0, 1, 2, 3:
				return rapid.IntRange(0, c09Hdr).Draw(t, "off")
			case 4:
				return rapid.SampledFrom([]int{l - 1, l, c09Hdr + 1, 0}).Draw(t, "off")
			default:
				return rapid.IntRange(0, l).Draw(t, "off")
			}
		}
		known := make([]int, c.Shards)  // rough count of seconds addressable in this session
		unread := make([]int, c.Shards) // rough count of seconds left by earlier sessions and not yet read
		notPut := func(s int) { lastPutSize[s] = -1 }
		for len(c.Ops) < nops {
			s := rapid.IntRange(0, c.Shards-1).Draw(t, "s")
			w := []int{25, 3, 3, 3, 4, 7, 12} // put get erase tail flip restart crash
			if known[s] > 0 {
				w[1], w[2] = 10, 28
			}
			if bigMode { // rotation needs ~3 big puts in one session; erasing in between makes the rotated file deletable
				w[0], w[5], w[6] = 40, 2, 4
				if known[s] > 0 {
					w[2] = 30 * known[s]
				}
			}
			if unread[s] > 0 {
				w[3] = 25
			}
			sum := 0
			for _, x := range w {
				sum += x
			}
			k := rapid.IntRange(0, sum-1).Draw(t, "kind")
			kind := 0
			for k >= w[kind] {
				k -= w[kind]
				kind++
			}
			switch kind {
			case 0:
				c.Ops = append(c.Ops, put(s, 6))
				known[s]++
			case 1:
				c.Ops = append(c.Ops, c09Op{K: "get", S: s, R: rapid.IntRange(0, 50).Draw(t, "r"), Dead: rapid.IntRange(0, 7).Draw(t, "dead") == 0})
				notPut(s)
			case 2:
				op := c09Op{K: "erase", S: s, R: rapid.IntRange(0, 50).Draw(t, "r"), C: rapid.IntRange(0, 3).Draw(t, "cnt"), Dead: rapid.IntRange(0, 9).Draw(t, "dead") == 0}
				if bigMode && rapid.IntRange(0, 3).Draw(t, "eraseall") != 0 {
					op.C, op.Dead = 3, false
				}
				c.Ops = append(c.Ops, op)
				if !op.Dead {
					known[s] = max(0, known[s]-op.C-1)
				}
				notPut(s)
			case 3:
				op := c09Op{K: "tail", S: s, C: rapid.IntRange(0, 3).Draw(t, "cnt")}
				c.Ops = append(c.Ops, op)
				got := min(unread[s], op.C+1)
				unread[s] -= got
				known[s] += got
				notPut(s)
			case 4:
				c.Ops = append(c.Ops, c09Op{K: "flip", S: s, R: rapid.IntRange(0, 50).Draw(t, "r"), Bit: rapid.IntRange(0, 1<<20).Draw(t, "bit")})
				notPut(s)
			case 5:
				if !bigMode && rapid.IntRange(0, 9).Draw(t, "putbeforerestart") < 5 { // often an empty second is the last record of its file
					c.Ops = append(c.Ops, put(s, 40))
					known[s]++
					if rapid.IntRange(0, 9).Draw(t, "eraserest") < 5 { // ... and the only live one
						c.Ops = append(c.Ops, c09Op{K: "erase", S: s, C: 3, Keep: true}, c09Op{K: "erase", S: s, R: 1, C: 3, Keep: true})
					}
				}
				c.Ops = append(c.Ops, c09Op{K: "restart"})
				for i := range lastPutSize {
					notPut(i)
					unread[i] += known[i]
					known[i] = 0
				}
			default:
				if lastPutSize[s] < 0 && rapid.IntRange(0, 9).Draw(t, "putfirst") < 8 {
					c.Ops = append(c.Ops, put(s, 25))
					known[s]++
				}
				op := c09Op{K: "crash", S: s}
				for i := 0; i < c.Shards; i++ {
					o := -1
					if lastPutSize[i] >= 0 && (i == s || rapid.Bool().Draw(t, "tearother")) {
						o = off(lastPutSize[i])
					}
					op.Off = append(op.Off, o)
				}
				en := rapid.IntRange(0, 9).Draw(t, "enum")
				if thorough && en < 8 || en < 1 {
					op.Enum = 1
				}
				c.Ops = append(c.Ops, op)
				for i := range lastPutSize {
					notPut(i)
					unread[i] += known[i]
					known[i] = 0
				}
			}
		}
		return c
	})
}

func c09Classes(r c09Result) []string {
	var cls []string
	for k := range r.classes {
		cls = append(cls, k)
	}
	sort.Strings(cls)
	return cls
}

func TestVerifC09DiskCache(t *testing.T) {
	ev := vpNewEv(t, "C09", "diskcache")
	var full, offs, images int64
	rapid.Check(t, func(rt *rapid.T) {
		c := c09Gen().Draw(rt, "case")
		vpRunCase(rt, "C09", "diskcache", c, func() {
			r := c09Prop(rt, c)
			ev.Case(r.nontrivial, c, c09Classes(r)...)
			full += int64(r.enumFull)
			offs += int64(r.enumOffs)
			images += int64(r.images)
			ev.Class("count:records-with-every-truncation-offset-checked", int64(r.enumFull))
			ev.Class("count:truncation-offsets-checked-on-copies", int64(r.enumOffs))
			ev.Class("count:images-fully-re-read", int64(r.images))
			ev.Extra("records_with_every_truncation_offset_checked_in_this_process", full)
			ev.Extra("truncation_offsets_checked_on_copies_in_this_process", offs)
			ev.Extra("images_fully_re_read_in_this_process", images)
		})
	})
}

func init() {
	vpReplayers["C09/diskcache"] = func(t vpT, raw json.RawMessage) {
		var c c09Case
		if err := json.Unmarshal(raw, &c); err != nil {
			t.Fatalf("decode: %v", err)
		}
		c09Prop(t, c)
	}
}
