//go:build verif

package vkuth

import (
	"crypto/ed25519"
	"crypto/hmac"
	"crypto/sha256"
	"encoding/base64"
	"encoding/binary"
	"encoding/hex"
	"encoding/json"
	"fmt"
	"sort"
	"strings"
	"testing"
	"time"

	"pgregory.net/rapid"
)

// ---------- C30 (token part): which access tokens ParseVkuthData accepts, and which bits it grants ----------
//
// Tokens are assembled by hand (header JSON, payload JSON, signature bytes) from a description that
// says, clause by clause, how the token deviates from a valid one. The reference verdict is computed
// from that description, never by parsing the token:
//   must reject  <- some clause of the statement is definitely broken (algorithm, key id, signature,
//                   kind, issuer, user, validity window beyond the 5 s tolerance, structure)
//   unasserted   <- no clause is definitely broken but one sits exactly on the tolerance boundary, or
//                   the statement does not cover it (iat missing; nbf 1..5 s in the future: the statement
//                   grants a 5 s tolerance, the code none for nbf; rejecting early is fail-safe)
//   must accept  <- everything holds: the granted bits must be exactly the bits carrying the
//                   application prefix, with the prefix stripped, and the user must be the token's.
// A panic inside the parser counts as "rejected" (net/http recovers per request) and is counted.

type c30Tok struct {
	Seed  uint64 `json:"seed"`   // derives three ed25519 keys: #0 and #1 configured, #2 not
	Now   int64  `json:"now"`    // unix seconds of the verifier's clock
	NowNs int64  `json:"now_ns"` // its sub-second part
	App   string `json:"app"`

	Alg      string   `json:"alg"`      // header alg; "-" = absent
	Kid      int      `json:"kid"`      // 0 id of the signing key, 1 absent, 2 unknown id, 3 id of the other configured key, 4 a JSON number, 5 upper-cased id
	Kind     int      `json:"kind"`     // 0 "token", 1 absent, 2 "cookie", 3 number, 4 "Token"
	Signer   int      `json:"signer"`   // key that signs: 0, 1 (configured), 2 (not configured)
	Sig      int      `json:"sig"`      // 0 proper, 1 one bit flipped, 2 last byte cut, 3 empty, 4 HMAC-SHA256 keyed with the public key, 5 signature of the payload before it was changed
	SigPos   int      `json:"sig_pos"`  // bit to flip
	Segments int      `json:"segments"` // 0 three, 1 signature segment missing, 2 a fourth segment
	Iss      string   `json:"iss"`      // "-" = absent
	User     string   `json:"user"`     // "-" = absent
	Exp      *int64   `json:"exp"`      // offset to Now in seconds, nil = absent
	Iat      *int64   `json:"iat"`      //
	Nbf      *int64   `json:"nbf"`      //
	Bits     []string `json:"bits"`
	Service  bool     `json:"service"`
	NoClaims bool     `json:"no_claims"` // payload without any registered claim (iss/exp/iat/nbf all absent)
}

func c30Keys(seed uint64) (pub [3]ed25519.PublicKey, priv [3]ed25519.PrivateKey) {
	for i := range pub {
		var b [9]byte
		binary.LittleEndian.PutUint64(b[:], seed)
		b[8] = byte(i)
		h := sha256.Sum256(b[:])
		priv[i] = ed25519.NewKeyFromSeed(h[:])
		pub[i] = priv[i].Public().(ed25519.PublicKey)
	}
	return
}

// key id as vkuth defines it: first 8 bytes of sha256(public key), hex
func c30KeyID(pub ed25519.PublicKey) string {
	h := sha256.Sum256(pub)
	return hex.EncodeToString(h[:8])
}

func c30B64(b []byte) string { return base64.RawURLEncoding.EncodeToString(b) }

const (
	c30Accept = iota
	c30Reject
	c30Open
)

// c30Build returns the token text and the reference verdict with its reason.
func c30Build(c c30Tok) (token string, verdict int, why string) {
	pub, priv := c30Keys(c.Seed)
	verdict = c30Accept
	reject := func(s string) {
		if verdict != c30Reject {
			verdict, why = c30Reject, s
		}
	}
	open := func(s string) {
		if verdict == c30Accept {
			verdict, why = c30Open, s
		}
	}
	signer := c.Signer % 3
	hdr := map[string]any{"typ": "JWT"}
	if c.Alg != "-" {
		hdr["alg"] = c.Alg
	}
	if c.Alg != "EdDSA" {
		reject("algorithm is not EdDSA")
	}
	named := -1 // configured key the token names
	switch c.Kid {
	case 0:
		hdr["kid"] = c30KeyID(pub[signer])
		if signer < 2 {
			named = signer
		}
	case 1:
	case 2:
		id := c30KeyID(pub[signer]) // same id with its first digit changed
		if id[0] == '0' {
			id = "f" + id[1:]
		} else {
			id = "0" + id[1:]
		}
		hdr["kid"] = id
	case 3:
		hdr["kid"] = c30KeyID(pub[1-signer%2])
		named = 1 - signer%2
	case 4:
		hdr["kid"] = 12345
	default:
		hdr["kid"] = strings.ToUpper(c30KeyID(pub[signer])) + "Z"
	}
	if named < 0 {
		reject("key id absent, not a string, or not a configured key")
	} else if named != signer {
		reject("signed by a key other than the one the token names")
	}
	switch c.Kind {
	case 0:
		hdr["kind"] = "token"
	case 1:
		reject("kind header absent")
	case 2:
		hdr["kind"] = "cookie"
		reject("kind header is not token")
	case 3:
		hdr["kind"] = 1
		reject("kind header is not token")
	default:
		hdr["kind"] = "Token"
		reject("kind header is not token")
	}
	mkPayload := func(bits []string) []byte {
		p := map[string]any{}
		data := map[string]any{"bits": bits, "is_service": c.Service}
		if c.User != "-" {
			data["user"] = c.User
		}
		p["vkuth_data"] = data
		if !c.NoClaims {
			if c.Iss != "-" {
				p["iss"] = c.Iss
			}
			if c.Exp != nil {
				p["exp"] = c.Now + *c.Exp
			}
			if c.Iat != nil {
				p["iat"] = c.Now + *c.Iat
			}
			if c.Nbf != nil {
				p["nbf"] = c.Now + *c.Nbf
			}
		}
		b, _ := json.Marshal(p)
		return b
	}
	iss, exp, iat, nbf := c.Iss, c.Exp, c.Iat, c.Nbf
	if c.NoClaims {
		iss, exp, iat, nbf = "-", nil, nil, nil
	}
	if iss != "vkuth" {
		reject("issuer is not vkuth")
	}
	if c.User == "-" || c.User == "" {
		reject("no user")
	}
	switch {
	case exp == nil:
		reject("no expiry: the token has no validity window")
	case *exp <= -6:
		reject("expired by more than the tolerance")
	case *exp == -5:
		open("expiry exactly on the tolerance boundary")
	}
	switch {
	case iat == nil:
		open("issued-at absent (statement silent)")
	case *iat >= 6:
		reject("issued in the future beyond the tolerance")
	case *iat == 5:
		open("issued-at exactly on the tolerance boundary")
	}
	switch {
	case nbf == nil:
	case *nbf >= 6:
		reject("not valid yet, beyond the tolerance")
	case *nbf >= 1:
		open("not-before within the tolerance (the code applies none to nbf)")
	}
	bits := c.Bits
	if bits == nil {
		bits = []string{}
	}
	h, _ := json.Marshal(hdr)
	payload := mkPayload(bits)
	signed := c30B64(h) + "." + c30B64(payload)
	var sig []byte
	switch c.Sig {
	case 0:
		sig = ed25519.Sign(priv[signer], []byte(signed))
	case 1:
		sig = ed25519.Sign(priv[signer], []byte(signed))
		pos := c.SigPos % (len(sig) * 8)
		sig[pos/8] ^= 1 << (pos % 8)
		reject("signature bit flipped")
	case 2:
		sig = ed25519.Sign(priv[signer], []byte(signed))
		sig = sig[:len(sig)-1]
		reject("signature truncated")
	case 3:
		reject("signature empty")
	case 4:
		k := pub[signer]
		if named >= 0 {
			k = pub[named]
		}
		m := hmac.New(sha256.New, k)
		m.Write([]byte(signed))
		sig = m.Sum(nil)
		reject("HMAC keyed with the public key instead of an EdDSA signature")
	default:
		sig = ed25519.Sign(priv[signer], []byte(signed))
		payload = mkPayload(append(append([]string{}, bits...), c.App+":admin"))
		signed = c30B64(h) + "." + c30B64(payload)
		reject("payload changed after signing")
	}
	token = signed + "." + c30B64(sig)
	switch c.Segments {
	case 1:
		token = signed
		reject("signature segment missing")
	case 2:
		token += "." + c30B64([]byte("x"))
		reject("four segments")
	}
	return token, verdict, why
}

func c30TokProp(t vpT, c c30Tok) (verdict int, panicked bool) {
	token, verdict, why := c30Build(c)
	pub, _ := c30Keys(c.Seed)
	keys, err := ParseVkuthKeys([]string{c30B64(pub[0]), c30B64(pub[1])})
	if err != nil || len(keys) != 2 {
		t.Fatalf("ParseVkuthKeys: %v (%d keys)", err, len(keys))
	}
	helper := NewJWTHelper(keys, c.App)
	helper.SetNow(func() time.Time { return time.Unix(c.Now, c.NowNs) })
	var data *AccessData
	func() {
		defer func() {
			if r := recover(); r != nil {
				panicked = true
				data, err = nil, fmt.Errorf("panic: %v", r)
			}
		}()
		data, err = helper.ParseVkuthData(token)
	}()
	accepted := err == nil
	if accepted && data == nil {
		t.Fatalf("no error and no data for %s", token)
	}
	switch verdict {
	case c30Reject:
		if accepted {
			t.Fatalf("token accepted although: %s\ntoken %s\ngranted %v user %q", why, token, c30BitList(data.Bits), data.User)
		}
	case c30Accept:
		if !accepted {
			t.Fatalf("valid token rejected: %v\ntoken %s", err, token)
		}
	}
	if accepted {
		want := map[string]struct{}{}
		for _, b := range c.Bits {
			if strings.HasPrefix(b, c.App+":") && len(b) > len(c.App)+1 {
				want[b[len(c.App)+1:]] = struct{}{}
			}
		}
		if fmt.Sprint(c30BitList(want)) != fmt.Sprint(c30BitList(data.Bits)) {
			t.Fatalf("granted bits %q, want %q (token bits %q, application %q)", c30BitList(data.Bits), c30BitList(want), c.Bits, c.App)
		}
		if data.User != c.User || data.IsService != c.Service {
			t.Fatalf("user %q service %v, token says %q %v", data.User, data.IsService, c.User, c.Service)
		}
	}
	return verdict, panicked
}

func c30BitList(m map[string]struct{}) []string {
	r := make([]string, 0, len(m))
	for k := range m {
		r = append(r, k)
	}
	sort.Strings(r)
	return r
}

func c30GenBits(t *rapid.T, app string) []string {
	other := []string{"otherapp", "statshouse", app + "x", strings.ToUpper(app), "x" + app, ""}
	names := []string{"admin", "developer", "view_default", "edit_default", "view_prefix.foo_", "edit_metric.bar", "view_namespace.ns", "x", "view_namespace.", "edit_prefix.", "view_metric. "}
	return rapid.SliceOfN(rapid.Custom(func(t *rapid.T) string {
		n := rapid.SampledFrom(names).Draw(t, "bit")
		switch rapid.IntRange(0, 9).Draw(t, "prefix") {
		case 0, 1, 2, 3, 4:
			return app + ":" + n
		case 5:
			return n // no application prefix at all
		case 6:
			return app + ":" + app + ":" + n
		case 7:
			return app + n // prefix without the separator
		default:
			return rapid.SampledFrom(other).Draw(t, "otherapp") + ":" + n
		}
	}), 0, 8).Draw(t, "bits")
}

func c30GenTok() *rapid.Generator[c30Tok] {
	offs := []int64{-3600, -7, -6, -5, -4, -1, 0, 1, 4, 5, 6, 7, 3600}
	return rapid.Custom(func(t *rapid.T) c30Tok {
		i64 := func(v int64) *int64 { return &v }
		c := c30Tok{
			Seed: rapid.Uint64().Draw(t, "seed"),
			Now:  rapid.Int64Range(1_600_000_000, 1_900_000_000).Draw(t, "now"),
			App:  rapid.SampledFrom([]string{"statshouse-api", "sh", "app"}).Draw(t, "app"),
			Alg:  "EdDSA", Iss: "vkuth", User: "user@example.com",
			Exp: i64(3600), Iat: i64(-60),
			Signer: rapid.IntRange(0, 1).Draw(t, "signer"),
		}
		if rapid.Bool().Draw(t, "subsecond") {
			c.NowNs = rapid.Int64Range(0, 999_999_999).Draw(t, "ns")
		}
		if rapid.Bool().Draw(t, "hasNbf") {
			c.Nbf = i64(-60)
		}
		c.Service = rapid.Bool().Draw(t, "service")
		c.Bits = c30GenBits(t, c.App)
		nm := rapid.SampledFrom([]int{0, 1, 1, 1, 1, 1, 1, 2, 2, 3}).Draw(t, "mutations")
		for i := 0; i < nm; i++ {
			switch rapid.IntRange(0, 11).Draw(t, "clause") {
			case 0:
				c.Alg = rapid.SampledFrom([]string{"HS256", "HS512", "none", "ES256", "RS256", "PS256", "eddsa", "EdDSA ", "", "-"}).Draw(t, "alg")
			case 1:
				c.Kid = rapid.IntRange(1, 5).Draw(t, "kid")
			case 2:
				c.Kind = rapid.IntRange(1, 4).Draw(t, "kind")
			case 3:
				c.Signer = 2
			case 4:
				c.Sig = rapid.IntRange(1, 5).Draw(t, "sig")
				c.SigPos = rapid.IntRange(0, 511).Draw(t, "pos")
			case 5:
				c.Segments = rapid.IntRange(1, 2).Draw(t, "segments")
			case 6:
				c.Iss = rapid.SampledFrom([]string{"-", "", "vkuth2", "VKUTH", "vkuth ", "https://vkuth"}).Draw(t, "iss")
			case 7:
				c.User = rapid.SampledFrom([]string{"-", ""}).Draw(t, "user")
			case 8:
				if rapid.IntRange(0, 6).Draw(t, "noexp") == 0 {
					c.Exp = nil
				} else {
					c.Exp = i64(rapid.SampledFrom(offs).Draw(t, "exp"))
				}
			case 9:
				if rapid.IntRange(0, 6).Draw(t, "noiat") == 0 {
					c.Iat = nil
				} else {
					c.Iat = i64(rapid.SampledFrom(offs).Draw(t, "iat"))
				}
			case 10:
				c.Nbf = i64(rapid.SampledFrom(offs).Draw(t, "nbf"))
			default:
				if rapid.IntRange(0, 3).Draw(t, "noclaims") == 0 {
					c.NoClaims = true
				} else { // the HS256-with-public-key forgery, complete
					c.Alg, c.Sig = "HS256", 4
				}
			}
		}
		return c
	})
}

func c30TokClasses(c c30Tok, verdict int, panicked bool) (nontrivial bool, cls []string) {
	base := c30Tok{Alg: "EdDSA", Iss: "vkuth"}
	n := 0
	add := func(cond bool, name string) {
		if cond {
			n++
			cls = append(cls, name)
		}
	}
	add(c.Alg != base.Alg, "mut-alg")
	add(c.Kid != 0, "mut-kid")
	add(c.Kind != 0, "mut-kind")
	add(c.Signer == 2, "mut-unconfigured-signer")
	add(c.Sig != 0, "mut-signature")
	add(c.Segments != 0, "mut-segments")
	add(c.Iss != base.Iss && !c.NoClaims, "mut-issuer")
	add(c.User == "" || c.User == "-", "mut-user")
	add(!c.NoClaims && (c.Exp == nil || *c.Exp < 0), "mut-exp-past")
	add(!c.NoClaims && (c.Iat == nil || *c.Iat > 0), "mut-iat-future")
	add(!c.NoClaims && c.Nbf != nil && *c.Nbf > 0, "mut-nbf-future")
	add(c.NoClaims, "mut-no-registered-claims")
	switch verdict {
	case c30Accept:
		cls = append(cls, "must-accept")
	case c30Reject:
		cls = append(cls, "must-reject")
	default:
		cls = append(cls, "unasserted")
	}
	if panicked {
		cls = append(cls, "parser-panicked-counted-as-rejected")
	}
	if c.Signer == 1 && verdict == c30Accept {
		cls = append(cls, "accepted-second-configured-key")
	}
	for _, b := range c.Bits {
		if !strings.HasPrefix(b, c.App+":") {
			cls = append(cls, "has-foreign-bit")
			break
		}
	}
	return n == 1, cls
}

func TestVerifC30Token(t *testing.T) {
	ev := vpNewEv(t, "C30", "token")
	rapid.Check(t, func(rt *rapid.T) {
		c := c30GenTok().Draw(rt, "case")
		vpRunCase(rt, "C30", "token", c, func() {
			v, p := c30TokProp(rt, c)
			nt, cls := c30TokClasses(c, v, p)
			ev.Case(nt, c, cls...)
		})
	})
}

func init() {
	vpReplayers["C30/token"] = func(t vpT, raw json.RawMessage) {
		var c c30Tok
		if err := json.Unmarshal(raw, &c); err != nil {
			t.Fatalf("decode: %v", err)
		}
		c30TokProp(t, c)
	}
}
