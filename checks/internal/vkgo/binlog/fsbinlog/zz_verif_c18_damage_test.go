//go:build verif

package fsbinlog

// C18 damage sub-checks: enumerated truncation points ("trunc") and enumerated single-bit flips
// ("flip") on a copy of the files of a binlog written by the real writer.

import (
	"encoding/json"
	"fmt"
	"hash/crc32"
	"os"
	"path/filepath"
	"sort"
	"strings"
	"testing"

	prand "pgregory.net/rand"
	"pgregory.net/rapid"
)

type c18LogCase struct {
	Chunk uint32 `json:"chunk"`
	Mode  int    `json:"mode"`
	Seed  uint64 `json:"seed"`
	Sizes []int  `json:"sizes"`
	Asap  []bool `json:"asap,omitempty"` // per event; the last one is always ASAP
	// flip only: explicit fault points (replay files / rapid-drawn); empty = enumerate by tier
	Flips []c18FlipPoint `json:"flips,omitempty"`
	// trunc only: explicit cut points; empty = enumerate by tier
	Cuts []int64 `json:"cuts,omitempty"`
}

type c18FlipPoint struct {
	Pos int64 `json:"pos"`
	Bit uint8 `json:"bit"`
}

type c18Log struct {
	opts   Options
	events []c18Ev
	first  int64
	g      []byte
	files  []c18File
	lay    c18Layout
}

// c18BuildLog writes the events with the real writer (one session, clean shutdown) on real files.
func c18BuildLog(t vpT, dir string, c c18LogCase) *c18Log {
	w := c18NewWorld(t, dir, c.Chunk, false, true)
	if _, err := CreateEmptyFsBinlog(w.opts); err != nil {
		t.Fatalf("CreateEmptyFsBinlog: %v", err)
	}
	eng := c18NewEngine(c.Seed, c.Mode, 0)
	sess := c18Start(w.opts, 0, nil, eng)
	defer func() { _ = sess.stop() }()
	if err := sess.waitReady(); err != nil {
		if err == errC18Timeout {
			c18Inconclusive(t, "binlog not ready within %v", c18Timeout)
		}
		t.Fatalf("start: %v", err)
	}
	l := &c18Log{opts: w.opts}
	l.first, _, _, _ = eng.snapshot()
	pos := l.first
	for i, n := range c.Sizes {
		payload := c18Encode(c.Seed, uint32(i), n)
		var next int64
		var err error
		if i == len(c.Sizes)-1 || (i < len(c.Asap) && c.Asap[i]) {
			next, err = sess.bl.AppendASAP(pos, payload)
		} else {
			next, err = sess.bl.Append(pos, payload)
		}
		if err != nil {
			t.Fatalf("Append #%d at %d: %v", i, pos, err)
		}
		l.events = append(l.events, c18Ev{Seq: uint32(i), Len: n, Start: pos, Next: next})
		pos = next
	}
	if err := sess.waitCommit(pos); err != nil {
		if err == errC18Timeout {
			c18Inconclusive(t, "no commit >= %d within %v", pos, c18Timeout)
		}
		t.Fatalf("waiting for commit %d: %v", pos, err)
	}
	if err := sess.stop(); err != nil {
		t.Fatalf("Run returned %v", err)
	}
	var err error
	if l.files, err = c18ReadFiles(w.fs, w.prefix); err != nil {
		t.Fatalf("%v", err)
	}
	if l.g, err = c18Image(l.files); err != nil {
		t.Fatalf("%v", err)
	}
	if int64(len(l.g)) != pos {
		t.Fatalf("files hold %d bytes, the writer returned offset %d", len(l.g), pos)
	}
	if err = c18CheckImage(c.Seed, l.events, l.g); err != nil {
		t.Fatalf("%v", err)
	}
	if l.lay, err = c18MakeLayout(l.events, l.first, l.g); err != nil {
		t.Fatalf("%v", err)
	}
	return l
}

// copyTo writes a private copy of the files under dir and returns the options to read it.
func (l *c18Log) copyTo(t vpT, dir string) (Options, []string) {
	if err := os.MkdirAll(dir, 0o755); err != nil {
		t.Fatalf("VP-INCONCLUSIVE %v", err)
	}
	var names []string
	for _, f := range l.files {
		name := filepath.Join(dir, filepath.Base(f.Name))
		if err := os.WriteFile(name, f.Data, 0o644); err != nil {
			t.Fatalf("VP-INCONCLUSIVE %v", err)
		}
		names = append(names, name)
	}
	o := l.opts
	o.PrefixPath = filepath.Join(dir, filepath.Base(l.opts.PrefixPath))
	return o, names
}

func (l *c18Log) fileOf(pos int64) int { // index of the file holding global byte pos
	i := sort.Search(len(l.files), func(i int) bool { return l.files[i].Pos > pos }) - 1
	if i < 0 {
		i = 0
	}
	return i
}

// ---------------------------------------------------------------- truncation

type c18TruncStats struct {
	cuts, tornHeader, inPadding, inEvent, inService, atBoundary int
}

// c18CheckCut replays a binlog cut at global offset T (bytes [0,T) remain; emptyLast tells whether
// the file that would start at T exists with zero length) and checks the truncation clause.
func (l *c18Log) checkCut(opts Options, c c18LogCase, T int64, mode int) error {
	eng, pi, err := c18ReadOnly(opts, c.Seed, mode, 0, nil)
	off, applied, _, bad := eng.snapshot()
	if err != nil {
		return fmt.Errorf("replay failed: %v", err)
	}
	if len(bad) > 0 {
		return fmt.Errorf("%s", bad[0])
	}
	// whole events before the cut must all be delivered, nothing else may be
	must, may := 0, 0
	for _, ev := range l.events {
		if ev.end() <= T {
			must++
		}
		if ev.Start+int64(c18HdrLen+ev.Len) <= T {
			may++
		}
	}
	if len(applied) < must || len(applied) > may {
		return fmt.Errorf("%d events delivered; %d whole events lie before the cut", len(applied), must)
	}
	if err := c18Expect("replay", applied, l.events[:len(applied)], 0); err != nil {
		return err
	}
	// the reader and the engine must stop on a record boundary that is not beyond the data, at or after the
	// last delivered event (after a ROTATE_TO the reader reports the position of that record, the engine the
	// position behind it)
	lastEnd := l.first
	if n := len(applied); n > 0 {
		lastEnd = l.events[n-1].end()
	}
	for _, p := range []int64{pi.Offset, off} {
		i := sort.Search(len(l.lay.Bounds), func(i int) bool { return l.lay.Bounds[i] >= p })
		onBound := i < len(l.lay.Bounds) && l.lay.Bounds[i] == p
		if !onBound || p < lastEnd || (p > T && p != lastEnd) {
			return fmt.Errorf("reader stopped at %d, engine at %d; cut at %d, last delivered event ends at %d", pi.Offset, off, T, lastEnd)
		}
	}
	if must < len(l.events) && off > l.events[must].Start && len(applied) == must {
		return fmt.Errorf("engine moved to %d past the start of event seq %d that was not delivered", off, l.events[must].Seq)
	}
	if pi.Offset <= T && pi.Crc != crc32.ChecksumIEEE(l.g[:pi.Offset]) {
		return fmt.Errorf("reader stopped at %d with crc %08x, crc of the bytes before it is %08x", pi.Offset, pi.Crc, crc32.ChecksumIEEE(l.g[:pi.Offset]))
	}
	return nil
}

func c18PropTrunc(t vpT, c c18LogCase, dir string, st *c18TruncStats) (nontrivial bool, classes []string) {
	l := c18BuildLog(t, filepath.Join(dir, "src"), c)
	end := int64(len(l.g))
	winStart := l.first
	if n := len(l.events); n >= 2 {
		winStart = l.events[n-2].Start
	}
	// which cuts
	var cuts []int64
	thorough := os.Getenv("VERIF_TIER") == "thorough"
	switch {
	case len(c.Cuts) > 0:
		for _, T := range c.Cuts {
			if T >= 0 && T < end {
				cuts = append(cuts, T)
			}
		}
	case thorough || end-winStart <= 1500:
		for T := winStart; T < end; T++ {
			cuts = append(cuts, T)
		}
	default:
		pick := map[int64]bool{}
		rng := prand.New(c.Seed)
		for _, b := range l.lay.Bounds {
			for d := int64(-40); d <= 40; d++ {
				if T := b + d; T >= winStart && T < end {
					pick[T] = true
				}
			}
		}
		for k := 0; k < 500; k++ {
			pick[winStart+int64(rng.Intn(int(end-winStart)))] = true
		}
		for T := range pick {
			cuts = append(cuts, T)
		}
	}
	sort.Slice(cuts, func(i, j int) bool { return cuts[i] > cuts[j] }) // descending: truncate in place
	opts, names := l.copyTo(t, filepath.Join(dir, "dmg"))
	present := len(names)
	torn := 0
	for _, T := range cuts {
		k := l.fileOf(T)
		for present > k+1 { // files that start at or after the cut disappear
			present--
			if err := os.Remove(names[present]); err != nil {
				t.Fatalf("VP-INCONCLUSIVE %v", err)
			}
		}
		local := T - l.files[k].Pos
		if err := os.Truncate(names[k], local); err != nil {
			t.Fatalf("VP-INCONCLUSIVE %v", err)
		}
		st.cuts++
		what := "in-event"
		switch {
		case k > 0 && local < c18RotRecLen:
			what = "torn-file-header"
		case func() bool { i := sort.Search(len(l.lay.Bounds), func(i int) bool { return l.lay.Bounds[i] >= T }); return i < len(l.lay.Bounds) && l.lay.Bounds[i] == T }():
			what = "at-boundary"
			st.atBoundary++
		default:
			inEv := false
			for _, ev := range l.events {
				if T > ev.Start && T < ev.end() {
					inEv = true
					if T >= ev.Start+int64(c18HdrLen+ev.Len) {
						what = "in-padding"
						st.inPadding++
					} else {
						st.inEvent++
					}
				}
			}
			if !inEv {
				what = "in-service-record"
				st.inService++
			}
		}
		if what == "torn-file-header" {
			// the newest file holds fewer than the 36 bytes of its ROTATE_FROM header (crash in the middle of a
			// rotation): still "a truncated binlog", same oracle
			torn++
			st.tornHeader++
		}
		if err := l.checkCut(opts, c, T, (c.Mode+int(T))%3); err != nil {
			t.Fatalf("cut at %d of %d (%s; file %d of %d, local %d): %v", T, end, what, k+1, len(l.files), local, err)
		}
	}
	if len(l.lay.RotateTos) > 0 {
		classes = append(classes, "rotation")
	}
	if torn > 0 {
		classes = append(classes, "torn-file-header-cuts")
	}
	if len(l.files) >= 2 && l.files[len(l.files)-1].Pos > winStart {
		classes = append(classes, "window-spans-files")
	}
	if len(c.Cuts) == 0 && (thorough || end-winStart <= 1500) {
		classes = append(classes, "window-exhaustive")
	} else {
		classes = append(classes, "window-sampled")
	}
	return len(cuts) > 0 && len(l.events) >= 2, classes
}

func c18GenLog(maxEvents int, flip bool) *rapid.Generator[c18LogCase] {
	return rapid.Custom(func(t *rapid.T) c18LogCase {
		c := c18LogCase{
			Mode: rapid.IntRange(0, 2).Draw(t, "mode"),
			Seed: rapid.Uint64().Draw(t, "seed"),
		}
		if flip {
			// needs LEV_CRC32 records: more than 64 KiB of events
			c.Chunk = c18GenChunk(t)
			total := 0
			target := rapid.IntRange(66000, 150000).Draw(t, "total")
			for total < target {
				s := 0
				switch rapid.IntRange(0, 3).Draw(t, "sizeclass") {
				case 0:
					s = rapid.IntRange(0, 300).Draw(t, "size")
				case 1:
					s = rapid.IntRange(301, 5000).Draw(t, "size")
				default:
					s = rapid.IntRange(5001, 40000).Draw(t, "size")
				}
				c.Sizes = append(c.Sizes, s)
				c.Asap = append(c.Asap, rapid.IntRange(0, 3).Draw(t, "asap") == 0)
				total += s + c18HdrLen
			}
			return c
		}
		c.Chunk = uint32(rapid.IntRange(128, 4096).Draw(t, "chunk"))
		n := rapid.IntRange(2, maxEvents).Draw(t, "n")
		for i := 0; i < n; i++ {
			s := 0
			switch k := rapid.IntRange(0, 9).Draw(t, "sizeclass"); {
			case k == 0:
				s = 0
			case k <= 6:
				s = rapid.IntRange(1, 120).Draw(t, "size")
			case k <= 8:
				s = rapid.IntRange(121, 700).Draw(t, "size")
			default:
				s = rapid.IntRange(701, 6000).Draw(t, "size")
			}
			c.Sizes = append(c.Sizes, s)
			c.Asap = append(c.Asap, rapid.IntRange(0, 3).Draw(t, "asap") == 0)
		}
		return c
	})
}

// ---------------------------------------------------------------- bit flips

type c18FlipStats struct {
	flips, byCrc, byOther, stoppedBefore         int
	inBody, inEvHeader, inService, inStartRecord int
	crossFile                                    int // the flipped byte lies in an earlier file than the covering crc record
}

func (a *c18FlipStats) add(b c18FlipStats) {
	a.flips += b.flips
	a.byCrc += b.byCrc
	a.byOther += b.byOther
	a.stoppedBefore += b.stoppedBefore
	a.inBody += b.inBody
	a.inEvHeader += b.inEvHeader
	a.inService += b.inService
	a.inStartRecord += b.inStartRecord
	a.crossFile += b.crossFile
}

// region of global byte p: 0 start records, 1 event header, 2 event body/padding, 3 service record
func (l *c18Log) region(p int64) int {
	if p < l.first {
		return 0
	}
	i := sort.Search(len(l.events), func(i int) bool { return l.events[i].Start > p }) - 1
	ev := l.events[i]
	switch {
	case p < ev.Start+c18HdrLen:
		return 1
	case p < ev.end():
		return 2
	}
	return 3
}

// checkFlip: bit (p, bit) is flipped in the copy; R is the position of the first LEV_CRC32 record behind p.
func (l *c18Log) checkFlip(opts Options, c c18LogCase, p, R int64, mode int, st *c18FlipStats) error {
	eng, pi, err := c18ReadOnly(opts, c.Seed, mode, 0, nil)
	_, applied, _, _ := eng.snapshot()
	for i, a := range applied {
		if a.At >= R+c18CrcRecLen {
			return fmt.Errorf("event (seq %d) at offset %d delivered behind the checksum record at %d (replay error: %v)", a.Seq, a.At, R, err)
		}
		// everything that lies wholly before the flipped byte is delivered exactly as appended
		if i < len(l.events) && l.events[i].end() <= p {
			w := l.events[i]
			if a.Seq != w.Seq || a.Len != w.Len || !a.BodyOK || a.At != w.Start {
				return fmt.Errorf("event #%d before the flipped byte delivered as (seq %d len %d at %d ok %v), appended (seq %d len %d at %d)", i, a.Seq, a.Len, a.At, a.BodyOK, w.Seq, w.Len, w.Start)
			}
		}
	}
	switch {
	case err == nil && pi.Offset > R:
		return fmt.Errorf("replay went past the checksum record at %d (ended at %d of %d, %d events delivered) without an error", R, pi.Offset, len(l.g), len(applied))
	case err == nil:
		st.stoppedBefore++
	case strings.Contains(err.Error(), "crc32 mismatch") || strings.Contains(err.Error(), "expected crc"):
		st.byCrc++
	default:
		st.byOther++
	}
	return nil
}

func c18PropFlip(t vpT, c c18LogCase, dir string, st *c18FlipStats) (nontrivial bool, classes []string) {
	l := c18BuildLog(t, filepath.Join(dir, "src"), c)
	if len(l.lay.RotateTos) > 0 {
		classes = append(classes, "rotation")
	}
	if len(l.lay.CrcRecs) == 0 {
		return false, append(classes, "no-crc-record")
	}
	lastCrc := l.lay.CrcRecs[len(l.lay.CrcRecs)-1]
	var flips []c18FlipPoint
	thorough := os.Getenv("VERIF_TIER") == "thorough"
	exhaustive := false
	switch {
	case len(c.Flips) > 0:
		for _, f := range c.Flips {
			if f.Pos >= 0 && f.Pos < lastCrc && f.Bit < 8 {
				flips = append(flips, f)
			}
		}
	case thorough && lastCrc <= c18ExhaustiveFlipBytes:
		// every byte before the last crc record: all 8 bits of structural bytes (start records, service
		// records, event headers), one bit (rotating with the position) of every body byte
		exhaustive = true
		for p := int64(0); p < lastCrc; p++ {
			if l.region(p) == 2 {
				flips = append(flips, c18FlipPoint{Pos: p, Bit: uint8(p % 8)})
				continue
			}
			for b := uint8(0); b < 8; b++ {
				flips = append(flips, c18FlipPoint{Pos: p, Bit: b})
			}
		}
	default:
		rng := prand.New(c.Seed ^ 0xf11b)
		n := 240
		if thorough {
			n = 4000
		}
		// every bit of every service record and of the start records; then sampled event headers and bodies
		var service []int64
		for p := int64(0); p < l.first; p++ {
			service = append(service, p)
		}
		for _, r := range l.lay.CrcRecs {
			for d := int64(0); d < c18CrcRecLen; d++ {
				service = append(service, r+d)
			}
		}
		for _, r := range l.lay.RotateTos {
			for d := int64(0); d < 2*c18RotRecLen; d++ {
				service = append(service, r+d)
			}
		}
		for k := 0; k < n; k++ {
			var p int64
			switch k % 4 {
			case 0:
				p = service[rng.Intn(len(service))]
			case 1:
				p = l.events[rng.Intn(len(l.events))].Start + int64(rng.Intn(c18HdrLen))
			case 2: // tail of a file: the last bytes before a ROTATE_TO
				if len(l.lay.RotateTos) > 0 {
					p = l.lay.RotateTos[rng.Intn(len(l.lay.RotateTos))] - 1 - int64(rng.Intn(64))
					break
				}
				fallthrough
			default:
				p = int64(rng.Intn(int(lastCrc)))
			}
			if p >= 0 && p < lastCrc {
				flips = append(flips, c18FlipPoint{Pos: p, Bit: uint8(rng.Intn(8))})
			}
		}
	}
	opts, names := l.copyTo(t, filepath.Join(dir, "dmg"))
	handles := make([]*os.File, len(names))
	for i, n := range names {
		h, err := os.OpenFile(n, os.O_RDWR, 0)
		if err != nil {
			t.Fatalf("VP-INCONCLUSIVE %v", err)
		}
		defer h.Close()
		handles[i] = h
	}
	for j, f := range flips {
		k := l.fileOf(f.Pos)
		local := f.Pos - l.files[k].Pos
		orig := l.files[k].Data[local]
		if _, err := handles[k].WriteAt([]byte{orig ^ (1 << f.Bit)}, local); err != nil {
			t.Fatalf("VP-INCONCLUSIVE %v", err)
		}
		ri := sort.Search(len(l.lay.CrcRecs), func(i int) bool { return l.lay.CrcRecs[i] > f.Pos })
		R := l.lay.CrcRecs[ri]
		st.flips++
		switch l.region(f.Pos) {
		case 0:
			st.inStartRecord++
		case 1:
			st.inEvHeader++
		case 2:
			st.inBody++
		default:
			st.inService++
		}
		if l.fileOf(R) != k {
			st.crossFile++
		}
		err := l.checkFlip(opts, c, f.Pos, R, (c.Mode+j)%3, st)
		if _, werr := handles[k].WriteAt([]byte{orig}, local); werr != nil {
			t.Fatalf("VP-INCONCLUSIVE %v", werr)
		}
		if err != nil {
			t.Fatalf("bit %d of byte %d flipped (file %d of %d, +%d; covered by the LEV_CRC32 record at %d in file %d): %v",
				f.Bit, f.Pos, k+1, len(l.files), local, R, l.fileOf(R)+1, err)
		}
	}
	if exhaustive {
		classes = append(classes, "flips-every-byte")
	} else {
		classes = append(classes, "flips-sampled")
	}
	if len(l.lay.CrcRecs) > 1 {
		classes = append(classes, "crc-records>=2")
	}
	return len(flips) > 0, classes
}

const c18ExhaustiveFlipBytes = 80000

func (st c18FlipStats) record(ev *vpEvidence) {
	ev.Class("fault-points:flips", int64(st.flips))
	ev.Class("fault-points:flips-in-event-body", int64(st.inBody))
	ev.Class("fault-points:flips-in-event-header", int64(st.inEvHeader))
	ev.Class("fault-points:flips-in-service-record", int64(st.inService))
	ev.Class("fault-points:flips-in-start-records", int64(st.inStartRecord))
	ev.Class("fault-points:flips-covered-only-by-a-later-file", int64(st.crossFile))
	ev.Class("outcome:crc-error", int64(st.byCrc))
	ev.Class("outcome:other-error-before-the-record", int64(st.byOther))
	ev.Class("outcome:stopped-before-the-record", int64(st.stoppedBefore))
	ev.Extra("bit_flips_replayed_shard"+os.Getenv("VERIF_SHARD"), st.flips)
}

func TestVerifC18Flip(t *testing.T) {
	ev := vpNewEv(t, "C18", "flip")
	var total c18FlipStats
	rapid.Check(t, func(rt *rapid.T) {
		c := c18GenLog(0, true).Draw(rt, "case")
		vpRunCase(rt, "C18", "flip", c, func() {
			dir := c18TempDir(rt)
			defer os.RemoveAll(dir)
			var st c18FlipStats
			nt, cls := c18PropFlip(rt, c, dir, &st)
			total.add(st)
			ev.Case(nt, c, cls...)
		})
	})
	total.record(ev)
}

func c18TempDir(t vpT) string {
	dir, err := os.MkdirTemp("", "c18d")
	if err != nil {
		t.Fatalf("VP-INCONCLUSIVE %v", err)
	}
	return dir
}

func TestVerifC18Trunc(t *testing.T) {
	ev := vpNewEv(t, "C18", "trunc")
	var total c18TruncStats
	rapid.Check(t, func(rt *rapid.T) {
		c := c18GenLog(10, false).Draw(rt, "case")
		vpRunCase(rt, "C18", "trunc", c, func() {
			dir := c18TempDir(rt)
			defer os.RemoveAll(dir)
			var st c18TruncStats
			nt, cls := c18PropTrunc(rt, c, dir, &st)
			total.cuts += st.cuts
			total.tornHeader += st.tornHeader
			total.inPadding += st.inPadding
			total.inEvent += st.inEvent
			total.inService += st.inService
			total.atBoundary += st.atBoundary
			ev.Case(nt, c, cls...)
		})
	})
	ev.Class("fault-points:cuts", int64(total.cuts))
	ev.Class("fault-points:cuts-in-event", int64(total.inEvent))
	ev.Class("fault-points:cuts-in-padding", int64(total.inPadding))
	ev.Class("fault-points:cuts-in-service-record", int64(total.inService))
	ev.Class("fault-points:cuts-at-record-boundary", int64(total.atBoundary))
	ev.Class("fault-points:cuts-torn-file-header", int64(total.tornHeader))
	ev.Extra("truncation_points_replayed_shard"+os.Getenv("VERIF_SHARD"), total.cuts)
}

func init() {
	vpReplayers["C18/trunc"] = func(t vpT, raw json.RawMessage) {
		var c c18LogCase
		if err := json.Unmarshal(raw, &c); err != nil {
			t.Fatalf("%v", err)
		}
		dir := c18TempDir(t)
		defer os.RemoveAll(dir)
		var st c18TruncStats
		c18PropTrunc(t, c, dir, &st)
	}
	vpReplayers["C18/flip"] = func(t vpT, raw json.RawMessage) {
		var c c18LogCase
		if err := json.Unmarshal(raw, &c); err != nil {
			t.Fatalf("%v", err)
		}
		dir := c18TempDir(t)
		defer os.RemoveAll(dir)
		var st c18FlipStats
		c18PropFlip(t, c, dir, &st)
	}
}
