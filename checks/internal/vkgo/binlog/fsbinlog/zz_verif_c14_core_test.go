//go:build verif

// C14 core: generic round-trip oracle over generated TL objects.
// COPY of /verif/checks/internal/data_model/zz_verif_c14_core_test.go (edit the master, then
// regenerate with: sed '0,/^package /s/^package .*/package fsbinlog/' master > this file).

package fsbinlog

import (
	"bytes"
	"encoding/binary"
	"encoding/json"
	"fmt"
	"math"
	"math/bits"
	"reflect"
	"sort"
	"strings"
	"testing"
	"unicode/utf8"
	"unsafe"

	"pgregory.net/rapid"

	"github.com/VKCOM/statshouse/internal/vkgo/basictl"
)

// ---------- what a generated object looks like (all four generated trees share this method set) ----------

type c14Obj interface {
	TLName() string
	TLTag() uint32
	String() string
	ReadTL1(w []byte) ([]byte, error)
	ReadTL1Boxed(w []byte) ([]byte, error)
	WriteTL1General(w []byte) ([]byte, error)
	WriteTL1BoxedGeneral(w []byte) ([]byte, error)
	MarshalJSON() ([]byte, error)
	UnmarshalJSON([]byte) error
	ReadJSONGeneral(jctx *basictl.JSONReadContext, in *basictl.JsonLexer) error
	WriteJSONGeneral(jctx *basictl.JSONWriteContext, w []byte) ([]byte, error)
}

type c14Filler interface {
	FillRandom(rg *basictl.RandGenerator)
}

type c14TL2 interface {
	ReadTL2(r []byte, tctx *basictl.TL2ReadContext) ([]byte, error)
	WriteTL2(w []byte, tctx *basictl.TL2WriteContext) []byte
}

type c14Fn interface {
	FillRandomResultTL1(rg *basictl.RandGenerator, w []byte) ([]byte, error)
	ReadResultTL1WriteResultJSON(jctx *basictl.JSONWriteContext, r []byte, w []byte) ([]byte, []byte, error)
	ReadResultJSONWriteResultTL1(jctx *basictl.JSONReadContext, r []byte, w []byte) ([]byte, []byte, error)
}

type c14FnTL2 interface {
	ReadResultTL1WriteResultTL2(tctx *basictl.TL2WriteContext, r []byte, w []byte) ([]byte, []byte, error)
	ReadResultTL2WriteResultTL1(tctx *basictl.TL2ReadContext, r []byte, w []byte) ([]byte, []byte, error)
	ReadResultTL2WriteResultJSON(tctx *basictl.TL2ReadContext, jctx *basictl.JSONWriteContext, r []byte, w []byte) ([]byte, []byte, error)
}

type c14Item struct {
	Fam      string
	Name     string
	Tag      uint32
	HasTL2   bool
	Enum     bool // enum element: the factory hands out one shared object; never written to by reflection
	New      func() c14Obj
	NewBytes func() c14Obj // nil when the type has no separate []byte variant
}

// ---------- the random source: rapid draws while generating (recorded), the tape while checking ----------

type c14Src interface {
	u32() uint32
	i32() int32
	i64() int64
	f64() float64
	mask(v uint32, known uint32) uint32 // a fields mask: v is what the stock generator drew, known the bits the schema has
}

// bijective mixer (murmur3 finaliser): rapid's integers are heavily biased to small values, the
// generated FillRandom code looks at the low 20 bits to pick a size category. mix(0)==0, so rapid's
// shrinking towards 0 still means "empty/default everything".
func c14Mix32(v uint32) uint32 {
	v ^= v >> 16
	v *= 0x85ebca6b
	v ^= v >> 13
	v *= 0xc2b2ae35
	v ^= v >> 16
	return v
}

var c14SpecialFloats = []float64{
	0, math.Copysign(0, -1), 1, -1, 0.5, math.NaN(), math.Inf(1), math.Inf(-1),
	math.MaxFloat64, -math.MaxFloat64, math.SmallestNonzeroFloat64, math.MaxFloat32, -math.MaxFloat32,
	math.SmallestNonzeroFloat32, 1e-320, 1 << 53, 1<<53 + 2, 0.1, 1e21, 1e-7, 16777217,
}

type c14Rec struct {
	t         *rapid.T // nil for the deterministic sparse enumeration
	tape      []uint64
	noNegZero bool // while filling a function result (its floats cannot be inspected afterwards)

	// sparse mode: every draw is zero (default union constructor, empty vectors and strings, zero
	// numbers) except a few fields-mask bits and, optionally, a few draws.
	sparse bool
	lazy   bool          // sparse plan drawn from rapid while filling (else: bits below)
	bits   map[int][]int // mask call ordinal -> ordinals of the known bits to set
	nMask  int
	nDraw  int
	knowns []uint32 // known-bit masks in call order (what the enumeration iterates over)
}

// c14Zero: in sparse mode a draw is 0 unless rapid says otherwise (lazy mode only, rarely).
func (r *c14Rec) zero() bool {
	r.nDraw++
	if !r.sparse {
		return false
	}
	if r.lazy && r.t != nil && rapid.IntRange(0, 15).Draw(r.t, "nz") == 7 {
		return false
	}
	return true
}

func c14NthBit(known uint32, ord int) uint32 {
	n := bits.OnesCount32(known)
	if n == 0 {
		return 0
	}
	ord %= n
	for i := 0; i < 32; i++ {
		if known&(1<<i) != 0 {
			if ord == 0 {
				return 1 << i
			}
			ord--
		}
	}
	return 0
}

func (r *c14Rec) mask(v uint32, known uint32) uint32 {
	call := r.nMask
	r.nMask++
	r.knowns = append(r.knowns, known)
	var m uint32
	switch {
	case r.sparse && !r.lazy:
		for _, o := range r.bits[call] {
			m |= c14NthBit(known, o)
		}
	case r.sparse:
		k := 0
		if call == 0 {
			k = rapid.IntRange(1, 3).Draw(r.t, "sparsebits")
		} else if rapid.IntRange(0, 9).Draw(r.t, "sparsemore") == 5 {
			k = 1
		}
		for i := 0; i < k && known != 0; i++ {
			m |= c14NthBit(known, rapid.IntRange(0, 31).Draw(r.t, "bitord"))
		}
	default:
		// The stock generator sets the first few known bits far more often than the later ones.
		switch rapid.IntRange(0, 3).Draw(r.t, "maskmode") {
		case 0:
			m = v
		case 1:
			m = known
		default:
			m = c14Mix32(rapid.Uint32().Draw(r.t, "maskbits")) & known
		}
	}
	r.tape = append(r.tape, uint64(m))
	return m
}

func (r *c14Rec) u32() uint32 {
	if r.zero() {
		r.tape = append(r.tape, 0)
		return 0
	}
	v := c14Mix32(rapid.Uint32().Draw(r.t, "u32"))
	r.tape = append(r.tape, uint64(v))
	return v
}
func (r *c14Rec) i32() int32 {
	if r.zero() {
		r.tape = append(r.tape, 0)
		return 0
	}
	v := rapid.Int32().Draw(r.t, "i32")
	r.tape = append(r.tape, uint64(uint32(v)))
	return v
}
func (r *c14Rec) i64() int64 {
	if r.zero() {
		r.tape = append(r.tape, 0)
		return 0
	}
	v := rapid.Int64().Draw(r.t, "i64")
	r.tape = append(r.tape, uint64(v))
	return v
}
func (r *c14Rec) f64() float64 {
	if r.zero() {
		r.tape = append(r.tape, 0)
		return 0
	}
	var v float64
	switch rapid.IntRange(0, 3).Draw(r.t, "fkind") {
	case 0:
		v = float64(rapid.IntRange(-1000, 1000).Draw(r.t, "fint"))
	case 1:
		v = rapid.SampledFrom(c14SpecialFloats).Draw(r.t, "fspecial")
	default:
		v = rapid.Float64().Draw(r.t, "f64")
	}
	if r.noNegZero && v == 0 {
		v = 0 // JSON and TL2 omit zero fields, the sign of zero does not survive them (not asserted)
	}
	r.tape = append(r.tape, math.Float64bits(v))
	return v
}

type c14Play struct {
	tape []uint64
	pos  int
	over int
}

func (p *c14Play) next() uint64 {
	if p.pos >= len(p.tape) {
		p.over++
		return 0
	}
	v := p.tape[p.pos]
	p.pos++
	return v
}
func (p *c14Play) u32() uint32  { return uint32(p.next()) }
func (p *c14Play) i32() int32   { return int32(uint32(p.next())) }
func (p *c14Play) i64() int64   { return int64(p.next()) }
func (p *c14Play) f64() float64 { return math.Float64frombits(p.next()) }
func (p *c14Play) mask(v uint32, known uint32) uint32 {
	return uint32(p.next()) & known // only bits the schema knows (what the generated setters can produce)
}

// c14Rand is the basictl.Rand handed to the generated FillRandom code.
type c14Rand struct{ s c14Src }

func (r c14Rand) Uint32() uint32       { return r.s.u32() }
func (r c14Rand) Int31() int32         { return r.s.i32() }
func (r c14Rand) Int63() int64         { return r.s.i64() }
func (r c14Rand) NormFloat64() float64 { return r.s.f64() }

func c14NewRG(s c14Src) *basictl.RandGenerator {
	return basictl.NewRandGeneratorWithContext(c14Rand{s}, basictl.RandgeneratorContext{
		SizeHandler: func(v uint32) uint32 {
			if v > 24 && s.u32()%16 != 0 { // keep objects small most of the time
				v %= 25
			}
			return v
		},
		// Only bits the schema knows are ever set (what the setters of real callers can produce).
		FieldMaskHandler: s.mask,
	})
}

// c14Fill fills x: through the generated FillRandom when the tree has it, else by reflection
// (fsbinlog and sqlite checkpoint trees were generated without FillRandom).
func c14Fill(x c14Obj, s c14Src) (canonical bool) {
	if f, ok := x.(c14Filler); ok {
		f.FillRandom(c14NewRG(s))
		return true
	}
	c14ReflFill(reflect.ValueOf(x).Elem(), s, 0)
	return false
}

const c14Letters = "ABCDEFGHIJKLMNOPQRSTUVWXYZabcdefghijklmnopqrstuvwxyz0123456789+/"

func c14ReflFill(v reflect.Value, s c14Src, depth int) {
	switch v.Kind() {
	case reflect.Bool:
		v.SetBool(s.u32()%2 == 1)
	case reflect.Int32, reflect.Int, reflect.Int64:
		if v.Kind() == reflect.Int32 {
			v.SetInt(int64(s.i32()))
		} else {
			v.SetInt(s.i64())
		}
	case reflect.Uint32, reflect.Uint64, reflect.Uint8:
		u := uint64(s.u32())
		if s.u32()%2 == 0 {
			u &= 7 // fields masks: low bits matter
		}
		if v.Kind() == reflect.Uint8 {
			u &= 0xff
		}
		v.SetUint(u)
	case reflect.Float32, reflect.Float64:
		f := s.f64()
		if v.Kind() == reflect.Float32 {
			f = float64(float32(f))
		}
		v.SetFloat(f)
	case reflect.String:
		b := make([]byte, s.u32()%32)
		for i := range b {
			b[i] = c14Letters[s.u32()%64]
		}
		v.SetString(string(b))
	case reflect.Slice:
		if v.Type().Elem().Kind() == reflect.Uint8 {
			b := make([]byte, s.u32()%32)
			for i := range b {
				b[i] = c14Letters[s.u32()%64]
			}
			v.SetBytes(b)
			return
		}
		n := 0
		if depth < 3 {
			n = int(s.u32() % 4)
		}
		sl := reflect.MakeSlice(v.Type(), n, n)
		for i := 0; i < n; i++ {
			c14ReflFill(sl.Index(i), s, depth+1)
		}
		v.Set(sl)
	case reflect.Array:
		for i := 0; i < v.Len(); i++ {
			c14ReflFill(v.Index(i), s, depth+1)
		}
	case reflect.Struct:
		for i := 0; i < v.NumField(); i++ {
			f := c14Settable(v.Field(i))
			if f.Kind() == reflect.Uint32 && strings.Contains(v.Type().Field(i).Name, "Mask") {
				f.SetUint(uint64(s.mask(s.u32()&7, 7))) // the schemas of these trees use the low bits only
				continue
			}
			c14ReflFill(f, s, depth+1)
		}
	}
}

func c14Settable(f reflect.Value) reflect.Value {
	if f.CanSet() || !f.CanAddr() {
		return f
	}
	return reflect.NewAt(f.Type(), unsafe.Pointer(f.UnsafeAddr())).Elem()
}

// c14Strings visits every non-empty string / []byte leaf of x in a deterministic order (incl. the values of
// string->string dictionaries; map keys are left alone).
// FillRandom zeroes fields whose fields-mask bit is off, so a non-empty leaf is one that is on the wire.
func c14Strings(v reflect.Value, fn func(leaf reflect.Value)) {
	switch v.Kind() {
	case reflect.Ptr:
		if !v.IsNil() {
			c14Strings(v.Elem(), fn)
		}
	case reflect.String:
		if v.Len() > 0 {
			fn(v)
		}
	case reflect.Slice:
		if v.Type().Elem().Kind() == reflect.Uint8 {
			if v.Len() > 0 {
				fn(v)
			}
			return
		}
		for i := 0; i < v.Len(); i++ {
			c14Strings(v.Index(i), fn)
		}
	case reflect.Array:
		for i := 0; i < v.Len(); i++ {
			c14Strings(v.Index(i), fn)
		}
	case reflect.Struct:
		for i := 0; i < v.NumField(); i++ {
			c14Strings(c14Settable(v.Field(i)), fn)
		}
	case reflect.Map:
		// dictionaries (string -> string): the values are leaves too (keys keep FillRandom's ASCII)
		if v.Type().Key().Kind() != reflect.String || v.Type().Elem().Kind() != reflect.String || v.Len() == 0 {
			return
		}
		keys := v.MapKeys()
		sort.Slice(keys, func(a, b int) bool { return keys[a].String() < keys[b].String() })
		for _, k := range keys {
			if v.MapIndex(k).Len() == 0 {
				continue
			}
			leaf := reflect.New(v.Type().Elem()).Elem()
			leaf.SetString(v.MapIndex(k).String())
			fn(leaf)
			v.SetMapIndex(k, leaf)
		}
	}
}

func c14HasNonEmptyMap(v reflect.Value) bool {
	switch v.Kind() {
	case reflect.Ptr:
		return !v.IsNil() && c14HasNonEmptyMap(v.Elem())
	case reflect.Map:
		return v.Len() > 0
	case reflect.Slice, reflect.Array:
		if v.Type().Elem().Kind() == reflect.Uint8 {
			return false
		}
		for i := 0; i < v.Len(); i++ {
			if c14HasNonEmptyMap(v.Index(i)) {
				return true
			}
		}
	case reflect.Struct:
		for i := 0; i < v.NumField(); i++ {
			if c14HasNonEmptyMap(v.Field(i)) {
				return true
			}
		}
	}
	return false
}

func c14CountStrings(x c14Obj) int {
	n := 0
	c14Strings(reflect.ValueOf(x), func(reflect.Value) { n++ })
	return n
}

type c14Repl struct {
	I int    `json:"i"`
	V []byte `json:"v"`
}

func c14ApplyRepl(x c14Obj, repl []c14Repl) {
	if len(repl) == 0 {
		return
	}
	n := 0
	c14Strings(reflect.ValueOf(x), func(leaf reflect.Value) {
		for _, r := range repl {
			if r.I == n && len(r.V) > 0 {
				if leaf.Kind() == reflect.String {
					leaf.SetString(string(r.V))
				} else {
					leaf.SetBytes(append([]byte(nil), r.V...))
				}
			}
		}
		n++
	})
}

// c14DeepEq: structural equality, floats by bit pattern, nil slice/map == empty.
func c14DeepEq(a, b reflect.Value, path string) string {
	if a.Kind() != b.Kind() {
		return path + ": kind"
	}
	switch a.Kind() {
	case reflect.Ptr, reflect.Interface:
		if a.IsNil() || b.IsNil() {
			if a.IsNil() != b.IsNil() {
				return path + ": nil-ness"
			}
			return ""
		}
		return c14DeepEq(a.Elem(), b.Elem(), path)
	case reflect.Bool:
		if a.Bool() != b.Bool() {
			return path
		}
	case reflect.Int, reflect.Int8, reflect.Int16, reflect.Int32, reflect.Int64:
		if a.Int() != b.Int() {
			return fmt.Sprintf("%s: %d != %d", path, a.Int(), b.Int())
		}
	case reflect.Uint, reflect.Uint8, reflect.Uint16, reflect.Uint32, reflect.Uint64:
		if a.Uint() != b.Uint() {
			return fmt.Sprintf("%s: %d != %d", path, a.Uint(), b.Uint())
		}
	case reflect.Float32:
		if math.Float32bits(float32(a.Float())) != math.Float32bits(float32(b.Float())) {
			return fmt.Sprintf("%s: %v != %v", path, a.Float(), b.Float())
		}
	case reflect.Float64:
		if math.Float64bits(a.Float()) != math.Float64bits(b.Float()) {
			return fmt.Sprintf("%s: %v != %v", path, a.Float(), b.Float())
		}
	case reflect.String:
		if a.String() != b.String() {
			return fmt.Sprintf("%s: %q != %q", path, c14Short(a.String()), c14Short(b.String()))
		}
	case reflect.Slice, reflect.Array:
		if a.Len() != b.Len() {
			return fmt.Sprintf("%s: len %d != %d", path, a.Len(), b.Len())
		}
		for i := 0; i < a.Len(); i++ {
			if d := c14DeepEq(a.Index(i), b.Index(i), fmt.Sprintf("%s[%d]", path, i)); d != "" {
				return d
			}
		}
	case reflect.Map:
		if a.Len() != b.Len() {
			return fmt.Sprintf("%s: map len %d != %d", path, a.Len(), b.Len())
		}
		it := a.MapRange()
		for it.Next() {
			bv := b.MapIndex(it.Key())
			if !bv.IsValid() {
				return fmt.Sprintf("%s: key %v missing", path, it.Key())
			}
			if d := c14DeepEq(it.Value(), bv, fmt.Sprintf("%s[%v]", path, it.Key())); d != "" {
				return d
			}
		}
	case reflect.Struct:
		for i := 0; i < a.NumField(); i++ {
			if d := c14DeepEq(a.Field(i), b.Field(i), path+"."+a.Type().Field(i).Name); d != "" {
				return d
			}
		}
	}
	return ""
}

func c14Short(s string) string {
	if len(s) > 60 {
		return s[:60] + fmt.Sprintf("...(%d)", len(s))
	}
	return s
}

func c14Hex(b []byte) string {
	if len(b) > 96 {
		return fmt.Sprintf("%x...(%d bytes)", b[:96], len(b))
	}
	return fmt.Sprintf("%x", b)
}

func c14FirstDiff(a, b []byte) int {
	n := len(a)
	if len(b) < n {
		n = len(b)
	}
	for i := 0; i < n; i++ {
		if a[i] != b[i] {
			return i
		}
	}
	return n
}

// ---------- the case ----------

type c14Case struct {
	Fam     string    `json:"fam"`
	Item    string    `json:"item"`
	Tape    []uint64  `json:"tape"`
	Repl    []c14Repl `json:"repl,omitempty"`
	TagXor  uint32    `json:"tagxor"`
	Cuts    []uint32  `json:"cuts,omitempty"`    // extra (unaligned) truncation points, taken modulo the length
	Garbage []byte    `json:"garbage,omitempty"` // bytes that follow the object in the read buffer
	Sparse  string    `json:"sparse,omitempty"`  // how a sparse value was built ("zero", "c0:b2", "c0:b1+b3", "rapid")
}

var c14StrPieces = []string{
	"a", "Z", "0", " ", "\"", "\\", "/", "\n", "\r", "\t", "\x00", "\x01", "\x1f", "\x7f", "<", ">", "&", "'",
	"\u00e9", "\u0436", "\u20ac", "\u2028", "\u2029", "\u00a0", "\ufffd", "\ufeff", "\U0001f600", "\U0010ffff",
	"{\"base64\":\"", "NaN", "\\u0000",
}
var c14BadPieces = []string{"\xff", "\xc0", "\xc3", "\xe2\x82", "\xf0\x9f\x98", "\xed\xa0\x80", "\xc0\xaf", "\x80", "\xfe"}

func c14GenString(t *rapid.T) []byte {
	kind := rapid.IntRange(0, 5).Draw(t, "skind")
	var n int
	// rapid favours the ends of a range: the expensive class (>= 64 KiB) sits in the middle
	switch sl := rapid.IntRange(0, 23).Draw(t, "slen"); {
	case sl == 13:
		n = rapid.SampledFrom([]int{65535, 65536, 65789, 65790, 70001, 1 << 17}).Draw(t, "n")
	case sl <= 7:
		n = rapid.IntRange(1, 12).Draw(t, "n")
	case sl <= 15:
		n = rapid.IntRange(250, 260).Draw(t, "n") // tiny/medium TL1 string boundary (253/254)
	default:
		n = rapid.IntRange(1, 600).Draw(t, "n")
	}
	var b []byte
	switch kind {
	case 0: // plain ascii
		for len(b) < n {
			b = append(b, byte(rapid.IntRange('a', 'z').Draw(t, "ch")))
			if len(b) > 40 { // long strings: repeat, do not spend draws
				for len(b) < n {
					b = append(b, b[len(b)-37])
				}
			}
		}
	case 1, 2: // valid UTF-8 with JSON-relevant pieces
		for len(b) < n {
			b = append(b, rapid.SampledFrom(c14StrPieces).Draw(t, "piece")...)
			if len(b) > 60 {
				k := len(b)
				for len(b) < n {
					b = append(b, b[:k]...)
				}
			}
		}
	case 3: // arbitrary bytes
		for len(b) < n {
			b = append(b, rapid.Byte().Draw(t, "byte"))
			if len(b) > 40 {
				for len(b) < n {
					b = append(b, b[len(b)-31]^byte(len(b)))
				}
			}
		}
	default: // mostly valid with an invalid fragment
		for len(b) < n {
			if rapid.IntRange(0, 4).Draw(t, "bad") == 0 {
				b = append(b, rapid.SampledFrom(c14BadPieces).Draw(t, "badpiece")...)
			} else {
				b = append(b, rapid.SampledFrom(c14StrPieces).Draw(t, "piece")...)
			}
			if len(b) > 60 {
				k := len(b)
				for len(b) < n {
					b = append(b, b[:k]...)
				}
			}
		}
	}
	return b
}

func c14Gen(it *c14Item) *rapid.Generator[c14Case] {
	return rapid.Custom(func(t *rapid.T) c14Case {
		rec := &c14Rec{t: t}
		// rapid favours the ends of a range: 0 and 2 are dense fills, 1 is sparse -> draw from a list
		if rapid.SampledFrom([]bool{false, true, false}).Draw(t, "sparse") {
			rec.sparse, rec.lazy = true, true
		}
		x := it.New()
		c14Fill(x, rec)
		if _, ok := x.(c14Fn); ok {
			// the function result is filled from the same tape after the arguments
			rec.noNegZero = true
			rg := c14NewRG(rec)
			_, _ = x.(c14Fn).FillRandomResultTL1(rg, nil)
		}
		c := c14Case{Fam: it.Fam, Item: it.Name, Tape: rec.tape}
		if rec.sparse {
			c.Sparse = "rapid"
		}
		if n := c14CountStrings(x); !it.Enum && n > 0 && rapid.IntRange(0, 2).Draw(t, "widen") == 0 {
			k := rapid.IntRange(1, 2).Draw(t, "nrepl")
			for i := 0; i < k; i++ {
				c.Repl = append(c.Repl, c14Repl{I: rapid.IntRange(0, n-1).Draw(t, "ri"), V: c14GenString(t)})
			}
		}
		c.TagXor = rapid.Uint32Min(1).Draw(t, "tagxor")
		c.Cuts = rapid.SliceOfN(rapid.Uint32(), 0, 3).Draw(t, "cuts")
		if rapid.IntRange(0, 3).Draw(t, "hasgarbage") == 0 {
			c.Garbage = rapid.SliceOfN(rapid.Byte(), 1, 9).Draw(t, "garbage")
		}
		return c
	})
}

// c14SparseFill runs the fill of one item with all draws zero and the given mask bits set.
func c14SparseFill(it *c14Item, bitsByCall map[int][]int) *c14Rec {
	rec := &c14Rec{sparse: true, bits: bitsByCall}
	x := it.New()
	c14Fill(x, rec)
	if fn, ok := x.(c14Fn); ok {
		rec.noNegZero = true
		_, _ = fn.FillRandomResultTL1(c14NewRG(rec), nil)
	}
	return rec
}

const c14SparseCap = 96 // enumerated sparse cases per item

// c14SparseCases enumerates, without any randomness: the all-default value; for every fields mask the
// fill asks for (arguments first, then the function result) every single known bit alone; for small top
// masks every pair of bits; and one level deeper: for every single bit, every single bit of the masks
// that only appear once that bit is set. Everything else stays default/empty, so a zero-width
// (true-type) field is the last present thing in the object.
func c14SparseCases(it *c14Item) (cases []c14Case, bitsEnumerated int) {
	add := func(desc string, rec *c14Rec) {
		if len(cases) < c14SparseCap {
			cases = append(cases, c14Case{Fam: it.Fam, Item: it.Name, Tape: rec.tape, TagXor: 1, Sparse: desc})
		}
	}
	dry := c14SparseFill(it, nil)
	add("zero", dry)
	if it.Enum {
		return cases, 0
	}
	for c, known := range dry.knowns {
		n := bits.OnesCount32(known)
		for o := 0; o < n; o++ {
			rec := c14SparseFill(it, map[int][]int{c: {o}})
			add(fmt.Sprintf("c%d:b%d", c, bits.TrailingZeros32(c14NthBit(known, o))), rec)
			bitsEnumerated++
			// masks that exist only because this bit is set (nested optional structs)
			if extra := len(rec.knowns) - len(dry.knowns); extra > 0 && len(cases) < c14SparseCap {
				// the new masks follow call c (possibly after masks of fields in between: harmless)
				for c2 := c + 1; c2 <= c+extra+2 && c2 < len(rec.knowns); c2++ {
					known2 := rec.knowns[c2]
					for o2 := 0; o2 < bits.OnesCount32(known2) && o2 < 8; o2++ {
						rec2 := c14SparseFill(it, map[int][]int{c: {o}, c2: {o2}})
						add(fmt.Sprintf("c%d:b%d/c%d:b%d", c, bits.TrailingZeros32(c14NthBit(known, o)), c2, bits.TrailingZeros32(c14NthBit(known2, o2))), rec2)
					}
				}
			}
		}
	}
	if len(dry.knowns) > 0 {
		known := dry.knowns[0]
		if n := bits.OnesCount32(known); n >= 2 && n <= 9 {
			for o1 := 0; o1 < n; o1++ {
				for o2 := o1 + 1; o2 < n; o2++ {
					rec := c14SparseFill(it, map[int][]int{0: {o1, o2}})
					add(fmt.Sprintf("c0:b%d+b%d", bits.TrailingZeros32(c14NthBit(known, o1)), bits.TrailingZeros32(c14NthBit(known, o2))), rec)
				}
			}
		}
	}
	return cases, bitsEnumerated
}

// ---------- the property ----------

func c14Write(t vpT, x c14Obj, what string) []byte {
	b, err := x.WriteTL1General(nil)
	if err != nil {
		t.Fatalf("%s: WriteTL1 failed: %v", what, err)
	}
	return b
}

func c14CutPoints(n int, extra []uint32) []int {
	if n == 0 {
		return nil
	}
	set := map[int]bool{}
	if n <= 400 {
		for k := 0; k < n; k += 4 {
			set[k] = true
		}
	} else {
		for i := 0; i < 48; i++ {
			set[(n*i/48)&^3] = true
		}
	}
	for _, k := range []int{1, 2, 3, n - 1, n - 2, n - 3, n - 4, n - 8} {
		if k >= 0 && k < n {
			set[k] = true
		}
	}
	for _, e := range extra {
		set[int(e%uint32(n))] = true
	}
	out := make([]int, 0, len(set))
	for k := range set {
		out = append(out, k)
	}
	sort.Ints(out)
	return out
}

// c14HasFloat: some float in the value satisfies pred.
func c14HasNonFinite(v reflect.Value) bool {
	return c14HasFloat(v, func(f float64) bool { return math.IsNaN(f) || math.IsInf(f, 0) })
}

func c14HasNegZero(v reflect.Value) bool {
	return c14HasFloat(v, func(f float64) bool { return f == 0 && math.Signbit(f) })
}

func c14HasFloat(v reflect.Value, pred func(float64) bool) bool {
	switch v.Kind() {
	case reflect.Ptr:
		return !v.IsNil() && c14HasFloat(v.Elem(), pred)
	case reflect.Float32, reflect.Float64:
		return pred(v.Float())
	case reflect.Slice, reflect.Array:
		if v.Type().Elem().Kind() == reflect.Uint8 {
			return false
		}
		for i := 0; i < v.Len(); i++ {
			if c14HasFloat(v.Index(i), pred) {
				return true
			}
		}
	case reflect.Map:
		it := v.MapRange()
		for it.Next() {
			if c14HasFloat(it.Value(), pred) {
				return true
			}
		}
	case reflect.Struct:
		for i := 0; i < v.NumField(); i++ {
			if c14HasFloat(v.Field(i), pred) {
				return true
			}
		}
	}
	return false
}

func c14PropObj(t vpT, it *c14Item, c c14Case) (nontrivial bool, classes []string) {
	cls := map[string]bool{}
	defer func() {
		for k := range cls {
			classes = append(classes, k)
		}
		sort.Strings(classes)
	}()
	name := it.Name
	play := &c14Play{tape: c.Tape}
	x := it.New()
	canonical := c14Fill(x, play)
	fn, isFn := x.(c14Fn)
	var res1 []byte
	if isFn {
		cls["function"] = true
		var err error
		if res1, err = fn.FillRandomResultTL1(c14NewRG(play), nil); err != nil {
			t.Fatalf("%s: FillRandomResultTL1: %v", name, err)
		}
	}
	if play.over > 0 {
		cls["tape-exhausted"] = true // only possible for a hand-edited replay file
	}
	if it.Enum {
		cls["enum-element"] = true
		c.Repl = nil
	}
	nStr := c14CountStrings(x)
	if it.Enum {
		nStr = 0
	}
	c14ApplyRepl(x, c.Repl)
	if len(c.Repl) > 0 {
		cls["widened-string"] = true
		for _, r := range c.Repl {
			if len(r.V) >= 254 {
				cls["string>=254"] = true
			}
			if len(r.V) >= 65536 {
				cls["string>=64k"] = true
			}
			if !utf8.Valid(r.V) {
				cls["string-invalid-utf8"] = true
			}
		}
	}
	union := it.Tag == 0 // union type: tag and name are those of the constructor the value holds
	if union {
		cls["union-type"] = true
	} else {
		if x.TLTag() != it.Tag {
			t.Fatalf("%s: TLTag %08x, item says %08x", name, x.TLTag(), it.Tag)
		}
		if x.TLName() != it.Name && !strings.Contains(it.Name, "#") {
			t.Fatalf("%s: TLName %q", name, x.TLName())
		}
	}
	tag := x.TLTag()

	if !canonical {
		// x was filled blindly by reflection (fields behind a cleared mask bit may be set, which the
		// wire cannot carry): the value under test is what one write+read makes of it.
		cls["reflect-filled"] = true
		b0 := c14Write(t, x, name)
		x0 := it.New()
		if rest, err := x0.ReadTL1(b0); err != nil || len(rest) != 0 {
			t.Fatalf("%s: ReadTL1(WriteTL1(x)) failed: %v (rest %d)\nbytes=%s", name, err, len(rest), c14Hex(b0))
		}
		if b00 := c14Write(t, x0, name); !bytes.Equal(b0, b00) {
			t.Fatalf("%s: TL1 bare round trip changed the value (first diff at byte %d)\nb0 =%s\nb00=%s", name, c14FirstDiff(b0, b00), c14Hex(b0), c14Hex(b00))
		}
		x = x0
	}

	// --- TL1 bare
	b1 := c14Write(t, x, name)
	for _, by := range b1 {
		if by != 0 {
			nontrivial = true
			break
		}
	}
	if len(b1)%4 != 0 {
		t.Fatalf("%s: TL1 encoding is %d bytes, not a multiple of 4: %s", name, len(b1), c14Hex(b1))
	}
	if c.Sparse != "" {
		cls["sparse"] = true
		single := strings.HasPrefix(c.Sparse, "c") && !strings.ContainsAny(c.Sparse, "+/")
		if single {
			cls["sparse-single-bit"] = true
			// everything but one mask bit is default: if the encoding is as long as the all-default one, the
			// bit stands for a zero-width (true-type) field, which is then the last present thing in the object
			x0 := it.New()
			c14Fill(x0, &c14Play{})
			if b0 := c14Write(t, x0, name); len(b0) == len(b1) && !bytes.Equal(b0, b1) {
				cls["true-type-last-present"] = true
			}
		}
	}
	jx := x.String()
	y := it.New()
	buf := append(append([]byte(nil), b1...), c.Garbage...)
	rest, err := y.ReadTL1(buf)
	if err != nil {
		t.Fatalf("%s: ReadTL1(WriteTL1(x)) failed: %v\nx=%s\nbytes=%s", name, err, c14Short(jx), c14Hex(b1))
	}
	if !bytes.Equal(rest, c.Garbage) {
		t.Fatalf("%s: ReadTL1 left %d bytes, %d follow the object\nx=%s\nbytes=%s", name, len(rest), len(c.Garbage), c14Short(jx), c14Hex(b1))
	}
	if len(c.Garbage) > 0 {
		cls["trailing-bytes"] = true
	}
	b2 := c14Write(t, y, name)
	if !bytes.Equal(b1, b2) {
		t.Fatalf("%s: TL1 bare round trip changed the value (first diff at byte %d)\nx=%s\ny=%s\nb1=%s\nb2=%s", name, c14FirstDiff(b1, b2), c14Short(jx), c14Short(y.String()), c14Hex(b1), c14Hex(b2))
	}
	if jy := y.String(); jy != jx {
		t.Fatalf("%s: TL1 bare round trip: JSON view differs\nx=%s\ny=%s", name, c14Short(jx), c14Short(jy))
	}
	if !it.Enum {
		if d := c14DeepEq(reflect.ValueOf(x), reflect.ValueOf(y), name); d != "" {
			t.Fatalf("%s: TL1 bare round trip: objects differ at %s\nx=%s", name, d, c14Short(jx))
		}
	}
	// reading into a dirty object must give the same value (readers are used on reused objects)
	{
		z := it.New()
		c14Fill(z, &c14Play{tape: []uint64{3, 0xffffffff, 0x7fffffff, 5, 0x12345678, 9, 0xdeadbeef, 77, 0xffffffff, 0xffffffff, 3, 3, 3, 0xabcdef01, 1 << 20, 7, 7, 7, 0xffffff, 12, 13}})
		if _, err := z.ReadTL1(b1); err != nil {
			t.Fatalf("%s: ReadTL1 into a used object failed: %v", name, err)
		}
		if bz := c14Write(t, z, name); !bytes.Equal(bz, b1) {
			t.Fatalf("%s: ReadTL1 into a used object gives another value (first diff at byte %d)\nwant=%s\ngot=%s", name, c14FirstDiff(b1, bz), c14Hex(b1), c14Hex(bz))
		}
		// fields behind a cleared mask bit are not on the wire; the readers reset them, so a used object
		// must end up structurally equal to a fresh one (stale data must not survive a read)
		if !it.Enum {
			if d := c14DeepEq(reflect.ValueOf(y), reflect.ValueOf(z), name); d != "" {
				t.Fatalf("%s: ReadTL1 into a used object leaves stale data at %s\nbytes=%s", name, d, c14Hex(b1))
			}
		}
	}

	// --- TL1 boxed
	bb, err := x.WriteTL1BoxedGeneral(nil)
	if err != nil {
		t.Fatalf("%s: WriteTL1Boxed failed: %v", name, err)
	}
	want := append(binary.LittleEndian.AppendUint32(nil, tag), b1...)
	if union {
		want = b1 // a union value always carries its constructor tag: bare and boxed forms coincide
		if len(b1) < 4 || binary.LittleEndian.Uint32(b1) != tag {
			t.Fatalf("%s: union encoding does not start with the constructor tag %08x: %s", name, tag, c14Hex(b1))
		}
	}
	if !bytes.Equal(bb, want) {
		t.Fatalf("%s: boxed encoding is not tag+bare\nboxed=%s\nwant=%s", name, c14Hex(bb), c14Hex(want))
	}
	yb := it.New()
	rest, err = yb.ReadTL1Boxed(append(append([]byte(nil), bb...), c.Garbage...))
	if err != nil {
		t.Fatalf("%s: ReadTL1Boxed(WriteTL1Boxed(x)) failed: %v\nbytes=%s", name, err, c14Hex(bb))
	}
	if !bytes.Equal(rest, c.Garbage) {
		t.Fatalf("%s: ReadTL1Boxed left %d bytes, %d follow the object", name, len(rest), len(c.Garbage))
	}
	if b3 := c14Write(t, yb, name); !bytes.Equal(b3, b1) {
		t.Fatalf("%s: TL1 boxed round trip changed the value\nb1=%s\nb3=%s", name, c14Hex(b1), c14Hex(b3))
	}
	// wrong tag
	xor := c.TagXor
	if xor == 0 {
		xor = 1
	}
	bad := append([]byte(nil), bb...)
	binary.LittleEndian.PutUint32(bad, tag^xor)
	if wt := it.New(); true {
		if _, err := wt.ReadTL1Boxed(bad); err == nil && !(union && wt.TLTag() == tag^xor) {
			t.Fatalf("%s: boxed read accepted tag %08x instead of %08x", name, tag^xor, tag)
		}
	}

	// --- truncation: every strict prefix must be rejected, never panic, never be taken for a value
	for _, k := range c14CutPoints(len(b1), c.Cuts) {
		if _, err := it.New().ReadTL1(b1[:k:k]); err == nil {
			t.Fatalf("%s: ReadTL1 accepted the encoding truncated to %d of %d bytes\nbytes=%s", name, k, len(b1), c14Hex(b1))
		}
	}
	for _, k := range c14CutPoints(len(bb), c.Cuts) {
		if _, err := it.New().ReadTL1Boxed(bb[:k:k]); err == nil {
			t.Fatalf("%s: ReadTL1Boxed accepted the encoding truncated to %d of %d bytes\nbytes=%s", name, k, len(bb), c14Hex(bb))
		}
	}

	// --- string and []byte variants
	if it.NewBytes != nil {
		cls["bytes-variant"] = true
		xb := it.NewBytes()
		pb := &c14Play{tape: c.Tape}
		c14Fill(xb, pb)
		// A dictionary is a map in the string variant and a vector of pairs in the []byte variant: the
		// same draws may give duplicate keys there, which is another value. Compared only without maps.
		if canonical && c14CountStrings(xb) == nStr && !c14HasNonEmptyMap(reflect.ValueOf(x)) {
			c14ApplyRepl(xb, c.Repl)
			if bx := c14Write(t, xb, name); !bytes.Equal(bx, b1) {
				t.Fatalf("%s: []byte variant encodes the same value differently (first diff at byte %d)\nstring=%s\nbytes =%s", name, c14FirstDiff(b1, bx), c14Hex(b1), c14Hex(bx))
			}
			if jb := xb.String(); jb != jx {
				t.Fatalf("%s: []byte variant renders the same value differently in JSON\nstring=%s\nbytes =%s", name, c14Short(jx), c14Short(jb))
			}
		} else {
			cls["bytes-variant-fill-skipped"] = true // reflect-filled, or the variants differ in shape (map vs vector of pairs)
		}
		// cross: bytes written by one variant are read by the other
		xc := it.NewBytes()
		rest, err := xc.ReadTL1Boxed(append(append([]byte(nil), bb...), c.Garbage...))
		if err != nil {
			t.Fatalf("%s: []byte variant cannot read what the string variant wrote: %v\nbytes=%s", name, err, c14Hex(bb))
		}
		if !bytes.Equal(rest, c.Garbage) {
			t.Fatalf("%s: []byte variant ReadTL1Boxed left %d bytes, %d follow the object", name, len(rest), len(c.Garbage))
		}
		bc, err := xc.WriteTL1BoxedGeneral(nil)
		if err != nil || !bytes.Equal(bc, bb) {
			t.Fatalf("%s: []byte variant re-encodes differently (err=%v, first diff at byte %d)\nstring=%s\nbytes =%s", name, err, c14FirstDiff(bb, bc), c14Hex(bb), c14Hex(bc))
		}
		if jc := xc.String(); jc != jx {
			t.Fatalf("%s: []byte variant JSON differs after reading the same bytes\nstring=%s\nbytes =%s", name, c14Short(jx), c14Short(jc))
		}
		for _, k := range c14CutPoints(len(b1), c.Cuts) {
			if _, err := it.NewBytes().ReadTL1(b1[:k:k]); err == nil {
				t.Fatalf("%s: []byte variant ReadTL1 accepted the encoding truncated to %d of %d bytes", name, k, len(b1))
			}
		}
		if _, isTL2 := xc.(c14TL2); isTL2 && it.HasTL2 {
			t2s := x.(c14TL2).WriteTL2(nil, &basictl.TL2WriteContext{})
			t2b := xc.(c14TL2).WriteTL2(nil, &basictl.TL2WriteContext{})
			if !bytes.Equal(t2s, t2b) {
				t.Fatalf("%s: []byte variant TL2 encoding differs\nstring=%s\nbytes =%s", name, c14Hex(t2s), c14Hex(t2b))
			}
		}
	}

	// --- JSON
	hard := c14HasNonFinite(reflect.ValueOf(x))
	for _, r := range c.Repl {
		if !utf8.Valid(r.V) {
			hard = true
		}
	}
	if hard {
		cls["json-special-forms"] = true
	}
	// JSON and TL2 omit fields that compare equal to 0, so -0.0 comes back as +0.0: equal as a number,
	// not asserted bit for bit. The legs still run (no error, no panic).
	negz := c14HasNegZero(reflect.ValueOf(x))
	if negz {
		cls["neg-zero(json/tl2 value not asserted)"] = true
	}
	j, err := x.WriteJSONGeneral(&basictl.JSONWriteContext{}, nil)
	if err != nil {
		t.Fatalf("%s: WriteJSON failed: %v", name, err)
	}
	if !json.Valid(j) {
		t.Fatalf("%s: WriteJSON produced invalid JSON: %s", name, c14Short(string(j)))
	}
	if !utf8.Valid(j) {
		t.Fatalf("%s: WriteJSON produced invalid UTF-8: %q", name, c14Short(string(j)))
	}
	{
		z := it.New()
		lex := basictl.JsonLexer{Data: j}
		if err := z.ReadJSONGeneral(&basictl.JSONReadContext{}, &lex); err != nil {
			t.Fatalf("%s: ReadJSON(WriteJSON(x)) failed: %v\njson=%s", name, err, c14Short(string(j)))
		}
		lex.Consumed()
		if err := lex.Error(); err != nil {
			t.Fatalf("%s: ReadJSON did not consume its own output: %v\njson=%s", name, err, c14Short(string(j)))
		}
		if bj := c14Write(t, z, name); !negz && !bytes.Equal(bj, b1) {
			t.Fatalf("%s: JSON round trip changed the value (first diff at TL1 byte %d)\njson=%s\nback=%s\nb1=%s\nbj=%s", name, c14FirstDiff(b1, bj), c14Short(string(j)), c14Short(z.String()), c14Hex(b1), c14Hex(bj))
		}
		if !negz {
			if jz := z.String(); jz != jx {
				t.Fatalf("%s: the value decoded from JSON renders differently\nwant=%s\ngot =%s", name, c14Short(jx), c14Short(jz))
			}
			if !it.Enum {
				if d := c14DeepEq(reflect.ValueOf(y), reflect.ValueOf(z), name); d != "" {
					t.Fatalf("%s: the object decoded from JSON differs from the one decoded from TL1 at %s\njson=%s", name, d, c14Short(string(j)))
				}
			}
		}
		mj, err := x.MarshalJSON()
		if err != nil {
			t.Fatalf("%s: MarshalJSON failed: %v", name, err)
		}
		z2 := it.New()
		if err := z2.UnmarshalJSON(mj); err != nil {
			t.Fatalf("%s: UnmarshalJSON(MarshalJSON(x)) failed: %v\njson=%s", name, err, c14Short(string(mj)))
		}
		if bj := c14Write(t, z2, name); !negz && !bytes.Equal(bj, b1) {
			t.Fatalf("%s: Marshal/UnmarshalJSON round trip changed the value\njson=%s\nb1=%s\nbj=%s", name, c14Short(string(mj)), c14Hex(b1), c14Hex(bj))
		}
	}

	// --- JSON through the []byte variant: the same JSON text must decode to the same value in both
	// variants (they have separate readers: Json2ReadString / Json2ReadStringBytes), and the []byte
	// variant must read back what it wrote itself.
	escaped := bytes.IndexByte(j, '\\') >= 0 // the writer escaped something: quote, backslash, control char, U+2028/9
	if escaped {
		cls["json-escaped-char"] = true
	}
	if it.NewBytes != nil {
		if escaped {
			cls["json-escaped-char-bytes-variant"] = true
		}
		zb := it.NewBytes()
		lex := basictl.JsonLexer{Data: j}
		if err := zb.ReadJSONGeneral(&basictl.JSONReadContext{}, &lex); err != nil {
			t.Fatalf("%s: []byte variant cannot read the JSON the string variant wrote: %v\njson=%s", name, err, c14Short(string(j)))
		}
		lex.Consumed()
		if err := lex.Error(); err != nil {
			t.Fatalf("%s: []byte variant ReadJSON did not consume the text: %v\njson=%s", name, err, c14Short(string(j)))
		}
		if bj := c14Write(t, zb, name); !negz && !bytes.Equal(bj, b1) {
			t.Fatalf("%s: the same JSON text decodes to different values in the string and []byte variants (first diff at TL1 byte %d)\njson=%s\nstring=%s\nbytes =%s", name, c14FirstDiff(b1, bj), c14Short(string(j)), c14Hex(b1), c14Hex(bj))
		}
		// the []byte variant's own output, read by both variants
		xw := it.NewBytes()
		if _, err := xw.ReadTL1(b1); err != nil {
			t.Fatalf("%s: []byte variant ReadTL1 failed: %v", name, err)
		}
		jb, err := xw.WriteJSONGeneral(&basictl.JSONWriteContext{}, nil)
		if err != nil || !bytes.Equal(jb, j) {
			t.Fatalf("%s: []byte variant writes another JSON text (err=%v)\nstring=%s\nbytes =%s", name, err, c14Short(string(j)), c14Short(string(jb)))
		}
		mjb, err := xw.MarshalJSON()
		if err != nil {
			t.Fatalf("%s: []byte variant MarshalJSON failed: %v", name, err)
		}
		zb2 := it.NewBytes()
		// into a used object: the bytes readers reuse the destination slices
		c14Fill(zb2, &c14Play{tape: []uint64{3, 0xffffffff, 0x7fffffff, 5, 0x12345678, 9, 0xdeadbeef, 77, 0xffffffff, 0xffffffff, 3, 3, 3, 0xabcdef01, 1 << 20, 7, 7, 7, 0xffffff, 12, 13}})
		if err := zb2.UnmarshalJSON(mjb); err != nil {
			t.Fatalf("%s: []byte variant UnmarshalJSON(MarshalJSON(x)) failed: %v\njson=%s", name, err, c14Short(string(mjb)))
		}
		if bj := c14Write(t, zb2, name); !negz && !bytes.Equal(bj, b1) {
			t.Fatalf("%s: []byte variant Marshal/UnmarshalJSON round trip changed the value (first diff at TL1 byte %d)\njson=%s\nb1=%s\nbj=%s", name, c14FirstDiff(b1, bj), c14Short(string(mjb)), c14Hex(b1), c14Hex(bj))
		}
		if !negz {
			if jz := zb2.String(); jz != jx {
				t.Fatalf("%s: []byte variant: the value decoded from JSON renders differently\nwant=%s\ngot =%s", name, c14Short(jx), c14Short(jz))
			}
		}
	}

	// --- TL2
	if x2, ok := x.(c14TL2); ok && it.HasTL2 {
		cls["tl2"] = true
		t2 := x2.WriteTL2(nil, &basictl.TL2WriteContext{})
		z := it.New()
		rest, err := z.(c14TL2).ReadTL2(append(append([]byte(nil), t2...), c.Garbage...), &basictl.TL2ReadContext{})
		if err != nil {
			t.Fatalf("%s: ReadTL2(WriteTL2(x)) failed: %v\nx=%s\ntl2=%s", name, err, c14Short(jx), c14Hex(t2))
		}
		if !bytes.Equal(rest, c.Garbage) {
			t.Fatalf("%s: ReadTL2 left %d bytes, %d follow the object\ntl2=%s", name, len(rest), len(c.Garbage), c14Hex(t2))
		}
		if bz := c14Write(t, z, name); !negz && !bytes.Equal(bz, b1) {
			t.Fatalf("%s: TL2 round trip changed the value (first diff at TL1 byte %d)\nx=%s\nz=%s\ntl2=%s", name, c14FirstDiff(b1, bz), c14Short(jx), c14Short(z.String()), c14Hex(t2))
		}
		// the TL2-decoded object must be the same value as the TL1-decoded one: a field lost by the TL2
		// leg only (presence bytes, true-type fields that occupy no TL1 bytes) shows here
		if !negz {
			if jz := z.String(); jz != jx {
				t.Fatalf("%s: the value decoded from TL2 differs from the one decoded from TL1 (JSON view)\ntl1=%s\ntl2=%s\nbytes=%s", name, c14Short(jx), c14Short(jz), c14Hex(t2))
			}
			if !it.Enum {
				if d := c14DeepEq(reflect.ValueOf(y), reflect.ValueOf(z), name); d != "" {
					t.Fatalf("%s: the object decoded from TL2 differs from the one decoded from TL1 at %s\nx=%s\ntl2=%s", name, d, c14Short(jx), c14Hex(t2))
				}
			}
		}
		if t2b := z.(c14TL2).WriteTL2(nil, &basictl.TL2WriteContext{}); !negz && !bytes.Equal(t2b, t2) {
			t.Fatalf("%s: TL2 re-encoding differs\nt2 =%s\nt2b=%s", name, c14Hex(t2), c14Hex(t2b))
		}
		for _, k := range c14CutPoints(len(t2), c.Cuts) {
			if _, err := it.New().(c14TL2).ReadTL2(t2[:k:k], &basictl.TL2ReadContext{}); err == nil {
				t.Fatalf("%s: ReadTL2 accepted the encoding truncated to %d of %d bytes\ntl2=%s", name, k, len(t2), c14Hex(t2))
			}
		}
	}

	// --- function results
	if isFn {
		if len(res1) > 0 {
			for _, by := range res1[4:] {
				if by != 0 {
					nontrivial = true
					cls["result-nontrivial"] = true
					break
				}
			}
		}
		rest, rj, err := fn.ReadResultTL1WriteResultJSON(&basictl.JSONWriteContext{}, append(append([]byte(nil), res1...), c.Garbage...), nil)
		if err != nil {
			t.Fatalf("%s: result: ReadResultTL1 failed on WriteResultTL1 output: %v\nbytes=%s", name, err, c14Hex(res1))
		}
		if !bytes.Equal(rest, c.Garbage) {
			t.Fatalf("%s: result: ReadResultTL1 left %d bytes, %d follow the result", name, len(rest), len(c.Garbage))
		}
		if !json.Valid(rj) {
			t.Fatalf("%s: result: invalid JSON %s", name, c14Short(string(rj)))
		}
		_, res2, err := fn.ReadResultJSONWriteResultTL1(&basictl.JSONReadContext{}, rj, nil)
		if err != nil {
			t.Fatalf("%s: result: JSON read-back failed: %v\njson=%s", name, err, c14Short(string(rj)))
		}
		if !bytes.Equal(res1, res2) {
			t.Fatalf("%s: result: TL1->JSON->TL1 changed the value (first diff at byte %d)\njson=%s\nr1=%s\nr2=%s", name, c14FirstDiff(res1, res2), c14Short(string(rj)), c14Hex(res1), c14Hex(res2))
		}
		for _, k := range c14CutPoints(len(res1), c.Cuts) {
			if _, _, err := fn.ReadResultTL1WriteResultJSON(&basictl.JSONWriteContext{}, res1[:k:k], nil); err == nil {
				t.Fatalf("%s: result: ReadResultTL1 accepted the encoding truncated to %d of %d bytes\nbytes=%s", name, k, len(res1), c14Hex(res1))
			}
		}
		if f2, ok := x.(c14FnTL2); ok && it.HasTL2 {
			rest, rt2, err := f2.ReadResultTL1WriteResultTL2(&basictl.TL2WriteContext{}, res1, nil)
			if err != nil || len(rest) != 0 {
				t.Fatalf("%s: result: TL1->TL2 failed: %v (rest %d)", name, err, len(rest))
			}
			rest, res3, err := f2.ReadResultTL2WriteResultTL1(&basictl.TL2ReadContext{}, rt2, nil)
			if err != nil || len(rest) != 0 {
				t.Fatalf("%s: result: TL2->TL1 failed: %v (rest %d)\ntl2=%s", name, err, len(rest), c14Hex(rt2))
			}
			if _, rj2, err := f2.ReadResultTL2WriteResultJSON(&basictl.TL2ReadContext{}, &basictl.JSONWriteContext{}, rt2, nil); err != nil || !bytes.Equal(rj2, rj) {
				t.Fatalf("%s: result: the value decoded from TL2 differs from the one decoded from TL1 (JSON view, err=%v)\ntl1=%s\ntl2=%s", name, err, c14Short(string(rj)), c14Short(string(rj2)))
			}
			if !bytes.Equal(res1, res3) {
				t.Fatalf("%s: result: TL1->TL2->TL1 changed the value (first diff at byte %d)\nr1=%s\nr3=%s\ntl2=%s", name, c14FirstDiff(res1, res3), c14Hex(res1), c14Hex(res3), c14Hex(rt2))
			}
		}
		if it.NewBytes != nil {
			fb := it.NewBytes()
			c14Fill(fb, &c14Play{tape: c.Tape}) // same arguments (results may depend on the arguments' masks)
			if fnb, ok := fb.(c14Fn); ok {
				_, rjb, err := fnb.ReadResultTL1WriteResultJSON(&basictl.JSONWriteContext{}, res1, nil)
				if err != nil {
					t.Fatalf("%s: result: []byte variant cannot read the result: %v", name, err)
				}
				if !bytes.Equal(rj, rjb) {
					t.Fatalf("%s: result: []byte variant renders another JSON\nstring=%s\nbytes =%s", name, c14Short(string(rj)), c14Short(string(rjb)))
				}
				_, res4, err := fnb.ReadResultJSONWriteResultTL1(&basictl.JSONReadContext{}, rj, nil)
				if err != nil || !bytes.Equal(res4, res1) {
					t.Fatalf("%s: result: []byte variant JSON->TL1 differs (err=%v)\nr1=%s\nr4=%s", name, err, c14Hex(res1), c14Hex(res4))
				}
			}
		}
	}
	if nontrivial {
		cls["nontrivial"] = true
	}
	return nontrivial, nil
}

// ---------- running a family of items ----------

func c14Index(items []c14Item) map[string]*c14Item {
	m := map[string]*c14Item{}
	for i := range items {
		m[items[i].Fam+"|"+items[i].Name] = &items[i]
	}
	return m
}

// c14RunFamily: one rapid.Check per item (so that every item gets -rapid.checks cases); the check is
// inconclusive unless every item of the family was exercised.
func c14RunFamily(t *testing.T, sub string, items []c14Item, total int) {
	ev := vpNewEv(t, "C14", sub)
	covered := 0
	bitsEnumerated, sparseCases := 0, 0
	withNontrivial := 0
	var neverNontrivial []string
	for i := range items {
		it := &items[i]
		ran, nt := 0, 0
		t.Run(strings.ReplaceAll(it.Name, "/", "_"), func(t *testing.T) {
			sc, nbits := c14SparseCases(it)
			bitsEnumerated += nbits
			sparseCases += len(sc)
			for _, c := range sc {
				c := c
				vpRunCase(t, "C14", sub, c, func() {
					n, cls := c14PropObj(t, it, c)
					ev.Case(n, c, cls...)
					ran++
					if n {
						nt++
					}
				})
			}
			rapid.Check(t, func(rt *rapid.T) {
				c := c14Gen(it).Draw(rt, "case")
				vpRunCase(rt, "C14", sub, c, func() {
					n, cls := c14PropObj(rt, it, c)
					ev.Case(n, c, cls...)
					ran++
					if n {
						nt++
					}
				})
			})
		})
		if t.Failed() {
			return // one shrunk counterexample is enough; do not spend the shrink budget once per item
		}
		if ran > 0 {
			covered++
		}
		if nt > 0 {
			withNontrivial++
		} else {
			neverNontrivial = append(neverNontrivial, it.Name)
		}
	}
	ev.Extra("items_total", total)
	ev.Extra("items_covered", covered)
	ev.Extra("sparse_item_x_bit_enumerated", bitsEnumerated) // (item, fields mask, single bit) triples, each a case
	ev.Extra("sparse_cases_enumerated", sparseCases)         // incl. all-default, pairs and nested bits
	ev.Extra("items_with_nontrivial_value", withNontrivial)
	if len(neverNontrivial) > 40 {
		neverNontrivial = append(neverNontrivial[:40], "...")
	}
	ev.Extra("items_never_nontrivial", neverNontrivial)
	if covered != total || len(items) != total {
		fmt.Printf("VP-INCONCLUSIVE C14/%s: %d of %d items exercised (%d enumerated)\n", sub, covered, total, len(items))
		t.Errorf("VP-INCONCLUSIVE C14/%s: %d of %d items exercised (%d enumerated)", sub, covered, total, len(items))
	}
}

func c14Replayer(items func() []c14Item) func(t vpT, raw json.RawMessage) {
	return func(t vpT, raw json.RawMessage) {
		var c c14Case
		if err := json.Unmarshal(raw, &c); err != nil {
			t.Fatalf("decode: %v", err)
		}
		it := c14Index(items())[c.Fam+"|"+c.Item]
		if it == nil {
			t.Fatalf("unknown item %s/%s", c.Fam, c.Item)
			return
		}
		c14PropObj(t, it, c)
	}
}

// c14FromFactory adapts the items of a generated factory (meta.GetAllTLItems of any of the trees).
func c14FromFactory[O any, I interface {
	TLTag() uint32
	TLName() string
	HasTL2() bool
	CreateObject() O
	CreateObjectBytes() O
}](fam string, src []I) []c14Item {
	var out []c14Item
	for _, fi := range src {
		fi := fi
		it := c14Item{Fam: fam, Name: fi.TLName(), Tag: fi.TLTag(), HasTL2: fi.HasTL2()}
		it.New = func() c14Obj { return any(fi.CreateObject()).(c14Obj) }
		ts, tb := reflect.TypeOf(any(fi.CreateObject())), reflect.TypeOf(any(fi.CreateObjectBytes()))
		if ts != tb {
			it.NewBytes = func() c14Obj { return any(fi.CreateObjectBytes()).(c14Obj) }
		}
		if ts.Kind() == reflect.Ptr && ts.Elem().Name() == "TLItemImpl" {
			it.Enum = true
		}
		out = append(out, it)
	}
	return out
}
