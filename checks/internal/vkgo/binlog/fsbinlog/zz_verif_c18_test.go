//go:build verif

package fsbinlog

// C18 — fsbinlog replays exactly what was appended, across rotation and damage.
//
// This file: the shared harness (event codec, recording engine stub, session helpers, an
// independent reader of the file layout) and the history state machine (sub-check "hist").
// zz_verif_c18_damage_test.go holds the enumerated truncation / bit-flip sub-checks.

import (
	"encoding/binary"
	"encoding/json"
	"errors"
	"fmt"
	"hash/crc32"
	mrand "math/rand"
	"os"
	"path/filepath"
	"sort"
	"strings"
	"sync"
	"testing"
	"time"

	"github.com/myxo/gofs"
	prand "pgregory.net/rand"
	"pgregory.net/rapid"

	"github.com/VKCOM/statshouse/internal/vkgo/binlog"
)

const (
	c18Magic      = uint32(0x3c18e0a1) // engine ("user") event magic, not a service magic
	c18HdrLen     = 12                 // magic, seq, len
	c18Timeout    = 20 * time.Second   // a healthy binlog answers in milliseconds; beyond this the run is inconclusive
	c18SchemaID   = uint32(0x00c18c18) // Options.Magic
	c18CrcRecLen  = 20
	c18RotRecLen  = 36
	c18MagicCrc   = uint32(0x04435243)
	c18MagicRotTo = uint32(0x04464c72)
	c18MagicRotFr = uint32(0x04724cd2)
)

func c18Pad(n int64) int64 { return (n + 3) &^ 3 }

// c18Body is the deterministic body of event seq (so that a replayed event can be checked byte by byte).
func c18Body(seed uint64, seq uint32, n int) []byte {
	b := make([]byte, n)
	x := seed ^ (uint64(seq)+1)*0x9E3779B97F4A7C15
	if x == 0 {
		x = 1
	}
	for i := 0; i < n; i += 8 {
		x ^= x << 13
		x ^= x >> 7
		x ^= x << 17
		var w [8]byte
		binary.LittleEndian.PutUint64(w[:], x)
		copy(b[i:], w[:])
	}
	return b
}

func c18Encode(seed uint64, seq uint32, n int) []byte {
	out := make([]byte, c18HdrLen, c18HdrLen+n)
	binary.LittleEndian.PutUint32(out, c18Magic)
	binary.LittleEndian.PutUint32(out[4:], seq)
	binary.LittleEndian.PutUint32(out[8:], uint32(n))
	return append(out, c18Body(seed, seq, n)...)
}

// ---------------------------------------------------------------- recording engine stub

type c18Applied struct {
	At     int64 // engine position at which the event was delivered
	Seq    uint32
	Len    int
	BodyOK bool // body equals c18Body(seed, seq, len)
}

type c18Commit struct {
	Off, Safe int64
	Meta      []byte
	Written   int64 // bytes present in the files when the callback ran (-1: not measured)
}

// c18Engine implements binlog.Engine the way the interface comment asks an fsbinlog user to:
// ErrorUnknownMagic for foreign magics, ErrorNotEnoughData for incomplete events, own position
// bookkeeping. Mode selects how much of the payload one Apply consumes.
type c18Engine struct {
	mu       sync.Mutex
	seed     uint64
	mode     int // 0: one event per Apply; 1: all whole events, nil error; 2: all whole events, then the stop reason as error
	off      int64
	applied  []c18Applied
	skipped  int64
	applies  int
	commits  []c18Commit
	roles    []binlog.ChangeRoleInfo
	ready    bool
	reverted bool
	bad      []string          // violations seen inside callbacks (reported by the test goroutine)
	onCommit func(off int64) (written int64, bad string)
	wake     chan struct{}
}

func c18NewEngine(seed uint64, mode int, off int64) *c18Engine {
	return &c18Engine{seed: seed, mode: mode, off: off, wake: make(chan struct{}, 1)}
}

func (e *c18Engine) poke() {
	select {
	case e.wake <- struct{}{}:
	default:
	}
}

func (e *c18Engine) Apply(p []byte) (int64, error) {
	e.mu.Lock()
	defer e.mu.Unlock()
	e.applies++
	if len(p)%4 != 0 {
		e.bad = append(e.bad, fmt.Sprintf("Apply got an unaligned payload of %d bytes", len(p)))
	}
	progressed := false
	stop := func(err error) (int64, error) {
		if !progressed || e.mode == 2 {
			return e.off, err
		}
		return e.off, nil
	}
	for {
		if len(p) == 0 {
			if progressed {
				return e.off, nil
			}
			return e.off, binlog.ErrorNotEnoughData
		}
		if len(p) < 4 {
			return stop(binlog.ErrorNotEnoughData)
		}
		if binary.LittleEndian.Uint32(p) != c18Magic {
			return stop(binlog.ErrorUnknownMagic)
		}
		if len(p) < c18HdrLen {
			return stop(binlog.ErrorNotEnoughData)
		}
		seq := binary.LittleEndian.Uint32(p[4:])
		n := int64(binary.LittleEndian.Uint32(p[8:]))
		if int64(len(p)) < c18HdrLen+n {
			return stop(binlog.ErrorNotEnoughData)
		}
		body := p[c18HdrLen : c18HdrLen+n]
		ok := string(body) == string(c18Body(e.seed, seq, int(n)))
		e.applied = append(e.applied, c18Applied{At: e.off, Seq: seq, Len: int(n), BodyOK: ok})
		adv := c18Pad(c18HdrLen + n)
		if adv > int64(len(p)) {
			adv = c18HdrLen + n // padding not in the buffer: the reader is documented to add it
			e.off += c18Pad(adv)
			return e.off, nil
		}
		e.off += adv
		p = p[adv:]
		progressed = true
		if e.mode == 0 {
			return e.off, nil
		}
	}
}

func (e *c18Engine) Skip(n int64) (int64, error) {
	e.mu.Lock()
	defer e.mu.Unlock()
	e.off += n
	e.skipped += n
	return e.off, nil
}

func (e *c18Engine) Commit(off int64, meta []byte, safe int64) error {
	written, bad := int64(-1), ""
	if e.onCommit != nil {
		written, bad = e.onCommit(off)
	}
	e.mu.Lock()
	e.commits = append(e.commits, c18Commit{Off: off, Safe: safe, Meta: append([]byte(nil), meta...), Written: written})
	if bad != "" {
		e.bad = append(e.bad, bad)
	}
	e.mu.Unlock()
	e.poke()
	return nil
}

func (e *c18Engine) Revert(int64) (bool, error) {
	e.mu.Lock()
	e.reverted = true
	e.mu.Unlock()
	return false, nil
}

func (e *c18Engine) ChangeRole(info binlog.ChangeRoleInfo) error {
	e.mu.Lock()
	e.roles = append(e.roles, info)
	if info.IsReady {
		e.ready = true
	}
	e.mu.Unlock()
	e.poke()
	return nil
}

func (e *c18Engine) StartReindex(binlog.ReindexOperator) {}
func (e *c18Engine) Split(int64, string) bool           { return false }
func (e *c18Engine) Shutdown()                          {}

func (e *c18Engine) snapshot() (off int64, applied []c18Applied, commits []c18Commit, bad []string) {
	e.mu.Lock()
	defer e.mu.Unlock()
	return e.off, append([]c18Applied(nil), e.applied...), append([]c18Commit(nil), e.commits...), append([]string(nil), e.bad...)
}

func (e *c18Engine) lastCommit() int64 {
	e.mu.Lock()
	defer e.mu.Unlock()
	if len(e.commits) == 0 {
		return -1
	}
	return e.commits[len(e.commits)-1].Off
}

// ---------------------------------------------------------------- sessions

type c18Sess struct {
	bl   BinlogReadWrite
	eng  *c18Engine
	done chan error
	err  error
	over bool
}

func c18Start(opts Options, off int64, meta []byte, eng *c18Engine) *c18Sess {
	bl, _ := NewFsBinlog(nil, opts)
	s := &c18Sess{bl: bl, eng: eng, done: make(chan error, 1)}
	go func() { s.done <- bl.Run(off, meta, nil, eng) }()
	return s
}

var errC18Timeout = errors.New("timeout")

// waitFor blocks until cond() holds, Run returned (error) or the timeout passed (errC18Timeout).
func (s *c18Sess) waitFor(cond func() bool) error {
	deadline := time.NewTimer(c18Timeout)
	defer deadline.Stop()
	for {
		if cond() {
			return nil
		}
		if s.over {
			return fmt.Errorf("Run already returned: %v", s.err)
		}
		select {
		case <-s.eng.wake:
		case err := <-s.done:
			s.over, s.err = true, err
			if cond() {
				return nil
			}
			return fmt.Errorf("Run returned early: %v", err)
		case <-deadline.C:
			return errC18Timeout
		}
	}
}

func (s *c18Sess) waitReady() error {
	return s.waitFor(func() bool { s.eng.mu.Lock(); defer s.eng.mu.Unlock(); return s.eng.ready })
}

func (s *c18Sess) waitCommit(off int64) error {
	return s.waitFor(func() bool { return s.eng.lastCommit() >= off })
}

func (s *c18Sess) stop() error {
	s.bl.RequestShutdown()
	if s.over {
		return s.err
	}
	select {
	case err := <-s.done:
		s.over, s.err = true, err
		return err
	case <-time.After(c18Timeout):
		return errC18Timeout
	}
}

func c18Inconclusive(t vpT, format string, args ...any) {
	t.Fatalf("VP-INCONCLUSIVE "+format, args...)
}

// ---------------------------------------------------------------- independent view of the files

type c18File struct {
	Name string
	Pos  int64 // global position of the first byte (read from the file's own ROTATE_FROM header)
	Data []byte
}

// c18ReadFiles lists prefix*.bin, reads each file and orders them by the position stored in their
// header. It does not use any fsbinlog code.
func c18ReadFiles(fs gofs.FS, prefix string) ([]c18File, error) {
	dir, base := filepath.Dir(prefix), filepath.Base(prefix)
	ents, err := fs.ReadDir(dir)
	if err != nil {
		return nil, err
	}
	var out []c18File
	for _, e := range ents {
		if !strings.HasPrefix(e.Name(), base) || !strings.HasSuffix(e.Name(), ".bin") {
			continue
		}
		name := filepath.Join(dir, e.Name())
		data, err := fs.ReadFile(name)
		if err != nil {
			return nil, err
		}
		f := c18File{Name: name, Data: data}
		if len(data) >= 16 && binary.LittleEndian.Uint32(data) == c18MagicRotFr {
			f.Pos = int64(binary.LittleEndian.Uint64(data[8:]))
		} else if len(data) < 4 || binary.LittleEndian.Uint32(data) == c18MagicRotFr {
			return nil, fmt.Errorf("file %s: %d bytes, no usable header", name, len(data))
		}
		out = append(out, f)
	}
	sort.Slice(out, func(i, j int) bool { return out[i].Pos < out[j].Pos })
	return out, nil
}

// c18Image concatenates the files after checking that they tile [0, end) without gap or overlap.
func c18Image(files []c18File) ([]byte, error) {
	var g []byte
	for _, f := range files {
		if f.Pos != int64(len(g)) {
			return nil, fmt.Errorf("file %s starts at %d but the previous files end at %d", filepath.Base(f.Name), f.Pos, len(g))
		}
		g = append(g, f.Data...)
	}
	return g, nil
}

// ---------------------------------------------------------------- model

type c18Ev struct {
	Seq   uint32
	Len   int
	Start int64 // offset the writer returned before this append == where replay must deliver it
	Next  int64 // offset the writer returned for this append
}

func (e c18Ev) end() int64 { return e.Start + c18Pad(int64(c18HdrLen+e.Len)) } // padded end of the event itself

// c18Layout is what the model knows about the service records the writer put after each event.
type c18Layout struct {
	CrcRecs   []int64 // global positions of LEV_CRC32 records
	RotateTos []int64 // global positions of ROTATE_TO records (ROTATE_FROM follows at +36, in the next file)
	Bounds    []int64 // every record boundary (sorted): positions where a whole record ends
	First     int64   // position of the first event (end of the start records)
}

func c18MakeLayout(events []c18Ev, first int64, g []byte) (c18Layout, error) {
	l := c18Layout{First: first}
	l.Bounds = append(l.Bounds, first)
	for _, ev := range events {
		p := ev.end()
		l.Bounds = append(l.Bounds, p)
		gap := ev.Next - p
		switch gap {
		case 0, c18CrcRecLen, 2 * c18RotRecLen, c18CrcRecLen + 2*c18RotRecLen:
		default:
			return l, fmt.Errorf("event seq %d at %d: %d bytes between its end and the next offset (expected 0, 20, 72 or 92)", ev.Seq, ev.Start, gap)
		}
		if gap == c18CrcRecLen || gap == c18CrcRecLen+2*c18RotRecLen {
			l.CrcRecs = append(l.CrcRecs, p)
			p += c18CrcRecLen
			l.Bounds = append(l.Bounds, p)
		}
		if gap >= 2*c18RotRecLen {
			l.RotateTos = append(l.RotateTos, p)
			l.Bounds = append(l.Bounds, p+c18RotRecLen, p+2*c18RotRecLen)
		}
	}
	if g != nil { // harness self-check against the bytes on disk
		for _, p := range l.CrcRecs {
			if int(p)+4 > len(g) || binary.LittleEndian.Uint32(g[p:]) != c18MagicCrc {
				return l, fmt.Errorf("no LEV_CRC32 magic at %d", p)
			}
		}
		for _, p := range l.RotateTos {
			if int(p)+c18RotRecLen+4 > len(g) || binary.LittleEndian.Uint32(g[p:]) != c18MagicRotTo || binary.LittleEndian.Uint32(g[p+c18RotRecLen:]) != c18MagicRotFr {
				return l, fmt.Errorf("no ROTATE_TO/ROTATE_FROM pair at %d", p)
			}
		}
	}
	return l, nil
}

// c18CheckImage: the bytes on disk hold every appended event at the offset the writer returned.
func c18CheckImage(seed uint64, events []c18Ev, g []byte) error {
	for _, ev := range events {
		want := c18Encode(seed, ev.Seq, ev.Len)
		if int(ev.Start)+len(want) > len(g) {
			return fmt.Errorf("event seq %d at %d (+%d) is beyond the %d bytes on disk", ev.Seq, ev.Start, len(want), len(g))
		}
		if string(g[ev.Start:int(ev.Start)+len(want)]) != string(want) {
			return fmt.Errorf("bytes at offset %d are not event seq %d (len %d)", ev.Start, ev.Seq, ev.Len)
		}
	}
	return nil
}

// c18Expect compares what an engine was handed with the model events whose start >= from.
func c18Expect(what string, applied []c18Applied, events []c18Ev, from int64) error {
	var want []c18Ev
	for _, ev := range events {
		if ev.Start >= from {
			want = append(want, ev)
		}
	}
	for i := 0; i < len(applied) && i < len(want); i++ {
		a, w := applied[i], want[i]
		if a.Seq != w.Seq || a.Len != w.Len || !a.BodyOK {
			return fmt.Errorf("%s: delivered event #%d is (seq %d, len %d, body ok %v), appended was (seq %d, len %d)", what, i, a.Seq, a.Len, a.BodyOK, w.Seq, w.Len)
		}
		if a.At != w.Start {
			return fmt.Errorf("%s: event seq %d delivered at offset %d, the writer returned %d", what, a.Seq, a.At, w.Start)
		}
	}
	if len(applied) != len(want) {
		return fmt.Errorf("%s: %d events delivered, %d were appended at or after offset %d", what, len(applied), len(want), from)
	}
	return nil
}

// c18ReadOnly replays [from, end) into a fresh engine with ReadAll on a read-and-exit binlog.
func c18ReadOnly(opts Options, seed uint64, mode int, from int64, meta []byte) (eng *c18Engine, pi PositionInfo, err error) {
	opts.ReadAndExit = true
	bl, _ := NewFsBinlog(nil, opts)
	eng = c18NewEngine(seed, mode, from)
	defer func() {
		if r := recover(); r != nil {
			err = fmt.Errorf("PANIC in the reader: %v", r)
		}
	}()
	pi, err = bl.ReadAll(from, meta, eng)
	return eng, pi, err
}

// ---------------------------------------------------------------- history case

type c18Op struct {
	K     string `json:"k"`               // "a" append, "w" wait for commit, "r" restart
	Size  int    `json:"size,omitempty"`  // a: body length
	Asap  bool   `json:"asap,omitempty"`  // a: AppendASAP
	Slow  bool   `json:"slow,omitempty"`  // w: wait for everything appended even if that needs the 500 ms flush timer
	From  int    `json:"from,omitempty"`  // r: 0 = restart from scratch, k>0 = resume from recorded commit number (k-1) mod len
	Later int    `json:"later,omitempty"` // r: move the resume offset that many event boundaries past the commit (meta stays)
}

type c18Case struct {
	Chunk   uint32  `json:"chunk"`
	Mem     bool    `json:"mem,omitempty"`     // in-memory FS with dirty tracking (enables the fsync bound)
	Mode    int     `json:"mode"`              // engine consumption mode
	NoDelay bool    `json:"nodelay,omitempty"` // WriteCallDelay = 0
	Seed    uint64  `json:"seed"`
	Ops     []c18Op `json:"ops"`
}

type c18World struct {
	fs     gofs.FS
	mem    *gofs.InMemoryFS
	opts   Options
	prefix string
}

func c18NewWorld(t vpT, dir string, chunk uint32, mem, noDelay bool) *c18World {
	w := &c18World{}
	if mem {
		w.mem = gofs.NewThreadSafeMemoryFs()
		w.mem.TrackDirtyPages()
		w.fs = w.mem
		dir = "/c18"
		if err := w.fs.MkdirAll(dir, 0o777); err != nil {
			t.Fatalf("mkdir: %v", err)
		}
	} else {
		w.fs = gofs.OsFs()
		if err := os.MkdirAll(dir, 0o755); err != nil {
			t.Fatalf("VP-INCONCLUSIVE mkdir: %v", err)
		}
	}
	w.prefix = filepath.Join(dir, "bl")
	w.opts = Options{PrefixPath: w.prefix, Magic: c18SchemaID, MaxChunkSize: chunk}
	if mem {
		w.opts.Fs = w.fs
	}
	if noDelay {
		z := time.Duration(0)
		w.opts.WriteCallDelay = &z
	}
	return w
}

// commitHook measures, inside the Commit callback (which runs on the writer goroutine, after its
// fsync), how many bytes the files hold; on the in-memory FS it also corrupts every byte range that
// was written but not fsynced (gofs' power-loss simulation) and reports a corrupted byte below the
// committed offset.
func (w *c18World) commitHook(seed uint64) func(off int64) (int64, string) {
	rng := mrand.New(mrand.NewSource(int64(seed))) // only used on the writer goroutine
	return func(off int64) (int64, string) {
		files, err := c18ReadFiles(w.fs, w.prefix)
		if err != nil {
			return -1, "" // e.g. a header being written right now; the size bound is then not measured
		}
		var total int64
		for _, f := range files {
			total += int64(len(f.Data))
		}
		if w.mem == nil {
			return total, ""
		}
		w.mem.CorruptDirtyPages(rng)
		bad := ""
		for _, f := range files {
			now, err := w.fs.ReadFile(f.Name)
			if err != nil {
				continue
			}
			for i := 0; i < len(now) && i < len(f.Data); i++ {
				if now[i] == f.Data[i] {
					continue
				}
				if g := f.Pos + int64(i); g < off && bad == "" {
					bad = fmt.Sprintf("Commit(%d) while byte %d (file %s +%d) was written but not fsynced", off, g, filepath.Base(f.Name), i)
				}
				if h, err := w.fs.OpenFile(f.Name, os.O_RDWR, 0o640); err == nil { // undo the simulated corruption
					_, _ = h.WriteAt(f.Data[i:i+1], int64(i))
					_ = h.Sync()
					_ = h.Close()
				} else if bad == "" {
					bad = "VP-INCONCLUSIVE cannot undo simulated corruption: " + err.Error()
				}
			}
		}
		return total, bad
	}
}

func c18CheckBad(t vpT, eng *c18Engine) {
	_, _, _, bad := eng.snapshot()
	for _, b := range bad {
		if strings.HasPrefix(b, "VP-INCONCLUSIVE") {
			t.Fatalf("%s", b)
		}
	}
	if len(bad) > 0 {
		t.Fatalf("%s", bad[0])
	}
}

// c18CheckCommits: monotone within one run; never beyond the bytes handed to the file system;
// snapshot meta names the same position and the crc of exactly the bytes before it.
func c18CheckCommits(what string, commits []c18Commit, g []byte) error {
	prev := int64(-1)
	for i, c := range commits {
		if c.Off < prev {
			return fmt.Errorf("%s: commit #%d at %d after a commit at %d (not monotone)", what, i, c.Off, prev)
		}
		prev = c.Off
		if c.Written >= 0 && c.Off > c.Written {
			return fmt.Errorf("%s: commit #%d at %d but only %d bytes had been written", what, i, c.Off, c.Written)
		}
		if c.Off > int64(len(g)) {
			return fmt.Errorf("%s: commit #%d at %d beyond the %d bytes finally on disk", what, i, c.Off, len(g))
		}
		var sm seekInfo
		if _, err := sm.ReadTL1Boxed(c.Meta); err != nil {
			return fmt.Errorf("%s: commit #%d at %d: snapshot meta does not parse: %v", what, i, c.Off, err)
		}
		if sm.CommitPosition != c.Off {
			return fmt.Errorf("%s: commit #%d at %d carries snapshot meta for position %d", what, i, c.Off, sm.CommitPosition)
		}
		if want := crc32.ChecksumIEEE(g[:c.Off]); sm.CommitCrc != want {
			return fmt.Errorf("%s: commit #%d at %d: snapshot meta crc %08x, crc of the bytes before it %08x", what, i, c.Off, sm.CommitCrc, want)
		}
	}
	return nil
}

func c18PropHist(t vpT, c c18Case, dir string) (nontrivial bool, classes []string) {
	w := c18NewWorld(t, dir, c.Chunk, c.Mem, c.NoDelay)
	rng := prand.New(c.Seed)
	if _, err := CreateEmptyFsBinlog(w.opts); err != nil {
		t.Fatalf("CreateEmptyFsBinlog: %v", err)
	}
	hook := w.commitHook(c.Seed)
	newEngine := func(off int64) *c18Engine {
		e := c18NewEngine(c.Seed, c.Mode, off)
		e.onCommit = hook
		return e
	}
	eng := newEngine(0)
	sess := c18Start(w.opts, 0, nil, eng)
	defer func() { _ = sess.stop() }()
	ready := func(what string) {
		if err := sess.waitReady(); err != nil {
			if err == errC18Timeout {
				c18Inconclusive(t, "%s: binlog not ready within %v", what, c18Timeout)
			}
			t.Fatalf("%s: %v", what, err)
		}
		c18CheckBad(t, sess.eng)
	}
	ready("first start")
	first, _, _, _ := eng.snapshot()
	if first <= 0 {
		t.Fatalf("engine position after reading an empty binlog is %d", first)
	}
	var (
		events      []c18Ev
		allCommits  []c18Commit // commits of finished runs, candidates for resume
		runs        [][]c18Commit
		pos         = first
		lastAsapPos = first
		waitedPos   = first
		seq         uint32
		restarts    int
		resumeMid   int
		resumeLater int
		slowWaits   int
	)
	image := func() []byte {
		files, err := c18ReadFiles(w.fs, w.prefix)
		if err != nil {
			t.Fatalf("reading binlog files: %v", err)
		}
		g, err := c18Image(files)
		if err != nil {
			t.Fatalf("%v", err)
		}
		return g
	}
	shutdown := func() []byte {
		if err := sess.stop(); err != nil {
			if err == errC18Timeout {
				c18Inconclusive(t, "Run did not return %v after RequestShutdown", c18Timeout)
			}
			t.Fatalf("Run returned %v after RequestShutdown", err)
		}
		c18CheckBad(t, sess.eng)
		_, _, commits, _ := sess.eng.snapshot()
		if sess.eng.reverted {
			t.Fatalf("Revert was called on a healthy binlog")
		}
		if lc := sess.eng.lastCommit(); lc != pos {
			t.Fatalf("after a clean shutdown the last commit is %d, %d bytes were appended", lc, pos)
		}
		g := image()
		if int64(len(g)) != pos {
			t.Fatalf("after a clean shutdown the files hold %d bytes, the writer returned offset %d", len(g), pos)
		}
		if err := c18CheckImage(c.Seed, events, g); err != nil {
			t.Fatalf("%v", err)
		}
		if err := c18CheckCommits(fmt.Sprintf("run %d", len(runs)), commits, g); err != nil {
			t.Fatalf("%v", err)
		}
		runs = append(runs, commits)
		allCommits = append(allCommits, commits...)
		return g
	}
	firstFileTailRestart := false
	rotatedYet := func() bool {
		for _, ev := range events {
			if ev.Next-ev.end() >= 2*c18RotRecLen {
				return true
			}
		}
		return false
	}
	boundaries := func() []int64 { // event starts plus the end
		var b []int64
		for _, ev := range events {
			b = append(b, ev.Start)
		}
		return append(b, pos)
	}
	for i, op := range c.Ops {
		switch op.K {
		case "a":
			payload := c18Encode(c.Seed, seq, op.Size)
			var next int64
			var err error
			if op.Asap {
				next, err = sess.bl.AppendASAP(pos, payload)
			} else {
				next, err = sess.bl.Append(pos, payload)
			}
			if err != nil {
				t.Fatalf("op %d: Append at %d: %v", i, pos, err)
			}
			ev := c18Ev{Seq: seq, Len: op.Size, Start: pos, Next: next}
			if next < ev.end() {
				t.Fatalf("op %d: Append of %d bytes at %d returned next offset %d", i, len(payload), pos, next)
			}
			events = append(events, ev)
			seq++
			pos = next
			if op.Asap {
				lastAsapPos = pos
			}
		case "w":
			target := lastAsapPos
			if op.Slow || lastAsapPos == pos {
				target = pos
				if lastAsapPos != pos {
					slowWaits++
				}
			}
			if target <= waitedPos {
				continue
			}
			if err := sess.waitCommit(target); err != nil {
				if err == errC18Timeout {
					c18Inconclusive(t, "op %d: no commit >= %d within %v", i, target, c18Timeout)
				}
				t.Fatalf("op %d: waiting for commit %d: %v", i, target, err)
			}
			waitedPos = target
			c18CheckBad(t, sess.eng)
		case "r":
			if !rotatedYet() {
				if tail := int64(c.Chunk) - 16384; c.Chunk >= 32768 && pos > tail && pos < int64(c.Chunk) {
					firstFileTailRestart = true
				}
			}
			shutdown()
			restarts++
			from, meta := int64(0), []byte(nil)
			if op.From > 0 && len(allCommits) > 0 {
				cm := allCommits[(op.From-1)%len(allCommits)]
				from, meta = cm.Off, cm.Meta
				if op.Later > 0 {
					var later []int64
					for _, b := range boundaries() {
						if b > from {
							later = append(later, b)
						}
					}
					if len(later) > 0 {
						from = later[(op.Later-1)%len(later)]
						resumeLater++
					}
				}
				if from > first && from < pos {
					resumeMid++
				}
			}
			eng = newEngine(from)
			sess = c18Start(w.opts, from, meta, eng)
			ready(fmt.Sprintf("op %d: restart from %d", i, from))
			off, applied, _, _ := eng.snapshot()
			if err := c18Expect(fmt.Sprintf("op %d: restart from %d", i, from), applied, events, from); err != nil {
				t.Fatalf("%v", err)
			}
			if off != pos {
				t.Fatalf("op %d: after restart from %d the engine stands at %d, the binlog ends at %d", i, from, off, pos)
			}
			lastAsapPos, waitedPos = pos, pos
		}
	}
	g := shutdown()
	lay, err := c18MakeLayout(events, first, g)
	if err != nil {
		t.Fatalf("%v", err)
	}

	// read-only replays: whole log, then resume from committed positions (with their snapshot meta)
	e0, pi, err := c18ReadOnly(w.opts, c.Seed, c.Mode, 0, nil)
	if err != nil {
		t.Fatalf("replay from 0: %v", err)
	}
	off0, applied0, commits0, _ := e0.snapshot()
	if err := c18Expect("replay from 0", applied0, events, 0); err != nil {
		t.Fatalf("%v", err)
	}
	if pi.Offset != pos || off0 != pos || pi.Crc != crc32.ChecksumIEEE(g) {
		t.Fatalf("replay from 0 ended at %d (engine %d) crc %08x; the binlog has %d bytes, crc %08x", pi.Offset, off0, pi.Crc, pos, crc32.ChecksumIEEE(g))
	}
	c18CheckBad(t, e0)
	if err := c18CheckCommits("replay from 0", commits0, g); err != nil {
		t.Fatalf("%v", err)
	}
	allCommits = append(allCommits, commits0...)
	// distinct commit points, at most 8 sampled
	seen := map[int64]bool{}
	var points []c18Commit
	for _, cm := range allCommits {
		if !seen[cm.Off] {
			seen[cm.Off] = true
			points = append(points, cm)
		}
	}
	rng.Shuffle(len(points), func(i, j int) { points[i], points[j] = points[j], points[i] })
	if len(points) > 8 {
		points = points[:8]
	}
	for k, cm := range points {
		from := cm.Off
		what := fmt.Sprintf("resume from commit %d with its meta", cm.Off)
		if k%3 == 2 { // realistic engine: offset of the last applied event, meta of an older commit
			var later []int64
			for _, b := range boundaries() {
				if b > from {
					later = append(later, b)
				}
			}
			if len(later) > 0 {
				from = later[rng.Intn(len(later))]
				what = fmt.Sprintf("resume from %d with the meta of commit %d", from, cm.Off)
				resumeLater++
			}
		}
		er, pi, err := c18ReadOnly(w.opts, c.Seed, (c.Mode+k)%3, from, cm.Meta)
		if err != nil {
			t.Fatalf("%s: %v", what, err)
		}
		offr, appliedr, _, _ := er.snapshot()
		if err := c18Expect(what, appliedr, events, from); err != nil {
			t.Fatalf("%v", err)
		}
		if pi.Offset != pos || offr != pos || pi.Crc != crc32.ChecksumIEEE(g) {
			t.Fatalf("%s: ended at %d (engine %d) crc %08x; the binlog has %d bytes, crc %08x", what, pi.Offset, offr, pi.Crc, pos, crc32.ChecksumIEEE(g))
		}
		c18CheckBad(t, er)
		if from > first && from < pos {
			resumeMid++
		}
	}

	rot := len(lay.RotateTos)
	if rot >= 1 {
		classes = append(classes, "rotation")
	}
	if rot >= 3 {
		classes = append(classes, "rotation>=3")
	}
	if len(lay.CrcRecs) > 0 {
		classes = append(classes, "crc-record")
	}
	if restarts > 0 {
		classes = append(classes, "restart")
	}
	if resumeMid > 0 {
		classes = append(classes, "resume-mid")
	}
	if resumeLater > 0 {
		classes = append(classes, "resume-later-than-meta")
	}
	if slowWaits > 0 {
		classes = append(classes, "timer-commit")
	}
	if firstFileTailRestart {
		classes = append(classes, "restart-in-tail-of-first-file")
	}
	if c.Mem {
		classes = append(classes, "mem-fs")
	} else {
		classes = append(classes, "real-files")
	}
	for _, ev := range events {
		if ev.Len == 0 {
			classes = append(classes, "empty-body")
			break
		}
	}
	for _, ev := range events {
		if ev.Len > 64*1024 {
			classes = append(classes, "body>64K")
			break
		}
	}
	return rot >= 1 && resumeMid > 0, classes
}

// ---------------------------------------------------------------- generators

func c18GenSize(t *rapid.T, big bool) int {
	switch k := rapid.IntRange(0, 19).Draw(t, "sizeclass"); {
	case k == 0:
		return 0
	case k <= 9:
		return rapid.IntRange(1, 200).Draw(t, "size")
	case k <= 15:
		return rapid.IntRange(201, 4096).Draw(t, "size")
	case k <= 17 || !big:
		return rapid.IntRange(4097, 20000).Draw(t, "size")
	default:
		return rapid.IntRange(20001, 70000).Draw(t, "size")
	}
}

func c18GenChunk(t *rapid.T) uint32 {
	switch rapid.IntRange(0, 4).Draw(t, "chunkclass") {
	case 0:
		return uint32(rapid.IntRange(128, 1023).Draw(t, "chunk"))
	case 1, 2:
		return uint32(rapid.IntRange(1024, 8192).Draw(t, "chunk"))
	default:
		return uint32(rapid.IntRange(8193, 65536).Draw(t, "chunk"))
	}
}

func c18GenHist() *rapid.Generator[c18Case] {
	return rapid.Custom(func(t *rapid.T) c18Case {
		c := c18Case{
			Chunk:   c18GenChunk(t),
			Mem:     rapid.IntRange(0, 3).Draw(t, "mem") == 0,
			Mode:    rapid.IntRange(0, 2).Draw(t, "mode"),
			NoDelay: rapid.Bool().Draw(t, "nodelay"),
			Seed:    rapid.Uint64().Draw(t, "seed"),
		}
		if rapid.IntRange(0, 6).Draw(t, "shape") == 0 {
			// shape "restart near the end of the first file": fill the first file up to its last 16 KiB, restart,
			// go on until it rotates (the writer keeps the head and the tail of the first file for the hash in
			// the rotate records)
			c.Chunk = uint32(rapid.IntRange(20000, 65536).Draw(t, "chunk"))
			total, restarted := 44, false
			for total < int(c.Chunk)+3000 && len(c.Ops) < 60 {
				if !restarted && total > int(c.Chunk)-16000 && total < int(c.Chunk) {
					c.Ops = append(c.Ops, c18Op{K: "r", From: rapid.IntRange(0, 10).Draw(t, "from")})
					restarted = true
					continue
				}
				size := rapid.IntRange(500, 6000).Draw(t, "size")
				c.Ops = append(c.Ops, c18Op{K: "a", Size: size, Asap: rapid.IntRange(0, 2).Draw(t, "asap") == 0})
				total += size + c18HdrLen + 3
				if rapid.IntRange(0, 5).Draw(t, "wait?") == 0 {
					c.Ops = append(c.Ops, c18Op{K: "w"})
				}
			}
		}
		n := rapid.IntRange(1, 40).Draw(t, "nops")
		slowLeft := 1
		for i := 0; i < n; i++ {
			switch k := rapid.IntRange(0, 19).Draw(t, "op"); {
			case k <= 13:
				c.Ops = append(c.Ops, c18Op{K: "a", Size: c18GenSize(t, true), Asap: rapid.IntRange(0, 2).Draw(t, "asap") == 0})
			case k <= 16:
				op := c18Op{K: "w"}
				if slowLeft > 0 && rapid.IntRange(0, 19).Draw(t, "slow") == 0 {
					op.Slow = true
					slowLeft--
				}
				c.Ops = append(c.Ops, op)
			default:
				op := c18Op{K: "r", From: rapid.IntRange(0, 40).Draw(t, "from")}
				if op.From > 0 && rapid.IntRange(0, 2).Draw(t, "later?") == 0 {
					op.Later = rapid.IntRange(1, 40).Draw(t, "later")
				}
				c.Ops = append(c.Ops, op)
			}
		}
		return c
	})
}

func TestVerifC18Hist(t *testing.T) {
	ev := vpNewEv(t, "C18", "hist")
	rapid.Check(t, func(rt *rapid.T) {
		c := c18GenHist().Draw(rt, "case")
		vpRunCase(rt, "C18", "hist", c, func() {
			dir, err := os.MkdirTemp("", "c18h")
			if err != nil {
				rt.Fatalf("VP-INCONCLUSIVE %v", err)
			}
			defer os.RemoveAll(dir)
			nt, cls := c18PropHist(rt, c, dir)
			ev.Case(nt, c, cls...)
		})
	})
}

func init() {
	vpReplayers["C18/hist"] = func(t vpT, raw json.RawMessage) {
		var c c18Case
		if err := json.Unmarshal(raw, &c); err != nil {
			t.Fatalf("%v", err)
		}
		dir, err := os.MkdirTemp("", "c18h")
		if err != nil {
			t.Fatalf("VP-INCONCLUSIVE %v", err)
		}
		defer os.RemoveAll(dir)
		c18PropHist(t, c, dir)
	}
}
