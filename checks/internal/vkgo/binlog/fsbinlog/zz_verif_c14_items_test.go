//go:build verif

package fsbinlog

import (
	"testing"

	_ "github.com/VKCOM/statshouse/internal/vkgo/binlog/fsbinlog/internal/gen/factory"
	fsmeta "github.com/VKCOM/statshouse/internal/vkgo/binlog/fsbinlog/internal/gen/meta"
)

// ---------- C14: the fsbinlog generated tree (levStart, levUpgradeToGms, snapshotMeta) ----------

func c14FsbinlogItems() []c14Item { return c14FromFactory("fsbinlog", fsmeta.GetAllTLItems()) }

func TestVerifC14Fsbinlog(t *testing.T) {
	c14RunFamily(t, "fsbinlog", c14FsbinlogItems(), len(fsmeta.GetAllTLItems()))
}

func init() {
	vpReplayers["C14/fsbinlog"] = c14Replayer(c14FsbinlogItems)
}
