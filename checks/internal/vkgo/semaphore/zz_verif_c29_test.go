//go:build verif

package semaphore

import (
	"context"
	"encoding/json"
	"fmt"
	"runtime"
	"sync"
	"sync/atomic"
	"testing"
	"time"

	"pgregory.net/rapid"
)

// ---------- C29 (semaphore part): weighted semaphore with SetSize / ForceAcquire ----------
//
// Same schedule ownership as the queue part: one call (or one racing pair) at a time, then wait for
// quiescence (every Acquire goroutine has returned or sits in s.waiters, observed in-package; or is
// "doomed": asked for more than the size and waits for its context only).
//
// Oracle: a sequential reference model written from the statement:
//   - an Acquire/TryAcquire of weight n is admitted only if size-cur >= n at that moment, and never
//     ahead of an earlier waiter (FIFO, head-of-line blocking: nobody overtakes the first waiter);
//   - Release / SetSize serve the waiters strictly in arrival order while the head fits;
//   - ForceAcquire adds to cur unconditionally (the only way above size besides SetSize);
//   - a cancelled waiter leaves the semaphore as if it had never queued (followers that fit once it
//     is gone are served).
// For a racing pair the observed result must equal the model after one of the two orders.
// Weights are >= 1 (the repo never acquires 0).

type c29SOp struct {
	K    string   `json:"k"`              // acq | try | rel | size | force | cancel | race
	N    int      `json:"n,omitempty"`    // weight or new size
	Dead bool     `json:"dead,omitempty"` // acq: context cancelled before the call
	Pick int      `json:"pick,omitempty"` // cancel: -1 = first waiter in the queue, else index (mod) among blocked Acquire calls
	Par  []c29SOp `json:"par,omitempty"`  // race: exactly two simple ops
	B2B  bool     `json:"b2b,omitempty"`
}

type c29SCase struct {
	Size int      `json:"size"`
	Ops  []c29SOp `json:"ops"`
}

// ----- reference model -----

type c29SMW struct {
	id int
	n  int64
}

type c29SModel struct {
	size, cur int64
	q         []c29SMW
	doomed    map[int]bool
	res       map[int]int // waiter id -> 1 granted, 2 failed
	try       []bool
}

func (m *c29SModel) clone() *c29SModel {
	c := &c29SModel{size: m.size, cur: m.cur, q: append([]c29SMW(nil), m.q...), doomed: map[int]bool{}, res: map[int]int{}, try: append([]bool(nil), m.try...)}
	for k, v := range m.doomed {
		c.doomed[k] = v
	}
	for k, v := range m.res {
		c.res[k] = v
	}
	return c
}

func (m *c29SModel) serve() {
	for len(m.q) > 0 && m.size-m.cur >= m.q[0].n {
		m.cur += m.q[0].n
		m.res[m.q[0].id] = 1
		m.q = m.q[1:]
	}
}

type c29SAct struct {
	k    string
	n    int64
	id   int // acq / cancel: waiter id
	dead bool
}

func (m *c29SModel) apply(a c29SAct) {
	switch a.k {
	case "acq":
		switch {
		case m.size-m.cur >= a.n && len(m.q) == 0:
			m.cur += a.n
			m.res[a.id] = 1
		case a.dead:
			m.res[a.id] = 2
		case a.n > m.size:
			m.doomed[a.id] = true
		default:
			m.q = append(m.q, c29SMW{a.id, a.n})
		}
	case "try":
		ok := m.size-m.cur >= a.n && len(m.q) == 0
		if ok {
			m.cur += a.n
		}
		m.try = append(m.try, ok)
	case "rel":
		m.cur -= a.n
		m.serve()
	case "size":
		m.size = a.n
		m.serve()
	case "force":
		m.cur += a.n
	case "cancel":
		if m.doomed[a.id] {
			delete(m.doomed, a.id)
			m.res[a.id] = 2
			return
		}
		for i, w := range m.q {
			if w.id == a.id {
				m.q = append(append([]c29SMW(nil), m.q[:i]...), m.q[i+1:]...)
				m.res[a.id] = 2
				m.serve()
				return
			}
		}
		// already granted: cancellation has no effect
	}
}

// ----- harness -----

// c29SCtx lets the harness see that Acquire has left its critical section and started to wait for the
// context (the only observable trace of a waiter that asked for more than the size).
type c29SCtx struct {
	context.Context
	doneCalls atomic.Int32
}

func (c *c29SCtx) Done() <-chan struct{} {
	c.doneCalls.Add(1)
	return c.Context.Done()
}

type c29SW struct {
	ctx       *c29SCtx
	id        int
	n         int64
	cancel    context.CancelFunc
	cancelled bool
	doomed    bool
	state     atomic.Int32
}

type c29SH struct {
	t       vpT
	s       *Weighted
	m       *c29SModel   // ms[0]: used for scheduling aids and observable quantities (equal in all of ms)
	ms      []*c29SModel // all reference states consistent with what was observed so far
	ws      []*c29SW // Acquire calls not yet seen returned
	nextID  int
	opIdx   int
	tryRes  []bool
	tryMu   sync.Mutex
	cls     map[string]bool
	nontriv bool
}

const c29SQuiesceTimeout = 5 * time.Second

func (h *c29SH) listNs() []int64 {
	h.s.mu.Lock()
	defer h.s.mu.Unlock()
	var r []int64
	for e := h.s.waiters.Front(); e != nil; e = e.Next() {
		r = append(r, e.Value.(waiter).n)
	}
	return r
}

func (h *c29SH) quiesce(what string) {
	deadline := time.Now().Add(c29SQuiesceTimeout)
	for spin := 0; ; spin++ {
		unresolved, cancelledPending := 0, 0
		for _, w := range h.ws {
			if w.state.Load() == 0 {
				if w.cancelled {
					cancelledPending++
				}
				if !w.doomed {
					unresolved++
				} else if w.ctx.doneCalls.Load() == 0 {
					cancelledPending++ // has not reached its wait yet
				}
			}
		}
		parked := len(h.listNs())
		if parked > unresolved {
			h.t.Fatalf("op %d (%s): %d waiters in the semaphore's list but only %d queueable Acquire calls have not returned: a returned (or never admissible) waiter is in the queue", h.opIdx, what, parked, unresolved)
		}
		if parked == unresolved && cancelledPending == 0 {
			return
		}
		if time.Now().After(deadline) {
			h.t.Fatalf("VP-INCONCLUSIVE C29 semaphore: no quiescence within %v after op %d (%s): unresolved=%d parked=%d cancelled-pending=%d", c29SQuiesceTimeout, h.opIdx, what, unresolved, parked, cancelledPending)
		}
		if spin < 100 {
			runtime.Gosched()
		} else {
			time.Sleep(20 * time.Microsecond)
		}
	}
}

func (h *c29SH) blocked() []*c29SW {
	var r []*c29SW
	for _, w := range h.ws {
		if w.state.Load() == 0 && !w.cancelled {
			r = append(r, w)
		}
	}
	return r
}

// plan turns a simple op into (model action, implementation action). ok=false: not applicable now.
func (h *c29SH) plan(op c29SOp, relBudget *int64, minSize int64, inRace bool, start <-chan struct{}) (act c29SAct, run func(), ok bool) {
	n := int64(op.N)
	switch op.K {
	case "acq":
		if n < 1 {
			n = 1
		}
		if inRace && n > minSize { // never doomed inside a race: the quiescence rule must not depend on the order
			n = minSize
		}
		if n < 1 {
			return act, nil, false
		}
		cctx, cancel := context.WithCancel(context.Background())
		ctx := &c29SCtx{Context: cctx}
		w := &c29SW{ctx: ctx, id: h.nextID, n: n, cancel: cancel}
		h.nextID++
		dead := op.Dead && !inRace
		if dead {
			cancel()
			w.cancelled = true
			h.cls["acquire-with-dead-ctx"] = true
		}
		if !inRace && !dead && !(h.m.size-h.m.cur >= n && len(h.m.q) == 0) && n > h.m.size {
			w.doomed = true
			h.cls["acquire-larger-than-size"] = true
		}
		h.ws = append(h.ws, w)
		s := h.s
		body := func() {
			if start != nil {
				<-start
			}
			if err := s.Acquire(ctx, n); err == nil {
				w.state.Store(1)
			} else {
				w.state.Store(2)
			}
		}
		if start != nil {
			go body()
			return c29SAct{k: "acq", n: n, id: w.id, dead: dead}, nil, true
		}
		return c29SAct{k: "acq", n: n, id: w.id, dead: dead}, func() { go body() }, true
	case "try":
		if n < 1 {
			n = 1
		}
		return c29SAct{k: "try", n: n}, func() {
			r := h.s.TryAcquire(n)
			h.tryMu.Lock()
			h.tryRes = append(h.tryRes, r)
			h.tryMu.Unlock()
		}, true
	case "rel":
		if n < 1 {
			n = 1
		}
		if n > *relBudget {
			n = *relBudget
		}
		if n < 1 {
			return act, nil, false
		}
		*relBudget -= n
		return c29SAct{k: "rel", n: n}, func() { h.s.Release(n) }, true
	case "size":
		if n < 0 {
			n = 0
		}
		return c29SAct{k: "size", n: n}, func() { h.s.SetSize(n) }, true
	case "force":
		if n < 1 {
			n = 1
		}
		return c29SAct{k: "force", n: n}, func() { h.s.ForceAcquire(n) }, true
	case "cancel":
		bl := h.blocked()
		if len(bl) == 0 {
			return act, nil, false
		}
		var w *c29SW
		if op.Pick < 0 && len(h.m.q) > 0 {
			for _, x := range bl {
				if x.id == h.m.q[0].id {
					w = x
				}
			}
		}
		if w == nil {
			p := op.Pick
			if p < 0 {
				p = 0
			}
			w = bl[p%len(bl)]
		}
		w.cancelled = true
		if len(h.m.q) > 1 && h.m.q[0].id == w.id {
			h.cls["cancel-head-with-followers"] = true
		}
		return c29SAct{k: "cancel", id: w.id}, func() { w.cancel() }, true
	}
	return act, nil, false
}

type c29SObs struct {
	cur, size int64
	list      []int64
	res       map[int]int
	try       []bool
}

func (o c29SObs) String() string {
	return fmt.Sprintf("cur=%d size=%d queue(weights)=%v results(id:1=granted,2=failed)=%v try=%v", o.cur, o.size, o.list, o.res, o.try)
}

func c29SEqual(o c29SObs, m *c29SModel, ids []int, tryFrom int) bool {
	if o.cur != m.cur || o.size != m.size || len(o.list) != len(m.q) {
		return false
	}
	for i := range o.list {
		if o.list[i] != m.q[i].n {
			return false
		}
	}
	for _, id := range ids {
		if o.res[id] != m.res[id] {
			return false
		}
	}
	if len(o.try) != len(m.try)-tryFrom {
		return false
	}
	for i := range o.try {
		if o.try[i] != m.try[tryFrom+i] {
			return false
		}
	}
	return true
}

func c29SModelObs(m *c29SModel, ids []int, tryFrom int) c29SObs {
	o := c29SObs{cur: m.cur, size: m.size, res: map[int]int{}, try: append([]bool(nil), m.try[tryFrom:]...)}
	for _, w := range m.q {
		o.list = append(o.list, w.n)
	}
	for _, id := range ids {
		if m.res[id] != 0 {
			o.res[id] = m.res[id]
		}
	}
	return o
}

func (h *c29SH) step(op c29SOp) {
	t := h.t
	what := op.K
	relBudget := h.m.cur
	tryFrom := len(h.m.try)
	h.tryRes = nil
	waitersBefore := len(h.m.q)
	var acts []c29SAct
	var runs []func()
	if op.K == "race" {
		minSize := h.m.size
		for _, s := range op.Par {
			if s.K == "size" && int64(s.N) < minSize {
				minSize = int64(s.N)
			}
		}
		var start chan struct{}
		if !op.B2B {
			start = make(chan struct{})
		}
		par := op.Par
		if len(par) > 2 {
			par = par[:2]
		}
		tries := 0
		for _, s := range par {
			if s.K == "try" {
				if tries++; tries > 1 { // one TryAcquire per race keeps the result list order-free
					h.cls["skipped-op"] = true
					continue
				}
			}
			a, run, ok := h.plan(s, &relBudget, minSize, true, start)
			if !ok {
				h.cls["skipped-op"] = true
				continue
			}
			acts = append(acts, a)
			if run != nil {
				runs = append(runs, run)
			}
		}
		if op.B2B {
			for _, r := range runs {
				r()
			}
		} else {
			var wg sync.WaitGroup
			for _, r := range runs {
				wg.Add(1)
				go func() { defer wg.Done(); <-start; r() }()
			}
			runtime.Gosched()
			close(start)
			wg.Wait()
		}
	} else {
		a, run, ok := h.plan(op, &relBudget, 0, false, nil)
		if !ok {
			h.cls["skipped-op"] = true
			return
		}
		acts = append(acts, a)
		run()
	}
	h.quiesce(what)

	// candidates: every model still consistent with the past, after each order of the issued actions
	// (two racing Acquire calls of equal weight leave the arrival order open until a later grant shows it)
	var cands []*c29SModel
	for _, base := range h.ms {
		m1 := base.clone()
		for _, a := range acts {
			m1.apply(a)
		}
		cands = append(cands, m1)
		if len(acts) == 2 {
			m2 := base.clone()
			m2.apply(acts[1])
			m2.apply(acts[0])
			cands = append(cands, m2)
		}
	}
	// observation
	var ids []int
	obs := c29SObs{res: map[int]int{}, list: h.listNs()}
	obs.cur, obs.size = h.s.Observe()
	for _, w := range h.ws {
		ids = append(ids, w.id)
		if st := int(w.state.Load()); st != 0 {
			obs.res[w.id] = st
		}
	}
	h.tryMu.Lock()
	obs.try = append([]bool(nil), h.tryRes...)
	h.tryMu.Unlock()
	var next []*c29SModel
	seen := map[string]bool{}
	nmatch := 0
	for _, c := range cands {
		if c29SEqual(obs, c, ids, tryFrom) {
			nmatch++
			if k := fmt.Sprint(c.q, len(c.doomed)); !seen[k] {
				seen[k] = true
				next = append(next, c)
			}
		}
	}
	if len(next) == 0 {
		msg := fmt.Sprintf("op %d (%s %+v): observed %v\n  reference", h.opIdx, what, acts, obs)
		for i, c := range cands {
			msg += fmt.Sprintf("\n   candidate %d: %v", i, c29SModelObs(c, ids, tryFrom))
		}
		msg += fmt.Sprintf("\n  before: cur=%d size=%d queue(id weight)=%v", h.m.cur, h.m.size, h.m.q)
		t.Fatalf("%s", msg)
	}
	prev := h.m
	h.ms, h.m = next, next[0]
	if len(next) > 1 {
		h.cls["arrival-order-ambiguous"] = true
	}
	// classes / non-triviality
	keep := h.ws[:0:0]
	for _, w := range h.ws {
		st := w.state.Load()
		if st == 0 {
			keep = append(keep, w)
			continue
		}
		if st == 1 && w.cancelled && op.K == "race" {
			h.cls["race-cancelled-waiter-granted"] = true
		}
		if st == 2 && !w.cancelled {
			t.Fatalf("op %d (%s): Acquire of waiter %d failed although its context was never cancelled", h.opIdx, what, w.id)
		}
	}
	h.ws = keep
	for _, a := range acts {
		switch a.k {
		case "size":
			if waitersBefore > 0 {
				h.nontriv = true
				if a.n > prev.size {
					h.cls["size-raised-with-waiters"] = true
				} else if a.n < prev.size {
					h.cls["size-lowered-with-waiters"] = true
				}
			}
			if a.n < prev.cur {
				h.cls["size-lowered-below-cur"] = true
			}
		case "force":
			if h.m.cur > h.m.size {
				h.cls["forced-above-size"] = true
			}
		case "try":
			if waitersBefore > 0 {
				h.cls["try-with-waiters"] = true
			}
		case "cancel":
			if op.K == "race" && waitersBefore > 0 && len(acts) == 2 {
				h.nontriv = true
				h.cls["race-with-cancel"] = true
			}
		}
	}
	if len(acts) == 2 {
		if nmatch == len(cands) {
			h.cls["race-order-irrelevant"] = true
		} else {
			h.cls["race-order-visible"] = true
		}
	}
	if len(h.m.q) >= 2 {
		h.cls["several-waiters"] = true
		for _, w := range h.m.q[1:] {
			if h.m.size-h.m.cur >= w.n {
				h.cls["fitting-waiter-blocked-behind-head"] = true
			}
		}
	}
	if len(h.m.q) < waitersBefore {
		for _, a := range acts {
			if a.k == "rel" || a.k == "size" {
				h.cls["waiters-served-from-queue"] = true
			}
		}
	}
}

func c29SProp(t vpT, c c29SCase) (bool, []string) {
	h := &c29SH{t: t, s: NewWeighted(int64(c.Size)), cls: map[string]bool{},
		m: &c29SModel{size: int64(c.Size), doomed: map[int]bool{}, res: map[int]int{}}}
	h.ms = []*c29SModel{h.m}
	defer func() {
		for _, w := range h.ws {
			w.cancel()
		}
	}()
	for i, op := range c.Ops {
		h.opIdx = i
		h.step(op)
	}
	// drain: cancel everybody in arrival order (each cancellation may serve followers, per the model)
	h.opIdx = len(c.Ops)
	for len(h.blocked()) > 0 {
		h.step(c29SOp{K: "cancel", Pick: 0})
	}
	if h.m.cur > 0 {
		h.s.Release(h.m.cur)
	}
	if cur, _ := h.s.Observe(); cur != 0 || len(h.listNs()) != 0 {
		t.Fatalf("after cancelling every waiter and releasing everything held: cur=%d, %d waiters queued (want 0, 0)", cur, len(h.listNs()))
	}
	var cls []string
	for k := range h.cls {
		cls = append(cls, k)
	}
	return h.nontriv, cls
}

func c29SGenSimple(t *rapid.T, inRace bool) c29SOp {
	hi := 99
	if inRace {
		hi = 81
	}
	x := rapid.IntRange(0, hi).Draw(t, "kind")
	w := func() int { return rapid.SampledFrom([]int{1, 1, 1, 2, 2, 3, 4, 5}).Draw(t, "n") }
	switch {
	case x < 34:
		return c29SOp{K: "acq", N: w(), Dead: !inRace && rapid.IntRange(0, 11).Draw(t, "dead") == 0}
	case x < 42:
		return c29SOp{K: "try", N: w()}
	case x < 60:
		return c29SOp{K: "rel", N: w()}
	case x < 68:
		return c29SOp{K: "size", N: rapid.IntRange(0, 6).Draw(t, "size")}
	case x < 72:
		return c29SOp{K: "force", N: w()}
	case x < 82:
		p := -1
		if rapid.Bool().Draw(t, "any") {
			p = rapid.IntRange(0, 5).Draw(t, "pick")
		}
		return c29SOp{K: "cancel", Pick: p}
	default:
		op := c29SOp{K: "race", B2B: rapid.Bool().Draw(t, "b2b")}
		if rapid.IntRange(0, 2).Draw(t, "shape") > 0 {
			op.Par = append(op.Par, c29SOp{K: "cancel", Pick: -1})
			switch rapid.IntRange(0, 3).Draw(t, "with") {
			case 0:
				op.Par = append(op.Par, c29SOp{K: "size", N: rapid.IntRange(0, 6).Draw(t, "size")})
			case 1:
				op.Par = append(op.Par, c29SOp{K: "acq", N: w()})
			default:
				op.Par = append(op.Par, c29SOp{K: "rel", N: w()})
			}
		} else {
			op.Par = append(op.Par, c29SGenSimple(t, true), c29SGenSimple(t, true))
		}
		return op
	}
}

func c29SGen() *rapid.Generator[c29SCase] {
	return rapid.Custom(func(t *rapid.T) c29SCase {
		return c29SCase{
			Size: rapid.SampledFrom([]int{1, 2, 2, 3, 3, 4, 5}).Draw(t, "size0"),
			Ops:  rapid.SliceOfN(rapid.Custom(func(t *rapid.T) c29SOp { return c29SGenSimple(t, false) }), 1, 40).Draw(t, "ops"),
		}
	})
}

func TestVerifC29Sem(t *testing.T) {
	ev := vpNewEv(t, "C29", "sem")
	rapid.Check(t, func(rt *rapid.T) {
		c := c29SGen().Draw(rt, "case")
		vpRunCase(rt, "C29", "sem", c, func() {
			nt, cls := c29SProp(rt, c)
			ev.Case(nt, c, cls...)
		})
	})
}

func init() {
	vpReplayers["C29/sem"] = func(t vpT, raw json.RawMessage) {
		var c c29SCase
		if err := json.Unmarshal(raw, &c); err != nil {
			t.Fatalf("decode: %v", err)
		}
		c29SProp(t, c)
	}
}
