//go:build verif

package queue

import (
	"context"
	"encoding/json"
	"fmt"
	"runtime"
	"sync"
	"sync/atomic"
	"testing"
	"time"

	"pgregory.net/rapid"
)

// ---------- C29 (queue part): per-user round-robin admission queue ----------
//
// The harness owns the schedule at call granularity: it issues one operation (or one deliberately
// racing group of operations), then waits until the implementation is quiescent before it looks at
// anything. Quiescent = every goroutine that called Acquire has either returned or is parked in the
// queue's own waiting lists (observed in-package under q.mx), and every waiter whose context was
// cancelled has returned. The oracle is a set of invariants over the observed history, written from
// the statement; it never predicts *which* waiter is granted.
//
// Call protocol of the real caller (internal/chutil/chutil.go selectCH): AdjustCapacity may be
// called before any Acquire with any capacity >= 0; Acquire(ctx, user) == nil obliges exactly one
// Release; Acquire != nil obliges none; ctx may be cancelled at any time, also before the call.

type c29QOp struct {
	K    string   `json:"k"`              // acq | cancel | rel | cap | race
	U    int      `json:"u,omitempty"`    // acq: user index
	Dead bool     `json:"dead,omitempty"` // acq: context already cancelled at call time
	Pick int      `json:"pick,omitempty"` // cancel: -1 = the waiter the queue would grant next, else index (mod) among parked waiters
	N    int      `json:"n,omitempty"`    // cap: new capacity
	Par  []c29QOp `json:"par,omitempty"`  // race: operations issued without waiting for quiescence in between
	B2B  bool     `json:"b2b,omitempty"`  // race: true = back to back from one goroutine, false = from parallel goroutines
}

type c29QCase struct {
	Cap int      `json:"cap"`
	Ops []c29QOp `json:"ops"`
}

type c29QW struct {
	id, user  int
	cancel    context.CancelFunc
	cancelled bool
	cancelOp  int // op index at which the context was cancelled
	state     atomic.Int32 // 0 pending, 1 Acquire returned nil, 2 Acquire returned an error
}

type c29QH struct {
	t         vpT
	q         *Queue
	cap       int64
	active    int64    // model: grants observed - releases issued
	ws        []*c29QW // started and not yet seen returned, in start order
	nextID    int
	opIdx     int
	lastGrant map[int]int // user -> op index of its latest grant
	waitSince map[int]int // user -> op index since which it has been waiting without interruption
	cls       map[string]bool
	nontriv   bool
}

func c29QName(u int) string { return fmt.Sprintf("u%d", u) }

const c29QuiesceTimeout = 5 * time.Second

func (h *c29QH) parkedCount() int {
	h.q.mx.Lock()
	defer h.q.mx.Unlock()
	n := 0
	for _, u := range h.q.waitingUsersByName {
		n += u.qry.Len()
	}
	return n
}

// quiesce waits until the implementation is at rest. It fails the case as inconclusive (never as a
// violation) when that does not happen in time.
func (h *c29QH) quiesce(what string) {
	deadline := time.Now().Add(c29QuiesceTimeout)
	for spin := 0; ; spin++ {
		unresolved, cancelledPending := 0, 0
		for _, w := range h.ws {
			if w.state.Load() == 0 {
				unresolved++
				if w.cancelled {
					cancelledPending++
				}
			}
		}
		parked := h.parkedCount() // read after the states: a waiter is never counted twice
		if parked > unresolved {
			h.t.Fatalf("op %d (%s): %d entries in the waiting lists but only %d Acquire calls have not returned: a returned waiter left a trace in the queue", h.opIdx, what, parked, unresolved)
		}
		if parked == unresolved && cancelledPending == 0 {
			return
		}
		if time.Now().After(deadline) {
			h.t.Fatalf("VP-INCONCLUSIVE C29 queue: no quiescence within %v after op %d (%s): unresolved=%d parked=%d cancelled-pending=%d", c29QuiesceTimeout, h.opIdx, what, unresolved, parked, cancelledPending)
		}
		if spin < 100 {
			runtime.Gosched()
		} else {
			time.Sleep(20 * time.Microsecond)
		}
	}
}

func (h *c29QH) parkedWaiters() []*c29QW {
	var r []*c29QW
	for _, w := range h.ws {
		if w.state.Load() == 0 && !w.cancelled {
			r = append(r, w)
		}
	}
	return r
}

// headWaiter: the waiter the implementation would grant next (scheduling aid only, not an oracle).
func (h *c29QH) headWaiter() *c29QW {
	tok := ""
	h.q.mx.Lock()
	if m := h.q.waitingUsersByPriority.Min(); m != nil {
		tok = m.(*user).token
	}
	h.q.mx.Unlock()
	for _, w := range h.parkedWaiters() {
		if c29QName(w.user) == tok {
			return w
		}
	}
	return nil
}

type c29QIssue struct {
	acts     []func() // non-blocking actions
	releases int64
	acquires int
	cancels  int
	capOld   int64
	capNew   int64
	capSet   bool
}

func (h *c29QH) plan(op c29QOp, is *c29QIssue, start <-chan struct{}) {
	switch op.K {
	case "acq":
		ctx, cancel := context.WithCancel(context.Background())
		w := &c29QW{id: h.nextID, user: op.U, cancel: cancel}
		h.nextID++
		if op.Dead {
			cancel()
			w.cancelled = true
			h.cls["acquire-with-dead-ctx"] = true
		}
		h.ws = append(h.ws, w)
		is.acquires++
		q, name := h.q, c29QName(op.U)
		run := func() {
			if start != nil {
				<-start
			}
			if err := q.Acquire(ctx, name); err == nil {
				w.state.Store(1)
			} else {
				w.state.Store(2)
			}
		}
		if start != nil {
			go run() // parked on start; the barrier releases it
		} else {
			is.acts = append(is.acts, func() { go run() })
		}
	case "cancel":
		var w *c29QW
		if op.Pick < 0 {
			w = h.headWaiter()
		}
		if w == nil {
			pw := h.parkedWaiters()
			if len(pw) == 0 {
				h.cls["skipped-op"] = true
				return
			}
			p := op.Pick
			if p < 0 {
				p = 0
			}
			w = pw[p%len(pw)]
		}
		w.cancelled, w.cancelOp = true, h.opIdx
		is.cancels++
		is.acts = append(is.acts, func() { w.cancel() })
	case "rel":
		if h.active-is.releases <= 0 {
			h.cls["skipped-op"] = true
			return
		}
		is.releases++
		is.acts = append(is.acts, h.q.Release)
	case "cap":
		if is.capSet {
			h.cls["skipped-op"] = true
			return
		}
		is.capSet, is.capOld, is.capNew = true, h.cap, int64(op.N)
		n := uint64(op.N)
		is.acts = append(is.acts, func() { h.q.AdjustCapacity(n) })
	}
}

func (h *c29QH) step(op c29QOp) {
	t := h.t
	// state before
	before := map[int]bool{} // waiter id parked before the op
	usersBefore := map[int]bool{}
	for _, w := range h.ws {
		before[w.id] = true
		usersBefore[w.user] = true
	}
	aPre := h.active
	var is c29QIssue
	what := op.K
	if op.K == "race" {
		if op.B2B {
			for _, s := range op.Par {
				h.plan(s, &is, nil)
			}
			for _, a := range is.acts {
				a()
			}
		} else {
			start := make(chan struct{})
			for _, s := range op.Par {
				h.plan(s, &is, start)
			}
			var wg sync.WaitGroup
			for _, a := range is.acts {
				wg.Add(1)
				go func() { defer wg.Done(); <-start; a() }()
			}
			runtime.Gosched()
			close(start)
			wg.Wait()
		}
	} else {
		h.plan(op, &is, nil)
		for _, a := range is.acts {
			a()
		}
	}
	if is.capSet {
		h.cap = is.capNew
		if len(before) > 0 {
			h.nontriv = true
			if is.capNew > is.capOld {
				h.cls["cap-raised-with-waiters"] = true
			} else if is.capNew < is.capOld {
				h.cls["cap-lowered-with-waiters"] = true
			}
		}
		if is.capNew < aPre {
			h.cls["cap-lowered-below-active"] = true
		}
	}
	h.quiesce(what)

	// what happened
	var granted, failed []*c29QW
	keep := h.ws[:0:0]
	for _, w := range h.ws {
		switch w.state.Load() {
		case 1:
			granted = append(granted, w)
		case 2:
			failed = append(failed, w)
		default:
			keep = append(keep, w)
		}
	}
	h.ws = keep
	for _, w := range failed {
		if !w.cancelled {
			t.Fatalf("op %d (%s): Acquire of waiter %d (user %d) returned an error although its context was never cancelled", h.opIdx, what, w.id, w.user)
		}
		h.cls["cancelled-waiter-left"] = true
	}
	k := int64(len(granted))
	r := is.releases
	// (1) capacity: a grant never happens while active >= capacity
	capHi, capLo := h.cap, h.cap
	if is.capSet && op.K == "race" { // racing with the change: either value may have been in force
		if is.capOld > capHi {
			capHi = is.capOld
		}
		if is.capOld < capLo {
			capLo = is.capOld
		}
	}
	if k > 0 && aPre-r+k > capHi {
		t.Fatalf("op %d (%s): %d grant(s) with %d active after %d release(s) and capacity %d: active would be %d > capacity", h.opIdx, what, k, aPre-r, r, capHi, aPre-r+k)
	}
	h.active = aPre - r + k
	// (2) Observe() equals the number of granted and not yet released queries
	if obs, _ := h.q.Observe(); obs != h.active {
		t.Fatalf("op %d (%s): Observe()=%d but %d queries were granted and not released (capacity leaked or lost)", h.opIdx, what, obs, h.active)
	}
	// (3) a release that frees capacity grants a waiting query
	if r > 0 && is.acquires == 0 && len(h.ws) > 0 && k < r && h.active < capLo {
		t.Fatalf("op %d (%s): %d release(s) left %d active < capacity %d, %d queries still wait, but only %d were granted", h.opIdx, what, r, h.active, capLo, len(h.ws), k)
	}
	// (5) fairness: no user is granted twice while another user, waiting since before the first of the
	// two grants and not granted since, still waits
	grantsNow := map[int]int{}
	for _, w := range granted {
		grantsNow[w.user]++
	}
	stillWaiting := map[int]bool{}  // user has a parked waiter now
	continuous := map[int]bool{}    // user has a waiter parked both before and after this op
	for _, w := range h.ws {
		stillWaiting[w.user] = true
		if before[w.id] {
			continuous[w.user] = true
		}
	}
	for u, n := range grantsNow {
		first, had := h.lastGrant[u]
		if n >= 2 {
			first, had = h.opIdx, true // two grants inside this very op
		}
		if !had {
			continue
		}
		for v := range stillWaiting {
			if v == u || !continuous[v] {
				continue
			}
			since, ok := h.waitSince[v]
			if !ok || since >= first {
				continue
			}
			if lg, ok := h.lastGrant[v]; ok && lg >= first {
				continue
			}
			if _, nowToo := grantsNow[v]; nowToo {
				continue
			}
			t.Fatalf("op %d (%s): user %d granted again (previous grant at op %d) while user %d has been waiting since op %d without a grant", h.opIdx, what, u, first, v, since)
		}
	}
	for u := range grantsNow {
		h.lastGrant[u] = h.opIdx
	}
	for v := range stillWaiting {
		if _, ok := h.waitSince[v]; !ok || !continuous[v] {
			h.waitSince[v] = h.opIdx
		}
	}
	for v := range h.waitSince {
		if !stillWaiting[v] {
			delete(h.waitSince, v)
		}
	}
	// classes
	for _, w := range granted {
		if w.cancelled && before[w.id] && w.cancelOp == h.opIdx {
			h.cls["parked-waiter-cancelled-and-granted-in-one-step"] = true
		}
		if before[w.id] {
			h.cls["grant-from-queue"] = true
		} else {
			h.cls["grant-on-arrival"] = true
		}
	}
	if len(stillWaiting) >= 2 {
		h.cls["several-users-waiting"] = true
	}
	if len(h.ws) > len(stillWaiting) {
		h.cls["user-with-several-waiting"] = true
	}
	if op.K == "race" && is.cancels > 0 && len(before) > 0 && (r > 0 || is.capSet || is.acquires > 0) {
		h.nontriv = true
		h.cls["race-with-cancel"] = true
	}
	if h.active > h.cap {
		h.cls["active-above-capacity-after-lowering"] = true
	}
}

func c29QProp(t vpT, c c29QCase) (bool, []string) {
	h := &c29QH{t: t, q: NewQueue(int64(c.Cap)), cap: int64(c.Cap), lastGrant: map[int]int{}, waitSince: map[int]int{}, cls: map[string]bool{}}
	defer func() { // never leave goroutines behind, also on failure
		for _, w := range h.ws {
			w.cancel()
		}
	}()
	for i, op := range c.Ops {
		h.opIdx = i
		h.step(op)
	}
	// drain: cancel every waiter, release every grant; nothing may remain
	h.opIdx = len(c.Ops)
	for _, w := range h.ws {
		if !w.cancelled {
			w.cancelled = true
			w.cancel()
		}
	}
	h.quiesce("drain")
	for _, w := range h.ws {
		if w.state.Load() == 1 {
			h.active++ // cannot happen at quiescence (nobody grants during the drain) but would be a grant, not a leak
		}
	}
	h.ws = nil
	if obs, _ := h.q.Observe(); obs != h.active {
		t.Fatalf("drain: Observe()=%d but %d queries are granted and not released", obs, h.active)
	}
	for ; h.active > 0; h.active-- {
		h.q.Release()
	}
	h.q.mx.Lock()
	obs, nUsers, nPrio := h.q.activeQuery, len(h.q.waitingUsersByName), h.q.waitingUsersByPriority.Len()
	h.q.mx.Unlock()
	if obs != 0 || nUsers != 0 || nPrio != 0 {
		t.Fatalf("after cancelling all waiters and releasing all grants: active=%d, users by name=%d, users by priority=%d (want all 0)", obs, nUsers, nPrio)
	}
	var cls []string
	for k := range h.cls {
		cls = append(cls, k)
	}
	return h.nontriv, cls
}

func c29QGenSimple(t *rapid.T, nUsers int, inRace bool) c29QOp {
	hi := 99
	if inRace {
		hi = 84 // no nested race
	}
	x := rapid.IntRange(0, hi).Draw(t, "kind")
	switch {
	case x < 42:
		return c29QOp{K: "acq", U: rapid.IntRange(0, nUsers-1).Draw(t, "user"), Dead: !inRace && rapid.IntRange(0, 11).Draw(t, "dead") == 0}
	case x < 60:
		return c29QOp{K: "rel"}
	case x < 72:
		p := -1
		if rapid.Bool().Draw(t, "anyWaiter") {
			p = rapid.IntRange(0, 5).Draw(t, "pick")
		}
		return c29QOp{K: "cancel", Pick: p}
	case x < 85:
		return c29QOp{K: "cap", N: rapid.SampledFrom([]int{0, 1, 1, 1, 2, 2, 3, 4, 6}).Draw(t, "cap")}
	default:
		n := rapid.IntRange(2, 3).Draw(t, "npar")
		op := c29QOp{K: "race", B2B: rapid.Bool().Draw(t, "b2b")}
		if rapid.IntRange(0, 2).Draw(t, "shape") > 0 { // the interesting shape: a cancel racing a release or an arrival
			op.Par = append(op.Par, c29QOp{K: "cancel", Pick: -1})
			if rapid.IntRange(0, 3).Draw(t, "with") > 0 {
				op.Par = append(op.Par, c29QOp{K: "rel"})
			} else {
				op.Par = append(op.Par, c29QOp{K: "acq", U: rapid.IntRange(0, nUsers-1).Draw(t, "user")})
			}
			n -= 2
		}
		for i := 0; i < n; i++ {
			op.Par = append(op.Par, c29QGenSimple(t, nUsers, true))
		}
		return op
	}
}

func c29QGen() *rapid.Generator[c29QCase] {
	return rapid.Custom(func(t *rapid.T) c29QCase {
		c := c29QCase{Cap: rapid.SampledFrom([]int{1, 1, 1, 2, 2, 3}).Draw(t, "cap0")}
		nUsers := rapid.IntRange(1, 4).Draw(t, "users")
		opGen := rapid.Custom(func(t *rapid.T) c29QOp { return c29QGenSimple(t, nUsers, false) })
		c.Ops = rapid.SliceOfN(opGen, 1, 40).Draw(t, "ops")
		return c
	})
}

func TestVerifC29Queue(t *testing.T) {
	ev := vpNewEv(t, "C29", "queue")
	rapid.Check(t, func(rt *rapid.T) {
		c := c29QGen().Draw(rt, "case")
		vpRunCase(rt, "C29", "queue", c, func() {
			nt, cls := c29QProp(rt, c)
			ev.Case(nt, c, cls...)
		})
	})
}

func init() {
	vpReplayers["C29/queue"] = func(t vpT, raw json.RawMessage) {
		var c c29QCase
		if err := json.Unmarshal(raw, &c); err != nil {
			t.Fatalf("decode: %v", err)
		}
		c29QProp(t, c)
	}
}
