//go:build verif

package parser

import (
	"encoding/json"
	"fmt"
	"math"
	"regexp"
	"sort"
	"strconv"
	"strings"
	"testing"
	"unicode/utf8"

	"github.com/prometheus/prometheus/model/labels"
	"pgregory.net/rapid"
)

// ---------- C28: PromQL print/parse round trip, parser never panics ----------
//
// The case is the query text. Oracle (written from the statement, not from the printer):
//   ParseExpr(s) ok  =>  String() does not panic and does not modify the tree,
//                        ParseExpr(String()) ok,
//                        both trees have the same canonical dump (positions ignored, matcher list compared as a
//                        set, nil == empty list), and String() of the second tree is the same text (fixpoint).
//   any s            =>  ParseExpr returns; a recovered runtime panic (errUnexpected) counts as a panic;
//                        err == nil implies a non-nil expression.

type c28Case struct {
	S string `json:"s"`           // query text (lossy in JSON when it is not valid UTF-8)
	B []byte `json:"b,omitempty"` // exact bytes, only set when S is not valid UTF-8
}

func c28Mk(s string) c28Case {
	if utf8.ValidString(s) {
		return c28Case{S: s}
	}
	return c28Case{S: s, B: []byte(s)}
}

func (c c28Case) text() string {
	if c.B != nil {
		return string(c.B)
	}
	return c.S
}

// ---- canonical dump: every field the parser fills, positions excluded ----

func c28List(l []string) string {
	return "[" + strings.Join(l, ",") + "]"
}

func c28Ts(p *int64) string {
	if p == nil {
		return "-"
	}
	return strconv.FormatInt(*p, 10)
}

func c28Matchers(ms []*labels.Matcher) string {
	set := map[string]bool{}
	for _, m := range ms {
		if m == nil {
			set["<nil>"] = true
			continue
		}
		set[fmt.Sprintf("%q %d %q", m.Name, int(m.Type), m.Value)] = true
	}
	l := make([]string, 0, len(set))
	for k := range set {
		l = append(l, k)
	}
	sort.Strings(l)
	return "{" + strings.Join(l, "; ") + "}"
}

func c28Dump(sb *strings.Builder, e Expr) {
	switch n := e.(type) {
	case nil:
		sb.WriteString("<nil>")
	case *AggregateExpr:
		fmt.Fprintf(sb, "Agg(op=%s without=%v by=%s param=", n.Op, n.Without, c28List(n.Grouping))
		c28Dump(sb, n.Param)
		sb.WriteString(" expr=")
		c28Dump(sb, n.Expr)
		sb.WriteString(")")
	case *BinaryExpr:
		fmt.Fprintf(sb, "Bin(op=%s bool=%v vm=", n.Op, n.ReturnBool)
		if vm := n.VectorMatching; vm == nil {
			sb.WriteString("-")
		} else {
			fmt.Fprintf(sb, "{card=%d on=%v labels=%s include=%s}", int(vm.Card), vm.On, c28List(vm.MatchingLabels), c28List(vm.Include))
		}
		sb.WriteString(" lhs=")
		c28Dump(sb, n.LHS)
		sb.WriteString(" rhs=")
		c28Dump(sb, n.RHS)
		sb.WriteString(")")
	case *Call:
		name := "<nil>"
		if n.Func != nil {
			name = n.Func.Name
		}
		fmt.Fprintf(sb, "Call(%s", name)
		for _, a := range n.Args {
			sb.WriteString(", ")
			c28Dump(sb, a)
		}
		sb.WriteString(")")
	case *MatrixSelector:
		fmt.Fprintf(sb, "Matrix(range=%d vs=", n.Range)
		c28Dump(sb, n.VectorSelector)
		sb.WriteString(")")
	case *SubqueryExpr:
		fmt.Fprintf(sb, "Subq(range=%d step=%d offset=%d evaloffset=%d ts=%s se=%d expr=", n.Range, n.Step, n.OriginalOffset, n.Offset, c28Ts(n.Timestamp), int(n.StartOrEnd))
		c28Dump(sb, n.Expr)
		sb.WriteString(")")
	case *NumberLiteral:
		if math.IsNaN(n.Val) {
			sb.WriteString("Num(NaN)")
		} else {
			fmt.Fprintf(sb, "Num(%016x)", math.Float64bits(n.Val))
		}
	case *ParenExpr:
		sb.WriteString("Paren(")
		c28Dump(sb, n.Expr)
		sb.WriteString(")")
	case *StringLiteral:
		fmt.Fprintf(sb, "Str(%q)", n.Val)
	case *UnaryExpr:
		fmt.Fprintf(sb, "Unary(%s ", n.Op)
		c28Dump(sb, n.Expr)
		sb.WriteString(")")
	case *VectorSelector:
		ex := make([]string, len(n.OriginalOffsetEx))
		for i, v := range n.OriginalOffsetEx {
			ex[i] = strconv.FormatInt(v, 10)
		}
		fmt.Fprintf(sb, "Sel(name=%q offset=%d offsets=%s ts=%s se=%d m=%s)", n.Name, n.OriginalOffset, c28List(ex), c28Ts(n.Timestamp), int(n.StartOrEnd), c28Matchers(n.LabelMatchers))
	default:
		fmt.Fprintf(sb, "<%T>", e)
	}
}

func c28DumpStr(e Expr) string {
	var sb strings.Builder
	c28Dump(&sb, e)
	return sb.String()
}

// c28Shape walks the tree (own walker, not parser.Children) and returns depth and class labels.
func c28Shape(e Expr, cls map[string]bool) int {
	switch n := e.(type) {
	case *AggregateExpr:
		cls["agg"] = true
		switch n.Op {
		case SORT, SORT_DESC, DROP_EMPTY_SERIES, AGGREGATE:
			cls["ext:agg-op"] = true
		}
		if n.Without {
			cls["without"] = true
		} else if len(n.Grouping) > 0 {
			cls["by"] = true
		}
		for _, g := range n.Grouping {
			if g[0] >= '0' && g[0] <= '9' {
				cls["ext:numeric-label"] = true
			}
		}
		d := c28Shape(n.Expr, cls)
		if n.Param != nil {
			cls["agg-param"] = true
			if dp := c28Shape(n.Param, cls); dp > d {
				d = dp
			}
		}
		return d + 1
	case *BinaryExpr:
		cls["binary"] = true
		if n.Op == LDEFAULT {
			cls["ext:default-op"] = true
		}
		if n.ReturnBool {
			cls["bool"] = true
		}
		if vm := n.VectorMatching; vm != nil {
			if vm.On {
				cls["on"] = true
			} else if len(vm.MatchingLabels) > 0 {
				cls["ignoring"] = true
			}
			if vm.Card != CardOneToOne {
				cls["group-left-right"] = true
				if !vm.On && len(vm.MatchingLabels) == 0 {
					cls["group-mod-with-empty-ignoring"] = true
				}
			}
		}
		_, lb := n.LHS.(*BinaryExpr)
		_, rb := n.RHS.(*BinaryExpr)
		if lb || rb {
			cls["nested-binary-no-paren"] = true
		}
		d := c28Shape(n.LHS, cls)
		if dr := c28Shape(n.RHS, cls); dr > d {
			d = dr
		}
		return d + 1
	case *Call:
		cls["call"] = true
		d := 0
		for _, a := range n.Args {
			if da := c28Shape(a, cls); da > d {
				d = da
			}
		}
		return d + 1
	case *MatrixSelector:
		cls["matrix"] = true
		return c28Shape(n.VectorSelector, cls) + 1
	case *SubqueryExpr:
		cls["subquery"] = true
		if n.Step != 0 {
			cls["subquery-step"] = true
		}
		if n.OriginalOffset != 0 {
			cls["subquery-offset"] = true
		}
		if n.Timestamp != nil || n.StartOrEnd != 0 {
			cls["subquery-at"] = true
		}
		return c28Shape(n.Expr, cls) + 1
	case *NumberLiteral:
		cls["number"] = true
		if math.IsNaN(n.Val) || math.IsInf(n.Val, 0) {
			cls["number-nan-inf"] = true
		}
		if n.Val < 0 || math.Signbit(n.Val) {
			cls["number-negative"] = true
		}
		return 1
	case *ParenExpr:
		cls["paren"] = true
		return c28Shape(n.Expr, cls) + 1
	case *StringLiteral:
		cls["string"] = true
		if strings.ContainsAny(n.Val, "\"\\\n'`") {
			cls["string-needs-escape"] = true
		}
		if !utf8.ValidString(n.Val) {
			cls["string-invalid-utf8"] = true
		}
		return 1
	case *UnaryExpr:
		cls["unary"] = true
		return c28Shape(n.Expr, cls) + 1
	case *VectorSelector:
		cls["selector"] = true
		if n.OriginalOffset > 0 {
			cls["offset"] = true
		} else if n.OriginalOffset < 0 {
			cls["offset-negative"] = true
		}
		if len(n.OriginalOffsetEx) > 0 {
			cls["ext:offset-list"] = true
		}
		if n.Timestamp != nil {
			cls["at-timestamp"] = true
		}
		if n.StartOrEnd != 0 {
			cls["at-start-end"] = true
		}
		if n.Name == "" {
			cls["selector-no-name"] = true
		}
		if _, ok := key[strings.ToLower(n.Name)]; ok {
			cls["keyword-as-metric-name"] = true
		}
		nameMatchers := 0
		for _, m := range n.LabelMatchers {
			if m == nil {
				continue
			}
			switch {
			case m.Name == "__bind__":
				cls["ext:bind"] = true
			case m.Name == labels.MetricName:
				nameMatchers++
			case strings.HasPrefix(m.Name, "__") && strings.HasSuffix(m.Name, "__") && len(m.Name) > 4:
				cls["ext:internal-matcher"] = true
			case m.Name != "" && m.Name[0] >= '0' && m.Name[0] <= '9':
				cls["ext:numeric-label"] = true
			}
			if m.Type == labels.MatchRegexp || m.Type == labels.MatchNotRegexp {
				cls["regex-matcher"] = true
			}
			if strings.ContainsAny(m.Value, "\"\\\n") {
				cls["matcher-value-needs-escape"] = true
			}
		}
		if nameMatchers > 1 {
			cls["several-name-matchers"] = true
		}
		if len(n.LabelMatchers) >= 3 {
			cls["matchers>=3"] = true
		}
		return 1
	}
	return 1
}

func c28Classes(m map[string]bool) []string {
	l := make([]string, 0, len(m))
	for k := range m {
		l = append(l, k)
	}
	sort.Strings(l)
	return l
}

// ---- listed finding (known_findings.json): "subsecond-duration" ----
//
// Signature, all three must hold:
//   (1) the input text contains a duration literal whose total is below 500 ms (it rounds to 0 s),
//   (2) the parsed tree carries a zero where the grammar only admits durations > 0: a matrix or subquery range of 0, or a 0
//       element in an offset list,
//   (3) the round trip fails exactly because the printed "0s" is rejected ("duration must be greater than 0").
// Any other failure of such a case is still a violation.

var c28DurRe = regexp.MustCompile(`(?:[0-9]+(?:ms|[smhdwy]))+`)
var c28DurPartRe = regexp.MustCompile(`([0-9]+)(ms|[smhdwy])`)

func c28HasSubsecondLiteral(src string) bool {
	unit := map[string]float64{"ms": 1, "s": 1e3, "m": 60e3, "h": 3600e3, "d": 86400e3, "w": 7 * 86400e3, "y": 365 * 86400e3}
	for _, lit := range c28DurRe.FindAllString(src, -1) {
		total := 0.0
		for _, m := range c28DurPartRe.FindAllStringSubmatch(lit, -1) {
			n, _ := strconv.ParseFloat(m[1], 64)
			total += n * unit[m[2]]
		}
		if total < 500 {
			return true
		}
	}
	return false
}

func c28HasZeroDuration(e Expr) bool {
	found := false
	var walk func(e Expr)
	walk = func(e Expr) {
		switch n := e.(type) {
		case *AggregateExpr:
			walk(n.Expr)
			if n.Param != nil {
				walk(n.Param)
			}
		case *BinaryExpr:
			walk(n.LHS)
			walk(n.RHS)
		case *Call:
			for _, a := range n.Args {
				walk(a)
			}
		case *MatrixSelector:
			if n.Range == 0 {
				found = true
			}
			walk(n.VectorSelector)
		case *SubqueryExpr:
			if n.Range == 0 {
				found = true
			}
			walk(n.Expr)
		case *ParenExpr:
			walk(n.Expr)
		case *UnaryExpr:
			walk(n.Expr)
		case *VectorSelector:
			for _, o := range n.OriginalOffsetEx {
				if o == 0 {
					found = true
				}
			}
		}
	}
	walk(e)
	return found
}

func c28KnownSubsecond(src string, p1 Expr, printed string, err error) bool {
	return c28HasSubsecondLiteral(src) && c28HasZeroDuration(p1) &&
		strings.Contains(err.Error(), "duration must be greater than 0") && strings.Contains(printed, "0s")
}

// c28Known: true when sig is listed in known_findings.json (recorded in the evidence when a collector is available).
func c28Known(ev *vpEvidence, sig, what string) bool {
	if !vpKnownListed("C28", sig) {
		return false
	}
	if ev != nil {
		ev.Known(sig, what)
	}
	return true
}

// c28Prop: strict=false is used for arbitrary strings (a rejected string is fine).
func c28Prop(t vpT, c c28Case, ev *vpEvidence) (nontrivial bool, classes []string) {
	cls := map[string]bool{}
	src := c.text()
	p1, err := ParseExpr(src)
	if err == errUnexpected {
		t.Fatalf("parser panicked (recovered runtime error) on %q", src)
	}
	if err != nil {
		_ = err.Error() // formatting the error must not panic either
		return false, []string{"rejected"}
	}
	if p1 == nil {
		t.Fatalf("ParseExpr(%q) returned neither an expression nor an error", src)
	}
	d1 := c28DumpStr(p1)
	depth := c28Shape(p1, cls)
	s1 := p1.String()
	if d := c28DumpStr(p1); d != d1 {
		t.Fatalf("String() modified the tree of %q:\n before %s\n after  %s", src, d1, d)
	}
	if s1b := p1.String(); s1b != s1 {
		t.Fatalf("String() not deterministic for %q: %q then %q", src, s1, s1b)
	}
	p2, err := ParseExpr(s1)
	if err != nil && c28KnownSubsecond(src, p1, s1, err) && c28Known(ev, "subsecond-duration",
		"a duration that rounds to 0 s (e.g. m[0s400ms]) is accepted, printed as 0s and rejected on re-parse") {
		cls["accepted"] = true
		return false, c28Classes(cls)
	}
	if err != nil || p2 == nil {
		t.Fatalf("accepted %q prints as %q which does not parse: %v\n tree %s", src, s1, err, d1)
	}
	d2 := c28DumpStr(p2)
	if d1 != d2 {
		t.Fatalf("accepted %q prints as %q which parses to a different tree:\n first  %s\n second %s", src, s1, d1, d2)
	}
	if s2 := p2.String(); s2 != s1 {
		t.Fatalf("String() is not a fixpoint for %q: %q then %q", src, s1, s2)
	}
	ext := false
	for k := range cls {
		if strings.HasPrefix(k, "ext:") {
			ext = true
		}
	}
	if depth >= 3 {
		cls["depth>=3"] = true
	}
	if depth >= 6 {
		cls["depth>=6"] = true
	}
	cls["accepted"] = true
	return depth >= 3 || ext, c28Classes(cls)
}

// ---------- grammar generator (produces text) ----------

type c28g struct {
	t   *rapid.T
	sb  strings.Builder
	bkt bool // inside [ ]: no comments
}

// rapid's integer generators are deliberately biased towards small values (a geometric choice of the bit length), which
// would distort every probability below; u scrambles a wide draw into a near-uniform one. 0 stays 0, so shrinking still
// moves towards the first alternative / "false".
func c28U(t *rapid.T, n int, label string) int {
	x := uint64(rapid.IntRange(0, 1<<24).Draw(t, label))
	x *= 0x9E3779B97F4A7C15
	x ^= x >> 29
	return int(x % uint64(n))
}

func (g *c28g) n(lo, hi int, label string) int { return lo + c28U(g.t, hi-lo+1, label) }
func (g *c28g) p(percent int) bool              { return c28U(g.t, 100, "p") >= 100-percent }
func (g *c28g) pick(l []string) string          { return l[c28U(g.t, len(l), "pick")] }

func c28Alnum(b byte) bool {
	return b == '_' || b == ':' || b == '.' || (b >= '0' && b <= '9') || (b >= 'a' && b <= 'z') || (b >= 'A' && b <= 'Z')
}

var c28Gaps = []string{" ", " ", " ", " ", "  ", "\t", "\n", " \r\n", " # c\n", "#x{(\"\n"}

// tok appends a token, separated from the previous one by generated white space (or nothing where safe).
func (g *c28g) tok(s string) {
	cur := g.sb.String()
	if len(cur) > 0 && len(s) > 0 {
		need := c28Alnum(cur[len(cur)-1]) && c28Alnum(s[0])
		k := g.n(0, 11, "gap")
		switch {
		case k <= 5 && !need:
			// tight
		case k >= 10 && !g.bkt:
			g.sb.WriteString(c28Gaps[g.n(0, len(c28Gaps)-1, "gapkind")])
		default:
			g.sb.WriteString(" ")
		}
	}
	g.sb.WriteString(s)
}

// kw: keywords are case-insensitive
func (g *c28g) kw(s string) {
	switch g.n(0, 9, "kwcase") {
	case 0:
		s = strings.ToUpper(s)
	case 1:
		s = strings.ToUpper(s[:1]) + s[1:]
	}
	g.tok(s)
}

var (
	c28Names      = []string{"m", "foo", "bar", "http_requests_total", "a1", "_x", "job:rate5m", ":r", "x:y:z", "Foo"}
	c28KwNames    = []string{"sum", "avg", "count", "min", "max", "group", "stddev", "stdvar", "topk", "bottomk", "count_values", "quantile", "sort", "sort_desc", "drop_empty_series", "offset", "by", "without", "and", "or", "unless", "start", "end", "SUM", "By"}
	c28Labels     = []string{"a", "b", "host", "key0", "__what__", "__by__", "le", "_", "Env", "0", "1", "15", "2x", "47"}
	c28KwLabels   = []string{"sum", "bool", "by", "on", "ignoring", "group_left", "group_right", "offset", "and", "or", "unless", "atan2", "start", "end", "avg", "inf", "nan", "1e5", "0x1f"}
	c28Internal   = []string{"what", "by", "name", "bind", "maxhost", "x"}
	c28Vars       = []string{"v", "var1", "_env", "sum", "0", "host"}
	c28Regex      = []string{"a.*", "^x$", "(a|b)+", "[0-9]{2,}", "\\d+", "", "a\\.b", ".+", "x|y", "[\"']", "\\\\", "a.*", "prod|stag.*", "(?i)x", "("}
	c28BinOps     = []string{"+", "-", "*", "/", "%", "^", "==", "!=", "<", "<=", ">", ">=", "and", "or", "unless", "default", "atan2"}
	c28AggOps     = []string{"sum", "avg", "count", "min", "max", "group", "stddev", "stdvar", "topk", "bottomk", "count_values", "quantile", "sort", "sort_desc", "drop_empty_series", "dbag"}
	c28Units      = []string{"ms", "s", "m", "h", "d", "w", "y"}
	c28UnitOrder  = []string{"y", "w", "d", "h", "m", "s", "ms"}
	c28Numbers    = []string{"0", "1", "2", "42", "1000", "3.14", ".5", "1.", "0.001", "1e3", "1E-3", "2.5e+10", "1e300", "1e-320", "0x1F", "0X1f", "0xabcdef", "017", "00", "Inf", "inf", "INF", "NaN", "nan", "99999999999999999999", "9223372036854775807", "9223372036854775808", "1e21", "123456789012345678", "0.1", "1e+06", "4.9e-324"}
	c28StrPieces  = []string{"a", "b", "xyz", " ", "\"", "'", "`", "\\", "\n", "\t", "\r", "\x00", "\x7f", "é", "ж", "漢", "\u200b", "\U0001f600", "\xff", "\xc3", "{", "}", "$", "%s", "\\n"}
	c28FuncNames  []string
	c28SimpleVals = []string{"", "x", "prod", "a b", "0", "-1", " 1", "__all__"}
)

func init() {
	for k := range Functions {
		c28FuncNames = append(c28FuncNames, k)
	}
	sort.Strings(c28FuncNames)
}

func (g *c28g) labelName() string {
	if g.p(15) {
		return g.pick(c28KwLabels)
	}
	return g.pick(c28Labels)
}

// strLit produces the source text of a string literal with value built from pieces.
func (g *c28g) strLit(val string) string {
	style := g.n(0, 9, "quote")
	switch {
	case style == 0 && !strings.Contains(val, "`"):
		return "`" + val + "`"
	case style <= 3:
		return g.quote(val, '\'')
	default:
		return g.quote(val, '"')
	}
}

func (g *c28g) quote(val string, q byte) string {
	var sb strings.Builder
	sb.WriteByte(q)
	for i := 0; i < len(val); i++ {
		b := val[i]
		alt := g.n(0, 15, "esc")
		switch {
		case b == q || b == '\\':
			if alt == 0 {
				fmt.Fprintf(&sb, "\\x%02x", b)
			} else {
				sb.WriteByte('\\')
				sb.WriteByte(b)
			}
		case b == '\n':
			if alt == 0 {
				sb.WriteString("\\012")
			} else {
				sb.WriteString("\\n")
			}
		case b == '\t' && alt < 8:
			sb.WriteString("\\t")
		case b == '\r' && alt < 8:
			sb.WriteString("\\r")
		case alt == 1:
			fmt.Fprintf(&sb, "\\x%02X", b)
		case alt == 2:
			fmt.Fprintf(&sb, "\\%03o", b)
		case alt == 3 && b < 0x80:
			fmt.Fprintf(&sb, "\\u%04x", b)
		case alt == 4 && b < 0x80:
			fmt.Fprintf(&sb, "\\U%08x", b)
		default:
			sb.WriteByte(b)
		}
	}
	sb.WriteByte(q)
	return sb.String()
}

func (g *c28g) strVal() string {
	if g.p(50) {
		return g.pick(c28SimpleVals)
	}
	k := g.n(0, 5, "npieces")
	var sb strings.Builder
	for i := 0; i < k; i++ {
		sb.WriteString(g.pick(c28StrPieces))
	}
	return sb.String()
}

func (g *c28g) number() string {
	switch g.n(0, 5, "numkind") {
	case 0, 1, 2:
		return g.pick(c28Numbers)
	case 3:
		return strconv.FormatInt(int64(g.n(0, 1<<40, "int")), 10)
	case 4:
		f := rapid.Float64Range(0, 1e12).Draw(g.t, "float")
		return strconv.FormatFloat(f, []byte("feg")[g.n(0, 2, "fmt")], -1, 64)
	default:
		f := math.Abs(rapid.Float64().Draw(g.t, "anyfloat"))
		return strconv.FormatFloat(f, 'g', -1, 64)
	}
}

func (g *c28g) duration() string {
	switch k := g.n(0, 29, "durkind"); {
	case k < 15:
		return strconv.Itoa(g.n(1, 90, "dn")) + g.pick([]string{"s", "m", "h", "d"})
	case k < 19:
		return strconv.Itoa(g.n(1, 5000, "dn")) + g.pick([]string{"s", "m", "h", "d", "w", "y"})
	case k < 24: // compound, units in the required order ("ms" is only lexed after another unit)
		var sb strings.Builder
		for _, u := range c28UnitOrder {
			if g.p(35) && (u != "ms" || sb.Len() > 0) {
				sb.WriteString(strconv.Itoa(g.n(0, 70, "dn")) + u)
			}
		}
		if sb.Len() == 0 {
			return "1h30m"
		}
		return sb.String()
	case k < 28:
		return g.pick([]string{"2s500ms", "1s", "1y", "52w", "365d", "100y", "5m0s", "90m", "1h30m", "1s1ms", "0d1s", "0s999ms", "0s500ms", "1s499ms", "1s500ms"})
	case k < 29: // zero after rounding, overflow, unit the lexer does not take alone
		return g.pick([]string{"0s", "0m", "0s400ms", "0d1ms", "500ms", "5000y", "300y"})
	default:
		return g.pick([]string{"5", "1.5", "5x", "1h1h", "1m1h", "5M"}) // not durations
	}
}

func (g *c28g) offsetValue(percentNeg int) {
	if g.p(percentNeg) {
		g.tok("-")
	}
	g.tok(g.duration())
}

// modifiers appends offset / @ modifiers. list: offset lists make sense (only vector selectors keep them)
func (g *c28g) modifiers() {
	k := g.n(0, 9, "nmods")
	cnt := 0
	switch {
	case k <= 4:
		cnt = 0
	case k <= 7:
		cnt = 1
	case k == 8:
		cnt = 2
	default:
		cnt = 3
	}
	usedOff, usedAt := false, false
	for i := 0; i < cnt; i++ {
		off := g.p(55)
		// mostly avoid duplicates (rejected), sometimes allow them
		if off && usedOff && !g.p(10) {
			off = false
		}
		if !off && usedAt && !g.p(10) {
			if usedOff {
				return
			}
			off = true
		}
		if off {
			usedOff = true
			g.kw("offset")
			if g.p(35) {
				g.tok("[")
				g.bkt = true
				n := g.n(1, 4, "nlist")
				for j := 0; j < n; j++ {
					if j > 0 {
						g.tok(",")
					}
					if j == 0 {
						g.offsetValue(3) // the lexer expects a duration right after '[': a leading '-' is rejected
					} else {
						g.offsetValue(35)
					}
				}
				g.tok("]")
				g.bkt = false
			} else {
				g.offsetValue(35)
			}
			continue
		}
		usedAt = true
		g.tok("@")
		switch g.n(0, 9, "atkind") {
		case 0, 1:
			g.kw("start")
			g.tok("(")
			g.tok(")")
		case 2, 3:
			g.kw("end")
			g.tok("(")
			g.tok(")")
		case 4:
			g.tok(g.pick([]string{"+", "-"}))
			g.tok(g.pick([]string{"1", "1.5", "1700000000", "0.0004", "0.0005", "123456.789", "0"}))
		case 5:
			g.tok(strconv.FormatFloat(float64(g.n(0, 4000000000000, "tsms"))/1000, 'f', -1, 64))
		case 6:
			g.tok(g.pick([]string{"1e9", "1e12", "0x10", "1.0005", "2.9999", "1e-9", "1e9", "017", "1.", ".5", "3e3", "1e12", "Inf", "NaN", "1e19", "9e15"}))
		default:
			g.tok(strconv.Itoa(g.n(0, 2000000000, "ts")))
		}
	}
}

func (g *c28g) matcher() {
	switch g.n(0, 11, "mkind") {
	case 0, 1: // StatsHouse: @name op "v"  -> __name__
		g.tok("@")
		g.tok(g.pick(c28Internal))
		g.tok(g.pick([]string{"=", "!=", "=~", "!~"}))
		g.tok(g.strLit(g.pick([]string{"count", "sum", "avg", "p99", "0,1", "", "x.*"})))
	case 2, 3: // StatsHouse: label:$var binding
		g.tok(g.labelName())
		g.tok(":")
		g.tok("$")
		g.tok(g.pick(c28Vars))
	case 4, 5: // regex
		g.tok(g.labelName())
		g.tok(g.pick([]string{"=~", "!~"}))
		g.tok(g.strLit(g.pick(c28Regex)))
	case 6:
		g.tok("__name__")
		g.tok(g.pick([]string{"=", "=", "!=", "=~"}))
		g.tok(g.strLit(g.pick([]string{"foo", "m", "bar", "", "a b", "sum"})))
	default:
		g.tok(g.labelName())
		g.tok(g.pick([]string{"=", "=", "!="}))
		g.tok(g.strLit(g.strVal()))
	}
}

func (g *c28g) metricName() string {
	if g.p(12) {
		return g.pick(c28KwNames)
	}
	return g.pick(c28Names)
}

func (g *c28g) selectorBase() {
	named := !g.p(12)
	if named {
		g.tok(g.metricName())
	}
	if !named || g.p(65) {
		g.tok("{")
		n := g.n(0, 4, "nmatchers")
		if !named && n == 0 && !g.p(10) {
			n = 1
		}
		for i := 0; i < n; i++ {
			if i > 0 {
				g.tok(",")
			}
			g.matcher()
		}
		if n > 0 && g.p(10) {
			g.tok(",")
		}
		g.tok("}")
	}
}

func (g *c28g) rangeSuffix(subquery bool) {
	g.tok("[")
	g.bkt = true
	g.tok(g.duration())
	if subquery || g.p(20) {
		g.tok(":")
		if g.p(50) {
			g.tok(g.duration())
		}
	}
	g.tok("]")
	g.bkt = false
}

func (g *c28g) selector() {
	g.selectorBase()
	g.modifiers()
}

func (g *c28g) matrix() {
	g.selectorBase()
	g.rangeSuffix(false)
	g.modifiers()
}

func (g *c28g) groupingLabels() {
	g.tok("(")
	n := g.n(0, 3, "nlabels")
	for i := 0; i < n; i++ {
		if i > 0 {
			g.tok(",")
		}
		g.tok(g.labelName())
	}
	if n > 0 && g.p(10) {
		g.tok(",")
	}
	g.tok(")")
}

func (g *c28g) aggModifier() {
	if g.p(50) {
		g.kw("by")
	} else {
		g.kw("without")
	}
	g.groupingLabels()
}

func (g *c28g) aggregate(depth int) {
	op := g.pick(c28AggOps)
	g.kw(op)
	pos := g.n(0, 3, "modpos") // 0 none, 1 before, 2 after, 3 none
	if pos == 1 {
		g.aggModifier()
	}
	g.tok("(")
	switch op {
	case "topk", "bottomk", "quantile":
		if g.p(80) {
			g.tok(g.number())
		} else {
			g.expr(depth - 2)
		}
		g.tok(",")
	case "count_values":
		g.tok(g.strLit(g.pick([]string{"v", "value", "a b", ""})))
		g.tok(",")
	}
	g.expr(depth - 1)
	g.tok(")")
	if pos == 2 {
		g.aggModifier()
	}
}

func (g *c28g) arg(typ ValueType, depth int) {
	switch typ {
	case ValueTypeMatrix:
		if g.p(70) {
			g.matrix()
		} else {
			g.subquery(depth - 1)
		}
	case ValueTypeScalar:
		if g.p(80) {
			if g.p(25) {
				g.tok("-")
			}
			g.tok(g.number())
		} else {
			g.expr(depth - 1)
		}
	case ValueTypeString:
		g.tok(g.strLit(g.strVal()))
	default:
		g.expr(depth - 1)
	}
}

func (g *c28g) call(depth int) {
	name := g.pick(c28FuncNames)
	f := Functions[name]
	g.tok(name)
	g.tok("(")
	n := len(f.ArgTypes)
	if f.Variadic > 0 && n > 0 {
		n -= g.n(0, f.Variadic, "fewer")
		if n < 0 {
			n = 0
		}
	} else if f.Variadic < 0 {
		n += g.n(0, 3, "more")
	}
	if g.p(5) {
		n = g.n(0, 3, "arity") // the parser does not check arity
	}
	for i := 0; i < n; i++ {
		if i > 0 {
			g.tok(",")
		}
		var typ ValueType = ValueTypeVector
		if len(f.ArgTypes) > 0 {
			j := i
			if j >= len(f.ArgTypes) {
				j = len(f.ArgTypes) - 1
			}
			typ = f.ArgTypes[j]
		}
		g.arg(typ, depth)
	}
	g.tok(")")
}

func (g *c28g) subquery(depth int) {
	switch g.n(0, 5, "subqbase") {
	case 0, 1:
		g.tok("(")
		g.expr(depth - 1)
		g.tok(")")
	case 2:
		g.call(depth - 1)
	case 3:
		g.aggregate(depth - 1)
	case 4:
		g.matrix() // range of a range: accepted as a subquery over a matrix selector
	default:
		g.tok(g.number())
	}
	g.rangeSuffix(true)
	g.modifiers()
}

func (g *c28g) binModifier() {
	k := g.n(0, 19, "binmod")
	if k < 11 {
		return
	}
	if k == 11 || k == 12 || g.p(15) {
		g.kw("bool")
		if k <= 12 {
			return
		}
	}
	if g.p(50) {
		g.kw("on")
	} else {
		g.kw("ignoring")
	}
	g.groupingLabels()
	if g.p(40) {
		if g.p(50) {
			g.kw("group_left")
		} else {
			g.kw("group_right")
		}
		if g.p(85) {
			g.groupingLabels()
		}
	}
}

func (g *c28g) binary(depth int) {
	g.expr(depth - 1)
	n := 1
	if g.p(30) {
		n = g.n(2, 3, "chain") // a op b op c without parentheses: precedence and associativity decide
	}
	for i := 0; i < n; i++ {
		op := g.pick(c28BinOps)
		if op[0] >= 'a' && op[0] <= 'z' {
			g.kw(op)
		} else {
			g.tok(op)
		}
		g.binModifier()
		g.expr(depth - 1 - i)
	}
}

func (g *c28g) leaf() {
	switch k := g.n(0, 19, "leaf"); {
	case k < 11:
		g.selector()
	case k < 16:
		g.tok(g.number())
	case k < 17:
		g.tok(g.strLit(g.strVal()))
	default:
		g.matrix()
	}
}

func (g *c28g) expr(depth int) {
	if depth <= 0 {
		g.leaf()
		return
	}
	switch k := g.n(0, 99, "kind"); {
	case k < 25:
		g.binary(depth)
	case k < 40:
		g.aggregate(depth)
	case k < 55:
		g.call(depth)
	case k < 65:
		g.tok("(")
		g.expr(depth - 1)
		g.tok(")")
	case k < 72:
		g.tok(g.pick([]string{"-", "-", "+"}))
		g.expr(depth - 1)
	case k < 80:
		g.subquery(depth)
	default:
		g.leaf()
	}
}

func c28GenExprText(t *rapid.T, maxDepth int) string {
	g := &c28g{t: t}
	if g.p(5) {
		g.sb.WriteString(g.pick([]string{" ", "\n", "# lead\n", "\t "}))
	}
	g.expr(g.n(0, maxDepth, "depth"))
	if g.p(5) {
		g.sb.WriteString(g.pick([]string{" ", "\n", " # trailing", "\t"}))
	}
	return g.sb.String()
}

func c28MaxDepth() int {
	return 5
}

func c28GenRound() *rapid.Generator[c28Case] {
	return rapid.Custom(func(t *rapid.T) c28Case {
		return c28Mk(c28GenExprText(t, c28MaxDepth()))
	})
}

// ---- arbitrary strings ----

var c28Vocab = []string{
	"(", ")", "{", "}", "[", "]", ",", "=", "==", "!=", "=~", "!~", "<", "<=", ">", ">=", "+", "-", "*", "/", "%", "^", "@", ":", "$", "!", "~", "#", ";", ".", "\"", "'", "`", "\\", "\n", " ", "\t",
	"sum", "by", "without", "on", "ignoring", "group_left", "group_right", "bool", "offset", "and", "or", "unless", "default", "atan2", "start", "end", "topk", "count_values", "quantile", "sort", "dbag",
	"rate", "time", "label_replace", "foo", "m", "a:b", "inf", "nan", "1", "0x", "1e", "1e+", ".5", "5m", "1h30m", "5ms", "99999999999999999999y", "1.5m", "0s",
	"\"a\"", "'b'", "`c`", "\"\\", "\"\\x", "\"\\u12", "\\400", "\xff", "é", "\x00", "start()", "end()", "[5m]", "[5m:1m]", "[5m:]", "{a=\"b\"}", "{a:$v}", "{@what=\"x\"}", "offset [1m,2m]",
}

func c28GenStrings() *rapid.Generator[c28Case] {
	return rapid.Custom(func(t *rapid.T) c28Case {
		switch c28U(t, 10, "mode") {
		case 0:
			return c28Mk(string(rapid.SliceOfN(rapid.Byte(), 0, 60).Draw(t, "bytes")))
		case 1:
			return c28Mk(rapid.StringN(0, 40, 120).Draw(t, "unicode"))
		case 2, 3, 4:
			n := rapid.IntRange(0, 25).Draw(t, "ntok")
			var sb strings.Builder
			for i := 0; i < n; i++ {
				sb.WriteString(rapid.SampledFrom(c28Vocab).Draw(t, "tok"))
				if rapid.IntRange(0, 2).Draw(t, "sp") == 0 {
					sb.WriteByte(' ')
				}
			}
			return c28Mk(sb.String())
		default: // a valid-looking expression with a few edits
			s := c28GenExprText(t, 3)
			ne := rapid.IntRange(1, 3).Draw(t, "nedits")
			for i := 0; i < ne; i++ {
				pos := rapid.IntRange(0, len(s)).Draw(t, "pos")
				switch rapid.IntRange(0, 4).Draw(t, "edit") {
				case 0: // delete
					end := pos + rapid.IntRange(1, 4).Draw(t, "len")
					if end > len(s) {
						end = len(s)
					}
					s = s[:pos] + s[end:]
				case 1: // truncate
					s = s[:pos]
				case 2: // duplicate a range
					end := pos + rapid.IntRange(1, 8).Draw(t, "len")
					if end > len(s) {
						end = len(s)
					}
					s = s[:end] + s[pos:end] + s[end:]
				default: // insert a token
					s = s[:pos] + rapid.SampledFrom(c28Vocab).Draw(t, "tok") + s[pos:]
				}
			}
			return c28Mk(s)
		}
	})
}

func TestVerifC28Round(t *testing.T) {
	ev := vpNewEv(t, "C28", "round")
	rapid.Check(t, func(rt *rapid.T) {
		c := c28GenRound().Draw(rt, "case")
		vpRunCase(rt, "C28", "round", c, func() {
			nt, cls := c28Prop(rt, c, ev)
			ev.Case(nt, c.S, cls...)
		})
	})
}

func TestVerifC28Strings(t *testing.T) {
	ev := vpNewEv(t, "C28", "strings")
	rapid.Check(t, func(rt *rapid.T) {
		c := c28GenStrings().Draw(rt, "case")
		vpRunCase(rt, "C28", "strings", c, func() {
			_, cls := c28Prop(rt, c, ev)
			for i := range cls {
				cls[i] = "strings:" + cls[i]
			}
			// non-trivial for the never-panic part: any input that is not plain ASCII letters/digits
			ev.Case(len(c.S) > 0, c.S, cls...)
		})
	})
}

// FuzzVerifC28Parse: native fuzzing (thorough tier only), same oracle. Seed corpus: /verif/corpus/C28/FuzzVerifC28Parse.
func FuzzVerifC28Parse(f *testing.F) {
	for _, s := range []string{
		`sum by (a) (rate(foo{a="b",c:$v,@what="count"}[5m] offset [1m,-2h] @ start()))`,
		`topk(3, m) default -1 ^ 2 atan2 (a == bool on (x) group_left (y) b)`,
		`(foo)[5m:1m] offset -5m @ 1.5`, `{}`, `"\xff\u00e9\101"`, `0x1F + .5e-3 - Inf`,
	} {
		f.Add(s)
	}
	f.Fuzz(func(t *testing.T, s string) {
		c := c28Mk(s)
		vpRunCase(t, "C28", "strings", c, func() { c28Prop(t, c, nil) })
	})
}

func init() {
	dec := func(sub string) func(t vpT, raw json.RawMessage) {
		return func(t vpT, raw json.RawMessage) {
			var c c28Case
			if err := json.Unmarshal(raw, &c); err != nil {
				t.Fatalf("decode: %v", err)
			}
			var ev *vpEvidence
			if tb, ok := t.(testing.TB); ok {
				ev = vpNewEv(tb, "C28", sub) // so that a listed finding met in a replay is reported by the driver
			}
			c28Prop(t, c, ev)
		}
	}
	vpReplayers["C28/round"] = dec("round")
	vpReplayers["C28/strings"] = dec("strings")
}
