//go:build verif

package promql

import (
	"context"
	"encoding/json"
	"fmt"
	"math"
	"sort"
	"strconv"
	"strings"
	"testing"
	"time"

	"github.com/prometheus/prometheus/model/labels"
	"pgregory.net/rand"
	"pgregory.net/rapid"

	"github.com/VKCOM/statshouse/internal/data_model"
	"github.com/VKCOM/statshouse/internal/format"
)

// ---------- C27: PromQL evaluation vs operator definitions; reductions preserve results ----------
//
// A consistent storage simulator implements promql.Handler: raw rows (second, tag values, event values) are aggregated from
// first principles for the SeriesQuery the engine sends (whats, group-by, filters, time slots of the Timescale, offset,
// range), mirroring what internal/api/promql.go returns (one SeriesData per tag combination, NilValue where a slot has no
// row, tags ID/Name/Value per group-by index). Every SeriesQuery is recorded, so a reduction (aggregation pushed into the
// storage query) is observed, not guessed.
//
// Oracle 1 (definitions): Exec(op G (INNER)) == reference fold of Exec(INNER) per label group and timestamp, missing points
//   excluded; Exec(fn(INNER[w])) == reference window fold of Exec(INNER). INNER is made irreducible ("+ 0", unary minus, ...).
// Oracle 2 (reductions): Exec(R) == Exec(R') where R' is R with "+ 0" after the selector (defeats every rule), same data.

const (
	c27Base    = int64(1_700_000_040) // multiple of 60
	c27TimeNow = c27Base + 600
	c27MaxT    = 240
)

var c27TagNames = []string{"", "a", "b", "c"}

type c27Row struct {
	T    int64   `json:"t"`    // second, relative to c27Base
	Tags []int32 `json:"tags"` // mapped values of tags 1..n (>=1)
	Vals []int   `json:"vals"` // event values received in that second for that tag combination (count = len)
}

type c27Query struct {
	Sub     string   `json:"sub"`   // agg | overtime | reduce
	Op      string   `json:"op"`    // aggregation operator ("" = none)
	By      []string `json:"by"`    // grouping labels
	Without bool     `json:"without"`
	HasMod  bool     `json:"has_mod"` // by/without clause present
	Param   vpF      `json:"param"`   // quantile / topk parameter, quantile_over_time parameter
	Fn      string   `json:"fn"`      // over-time function ("" = none)
	Range   int64    `json:"range"`   // range of the matrix selector / subquery
	Subq    bool     `json:"subq"`    // write the range as a subquery over (INNER)
	Shape   int      `json:"shape"`   // reduce: 0 op(sel) 1 fn(sel[w]) 2 op(fn(sel[w])) 3 fn(op(sel)[w:])
	What    string   `json:"what"`    // explicit __what__
	Filter  string   `json:"filter"`  // extra matcher text, e.g. a="v1" (may be empty)
	Inner   string   `json:"inner"`   // plus0 | neg | abs | mul2 | gt | lt
	Thr     vpF      `json:"thr"`     // threshold of the comparison filter (inner gt / lt)
}

type c27Case struct {
	NTags int      `json:"ntags"` // number of named tags of the metric (1..3)
	Rows  []c27Row `json:"rows"`
	Start int64    `json:"start"` // relative to c27Base
	End   int64    `json:"end"`
	Step  int64    `json:"step"`
	Q     c27Query `json:"q"`
	Seed  uint64   `json:"seed"`
}

// ---------------- simulator ----------------

type c27Sent struct {
	Keys    []string // label sets of the returned series, in the order the storage returned them
	GroupBy []int
	Range   int64
	Whats   []DigestWhat
	Offset  int64
}

type c27Sim struct {
	metric *format.MetricMetaValue
	rows   []c27Row
	sent   []c27Sent
	seed   uint64 // decides the order in which the storage returns series (ClickHouse order is arbitrary)
}

func c27NewSim(c c27Case) (*c27Sim, error) {
	m := &format.MetricMetaValue{MetricID: 1001, Name: "m0", Kind: format.MetricKindValue, Resolution: 1}
	m.Tags = make([]format.MetricMetaTag, c.NTags+1)
	for i := 1; i <= c.NTags; i++ {
		m.Tags[i].Name = c27TagNames[i]
	}
	if err := m.RestoreCachedInfo(); err != nil {
		return nil, err
	}
	return &c27Sim{metric: m, rows: c.Rows, seed: c.Seed}, nil
}

func c27TagString(id int64) string {
	if id == 0 {
		return ""
	}
	return "v" + strconv.FormatInt(id, 10)
}

func (s *c27Sim) GetHostName(hostID int32) string   { return "" }
func (s *c27Sim) GetHostName64(hostID int64) string { return "" }
func (s *c27Sim) GetTagValue(qry TagValueQuery) string {
	return c27TagString(qry.TagValueID)
}
func (s *c27Sim) GetTagValueID(qry TagValueIDQuery) (int64, error) {
	if strings.HasPrefix(qry.TagValue, "v") {
		if n, err := strconv.ParseInt(qry.TagValue[1:], 10, 64); err == nil && n > 0 && n < 100 {
			return n, nil
		}
	}
	return 0, ErrNotFound
}
func (s *c27Sim) GetTagFilter(metric *format.MetricMetaValue, tagIndex int, tagValue string) (data_model.TagValue, error) {
	if tagValue == "" {
		return data_model.NewTagValue("", 0), nil
	}
	v, err := s.GetTagValueID(TagValueIDQuery{TagValue: tagValue})
	if err != nil {
		return data_model.NewTagValue(tagValue, format.TagValueIDDoesNotExist), nil
	}
	return data_model.NewTagValue(tagValue, v), nil
}
func (s *c27Sim) MatchMetrics(f *data_model.QueryFilter) error {
	f.MatchMetrics(map[string]*format.MetricMetaValue{s.metric.Name: s.metric})
	return nil
}
func (s *c27Sim) QueryTagValueIDs(ctx context.Context, qry TagValuesQuery) ([]int64, error) {
	seen := map[int64]bool{}
	var res []int64
	x := int(qry.Tag.Index)
	for _, r := range s.rows {
		if x >= 1 && x <= len(r.Tags) && !seen[int64(r.Tags[x-1])] {
			seen[int64(r.Tags[x-1])] = true
			res = append(res, int64(r.Tags[x-1]))
		}
	}
	return res, nil
}
func (s *c27Sim) Alloc(n int) *[]float64 { v := make([]float64, n); return &v }
func (s *c27Sim) Free(*[]float64)        {}
func (s *c27Sim) Tracef(string, ...any)  {}

type c27Agg struct {
	count, sum, min, max, sumsq float64
}

func (a *c27Agg) add(v float64) {
	if a.count == 0 || v < a.min {
		a.min = v
	}
	if a.count == 0 || v > a.max {
		a.max = v
	}
	a.count++
	a.sum += v
	a.sumsq += v * v
}

func c27Value(a *c27Agg, what DigestWhat, queryStep, lodStep int64) (float64, error) {
	if queryStep == 0 {
		queryStep = lodStep
	}
	switch what {
	case DigestCount:
		return a.count * float64(queryStep) / float64(lodStep), nil
	case DigestCountSec:
		return a.count / float64(lodStep), nil
	case DigestCountRaw:
		return a.count, nil
	case DigestSum:
		return a.sum * float64(queryStep) / float64(lodStep), nil
	case DigestSumSec:
		return a.sum / float64(lodStep), nil
	case DigestSumRaw:
		return a.sum, nil
	case DigestAvg:
		return a.sum / a.count, nil
	case DigestMin:
		return a.min, nil
	case DigestMax:
		return a.max, nil
	case DigestStdDev, DigestStdVar:
		if a.count < 2 {
			return 0, nil
		}
		v := math.Max((a.sumsq-a.sum*a.sum/a.count)/(a.count-1), 0)
		if what == DigestStdDev {
			v = math.Sqrt(v)
		}
		return v, nil
	}
	return 0, fmt.Errorf("simulator: what %v not supported", what)
}

func (s *c27Sim) QuerySeries(ctx context.Context, qry *SeriesQuery) (Series, func(), error) {
	sent := c27Sent{GroupBy: append([]int(nil), qry.GroupBy...), Range: qry.Range, Offset: qry.Offset}
	for _, w := range qry.Whats {
		sent.Whats = append(sent.Whats, w.Digest)
	}
	s.sent = append(s.sent, sent)
	res := Series{Meta: SeriesMeta{Metric: qry.Metric}}
	if qry.Metric != s.metric {
		return res, func() {}, nil
	}
	ts := qry.Timescale.Time
	steps := make([]int64, 0, len(ts))
	for _, lod := range qry.Timescale.LODs {
		for i := 0; i < lod.Len; i++ {
			steps = append(steps, lod.Step)
		}
	}
	if len(steps) != len(ts) {
		return res, nil, fmt.Errorf("simulator: %d LOD slots for %d timestamps", len(steps), len(ts))
	}
	ntags := len(s.metric.Tags) - 1
	var by []int // group-by indices that produce tags
	for _, x := range qry.GroupBy {
		if x >= 0 && x < len(s.metric.Tags) {
			by = append(by, x)
		}
	}
	queryStep := qry.Timescale.Step
	if qry.Range != 0 {
		queryStep = qry.Range
	}
	type cell = map[int]*c27Agg // slot -> aggregate
	groups := map[string]cell{}
	keyTags := map[string][]int32{}
	for _, r := range s.rows {
		if len(r.Tags) != ntags {
			return res, nil, fmt.Errorf("simulator: row with %d tags, metric has %d", len(r.Tags), ntags)
		}
		tagAt := func(x int) int64 {
			if x >= 1 && x <= ntags {
				return int64(r.Tags[x-1])
			}
			return 0
		}
		keep := true
		for x := 0; x < format.MaxTags && keep; x++ {
			if in := qry.FilterIn.Tags[x].Values; len(in) != 0 {
				keep = false
				for _, v := range in {
					if v.Mapped == tagAt(x) {
						keep = true
					}
				}
			}
			for _, v := range qry.FilterNotIn.Tags[x].Values {
				if v.Mapped == tagAt(x) {
					keep = false
				}
			}
		}
		if !keep {
			continue
		}
		abs := c27Base + r.T
		slot := -1
		for i := range ts {
			if from := ts[i] - qry.Offset; from <= abs && abs < from+steps[i] {
				slot = i
				break
			}
		}
		if slot < 0 {
			continue
		}
		kt := make([]int32, len(by))
		kb := make([]byte, len(by))
		for i, x := range by {
			kt[i] = int32(tagAt(x))
			kb[i] = byte(kt[i])
		}
		k := string(kb)
		g := groups[k]
		if g == nil {
			g = cell{}
			groups[k] = g
			keyTags[k] = kt
		}
		a := g[slot]
		if a == nil {
			a = &c27Agg{}
			g[slot] = a
		}
		for _, v := range r.Vals {
			a.add(float64(v))
		}
	}
	keys := make([]string, 0, len(groups))
	for k := range groups {
		keys = append(keys, k)
	}
	sort.Strings(keys)
	for i, x := len(keys)-1, s.seed*0x9E3779B97F4A7C15+1; i > 0; i-- { // Fisher-Yates with a fixed LCG
		x = x*6364136223846793005 + 1442695040888963407
		j := int((x >> 33) % uint64(i+1))
		keys[i], keys[j] = keys[j], keys[i]
	}
	for _, k := range keys {
		l := map[string]string{}
		for i, tx := range by {
			if v := keyTags[k][i]; v != 0 {
				l[format.TagID(tx)] = c27TagString(int64(v))
			}
		}
		s.sent[len(s.sent)-1].Keys = append(s.sent[len(s.sent)-1].Keys, c27Key(l))
	}
	for _, what := range qry.Whats {
		for _, k := range keys {
			vals := make([]float64, len(ts))
			for i := range vals {
				vals[i] = NilValue
			}
			for slot, a := range groups[k] {
				v, err := c27Value(a, what.Digest, queryStep, steps[slot])
				if err != nil {
					return res, nil, err
				}
				vals[slot] = v
			}
			res.Data = append(res.Data, SeriesData{Values: &vals, What: what})
			x := len(res.Data) - 1
			for i, tx := range by {
				res.AddTagAt(x, &SeriesTag{
					Metric: qry.Metric,
					Index:  tx + SeriesTagIndexOffset,
					ID:     format.TagID(tx),
					Name:   qry.Metric.Tags[tx].Name,
					Value:  int64(keyTags[k][i]),
				})
			}
			if len(qry.Whats) > 1 || qry.Options.TagWhat {
				res.AddTagAt(x, &SeriesTag{ID: LabelWhat, Value: int64(what.Digest)})
			}
		}
	}
	res.Meta.Total = len(res.Data)
	return res, func() {}, nil
}

// ---------------- running the engine ----------------

type c27Series struct {
	Labels map[string]string // tag ID -> value (non-empty values only, no __name__)
	Key    string
	V      []float64
	Pos    int // position in the result as returned by the engine
}

type c27Result struct {
	Time   []int64
	Series []c27Series
	Sent   []c27Sent
}

func c27Exec(c c27Case, expr string, start int64) (c27Result, error) {
	sim, err := c27NewSim(c)
	if err != nil {
		return c27Result{}, fmt.Errorf("harness: %v", err)
	}
	ng := NewEngine(time.UTC, 0)
	v, cancel, err := ng.Exec(context.Background(), sim, Query{
		Start: c27Base + start,
		End:   c27Base + c.End,
		Step:  c.Step,
		Expr:  expr,
		Options: Options{
			TimeNow: c27TimeNow,
			Mode:    data_model.RangeQuery,
			Rand:    rand.New(c.Seed),
		},
	})
	if err != nil {
		return c27Result{}, err
	}
	defer cancel()
	ts, ok := v.(*TimeSeries)
	if !ok {
		return c27Result{}, fmt.Errorf("result is %T", v)
	}
	res := c27Result{Time: append([]int64(nil), ts.Time...), Sent: sim.sent}
	for _, d := range ts.Series.Data {
		sr := c27Series{Labels: map[string]string{}, V: append([]float64(nil), (*d.Values)...)}
		for id, tg := range d.Tags.ID2Tag {
			if id == labels.MetricName || tg.SValue == "" {
				continue
			}
			sr.Labels[id] = tg.SValue
		}
		sr.Key = c27Key(sr.Labels)
		sr.Pos = len(res.Series)
		res.Series = append(res.Series, sr)
	}
	sort.Slice(res.Series, func(i, j int) bool { return res.Series[i].Key < res.Series[j].Key })
	return res, nil
}

func c27Key(l map[string]string) string {
	ks := make([]string, 0, len(l))
	for k, v := range l {
		ks = append(ks, k+"="+v)
	}
	sort.Strings(ks)
	return strings.Join(ks, ",")
}

// label name or ID -> tag ID ("" if the metric has no such tag)
func c27TagID(c c27Case, name string) string {
	for i := 1; i <= c.NTags; i++ {
		if name == c27TagNames[i] || name == strconv.Itoa(i) {
			return strconv.Itoa(i)
		}
	}
	return ""
}

func c27GroupKey(c c27Case, q c27Query, l map[string]string) string {
	ids := map[string]bool{}
	for _, n := range q.By {
		if id := c27TagID(c, n); id != "" {
			ids[id] = true
		}
	}
	out := map[string]string{}
	for id, v := range l {
		if ids[id] != q.Without {
			out[id] = v
		}
	}
	return c27Key(out)
}

// ---------------- expression text ----------------

func c27Selector(q c27Query) string {
	s := `m0{__what__="` + q.What + `"`
	if q.Filter != "" {
		s += "," + q.Filter
	}
	return s + "}"
}

func c27Inner(q c27Query) string {
	sel := c27Selector(q)
	switch q.Inner {
	case "neg":
		return "-" + sel
	case "abs":
		return "abs(" + sel + ")"
	case "mul2":
		return sel + " * 2"
	case "gt": // comparison filter: points not above the threshold become missing, whole series may become empty
		return sel + " > " + c27Num(float64(q.Thr))
	case "lt":
		return sel + " < " + c27Num(float64(q.Thr))
	default:
		return sel + " + 0"
	}
}

func c27Mod(q c27Query) string {
	if !q.HasMod {
		return ""
	}
	kw := " by "
	if q.Without {
		kw = " without "
	}
	return kw + "(" + strings.Join(q.By, ", ") + ") "
}

func c27Num(f float64) string {
	switch {
	case math.IsNaN(f):
		return "NaN"
	case math.IsInf(f, 1):
		return "Inf"
	case math.IsInf(f, -1):
		return "-Inf"
	}
	return strconv.FormatFloat(f, 'g', -1, 64)
}

func c27AggText(q c27Query, arg string) string {
	p := ""
	switch q.Op {
	case "quantile", "topk", "bottomk":
		p = c27Num(float64(q.Param)) + ", "
	}
	return q.Op + c27Mod(q) + "(" + p + arg + ")"
}

func c27FnText(q c27Query, arg string) string {
	if q.Fn == "quantile_over_time" {
		return q.Fn + "(" + c27Num(float64(q.Param)) + ", " + arg + ")"
	}
	return q.Fn + "(" + arg + ")"
}

// ---------------- reference definitions (written from the PromQL operator definitions) ----------------

func c27Present(vs []float64) []float64 {
	var p []float64
	for _, v := range vs {
		if !math.IsNaN(v) {
			p = append(p, v)
		}
	}
	return p
}

func c27Quantile(phi float64, p []float64) float64 {
	switch {
	case math.IsNaN(phi):
		return math.NaN()
	case phi < 0:
		return math.Inf(-1)
	case phi > 1:
		return math.Inf(1)
	}
	s := append([]float64(nil), p...)
	sort.Float64s(s)
	rank := phi * float64(len(s)-1)
	lo := math.Floor(rank)
	hi := math.Min(float64(len(s)-1), lo+1)
	w := rank - lo
	return s[int(lo)]*(1-w) + s[int(hi)]*w
}

// c27Fold: value of an aggregation / over-time function over the present values p (len(p) > 0; order = time order).
func c27Fold(name string, phi float64, p []float64) float64 {
	switch name {
	case "sum", "sum_over_time":
		s := 0.0
		for _, v := range p {
			s += v
		}
		return s
	case "min", "min_over_time":
		m := p[0]
		for _, v := range p {
			m = math.Min(m, v)
		}
		return m
	case "max", "max_over_time":
		m := p[0]
		for _, v := range p {
			m = math.Max(m, v)
		}
		return m
	case "avg", "avg_over_time":
		return c27Fold("sum", 0, p) / float64(len(p))
	case "count", "count_over_time":
		return float64(len(p))
	case "group":
		return 1
	case "stdvar", "stdvar_over_time", "stddev", "stddev_over_time":
		mean := c27Fold("avg", 0, p)
		s := 0.0
		for _, v := range p {
			s += (v - mean) * (v - mean)
		}
		s /= float64(len(p))
		if strings.HasPrefix(name, "stddev") {
			return math.Sqrt(s)
		}
		return s
	case "quantile", "quantile_over_time":
		return c27Quantile(phi, p)
	case "last_over_time":
		return p[len(p)-1]
	}
	panic("harness: no reference for " + name)
}

// value an implementation may use for "no input at all" besides NaN
func c27EmptyValue(name string) (float64, bool) {
	switch name {
	case "count", "count_over_time", "stdvar", "stddev", "stdvar_over_time", "stddev_over_time":
		return 0, true
	case "group":
		return 1, true
	}
	return 0, false
}

func c27Close(got, want float64, scale float64) bool {
	if math.IsNaN(want) {
		return math.IsNaN(got)
	}
	if math.IsInf(want, 0) {
		return got == want
	}
	if math.IsNaN(got) || math.IsInf(got, 0) {
		return false
	}
	return math.Abs(got-want) <= 1e-9*math.Max(1, math.Max(math.Abs(want), scale))
}

func c27Scale(name string, p []float64) float64 {
	m := 0.0
	for _, v := range p {
		m += math.Abs(v)
	}
	if strings.HasPrefix(name, "stdvar") {
		return m * m
	}
	return m
}

func c27AllEmptyValue(name string, v []float64) bool {
	ev, ok := c27EmptyValue(name)
	for _, x := range v {
		if math.IsNaN(x) || (ok && x == ev) {
			continue
		}
		return false
	}
	return true
}

// ---------------- the property ----------------

type c27Stats struct {
	classes map[string]bool
	nt      bool
	ev      *vpEvidence
}

func (s *c27Stats) cl(name string) { s.classes[name] = true }

func c27Reduced(r c27Result) bool {
	for _, q := range r.Sent {
		if q.Range != 0 || len(q.GroupBy) != format.MaxTags {
			return true
		}
	}
	return false
}

func c27Prop(t vpT, c c27Case, ev *vpEvidence) (bool, []string) {
	st := &c27Stats{classes: map[string]bool{}, ev: ev}
	switch c.Q.Sub {
	case "agg":
		c27PropAgg(t, c, st)
	case "overtime":
		c27PropOverTime(t, c, st)
	case "reduce":
		c27PropReduce(t, c, st)
	default:
		t.Fatalf("harness: unknown sub %q", c.Q.Sub)
	}
	cls := make([]string, 0, len(st.classes))
	for k := range st.classes {
		cls = append(cls, k)
	}
	sort.Strings(cls)
	return st.nt, cls
}

func c27MustExec(t vpT, c c27Case, expr string, start int64) c27Result {
	r, err := c27Exec(c, expr, start)
	if err != nil {
		t.Fatalf("Exec(%s) failed: %v", expr, err)
	}
	return r
}

func c27SameTime(t vpT, a, b c27Result, ea, eb string) {
	if len(a.Time) != len(b.Time) {
		t.Fatalf("harness: time grids differ: %s -> %v, %s -> %v", ea, a.Time, eb, b.Time)
	}
	for i := range a.Time {
		if a.Time[i] != b.Time[i] {
			t.Fatalf("harness: time grids differ: %s -> %v, %s -> %v", ea, a.Time, eb, b.Time)
		}
	}
}

// Oracle 1, aggregation operators
func c27PropAgg(t vpT, c c27Case, st *c27Stats) {
	q := c.Q
	inner := c27Inner(q)
	expr := c27AggText(q, inner)
	R := c27MustExec(t, c, expr, c.Start)
	S := c27MustExec(t, c, inner, c.Start)
	c27SameTime(t, R, S, expr, inner)
	if c27Reduced(R) {
		t.Fatalf("harness: %s was reduced, the inner expression was meant to be irreducible", expr)
	}
	st.cl("op:" + q.Op)
	groups := map[string][]c27Series{}
	var gkeys []string
	for _, s := range S.Series {
		k := c27GroupKey(c, q, s.Labels)
		if groups[k] == nil {
			gkeys = append(gkeys, k)
		}
		groups[k] = append(groups[k], s)
	}
	if len(S.Series) == 0 {
		st.cl("no-input-series")
	}
	if q.Op == "topk" || q.Op == "bottomk" || q.Op == "sort" || q.Op == "sort_desc" {
		c27CheckTopK(t, c, st, expr, R, S, groups)
		return
	}
	got := map[string]c27Series{}
	for _, r := range R.Series {
		if _, dup := got[r.Key]; dup {
			t.Fatalf("%s: two result series with labels {%s}", expr, r.Key)
		}
		got[r.Key] = r
	}
	phi := float64(q.Param)
	partial, multi := false, false
	for _, k := range gkeys {
		g := groups[k]
		if len(g) >= 2 {
			multi = true
		}
		want := make([]float64, len(S.Time))
		strict := make([]bool, len(S.Time)) // false: NaN or the empty value both accepted
		scale := make([]float64, len(S.Time))
		nonEmpty := false
		for i := range S.Time {
			col := make([]float64, len(g))
			for j := range g {
				col[j] = g[j].V[i]
			}
			p := c27Present(col)
			if len(p) != 0 && len(p) != len(col) {
				partial = true
			}
			if len(p) == 0 {
				want[i] = math.NaN()
				_, hasEmpty := c27EmptyValue(q.Op)
				strict[i] = !hasEmpty
				if q.Op == "quantile" && (math.IsNaN(phi) || phi < 0 || phi > 1) {
					strict[i] = false // out-of-range parameter: the constant result is not tied to the presence of input
				}
				continue
			}
			want[i] = c27Fold(q.Op, phi, p)
			strict[i] = true
			scale[i] = c27Scale(q.Op, p)
			if !math.IsNaN(want[i]) {
				nonEmpty = true
			}
		}
		r, ok := got[k]
		if !ok {
			if nonEmpty {
				t.Fatalf("%s: no result series for group {%s}; inner %s has %d series in it\n inner: %s\n result: %s", expr, k, inner, len(g), c27Show(S), c27Show(R))
			}
			continue
		}
		delete(got, k)
		for i := range S.Time {
			if !strict[i] {
				if ev, _ := c27EmptyValue(q.Op); math.IsNaN(r.V[i]) || r.V[i] == ev || q.Op == "quantile" {
					continue
				}
				t.Fatalf("%s: group {%s} at t=%d: no input point, got %v\n inner: %s\n result: %s", expr, k, S.Time[i]-c27Base, r.V[i], c27Show(S), c27Show(R))
			}
			if !c27Close(r.V[i], want[i], scale[i]) {
				t.Fatalf("%s: group {%s} at t=%d: got %v, definition gives %v\n inner %s: %s\n result: %s", expr, k, S.Time[i]-c27Base, r.V[i], want[i], inner, c27Show(S), c27Show(R))
			}
		}
	}
	for k, r := range got {
		// a series the storage returned only for the hidden slot before the interval is invisible in Exec(inner) but still
		// forms a group: tolerated when the result carries nothing but "no input" values
		if c27AllEmptyValue(q.Op, r.V) {
			continue
		}
		if q.Op == "quantile" && (math.IsNaN(phi) || phi < 0 || phi > 1) {
			continue // constant result that does not depend on the input
		}
		t.Fatalf("%s: unexpected result series {%s} %v\n inner: %s", expr, k, r.V, c27Show(S))
	}
	if multi {
		st.cl("group-with>=2-series")
	}
	if partial {
		st.cl("partially-missing-timestamp")
	}
	if len(gkeys) >= 2 {
		st.cl(">=2-groups")
	}
	if q.HasMod {
		if q.Without {
			st.cl("without")
		} else {
			st.cl("by")
		}
	}
	st.nt = multi && len(S.Time) > 0
	if partial && len(gkeys) >= 2 {
		st.cl(">=2-groups-with-missing-points")
	}
}

func c27Show(r c27Result) string {
	var sb strings.Builder
	for _, s := range r.Series {
		fmt.Fprintf(&sb, "\n   {%s} %v", s.Key, s.V)
	}
	if len(r.Series) == 0 {
		sb.WriteString(" (no series)")
	}
	return sb.String()
}

func c27SameValues(a, b []float64) bool {
	for i := range a {
		if math.IsNaN(a[i]) != math.IsNaN(b[i]) || (!math.IsNaN(a[i]) && a[i] != b[i]) {
			return false
		}
	}
	return true
}

// topk / bottomk: StatsHouse selects k series per group for the whole interval. Asserted: the result is a subset of the
// input series with unchanged values, min(k, n) series per group, and a dropped series never strictly dominates a kept one
// (non-negative data only: every ranking that is monotone in the values agrees there).
func c27CheckTopK(t vpT, c c27Case, st *c27Stats, expr string, R, S c27Result, groups map[string][]c27Series) {
	q := c.Q
	k := int(float64(q.Param))
	sorting := q.Op == "sort" || q.Op == "sort_desc"
	if sorting {
		k = math.MaxInt32 // the StatsHouse aggregator forms keep every series that has points
	}
	// series the storage returned that have no point left in the evaluated range (data only before the start, or emptied by
	// the comparison filter): they must neither appear nor take the place of a series that has points
	if len(R.Sent) == 1 {
		has := map[string]bool{}
		for _, s := range S.Series {
			has[s.Key] = true
		}
		keys := R.Sent[0].Keys
		empties := 0
		for _, key := range keys {
			if !has[key] {
				empties++
			}
		}
		if empties >= 1 {
			st.cl("topk:empty-series-in-storage-answer")
		}
		if empties >= 2 {
			st.cl("topk:>=2-empty-series")
			if !has[keys[len(keys)-1]] {
				st.cl("topk:>=2-empty-series-last-one-empty")
				if !sorting && k >= 1 && k <= len(S.Series) {
					st.cl("topk:>=2-empty-last-empty-and-k<=n")
				}
			}
		}
	}
	in := map[string]c27Series{}
	nonneg := true
	for _, s := range S.Series {
		in[s.Key] = s
		for _, v := range s.V {
			if v < 0 {
				nonneg = false
			}
		}
	}
	kept := map[string]bool{}
	perGroup := map[string]int{}
	for _, r := range R.Series {
		s, ok := in[r.Key]
		if !ok {
			t.Fatalf("%s: result series {%s} is not an input series\n inner: %s", expr, r.Key, c27Show(S))
		}
		if kept[r.Key] {
			t.Fatalf("%s: series {%s} returned twice", expr, r.Key)
		}
		if !c27SameValues(r.V, s.V) {
			t.Fatalf("%s: series {%s} values changed: %v, input %v", expr, r.Key, r.V, s.V)
		}
		kept[r.Key] = true
		perGroup[c27GroupKey(c, q, s.Labels)]++
	}
	for gk, g := range groups {
		want := k
		if want < 0 {
			want = 0
		}
		if len(g) < want {
			want = len(g)
		}
		if perGroup[gk] != want {
			t.Fatalf("%s: group {%s} has %d input series, result keeps %d, expected %d\n inner: %s\n result: %s", expr, gk, len(g), perGroup[gk], want, c27Show(S), c27Show(R))
		}
		if len(g) > want && want > 0 {
			st.cl("topk-drops-series")
			st.nt = true
		}
		if sorting && len(g) >= 2 {
			st.nt = true
		}
		if !nonneg {
			continue
		}
		for _, a := range g {
			for _, b := range g {
				if kept[a.Key] == kept[b.Key] && !(sorting && a.Key != b.Key) {
					continue
				}
				// a strictly dominates b: a present and greater wherever b is present, b present somewhere
				dom, any := true, false
				for i := range a.V {
					if math.IsNaN(b.V[i]) {
						continue
					}
					any = true
					if math.IsNaN(a.V[i]) || !(a.V[i] > b.V[i]) {
						dom = false
					}
				}
				if !dom || !any {
					continue
				}
				st.cl("topk-dominance-checked")
				if sorting && kept[a.Key] && kept[b.Key] {
					pa, pb := -1, -1
					for _, r := range R.Series {
						if r.Key == a.Key {
							pa = r.Pos
						}
						if r.Key == b.Key {
							pb = r.Pos
						}
					}
					if (q.Op == "sort" && pa < pb) || (q.Op == "sort_desc" && pa > pb) {
						t.Fatalf("%s: {%s} %v is greater than {%s} %v at every point but they are returned at positions %d and %d", expr, a.Key, a.V, b.Key, b.V, pa, pb)
					}
				}
				if q.Op == "topk" && kept[b.Key] && !kept[a.Key] {
					t.Fatalf("%s: keeps {%s} %v but drops {%s} %v which is greater at every point", expr, b.Key, b.V, a.Key, a.V)
				}
				if q.Op == "bottomk" && kept[a.Key] && !kept[b.Key] {
					t.Fatalf("%s: keeps {%s} %v but drops {%s} %v which is smaller at every point", expr, a.Key, a.V, b.Key, b.V)
				}
			}
		}
	}
}

// Oracle 1, over-time functions. Asserted where the grid has one step and the range is a multiple of it, so that the
// Prometheus window (t-w, t] and the StatsHouse window coincide: the last w/step points.
func c27PropOverTime(t vpT, c c27Case, st *c27Stats) {
	q := c.Q
	var inner, expr string
	if q.Subq {
		inner = c27Inner(q)
		expr = c27FnText(q, "("+inner+")["+strconv.FormatInt(q.Range, 10)+"s:]")
	} else {
		inner = c27Selector(q) + " + 0"
		expr = c27FnText(q, c27Selector(q)+"["+strconv.FormatInt(q.Range, 10)+"s]")
	}
	R := c27MustExec(t, c, expr, c.Start)
	S := c27MustExec(t, c, inner, c.Start-q.Range) // the engine widens the interval by the largest range
	c27SameTime(t, R, S, expr, inner)
	st.cl("fn:" + q.Fn)
	if c27Reduced(R) {
		st.cl("overtime-reduced-not-asserted-here")
		return
	}
	if len(S.Time) < 2 {
		return
	}
	step := S.Time[1] - S.Time[0]
	for i := 1; i < len(S.Time); i++ {
		if S.Time[i]-S.Time[i-1] != step {
			t.Fatalf("harness: non-uniform grid %v", S.Time)
		}
	}
	if q.Range%step != 0 || q.Range < step {
		st.cl("range-not-multiple-of-step-not-asserted")
		return
	}
	n := int(q.Range / step)
	if n >= 2 {
		st.cl("window>=2-points")
	}
	got := map[string]c27Series{}
	for _, r := range R.Series {
		if _, dup := got[r.Key]; dup {
			t.Fatalf("%s: two result series with labels {%s}", expr, r.Key)
		}
		got[r.Key] = r
	}
	phi := float64(q.Param)
	gaps := false
	for _, s := range S.Series {
		r, ok := got[s.Key]
		delete(got, s.Key)
		anyWant := false
		for j := n - 1; j < len(S.Time); j++ {
			p := c27Present(s.V[j-n+1 : j+1])
			if len(p) != n && len(p) != 0 {
				gaps = true
			}
			var want float64
			strict := true
			if len(p) == 0 {
				want = math.NaN()
				if _, has := c27EmptyValue(q.Fn); has {
					strict = false
				}
				if q.Fn == "quantile_over_time" && (math.IsNaN(phi) || phi < 0 || phi > 1) {
					strict = false
				}
			} else {
				want = c27Fold(q.Fn, phi, p)
				anyWant = anyWant || !math.IsNaN(want)
			}
			if !ok {
				continue
			}
			if !strict {
				continue
			}
			if !c27Close(r.V[j], want, c27Scale(q.Fn, p)) {
				t.Fatalf("%s: series {%s} at t=%d (window of %d points %v): got %v, definition gives %v\n inner %s: %s\n result: %s",
					expr, s.Key, S.Time[j]-c27Base, n, s.V[j-n+1:j+1], r.V[j], want, inner, c27Show(S), c27Show(R))
			}
		}
		if !ok && anyWant {
			t.Fatalf("%s: no result series {%s}\n inner: %s\n result: %s", expr, s.Key, c27Show(S), c27Show(R))
		}
	}
	for k, r := range got {
		if c27AllEmptyValue(q.Fn, r.V) {
			continue
		}
		if q.Fn == "quantile_over_time" && (math.IsNaN(phi) || phi < 0 || phi > 1) {
			continue // constant result that does not depend on the input (series visible only in the hidden slot)
		}
		t.Fatalf("%s: unexpected result series {%s} %v\n inner: %s", expr, k, r.V, c27Show(S))
	}
	if gaps {
		st.cl("window-with-missing-points")
	}
	st.nt = n >= 2 && len(S.Series) > 0
}

// Oracle 2: reductions. R is reducible, R2 = R with "+ 0" behind the selector (and the matrix selector written as a
// subquery), which no rule matches. Whether R was reduced is read from the queries the simulator received.
func c27ReduceTexts(q c27Query) (r, r2 string) {
	sel := c27Selector(q)
	w := strconv.FormatInt(q.Range, 10) + "s"
	switch q.Shape {
	case 0:
		return c27AggText(q, sel), c27AggText(q, sel+" + 0")
	case 1:
		return c27FnText(q, sel+"["+w+"]"), c27FnText(q, "("+sel+" + 0)["+w+":]")
	case 2:
		return c27AggText(q, c27FnText(q, sel+"["+w+"]")), c27AggText(q, c27FnText(q, "("+sel+" + 0)["+w+":]"))
	default:
		return c27FnText(q, c27AggText(q, sel)+"["+w+":]"), c27FnText(q, c27AggText(q, sel+" + 0")+"["+w+":]")
	}
}

// the "what" a rule stands for
func c27RuleWhat(name string) []string {
	switch name {
	case "sum":
		return []string{SumSec, Sum}
	case "count":
		return []string{CountSec, Count}
	case "avg", "avg_over_time":
		return []string{Avg}
	case "min", "min_over_time":
		return []string{Min}
	case "max", "max_over_time":
		return []string{Max}
	case "sum_over_time":
		return []string{Sum, SumSec}
	case "count_over_time":
		return []string{Count, CountSec}
	}
	return nil
}

// every (slot, series) cell of the ungrouped data has the same event count
func c27UniformCounts(c c27Case, step int64) bool {
	cnt := map[string]int{}
	for _, r := range c.Rows {
		k := fmt.Sprint(r.Tags, (c27Base+r.T)/step)
		cnt[k] += len(r.Vals)
	}
	first := -1
	for _, n := range cnt {
		if first < 0 {
			first = n
		}
		if n != first {
			return false
		}
	}
	return true
}

func c27PropReduce(t vpT, c c27Case, st *c27Stats) {
	q := c.Q
	e1, e2 := c27ReduceTexts(q)
	R := c27MustExec(t, c, e1, c.Start)
	R2 := c27MustExec(t, c, e2, c.Start)
	c27SameTime(t, R, R2, e1, e2)
	if c27Reduced(R2) {
		t.Fatalf("harness: %s was reduced", e2)
	}
	st.cl(fmt.Sprintf("shape:%d", q.Shape))
	if !c27Reduced(R) {
		st.cl("not-reduced")
	} else {
		st.cl("reduced")
		st.cl("reduced:" + q.Op + "/" + q.Fn + "/" + q.What)
	}
	// soundness restrictions (DESIGN §4 C27): avg-like pushdowns are weighted means by construction of the storage
	step := int64(1)
	if len(R.Time) >= 2 {
		step = R.Time[1] - R.Time[0]
	}
	avgLike := q.Op == "avg" || (q.Fn == "avg_over_time" && q.Shape != 0)
	if avgLike && c27Reduced(R) && !c27UniformCounts(c, step) {
		st.cl("avg-on-non-uniform-counts-not-asserted")
		return
	}
	if c27Reduced(R) {
		// a rule may replace the selector's what (sumsec -> sum under sum_over_time): then the two sides select
		// different storage columns by construction and are not comparable (DESIGN §4 C27 (i))
		for _, sq := range R.Sent {
			if len(sq.Whats) != 1 || sq.Whats[0].String() != q.What {
				st.cl("what-replaced-by-rule-not-asserted")
				return
			}
		}
		st.cl("reduced-asserted")
		st.nt = len(R2.Series) > 0
	}
	name := q.Op
	if q.Shape == 1 {
		name = q.Fn
	}
	got := map[string]c27Series{}
	for _, r := range R.Series {
		if _, dup := got[r.Key]; dup {
			t.Fatalf("%s: two result series with labels {%s}", e1, r.Key)
		}
		got[r.Key] = r
	}
	// A mismatch between the reduced query and its irreducible twin is a violation unless the CASE carries the signature
	// of a finding listed in known_findings.json (see c27KnownSig).
	known := false
	mismatch := func(format string, args ...any) {
		if sig, what := c27KnownSig(c, q, R); sig != "" && vpKnownListed("C27", sig) {
			if st.ev != nil {
				st.ev.Known(sig, what)
			}
			known = true
			st.nt = false
			return
		}
		t.Fatalf(format, args...)
	}
	for _, w := range R2.Series {
		if known {
			return
		}
		r, ok := got[w.Key]
		delete(got, w.Key)
		if !ok {
			if c27AllEmptyValue(name, w.V) {
				continue
			}
			mismatch("reduction changed the result: %s has no series {%s}, %s has %v\n sent: %+v\n reduced: %s\n engine: %s", e1, w.Key, e2, w.V, R.Sent, c27Show(R), c27Show(R2))
			continue
		}
		for i := range w.V {
			ev, hasEmpty := c27EmptyValue(name)
			if hasEmpty && (math.IsNaN(w.V[i]) || w.V[i] == ev) && (math.IsNaN(r.V[i]) || r.V[i] == ev) {
				continue // "no input": NaN and the empty value are not distinguished
			}
			if !c27Close(r.V[i], w.V[i], math.Abs(w.V[i])) {
				mismatch("reduction changed the result: series {%s} at t=%d: %s = %v, %s = %v\n queries sent for the first: %+v\n reduced: %s\n engine: %s",
					w.Key, R.Time[i]-c27Base, e1, r.V[i], e2, w.V[i], R.Sent, c27Show(R), c27Show(R2))
				break
			}
		}
	}
	for k, r := range got {
		if known {
			return
		}
		if !c27AllEmptyValue(name, r.V) {
			mismatch("reduction changed the result: %s has series {%s} %v, %s has none\n sent: %+v\n engine: %s", e1, k, r.V, e2, R.Sent, c27Show(R2))
		}
	}
}

// ---------------- listed findings (known_findings.json) ----------------
//
// Signatures are predicates over the case (query shape, explicit what) and the observed SeriesQuery; they are evaluated only
// after a mismatch between the reduced query and its twin was found. Anything else stays a violation.
//
//   count-reduction:         a rule for count / count_over_time took part in the reduction (the storage counts events, the
//                            engine counts series / points).
//   reduction-explicit-what: the evaluator reduced although the explicit __what__ of the selector is not one the rules that
//                            fired accept (reduceWhat refuses the pair), or the what the rule chain yields was not the one
//                            sent to the storage (it was dropped).

// rules that took part, innermost first
func c27FiredRules(q c27Query, r c27Result, implied bool) []string {
	grouped, ranged := implied, false
	for _, sq := range r.Sent {
		if len(sq.GroupBy) != format.MaxTags {
			grouped = true
		}
		if sq.Range != 0 {
			ranged = true
		}
	}
	switch q.Shape {
	case 0:
		return []string{q.Op}
	case 1:
		return []string{q.Fn}
	case 2:
		if grouped {
			return []string{q.Fn, q.Op}
		}
		return []string{q.Fn}
	default:
		if ranged {
			return []string{q.Op, q.Fn}
		}
		return []string{q.Op}
	}
}

// the pairing the rules document (reductions.go reduceWhat): (result, accepted)
func c27RefReduceWhat(a, b string) (string, bool) {
	if a == "" || (a == SumSec && b == Sum) || (a == CountSec && b == Count) {
		return b, true
	}
	if a == b || (a == Sum && b == SumSec) || (a == Count && b == CountSec) {
		return a, true
	}
	return a, false
}

// "without ()" (or without labels the metric does not have) groups by every tag: the pushed-down query then carries the
// same GroupBy as an unreduced one, so the reduction of the aggregation is implied by the query shape, not observable.
func c27WithoutNothing(c c27Case, q c27Query) bool {
	if q.Op == "" || !q.HasMod || !q.Without {
		return false
	}
	for _, n := range q.By {
		if c27TagID(c, n) != "" {
			return false
		}
	}
	return true
}

func c27KnownSig(c c27Case, q c27Query, r c27Result) (sig, what string) {
	ranged := false
	for _, sq := range r.Sent {
		if sq.Range != 0 {
			ranged = true
		}
	}
	implied := c27WithoutNothing(c, q) && (q.Shape == 0 || q.Shape == 3 || (q.Shape == 2 && ranged))
	if !c27Reduced(r) && !implied {
		return "", ""
	}
	fired := c27FiredRules(q, r, implied)
	for _, rule := range fired {
		if rule == "count" || rule == "count_over_time" {
			return "count-reduction", "count()/count_over_time() pushed into the storage query return the number of events, the engine counts series/points (e.g. count(m{__what__=\"countsec\"}) = 6 vs 2)"
		}
	}
	a := q.What
	for _, rule := range fired {
		rw := c27RuleWhat(rule)
		if len(rw) == 0 {
			return "", ""
		}
		var ok bool
		if a, ok = c27RefReduceWhat(a, rw[0]); !ok {
			return "reduction-explicit-what", "reduction applied although the explicit __what__ is not the one the rule stands for: the rules read the dead field VectorSelector.What instead of Whats (e.g. max(m{__what__=\"min\"}) = 1 vs 2)"
		}
	}
	for _, sq := range r.Sent {
		if len(sq.Whats) != 1 || sq.Whats[0].String() != a {
			return "reduction-explicit-what", "the what chosen by the reduction rules is dropped: the storage query keeps the selector's what"
		}
	}
	return "", ""
}

// ---------------- generators ----------------

func c27U(t *rapid.T, n int, label string) int {
	x := uint64(rapid.IntRange(0, 1<<24).Draw(t, label))
	x *= 0x9E3779B97F4A7C15
	x ^= x >> 29
	return int(x % uint64(n))
}

func c27Pick(t *rapid.T, l []string, label string) string { return l[c27U(t, len(l), label)] }

func c27GenData(t *rapid.T, c *c27Case, earlyPct int) {
	c.NTags = 1 + c27U(t, 3, "ntags")
	many := earlyPct >= 25 // selection operators need several series per group
	if many && c.NTags < 2 {
		c.NTags = 2
	}
	card := make([]int, c.NTags)
	for i := range card {
		card[i] = 1 + c27U(t, 3, "card")
		if many && i < 2 && card[i] < 2 {
			card[i] = 2 + c27U(t, 2, "card2")
		}
		if i == 2 && card[0]*card[1] > 4 {
			card[i] = 1
		}
	}
	// series = tag combinations
	var combos [][]int32
	var rec func(i int, cur []int32)
	rec = func(i int, cur []int32) {
		if i == c.NTags {
			combos = append(combos, append([]int32(nil), cur...))
			return
		}
		for v := 1; v <= card[i]; v++ {
			rec(i+1, append(cur, int32(v)))
		}
	}
	rec(0, nil)
	uniform := c27U(t, 4, "uniform") == 0
	ucount := 1 + c27U(t, 3, "ucount")
	nonneg := c27U(t, 3, "nonneg") == 0
	presence := []int{100, 90, 70, 40}[c27U(t, 4, "presence")]
	from := c.Start - 20 - int64(c27U(t, 25, "datafrom"))
	if c.Step > 1 {
		from -= 4 * c.Step
	}
	if from < 0 {
		from = 0
	}
	to := c.End + 3 - int64(c27U(t, 6, "datato"))
	for _, combo := range combos {
		if c27U(t, 10, "series-absent") == 0 && len(combos) > 1 && !many {
			continue
		}
		level := c27U(t, 40, "level")
		// some series report only before the query start: the storage still returns them (hidden slot in front of the
		// interval) but they have no point in the evaluated range
		sfrom, sto := from, to
		if c27U(t, 100, "early-series") < earlyPct {
			st := c.Step
			if st == 0 {
				st = 1
			}
			sfrom, sto = c.Start-2*st, c.Start
			if sfrom < 0 {
				sfrom = 0
			}
		}
		for T := sfrom; T < sto; T++ {
			if sto == to && c27U(t, 100, "present") >= presence {
				continue
			}
			n := ucount
			if !uniform {
				n = 1 + c27U(t, 4, "count")
			}
			vals := make([]int, n)
			for i := range vals {
				v := level + c27U(t, 12, "val")
				if !nonneg {
					v -= 25
				}
				vals[i] = v
			}
			c.Rows = append(c.Rows, c27Row{T: T, Tags: combo, Vals: vals})
		}
	}
	if len(c.Rows) == 0 {
		c.Rows = append(c.Rows, c27Row{T: 60, Tags: combos[0], Vals: []int{1}})
	}
}

func c27GenWindow(t *rapid.T, c *c27Case) {
	c.Step = []int64{0, 1, 1, 1, 5, 5, 15}[c27U(t, 7, "step")]
	c.Start = 100 + int64(c27U(t, 40, "start"))
	n := 3 + c27U(t, 25, "points")
	s := c.Step
	if s == 0 {
		s = 1
	}
	if s > 1 && c27U(t, 3, "align") != 0 {
		c.Start -= c.Start % s
	}
	if s > 1 && n > 8 {
		n = 3 + n%6
	}
	c.End = c.Start + int64(n)*s
	if c.End > c27MaxT {
		c.End = c27MaxT
	}
	c.Seed = uint64(c27U(t, 1<<20, "seed"))
}

var c27Whats = []string{Avg, Sum, SumSec, Count, CountSec, Min, Max}

func c27GenMod(t *rapid.T, c *c27Case, q *c27Query) {
	k := c27U(t, 10, "mod")
	if k < 3 {
		return
	}
	q.HasMod = true
	q.Without = k >= 7
	n := c27U(t, 3, "nby")
	names := []string{"a", "b", "c", "1", "2", "3", "a", "b", "zz"}
	for i := 0; i < n; i++ {
		q.By = append(q.By, c27Pick(t, names, "label"))
	}
}

func c27GenFilter(t *rapid.T, c *c27Case, q *c27Query) {
	if c27U(t, 5, "filter") != 0 {
		return
	}
	tag := c27TagNames[1+c27U(t, c.NTags, "ftag")]
	op := c27Pick(t, []string{"=", "!="}, "fop")
	q.Filter = fmt.Sprintf(`%s%s"v%d"`, tag, op, 1+c27U(t, 3, "fval"))
}

func c27GenAgg() *rapid.Generator[c27Case] {
	return rapid.Custom(func(t *rapid.T) c27Case {
		var c c27Case
		c27GenWindow(t, &c)
		q := c27Query{Sub: "agg"}
		q.Op = c27Pick(t, []string{"sum", "min", "max", "avg", "count", "group", "stddev", "stdvar", "quantile", "quantile", "topk", "bottomk", "topk", "bottomk", "bottomk", "sort", "sort_desc"}, "op")
		switch q.Op {
		case "quantile":
			q.Param = vpF([]float64{0.5, 0, 1, 0.25, 0.9, 0.33, -1, 2}[c27U(t, 8, "phi")])
		case "topk", "bottomk":
			q.Param = vpF(float64([]int{1, 2, 3, 1, 5, 0}[c27U(t, 6, "k")]))
		}
		family := q.Op == "topk" || q.Op == "bottomk" || q.Op == "sort" || q.Op == "sort_desc"
		earlyPct := []int{0, 0, 10, 20}[c27U(t, 4, "earlypct")]
		if family {
			earlyPct = []int{0, 25, 30, 40}[c27U(t, 4, "earlypct-topk")]
		}
		c27GenData(t, &c, earlyPct)
		q.What = c27Pick(t, c27Whats, "what")
		q.Inner = c27Pick(t, []string{"plus0", "plus0", "neg", "abs", "mul2", "gt", "lt"}, "inner")
		if family && c27U(t, 3, "filter-inner") == 0 {
			q.Inner = c27Pick(t, []string{"gt", "lt"}, "inner2")
		}
		if q.Inner == "gt" || q.Inner == "lt" {
			// a threshold inside the value range of the data, on a what that returns event values
			q.What = c27Pick(t, []string{Avg, Min, Max}, "what-cmp")
			lo, hi := math.MaxInt32, math.MinInt32
			for _, r := range c.Rows {
				for _, v := range r.Vals {
					lo, hi = min(lo, v), max(hi, v)
				}
			}
			q.Thr = vpF(float64(lo) + float64(hi-lo)*float64(2+c27U(t, 7, "thr"))/10)
		}
		c27GenMod(t, &c, &q)
		c27GenFilter(t, &c, &q)
		c.Q = q
		return c
	})
}

var c27Fns = []string{"sum_over_time", "avg_over_time", "min_over_time", "max_over_time", "count_over_time", "stddev_over_time", "stdvar_over_time", "last_over_time", "quantile_over_time"}

func c27GenOverTime() *rapid.Generator[c27Case] {
	return rapid.Custom(func(t *rapid.T) c27Case {
		var c c27Case
		c27GenWindow(t, &c)
		c27GenData(t, &c, []int{0, 0, 15, 30}[c27U(t, 4, "earlypct")])
		q := c27Query{Sub: "overtime"}
		q.Fn = c27Pick(t, c27Fns, "fn")
		if q.Fn == "quantile_over_time" {
			q.Param = vpF([]float64{0.5, 0, 1, 0.25, 0.9, 0.33, -1, 2}[c27U(t, 8, "phi")])
		}
		s := c.Step
		if s == 0 {
			s = 1
		}
		q.Range = s * int64(2+c27U(t, 6, "rangemul"))
		if c27U(t, 12, "oddrange") == 0 {
			q.Range += 1 + int64(c27U(t, 3, "odd"))
		}
		q.Subq = c27U(t, 3, "subq") == 0
		q.What = c27Pick(t, c27Whats, "what")
		q.Inner = c27Pick(t, []string{"plus0", "neg", "abs", "mul2"}, "inner")
		c27GenFilter(t, &c, &q)
		c.Q = q
		return c
	})
}

func c27GenReduce() *rapid.Generator[c27Case] {
	return rapid.Custom(func(t *rapid.T) c27Case {
		var c c27Case
		c27GenWindow(t, &c)
		c27GenData(t, &c, []int{0, 0, 15, 30}[c27U(t, 4, "earlypct")])
		q := c27Query{Sub: "reduce"}
		q.Shape = []int{0, 0, 0, 1, 2, 3}[c27U(t, 6, "shape")]
		ops := []string{"sum", "min", "max", "avg", "count"}
		fns := []string{"sum_over_time", "min_over_time", "max_over_time", "avg_over_time", "count_over_time"}
		if q.Shape != 1 {
			q.Op = c27Pick(t, ops, "op")
			c27GenMod(t, &c, &q)
		}
		if q.Shape != 0 {
			q.Fn = c27Pick(t, fns, "fn")
			s := c.Step
			if s == 0 {
				s = 1
			}
			q.Range = s // a rule applies only to ranges not longer than the grid step
			if c27U(t, 6, "longer") == 0 {
				q.Range = 2 * s
			}
		}
		// the "what" of the selector: mostly the one the rule stands for, otherwise any
		name := q.Op
		if q.Shape == 1 {
			name = q.Fn
		}
		if rw := c27RuleWhat(name); len(rw) != 0 && c27U(t, 10, "rulewhat") < 6 {
			q.What = c27Pick(t, rw, "what")
		} else {
			q.What = c27Pick(t, c27Whats, "what")
		}
		c27GenFilter(t, &c, &q)
		c.Q = q
		return c
	})
}

func c27Run(t *testing.T, sub string, gen *rapid.Generator[c27Case]) {
	ev := vpNewEv(t, "C27", sub)
	rapid.Check(t, func(rt *rapid.T) {
		c := gen.Draw(rt, "case")
		vpRunCase(rt, "C27", sub, c, func() {
			nt, cls := c27Prop(rt, c, ev)
			ev.Case(nt, c, cls...)
		})
	})
}

func TestVerifC27Agg(t *testing.T)      { c27Run(t, "agg", c27GenAgg()) }
func TestVerifC27OverTime(t *testing.T) { c27Run(t, "overtime", c27GenOverTime()) }
func TestVerifC27Reduce(t *testing.T)   { c27Run(t, "reduce", c27GenReduce()) }

func init() {
	dec := func(sub string) func(t vpT, raw json.RawMessage) {
		return func(t vpT, raw json.RawMessage) {
			var c c27Case
			if err := json.Unmarshal(raw, &c); err != nil {
				t.Fatalf("decode: %v", err)
			}
			var ev *vpEvidence
			if tb, ok := t.(testing.TB); ok {
				ev = vpNewEv(tb, "C27", sub) // so that a listed finding met in a replay is reported by the driver
			}
			c27Prop(t, c, ev)
		}
	}
	vpReplayers["C27/agg"] = dec("agg")
	vpReplayers["C27/overtime"] = dec("overtime")
	vpReplayers["C27/reduce"] = dec("reduce")
}
