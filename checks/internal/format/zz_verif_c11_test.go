//go:build verif

package format

import (
	"bytes"
	"encoding/json"
	"math/big"
	"regexp"
	"strings"
	"testing"
	"unicode"
	"unicode/utf8"

	"pgregory.net/rapid"
)

// ---------- C11: tag value normalisation and raw tag parsing ----------

type c11Str struct {
	B []byte `json:"b"` // json: base64
}

// independent validity predicate, written from the statement
func c11Valid(b []byte) bool {
	if !utf8.Valid(b) || len(b) > 128 {
		return false
	}
	s := string(b)
	if s == "" {
		return true
	}
	if s[0] == ' ' || s[len(s)-1] == ' ' || strings.Contains(s, "  ") {
		return false
	}
	for _, r := range s {
		if r == ' ' {
			continue
		}
		if unicode.IsSpace(r) || !unicode.IsPrint(r) {
			return false
		}
	}
	return true
}

// c11RefForce is a reference normaliser written from the rules documented above ValidStringValue:
// 1. trim unicode whitespace left and right, 2. replace runs of unicode whitespace inside by one ASCII
// space, 3. cut to 128 bytes without splitting a rune, 4. non-printable runes (and, when forcing, invalid
// bytes) become U+FFFD.
func c11RefForce(b []byte) string {
	var out []rune
	prevSpace := true
	for i := 0; i < len(b); {
		r, n := utf8.DecodeRune(b[i:])
		i += n
		switch {
		case unicode.IsSpace(r):
			if prevSpace {
				continue
			}
			out = append(out, ' ')
			prevSpace = true
			continue
		case !unicode.IsPrint(r):
			r = utf8.RuneError
		}
		out = append(out, r)
		prevSpace = false
	}
	var res []byte
	for _, r := range out {
		if len(res)+utf8.RuneLen(r) > 128 {
			break
		}
		res = utf8.AppendRune(res, r)
	}
	if n := len(res); n > 0 && res[n-1] == ' ' {
		res = res[:n-1]
	}
	return string(res)
}

func c11PropStr(t vpT, c c11Str) (nontrivial bool) {
	in := append([]byte(nil), c.B...)
	v := ForceValidStringValue(string(in))
	if ref := c11RefForce(c.B); v != ref {
		t.Fatalf("forced value %q of %q (%d bytes) differs from the documented normalisation %q", v, c.B, len(c.B), ref)
	}
	if !bytes.Equal(in, c.B) {
		t.Fatalf("input mutated")
	}
	if !c11Valid([]byte(v)) {
		t.Fatalf("forced value %q of %q is not valid", v, c.B)
	}
	wasValid := c11Valid(c.B)
	if wasValid && v != string(c.B) {
		t.Fatalf("valid input %q changed to %q", c.B, v)
	}
	if ValidStringValue(string(c.B)) != wasValid || ValidStringValueBytes(c.B) != wasValid {
		t.Fatalf("ValidStringValue(%q)=%v, reference %v", c.B, ValidStringValue(string(c.B)), wasValid)
	}
	if v2 := ForceValidStringValue(v); v2 != v {
		t.Fatalf("not idempotent: %q -> %q -> %q", c.B, v, v2)
	}
	vb := ForceValidStringValueBytes(append([]byte(nil), c.B...))
	if string(vb) != v {
		t.Fatalf("bytes variant %q != string variant %q for %q", vb, v, c.B)
	}
	prefix := []byte("\x00pre ")
	res, err := AppendValidStringValue(append([]byte(nil), prefix...), append([]byte(nil), c.B...))
	if !bytes.HasPrefix(res, prefix) {
		t.Fatalf("dst prefix damaged: %q", res)
	}
	if err != nil {
		if utf8.Valid(c.B) {
			t.Fatalf("strict normalisation failed on valid UTF-8 %q: %v", c.B, err)
		}
		if len(res) != len(prefix) {
			t.Fatalf("strict normalisation failed but appended %q", res[len(prefix):])
		}
	} else if string(res[len(prefix):]) != v {
		t.Fatalf("strict %q != forced %q for %q", res[len(prefix):], v, c.B)
	}
	return !wasValid
}

var c11Pieces = []string{
	"a", "Z", "0", "_", "-", ".", "~", " ", " ", "  ", "\t", "\n", "\r", "\v", "\f", "\u0085", "\u00a0", "\u2003", "\u2028", "\u3000",
	"\x00", "\x01", "\x1f", "\x7f", "\u0080", "\u009f", "\u200b", "\ufeff", "\ufffd", "\ue000", "\U000e0001",
	"\u00e9", "\u0436", "\u20ac", "\u6f22", "\U0001f600", "\U0010ffff",
	"\xff", "\xc0", "\xc3", "\xe2\x82", "\xf0\x9f\x98", "\xed\xa0\x80", "\xc0\xaf", "\x80",
}

func c11GenStr() *rapid.Generator[c11Str] {
	return rapid.Custom(func(t *rapid.T) c11Str {
		mode := rapid.IntRange(0, 11).Draw(t, "mode")
		if mode == 11 { // fully normalised over the whole length, only too long: short words joined by single spaces
			target := rapid.IntRange(120, 300).Draw(t, "len")
			var b []byte
			for len(b) < target {
				if len(b) > 0 {
					b = append(b, ' ')
				}
				k := rapid.IntRange(1, 5).Draw(t, "k")
				for j := 0; j < k; j++ {
					b = append(b, rapid.SampledFrom([]string{"a", "Z", "0", "_", "-", ".", "~", "\u00e9", "\u0436", "\u20ac", "\u6f22", "\U0001f600"}).Draw(t, "piece")...)
				}
			}
			return c11Str{B: b}
		}
		if mode == 0 {
			return c11Str{B: rapid.SliceOfN(rapid.Byte(), 0, 300).Draw(t, "raw")}
		}
		if mode == 10 { // long inputs: short content separated / padded by long whitespace runs
			var b []byte
			n := rapid.IntRange(1, 6).Draw(t, "chunks")
			for i := 0; i < n; i++ {
				pad := rapid.IntRange(0, 700).Draw(t, "pad")
				ws := rapid.SampledFrom([]string{" ", "\t", "\n", "\u00a0", "\u2003", "\u3000"}).Draw(t, "ws")
				for len(ws) > 0 && pad > 0 {
					b = append(b, ws...)
					pad -= len(ws)
				}
				k := rapid.IntRange(0, 12).Draw(t, "k")
				for j := 0; j < k; j++ {
					b = append(b, rapid.SampledFrom(c11Pieces).Draw(t, "piece")...)
				}
			}
			return c11Str{B: b}
		}
		var target int
		switch rapid.IntRange(0, 3).Draw(t, "lenclass") {
		case 0:
			target = rapid.IntRange(0, 6).Draw(t, "len")
		case 1:
			target = rapid.IntRange(120, 136).Draw(t, "len")
		case 2:
			target = rapid.IntRange(0, 128).Draw(t, "len")
		default:
			target = rapid.IntRange(0, 300).Draw(t, "len")
		}
		var b []byte
		// mode 1..3: mostly plain ascii with a few special pieces (reaches "already valid" and near-valid)
		for len(b) < target {
			if mode <= 3 && rapid.IntRange(0, 9).Draw(t, "plain") != 0 {
				b = append(b, byte(rapid.IntRange('a', 'z').Draw(t, "ch")))
				continue
			}
			if mode >= 8 {
				b = utf8.AppendRune(b, rapid.Rune().Draw(t, "rune"))
				continue
			}
			b = append(b, rapid.SampledFrom(c11Pieces).Draw(t, "piece")...)
		}
		return c11Str{B: b}
	})
}

// c11ValidIgnoringLength: every normalisation rule except the 128-byte limit already holds.
func c11ValidIgnoringLength(b []byte) bool {
	if !utf8.Valid(b) {
		return false
	}
	s := string(b)
	if s == "" {
		return true
	}
	if s[0] == ' ' || s[len(s)-1] == ' ' || strings.Contains(s, "  ") {
		return false
	}
	for _, r := range s {
		if r != ' ' && (unicode.IsSpace(r) || !unicode.IsPrint(r)) {
			return false
		}
	}
	return true
}

// c11CutIndex is the byte index at which a too-long value is cut (last rune boundary <= 128).
func c11CutIndex(b []byte) int {
	if len(b) <= 128 {
		return len(b)
	}
	n := 128
	for n > 0 && !utf8.RuneStart(b[n]) {
		n--
	}
	return n
}

func TestVerifC11Str(t *testing.T) {
	ev := vpNewEv(t, "C11", "str")
	rapid.Check(t, func(rt *rapid.T) {
		c := c11GenStr().Draw(rt, "case")
		vpRunCase(rt, "C11", "str", c, func() {
			nt := c11PropStr(rt, c)
			cls := []string{}
			if len(c.B) > 128 {
				cls = append(cls, "longer-than-128")
			}
			if len(c.B) > 512 {
				cls = append(cls, "longer-than-512")
			}
			if !utf8.Valid(c.B) {
				cls = append(cls, "invalid-utf8")
			}
			if !nt {
				cls = append(cls, "already-valid")
			} else if len(c.B) > 128 && c11ValidIgnoringLength(c.B) {
				cls = append(cls, "valid-except-too-long")
				if i := c11CutIndex(c.B); i > 0 && c.B[i-1] == ' ' {
					cls = append(cls, "too-long-cut-after-space")
				}
			}
			ev.Case(nt, string(c.B), cls...)
		})
	})
}

// ---------- raw tags ----------

type c11Raw struct {
	S string `json:"s"`
}

var (
	c11Dec   = regexp.MustCompile(`^-?[0-9]+$`)
	c11Plus  = regexp.MustCompile(`^\+[0-9]+$`)
	c11Lo32  = big.NewInt(-1 << 31)
	c11Hi32  = big.NewInt(1<<32 - 1)
	c11Lo64  = new(big.Int).Neg(new(big.Int).Lsh(big.NewInt(1), 63))
	c11Hi64  = new(big.Int).Sub(new(big.Int).Lsh(big.NewInt(1), 64), big.NewInt(1))
	c11Two32 = new(big.Int).Lsh(big.NewInt(1), 32)
	c11Two64 = new(big.Int).Lsh(big.NewInt(1), 64)
)

func c11PropRaw(t vpT, c c11Raw) (nontrivial bool) {
	s := c.S
	v32, ok32 := ContainsRawTagValueBytes([]byte(s))
	lo, hi, ok64 := ContainsRawTagValue64Bytes([]byte(s))
	if c11Plus.MatchString(s) {
		return false // "+5": the statement says decimal integers; not asserted either way
	}
	if !c11Dec.MatchString(s) {
		if ok32 || ok64 {
			t.Fatalf("garbage %q accepted as raw tag (32:%v 64:%v)", s, ok32, ok64)
		}
		return false
	}
	n, _ := new(big.Int).SetString(s, 10)
	want32 := n.Cmp(c11Lo32) >= 0 && n.Cmp(c11Hi32) <= 0
	want64 := n.Cmp(c11Lo64) >= 0 && n.Cmp(c11Hi64) <= 0
	if ok32 != want32 {
		t.Fatalf("raw32 %q accepted=%v want %v", s, ok32, want32)
	}
	if ok64 != want64 {
		t.Fatalf("raw64 %q accepted=%v want %v", s, ok64, want64)
	}
	if ok32 {
		var dec *big.Int
		if n.Sign() < 0 {
			dec = big.NewInt(int64(v32))
		} else {
			dec = big.NewInt(int64(uint32(v32)))
		}
		if dec.Cmp(n) != 0 {
			t.Fatalf("raw32 %q stored %d decodes to %v", s, v32, dec)
		}
	}
	if ok64 {
		u := uint64(uint32(lo)) | uint64(uint32(hi))<<32
		var dec *big.Int
		if n.Sign() < 0 {
			dec = big.NewInt(int64(u))
		} else {
			dec = new(big.Int).SetUint64(u)
		}
		if dec.Cmp(n) != 0 {
			t.Fatalf("raw64 %q stored lo=%d hi=%d decodes to %v", s, lo, hi, dec)
		}
	}
	for _, b := range []*big.Int{c11Lo32, c11Hi32, c11Lo64, c11Hi64, big.NewInt(0), big.NewInt(1 << 31), c11Two32} {
		d := new(big.Int).Sub(n, b)
		if d.CmpAbs(big.NewInt(2)) <= 0 {
			return true
		}
	}
	return false
}

func c11GenRaw() *rapid.Generator[c11Raw] {
	bounds := []*big.Int{c11Lo32, c11Hi32, c11Lo64, c11Hi64, big.NewInt(0), big.NewInt(1 << 31), big.NewInt(1<<31 - 1), c11Two32, c11Two64,
		new(big.Int).Lsh(big.NewInt(1), 63), new(big.Int).Neg(c11Two32), new(big.Int).Neg(c11Two64)}
	return rapid.Custom(func(t *rapid.T) c11Raw {
		var s string
		switch rapid.IntRange(0, 5).Draw(t, "kind") {
		case 0, 1: // near a boundary
			b := rapid.SampledFrom(bounds).Draw(t, "bound")
			d := rapid.Int64Range(-3, 3).Draw(t, "delta")
			s = new(big.Int).Add(b, big.NewInt(d)).String()
		case 2:
			s = big.NewInt(rapid.Int64().Draw(t, "i64")).String()
		case 3:
			s = new(big.Int).SetUint64(rapid.Uint64().Draw(t, "u64")).String()
		case 4: // long digit strings
			s = rapid.StringMatching(`-?[0-9]{1,30}`).Draw(t, "digits")
		default:
			s = rapid.StringMatching(`[-+ ]?[0-9]{0,12}[ _xe.a-]?[0-9]{0,3}`).Draw(t, "garbage")
		}
		if rapid.IntRange(0, 5).Draw(t, "zeros") == 0 && s != "" { // leading zeros after the sign
			k := rapid.IntRange(1, 25).Draw(t, "nz")
			if s[0] == '-' {
				s = "-" + strings.Repeat("0", k) + s[1:]
			} else {
				s = strings.Repeat("0", k) + s
			}
		}
		return c11Raw{S: s}
	})
}

func TestVerifC11Raw(t *testing.T) {
	ev := vpNewEv(t, "C11", "raw")
	rapid.Check(t, func(rt *rapid.T) {
		c := c11GenRaw().Draw(rt, "case")
		vpRunCase(rt, "C11", "raw", c, func() {
			nt := c11PropRaw(rt, c)
			cls := []string{}
			if c11Dec.MatchString(c.S) {
				cls = append(cls, "decimal")
			} else if c11Plus.MatchString(c.S) {
				cls = append(cls, "plus-not-asserted")
			} else {
				cls = append(cls, "garbage")
			}
			ev.Case(nt, c.S, cls...)
		})
	})
}

func init() {
	vpReplayers["C11/str"] = func(t vpT, raw json.RawMessage) {
		var c c11Str
		if err := json.Unmarshal(raw, &c); err != nil {
			t.Fatalf("decode: %v", err)
		}
		c11PropStr(t, c)
	}
	vpReplayers["C11/raw"] = func(t vpT, raw json.RawMessage) {
		var c c11Raw
		if err := json.Unmarshal(raw, &c); err != nil {
			t.Fatalf("decode: %v", err)
		}
		c11PropRaw(t, c)
	}
}

// native fuzz (thorough tier only): same oracles, coverage-guided bytes
func FuzzVerifC11Str(f *testing.F) {
	for _, p := range c11Pieces {
		f.Add([]byte(p))
		f.Add([]byte(strings.Repeat("a", 126) + p + "b"))
		f.Add([]byte(strings.Repeat("a", 120) + " " + p + p + " "))
		f.Add([]byte("a" + strings.Repeat(" ", 509) + p + "tail"))
		f.Add([]byte(strings.Repeat("\u3000", 171) + p + "x"))
	}
	f.Fuzz(func(t *testing.T, b []byte) { c11PropStr(t, c11Str{B: b}) })
}

func FuzzVerifC11Raw(f *testing.F) {
	for _, s := range []string{"0", "-1", "4294967295", "4294967296", "-2147483648", "-2147483649", "18446744073709551615", "18446744073709551616", "-9223372036854775808", "-9223372036854775809", "+1", "1_0", "0x10", " 1", "", "-", "00000000000000000000001"} {
		f.Add(s)
	}
	f.Fuzz(func(t *testing.T, s string) { c11PropRaw(t, c11Raw{S: s}) })
}
