//go:build verif

package compress

import (
	"bytes"
	"encoding/binary"
	"encoding/json"
	"testing"

	"pgregory.net/rapid"

	"github.com/VKCOM/statshouse/internal/data_model"
)

// ---------- C14 frames: CompressAndFrame / DeFrame / Decompress ----------
// Entry points as used by the agent (preProcess: CompressAndFrame(WriteTL1Boxed(bucket));
// sendSourceBucket3Compressed: DeFrame -> OriginalSize + CompressedData) and by the aggregator
// (handleSendSourceBucket3: Decompress(args.OriginalSize, args.CompressedData)).

// A payload is described by segments so that large payloads stay small as data (replay file, digest).
type c14Seg struct {
	Kind string `json:"k"` // raw | rand | rep | zero | text
	N    int    `json:"n,omitempty"`
	Seed uint64 `json:"seed,omitempty"`
	Raw  []byte `json:"raw,omitempty"`
}

type c14FrameCase struct {
	Segs     []c14Seg `json:"segs"`
	Declared []uint32 `json:"declared,omitempty"` // wrong sizes to declare for the produced data
	Cuts     []uint32 `json:"cuts,omitempty"`     // truncation points of the frame (modulo its length)
	Junk     []byte   `json:"junk,omitempty"`     // arbitrary frame fed to DeFrame/Decompress
	JunkSize uint32   `json:"junk_size,omitempty"`
}

func c14SplitMix(s *uint64) uint64 {
	*s += 0x9e3779b97f4a7c15
	z := *s
	z = (z ^ (z >> 30)) * 0xbf58476d1ce4e5b9
	z = (z ^ (z >> 27)) * 0x94d049bb133111eb
	return z ^ (z >> 31)
}

func c14Payload(segs []c14Seg) []byte {
	var b []byte
	for _, s := range segs {
		st := s.Seed
		switch s.Kind {
		case "raw":
			b = append(b, s.Raw...)
		case "rand": // incompressible
			for i := 0; i < s.N; i += 8 {
				var w [8]byte
				binary.LittleEndian.PutUint64(w[:], c14SplitMix(&st))
				k := s.N - i
				if k > 8 {
					k = 8
				}
				b = append(b, w[:k]...)
			}
		case "rep": // period taken from the seed: long matches, overlapping copies
			period := int(s.Seed%61) + 1
			for i := 0; i < s.N; i++ {
				b = append(b, byte(uint64(i%period)*0x9d+s.Seed))
			}
		case "zero":
			b = append(b, make([]byte, s.N)...)
		case "text": // low-entropy words, like TL strings of tag values
			for s.N > 0 {
				w := c14SplitMix(&st)
				word := []byte{byte('a' + w%7), byte('a' + (w>>8)%5), byte('0' + (w>>16)%3), 0, 0, 0, byte((w >> 24) % 4), 0}
				if s.N < len(word) {
					word = word[:s.N]
				}
				b = append(b, word...)
				s.N -= len(word)
			}
		}
	}
	return b
}

func c14FrameProp(t vpT, c c14FrameCase) (nontrivial bool, classes []string) {
	b := c14Payload(c.Segs)
	orig := append([]byte(nil), b...)
	frame := CompressAndFrame(b)
	if !bytes.Equal(b, orig) {
		t.Fatalf("CompressAndFrame modified its input")
	}
	if len(frame) < 4 {
		t.Fatalf("frame of %d payload bytes is %d bytes", len(b), len(frame))
	}
	if len(frame) > 4+len(b) {
		t.Fatalf("frame (%d bytes) is larger than header+payload (%d): incompressible data must be stored", len(frame), 4+len(b))
	}
	size, data, err := DeFrame(frame)
	if err != nil {
		t.Fatalf("DeFrame(CompressAndFrame(b)) failed: %v", err)
	}
	if int(size) != len(b) {
		t.Fatalf("frame declares %d bytes, payload has %d", size, len(b))
	}
	if !bytes.Equal(data, frame[4:]) {
		t.Fatalf("DeFrame returned other data than the frame body")
	}
	// what travels: the agent copies data into a string field, the aggregator gets its own copy
	wire := append([]byte(nil), data...)
	out, err := Decompress(size, wire)
	if err != nil {
		t.Fatalf("Decompress(DeFrame(CompressAndFrame(b))) failed for %d bytes: %v", len(b), err)
	}
	if !bytes.Equal(out, orig) {
		t.Fatalf("round trip changed the payload: %d bytes in, %d bytes out, first difference at %d", len(orig), len(out), c14FrameDiff(orig, out))
	}
	stored := len(data) == len(b)
	if stored {
		classes = append(classes, "stored")
	} else {
		classes = append(classes, "compressed")
	}
	switch {
	case len(b) == 0:
		classes = append(classes, "empty")
	case len(b) >= 1<<20:
		classes = append(classes, "size>=1MiB")
	case len(b) >= 1<<16:
		classes = append(classes, "size>=64KiB")
	}
	nontrivial = len(b) > 0

	// undersized frames
	for k := 0; k < 4 && k <= len(frame); k++ {
		if _, _, err := DeFrame(frame[:k:k]); err == nil {
			t.Fatalf("DeFrame accepted a %d byte frame", k)
		}
	}
	// truncated frames: a compressed body that lost its tail must be rejected
	for _, cu := range c.Cuts {
		if len(frame) <= 4 {
			break
		}
		k := 4 + int(cu%uint32(len(frame)-4))
		s2, d2, err := DeFrame(frame[:k:k])
		if err != nil {
			t.Fatalf("DeFrame failed on a %d byte frame: %v", k, err)
		}
		o2, err := Decompress(s2, d2)
		if err == nil {
			if stored {
				// a stored payload cut short is fed to the LZ4 decoder; it may by chance be a valid block,
				// but then it must at least have the declared length
				if len(o2) != int(s2) {
					t.Fatalf("truncated stored frame accepted with %d bytes, %d declared", len(o2), s2)
				}
				classes = append(classes, "truncated-stored-accepted")
			} else {
				t.Fatalf("truncated compressed frame accepted: %d of %d frame bytes, declared %d, got %d bytes", k, len(frame), s2, len(o2))
			}
		} else {
			classes = append(classes, "truncated-rejected")
		}
	}
	// wrong declared size
	for _, d := range c.Declared {
		if int(d) == len(b) || int(d) == len(data) {
			continue // correct, or indistinguishable from a stored payload of that size
		}
		o2, err := Decompress(d, append([]byte(nil), data...))
		over := d > data_model.MaxUncompressedBucketSize
		if over {
			classes = append(classes, "declared>max")
		}
		if err != nil {
			classes = append(classes, "wrong-size-rejected")
			continue
		}
		if over {
			t.Fatalf("declared size %d > MaxUncompressedBucketSize accepted (%d data bytes)", d, len(data))
		}
		if !stored {
			t.Fatalf("compressed frame of a %d byte payload accepted with declared size %d (got %d bytes)", len(b), d, len(o2))
		}
		if len(o2) != int(d) {
			t.Fatalf("stored payload accepted with declared size %d but %d bytes returned", d, len(o2))
		}
		classes = append(classes, "stored-payload-is-valid-lz4(accepted)")
	}
	// arbitrary frames: never panic; an accepted frame has exactly the declared length
	if c.Junk != nil {
		if s3, d3, err := DeFrame(c.Junk); err == nil {
			if o3, err := Decompress(s3, d3); err == nil {
				if len(o3) != int(s3) {
					t.Fatalf("junk frame accepted: declared %d, got %d bytes", s3, len(o3))
				}
				classes = append(classes, "junk-accepted")
			} else {
				classes = append(classes, "junk-rejected")
			}
		} else if len(c.Junk) >= 4 {
			t.Fatalf("DeFrame rejected a %d byte frame: %v", len(c.Junk), err)
		}
		o4, err := Decompress(c.JunkSize, c.Junk)
		if err == nil && len(o4) != int(c.JunkSize) {
			t.Fatalf("junk data accepted: declared %d, got %d bytes", c.JunkSize, len(o4))
		}
		if err == nil && c.JunkSize > data_model.MaxUncompressedBucketSize && int(c.JunkSize) != len(c.Junk) {
			t.Fatalf("declared size %d > MaxUncompressedBucketSize accepted", c.JunkSize)
		}
	}
	return nontrivial, classes
}

func c14FrameDiff(a, b []byte) int {
	n := len(a)
	if len(b) < n {
		n = len(b)
	}
	for i := 0; i < n; i++ {
		if a[i] != b[i] {
			return i
		}
	}
	return n
}

func c14FrameGen() *rapid.Generator[c14FrameCase] {
	return rapid.Custom(func(t *rapid.T) c14FrameCase {
		var c c14FrameCase
		big := rapid.IntRange(0, 59).Draw(t, "big") == 37 // rapid favours the ends of a range
		nseg := rapid.SampledFrom([]int{1, 2, 3, 0, 1, 2, 4, 1}).Draw(t, "nseg")
		for i := 0; i < nseg; i++ {
			kind := rapid.SampledFrom([]string{"raw", "raw", "rand", "rep", "zero", "text"}).Draw(t, "kind")
			s := c14Seg{Kind: kind}
			if kind == "raw" {
				s.Raw = rapid.SliceOfN(rapid.Byte(), 0, 40).Draw(t, "raw")
			} else {
				switch {
				case kind == "text": // unbounded-depth HC is quadratic-ish on low-entropy words
					s.N = rapid.IntRange(0, 3000).Draw(t, "n")
				case big:
					s.N = rapid.SampledFrom([]int{1 << 16, 1<<16 + 1, 300000, 1 << 20, 1<<20 + 13, 3 << 20}).Draw(t, "bign")
				case rapid.IntRange(0, 9).Draw(t, "mid") == 4:
					s.N = rapid.IntRange(0, 70000).Draw(t, "n")
				default:
					s.N = rapid.IntRange(0, 600).Draw(t, "n")
				}
				s.Seed = rapid.Uint64().Draw(t, "seed")
			}
			c.Segs = append(c.Segs, s)
		}
		nd := rapid.IntRange(0, 3).Draw(t, "ndecl")
		for i := 0; i < nd; i++ {
			var d uint32
			switch dk := rapid.IntRange(0, 39).Draw(t, "dk"); {
			case dk == 23: // exactly the limit (a 10 MiB buffer is allocated): rare
				d = data_model.MaxUncompressedBucketSize
			case dk < 10:
				d = rapid.Uint32Range(0, 4096).Draw(t, "d")
			case dk < 20: // above the limit: must be refused without looking at the data
				d = rapid.SampledFrom([]uint32{data_model.MaxUncompressedBucketSize + 1, 1 << 31, 1<<31 - 1, 1<<32 - 1, 1<<32 - 4}).Draw(t, "d")
			case dk < 30: // off by a little from the true payload size
				d = uint32(rapid.IntRange(-3, 3).Draw(t, "dd")) + uint32(c14PayloadLen(c.Segs))
			case dk < 35:
				d = rapid.Uint32Range(0, 1<<20).Draw(t, "d")
			default:
				d = rapid.Uint32Range(data_model.MaxUncompressedBucketSize+1, 1<<32-1).Draw(t, "d")
			}
			c.Declared = append(c.Declared, d)
		}
		c.Cuts = rapid.SliceOfN(rapid.Uint32(), 0, 3).Draw(t, "cuts")
		if rapid.IntRange(0, 2).Draw(t, "junk") == 0 {
			c.Junk = rapid.SliceOfN(rapid.Byte(), 0, 64).Draw(t, "junkbytes")
			c.JunkSize = rapid.OneOf(rapid.Uint32Range(0, 200), rapid.Uint32Range(0, 1<<18), rapid.Uint32Range(data_model.MaxUncompressedBucketSize-2, 1<<32-1)).Draw(t, "junksize")
		}
		return c
	})
}

func c14PayloadLen(segs []c14Seg) int {
	n := 0
	for _, s := range segs {
		if s.Kind == "raw" {
			n += len(s.Raw)
		} else {
			n += s.N
		}
	}
	return n
}

func TestVerifC14Frame(t *testing.T) {
	ev := vpNewEv(t, "C14", "frame")
	rapid.Check(t, func(rt *rapid.T) {
		c := c14FrameGen().Draw(rt, "case")
		vpRunCase(rt, "C14", "frame", c, func() {
			nt, cls := c14FrameProp(rt, c)
			ev.Case(nt, c, cls...)
		})
	})
}

func init() {
	vpReplayers["C14/frame"] = func(t vpT, raw json.RawMessage) {
		var c c14FrameCase
		if err := json.Unmarshal(raw, &c); err != nil {
			t.Fatalf("decode: %v", err)
		}
		c14FrameProp(t, c)
	}
}
