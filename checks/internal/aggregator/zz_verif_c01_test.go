//go:build verif

package aggregator

import (
	"encoding/json"
	"fmt"
	"net/http"
	"sort"
	"strings"
	"testing"
	"time"

	"pgregory.net/rapid"

	"github.com/VKCOM/statshouse/internal/data_model"
	"github.com/VKCOM/statshouse/internal/data_model/gen2/tlstatshouse"
	"github.com/VKCOM/statshouse/internal/format"
)

// ---------- C01 layer A: the aggregator acknowledges a second only after a successful insert containing it, or
// after a deliberate rejection (outside the historic window, too far in the future, wrong shard, undecodable, agent too old) ----------

const c01MarkerMetric = 7000

type c01Step struct {
	Kind string `json:"kind"` // "send" | "tick" | "shutdown"
	// send
	Agent    int  `json:"agent,omitempty"`
	Dt       int  `json:"dt,omitempty"`     // args.Time = now + Dt ...
	Resend   int  `json:"resend,omitempty"` // ... unless Resend > 0: args.Time of the Resend-th last earlier request (the agent offers a second again)
	Historic bool `json:"historic,omitempty"`
	Spare    bool `json:"spare,omitempty"`
	WrongSR  int  `json:"wrong_sr,omitempty"`
	OldAgent bool `json:"old_agent,omitempty"`
	Corrupt  int  `json:"corrupt,omitempty"`
	// tick
	Advance  int  `json:"advance,omitempty"`
	FailMask int  `json:"fail_mask,omitempty"` // bit i: the i-th INSERT of this tick fails
	Status   int  `json:"status,omitempty"`    // HTTP status of failing INSERTs (500, 503, 404)
	FullMask int  `json:"full_mask,omitempty"` // bit i: the i-th own bucket of this tick finds the insert conveyor full
	Hold     bool `json:"hold,omitempty"`      // fake ClickHouse keeps the INSERTs open for a moment before answering
}

type c01Case struct {
	Replica        int32     `json:"replica"`
	ShortWindow    int       `json:"short_window"`
	HistoricWindow int       `json:"historic_window"`
	Now            uint32    `json:"now"`
	Steps          []c01Step `json:"steps"`
}

type c01Req struct {
	ord      int
	step     int
	at       uint32
	rounded  uint32
	nowSent  uint32 // virtual time when sent
	historic bool
	agent    int
	reject   string // model: reason that permits an answer without insert at send time ("" = none)
	lateKeep bool   // model: late recent request, must be answered keep
	afterShutdown bool
	call     *vpAggCall
	nowSeen  uint32 // virtual time of the step during which the answer was first seen
	seen     bool
}

func c01MarkerBucket(ord int) tlstatshouse.SourceBucket3 {
	item := tlstatshouse.MultiItem{Metric: c01MarkerMetric, Keys: []int32{0, int32(ord) + 1}}
	item.Tail.SetCounterEq1(true, &item.FieldsMask)
	filler := tlstatshouse.MultiItem{Metric: c01MarkerMetric + 1, Keys: []int32{0, 5}}
	filler.Tail.SetCounter(3, &filler.FieldsMask)
	return tlstatshouse.SourceBucket3{Metrics: []tlstatshouse.MultiItem{filler, item}}
}

func c01Prop(t vpT, c c01Case) (nontrivial bool, classes []string) {
	if c.Replica < 1 || c.Replica > 3 || c.ShortWindow < 1 || c.HistoricWindow < 1 {
		t.Fatalf("bad case")
	}
	m := vpNewMiniAgg(t, vpAggOpts{Now: c.Now, Replica: c.Replica, Shard: 2, NumShards: 3, ShortWindow: c.ShortWindow,
		HistoricWindow: c.HistoricWindow, DenyOldAgents: true})
	defer m.Close()
	now := c.Now
	cls := map[string]bool{}
	var reqs []*c01Req
	shutdown := false
	anyFault := false       // a failed INSERT, a conveyor-full bucket or a late recent request happened ...
	insertAfterFault := false // ... and a later INSERT succeeded with at least one request in it
	markSeen := func() {
		for _, r := range reqs {
			if !r.seen && r.call.IsDone() {
				r.seen, r.nowSeen = true, now
			}
		}
	}
	for si, st := range c.Steps {
		switch st.Kind {
		case "shutdown":
			m.Shutdown()
			shutdown = true
			cls["A:shutdown"] = true
		case "tick":
			now += uint32(st.Advance)
			ourIdx, insIdx := 0, 0
			status := st.Status
			if status == 0 {
				status = 500
			}
			hold := time.Duration(0)
			if st.Hold {
				hold = 2 * time.Millisecond
			}
			evs := m.Tick(now,
				func(uint32) bool { i := ourIdx; ourIdx++; return st.FullMask&(1<<i) != 0 },
				func(uint32) int {
					i := insIdx
					insIdx++
					if st.FailMask&(1<<i) != 0 {
						return status
					}
					return http.StatusOK
				}, hold)
			for _, ev := range evs {
				if ev.Stray != 0 {
					t.Fatalf("step %d: bucket %d not owned by replica %d has %d contributors", si, ev.Time, c.Replica, ev.Stray)
				}
				n := len(m.byBucket[ev.Bucket])
				for _, p := range ev.Popped {
					n += len(m.byBucket[p])
				}
				switch {
				case ev.ConveyorFull:
					if n > 0 {
						anyFault = true
						cls["A:conveyor-full"] = true
					}
				case ev.Pushed && ev.Insert.Status != http.StatusOK:
					if n > 0 {
						anyFault = true
						cls["A:insert-failed"] = true
					}
				case ev.Pushed:
					if n > 0 && anyFault {
						insertAfterFault = true
					}
					if len(ev.Popped) != 0 {
						cls["A:historic-inserted"] = true
					}
				}
			}
			markSeen()
		case "send":
			at := uint32(int64(now) + int64(st.Dt))
			if st.Resend > 0 && len(reqs) > 0 {
				at = reqs[(len(reqs)-1)-(st.Resend-1)%len(reqs)].at
				cls["A:offered-again"] = true
			}
			oldest := now - uint32(c.ShortWindow)
			newest := now + data_model.FutureWindow - 1
			rounded := at
			for rounded%3 != uint32(c.Replica-1) {
				rounded++
			}
			r := &c01Req{ord: len(reqs), step: si, agent: st.Agent, at: at, rounded: rounded, nowSent: now, historic: st.Historic, afterShutdown: shutdown}
			// reference: may this request be acknowledged without an insert?
			switch {
			case st.Corrupt != 0:
				r.reject = "undecodable"
			case st.OldAgent:
				r.reject = "agent too old"
			case st.WrongSR != 0:
				r.reject = "wrong shard/replica"
			case rounded > newest:
				r.reject = "too far in the future"
			case st.Historic && oldest >= uint32(c.HistoricWindow) && at < oldest-uint32(c.HistoricWindow):
				r.reject = "outside the historic window"
			case !st.Historic && rounded < oldest:
				r.lateKeep = true
				anyFault = true
				cls["A:late-recent"] = true
			}
			if r.reject != "" {
				cls["A:rejectable"] = true
			}
			req := vpAggReq{Host: fmt.Sprintf("agent-%d", st.Agent), Time: at, Historic: st.Historic, Spare: st.Spare,
				ShardReplica: m.OurShardReplica() + int32(st.WrongSR), ShardReplicaTotal: 9, BuildCommitTs: format.LeastAllowedAgentCommitTs + 5,
				Component: format.TagValueIDComponentAgent, Corrupt: st.Corrupt, Bucket: c01MarkerBucket(len(reqs))}
			if st.OldAgent {
				req.BuildCommitTs = format.LeastAllowedAgentCommitTs - 100
			}
			r.call = m.Send(req)
			reqs = append(reqs, r)
			if r.call.Registered && !r.call.BucketRecent {
				cls["A:queued-historic"] = true
				for _, e := range reqs[:len(reqs)-1] {
					if e.at == r.at && e.rounded != e.at && e.agent != st.Agent && e.call.Registered && !e.call.BucketRecent && !e.call.IsDone() {
						cls["A:same-second-failover-historic"] = true // several agents queue the same second on a replica that is not its primary
					}
				}
			}
			markSeen()
		default:
			t.Fatalf("bad step kind %q", st.Kind)
		}
	}
	// quiescence (virtual time): unless the aggregator was shut down, move the recent window past everything that was
	// sent and keep ticking with healthy inserts until the historic queue is empty
	quiesced := false
	if !shutdown {
		now += uint32(c.ShortWindow + data_model.FutureWindow + 3)
		for i := 0; i < 100; i++ {
			for _, ev := range m.Tick(now, nil, nil, 0) {
				if ev.Stray != 0 {
					t.Fatalf("drain: bucket %d not owned by replica %d has %d contributors", ev.Time, c.Replica, ev.Stray)
				}
				if ev.Pushed && len(ev.Popped) != 0 {
					cls["A:historic-inserted"] = true
				}
			}
			markSeen()
			m.a.mu.Lock()
			left := len(m.a.historicBuckets)
			m.a.mu.Unlock()
			if left == 0 {
				quiesced = true
				break
			}
			now += 3
		}
		if !quiesced {
			t.Fatalf("historic queue did not drain in 100 healthy inserts")
		}
	}
	// let late answers (there must be none) surface, then evaluate the recorded history
	time.Sleep(time.Millisecond)
	markSeen()

	// which INSERT made which marker durable, and when
	type durable struct {
		doneSeq int64
		idx     int
	}
	inserted := map[int][]durable{} // ord -> successful inserts containing its marker row
	for _, ins := range m.Inserts() {
		if ins.Status != http.StatusOK || ins.DoneSeq == 0 {
			continue
		}
		rows, err := vpParseRowBinary(ins.Body)
		if err != nil {
			t.Fatalf("insert %d: %v", ins.Idx, err)
		}
		for _, row := range rows {
			if row.Metric == c01MarkerMetric && row.Tags[1] >= 1 && int(row.Tags[1]) <= len(reqs) && row.Count >= 1 {
				ord := int(row.Tags[1]) - 1
				if row.Time == reqs[ord].at {
					inserted[ord] = append(inserted[ord], durable{ins.DoneSeq, ins.Idx})
				}
			}
		}
	}
	for _, r := range reqs {
		call := r.call
		where := fmt.Sprintf("request %d (step %d, args.Time %d = now%+d, rounded %d, historic %v, bucket %d recent %v)", r.ord, r.step, r.at, int64(r.at)-int64(r.nowSent), r.rounded, r.historic, call.BucketTime, call.BucketRecent)
		if !r.seen {
			if quiesced && call.Longpoll {
				t.Fatalf("%s: the aggregator dropped a request it had accepted: never answered and its rows are in no INSERT (%d successful inserts contain them), although the recent window moved past it and the historic queue drained with healthy inserts", where, len(inserted[r.ord]))
			}
			cls["A:unanswered"] = true
			continue
		}
		if call.Err != nil {
			cls["A:answered-error"] = true
			continue // an RPC error makes the agent keep the second: no obligation
		}
		if !call.Resp.IsSetDiscard() {
			cls["A:answered-keep"] = true
			continue
		}
		durableBefore := false
		for _, d := range inserted[r.ord] {
			if d.doneSeq < call.RespSeq {
				durableBefore = true
			}
		}
		if durableBefore {
			cls["A:ack-after-insert"] = true
			continue
		}
		// acknowledged without a completed insert: must be a deliberate, justified rejection
		if len(inserted[r.ord]) != 0 {
			t.Fatalf("%s: acknowledged (discard, warning %q) BEFORE the INSERT carrying its rows completed", where, call.Resp.Warning)
		}
		reason := r.reject
		if reason == "" && r.historic && call.Registered && !call.BucketRecent {
			// queued historic bucket thrown away by the inserter because it fell out of the historic window meanwhile
			oldestSeen := r.nowSeen - uint32(c.ShortWindow)
			if oldestSeen >= uint32(c.HistoricWindow) && r.at < oldestSeen-uint32(c.HistoricWindow) {
				reason = "fell out of the historic window while queued"
				cls["A:stale-discarded"] = true
			}
		}
		if reason == "" {
			kind := "accepted"
			if r.lateKeep {
				kind = "late recent (must be kept for the historic conveyor)"
			}
			if r.afterShutdown {
				kind += ", after shutdown"
			}
			t.Fatalf("%s: %s request acknowledged with discard (warning %q) but no successful INSERT contains its rows and nothing permits rejecting it", where, kind, call.Resp.Warning)
		}
		if call.Resp.Warning == "" {
			t.Fatalf("%s: rejected (%s) without telling the agent why", where, reason)
		}
		cls["A:rejected-discard"] = true
	}
	nontrivial = anyFault && insertAfterFault
	for k := range cls {
		classes = append(classes, k)
	}
	sort.Strings(classes)
	return nontrivial, classes
}

func c01Gen() *rapid.Generator[c01Case] {
	return rapid.Custom(func(t *rapid.T) c01Case {
		var c c01Case
		c.Replica = int32(rapid.IntRange(1, 3).Draw(t, "replica"))
		c.ShortWindow = rapid.IntRange(2, 5).Draw(t, "sw")
		c.HistoricWindow = rapid.IntRange(8, 40).Draw(t, "hw")
		c.Now = uint32(1_700_000_000 + rapid.IntRange(0, 5999).Draw(t, "now"))
		rounds := rapid.IntRange(1, 7).Draw(t, "rounds")
		shutdownAt := -1
		if rounds > 2 && rapid.IntRange(0, 9).Draw(t, "shutdown") == 0 {
			shutdownAt = rapid.IntRange(rounds/2, rounds-1).Draw(t, "shutdownat")
		}
		sent := 0
		genSend := func() c01Step {
			st := c01Step{Kind: "send"}
			st.Agent = rapid.IntRange(1, 3).Draw(t, "agent")
			st.Spare = rapid.IntRange(0, 3).Draw(t, "spare") == 0
			switch rapid.IntRange(0, 19).Draw(t, "dtk") {
			case 0: // around the future edge
				st.Dt = data_model.FutureWindow - 1 + rapid.IntRange(-2, 3).Draw(t, "dt")
			case 1, 2, 3: // around the oldest recent second: late recent requests
				st.Dt = -c.ShortWindow + rapid.IntRange(-3, 1).Draw(t, "dt")
			case 4: // around the end of the historic window
				st.Historic = true
				st.Dt = -c.ShortWindow - c.HistoricWindow + rapid.IntRange(-3, 3).Draw(t, "dt")
			case 5, 6, 7: // inside the historic window
				st.Historic = true
				st.Dt = -c.ShortWindow - rapid.IntRange(1, c.HistoricWindow).Draw(t, "dt")
			case 8, 9, 10, 11:
				if sent > 0 { // the agent offers an earlier second again through the historic conveyor
					st.Resend = rapid.IntRange(1, 4).Draw(t, "resend")
					st.Historic = true
				}
			default: // inside the recent window
				st.Dt = rapid.IntRange(-c.ShortWindow, 1).Draw(t, "dt")
			}
			if !st.Historic && rapid.IntRange(0, 9).Draw(t, "hflag") == 0 {
				st.Historic = true
			}
			switch rapid.IntRange(0, 39).Draw(t, "odd") {
			case 0:
				st.WrongSR = rapid.SampledFrom([]int{-3, -1, 1, 3}).Draw(t, "wrong")
			case 1:
				st.OldAgent = true
			case 2:
				st.Corrupt = rapid.IntRange(1, 2).Draw(t, "corrupt")
			}
			sent++
			return st
		}
		now := c.Now
		for r := 0; r < rounds; r++ {
			if r == shutdownAt {
				c.Steps = append(c.Steps, c01Step{Kind: "shutdown"})
			}
			if rapid.IntRange(0, 3).Draw(t, "burst") == 0 {
				// failover: 2-3 different agents offer the same second, which this replica does not own, through the
				// historic conveyor, back to back
				oldest := now - uint32(c.ShortWindow)
				at := oldest - 3 - uint32(rapid.IntRange(0, c.HistoricWindow-6).Draw(t, "burstage"))
				if at%3 == uint32(c.Replica-1) {
					at--
				}
				first := rapid.IntRange(1, 3).Draw(t, "burstfirst")
				for i, n := 0, rapid.IntRange(2, 3).Draw(t, "burstn"); i < n; i++ {
					c.Steps = append(c.Steps, c01Step{Kind: "send", Agent: 1 + (first+i)%3, Dt: int(int64(at) - int64(now)), Historic: true, Spare: rapid.IntRange(0, 3).Draw(t, "burstspare") != 0})
					sent++
				}
			}
			for i, n := 0, rapid.IntRange(1, 4).Draw(t, "nsend"); i < n; i++ {
				c.Steps = append(c.Steps, genSend())
			}
			st := c01Step{Kind: "tick", Advance: rapid.IntRange(1, 4).Draw(t, "adv")}
			if rapid.IntRange(0, 2).Draw(t, "fail") == 0 {
				st.FailMask = rapid.IntRange(1, 3).Draw(t, "failmask")
				st.Status = rapid.SampledFrom([]int{500, 503, 404, 400}).Draw(t, "status")
			}
			if rapid.IntRange(0, 5).Draw(t, "full") == 0 {
				st.FullMask = rapid.IntRange(1, 3).Draw(t, "fullmask")
			}
			st.Hold = rapid.IntRange(0, 3).Draw(t, "hold") == 0
			now += uint32(st.Advance)
			c.Steps = append(c.Steps, st)
		}
		// most histories end with the window moving past everything that was sent, then the historic queue drains
		if rapid.IntRange(0, 4).Draw(t, "flush") != 0 {
			c.Steps = append(c.Steps, c01Step{Kind: "tick", Advance: c.ShortWindow + data_model.FutureWindow + 2})
			if rapid.Bool().Draw(t, "flush2") {
				c.Steps = append(c.Steps, c01Step{Kind: "tick", Advance: 6})
			}
		}
		return c
	})
}

func TestVerifC01AggAck(t *testing.T) {
	ev := vpNewEv(t, "C01", "agg-ack")
	rapid.Check(t, func(rt *rapid.T) {
		c := c01Gen().Draw(rt, "case")
		vpRunCase(rt, "C01", "agg-ack", c, func() {
			nt, cls := c01Prop(rt, c)
			ev.Case(nt, c, cls...)
		})
	})
}

func init() {
	vpReplayers["C01/agg-ack"] = func(t vpT, raw json.RawMessage) {
		var c c01Case
		if err := json.Unmarshal(raw, &c); err != nil {
			t.Fatalf("decode: %v", err)
		}
		c01Prop(t, c)
	}
}

var _ = strings.Contains
