//go:build verif

package aggregator

import (
	"encoding/json"
	"strings"
	"testing"

	"pgregory.net/rapid"

	"github.com/VKCOM/statshouse/internal/data_model"
	"github.com/VKCOM/statshouse/internal/data_model/gen2/tlstatshouse"
	"github.com/VKCOM/statshouse/internal/format"
)

// ---------- C10 (3): where the aggregator files an accepted second ----------
//
// Reference decision table (aggregator_handlers.go comments + docs): a replica r owns seconds t with t mod 3 == r-1; a
// second sent to it is rounded up to the next owned second R (spare traffic). Recent window = [now-ShortWindow,
// now+FutureWindow-1] in (virtual) aggregator time.
//   agent too old (DenyOldAgents)                 -> discard + warning
//   wrong shard*replica in the header             -> discard + warning
//   R beyond the newest recent second             -> discard + "too far in the future"
//   recent,   R older than the oldest             -> keep    + "too far in the past for recent conveyor"
//   historic, R older than oldest-HistoricWindow  -> discard + "beyond historic window"
//   historic, R older than the oldest             -> accepted, historic queue under its own second
//   otherwise                                     -> accepted, recent bucket of second R (R-args.Time in 0..2)

type c10PlaceStep struct {
	Kind     string `json:"kind"`               // "send" | "tick" | "config"
	NewSW    int    `json:"new_sw,omitempty"`   // config: remote config update sets ShortWindow (takes effect at the next tick)
	Dt       int    `json:"dt,omitempty"`       // send: args.Time = now + Dt
	Historic bool   `json:"historic,omitempty"` //
	Spare    bool   `json:"spare,omitempty"`    //
	WrongSR  int    `json:"wrong_sr,omitempty"` // send: header shard*replica = ours + WrongSR
	OldAgent bool   `json:"old_agent,omitempty"`
	Advance  int    `json:"advance,omitempty"` // tick: seconds
}

type c10PlaceCase struct {
	Replica        int32          `json:"replica"`
	Shard          int32          `json:"shard"`
	ShortWindow    int            `json:"short_window"`
	HistoricWindow int            `json:"historic_window"`
	Now            uint32         `json:"now"`
	WithoutCluster bool           `json:"without_cluster"`
	Steps          []c10PlaceStep `json:"steps"`
}

func c10MarkerBucket(ord int) tlstatshouse.SourceBucket3 {
	item := tlstatshouse.MultiItem{Metric: 1000 + int32(ord%7), Keys: []int32{0, int32(ord) + 1}}
	item.Tail.SetCounterEq1(true, &item.FieldsMask)
	return tlstatshouse.SourceBucket3{Metrics: []tlstatshouse.MultiItem{item}}
}

func c10PropPlace(t vpT, c c10PlaceCase) (nontrivial bool, classes []string) {
	if c.Replica < 1 || c.Replica > 3 || c.Shard < 1 || c.ShortWindow < 1 || c.HistoricWindow < 1 {
		t.Fatalf("bad case")
	}
	m := vpNewMiniAgg(t, vpAggOpts{Now: c.Now, Replica: c.Replica, Shard: c.Shard, NumShards: int(c.Shard) + 1, ShortWindow: c.ShortWindow,
		HistoricWindow: c.HistoricWindow, WithoutCluster: c.WithoutCluster, DenyOldAgents: true})
	defer m.Close()
	now := c.Now
	cls := map[string]bool{}
	sends := 0
	queued := map[uint32]*aggregatorBucket{} // historic buckets seen since the last tick, by second
	// reference recent window: seconds [oldest, newest]; a tick drops seconds older than now-ShortWindow from the front and
	// extends the back to oldest+ShortWindow+FutureWindow-1 (it never shrinks from the back); ShortWindow may change at run time
	sw := c.ShortWindow
	oldest := c.Now - uint32(sw)
	newest := c.Now + data_model.FutureWindow - 1
	increased, armed := false, false
	checkWindow := func(si int) {
		m.a.mu.Lock()
		var times []uint32
		for _, b := range m.a.recentBuckets {
			times = append(times, b.time)
		}
		m.a.mu.Unlock()
		for i := 1; i < len(times); i++ {
			if times[i] != times[i-1]+1 {
				t.Fatalf("step %d: recent window is not contiguous: bucket times %v (handleSendSourceBucket indexes it by second)", si, times)
			}
		}
		if len(times) == 0 || times[0] != oldest || times[len(times)-1] != newest {
			t.Fatalf("step %d: recent window is %v, reference [%d..%d] (now %d, ShortWindow %d)", si, times, oldest, newest, now, sw)
		}
	}
	for si, st := range c.Steps {
		switch st.Kind {
		case "config":
			if st.NewSW < 3 || st.NewSW > data_model.MaxShortWindow {
				t.Fatalf("bad case: ShortWindow %d", st.NewSW)
			}
			// what updateConfigRemotelyExperimental does with a parsed remote config
			m.a.configMu.Lock()
			config := m.a.configR
			config.ShortWindow = st.NewSW
			m.a.configR = config
			m.a.configMu.Unlock()
			if st.NewSW > sw {
				increased = true
				cls["short-window-increase-step"] = true
			} else if st.NewSW < sw {
				cls["short-window-decrease-step"] = true
			}
			sw = st.NewSW
		case "tick":
			now += uint32(st.Advance)
			queued = map[uint32]*aggregatorBucket{}
			for oldest <= newest && now > oldest+uint32(sw) {
				oldest++
			}
			if oldest > newest {
				oldest = now - uint32(sw)
				newest = oldest - 1
			}
			if want := oldest + uint32(sw) + data_model.FutureWindow - 1; want > newest {
				newest = want
			}
			for _, ev := range m.Tick(now, nil, nil, 0) {
				if ev.Stray != 0 {
					t.Fatalf("step %d: bucket %d is not owned by replica %d but has %d contributors", si, ev.Time, c.Replica, ev.Stray)
				}
				if ev.Ours && ev.Time%3 != uint32(c.Replica-1) {
					t.Fatalf("step %d: harness bug", si)
				}
			}
			checkWindow(si)
			if increased {
				armed = true
			}
		case "send":
			at := uint32(int64(now) + int64(st.Dt))
			rounded := at
			for rounded%3 != uint32(c.Replica-1) {
				rounded++
			}
			req := vpAggReq{Host: "host-" + string(rune('a'+sends%5)), Time: at, Historic: st.Historic, Spare: st.Spare,
				ShardReplica: m.OurShardReplica() + int32(st.WrongSR), ShardReplicaTotal: int32(m.opts.NumShards * 3),
				BuildCommitTs: format.LeastAllowedAgentCommitTs + 1000, Component: format.TagValueIDComponentAgent, Bucket: c10MarkerBucket(sends)}
			if st.OldAgent {
				req.BuildCommitTs = format.LeastAllowedAgentCommitTs - 1
			}
			sends++
			call := m.Send(req)
			// reference decision
			want := ""
			switch {
			case st.OldAgent:
				want = "old-agent"
			case st.WrongSR != 0 && !c.WithoutCluster:
				want = "wrong-replica"
			case rounded > newest:
				want = "future"
			case !st.Historic && rounded < oldest:
				want = "late-keep"
			case st.Historic && oldest >= uint32(c.HistoricWindow) && rounded < oldest-uint32(c.HistoricWindow):
				want = "beyond-window"
			case st.Historic && rounded < oldest:
				want = "accepted-historic"
			default:
				want = "accepted-recent"
			}
			cls[want] = true
			descr := func() string {
				return strings.TrimSpace(strings.Join([]string{
					"step", c10Itoa(si), "now", c10Itoa(int(now)), "args.Time", c10Itoa(int(at)), "rounded", c10Itoa(int(rounded)), "window", c10Itoa(int(oldest)), c10Itoa(int(newest)),
					"historic", c10Btoa(st.Historic), "spare", c10Btoa(st.Spare)}, " "))
			}
			accepted := want == "accepted-historic" || want == "accepted-recent"
			if accepted {
				if !call.Longpoll || call.IsDone() {
					t.Fatalf("%s: reference %s, but the request was answered at once (err=%v discard=%v warning=%q)", descr(), want, call.Err, call.Resp.IsSetDiscard(), call.Resp.Warning)
				}
				if !call.Registered {
					t.Fatalf("%s: reference %s, long poll started but the handle is in no bucket", descr(), want)
				}
				if want == "accepted-recent" {
					if armed {
						cls["short-window-increased-at-runtime"] = true // accepted into the recent window after ShortWindow grew on a running aggregator
					}
					if !call.BucketRecent {
						t.Fatalf("%s: filed into historic bucket %d, reference: recent bucket %d", descr(), call.BucketTime, rounded)
					}
					// the statement: a bucket it will itself insert at most two seconds later
					if call.BucketTime%3 != uint32(c.Replica-1) {
						t.Fatalf("%s: filed into bucket %d which replica %d does not insert", descr(), call.BucketTime, c.Replica)
					}
					if call.BucketTime < at || call.BucketTime > at+2 {
						t.Fatalf("%s: filed into bucket %d, not within [args.Time, args.Time+2]", descr(), call.BucketTime)
					}
					if d := call.BucketTime - at; d != 0 {
						cls["rounded+"+c10Itoa(int(d))] = true
					}
				} else {
					if call.BucketRecent {
						t.Fatalf("%s: filed into recent bucket %d, reference: historic queue", descr(), call.BucketTime)
					}
					if call.BucketTime != at {
						t.Fatalf("%s: filed into historic bucket %d, not under its own second", descr(), call.BucketTime)
					}
					m.a.mu.Lock()
					hb := m.a.historicBuckets[at]
					m.a.mu.Unlock()
					if hb != call.Bucket {
						t.Fatalf("%s: historic bucket is not historicBuckets[%d]", descr(), at)
					}
					if prev := queued[at]; prev != nil && prev != call.Bucket {
						t.Fatalf("%s: a second historic bucket was created for second %d while the first one is still queued (its requests can no longer be reached)", descr(), at)
					}
					queued[at] = call.Bucket
				}
			} else {
				if call.Longpoll || !call.IsDone() {
					t.Fatalf("%s: reference %s, but the request was long-polled (bucket %d)", descr(), want, call.BucketTime)
				}
				if call.Err != nil {
					t.Fatalf("%s: reference %s, got RPC error %v (the handler must answer with a response)", descr(), want, call.Err)
				}
				wantDiscard := want != "late-keep"
				if call.Resp.IsSetDiscard() != wantDiscard {
					t.Fatalf("%s: reference %s wants discard=%v, got discard=%v warning=%q", descr(), want, wantDiscard, call.Resp.IsSetDiscard(), call.Resp.Warning)
				}
				if call.Resp.Warning == "" {
					t.Fatalf("%s: %s answered without a warning", descr(), want)
				}
				frag := map[string]string{"old-agent": "too old", "wrong-replica": "misconfiguration", "future": "future", "late-keep": "past", "beyond-window": "historic window"}[want]
				if !strings.Contains(call.Resp.Warning, frag) {
					t.Fatalf("%s: %s answered with warning %q", descr(), want, call.Resp.Warning)
				}
			}
			if st.Historic || st.Spare || cls["rounded+1"] || cls["rounded+2"] {
				nontrivial = nontrivial || accepted
			}
		default:
			t.Fatalf("bad step kind %q", st.Kind)
		}
	}
	for k := range cls {
		classes = append(classes, k)
	}
	return nontrivial, classes
}

func c10Itoa(i int) string {
	b, _ := json.Marshal(i)
	return string(b)
}

func c10Btoa(b bool) string {
	if b {
		return "1"
	}
	return "0"
}

func c10GenPlace() *rapid.Generator[c10PlaceCase] {
	return rapid.Custom(func(t *rapid.T) c10PlaceCase {
		var c c10PlaceCase
		c.Replica = int32(rapid.IntRange(1, 3).Draw(t, "replica"))
		c.Shard = int32(rapid.IntRange(1, 3).Draw(t, "shard"))
		c.ShortWindow = rapid.IntRange(2, 5).Draw(t, "sw")
		c.HistoricWindow = rapid.IntRange(6, 40).Draw(t, "hw")
		c.Now = uint32(1_700_000_000 + rapid.IntRange(0, 5999).Draw(t, "now"))
		c.WithoutCluster = rapid.IntRange(0, 7).Draw(t, "woc") == 0
		n := rapid.IntRange(1, 14).Draw(t, "nsteps")
		curSW := c.ShortWindow
		for i := 0; i < n; i++ {
			var st c10PlaceStep
			if k := rapid.IntRange(0, 9).Draw(t, "k"); k == 0 {
				st.Kind = "config" // remote config update on a running aggregator, usually followed by a tick
				st.NewSW = rapid.IntRange(3, data_model.MaxShortWindow).Draw(t, "newsw")
				curSW = st.NewSW
				c.Steps = append(c.Steps, st)
				if rapid.IntRange(0, 3).Draw(t, "cfgtick") != 0 {
					c.Steps = append(c.Steps, c10PlaceStep{Kind: "tick", Advance: rapid.IntRange(1, 3).Draw(t, "cfgadv")})
				}
				continue
			} else if k <= 2 {
				st.Kind = "tick"
				st.Advance = rapid.IntRange(1, 4).Draw(t, "adv")
			} else {
				st.Kind = "send"
				st.Historic = rapid.Bool().Draw(t, "historic")
				st.Spare = rapid.IntRange(0, 2).Draw(t, "spare") == 0
				switch rapid.IntRange(0, 9).Draw(t, "dtk") {
				case 0: // around the future edge
					st.Dt = data_model.FutureWindow - 1 + rapid.IntRange(-3, 3).Draw(t, "dt")
				case 1, 2: // around the oldest recent second
					st.Dt = -curSW + rapid.IntRange(-3, 3).Draw(t, "dt")
				case 3: // around the end of the historic window
					st.Dt = -curSW - c.HistoricWindow + rapid.IntRange(-3, 3).Draw(t, "dt")
				case 4:
					st.Dt = rapid.IntRange(-curSW-c.HistoricWindow-10, data_model.FutureWindow+6).Draw(t, "dt")
				default: // inside the recent window
					st.Dt = rapid.IntRange(-curSW, data_model.FutureWindow-1).Draw(t, "dt")
				}
				if rapid.IntRange(0, 11).Draw(t, "wsr") == 0 {
					st.WrongSR = rapid.SampledFrom([]int{-1, 1, 2, 3}).Draw(t, "wrong")
				}
				st.OldAgent = rapid.IntRange(0, 15).Draw(t, "old") == 0
			}
			c.Steps = append(c.Steps, st)
		}
		return c
	})
}

// exhaustive small grid: replica x (now mod 6) x ShortWindow x every send time across both window edges x flags
func TestVerifC10PlaceGrid(t *testing.T) {
	if testing.Short() {
		t.Skip()
	}
	ev := vpNewEv(t, "C10", "place-grid")
	n := 0
	for replica := int32(1); replica <= 3; replica++ {
		for nowMod := 0; nowMod < 6; nowMod++ {
			for _, sw := range []int{2, 3, 5} {
				hw := 7
				c := c10PlaceCase{Replica: replica, Shard: 1, ShortWindow: sw, HistoricWindow: hw, Now: uint32(1_700_000_004 + nowMod)}
				for dt := -sw - hw - 4; dt <= data_model.FutureWindow+3; dt++ {
					for flags := 0; flags < 4; flags++ {
						c.Steps = append(c.Steps, c10PlaceStep{Kind: "send", Dt: dt, Historic: flags&1 != 0, Spare: flags&2 != 0})
						n++
					}
				}
				c.Steps = append(c.Steps, c10PlaceStep{Kind: "tick", Advance: sw + data_model.FutureWindow + 1})
				vpRunCase(t, "C10", "place", c, func() {
					nt, cls := c10PropPlace(t, c)
					ev.Case(nt, map[string]any{"replica": replica, "now_mod6": nowMod, "sw": sw}, cls...)
				})
			}
		}
	}
	// ShortWindow changed on a running aggregator: every transition inside the allowed range x replica x (now mod 3)
	// x ticks of 1 or 2 s, with sends across the whole recent window before and after every tick
	for _, tr := range [][2]int{{3, 4}, {3, 5}, {4, 5}, {5, 4}, {5, 3}, {4, 3}} {
		for replica := int32(1); replica <= 3; replica++ {
			for nowMod := 0; nowMod < 3; nowMod++ {
				for adv := 1; adv <= 2; adv++ {
					c := c10PlaceCase{Replica: replica, Shard: 1, ShortWindow: tr[0], HistoricWindow: 9, Now: uint32(1_700_000_301 + nowMod)}
					sweep := func(sw int) {
						for dt := -sw - 2; dt <= data_model.FutureWindow+1; dt++ {
							c.Steps = append(c.Steps, c10PlaceStep{Kind: "send", Dt: dt, Historic: dt%2 == 0, Spare: dt%3 == 0})
							n++
						}
					}
					c.Steps = append(c.Steps, c10PlaceStep{Kind: "tick", Advance: 1})
					sweep(tr[0])
					c.Steps = append(c.Steps, c10PlaceStep{Kind: "config", NewSW: tr[1]})
					for k := 0; k < 4; k++ {
						c.Steps = append(c.Steps, c10PlaceStep{Kind: "tick", Advance: adv})
						sweep(tr[1])
					}
					c.Steps = append(c.Steps, c10PlaceStep{Kind: "tick", Advance: tr[1] + data_model.FutureWindow + 1})
					vpRunCase(t, "C10", "place", c, func() {
						nt, cls := c10PropPlace(t, c)
						ev.Case(nt, map[string]any{"replica": replica, "now_mod3": nowMod, "from": tr[0], "to": tr[1], "adv": adv}, cls...)
					})
				}
			}
		}
	}
	ev.Extra("grid_sends", n)
}

func TestVerifC10Place(t *testing.T) {
	ev := vpNewEv(t, "C10", "place")
	rapid.Check(t, func(rt *rapid.T) {
		c := c10GenPlace().Draw(rt, "case")
		vpRunCase(rt, "C10", "place", c, func() {
			nt, cls := c10PropPlace(rt, c)
			ev.Case(nt, c, cls...)
		})
	})
}

func init() {
	vpReplayers["C10/place"] = func(t vpT, raw json.RawMessage) {
		var c c10PlaceCase
		if err := json.Unmarshal(raw, &c); err != nil {
			t.Fatalf("decode: %v", err)
		}
		c10PropPlace(t, c)
	}
}
