//go:build verif

package aggregator

// C01 layer AB: in-process composition. A REAL agent (agent.MakeAgent + Run: real flusher, preprocessor, recent and
// historic senders, disk cache, real time) writes one marker row per second; its three replica addresses are TCP
// proxies in front of three real Aggregator literals (replica keys 1,2,3; real rpc.Server with a.handleClient, real
// goTicker, real goInsert) that insert into ONE fake ClickHouse. A generated fault plan fails or stalls INSERTs, takes
// replicas off the network, drops connections (lost responses) and replaces an aggregator by a fresh one (restart).
// Oracle at quiescence: every marker row the agent accepted is in at least one HTTP-200 INSERT body.

import (
	"context"
	"encoding/json"
	"fmt"
	"io"
	"net"
	"net/http"
	"net/http/httptest"
	"os"
	"sort"
	"strconv"
	"strings"
	"sync"
	"testing"
	"time"

	"github.com/VKCOM/tl/pkg/rpc"
	"pgregory.net/rapid"

	"github.com/VKCOM/statshouse/internal/agent"
	"github.com/VKCOM/statshouse/internal/data_model/gen2/tlstatshouse"
	"github.com/VKCOM/statshouse/internal/format"
	"github.com/VKCOM/statshouse/internal/metajournal"
	"github.com/VKCOM/statshouse/internal/pcache"
)

const c01cMarkerMetric = 7100

type c01cFault struct {
	Kind    string `json:"kind"`    // "ch-fail" | "ch-stall" | "replica-down" | "drop-conns" | "agg-restart"
	At      int    `json:"at"`      // start, in 100 ms units after the first write
	Dur     int    `json:"dur"`     // duration in 100 ms units (intervals only)
	Replica int    `json:"replica"` // 0..2 (replica faults)
}

type c01cCase struct {
	WriteSec    int         `json:"write_sec"`    // the agent receives one marker row per second for this long
	ShortWindow int         `json:"short_window"` // of the aggregators
	PerSecond   int         `json:"per_second"`   // marker rows per second (1-3)
	Faults      []c01cFault `json:"faults"`
}

type c01cResult struct {
	Violation    string
	Inconclusive string
	Nontrivial   bool
	Classes      []string
	Log          []string
}

// --- TCP proxy in front of one replica

type c01cProxy struct {
	ln     net.Listener
	mu     sync.Mutex
	target string
	down   bool
	conns  map[net.Conn]struct{}
	closed bool
}

func c01cNewProxy() (*c01cProxy, error) {
	ln, err := net.Listen("tcp4", "127.0.0.1:0")
	if err != nil {
		return nil, err
	}
	p := &c01cProxy{ln: ln, conns: map[net.Conn]struct{}{}}
	go p.serve()
	return p, nil
}

func (p *c01cProxy) addr() string { return p.ln.Addr().String() }

func (p *c01cProxy) serve() {
	for {
		c, err := p.ln.Accept()
		if err != nil {
			return
		}
		p.mu.Lock()
		target, down, closed := p.target, p.down, p.closed
		p.mu.Unlock()
		if down || closed || target == "" {
			_ = c.Close()
			continue
		}
		u, err := net.DialTimeout("tcp4", target, 5*time.Second)
		if err != nil {
			_ = c.Close()
			continue
		}
		p.mu.Lock()
		p.conns[c] = struct{}{}
		p.conns[u] = struct{}{}
		p.mu.Unlock()
		pipe := func(dst, src net.Conn) {
			_, _ = io.Copy(dst, src)
			_ = dst.Close()
			_ = src.Close()
			p.mu.Lock()
			delete(p.conns, dst)
			delete(p.conns, src)
			p.mu.Unlock()
		}
		go pipe(u, c)
		go pipe(c, u)
	}
}

func (p *c01cProxy) dropConns() int {
	p.mu.Lock()
	var cs []net.Conn
	for c := range p.conns {
		cs = append(cs, c)
	}
	p.mu.Unlock()
	for _, c := range cs {
		_ = c.Close()
	}
	return len(cs) / 2
}

func (p *c01cProxy) setDown(down bool) {
	p.mu.Lock()
	p.down = down
	p.mu.Unlock()
	if down {
		p.dropConns()
	}
}

func (p *c01cProxy) setTarget(t string) {
	p.mu.Lock()
	p.target = t
	p.mu.Unlock()
}

func (p *c01cProxy) close() {
	p.mu.Lock()
	p.closed = true
	p.mu.Unlock()
	_ = p.ln.Close()
	p.dropConns()
}

// --- one real aggregator replica on real time

type c01cAgg struct {
	a   *Aggregator
	srv *rpc.Server
	ln  net.Listener
}

type c01cPanicT struct{}

func (c01cPanicT) Fatalf(format string, args ...any) { panic(fmt.Sprintf("harness: "+format, args...)) }
func (c01cPanicT) Errorf(format string, args ...any) {}
func (c01cPanicT) Logf(format string, args ...any)   {}
func (c01cPanicT) Helper()                           {}
func (c01cPanicT) Failed() bool                      { return false }

func c01cStartAgg(replica int32, shortWindow int, khAddr string) (*c01cAgg, error) {
	a := vpBuildAggregator(c01cPanicT{}, vpAggOpts{Now: uint32(time.Now().Unix()), Replica: replica, Shard: 1, NumShards: 1,
		ShortWindow: shortWindow, HistoricWindow: 3600, DenyOldAgents: false, Inserters: 1, AggHostTag: 777000 + replica}, khAddr)
	a.testConnection = MakeTestConnection()
	a.h.RawTestConnection2 = func(ctx context.Context, hctx *rpc.HandlerContext) error {
		return a.testConnection.handleTestConnection(ctx, hctx)
	}
	a.server = rpc.NewServer(
		rpc.ServerWithLogf(func(string, ...any) {}),
		rpc.ServerWithMaxWorkers(-1),
		rpc.ServerWithSyncHandler(a.handleClient),
		rpc.ServerWithDisableContextTimeout(true),
		rpc.ServerWithDefaultResponseTimeout(0),
		rpc.ServerWithResponseBufSize(1024),
		rpc.ServerWithResponseMemEstimate(1024),
		rpc.ServerWithRequestMemoryLimit(1<<30),
	)
	ln, err := net.Listen("tcp4", "127.0.0.1:0")
	if err != nil {
		return nil, err
	}
	go func() { _ = a.server.Serve(ln) }()
	go a.goTicker() // the real ticker; it returns at its first own second after DisableNewInsert
	return &c01cAgg{a: a, srv: a.server, ln: ln}, nil
}

// stop is what a killed aggregator looks like to the others: its connections die, nothing queued is inserted any more
func (g *c01cAgg) stop() {
	_ = g.srv.Close()
	g.a.DisableNewInsert() // goInsert goroutines and, a few seconds later, goTicker quit
	g.a.cancelInsertsFunc()
}

// --- shared fake ClickHouse

type c01cCH struct {
	srv   *httptest.Server
	start time.Time
	mu    sync.Mutex
	fail  [][2]time.Duration // intervals in which INSERTs are answered 500
	stall [][2]time.Duration // intervals in which INSERTs are kept open until the interval ends
	rows  map[int32]float64 // marker ordinal -> count inserted with HTTP 200
	stat  map[string]int
	perr  string
}

func (ch *c01cCH) serve(w http.ResponseWriter, r *http.Request) {
	body, _ := io.ReadAll(r.Body)
	el := time.Since(ch.start)
	ch.mu.Lock()
	var wait time.Duration
	for _, iv := range ch.stall {
		if el >= iv[0] && el < iv[1] {
			wait = iv[1] - el
		}
	}
	ch.mu.Unlock()
	if wait > 0 {
		time.Sleep(wait)
		ch.count("insert-stalled")
	}
	el = time.Since(ch.start)
	ch.mu.Lock()
	failed := false
	for _, iv := range ch.fail {
		if el >= iv[0] && el < iv[1] {
			failed = true
		}
	}
	ch.mu.Unlock()
	if failed {
		ch.count("insert-500")
		w.Header().Set("X-ClickHouse-Exception-Code", "241")
		w.WriteHeader(500)
		_, _ = w.Write([]byte("Code: 241. DB::Exception: Memory limit (total) exceeded"))
		return
	}
	rows, err := vpParseRowBinary(body)
	ch.mu.Lock()
	if err != nil && ch.perr == "" {
		ch.perr = err.Error()
	}
	for _, row := range rows {
		if row.Metric == c01cMarkerMetric {
			ch.rows[int32(row.Tags[1])] += row.Count
		}
	}
	ch.stat["insert-200"]++
	ch.mu.Unlock()
	w.WriteHeader(200)
}

func (ch *c01cCH) count(k string) {
	ch.mu.Lock()
	ch.stat[k]++
	ch.mu.Unlock()
}

// --- one history

func c01cRun(c c01cCase, dir string) (res c01cResult) {
	defer func() {
		if r := recover(); r != nil {
			res.Inconclusive = fmt.Sprintf("harness panic: %v", r)
		}
	}()
	logf := func(format string, args ...any) {
		res.Log = append(res.Log, fmt.Sprintf(format, args...))
	}
	cls := map[string]bool{}
	ch := &c01cCH{rows: map[int32]float64{}, stat: map[string]int{}, start: time.Now()}
	ch.srv = httptest.NewServer(http.HandlerFunc(ch.serve))
	defer ch.srv.Close()
	khAddr := ch.srv.Listener.Addr().String()

	var proxies [3]*c01cProxy
	var aggs [3]*c01cAgg
	var oldAggs []*c01cAgg
	for j := 0; j < 3; j++ {
		p, err := c01cNewProxy()
		if err != nil {
			res.Inconclusive = "listen: " + err.Error()
			return
		}
		proxies[j] = p
		defer p.close()
		g, err := c01cStartAgg(int32(j+1), c.ShortWindow, khAddr)
		if err != nil {
			res.Inconclusive = "listen: " + err.Error()
			return
		}
		aggs[j] = g
		p.setTarget(g.ln.Addr().String())
	}
	defer func() {
		for _, g := range aggs {
			if g != nil {
				g.stop()
			}
		}
	}()

	// the real agent
	cfg := agent.DefaultConfig()
	cfg.Cluster = "vp"
	getConfig := tlstatshouse.GetConfigResult3{Addresses: []string{proxies[0].addr(), proxies[1].addr(), proxies[2].addr()}, ShardByMetricCount: 1}
	var agentLogMu sync.Mutex
	var agentLog []string
	alog := func(format string, args ...any) {
		agentLogMu.Lock()
		if len(agentLog) < 400 {
			agentLog = append(agentLog, fmt.Sprintf(format, args...))
		}
		agentLogMu.Unlock()
	}
	hv := func() (int64, string) { return 0, "" }
	mappingsCache := pcache.NewMappingsCache(vpNopStorages[2], 1<<20, 86400)
	ag, err := agent.MakeAgent("tcp4", dir, "", nil, cfg, "vp-compose-agent", format.TagValueIDComponentAgent,
		metajournal.MakeMetricsStorage(nil), mappingsCache, hv, hv, alog, nil, &getConfig, nil)
	if err != nil {
		res.Inconclusive = "MakeAgent: " + err.Error()
		return
	}
	ag.Run(0, 0, 0)
	stopped := false
	defer func() { // sender goroutines of the agent have no exit
		if !stopped {
			ag.DisableNewSends()
			ag.ShutdownFlusher()
			ag.WaitFlusher()
		}
	}()
	meta := &format.MetricMetaValue{MetricID: c01cMarkerMetric, Name: "vp_marker", EffectiveResolution: 1}

	// fault plan
	unit := 100 * time.Millisecond
	type action struct {
		at time.Duration
		f  func()
	}
	var actions []action
	var lastFaultEnd time.Duration
	for _, f := range c.Faults {
		f := f
		at, end := time.Duration(f.At)*unit, time.Duration(f.At+f.Dur)*unit
		switch f.Kind {
		case "ch-fail":
			ch.mu.Lock()
			ch.fail = append(ch.fail, [2]time.Duration{at, end})
			ch.mu.Unlock()
		case "ch-stall":
			ch.mu.Lock()
			ch.stall = append(ch.stall, [2]time.Duration{at, end})
			ch.mu.Unlock()
		case "replica-down":
			actions = append(actions, action{at, func() { proxies[f.Replica].setDown(true); logf("%v replica %d off the network", at, f.Replica+1) }})
			actions = append(actions, action{end, func() { proxies[f.Replica].setDown(false); logf("%v replica %d back", end, f.Replica+1) }})
			cls["AB:replica-down"] = true
		case "drop-conns":
			end = at
			actions = append(actions, action{at, func() {
				n := proxies[f.Replica].dropConns()
				logf("%v dropped %d connections of replica %d", at, n, f.Replica+1)
			}})
			cls["AB:drop-conns"] = true
		case "agg-restart":
			end = at
			actions = append(actions, action{at, func() {
				old := aggs[f.Replica]
				proxies[f.Replica].setDown(true)
				old.stop()
				oldAggs = append(oldAggs, old)
				g, err := c01cStartAgg(int32(f.Replica+1), c.ShortWindow, khAddr)
				if err != nil {
					panic("listen: " + err.Error())
				}
				aggs[f.Replica] = g
				proxies[f.Replica].setTarget(g.ln.Addr().String())
				proxies[f.Replica].setDown(false)
				logf("%v aggregator %d replaced by a fresh one", at, f.Replica+1)
			}})
			cls["AB:agg-restart"] = true
		default:
			res.Inconclusive = "bad fault kind " + f.Kind
			return
		}
		if end > lastFaultEnd {
			lastFaultEnd = end
		}
	}
	sort.SliceStable(actions, func(i, j int) bool { return actions[i].at < actions[j].at })

	// writing phase: PerSecond marker rows per second, ordinals 1..N; faults are applied by the same loop
	written := map[int32]uint32{} // ordinal -> second it was written for
	uncertain := map[int32]bool{} // writes the agent may have dropped by design
	ord := int32(0)
	writeEnd := time.Duration(c.WriteSec) * time.Second
	nextWrite := time.Duration(0)
	ai := 0
	for {
		el := time.Since(ch.start)
		for ai < len(actions) && actions[ai].at <= el {
			actions[ai].f()
			ai++
		}
		if el >= nextWrite && nextWrite < writeEnd {
			now := uint32(time.Now().Unix())
			for k := 0; k < c.PerSecond; k++ {
				ord++
				// The agent silently drops incoming events while its receiving queue has a gap (flusher more than 5 s
				// behind the clock: gapInReceivingQueueLocked > 0, e.g. under CPU starvation). A write counts as
				// accepted only if the gap was certainly absent: both fields only grow, so the gap during the call is
				// at most CurrentTime(after) - SendTime(before) - 5.
				stBefore := ag.Shards[0].SendTime
				ag.AddCounter(now, meta, []int32{0, ord}, 1)
				ctAfter := ag.Shards[0].CurrentTime
				written[ord] = now
				if int64(ctAfter)-int64(stBefore)-5 > 0 {
					uncertain[ord] = true
					cls["AB:write-while-queue-gap"] = true
				}
			}
			nextWrite += time.Second
		}
		if nextWrite >= writeEnd && ai == len(actions) && el >= lastFaultEnd {
			break
		}
		time.Sleep(20 * time.Millisecond)
	}
	faultsOver := time.Now()

	// quiescence, state-based: stop the agent the graceful way (cmd/statshouse): no new recent sends, wait until the
	// recent senders have finished their in-flight requests, stop the flusher and flush everything that is still in the
	// receiving queue up to the present. After that every second is either acknowledged or in the historic queue (memory + disk), which
	// the historic senders keep draining. Quiescent = nothing unsent in memory and on disk, 3 samples in a row.
	// (FlushAllData of the real shutdown is not used: it also flushes the agent's future slots, and seconds in the future
	// wait in the historic queue until they are in the past, woken up only once a minute. Instead the harness waits until
	// the real flusher has passed the last written second.)
	var lastWritten uint32
	for _, sec := range written {
		if sec > lastWritten {
			lastWritten = sec
		}
	}
	flushDeadline := time.Now().Add(60 * time.Second)
	for ag.Shards[0].SendTime <= lastWritten {
		if time.Now().After(flushDeadline) {
			res.Inconclusive = "the agent's flusher did not reach the last written second in 60 s"
			return
		}
		time.Sleep(100 * time.Millisecond)
	}
	ag.DisableNewSends()
	ag.WaitRecentSenders(90 * time.Second)
	ag.ShutdownFlusher()
	ag.WaitFlusher()
	for _, sh := range ag.Shards {
		sh.StopPreprocessor()
	}
	ag.WaitPreprocessor()
	stopped = true
	deadline := time.Now().Add(120 * time.Second)
	calm := 0
	for {
		mem := ag.HistoricBucketsDataSizeMemorySum()
		_, disk := ag.HistoricBucketsDataSizeDiskSum()
		if mem == 0 && disk == 0 {
			calm++
		} else {
			calm = 0
		}
		if calm >= 3 {
			break
		}
		if time.Now().After(deadline) {
			res.Inconclusive = fmt.Sprintf("agent not quiescent %v after the faults stopped (memory %d, disk unsent %d bytes)", time.Since(faultsOver).Round(time.Second), mem, disk)
			break
		}
		time.Sleep(500 * time.Millisecond)
	}
	// let the aggregators finish the inserts the last acknowledgements were waiting for (they already have: an
	// acknowledgement follows its insert); one more second for stragglers of spare/duplicate copies is harmless
	time.Sleep(200 * time.Millisecond)

	ch.mu.Lock()
	rows := map[int32]float64{}
	for k, v := range ch.rows {
		rows[k] = v
	}
	stat := map[string]int{}
	for k, v := range ch.stat {
		stat[k] = v
	}
	perr := ch.perr
	ch.mu.Unlock()
	if perr != "" {
		res.Violation = "an INSERT body with HTTP 200 is not a sequence of rows: " + perr
		return
	}
	for k, v := range stat {
		if v > 0 {
			cls["AB:"+k] = true
		}
	}
	agentLogMu.Lock()
	resent := 0
	for _, l := range agentLog {
		if len(l) > 4 && (strings.Contains(l, "moving bucket") || strings.Contains(l, "Send Error") || strings.Contains(l, "Send Warning")) {
			resent++
		}
	}
	tail := append([]string(nil), agentLog...)
	agentLogMu.Unlock()
	if resent > 0 {
		cls["AB:second-refused-then-historic"] = true
	}
	var missing []string
	dups := 0
	for o := int32(1); o <= ord; o++ {
		switch n := rows[o]; {
		case n < 1 && uncertain[o]:
		case n < 1:
			missing = append(missing, fmt.Sprintf("#%d(second %d, +%ds)", o, written[o], int64(written[o])-ch.start.Unix()))
		case n > 1:
			dups++
		}
	}
	if dups > 0 {
		cls["AB:inserted-more-than-once"] = true
	}
	if res.Inconclusive != "" {
		if len(missing) != 0 {
			res.Inconclusive += fmt.Sprintf("; %d rows not inserted yet", len(missing))
		}
		return
	}
	if len(missing) != 0 {
		if len(tail) > 25 {
			tail = tail[len(tail)-25:]
		}
		res.Violation = fmt.Sprintf("%d of %d marker rows the agent accepted are in no successful INSERT although the agent holds nothing unsent (memory 0, disk 0): %v; inserts %v; harness log %v; agent log tail %v",
			len(missing), ord, missing, stat, res.Log, tail)
		return
	}
	res.Nontrivial = resent > 0 && (stat["insert-500"] > 0 || stat["insert-stalled"] > 0 || cls["AB:replica-down"] || cls["AB:drop-conns"] || cls["AB:agg-restart"])
	for k := range cls {
		res.Classes = append(res.Classes, k)
	}
	sort.Strings(res.Classes)
	return
}

func c01cGen() *rapid.Generator[c01cCase] {
	return rapid.Custom(func(t *rapid.T) c01cCase {
		c := c01cCase{WriteSec: rapid.IntRange(8, 16).Draw(t, "write"), ShortWindow: rapid.IntRange(2, 4).Draw(t, "sw"), PerSecond: rapid.IntRange(1, 3).Draw(t, "persec")}
		n := rapid.IntRange(1, 4).Draw(t, "nfaults")
		for i := 0; i < n; i++ {
			f := c01cFault{At: rapid.IntRange(10, c.WriteSec*10).Draw(t, "at"), Replica: rapid.IntRange(0, 2).Draw(t, "replica")}
			switch rapid.IntRange(0, 6).Draw(t, "kind") {
			case 0, 1:
				f.Kind, f.Dur = "ch-fail", rapid.IntRange(20, 70).Draw(t, "dur")
			case 2:
				f.Kind, f.Dur = "ch-stall", rapid.IntRange(35, 80).Draw(t, "dur")
			case 3, 4:
				f.Kind, f.Dur = "replica-down", rapid.IntRange(20, 90).Draw(t, "dur")
			case 5:
				f.Kind = "drop-conns"
			default:
				f.Kind = "agg-restart"
			}
			c.Faults = append(c.Faults, f)
		}
		return c
	})
}

func c01cBatch() int {
	if n, err := strconv.Atoi(os.Getenv("VERIF_C01C_BATCH")); err == nil && n > 0 {
		return n
	}
	return 4
}

// every rapid check runs a batch of histories concurrently (each costs 40-70 s of real time)
func TestVerifC01Compose(t *testing.T) {
	ev := vpNewEv(t, "C01", "compose")
	total, inconclusive := 0, 0
	rapid.Check(t, func(rt *rapid.T) {
		cases := rapid.SliceOfN(c01cGen(), c01cBatch(), c01cBatch()).Draw(rt, "histories")
		results := make([]c01cResult, len(cases))
		var wg sync.WaitGroup
		for i := range cases {
			dir, err := os.MkdirTemp("", "vp-c01c-")
			if err != nil {
				rt.Fatalf("VP-INCONCLUSIVE tempdir: %v", err)
			}
			defer os.RemoveAll(dir)
			wg.Add(1)
			go func(i int, dir string) {
				defer wg.Done()
				results[i] = c01cRun(cases[i], dir)
			}(i, dir)
		}
		wg.Wait()
		for i, r := range results {
			total++
			if r.Inconclusive != "" {
				inconclusive++
				ev.Class("AB:inconclusive-history", 1)
				t.Logf("inconclusive history: %s (case %+v)", r.Inconclusive, cases[i])
				continue
			}
			if r.Violation != "" {
				vpSaveFail("C01", "compose", cases[i], r.Violation)
				rt.Fatalf("%s", r.Violation)
			}
			ev.Case(r.Nontrivial, cases[i], r.Classes...)
		}
	})
	if total > 0 && inconclusive*5 > total {
		t.Fatalf("VP-INCONCLUSIVE %d of %d histories did not reach quiescence", inconclusive, total)
	}
}

func init() {
	vpReplayers["C01/compose"] = func(t vpT, raw json.RawMessage) {
		var c c01cCase
		if err := json.Unmarshal(raw, &c); err != nil {
			t.Fatalf("decode: %v", err)
		}
		dir, err := os.MkdirTemp("", "vp-c01c-")
		if err != nil {
			t.Fatalf("VP-INCONCLUSIVE tempdir: %v", err)
		}
		defer os.RemoveAll(dir)
		r := c01cRun(c, dir)
		if r.Inconclusive != "" {
			t.Fatalf("VP-INCONCLUSIVE %s", r.Inconclusive)
		}
		if r.Violation != "" {
			t.Fatalf("%s", r.Violation)
		}
	}
}
