//go:build verif

package aggregator

// C05, aggregator insert path: "a kept row carries the inverse of its keep probability as its sample
// factor; hence the expected inserted count, sum and sum-of-squares of each row equal its true values".
//
// The real Aggregator.rowDataMarshalAppendPositions (FinishStringTop, the real sampler with the real
// random selector, insertItem, appendKeys, multiValueMarshal) runs R times over a bucket that is larger
// than the insert budget (InsertBudgetFixed = 300000 bytes), with items that carry string-top values
// (MultiItem.Top, keyed by string and by mapped int) next to their tail. The RowBinary body is decoded by
// the independent reader vpParseRowBinary and every decoded row is attributed to (item, sub-row), where a
// sub-row is the tail or one string-top element. True count/sum/sumsquare of every sub-row are small
// integers known from the case.
//
// Every run, deterministic:
//   * an item is inserted completely (its tail if not empty and every string-top element, each once) or
//     not at all;
//   * every inserted sub-row is scaled by a factor f = count/true count >= 1, the same for count, sum and
//     sumsquare, and the same for all sub-rows of the item (the item was kept with one probability);
//   * f is 1 (whale / metric within budget) or the factor the sampler reported for the metric through
//     SampleFactorF (decoded from the __agg_sampling_factor row of the same body), or twice that when whales
//     were taken out (documented in sampler.sample); if no factor is reported for a metric all its items are
//     inserted with f = 1.
// Over the runs, statistical (same Bernstein test as C05/unbiased, delta = 1e-15 per test): for every
// template sub-row the inserted count summed over items and runs minus the true count. Under the
// statement, given the reported factor s_r of the run, item i contributes c*(SF*1[kept] - 1) with
// SF in {1, s_r, 2 s_r}, P(kept) = 1/SF: zero mean, variance c^2 (SF-1) <= c^2 (2 s_r - 1), magnitude
// <= c (2 s_r - 1), independent across items and runs. Bernstein's inequality holds with any upper
// bounds on variance and magnitude, so V = sum c^2 (2 s_r - 1), M = max c (2 s_r - 1) give a test with
// false-alarm probability <= delta (conservative: whales have variance 0).
// This is what catches sub-rows that are inserted unscaled when an item has nothing to compare with
// (tail empty, one string top).

import (
	"encoding/json"
	"fmt"
	"math"
	"testing"

	"pgregory.net/rand"
	"pgregory.net/rapid"

	"github.com/VKCOM/statshouse/internal/data_model"
	"github.com/VKCOM/statshouse/internal/format"
	"github.com/VKCOM/statshouse/internal/metajournal"
)

type c05AggEvent struct {
	Value   float64 `json:"v"`
	Count   float64 `json:"c"`
	Counter bool    `json:"counter,omitempty"` // counter-only event (no value)
}

type c05AggSub struct { // tail (key empty) or one string-top element
	S      string        `json:"s,omitempty"`
	I      int32         `json:"i,omitempty"`
	Events []c05AggEvent `json:"ev"`
}

type c05AggTemplate struct {
	Metric int           `json:"m"` // index: metric id 1000+m
	STag   string        `json:"stag,omitempty"`
	Tail   []c05AggEvent `json:"tail,omitempty"`
	Tops   []c05AggSub   `json:"tops,omitempty"`
}

type c05AggCase struct {
	Templates []c05AggTemplate `json:"templates"`
	Items     int              `json:"items"` // item i uses template i % len(Templates), tag 1 = i+1
	MinBudget int64            `json:"min_budget"`
	Runs      int              `json:"runs"`
	Seed      uint64           `json:"seed"`
}

const (
	c05AggTs    = 1_700_000_000
	c05AggDelta = 1e-15
)

type c05AggTrue struct{ count, sum, sumsq float64 }

func c05AggTruth(ev []c05AggEvent) (r c05AggTrue, valueSet bool) {
	for _, e := range ev {
		r.count += e.Count
		if !e.Counter {
			valueSet = true
			r.sum += e.Value * e.Count
			r.sumsq += e.Value * e.Value * e.Count
		}
	}
	return
}

func c05AggApply(rng *rand.Rand, mv *data_model.MultiValue, ev []c05AggEvent) {
	for _, e := range ev {
		if e.Counter {
			mv.AddCounter(rng, e.Count)
		} else {
			mv.AddValueCounter(rng, e.Value, e.Count)
		}
	}
}

func c05AggBucket(rng *rand.Rand, c *c05AggCase) *aggregatorBucket {
	b := &aggregatorBucket{time: c05AggTs}
	for i := 0; i < c.Items; i++ {
		tp := &c.Templates[i%len(c.Templates)]
		key := data_model.Key{Timestamp: c05AggTs, Metric: int32(1000 + tp.Metric)}
		key.Tags[1] = int32(i + 1)
		key.STags[2] = tp.STag
		item, _ := b.shards[i%len(b.shards)].GetOrCreateMultiItem(&key, nil, nil)
		c05AggApply(rng, &item.Tail, tp.Tail)
		for _, top := range tp.Tops {
			tr, _ := c05AggTruth(top.Events)
			c05AggApply(rng, item.MapStringTop(rng, 20, data_model.TagUnion{S: top.S, I: top.I}, tr.count), top.Events)
		}
	}
	return b
}

func c05AggMix(seed uint64, i int) uint64 {
	z := seed + uint64(i+1)*0x9e3779b97f4a7c15
	z = (z ^ (z >> 30)) * 0xbf58476d1ce4e5b9
	z = (z ^ (z >> 27)) * 0x94d049bb133111eb
	return z ^ (z >> 31)
}

func c05AggClose(a, b float64) bool { return math.Abs(a-b) <= 1e-9*math.Max(math.Abs(a), math.Abs(b)) }

func c05AggProp(t vpT, c c05AggCase) (nontrivial bool, classes []string, tests int) {
	if len(c.Templates) == 0 || c.Items < 1 || c.Runs < 1 {
		return false, nil, 0
	}
	// sub-rows of a template: index 0 = tail, 1.. = tops
	type subInfo struct {
		truth    c05AggTrue
		valueSet bool
		present  bool
	}
	subs := make([][]subInfo, len(c.Templates))
	topIndex := make([]map[data_model.TagUnion]int, len(c.Templates))
	for ti := range c.Templates {
		tp := &c.Templates[ti]
		tr, vs := c05AggTruth(tp.Tail)
		subs[ti] = append(subs[ti], subInfo{truth: tr, valueSet: vs, present: tr.count > 0})
		topIndex[ti] = map[data_model.TagUnion]int{}
		for k, top := range tp.Tops {
			tu := data_model.TagUnion{S: top.S, I: top.I}
			tu.Normalize()
			if _, dup := topIndex[ti][tu]; dup || tu.Empty() {
				t.Fatalf("harness: template %d: duplicate or empty string top key %+v", ti, tu)
			}
			topIndex[ti][tu] = k + 1
			tr, vs := c05AggTruth(top.Events)
			if tr.count <= 0 {
				t.Fatalf("harness: template %d: empty string top", ti)
			}
			subs[ti] = append(subs[ti], subInfo{truth: tr, valueSet: vs, present: true})
		}
	}
	a := &Aggregator{
		shardKey:      1,
		replicaKey:    1,
		metricStorage: metajournal.MakeMetricsStorage(nil),
		tagsMapper3:   &tagsMapper3{unknownTags: map[string]unknownTag{}, createTags: map[string]createMappingExtra{}},
	}
	a.configR = DefaultConfigAggregator().RemoteInitial
	a.configR.StringTopCountInsert = 20
	a.configR.MinInsertBudget = c.MinBudget

	// statistical accumulators per (template, sub-row)
	type acc struct{ dev, v, m float64 }
	accs := make([][]acc, len(c.Templates))
	for ti := range accs {
		accs[ti] = make([]acc, len(subs[ti]))
	}
	var buffers data_model.SamplerBuffers
	var body []byte
	sawSampledTop, sawSampled, sawWhale, sawTopOnly := false, false, false, false
	for run := 0; run < c.Runs; run++ {
		rng := rand.New(c05AggMix(c.Seed, run))
		bucket := c05AggBucket(rng, &c)
		body, buffers, _, _ = a.rowDataMarshalAppendPositions([]*aggregatorBucket{bucket}, buffers, rng, body[:0])
		rows, err := vpParseRowBinary(body)
		if err != nil {
			t.Fatalf("run %d: cannot decode the insert body: %v", run, err)
		}
		reported := map[int32]float64{} // metric -> factor reported by the sampler
		for i := range rows {
			r := &rows[i]
			if r.Metric == format.BuiltinMetricIDAggSamplingFactor && int32(r.Tags[5]) == format.TagValueIDAggSamplingFactorReasonInsertSize {
				if r.Count != 1 {
					t.Fatalf("run %d: sampling factor row of metric %d has count %v", run, int32(r.Tags[4]), r.Count)
				}
				reported[int32(r.Tags[4])] = r.Sum
			}
		}
		// factor of every inserted sub-row
		factor := make([][]float64, c.Items) // per item, per sub-row; 0 = not inserted
		for i := range rows {
			r := &rows[i]
			if r.Metric < 1000 || r.Metric >= int32(1000+16) {
				continue
			}
			it := int(int32(r.Tags[1])) - 1
			if it < 0 || it >= c.Items {
				t.Fatalf("run %d: inserted row of metric %d with unknown tag 1 = %d", run, r.Metric, r.Tags[1])
			}
			ti := it % len(c.Templates)
			tp := &c.Templates[ti]
			if r.Metric != int32(1000+tp.Metric) || r.STags[2] != tp.STag || r.Time != c05AggTs {
				t.Fatalf("run %d: item %d inserted with metric %d stag %q time %d", run, it, r.Metric, r.STags[2], r.Time)
			}
			si := 0
			if top := (data_model.TagUnion{S: r.STags[47], I: int32(r.Tags[47])}); !top.Empty() {
				var ok bool
				if si, ok = topIndex[ti][top]; !ok {
					t.Fatalf("run %d: item %d inserted with unknown string top %+v", run, it, top)
				}
			}
			sub := &subs[ti][si]
			if !sub.present {
				t.Fatalf("run %d: item %d: empty tail inserted (count %v)", run, it, r.Count)
			}
			if factor[it] == nil {
				factor[it] = make([]float64, len(subs[ti]))
			}
			if factor[it][si] != 0 {
				t.Fatalf("run %d: item %d sub-row %d inserted twice", run, it, si)
			}
			f := r.Count / sub.truth.count
			if !(f >= 1-1e-9) || math.IsInf(f, 0) {
				t.Fatalf("run %d: item %d sub-row %d: inserted count %v, true count %v: factor %v", run, it, si, r.Count, sub.truth.count, f)
			}
			if sub.valueSet && (!c05AggClose(r.Sum, sub.truth.sum*f) || !c05AggClose(r.SumSquare, sub.truth.sumsq*f)) {
				t.Fatalf("run %d: item %d sub-row %d: count scaled by %v but sum %v (true %v) sumsquare %v (true %v)", run, it, si, f, r.Sum, sub.truth.sum, r.SumSquare, sub.truth.sumsq)
			}
			factor[it][si] = f
		}
		for it := 0; it < c.Items; it++ {
			ti := it % len(c.Templates)
			metric := int32(1000 + c.Templates[ti].Metric)
			s, hasRep := reported[metric]
			if hasRep && !(s >= 1) {
				t.Fatalf("run %d: factor %v reported for metric %d", run, s, metric)
			}
			fs := factor[it]
			if fs == nil {
				if !hasRep {
					t.Fatalf("run %d: item %d of metric %d is not inserted although no sampling factor is reported for the metric", run, it, metric)
				}
			} else {
				f0 := 0.0
				nTops := 0
				for si, f := range fs {
					if !subs[ti][si].present {
						continue
					}
					if f == 0 {
						t.Fatalf("run %d: item %d is inserted without its sub-row %d (string top / tail lost)", run, it, si)
					}
					if f0 == 0 {
						f0 = f
					} else if !c05AggClose(f, f0) {
						t.Fatalf("run %d: item %d (metric %d) was kept with one probability but its sub-rows are scaled differently: sub-row 0/first by %v, sub-row %d by %v (reported metric factor %v)",
							run, it, metric, f0, si, f, s)
					}
					if si > 0 {
						nTops++
					}
				}
				switch {
				case c05AggClose(f0, 1):
					if hasRep {
						sawWhale = true
					}
				case hasRep && (c05AggClose(f0, s) || c05AggClose(f0, 2*s)):
					sawSampled = true
					if nTops > 0 {
						sawSampledTop = true
						if !subs[ti][0].present {
							sawTopOnly = true
						}
					}
				default:
					t.Fatalf("run %d: item %d of metric %d inserted with factor %v, the sampler reported %v for the metric (allowed: 1, that, twice that)", run, it, metric, f0, s)
				}
			}
			for si := range subs[ti] {
				sub := &subs[ti][si]
				if !sub.present {
					continue
				}
				ac := &accs[ti][si]
				got := 0.0
				if fs != nil {
					got = fs[si]
				}
				ac.dev += sub.truth.count * (got - 1)
				if hasRep {
					ac.v += sub.truth.count * sub.truth.count * (2*s - 1)
					ac.m = math.Max(ac.m, sub.truth.count*math.Max(2*s-1, 1))
				}
			}
		}
	}
	l := math.Log(2 / c05AggDelta)
	for ti := range accs {
		for si, ac := range accs[ti] {
			if !subs[ti][si].present {
				continue
			}
			tests++
			what := "tail"
			if si > 0 {
				top := c.Templates[ti].Tops[si-1]
				what = fmt.Sprintf("string top {S:%q I:%d}", top.S, top.I)
			}
			if ac.v == 0 {
				if math.Abs(ac.dev) > 1e-6 {
					t.Fatalf("template %d %s: inserted count differs from the true count by %v although nothing was sampled", ti, what, ac.dev)
				}
				continue
			}
			k := ac.m * l / 3
			bound := k + math.Sqrt(k*k+2*l*ac.v)
			if math.IsNaN(ac.dev) || math.IsInf(ac.v, 0) || math.Abs(ac.dev) > bound {
				n := float64(c.Runs) * float64((c.Items-ti+len(c.Templates)-1)/len(c.Templates))
				t.Fatalf("template %d %s (true count %v per item): inserted count minus true count summed over %d runs is %.6g (%.4g per item and run), Bernstein bound at delta=1e-15 is %.6g (V<=%.6g M<=%.6g): expected inserted value differs from the true value; base seed %d",
					ti, what, subs[ti][si].truth.count, c.Runs, ac.dev, ac.dev/n/subs[ti][si].truth.count, bound, ac.v, ac.m, c.Seed)
			}
		}
	}
	if sawSampled {
		classes = append(classes, "agg-sampled")
	}
	if sawSampledTop {
		classes = append(classes, "agg-sampled-stringtop")
	}
	if sawTopOnly {
		classes = append(classes, "agg-sampled-stringtop-without-tail")
	}
	if sawWhale {
		classes = append(classes, "agg-whale")
	}
	return sawSampledTop, classes, tests
}

func c05AggGen() *rapid.Generator[c05AggCase] {
	evGen := rapid.Custom(func(t *rapid.T) c05AggEvent {
		return c05AggEvent{Value: float64(rapid.IntRange(-3, 9).Draw(t, "value")), Count: float64(rapid.IntRange(1, 5).Draw(t, "count")), Counter: rapid.IntRange(0, 4).Draw(t, "counter") == 0}
	})
	topKeys := []c05AggSub{{S: "a"}, {S: "b"}, {S: "some longer value"}, {I: 1}, {I: 77}}
	return rapid.Custom(func(t *rapid.T) c05AggCase {
		var c c05AggCase
		nT := rapid.IntRange(1, 5).Draw(t, "n_templates")
		nM := rapid.IntRange(1, 3).Draw(t, "n_metrics")
		for i := 0; i < nT; i++ {
			tp := c05AggTemplate{Metric: rapid.IntRange(0, nM-1).Draw(t, "metric")}
			if rapid.IntRange(0, 3).Draw(t, "stag") == 0 {
				tp.STag = "env"
			}
			nTops := rapid.IntRange(0, 3).Draw(t, "n_tops")
			if nTops == 0 || rapid.IntRange(0, 3).Draw(t, "has_tail") != 0 {
				tp.Tail = rapid.SliceOfN(evGen, 1, 2).Draw(t, "tail")
			}
			keys := rapid.SliceOfNDistinct(rapid.IntRange(0, len(topKeys)-1), nTops, nTops, func(i int) int { return i }).Draw(t, "top_keys")
			for _, k := range keys {
				s := topKeys[k]
				s.Events = rapid.SliceOfN(evGen, 1, 2).Draw(t, "top_events")
				tp.Tops = append(tp.Tops, s)
			}
			c.Templates = append(c.Templates, tp)
		}
		if rapid.IntRange(0, 9).Draw(t, "small") == 0 {
			c.Items = rapid.IntRange(1, 600).Draw(t, "items") // within budget: nothing is sampled
		} else {
			c.Items = rapid.IntRange(1500, 5000).Draw(t, "items")
		}
		c.MinBudget = rapid.SampledFrom([]int64{data_model.InsertBudgetFixed, data_model.InsertBudgetFixed, 450000}).Draw(t, "min_budget")
		c.Runs = 3
		c.Seed = rapid.Uint64().Draw(t, "seed")
		return c
	})
}

func TestVerifC05AggInsert(t *testing.T) {
	ev := vpNewEv(t, "C05", "agg-insert")
	var tests int64
	rapid.Check(t, func(rt *rapid.T) {
		c := c05AggGen().Draw(rt, "case")
		vpRunCase(rt, "C05", "agg-insert", c, func() {
			nt, cls, n := c05AggProp(rt, c)
			tests += int64(n)
			ev.Case(nt, c, cls...)
		})
	})
	ev.Class("bernstein-tests", tests)
	ev.Extra("false_alarm_bound", float64(tests)*c05AggDelta)
}

func init() {
	vpReplayers["C05/agg-insert"] = func(t vpT, raw json.RawMessage) {
		var c c05AggCase
		if err := json.Unmarshal(raw, &c); err != nil {
			t.Fatalf("decode: %v", err)
		}
		c05AggProp(t, c)
	}
}
