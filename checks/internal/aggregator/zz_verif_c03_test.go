//go:build verif

package aggregator

import (
	"bytes"
	"encoding/json"
	"errors"
	"fmt"
	"io"
	"math"
	"os"
	"sort"
	"strconv"
	"strings"
	"testing"

	"github.com/ClickHouse/ch-go/proto"
	"github.com/hrissan/tdigest"
	"pgregory.net/rapid"

	"github.com/VKCOM/statshouse/internal/chutil"
	"github.com/VKCOM/statshouse/internal/data_model"
	"github.com/VKCOM/statshouse/internal/data_model/gen2/tlstatshouse"
	"github.com/VKCOM/statshouse/internal/format"
)

// ---------- C03: inserted rows equal the merge of all contributions and read back intact ----------

type c03Host struct {
	I int32  `json:"i,omitempty"`
	S string `json:"s,omitempty"`
}

// c03Value is one multiValue on the wire, described by what it means (TL schema comments of statshouse.multiValue).
type c03Value struct {
	Count     vpF          `json:"count"`               // counter, > 0
	HasValue  bool         `json:"has_value,omitempty"` // value_set
	Min       vpF          `json:"min,omitempty"`       //
	Max       vpF          `json:"max,omitempty"`       // == Min: "simple value": max, sum, sumsquare are not sent and are min, min*count, min*min*count
	Sum       vpF          `json:"sum,omitempty"`       //
	SumSq     vpF          `json:"sumsq,omitempty"`     //
	Centroids [][2]float32 `json:"centroids,omitempty"` // (value, count)
	Implicit  bool         `json:"implicit,omitempty"`  // implicit centroid (min, count)
	Hashes    []uint32     `json:"hashes,omitempty"`    // unthinned uniq state: distinct 32-bit hashes
	MaxHost   *c03Host     `json:"max_host,omitempty"`
	MinHost   *c03Host     `json:"min_host,omitempty"`
	MaxCHost  *c03Host     `json:"max_count_host,omitempty"`
}

type c03Tag struct {
	I int    `json:"i"`
	V int32  `json:"v,omitempty"`
	S string `json:"s,omitempty"`
}

type c03Top struct {
	Key   c03Host  `json:"key"`
	Value c03Value `json:"value"`
}

type c03Item struct {
	Metric int32     `json:"metric"`
	Tags   []c03Tag  `json:"tags,omitempty"`
	TBack  uint32    `json:"t_back,omitempty"` // explicit row timestamp = args.Time - TBack (0: not sent)
	Tail   *c03Value `json:"tail,omitempty"`
	Top    []c03Top  `json:"top,omitempty"`
}

type c03Step struct {
	Kind     string    `json:"kind"` // "send" | "tick"
	Host     string    `json:"host,omitempty"`
	Dt       int       `json:"dt,omitempty"` // args.Time = now + Dt
	Historic bool      `json:"historic,omitempty"`
	Spare    bool      `json:"spare,omitempty"`
	Items    []c03Item `json:"items,omitempty"`
	Advance  int       `json:"advance,omitempty"`
}

type c03Case struct {
	Replica     int32            `json:"replica"`
	ShortWindow int              `json:"short_window"`
	Now         uint32           `json:"now"`
	Mappings    map[string]int32 `json:"mappings"`
	TopInsert   int              `json:"top_insert"`
	Steps       []c03Step        `json:"steps"`
}

// --- wire encoding, written from the TL schema

func c03SetHost(h *c03Host, setI func(int32, *uint32), setS func(string, *uint32), mask *uint32) {
	if h == nil {
		return
	}
	if h.I != 0 {
		setI(h.I, mask)
	} else if h.S != "" {
		setS(h.S, mask)
	}
}

func c03WireValue(v *c03Value, dst *tlstatshouse.MultiValue, mask *uint32) {
	if v == nil || v.Count <= 0 {
		return
	}
	if v.Count == 1 {
		dst.SetCounterEq1(true, mask)
	} else {
		dst.SetCounter(float64(v.Count), mask)
	}
	c03SetHost(v.MaxHost, dst.SetMaxHostTag, dst.SetMaxHostStag, mask)
	c03SetHost(v.MinHost, dst.SetMinHostTag, dst.SetMinHostStag, mask)
	c03SetHost(v.MaxCHost, dst.SetMaxCounterHostTag, dst.SetMaxCounterHostStag, mask)
	if len(v.Hashes) != 0 {
		dst.SetUniques(string(vpUniqState(v.Hashes)), mask)
	}
	if !v.HasValue {
		return
	}
	dst.SetValueSet(true, mask)
	if v.Min != 0 {
		dst.SetValueMin(float64(v.Min), mask)
	}
	if v.Min != v.Max {
		dst.SetValueMax(float64(v.Max), mask)
		dst.SetValueSum(float64(v.Sum), mask)
		dst.SetValueSumSquare(float64(v.SumSq), mask)
	}
	if len(v.Centroids) != 0 {
		var cc []tlstatshouse.CentroidFloat
		for _, c := range v.Centroids {
			cc = append(cc, tlstatshouse.CentroidFloat{Value: c[0], Count: c[1]})
		}
		dst.SetCentroids(cc, mask)
	}
	if v.Implicit {
		dst.SetImplicitCentroid(true, mask)
	}
}

func c03WireItem(it c03Item, bucketTime uint32) tlstatshouse.MultiItem {
	w := tlstatshouse.MultiItem{Metric: it.Metric}
	var keys []int32
	var skeys []string
	for _, tg := range it.Tags {
		if tg.S != "" {
			for len(skeys) <= tg.I {
				skeys = append(skeys, "")
			}
			skeys[tg.I] = tg.S
		} else if tg.V != 0 {
			for len(keys) <= tg.I {
				keys = append(keys, 0)
			}
			keys[tg.I] = tg.V
		}
	}
	w.Keys = keys
	if len(skeys) != 0 {
		w.SetSkeys(skeys)
	}
	if it.TBack != 0 {
		w.SetT(bucketTime - it.TBack)
	}
	c03WireValue(it.Tail, &w.Tail, &w.FieldsMask)
	if len(it.Top) != 0 {
		var tops []tlstatshouse.TopElement
		for i := range it.Top {
			var te tlstatshouse.TopElement
			if it.Top[i].Key.I != 0 {
				te.SetTag(it.Top[i].Key.I)
			} else {
				te.Stag = it.Top[i].Key.S
			}
			c03WireValue(&it.Top[i].Value, &te.Value, &te.FieldsMask)
			tops = append(tops, te)
		}
		w.SetTop(tops)
	}
	return w
}

// --- reference

type c03RowKey struct {
	Time   uint32
	Metric int32
	Tags   [47]uint32
	STags  [47]string
	TopI   uint32
	TopS   string
}

type c03RefPart struct {
	hasValue bool
	min, max float64
	minHost  string
	maxHost  string
	maxCHost string
}

type c03Ref struct {
	count      float64
	hasValue   bool
	min, max   float64
	sum, sumsq float64
	hashes     map[uint32]struct{}
	centroidW  float64
	nCentroids int
	parts      []c03RefPart
	nContrib   int
}

func (c *c03Case) norm(h c03Host) c03Host {
	if h.I != 0 {
		return c03Host{I: h.I}
	}
	if m, ok := c.Mappings[h.S]; ok && m > 0 {
		return c03Host{I: m}
	}
	return c03Host{S: h.S}
}

func (h c03Host) String() string {
	if h.I != 0 {
		return fmt.Sprintf("i:%d", h.I)
	}
	return "s:" + h.S
}

func (c *c03Case) refMerge(refs map[c03RowKey]*c03Ref, key c03RowKey, v *c03Value, sender c03Host) {
	if v == nil || v.Count <= 0 {
		return
	}
	r := refs[key]
	if r == nil {
		r = &c03Ref{hashes: map[uint32]struct{}{}}
		refs[key] = r
	}
	r.nContrib++
	r.count += float64(v.Count)
	for _, h := range v.Hashes {
		r.hashes[h] = struct{}{}
	}
	maxHost := sender
	if v.MaxHost != nil {
		maxHost = c.norm(*v.MaxHost)
	}
	minHost := maxHost
	if v.MinHost != nil {
		minHost = c.norm(*v.MinHost)
	}
	maxCHost := maxHost
	if v.MaxCHost != nil {
		maxCHost = c.norm(*v.MaxCHost)
	}
	part := c03RefPart{maxCHost: maxCHost.String()}
	if v.HasValue {
		mi, ma, su, sq := float64(v.Min), float64(v.Max), float64(v.Sum), float64(v.SumSq)
		if mi == ma { // simple value
			su = mi * float64(v.Count)
			sq = mi * mi * float64(v.Count)
		}
		if !r.hasValue || mi < r.min {
			r.min = mi
		}
		if !r.hasValue || ma > r.max {
			r.max = ma
		}
		r.hasValue = true
		r.sum += su
		r.sumsq += sq
		part.hasValue, part.min, part.max, part.minHost, part.maxHost = true, mi, ma, minHost.String(), maxHost.String()
		for _, cc := range v.Centroids {
			if cc[1] != 0 {
				r.centroidW += float64(cc[1])
				r.nCentroids++
			}
		}
		if v.Implicit {
			r.centroidW += float64(v.Count)
			r.nCentroids++
		}
	}
	r.parts = append(r.parts, part)
}

func (c *c03Case) rowKey(it c03Item, bucketTime uint32) c03RowKey {
	k := c03RowKey{Time: bucketTime, Metric: it.Metric}
	if it.TBack != 0 {
		// explicit timestamps not newer than the bucket and inside the believe window are kept (transfer.go)
		k.Time = bucketTime - it.TBack
	}
	for _, tg := range it.Tags {
		if tg.S != "" {
			n := c.norm(c03Host{S: tg.S})
			k.Tags[tg.I], k.STags[tg.I] = uint32(n.I), n.S
		} else if tg.V != 0 {
			k.Tags[tg.I] = uint32(tg.V)
		}
	}
	return k
}

// --- decoding helpers

func c03HostOf(h vpArgHost) string {
	if h.Empty {
		return ""
	}
	if h.IsInt {
		return fmt.Sprintf("i:%d", h.Int)
	}
	return "s:" + h.Str
}

func c03Between(v float32, a, b float64) bool { // v within [min(a,b), max(a,b)] allowing float32 rounding
	lo, hi := math.Min(a, b), math.Max(a, b)
	return float64(v) >= lo-math.Abs(lo)*1e-6-1e-30 && float64(v) <= hi+math.Abs(hi)*1e-6+1e-30
}

type c03Col interface {
	DecodeColumn(r *proto.Reader, rows int) error
}

func c03Decode(t vpT, what string, col c03Col, states [][]byte) {
	var all []byte
	for _, s := range states {
		all = append(all, s...)
	}
	r := proto.NewReader(bytes.NewReader(all))
	if err := col.DecodeColumn(r, len(states)); err != nil {
		t.Fatalf("%s: the API column reader fails on the states the aggregator wrote: %v", what, err)
	}
	if _, err := r.ReadByte(); !errors.Is(err, io.EOF) {
		t.Fatalf("%s: the API column reader did not consume the states exactly (%d rows, %d bytes): %v", what, len(states), len(all), err)
	}
}

func c03FindItem(b *aggregatorBucket, key data_model.Key) *data_model.MultiItem {
	for si := range b.shards {
		for _, it := range b.shards[si].MultiItems {
			if it.Key == key {
				return it
			}
		}
	}
	return nil
}

// c03CheckBody compares one insert body with the contributions filed into the buckets it was built from.
func c03CheckBody(t vpT, c *c03Case, ins *vpInsert, buckets []*aggregatorBucket, contribs map[*aggregatorBucket][]c03Sent, cls map[string]bool) (nontrivial bool) {
	rows, err := vpParseRowBinary(ins.Body)
	if err != nil {
		t.Fatalf("insert %d: body is not a sequence of statshouse_v3_incoming rows: %v", ins.Idx, err)
	}
	refs := map[c03RowKey]*c03Ref{}
	for _, b := range buckets {
		for _, s := range contribs[b] {
			sender := c.norm(c03Host{S: s.step.Host})
			for _, it := range s.step.Items {
				key := c.rowKey(it, s.time)
				c.refMerge(refs, key, it.Tail, sender)
				for i := range it.Top {
					tk := key
					n := c.norm(it.Top[i].Key)
					tk.TopI, tk.TopS = uint32(n.I), n.S
					c.refMerge(refs, tk, &it.Top[i].Value, sender)
				}
			}
		}
	}
	seen := map[c03RowKey]int{}
	var user []vpRow
	var userKeys []c03RowKey
	for _, row := range rows {
		if row.MaxCount != row.Count {
			t.Fatalf("insert %d: row metric %d: max_count %v != count %v", ins.Idx, row.Metric, row.MaxCount, row.Count)
		}
		if row.IndexType != 0 {
			t.Fatalf("insert %d: row metric %d: index_type %d", ins.Idx, row.Metric, row.IndexType)
		}
		if row.Metric < 0 {
			continue // built-in rows the aggregator adds itself
		}
		var k c03RowKey
		k.Time, k.Metric = row.Time, row.Metric
		copy(k.Tags[:], row.Tags[:47])
		copy(k.STags[:], row.STags[:47])
		k.TopI, k.TopS = row.Tags[47], row.STags[47]
		for i := 0; i < 48; i++ {
			if row.Tags[i] != 0 && row.STags[i] != "" {
				t.Fatalf("insert %d: row %+v has both tag%d and stag%d", ins.Idx, k, i, i)
			}
		}
		seen[k]++
		if seen[k] > 1 {
			t.Fatalf("insert %d: key appears %d times in one body: time %d metric %d tags %v top (%d,%q)", ins.Idx, seen[k], k.Time, k.Metric, c03ShortTags(k), k.TopI, k.TopS)
		}
		user = append(user, row)
		userKeys = append(userKeys, k)
	}
	for k, r := range refs {
		if r.count > 0 && seen[k] == 0 {
			t.Fatalf("insert %d: contributed key is missing from the body: time %d metric %d tags %v top (%d,%q) count %v (body has %d user rows)", ins.Idx, k.Time, k.Metric, c03ShortTags(k), k.TopI, k.TopS, r.count, len(user))
		}
	}
	var uniqStates, tdStates, minStates, maxStates, maxCStates [][]byte
	for i, row := range user {
		k := userKeys[i]
		r := refs[k]
		where := fmt.Sprintf("insert %d: row time %d metric %d tags %v top (%d,%q)", ins.Idx, k.Time, k.Metric, c03ShortTags(k), k.TopI, k.TopS)
		if r == nil {
			t.Fatalf("%s: nobody contributed this key", where)
		}
		if r.nContrib > 1 {
			nontrivial = true
			cls["shared-key"] = true
		}
		if len(user) >= 150 {
			cls["wide-body"] = true
		}
		for _, sv := range append(k.STags[:], k.TopS) {
			switch len(sv) {
			case 128:
				cls["stag-or-top-len-128"] = true
			case 127:
				cls["stag-or-top-len-127"] = true
			}
		}
		for _, h := range []vpArgHost{row.MinHost, row.MaxHost, row.MaxCHost} {
			if len(h.Str) == 128 {
				cls["host-len-128"] = true
			}
		}
		if k.TopI != 0 || k.TopS != "" {
			nontrivial = true
			cls["string-top"] = true
		}
		want := [5]float64{r.count, 0, 0, 0, 0}
		if r.hasValue {
			want = [5]float64{r.count, r.min, r.max, r.sum, r.sumsq}
			cls["value"] = true
		} else {
			cls["counter"] = true
		}
		got := [5]float64{row.Count, row.Min, row.Max, row.Sum, row.SumSquare}
		if got != want {
			t.Fatalf("%s: (count,min,max,sum,sumsquare) = %v, merge of the %d contributions = %v", where, got, r.nContrib, want)
		}
		// unique state
		if row.UniqSkip != 0 {
			t.Fatalf("%s: uniq state thinned (skip degree %d) with %d distinct values", where, row.UniqSkip, len(r.hashes))
		}
		gotSet := map[uint32]struct{}{}
		for _, h := range row.UniqItems {
			if _, dup := gotSet[h]; dup {
				t.Fatalf("%s: uniq state lists hash %#x twice", where, h)
			}
			gotSet[h] = struct{}{}
		}
		if len(gotSet) != len(r.hashes) {
			t.Fatalf("%s: uniq state has %d items, contributions have %d distinct hashes", where, len(gotSet), len(r.hashes))
		}
		for h := range r.hashes {
			if _, ok := gotSet[h]; !ok {
				t.Fatalf("%s: uniq state lacks contributed hash %#x", where, h)
			}
		}
		if len(r.hashes) != 0 {
			nontrivial = true
			cls["uniques"] = true
			if len(r.hashes) > 5000 {
				cls["uniques>5000"] = true
			}
		}
		// centroids: conservation against the contributions
		var w float64
		for _, cc := range row.Centroids {
			w += float64(cc.Weight)
			if !(cc.Weight > 0) {
				t.Fatalf("%s: centroid with weight %v", where, cc.Weight)
			}
			if cc.Mean < float32(r.min) || cc.Mean > float32(r.max) {
				t.Fatalf("%s: centroid mean %v outside of [min,max]=[%v,%v]", where, cc.Mean, r.min, r.max)
			}
		}
		if w != r.centroidW {
			t.Fatalf("%s: centroids weigh %v, contributed centroids weigh %v", where, w, r.centroidW)
		}
		if r.nCentroids != 0 {
			nontrivial = true
			cls["percentiles"] = true
		}
		// hosts
		c03CheckHost(t, where+" min_host", row.MinHost, r, 0)
		c03CheckHost(t, where+" max_host", row.MaxHost, r, 1)
		c03CheckHost(t, where+" max_count_host", row.MaxCHost, r, 2)
		if row.MinHost.IsInt || row.MaxHost.IsInt || row.MaxCHost.IsInt {
			cls["mapped-host"] = true
		}
		if row.MinHost.Str != "" || row.MaxHost.Str != "" || row.MaxCHost.Str != "" {
			cls["string-host"] = true
		}
		uniqStates = append(uniqStates, row.RawUniq)
		tdStates = append(tdStates, row.RawTD)
		minStates = append(minStates, row.MinHost.Raw)
		maxStates = append(maxStates, row.MaxHost.Raw)
		maxCStates = append(maxCStates, row.MaxCHost.Raw)
	}
	if len(user) == 0 {
		return nontrivial
	}
	// the API's column readers must decode the same values from the same bytes
	var colU chutil.ColUnique
	c03Decode(t, "uniq_state", &colU, uniqStates)
	var colT chutil.ColTDigest
	c03Decode(t, "percentiles", &colT, tdStates)
	var colMin chutil.ColArgMinStringFloat32
	c03Decode(t, "min_host", &colMin, minStates)
	var colMax, colMaxC chutil.ColArgMaxStringFloat32
	c03Decode(t, "max_host", &colMax, maxStates)
	c03Decode(t, "max_count_host", &colMaxC, maxCStates)
	for i, row := range user {
		k := userKeys[i]
		r := refs[k]
		where := fmt.Sprintf("insert %d: row time %d metric %d tags %v top (%d,%q)", ins.Idx, k.Time, k.Metric, c03ShortTags(k), k.TopI, k.TopS)
		if n := len(r.hashes); n <= 65536 {
			if colU[i].ItemsCount() != n || colU[i].Size(false) != uint64(n) || colU[i].Size(true) != uint64(n) {
				t.Fatalf("%s: decoded uniq state: items %d size %d, contributions have %d distinct hashes", where, colU[i].ItemsCount(), colU[i].Size(false), n)
			}
		}
		// percentiles: same digest as the library builds from the centroids found in the body
		ref := tdigest.NewWithCompression(256)
		for _, cc := range row.Centroids {
			ref.AddCentroid(tdigest.Centroid{Mean: float64(cc.Mean), Weight: float64(cc.Weight)})
		}
		ref.Normalize()
		if colT[i] == nil {
			t.Fatalf("%s: decoded digest is nil", where)
		}
		gotC, wantC := colT[i].Centroids(), ref.Centroids()
		if len(gotC) != len(wantC) || colT[i].Count() != ref.Count() {
			t.Fatalf("%s: decoded digest has %d centroids / weight %v, body has %d / %v", where, len(gotC), colT[i].Count(), len(wantC), ref.Count())
		}
		for j := range gotC {
			if gotC[j] != wantC[j] {
				t.Fatalf("%s: decoded centroid %d = %v, body has %v", where, j, gotC[j], wantC[j])
			}
		}
		if len(wantC) != 0 {
			for _, q := range []float64{0, 0.5, 0.99, 1} {
				if g, w := colT[i].Quantile(q), ref.Quantile(q); g != w {
					t.Fatalf("%s: decoded digest quantile(%v) = %v, want %v", where, q, g, w)
				}
			}
		}
		c03SameArg(t, where+" min_host", colMin[i].ArgMinMaxStringFloat32, row.MinHost)
		c03SameArg(t, where+" max_host", colMax[i].ArgMinMaxStringFloat32, row.MaxHost)
		c03SameArg(t, where+" max_count_host", colMaxC[i].ArgMinMaxStringFloat32, row.MaxCHost)
	}
	// what was written is what the aggregator holds in memory (float32 centroids)
	for i, row := range user {
		k := userKeys[i]
		var dk data_model.Key
		dk.Timestamp, dk.Metric = k.Time, k.Metric
		for j := 0; j < 47; j++ {
			dk.Tags[j], dk.STags[j] = int32(k.Tags[j]), k.STags[j]
		}
		var mv *data_model.MultiValue
		for _, b := range buckets {
			if it := c03FindItem(b, dk); it != nil {
				if k.TopI == 0 && k.TopS == "" {
					mv = &it.Tail
				} else {
					mv = it.Top[data_model.TagUnion{I: int32(k.TopI), S: k.TopS}]
				}
			}
		}
		if mv == nil {
			t.Fatalf("insert %d: row %v not found in the aggregator's buckets", ins.Idx, c03ShortTags(k))
		}
		var mem []vpCentroid
		if mv.ValueTDigest != nil {
			for _, cc := range mv.ValueTDigest.Centroids() {
				mem = append(mem, vpCentroid{Mean: float32(cc.Mean), Weight: float32(cc.Weight)})
			}
		}
		if len(mem) != len(row.Centroids) {
			t.Fatalf("insert %d: row %v: %d centroids written, %d in memory", ins.Idx, c03ShortTags(k), len(row.Centroids), len(mem))
		}
		for j := range mem {
			if mem[j] != row.Centroids[j] {
				t.Fatalf("insert %d: row %v: centroid %d written as %v, in memory %v", ins.Idx, c03ShortTags(k), j, row.Centroids[j], mem[j])
			}
		}
	}
	return nontrivial
}

func c03ShortTags(k c03RowKey) string {
	var sb strings.Builder
	for i := 0; i < 47; i++ {
		if k.Tags[i] != 0 {
			fmt.Fprintf(&sb, "%d=%d ", i, k.Tags[i])
		}
		if k.STags[i] != "" {
			fmt.Fprintf(&sb, "%d=%q ", i, k.STags[i])
		}
	}
	return "[" + strings.TrimSpace(sb.String()) + "]"
}

// which: 0 min_host, 1 max_host, 2 max_count_host
func c03CheckHost(t vpT, where string, h vpArgHost, r *c03Ref, which int) {
	got := c03HostOf(h)
	if which != 2 && !r.hasValue {
		if !h.Empty || h.HasValue {
			t.Fatalf("%s: counter row carries host %q", where, got)
		}
		return
	}
	if h.Empty || !h.HasValue {
		t.Fatalf("%s: empty state, but contributions carry hosts", where)
	}
	ok := false
	var allowed []string
	for _, p := range r.parts {
		switch which {
		case 0:
			if p.hasValue && p.min == r.min {
				allowed = append(allowed, p.minHost)
			}
		case 1:
			if p.hasValue && p.max == r.max {
				allowed = append(allowed, p.maxHost)
			}
		default:
			allowed = append(allowed, p.maxCHost)
		}
	}
	for _, a := range allowed {
		if a == got {
			ok = true
		}
	}
	if !ok {
		t.Fatalf("%s: host %q, contributors of that extreme: %v", where, got, allowed)
	}
	switch which {
	case 0:
		if !c03Between(h.Value, r.min/2, r.min) {
			t.Fatalf("%s: value %v outside of the documented skew of min %v", where, h.Value, r.min)
		}
	case 1:
		if !c03Between(h.Value, r.max/2, r.max) {
			t.Fatalf("%s: value %v outside of the documented skew of max %v", where, h.Value, r.max)
		}
	default:
		if !c03Between(h.Value, 0, math.Log2(1+r.count)) {
			t.Fatalf("%s: value %v outside of [0, log2(1+count)] for count %v", where, h.Value, r.count)
		}
	}
}

func c03SameArg(t vpT, where string, got data_model.ArgMinMaxStringFloat32, want vpArgHost) {
	if got.AsInt32 != want.Int || got.AsString != want.Str {
		t.Fatalf("%s: API reader decodes host (%d,%q), body has %s", where, got.AsInt32, got.AsString, c03HostOf(want))
	}
	if want.HasValue && got.Val != want.Value {
		t.Fatalf("%s: API reader decodes value %v, body has %v", where, got.Val, want.Value)
	}
}

type c03Sent struct {
	step c03Step
	time uint32
}

func c03Prop(t vpT, c c03Case) (nontrivial bool, classes []string) {
	if c.Replica < 1 || c.Replica > 3 || c.ShortWindow < 1 {
		t.Fatalf("bad case")
	}
	m := vpNewMiniAgg(t, vpAggOpts{Now: c.Now, Replica: c.Replica, Shard: 1, NumShards: 1, ShortWindow: c.ShortWindow, HistoricWindow: 3600,
		Mappings: c.Mappings, InsertBudget: 1 << 28, StringTopCountInsert: c.TopInsert})
	defer m.Close()
	now := c.Now
	cls := map[string]bool{}
	contribs := map[*aggregatorBucket][]c03Sent{}
	pendingHistoric := 0
	bodies := 0
	checkEvents := func(evs []vpTickEvent) {
		for _, ev := range evs {
			if !ev.Pushed {
				continue
			}
			bodies++
			bs := append([]*aggregatorBucket{ev.Bucket}, ev.Popped...)
			pendingHistoric -= len(ev.Popped)
			if len(ev.Popped) != 0 {
				cls["historic-in-body"] = true
			}
			if c03CheckBody(t, &c, ev.Insert, bs, contribs, cls) {
				nontrivial = true
			}
			for _, b := range bs {
				for _, call := range m.byBucket[b] {
					if !call.Answered || !call.Resp.IsSetDiscard() {
						t.Fatalf("insert %d succeeded but request %d was answered err=%v discard=%v %q", ev.Insert.Idx, call.Ord, call.Err, call.Resp.IsSetDiscard(), call.Resp.Warning)
					}
				}
			}
		}
	}
	for si, st := range c.Steps {
		switch st.Kind {
		case "tick":
			now += uint32(st.Advance)
			checkEvents(m.Tick(now, nil, nil, 0))
		case "send":
			at := uint32(int64(now) + int64(st.Dt))
			var sb tlstatshouse.SourceBucket3
			for _, it := range st.Items {
				sb.Metrics = append(sb.Metrics, c03WireItem(it, at))
			}
			call := m.Send(vpAggReq{Host: st.Host, Time: at, Historic: st.Historic, Spare: st.Spare, ShardReplica: m.OurShardReplica(), ShardReplicaTotal: 3,
				BuildCommitTs: format.LeastAllowedAgentCommitTs + 1, Component: format.TagValueIDComponentAgent, Bucket: sb})
			if !call.Longpoll || !call.Registered {
				cls["rejected-send"] = true // outside of the windows: not part of any body
				if call.Answered && call.Resp.Warning == "" {
					t.Fatalf("step %d: request neither accepted nor rejected with a warning", si)
				}
				continue
			}
			if !call.BucketRecent {
				if len(contribs[call.Bucket]) == 0 {
					pendingHistoric++
				}
				cls["historic-send"] = true
			}
			contribs[call.Bucket] = append(contribs[call.Bucket], c03Sent{step: st, time: at})
		default:
			t.Fatalf("bad step %q", st.Kind)
		}
	}
	// flush: everything recent, then whatever is left in the historic queue
	now += uint32(c.ShortWindow + data_model.FutureWindow + 3)
	checkEvents(m.Tick(now, nil, nil, 0))
	for i := 0; i < 40; i++ {
		m.a.mu.Lock()
		left := len(m.a.historicBuckets)
		m.a.mu.Unlock()
		if left == 0 {
			break
		}
		now += 3
		checkEvents(m.Tick(now, nil, nil, 0))
	}
	for b, ss := range contribs {
		for _, call := range m.byBucket[b] {
			if !call.IsDone() {
				t.Fatalf("request %d (bucket %d, %d contributions) never inserted", call.Ord, b.time, len(ss))
			}
		}
	}
	if bodies > 1 {
		cls["several-bodies"] = true
	}
	for k := range cls {
		classes = append(classes, k)
	}
	sort.Strings(classes)
	return nontrivial, classes
}

// --- generator

var c03Strings = []string{"a", "bb", "web", "mapped1", "mapped2", "host-x", "host-y", "host-z", "пример", "with space"}

// never mapped: string values at the length limit of a tag value (format.MaxStringLen = 128 bytes, what ingestion trims
// over-long values to), one byte below it, and multi-byte runes that end exactly at the limit
var c03Edge = []string{
	"p" + strings.Repeat("q", 126),       // 127 bytes
	"r" + strings.Repeat("s", 127),       // 128 bytes
	"t" + strings.Repeat("u", 125) + "é", // 126 + 2 bytes
	"v" + strings.Repeat("w", 124) + "€", // 125 + 3 bytes
	strings.Repeat("я", 64),              // 64 x 2 bytes
	"z",
}

func c03DrawString(t *rapid.T, label string) string {
	if rapid.IntRange(0, 3).Draw(t, label+"edge") == 0 {
		return rapid.SampledFrom(c03Edge).Draw(t, label+"e")
	}
	return rapid.SampledFrom(c03Strings[:5]).Draw(t, label)
}

func c03GenValue(t *rapid.T, kind int, big bool, hosts []c03Host) c03Value {
	var v c03Value
	evN := rapid.IntRange(1, 4).Draw(t, "nev")
	val := func() float64 { return float64(rapid.IntRange(-4000, 4000).Draw(t, "val")) / 4 }
	cnt := func() float64 {
		if rapid.IntRange(0, 5).Draw(t, "cfrac") == 0 {
			return float64(rapid.IntRange(1, 100).Draw(t, "cnt")) / 2
		}
		return float64(rapid.IntRange(1, 40).Draw(t, "cnt"))
	}
	switch kind {
	case 0: // counter
		v.Count = vpF(cnt())
		if rapid.IntRange(0, 2).Draw(t, "one") == 0 {
			v.Count = 1
		}
	case 1, 2: // value(s), 2 = with percentiles
		v.HasValue = true
		var total, sum, sq float64
		mi, ma := math.Inf(1), math.Inf(-1)
		if rapid.IntRange(0, 2).Draw(t, "simple") == 0 {
			evN = 1
		}
		for i := 0; i < evN; i++ {
			x, n := val(), cnt()
			if kind == 2 {
				n = float64(rapid.IntRange(1, 30).Draw(t, "cnt"))
				v.Centroids = append(v.Centroids, [2]float32{float32(x), float32(n)})
			}
			total += n
			sum += x * n
			sq += x * x * n
			mi, ma = math.Min(mi, x), math.Max(ma, x)
		}
		if kind == 1 && mi != ma && rapid.IntRange(0, 3).Draw(t, "extra") == 0 {
			total += cnt() // counter-only events on the same row
		}
		v.Count, v.Min, v.Max, v.Sum, v.SumSq = vpF(total), vpF(mi), vpF(ma), vpF(sum), vpF(sq)
		if kind == 2 && mi == ma && rapid.Bool().Draw(t, "implicit") {
			v.Centroids = nil
			v.Implicit = true
		}
	default: // uniques
		v.HasValue = true
		n := rapid.IntRange(1, 12).Draw(t, "nuniq")
		if big {
			n = rapid.IntRange(3000, 21000).Draw(t, "nuniqbig")
		}
		seed := rapid.Uint32().Draw(t, "useed")
		span := uint32(rapid.IntRange(n, 3*n).Draw(t, "uspan"))
		set := map[uint32]struct{}{}
		var sum, sq float64
		mi, ma := math.Inf(1), math.Inf(-1)
		for i := 0; i < n; i++ {
			x := uint64(seed%1000) + uint64((uint32(i)*2654435761)%span) // small distinct-ish values, overlap between contributions with equal seed
			h := vpIntHash32(x)
			if _, dup := set[h]; dup {
				continue
			}
			set[h] = struct{}{}
			v.Hashes = append(v.Hashes, h)
			fx := float64(x)
			sum += fx
			sq += fx * fx
			mi, ma = math.Min(mi, fx), math.Max(ma, fx)
		}
		if !big && rapid.IntRange(0, 9).Draw(t, "zero") == 0 {
			if _, dup := set[0]; !dup {
				v.Hashes = append(v.Hashes, 0) // the hash value 0 is stored out of line by the sketch
				sum, sq, mi, ma = sum+7, sq+49, math.Min(mi, 7), math.Max(ma, 7)
			}
		}
		v.Count, v.Min, v.Max, v.Sum, v.SumSq = vpF(float64(len(v.Hashes))), vpF(mi), vpF(ma), vpF(sum), vpF(sq)
	}
	pick := func(label string) *c03Host {
		if rapid.IntRange(0, 2).Draw(t, label) != 0 {
			return nil
		}
		h := rapid.SampledFrom(hosts).Draw(t, label+"h")
		return &h
	}
	v.MaxHost = pick("maxhost")
	if v.MaxHost != nil || rapid.IntRange(0, 3).Draw(t, "minhostalone") == 0 {
		v.MinHost = pick("minhost")
		v.MaxCHost = pick("maxchost")
	}
	return v
}

func c03Gen() *rapid.Generator[c03Case] {
	return rapid.Custom(func(t *rapid.T) c03Case {
		var c c03Case
		c.Replica = int32(rapid.IntRange(1, 3).Draw(t, "replica"))
		c.ShortWindow = rapid.IntRange(2, 4).Draw(t, "sw")
		c.Now = uint32(1_700_000_000 + rapid.IntRange(0, 599).Draw(t, "now"))
		c.TopInsert = rapid.SampledFrom([]int{11, 20}).Draw(t, "topinsert") // a key sees at most 11 distinct tops
		c.Mappings = map[string]int32{}
		for i, s := range c03Strings {
			if strings.HasPrefix(s, "mapped") || rapid.IntRange(0, 3).Draw(t, "mapit") == 0 {
				c.Mappings[s] = int32(500 + i)
			}
		}
		hosts := []c03Host{{S: "host-x"}, {S: "host-y"}, {S: "host-z"}, {I: 505}, {I: 9001}, {S: "mapped1"}, {S: c03Edge[1]}, {S: c03Edge[3]}}
		big := rapid.IntRange(0, 24).Draw(t, "big") == 0
		// a small pool of keys so that contributions overlap
		type keyT struct {
			metric int32
			tags   []c03Tag
			kind   int
		}
		nkeys := rapid.IntRange(1, 4).Draw(t, "nkeys")
		var pool []keyT
		for i := 0; i < nkeys; i++ {
			k := keyT{metric: int32(1001 + rapid.IntRange(0, 2).Draw(t, "metric")), kind: rapid.IntRange(0, 3).Draw(t, "kind")}
			used := map[int]bool{}
			for j, n := 0, rapid.IntRange(0, 3).Draw(t, "ntags"); j < n; j++ {
				idx := rapid.SampledFrom([]int{0, 1, 2, 3, 15, 16, 31, 46}).Draw(t, "tagidx")
				if used[idx] {
					continue
				}
				used[idx] = true
				if rapid.IntRange(0, 2).Draw(t, "stag") == 0 {
					k.tags = append(k.tags, c03Tag{I: idx, S: c03DrawString(t, "tags")})
				} else {
					k.tags = append(k.tags, c03Tag{I: idx, V: rapid.SampledFrom([]int32{1, 2, 503, 504, -7}).Draw(t, "tagv")})
				}
			}
			pool = append(pool, k)
		}
		nsteps := rapid.IntRange(1, 8).Draw(t, "nsteps")
		now := c.Now
		for s := 0; s < nsteps; s++ {
			if rapid.IntRange(0, 5).Draw(t, "tick") == 0 {
				adv := rapid.IntRange(1, 3).Draw(t, "adv")
				now += uint32(adv)
				c.Steps = append(c.Steps, c03Step{Kind: "tick", Advance: adv})
				continue
			}
			st := c03Step{Kind: "send", Host: rapid.SampledFrom(c03Strings[5:8]).Draw(t, "host")}
			st.Dt = rapid.IntRange(-c.ShortWindow, 1).Draw(t, "dt")
			if rapid.IntRange(0, 4).Draw(t, "hist") == 0 {
				st.Historic = true
				st.Dt = -c.ShortWindow - rapid.IntRange(0, 12).Draw(t, "hdt")
			}
			st.Spare = rapid.IntRange(0, 3).Draw(t, "spare") == 0
			nitems := rapid.IntRange(1, 4).Draw(t, "nitems")
			for i := 0; i < nitems; i++ {
				k := pool[rapid.IntRange(0, len(pool)-1).Draw(t, "key")]
				it := c03Item{Metric: k.metric}
				for _, tg := range k.tags {
					// the same tag value may travel as a string or already mapped
					if m, ok := c.Mappings[tg.S]; ok && tg.S != "" && rapid.Bool().Draw(t, "premapped") {
						tg = c03Tag{I: tg.I, V: m}
					}
					it.Tags = append(it.Tags, tg)
				}
				if rapid.IntRange(0, 7).Draw(t, "tback") == 0 {
					it.Metric = 5000 + int32(uint32(int64(now)+int64(st.Dt))%4000) // explicit timestamps only on metrics private to this second
					it.TBack = uint32(rapid.IntRange(1, 300).Draw(t, "tbackv"))
				}
				shape := rapid.IntRange(0, 5).Draw(t, "shape") // 0..2 tail only, 3..4 tail+top, 5 top only
				if shape <= 4 {
					v := c03GenValue(t, k.kind, big && k.kind == 3, hosts)
					it.Tail = &v
				}
				if shape >= 3 {
					ntop := rapid.IntRange(1, 3).Draw(t, "ntop")
					usedTop := map[string]bool{}
					for j := 0; j < ntop; j++ {
						s := c03DrawString(t, "tops")
						if usedTop[s] {
							continue
						}
						usedTop[s] = true
						key := c03Host{S: s}
						if m, ok := c.Mappings[s]; ok && rapid.Bool().Draw(t, "toppremapped") {
							key = c03Host{I: m}
						}
						it.Top = append(it.Top, c03Top{Key: key, Value: c03GenValue(t, k.kind, false, hosts)})
					}
				}
				st.Items = append(st.Items, it)
			}
			c.Steps = append(c.Steps, st)
		}
		if rapid.IntRange(0, 11).Draw(t, "wide") == 0 {
			// many distinct keys in one bucket: reaches every one of the 256 aggregation shards of a second
			st := c03Step{Kind: "send", Host: "host-y", Dt: rapid.IntRange(-c.ShortWindow, 0).Draw(t, "widedt")}
			n := rapid.IntRange(150, 500).Draw(t, "widen")
			base := rapid.Int32Range(1, 1<<20).Draw(t, "widebase")
			for i := 0; i < n; i++ {
				st.Items = append(st.Items, c03Item{Metric: 1004, Tags: []c03Tag{{I: 1, V: base + int32(i)}}, Tail: &c03Value{Count: vpF(1 + i%3)}})
			}
			pos := rapid.IntRange(0, len(c.Steps)).Draw(t, "widepos")
			c.Steps = append(c.Steps[:pos], append([]c03Step{st}, c.Steps[pos:]...)...)
		}
		return c
	})
}

// Unique sets just below the sketch's exact-mode limit (65 536): one row receives 1-3 (partly overlapping) contributions
// whose union has exactly 65 535 / 65 534 / 40 000 distinct hashes; the estimate must still be exact.
func TestVerifC03UniqEdge(t *testing.T) {
	ev := vpNewEv(t, "C03", "uniq-edge")
	seed, _ := strconv.ParseUint(os.Getenv("VERIF_UNIT_SEED"), 10, 64)
	for ti, total := range []int{65535, 65534, 40000} {
		for parts := 1; parts <= 3; parts++ {
			set := map[uint32]struct{}{}
			var all []uint32
			for x := seed*1_000_003 + uint64(ti*7+parts)*100_000_007; len(all) < total; x++ {
				h := vpIntHash32(x)
				if _, dup := set[h]; !dup {
					set[h] = struct{}{}
					all = append(all, h)
				}
			}
			c := c03Case{Replica: int32(1 + (ti+parts)%3), ShortWindow: 3, Now: uint32(1_700_000_100 + ti), Mappings: map[string]int32{}, TopInsert: 5}
			for p := 0; p < parts; p++ {
				lo, hi := p*total/parts, (p+1)*total/parts
				if p > 0 {
					lo -= (ti*131 + p*977) % 5000 // overlap with the previous contribution
				}
				hs := append([]uint32(nil), all[lo:hi]...)
				v := c03Value{Count: vpF(len(hs)), HasValue: true, Min: 1, Max: 9, Sum: vpF(5 * len(hs)), SumSq: vpF(30 * len(hs)), Hashes: hs}
				c.Steps = append(c.Steps, c03Step{Kind: "send", Host: c03Strings[5+p], Dt: -1,
					Items: []c03Item{{Metric: 1001, Tags: []c03Tag{{I: 1, V: 77}}, Tail: &v}}})
			}
			vpRunCase(t, "C03", "body", c, func() {
				nt, cls := c03Prop(t, c)
				ev.Case(nt, fmt.Sprintf("total=%d parts=%d seed=%d", total, parts, seed), append(cls, fmt.Sprintf("uniq-total-%d", total))...)
			})
		}
	}
}

func TestVerifC03Body(t *testing.T) {
	ev := vpNewEv(t, "C03", "body")
	rapid.Check(t, func(rt *rapid.T) {
		c := c03Gen().Draw(rt, "case")
		vpRunCase(rt, "C03", "body", c, func() {
			nt, cls := c03Prop(rt, c)
			ev.Case(nt, c, cls...)
		})
	})
}

func init() {
	vpReplayers["C03/body"] = func(t vpT, raw json.RawMessage) {
		var c c03Case
		if err := json.Unmarshal(raw, &c); err != nil {
			t.Fatalf("decode: %v", err)
		}
		c03Prop(t, c)
	}
}
