//go:build verif

package aggregator

// Shared harness for C01-A, C03 and C10(3) (DESIGN §3):
//
//   vpMiniAgg   - a literal Aggregator (no MakeAggregator: no metadata, no ticker) behind a real rpc.Server
//                 (Serve(ln) + a.handleClient), a real tlstatshouse.Client, an httptest ClickHouse, the real goInsert
//                 fed through a.bucketsToSend, and virtual time through advanceRecentBuckets(fakeNow).
//   vpRowBinary - an independent reader of the statshouse_v3_incoming RowBinary body.
//
// Everything is prefixed vp (shared file: injected for every property that lists "vpagg" in "shared").

import (
	"bytes"
	"context"
	"encoding/binary"
	"fmt"
	"io"
	"log"
	"math"
	"net"
	"net/http"
	"net/http/httptest"
	"os"
	"sort"
	"sync"
	"sync/atomic"
	"time"

	"github.com/VKCOM/tl/pkg/rpc"

	"github.com/VKCOM/statshouse/internal/agent"
	"github.com/VKCOM/statshouse/internal/compress"
	"github.com/VKCOM/statshouse/internal/data_model"
	"github.com/VKCOM/statshouse/internal/data_model/gen2/tlstatshouse"
	"github.com/VKCOM/statshouse/internal/format"
	"github.com/VKCOM/statshouse/internal/metajournal"
	"github.com/VKCOM/statshouse/internal/pcache"
	"github.com/VKCOM/statshouse/internal/vkgo/semaphore"
)

// ------------------------------------------------------------------------------------------------
// vpMiniAgg
// ------------------------------------------------------------------------------------------------

const vpAggWait = 30 * time.Second // generous real-time bound for things that must happen "at once"; exceeding it is inconclusive

type vpAggOpts struct {
	Now                  uint32           // virtual unix time at start
	Replica              int32            // 1..3
	Shard                int32            // >= 1
	NumShards            int              // shards in the cluster address list (>= Shard)
	ShortWindow          int              // ConfigAggregatorRemote.ShortWindow
	HistoricWindow       int              // agent config HistoricWindow, seconds
	WithoutCluster       bool             // local-debug mode: no shard/replica check
	DenyOldAgents        bool             //
	Mappings             map[string]int32 // contents of the aggregator's mappings storage
	InsertBudget         int              // bytes per contributor
	StringTopCountInsert int              //
	HistoricInserters    int              //
	InsertHistoricWhen   int              //
	Inserters            int              // number of real goInsert goroutines (default 1)
	AggHostTag           int32            // mapped aggregator host
}

type vpInsert struct {
	Idx       int
	Body      []byte
	Status    int // status answered; 0 = connection closed without an answer
	ArriveSeq int64
	DoneSeq   int64 // assigned just before the answer is written
	release   chan int
}

type vpAggCall struct {
	Ord  int
	Time uint32
	Host string

	// filled by Send
	Longpoll     bool              // the handler started a long poll (no immediate answer)
	Registered   bool              // the long-poll handle was found in a bucket's contributors3
	Bucket       *aggregatorBucket // where it was found
	BucketTime   uint32
	BucketRecent bool   // found in a.recentBuckets (else historicBuckets)
	Oldest       uint32 // a.recentBuckets[0].time / last at the moment of the send
	Newest       uint32

	// filled when the answer arrives
	done     chan struct{}
	Err      error
	Resp     tlstatshouse.SendSourceBucket3Response
	RespSeq  int64
	Answered bool
}

func (c *vpAggCall) IsDone() bool {
	select {
	case <-c.done:
		return true
	default:
		return false
	}
}

type vpTickEvent struct {
	Time         uint32
	Bucket       *aggregatorBucket
	Ours         bool
	Stray        int  // contributors found in a bucket that is not ours (goTicker would panic)
	Pushed       bool // handed to goInsert
	ConveyorFull bool // answered by the conveyor-full branch
	Insert       *vpInsert
	Popped       []*aggregatorBucket // historic buckets taken by this goInsert iteration (incl. stale ones)
}

type vpMiniAgg struct {
	t      vpT
	a      *Aggregator
	ln     net.Listener
	srv    *rpc.Server
	cli    rpc.Client
	client tlstatshouse.Client
	ch     *httptest.Server
	opts   vpAggOpts

	seq      atomic.Int64
	mu       sync.Mutex
	inserts  []*vpInsert
	calls    []*vpAggCall
	byBucket map[*aggregatorBucket][]*vpAggCall
	arrived  chan *vpInsert
	handled  chan bool // one message per handled RPC request: long poll started?
	shutdown bool
	closed   bool
	wg       sync.WaitGroup
}

var (
	vpNopOnce     sync.Once
	vpNopStorages [3]*data_model.ChunkedStorage2
)

func vpInconclusive(t vpT, format string, args ...any) {
	t.Fatalf("VP-INCONCLUSIVE "+format, args...)
}

// vpBuildAggregator makes the Aggregator literal (no MakeAggregator: no metadata, no ticker, no RPC server) with its
// built-in agent (never Run), mappings storage and o.Inserters real goInsert goroutines inserting into khAddr.
func vpBuildAggregator(t vpT, o vpAggOpts, khAddr string) *Aggregator {
	cfg := DefaultConfigAggregator()
	cfg.KHAddr = khAddr
	cfg.RecentInserters = o.Inserters
	if o.HistoricInserters > 0 {
		cfg.HistoricInserters = o.HistoricInserters
	}
	if o.InsertHistoricWhen > 0 {
		cfg.InsertHistoricWhen = o.InsertHistoricWhen
	}
	cfg.Cluster = "vp"
	cfg.DisableRemoteConfig = true
	cfg.ShardByMetricShards = o.NumShards
	cfg.RemoteInitial.ShortWindow = o.ShortWindow
	cfg.RemoteInitial.DenyOldAgents = o.DenyOldAgents
	if o.InsertBudget > 0 {
		cfg.RemoteInitial.InsertBudget = o.InsertBudget
	}
	if o.StringTopCountInsert > 0 {
		cfg.RemoteInitial.StringTopCountInsert = o.StringTopCountInsert
	}
	for i := 0; i < o.NumShards*3; i++ {
		cfg.RemoteInitial.ClusterShardsAddrs = append(cfg.RemoteInitial.ClusterShardsAddrs, "127.0.0.1:1")
	}

	// mappings storage with >= 1 shard
	vpNopOnce.Do(func() { // the nop storage allocates a multi-megabyte scratch buffer; it is never written by the harness
		for i := range vpNopStorages {
			vpNopStorages[i] = data_model.NewChunkedStorageNop()
		}
		if os.Getenv("VERIF_AGG_LOG") == "" {
			log.SetOutput(io.Discard) // the aggregator logs every insert error and every inserter exit
		}
	})
	storages := []*data_model.ChunkedStorage2{vpNopStorages[0], vpNopStorages[1]}
	ms := metajournal.MakeMappings(context.Background(), 0, true, 16, storages)
	if len(o.Mappings) != 0 {
		var pairs []tlstatshouse.Mapping
		maxV := int32(1)
		for s, v := range o.Mappings {
			pairs = append(pairs, tlstatshouse.Mapping{Str: s, Value: v})
			if v > maxV {
				maxV = v
			}
		}
		sort.Slice(pairs, func(i, j int) bool { return pairs[i].Str < pairs[j].Str })
		given := false
		loader := func(ctx context.Context, lastVersion int32, returnIfEmpty bool) ([]tlstatshouse.Mapping, int32, int32, error) {
			if given {
				return nil, maxV, maxV, nil
			}
			given = true
			return pairs, maxV, maxV, nil
		}
		if err := ms.UpdateMappingsUntilVersion(maxV, format.TagValueIDComponentAggregator, loader); err != nil {
			t.Fatalf("harness: mappings: %v", err)
		}
	}

	cancelCtx, cancelFunc := context.WithCancel(context.Background())
	a := &Aggregator{
		cancelInsertsCtx:  cancelCtx,
		cancelInsertsFunc: cancelFunc,
		bucketsToSend:     make(chan *aggregatorBucket),
		hostBudgetCache:   map[data_model.TagUnion][]tlstatshouse.MetricBudget{},
		historicBuckets:   map[uint32]*aggregatorBucket{},
		historicHosts:     [2][2]map[data_model.TagUnion]int64{{map[data_model.TagUnion]int64{}, map[data_model.TagUnion]int64{}}, {map[data_model.TagUnion]int64{}, map[data_model.TagUnion]int64{}}},
		config:            cfg,
		configR:           cfg.RemoteInitial,
		cfgNotifier:       NewConfigChangeNotifier(),
		orgMetricSize:     data_model.NewExpDecayMetrics(cfg.RemoteInitial.OriginalSizeDecayHalfLife),
		withoutCluster:    o.WithoutCluster,
		shardKey:          o.Shard,
		replicaKey:        o.Replica,
		buildArchTag:      format.GetBuildArchKey("amd64"),
		mappingsStorage:   ms,
		aggregatorHostTag: data_model.TagUnion{I: o.AggHostTag},
		startTimestamp:    o.Now,
	}
	a.h = tlstatshouse.Handler{
		RawSendKeepAlive2:    a.handleSendKeepAlive2,
		RawSendKeepAlive3:    a.handleSendKeepAlive3,
		RawSendSourceBucket3: a.handleSendSourceBucket3,
	}
	a.metricStorage = metajournal.MakeMetricsStorage(nil)
	agentConfig := agent.DefaultConfig()
	agentConfig.Cluster = cfg.Cluster
	if o.HistoricWindow > 0 {
		agentConfig.HistoricWindow = uint(o.HistoricWindow)
	}
	getConfigResult := a.getConfigResult3Locked()
	mappingsCache := pcache.NewMappingsCache(vpNopStorages[2], 1<<20, 86400)
	hv := func() (int64, string) { return 0, "" }
	sh2, err := agent.MakeAgent("tcp4", "", "", nil, agentConfig, "vp-aggregator", format.TagValueIDComponentAggregator,
		a.metricStorage, mappingsCache, hv, hv, func(string, ...any) {}, nil, &getConfigResult, nil)
	if err != nil {
		t.Fatalf("harness: built-in agent: %v", err)
	}
	a.sh2 = sh2
	a.tagsMapper3 = NewTagsMapper3(a, a.sh2, a.metricStorage, nil)
	a.estimator.Init()
	a.insertsSemaSize = int64(o.Inserters)
	a.insertsSema = semaphore.NewWeighted(a.insertsSemaSize)
	_ = a.insertsSema.Acquire(context.Background(), a.insertsSemaSize)
	_ = a.advanceRecentBuckets(time.Unix(int64(o.Now), 0), true)
	for i := 0; i < o.Inserters; i++ {
		go a.goInsert(a.insertsSema, a.cancelInsertsCtx, a.bucketsToSend, i)
	}
	return a
}

func vpNewMiniAgg(t vpT, o vpAggOpts) *vpMiniAgg {
	if o.Replica < 1 || o.Replica > 3 || o.Shard < 1 {
		t.Fatalf("bad opts %+v", o)
	}
	if o.NumShards < int(o.Shard) {
		o.NumShards = int(o.Shard)
	}
	if o.Inserters <= 0 {
		o.Inserters = 1
	}
	if o.AggHostTag == 0 {
		o.AggHostTag = 777000
	}
	m := &vpMiniAgg{t: t, opts: o, byBucket: map[*aggregatorBucket][]*vpAggCall{}, arrived: make(chan *vpInsert, 64), handled: make(chan bool, 64)}

	// fake ClickHouse
	m.ch = httptest.NewServer(http.HandlerFunc(m.serveCH))

	a := vpBuildAggregator(t, o, m.ch.Listener.Addr().String())
	m.a = a

	// real RPC server in front of the real sync handler; the wrapper only signals that the handler returned
	a.server = rpc.NewServer(
		rpc.ServerWithLogf(func(string, ...any) {}),
		rpc.ServerWithMaxWorkers(-1),
		rpc.ServerWithSyncHandler(func(ctx context.Context, hctx *rpc.HandlerContext) error {
			err := a.handleClient(ctx, hctx)
			m.handled <- hctx.LongpollStarted()
			return err
		}),
		rpc.ServerWithDisableContextTimeout(true),
		rpc.ServerWithDefaultResponseTimeout(0),
		rpc.ServerWithResponseBufSize(1024),
		rpc.ServerWithResponseMemEstimate(1024),
		rpc.ServerWithRequestMemoryLimit(1<<30),
	)
	m.srv = a.server
	ln, err := net.Listen("tcp4", "127.0.0.1:0")
	if err != nil {
		t.Fatalf("harness: listen: %v", err)
	}
	m.ln = ln
	m.wg.Add(1)
	go func() {
		defer m.wg.Done()
		_ = m.srv.Serve(ln)
	}()
	m.cli = rpc.NewClient(rpc.ClientWithLogf(func(string, ...any) {}))
	m.client = tlstatshouse.Client{Client: m.cli, Network: "tcp4", Address: ln.Addr().String()}
	return m
}

func (m *vpMiniAgg) Close() {
	if m.closed {
		return
	}
	m.closed = true
	_ = m.cli.Close() // pending calls return with an error
	for _, c := range m.calls {
		select {
		case <-c.done:
		case <-time.After(vpAggWait):
		}
	}
	m.a.mu.Lock()
	if m.a.bucketsToSend != nil {
		close(m.a.bucketsToSend)
		m.a.bucketsToSend = nil
	}
	m.a.mu.Unlock()
	_ = m.srv.Close()
	m.wg.Wait()
	// let in-flight fake ClickHouse requests finish, wait until all goInsert goroutines quit
	stop := make(chan struct{})
	go func() {
		for {
			select {
			case ins := <-m.arrived:
				ins.release <- 503
			case <-stop:
				return
			}
		}
	}()
	ctx, cancel := context.WithTimeout(context.Background(), vpAggWait)
	_ = m.a.insertsSema.Acquire(ctx, m.a.insertsSemaSize)
	cancel()
	close(stop)
	m.a.cancelInsertsFunc()
	m.ch.Close()
}

// --- fake ClickHouse

func (m *vpMiniAgg) serveCH(w http.ResponseWriter, r *http.Request) {
	body, _ := io.ReadAll(r.Body)
	ins := &vpInsert{Body: body, release: make(chan int, 1)}
	m.mu.Lock()
	ins.Idx = len(m.inserts)
	m.inserts = append(m.inserts, ins)
	m.mu.Unlock()
	ins.ArriveSeq = m.seq.Add(1)
	m.arrived <- ins
	status := <-ins.release
	ins.Status = status
	if status == http.StatusOK {
		ins.DoneSeq = m.seq.Add(1)
		w.WriteHeader(http.StatusOK)
		return
	}
	w.Header().Set("X-ClickHouse-Exception-Code", "241")
	w.WriteHeader(status)
	_, _ = w.Write([]byte("Code: 241. DB::Exception: Memory limit (total) exceeded"))
}

func (m *vpMiniAgg) Inserts() []*vpInsert {
	m.mu.Lock()
	defer m.mu.Unlock()
	return append([]*vpInsert(nil), m.inserts...)
}

// --- requests

type vpAggReq struct {
	Host              string
	Owner             string
	Time              uint32
	Historic          bool
	Spare             bool
	ShardReplica      int32 // header: (shard-1)*3 + replica-1 the agent believes it talks to
	ShardReplicaTotal int32
	BuildCommitTs     uint32
	Component         int32
	Corrupt           int // 0 intact, 1 compressed data does not decompress, 2 bucket TL damaged
	Bucket            tlstatshouse.SourceBucket3
}

func (m *vpMiniAgg) OurShardReplica() int32 { return (m.opts.Shard-1)*3 + (m.opts.Replica - 1) }

func (m *vpMiniAgg) handles() map[rpc.LongpollHandle]*aggregatorBucket {
	a := m.a
	res := map[rpc.LongpollHandle]*aggregatorBucket{}
	a.mu.Lock()
	var bs []*aggregatorBucket
	bs = append(bs, a.recentBuckets...)
	for _, b := range a.historicBuckets {
		bs = append(bs, b)
	}
	a.mu.Unlock()
	for _, b := range bs {
		b.mu.Lock()
		for lh := range b.contributors3 {
			res[lh] = b
		}
		b.mu.Unlock()
	}
	return res
}

// Send issues one SendSourceBucket3 through the RPC client and returns after the handler finished: either the call is
// answered, or it is long-polled (and call.Bucket says where the handle was filed).
func (m *vpMiniAgg) Send(req vpAggReq) *vpAggCall {
	t := m.t
	raw := req.Bucket.WriteTL1Boxed(nil)
	if req.Corrupt == 2 {
		raw = append([]byte{1, 2, 3, 4}, raw...)
	}
	frame := compress.CompressAndFrame(raw)
	originalSize, compressed, _ := compress.DeFrame(frame)
	if req.Corrupt == 1 {
		originalSize += 1000
		compressed = append([]byte{0xff, 0xff, 0xff}, compressed...)
	}
	args := tlstatshouse.SendSourceBucket3{
		Time:           req.Time,
		BuildCommit:    "0123456789abcdef0123456789abcdef01234567",
		BuildCommitTs:  req.BuildCommitTs,
		OriginalSize:   originalSize,
		CompressedData: string(compressed),
	}
	args.Header = tlstatshouse.CommonProxyHeader{
		ShardReplica:      req.ShardReplica,
		ShardReplicaTotal: req.ShardReplicaTotal,
		AgentIp:           [4]int32{0, 0, 0xffff, 0x7f000001},
		HostName:          req.Host,
		ComponentTag:      req.Component,
		BuildArch:         format.GetBuildArchKey("amd64"),
	}
	if req.Owner != "" {
		args.Header.SetOwner(req.Owner, &args.FieldsMask)
	}
	args.SetHistoric(req.Historic)
	args.SetSpare(req.Spare)

	call := &vpAggCall{Ord: len(m.calls), Time: req.Time, Host: req.Host, done: make(chan struct{})}
	m.calls = append(m.calls, call)
	before := m.handles()
	m.a.mu.Lock()
	call.Oldest = m.a.recentBuckets[0].time
	call.Newest = m.a.recentBuckets[len(m.a.recentBuckets)-1].time
	m.a.mu.Unlock()
	go func() {
		ctx, cancel := context.WithTimeout(context.Background(), 10*time.Minute)
		defer cancel()
		extra := rpc.InvokeReqExtra{FailIfNoConnection: true}
		err := m.client.SendSourceBucket3(ctx, args, &extra, &call.Resp)
		call.Err = err
		call.Answered = err == nil
		call.RespSeq = m.seq.Add(1)
		close(call.done)
	}()
	select {
	case lp := <-m.handled:
		call.Longpoll = lp
	case <-call.done:
		// failed before reaching the handler (or answered; then the handler message is there as well)
		select {
		case lp := <-m.handled:
			call.Longpoll = lp
		case <-time.After(100 * time.Millisecond):
			if call.Err == nil {
				vpInconclusive(t, "answer without handler signal")
			}
			return call
		}
	case <-time.After(vpAggWait):
		vpInconclusive(t, "RPC handler did not finish in %v", vpAggWait)
	}
	if !call.Longpoll {
		select {
		case <-call.done:
		case <-time.After(vpAggWait):
			vpInconclusive(t, "immediate answer did not arrive in %v", vpAggWait)
		}
		return call
	}
	after := m.handles()
	for lh, b := range after {
		if _, ok := before[lh]; !ok {
			if call.Registered {
				t.Fatalf("harness: two new long-poll handles after one request")
			}
			call.Registered = true
			call.Bucket = b
			call.BucketTime = b.time
		}
	}
	if call.Registered {
		m.a.mu.Lock()
		for _, b := range m.a.recentBuckets {
			if b == call.Bucket {
				call.BucketRecent = true
			}
		}
		m.a.mu.Unlock()
		m.byBucket[call.Bucket] = append(m.byBucket[call.Bucket], call)
	}
	return call
}

func (m *vpMiniAgg) waitCalls(calls []*vpAggCall) {
	deadline := time.After(vpAggWait)
	for _, c := range calls {
		select {
		case <-c.done:
		case <-deadline:
			vpInconclusive(m.t, "long-polled request %d (bucket %d) not answered %v after its insert", c.Ord, c.BucketTime, vpAggWait)
		}
	}
}

// Tick moves virtual time to now and does what goTicker's loop body does with the ready buckets. For every bucket of
// our replica, full(b) chooses between the two outcomes of goTicker's select: handed to an inserter (then status(b)
// is what the fake ClickHouse answers and hold is how long it keeps the INSERT open), or the conveyor-full branch.
func (m *vpMiniAgg) Tick(now uint32, full func(time uint32) bool, status func(time uint32) int, hold time.Duration) []vpTickEvent {
	a := m.a
	var events []vpTickEvent
	ready := a.advanceRecentBuckets(time.Unix(int64(now), 0), false)
	for _, b := range ready {
		b.sendMu.Lock()
		b.sendMu.Unlock() //lint:ignore SA2001 as in goTicker
		ev := vpTickEvent{Time: b.time, Bucket: b, Ours: b.time%3 == uint32(a.replicaKey-1)}
		if !ev.Ours {
			b.mu.Lock()
			ev.Stray = len(b.contributors) + len(b.contributors3) + len(b.contributorsSimulatedErrors)
			b.mu.Unlock()
			events = append(events, ev)
			continue
		}
		a.mu.Lock()
		chn := a.bucketsToSend
		a.mu.Unlock()
		if chn == nil {
			return events // aggregator in shutdown
		}
		if full != nil && full(b.time) {
			// copy of goTicker's default branch
			ev.ConveyorFull = true
			err := fmt.Errorf("insert conveyor is full for Bucket time=%d, contributors %f", b.time, b.contributorsCount())
			b.mu.Lock()
			for lh := range b.contributors {
				if hctx, _ := lh.FinishLongpoll(); hctx != nil {
					hctx.SendLongpollResponse(err)
				}
			}
			for lh, c := range b.contributors3 {
				var ssb3 tlstatshouse.SendSourceBucket3 // Dummy
				if hctx, _ := lh.FinishLongpoll(); hctx != nil {
					c.resp.Warning = err.Error()
					hctx.Response, _ = ssb3.WriteResultTL1(hctx.Response, c.resp)
					hctx.SendLongpollResponse(nil)
				}
			}
			clear(b.contributors)
			clear(b.contributors3)
			b.mu.Unlock()
			m.waitCalls(m.byBucket[b])
			events = append(events, ev)
			continue
		}
		// historic buckets present before the inserter looks at them
		a.mu.Lock()
		hist := map[uint32]*aggregatorBucket{}
		for k, v := range a.historicBuckets {
			hist[k] = v
		}
		a.mu.Unlock()
		select {
		case chn <- b:
		case <-time.After(vpAggWait):
			vpInconclusive(m.t, "no inserter took bucket %d in %v", b.time, vpAggWait)
		}
		ev.Pushed = true
		var ins *vpInsert
		select {
		case ins = <-m.arrived:
		case <-time.After(vpAggWait):
			vpInconclusive(m.t, "no INSERT for bucket %d in %v", b.time, vpAggWait)
		}
		a.mu.Lock()
		for k, v := range hist {
			if a.historicBuckets[k] != v {
				ev.Popped = append(ev.Popped, v)
			}
		}
		a.mu.Unlock()
		sort.Slice(ev.Popped, func(i, j int) bool { return ev.Popped[i].time < ev.Popped[j].time })
		// give answers that (wrongly) precede the end of the INSERT a chance to be observed first
		if hold > 0 {
			time.Sleep(hold)
		}
		st := http.StatusOK
		if status != nil {
			st = status(b.time)
		}
		ins.release <- st
		ev.Insert = ins
		m.waitCalls(m.byBucket[b])
		for _, p := range ev.Popped {
			m.waitCalls(m.byBucket[p])
		}
		events = append(events, ev)
	}
	return events
}

// Shutdown is what the aggregator's main does first on SIGINT.
func (m *vpMiniAgg) Shutdown() {
	if !m.shutdown {
		m.shutdown = true
		m.a.DisableNewInsert()
	}
}

// ------------------------------------------------------------------------------------------------
// vpRowBinary: independent reader of the statshouse_v3_incoming RowBinary layout
//   index_type UInt8, metric Int32, time DateTime(UInt32), 48 x (tagN UInt32, stagN String),
//   count, max_count, min, max, sum, sumsquare Float64,
//   percentiles AggregateFunction(quantilesTDigest(0.5), Float32): varuint n, n x (Float32 mean, Float32 weight)
//   uniq_state  AggregateFunction(uniq, Int64): UInt8 skip degree, varuint n, n x UInt32 hash
//   min_host, max_host, max_count_host AggregateFunction(argMin/argMax, String, Float32):
//       Int32 size (-1 = no string; else bytes incl. trailing 0), UInt8 has value, [Float32]
// ------------------------------------------------------------------------------------------------

type vpCentroid struct {
	Mean, Weight float32
}

type vpArgHost struct {
	Raw      []byte // whole state
	Empty    bool   // no string
	IsInt    bool
	Int      int32
	Str      string
	HasValue bool
	Value    float32
}

type vpRow struct {
	IndexType uint8
	Metric    int32
	Time      uint32
	Tags      [48]uint32
	STags     [48]string
	Count     float64
	MaxCount  float64
	Min       float64
	Max       float64
	Sum       float64
	SumSquare float64
	Centroids []vpCentroid
	RawTD     []byte
	UniqSkip  uint8
	UniqItems []uint32
	RawUniq   []byte
	MinHost   vpArgHost
	MaxHost   vpArgHost
	MaxCHost  vpArgHost
}

type vpRBReader struct {
	b   []byte
	pos int
	err error
}

func (r *vpRBReader) need(n int) bool {
	if r.err != nil {
		return false
	}
	if n < 0 || r.pos+n > len(r.b) {
		r.err = fmt.Errorf("rowbinary: need %d bytes at %d of %d", n, r.pos, len(r.b))
		return false
	}
	return true
}

func (r *vpRBReader) u8() uint8 {
	if !r.need(1) {
		return 0
	}
	v := r.b[r.pos]
	r.pos++
	return v
}

func (r *vpRBReader) u32() uint32 {
	if !r.need(4) {
		return 0
	}
	v := binary.LittleEndian.Uint32(r.b[r.pos:])
	r.pos += 4
	return v
}

func (r *vpRBReader) f64() float64 {
	if !r.need(8) {
		return 0
	}
	v := math.Float64frombits(binary.LittleEndian.Uint64(r.b[r.pos:]))
	r.pos += 8
	return v
}

func (r *vpRBReader) f32() float32 { return math.Float32frombits(r.u32()) }

func (r *vpRBReader) uvarint() uint64 {
	var x uint64
	var s uint
	for i := 0; i < 10; i++ {
		b := r.u8()
		if r.err != nil {
			return 0
		}
		if b < 0x80 {
			return x | uint64(b)<<s
		}
		x |= uint64(b&0x7f) << s
		s += 7
	}
	r.err = fmt.Errorf("rowbinary: varuint too long at %d", r.pos)
	return 0
}

func (r *vpRBReader) str() string {
	n := r.uvarint()
	if n > 1<<20 || !r.need(int(n)) {
		if r.err == nil {
			r.err = fmt.Errorf("rowbinary: string of %d bytes at %d", n, r.pos)
		}
		return ""
	}
	s := string(r.b[r.pos : r.pos+int(n)])
	r.pos += int(n)
	return s
}

func (r *vpRBReader) argHost() vpArgHost {
	start := r.pos
	var h vpArgHost
	size := int32(r.u32())
	if size == -1 {
		h.Empty = true
	} else {
		if size < 1 || !r.need(int(size)) {
			if r.err == nil {
				r.err = fmt.Errorf("rowbinary: arg string size %d at %d", size, r.pos)
			}
			return h
		}
		s := r.b[r.pos : r.pos+int(size)]
		r.pos += int(size)
		if s[len(s)-1] != 0 {
			r.err = fmt.Errorf("rowbinary: arg string without terminating zero at %d", r.pos)
			return h
		}
		s = s[:len(s)-1]
		switch {
		case len(s) == 5 && s[0] == 0:
			h.IsInt = true
			h.Int = int32(binary.LittleEndian.Uint32(s[1:]))
		case len(s) >= 1 && s[0] == 1:
			h.Str = string(s[1:])
		default:
			r.err = fmt.Errorf("rowbinary: arg string %x is neither a mapped nor a string host", s)
			return h
		}
	}
	switch r.u8() {
	case 0:
	case 1:
		h.HasValue = true
		h.Value = r.f32()
	default:
		if r.err == nil {
			r.err = fmt.Errorf("rowbinary: bad has-value flag at %d", r.pos)
		}
	}
	if r.err == nil {
		h.Raw = r.b[start:r.pos]
	}
	return h
}

// vpParseRowBinary parses a whole insert body; it fails unless the body is exactly a sequence of rows.
func vpParseRowBinary(body []byte) ([]vpRow, error) {
	r := &vpRBReader{b: body}
	var rows []vpRow
	for r.pos < len(body) {
		var row vpRow
		row.IndexType = r.u8()
		row.Metric = int32(r.u32())
		row.Time = r.u32()
		for i := 0; i < 48; i++ {
			row.Tags[i] = r.u32()
			row.STags[i] = r.str()
		}
		row.Count = r.f64()
		row.MaxCount = r.f64()
		row.Min = r.f64()
		row.Max = r.f64()
		row.Sum = r.f64()
		row.SumSquare = r.f64()
		start := r.pos
		n := r.uvarint()
		if n > 1<<20 {
			return rows, fmt.Errorf("rowbinary: %d centroids at %d", n, r.pos)
		}
		for i := uint64(0); i < n && r.err == nil; i++ {
			row.Centroids = append(row.Centroids, vpCentroid{Mean: r.f32(), Weight: r.f32()})
		}
		if r.err == nil {
			row.RawTD = body[start:r.pos]
		}
		start = r.pos
		row.UniqSkip = r.u8()
		n = r.uvarint()
		if n > 1<<20 {
			return rows, fmt.Errorf("rowbinary: %d uniq items at %d", n, r.pos)
		}
		for i := uint64(0); i < n && r.err == nil; i++ {
			row.UniqItems = append(row.UniqItems, r.u32())
		}
		if r.err == nil {
			row.RawUniq = body[start:r.pos]
		}
		row.MinHost = r.argHost()
		row.MaxHost = r.argHost()
		row.MaxCHost = r.argHost()
		if r.err != nil {
			return rows, fmt.Errorf("row %d: %w", len(rows), r.err)
		}
		rows = append(rows, row)
	}
	return rows, nil
}

// vpIntHash32 is ClickHouse's intHash32 (Common/HashTable/Hash.h) with salt 0, the hash function of uniq(Int64).
func vpIntHash32(key uint64) uint32 {
	key = (^key) + (key << 18)
	key = key ^ ((key >> 31) | (key << 33))
	key = key * 21
	key = key ^ ((key >> 11) | (key << 53))
	key = key + (key << 6)
	key = key ^ ((key >> 22) | (key << 42))
	return uint32(key)
}

// vpUniqState encodes a set of distinct 32-bit hashes as an (unthinned) uniq state, the way ClickHouse writes it.
func vpUniqState(hashes []uint32) []byte {
	set := map[uint32]struct{}{}
	for _, h := range hashes {
		set[h] = struct{}{}
	}
	var sorted []uint32
	for h := range set {
		sorted = append(sorted, h)
	}
	sort.Slice(sorted, func(i, j int) bool { return sorted[i] < sorted[j] }) // zero first, as ClickHouse does
	buf := []byte{0}
	buf = binary.AppendUvarint(buf, uint64(len(sorted)))
	for _, h := range sorted {
		buf = binary.LittleEndian.AppendUint32(buf, h)
	}
	return buf
}

var _ = bytes.NewReader
