//go:build verif

package aggregator

// C06 clause (e), aggregator side: the budget list handed back to agents by
// Aggregator.calcHostMetricBudgets.
//
// A literal Aggregator (real metajournal.MetricsStorage filled through journal events, a built-in
// agent that is never Run, no RPC, no ticker) gets a bucket whose originalMetricSize holds the sizes
// reported by hosts. The oracle:
//   * model-free: a handed budget H of a host that reported size S is either a quota (H < S: the
//     metric did not fit) or a doubled quota of a metric that fits (H == 2*S); S <= H < 2S or H > 2S
//     never happens; the undoubled quotas of all hosts and metrics sum to at most
//     ReceiveSampleBudget; at most one entry per (host, metric);
//   * differential against the sampler run directly in quota mode on the same metadata (the sampler
//     itself is checked against the exact model in package data_model, C06/quota): H == quota, or
//     2*quota exactly when size <= quota; hosts whose quota is below 1 get no entry.
// calcHostMetricBudgets always uses the random budget rounding (RoundF cannot be injected), so the
// differential and the exact sum are asserted only when neither namespaces nor groups are sampled
// (no level above the metrics, nothing is rounded). With those levels on, every rounded partition
// may gain less than one byte: the sum is asserted with that slack (one byte per metric and level),
// the doubling rule and the proportionality inside a metric are asserted as they are.

import (
	"encoding/json"
	"fmt"
	"sort"
	"sync"
	"testing"

	"pgregory.net/rand"
	"pgregory.net/rapid"

	"github.com/VKCOM/statshouse/internal/agent"
	"github.com/VKCOM/statshouse/internal/data_model"
	"github.com/VKCOM/statshouse/internal/data_model/gen2/tlmetadata"
	"github.com/VKCOM/statshouse/internal/data_model/gen2/tlstatshouse"
	"github.com/VKCOM/statshouse/internal/format"
	"github.com/VKCOM/statshouse/internal/metajournal"
	"github.com/VKCOM/statshouse/internal/pcache"
)

type c06AggMetric struct {
	ID     int32   `json:"id"`
	NS     int32   `json:"ns"`    // 0 = default namespace
	Group  int     `json:"group"` // index into Groups, -1 = no group
	Weight float64 `json:"w"`
}

type c06AggWeight struct {
	ID     int32   `json:"id"`
	Weight float64 `json:"w"`
}

type c06AggSize struct {
	M     int    `json:"m"`
	Host  int32  `json:"host"` // mapped host tag, 0 = use SHost
	SHost string `json:"shost,omitempty"`
	Size  uint32 `json:"size"`
}

type c06AggCase struct {
	Metrics    []c06AggMetric `json:"metrics"`
	Groups     []c06AggWeight `json:"groups,omitempty"`
	Namespaces []c06AggWeight `json:"namespaces,omitempty"`
	Sizes      []c06AggSize   `json:"sizes"`
	Budget     int            `json:"budget"`
	SampleNS   bool           `json:"sample_ns,omitempty"`
	SampleGrp  bool           `json:"sample_groups,omitempty"`
}

var (
	c06AggOnce  sync.Once
	c06AggAgent *agent.Agent
	c06AggErr   error
)

func c06AggSh2() (*agent.Agent, error) {
	c06AggOnce.Do(func() {
		cfg := agent.DefaultConfig()
		cfg.Cluster = "vp"
		gc := tlstatshouse.GetConfigResult3{Addresses: []string{"127.0.0.1:1", "127.0.0.1:1", "127.0.0.1:1"}, ShardByMetricCount: 1}
		hv := func() (int64, string) { return 0, "" }
		mc := pcache.NewMappingsCache(data_model.NewChunkedStorageNop(), 1<<20, 86400)
		c06AggAgent, c06AggErr = agent.MakeAgent("tcp4", "", "", nil, cfg, "vp-aggregator", format.TagValueIDComponentAggregator,
			metajournal.MakeMetricsStorage(nil), mc, hv, hv, func(string, ...any) {}, nil, &gc, nil)
	})
	return c06AggAgent, c06AggErr
}

func c06AggStorage(t vpT, c *c06AggCase) *metajournal.MetricsStorage {
	ms := metajournal.MakeMetricsStorage(nil)
	var events []tlmetadata.Event
	add := func(e tlmetadata.Event, err error) {
		if err != nil {
			t.Fatalf("harness: event: %v", err)
		}
		events = append(events, e)
	}
	for _, n := range c.Namespaces {
		add(metajournal.EventFromNamespaceMeta(format.NamespaceMeta{ID: n.ID, Name: fmt.Sprintf("ns%d", n.ID), Version: 1, Weight: n.Weight}, ""))
	}
	for i, g := range c.Groups {
		add(metajournal.EventFromGroupMeta(format.MetricsGroup{ID: g.ID, Name: fmt.Sprintf("g%d_", i), Version: 1, Weight: g.Weight}, ""))
	}
	for _, m := range c.Metrics {
		name := fmt.Sprintf("m%d", m.ID)
		if m.Group >= 0 {
			name = fmt.Sprintf("g%d_m%d", m.Group, m.ID)
		}
		add(metajournal.EventFromMetricMeta(format.MetricMetaValue{MetricID: m.ID, NamespaceID: m.NS, Name: name, Version: 1, Weight: m.Weight, Kind: format.MetricKindCounter}, ""))
	}
	ms.ApplyEvent(events)
	return ms
}

func (s c06AggSize) host() data_model.TagUnion {
	if s.Host != 0 {
		return data_model.TagUnion{I: s.Host}
	}
	return data_model.TagUnion{S: s.SHost}
}

type c06AggKey struct {
	metric int32
	host   data_model.TagUnion
}

func c06AggProp(t vpT, c c06AggCase) (nontrivial bool, classes []string) {
	if len(c.Sizes) == 0 || c.Budget < 1 {
		return false, nil
	}
	sh2, err := c06AggSh2()
	if err != nil {
		t.Fatalf("VP-INCONCLUSIVE harness: built-in agent: %v", err)
	}
	ms := c06AggStorage(t, &c)
	a := &Aggregator{
		metricStorage:  ms,
		sh2:            sh2,
		orgMetricSize:  data_model.NewExpDecayMetrics(0),
		startTimestamp: 1,
	}
	b := &aggregatorBucket{time: 1000, originalMetricSize: map[int32]map[data_model.TagUnion]uint32{}}
	sizes := map[c06AggKey]uint32{}
	for _, s := range c.Sizes {
		id := c.Metrics[s.M].ID
		k := c06AggKey{id, s.host()}
		if _, dup := sizes[k]; dup {
			continue // one report per host and metric
		}
		sizes[k] = s.Size
		if b.originalMetricSize[id] == nil {
			b.originalMetricSize[id] = map[data_model.TagUnion]uint32{}
		}
		b.originalMetricSize[id][k.host] = s.Size
	}
	configR := ConfigAggregatorRemote{ReceiveSampleBudget: c.Budget, SampleNamespaces: c.SampleNS, SampleGroups: c.SampleGrp}
	out := map[data_model.TagUnion][]tlstatshouse.MetricBudget{}
	a.calcHostMetricBudgets(configR, b, out)

	// reference: the sampler in quota mode, rows in a fixed order
	keys := make([]c06AggKey, 0, len(sizes))
	for k := range sizes {
		keys = append(keys, k)
	}
	sort.Slice(keys, func(i, j int) bool {
		if keys[i].metric != keys[j].metric {
			return keys[i].metric < keys[j].metric
		}
		if keys[i].host.I != keys[j].host.I {
			return keys[i].host.I < keys[j].host.I
		}
		return keys[i].host.S < keys[j].host.S
	})
	quota := map[c06AggKey]uint32{}
	ref := data_model.NewSampler(data_model.SamplerConfig{
		Meta: ms, SampleNamespaces: c.SampleNS, SampleGroups: c.SampleGrp, Rand: rand.New(1), SampleF: data_model.SampleQuota,
		KeepF: func(it *data_model.MultiItem, _ uint32, q uint32) {
			quota[c06AggKey{it.Key.Metric, data_model.TagUnion{I: it.Key.Tags[1], S: it.Key.STags[1]}}] = q
		},
	})
	for _, k := range keys {
		var key data_model.Key
		key.Metric = k.metric
		key.SetTagUnion(1, k.host)
		ref.Add(data_model.SamplingMultiItemPair{Item: &data_model.MultiItem{Key: key}, Size: int(sizes[k]), MetricID: k.metric, BucketTs: 1000})
	}
	ref.Run(int64(c.Budget))

	handed := map[c06AggKey]uint32{}
	for host, list := range out {
		for _, mb := range list {
			k := c06AggKey{mb.MetricId, host}
			if _, dup := handed[k]; dup {
				t.Fatalf("host %+v got two budgets for metric %d", host, mb.MetricId)
			}
			if _, ok := sizes[k]; !ok {
				t.Fatalf("host %+v got a budget for metric %d it did not report", host, mb.MetricId)
			}
			handed[k] = mb.Budget
		}
	}
	var sum int64
	doubled, plain, none := 0, 0, 0
	exact := !c.SampleNS && !c.SampleGrp
	slack := int64(0)
	if c.SampleNS {
		slack += int64(len(c.Metrics))
	}
	if c.SampleGrp {
		slack += int64(len(c.Metrics))
	}
	for _, k := range keys {
		s := sizes[k]
		h, ok := handed[k]
		q := quota[k]
		if !ok {
			none++
			if exact && q >= 1 {
				t.Fatalf("metric %d host %+v (size %d): quota %d but no budget handed", k.metric, k.host, s, q)
			}
			continue
		}
		switch {
		case h < s:
			plain++
			sum += int64(h)
			if exact && h != q {
				t.Fatalf("metric %d host %+v (size %d): handed %d, sampler quota %d", k.metric, k.host, s, h, q)
			}
		case int64(h) == 2*int64(s):
			doubled++
			sum += int64(s)
			if exact && q != s {
				t.Fatalf("metric %d host %+v (size %d): handed the doubled size but sampler quota is %d", k.metric, k.host, s, q)
			}
		default:
			t.Fatalf("metric %d host %+v reported size %d and was handed %d: neither a quota below the size nor twice the size (sampler quota %d)", k.metric, k.host, s, h, q)
		}
	}
	if sum > int64(c.Budget)+slack {
		t.Fatalf("undoubled quotas sum to %d, receive budget %d (+%d for random rounding)", sum, c.Budget, slack)
	}
	// inside one metric the undoubled quotas are proportional to the sizes: one c with quota = floor(c*size)
	byMetric := map[int32][]c06AggKey{}
	for _, k := range keys {
		byMetric[k.metric] = append(byMetric[k.metric], k)
	}
	for id, ks := range byMetric {
		var loN, loD, hiN, hiD int64 = 0, 1, 0, 0
		for _, k := range ks {
			q, sz := int64(handed[k]), int64(sizes[k])
			if q == 2*sz {
				q = sz
			}
			if q*loD > loN*sz {
				loN, loD = q, sz
			}
			if hiD == 0 || (q+1)*hiD < hiN*sz {
				hiN, hiD = q+1, sz
			}
		}
		if loN*hiD >= hiN*loD {
			t.Fatalf("quotas of metric %d are not proportional to the reported sizes: need c >= %d/%d and c < %d/%d", id, loN, loD, hiN, hiD)
		}
	}
	if exact {
		classes = append(classes, "flat-exact")
	}
	if doubled > 0 {
		classes = append(classes, "doubled")
	}
	if plain > 0 {
		classes = append(classes, "quota-below-size")
	}
	if none > 0 {
		classes = append(classes, "host-without-budget")
	}
	return doubled > 0 && plain > 0, classes
}

var c06AggWeights = []float64{0, 0.01, 0.5, 1, 1, 1, 2, 10, 100}

func c06AggGen() *rapid.Generator[c06AggCase] {
	return rapid.Custom(func(t *rapid.T) c06AggCase {
		var c c06AggCase
		c.SampleNS = rapid.Bool().Draw(t, "sample_ns")
		c.SampleGrp = rapid.Bool().Draw(t, "sample_groups")
		nNS := rapid.IntRange(0, 2).Draw(t, "n_ns")
		for i := 0; i < nNS; i++ {
			c.Namespaces = append(c.Namespaces, c06AggWeight{ID: int32(i + 1), Weight: rapid.SampledFrom(c06AggWeights).Draw(t, "ns_w")})
		}
		nG := rapid.IntRange(0, 3).Draw(t, "n_groups")
		for i := 0; i < nG; i++ {
			c.Groups = append(c.Groups, c06AggWeight{ID: int32(i + 10), Weight: rapid.SampledFrom(c06AggWeights).Draw(t, "group_w")})
		}
		nM := rapid.IntRange(1, 8).Draw(t, "n_metrics")
		for i := 0; i < nM; i++ {
			c.Metrics = append(c.Metrics, c06AggMetric{ID: int32(100 + i), NS: int32(rapid.IntRange(0, nNS).Draw(t, "ns")), Group: rapid.IntRange(-1, nG-1).Draw(t, "group"),
				Weight: rapid.SampledFrom(c06AggWeights).Draw(t, "w")})
		}
		n := rapid.IntRange(1, 60).Draw(t, "n_sizes")
		var total int64
		for i := 0; i < n; i++ {
			s := c06AggSize{M: rapid.IntRange(0, nM-1).Draw(t, "m")}
			if rapid.IntRange(0, 4).Draw(t, "shost") == 0 {
				s.SHost = fmt.Sprintf("h%d", rapid.IntRange(1, 12).Draw(t, "host"))
			} else {
				s.Host = int32(rapid.IntRange(1, 12).Draw(t, "host"))
			}
			switch rapid.IntRange(0, 2).Draw(t, "size_class") {
			case 0:
				s.Size = uint32(rapid.IntRange(1, 200).Draw(t, "size"))
			case 1:
				s.Size = uint32(rapid.IntRange(200, 20000).Draw(t, "size"))
			default:
				s.Size = uint32(rapid.IntRange(20000, 300000).Draw(t, "size"))
			}
			total += int64(s.Size)
			c.Sizes = append(c.Sizes, s)
		}
		if rapid.IntRange(0, 9).Draw(t, "fits") == 0 {
			c.Budget = int(total + rapid.Int64Range(0, total).Draw(t, "extra"))
		} else {
			c.Budget = int(total * rapid.Int64Range(5, 999).Draw(t, "permille") / 1000)
		}
		if c.Budget < 1 {
			c.Budget = 1
		}
		if c.Budget > 1000000 {
			c.Budget = 1000000
		}
		return c
	})
}

func TestVerifC06AggBudgets(t *testing.T) {
	ev := vpNewEv(t, "C06", "agg-budgets")
	rapid.Check(t, func(rt *rapid.T) {
		c := c06AggGen().Draw(rt, "case")
		vpRunCase(rt, "C06", "agg-budgets", c, func() {
			nt, cls := c06AggProp(rt, c)
			ev.Case(nt, c, cls...)
		})
	})
}

func init() {
	vpReplayers["C06/agg-budgets"] = func(t vpT, raw json.RawMessage) {
		var c c06AggCase
		if err := json.Unmarshal(raw, &c); err != nil {
			t.Fatalf("decode: %v", err)
		}
		c06AggProp(t, c)
	}
}
