//go:build verif

package api

// C23 — the API series cache (cache2) returns correctly placed, fresh data under concurrency.
//
// A rapid-generated *plan* (per-goroutine operation lists + loader behaviours) is executed by real
// goroutines against a real cache2 with a stub storage loader. Every observable event is stamped with
// a global atomic logical clock. The oracle is a checker over the recorded history (it never calls
// back into the cache):
//   placement  slot i of a successful non-play Get holds exactly the rows the stub storage produced
//              for time from+i*step of that query in one (successful, finished) load;
//   freshness  there is no invalidation I of that slot with
//              load.start < I.begin, load.done < I.return and I.return < Get.begin, where load.done is the
//              moment the cache was through with the load (rows stored, awaiters served);
//   accounting after all requests returned, reset()+shutdown().Wait(), runtimeInfo goes to zero;
//   liveness   every call returns (progress watchdog 20 s; confirmed by re-running the plan).

import (
	"context"
	"encoding/json"
	"errors"
	"fmt"
	"os"
	"os/exec"
	"regexp"
	"runtime"
	"sort"
	"strconv"
	"strings"
	"sync"
	"sync/atomic"
	"testing"
	"time"

	"pgregory.net/rapid"

	"github.com/VKCOM/statshouse/internal/data_model"
	"github.com/VKCOM/statshouse/internal/format"
)

// ---------------------------------------------------------------- plan (plain data)

const (
	c23Base  = int64(1_700_000_000) // "old" ranges: long before the wall clock, cacheable
	c23Month = int64(31 * 24 * 3600)
)

type c23T struct {
	Near bool  `json:"near,omitempty"` // relative to the wall clock at execution (now-Off) instead of base+Off
	Off  int64 `json:"off"`            // seconds
}

type c23Op struct {
	K string `json:"k"` // get | inv | lim | reset | pause

	// get
	Q        int  `json:"q,omitempty"`
	StepIx   int  `json:"si,omitempty"`
	Near     bool `json:"near,omitempty"` // range ends around the wall clock
	Off      int  `json:"off,omitempty"`  // slots after the aligned base (old) / slots before aligned now (near)
	Len      int  `json:"len,omitempty"`  // slots
	Play     int  `json:"play,omitempty"`
	Force    bool `json:"force,omitempty"`
	User     int  `json:"user,omitempty"` // 2 = user with cache disabled
	CancelUs int  `json:"cancel_us,omitempty"`

	// inv
	Times []c23T `json:"times,omitempty"`

	// lim
	MaxSize  int `json:"max_size,omitempty"`
	Soft     int `json:"soft,omitempty"`
	MaxAgeMs int `json:"max_age_ms,omitempty"`

	// pause
	Us     int `json:"us,omitempty"`
	Yields int `json:"yields,omitempty"`
}

type c23LoadBeh struct {
	Yields  int  `json:"yields,omitempty"`
	SleepUs int  `json:"sleep_us,omitempty"`
	Blocks  int  `json:"blocks"`
	Fail    bool `json:"fail,omitempty"`
	FailPct int  `json:"fail_pct,omitempty"` // part of the range filled before the failure
}

type c23Case struct {
	ChunkSize int          `json:"chunk_size"`
	Zone      int          `json:"zone"`
	Steps     []int64      `json:"steps"`
	Init      c23Op        `json:"init"` // initial limits
	Threads   [][]c23Op    `json:"threads"`
	Loads     []c23LoadBeh `json:"loads"`
	// end of the history as in the repo's TestCache2Parallel: shutdown().Wait() right after the last Get returned
	// (chunk loaders may still be post-processing), then compare the counters with a recount of what is left
	ShutdownFirst bool `json:"shutdown_first,omitempty"`
}

// what is saved as the replay file: the plan and (filled on failure) the full stamped history
type c23Saved struct {
	c23Case
	Violation string   `json:"violation,omitempty"`
	History   *c23Hist `json:"history,omitempty"`
}

// ---------------------------------------------------------------- history (plain data)

type c23Ev struct {
	Th    int    `json:"th"`
	Ix    int    `json:"ix"`
	K     string `json:"k"`
	Begin int64  `json:"begin"`
	Ret   int64  `json:"ret"` // 0: never returned

	Q       int      `json:"q,omitempty"`
	Step    int64    `json:"step,omitempty"`
	From    int64    `json:"from,omitempty"`
	To      int64    `json:"to,omitempty"`
	Play    int      `json:"play,omitempty"`
	Force   bool     `json:"force,omitempty"`
	NoCache bool     `json:"nocache,omitempty"`
	Err     string   `json:"err,omitempty"`
	Slots   []int64  `json:"slots,omitempty"` // load id whose rows fill slot i
	Bad     []string `json:"bad,omitempty"`   // row-level placement mismatches seen when the Get returned
	Times   []int64  `json:"times,omitempty"` // inv
	Panic   string   `json:"panic,omitempty"`
}

type c23Load struct {
	ID     int64  `json:"id"`
	Q      int    `json:"q"`
	Step   int64  `json:"step"`
	From   int64  `json:"from"`
	To     int64  `json:"to"`
	Start  int64  `json:"start"`
	Finish int64  `json:"finish"` // the storage call returned
	Done   int64  `json:"done"`   // the cache finished processing the load (observed: the context it gave to the loader is cancelled); 0 = not observed
	Err    string `json:"err,omitempty"`
}

type c23Hist struct {
	GoMaxProcs int       `json:"gomaxprocs"`
	Zone       string    `json:"zone"`
	UTCOffset  int64     `json:"utc_offset"`
	Events     []c23Ev   `json:"events"`
	Loads      []c23Load `json:"loads"`
	Hang       string    `json:"hang,omitempty"`
	HangStacks string    `json:"hang_stacks,omitempty"` // goroutines inside the cache at the time of the hang
	Deadlock   bool      `json:"deadlock,omitempty"`    // certificate: every one of them is blocked and no timer can wake the trimmer
	Accounting string    `json:"accounting,omitempty"`
	ClockSkew  int64     `json:"clock_skew_ns,omitempty"`
	// shutdown-first ending: counters read right after shutdown().Wait() returned (transient, not asserted)
	AfterShutdown string `json:"after_shutdown,omitempty"`
}

// ---------------------------------------------------------------- time helpers (independent of the cache code)

func c23Zone(z int) (*time.Location, int64) {
	switch z {
	case 1:
		loc := time.FixedZone("P3", 3*3600)
		return loc, calcUTCOffset(loc, time.Monday) // the deployment default (Europe/Moscow, week starts on Monday)
	case 2:
		loc := time.FixedZone("M5", -5*3600)
		return loc, calcUTCOffset(loc, time.Sunday)
	default:
		return time.UTC, calcUTCOffset(time.UTC, time.Monday)
	}
}

func c23FloorDiv(a, b int64) int64 {
	q := a / b
	if a%b != 0 && (a < 0) != (b < 0) {
		q--
	}
	return q
}

// start of the step-aligned interval that contains t, as the API computes request ranges
func c23Align(t, step, utcOffset int64, loc *time.Location) int64 {
	if step == c23Month {
		tt := time.Unix(t, 0).In(loc)
		return time.Date(tt.Year(), tt.Month(), 1, 0, 0, 0, 0, loc).Unix()
	}
	return c23FloorDiv(t+utcOffset, step)*step - utcOffset
}

func c23SlotTime(from, step int64, i int, loc *time.Location) int64 {
	if step == c23Month {
		return time.Unix(from, 0).In(loc).AddDate(0, i, 0).Unix()
	}
	return from + int64(i)*step
}

func c23SlotCount(from, to, step int64, loc *time.Location) int {
	if step != c23Month {
		return int((to - from) / step)
	}
	n := 0
	for t := from; t < to; n++ {
		t = time.Unix(t, 0).In(loc).AddDate(0, 1, 0).Unix()
	}
	return n
}

// slots per chunk, only used by the generator to choose ranges that overlap within a few chunks
func c23ChunkSlots(chunkSize int, step int64) int {
	switch {
	case chunkSize > 0 && step <= 3600:
		return chunkSize
	case step < 60:
		return int(60 / step)
	case step < 3600:
		return int(3600 / step)
	case step <= 86400:
		return int(86400 / step)
	default:
		return 1
	}
}

// the stub storage: rows of (query, slot time) produced by load id
func c23RowCount(q int, t int64, load int64) int {
	x := uint64(t)*0x9E3779B97F4A7C15 ^ uint64(q)*0xC2B2AE3D27D4EB4F ^ uint64(load)*0x165667B19E3779F9
	x ^= x >> 29
	x *= 0xBF58476D1CE4E5B9
	x ^= x >> 32
	return 1 + int(x%2)
}

// ---------------------------------------------------------------- execution

type c23Run struct {
	c         *c23Case
	cache     *cache2
	hh        *Handler
	loc       *time.Location
	utcOffset int64
	metrics   []*format.MetricMetaValue

	seq     atomic.Int64 // the logical clock
	loadSeq atomic.Int64
	active  atomic.Int64 // stub loader calls in flight

	mu       sync.Mutex
	loads    []c23Load
	done     map[int64]int64 // load id -> stamp at which the cache was seen to be through with it
	watchers atomic.Int64    // watcher goroutines that have not fired yet

	evMu []sync.Mutex
	evs  [][]c23Ev // per thread

	// invalidate() is only ever called from the single invalidateLoop goroutine of the handler (one call after the
	// other); the shard keeps ONE cursor (invalidateIter) for that walker. The plan's invalidations, which live on
	// several goroutines, are therefore serialized among themselves (they still race with everything else).
	invMu sync.Mutex
}

func (r *c23Run) stamp() int64 { return r.seq.Add(1) }

var errC23Load = errors.New("c23: storage failure")

func (r *c23Run) loader(ctx context.Context, _ *requestHandler, q *queryBuilder, lod data_model.LOD, ret [][]tsSelectRow, retStartIx int) (int, error) {
	id := r.loadSeq.Add(1)
	r.active.Add(1)
	defer r.active.Add(-1)
	beh := r.c.Loads[int(id-1)%len(r.c.Loads)]
	rec := c23Load{ID: id, Q: int(q.metric.MetricID), Step: lod.StepSec, From: lod.FromSec, To: lod.ToSec}
	rec.Start = r.stamp()
	// loadChunks cancels the context it passes to the loader when it returns, i.e. after the rows were put into
	// the chunks and handed to awaiters: that is the observable end of the load from the cache's point of view
	if dc := ctx.Done(); dc != nil {
		r.watchers.Add(1)
		go func() {
			<-dc
			st := r.stamp()
			r.mu.Lock()
			r.done[id] = st
			r.mu.Unlock()
			r.watchers.Add(-1)
		}()
	}
	finish := func(err error) {
		if err != nil {
			rec.Err = err.Error()
		}
		rec.Finish = r.stamp()
		r.mu.Lock()
		r.loads = append(r.loads, rec)
		r.mu.Unlock()
	}
	// the in-flight memory protocol, as loadPoints does it
	ctx, cancel := context.WithCancel(ctx)
	defer cancel()
	cc := cache2FromInflightCtx(ctx)
	var reqID uint32
	if cc != nil {
		reqID = cc.NewInflightReq(cancel)
		cc.updateInflightApprox(reqID, 0)
		defer cc.afterInflightLoadFinished(reqID)
	}
	for i := 0; i < beh.Yields; i++ {
		runtime.Gosched()
	}
	if beh.SleepUs > 0 {
		time.Sleep(time.Duration(beh.SleepUs) * time.Microsecond)
	}
	n := len(ret) - retStartIx
	blocks := beh.Blocks
	if blocks < 1 {
		blocks = 1
	}
	if blocks > n {
		blocks = max(1, n)
	}
	failAt := n + 1
	if beh.Fail {
		failAt = n * beh.FailPct / 100
	}
	rows := 0
	for b := 0; b < blocks; b++ {
		lo, hi := n*b/blocks, n*(b+1)/blocks
		if ctx.Err() != nil {
			break // request cancelled by the cache (memory limit): the select fails
		}
		if cc != nil {
			cc.updateInflightApprox(reqID, int64((hi-lo)*3*sizeofCache2DataRow/2))
		}
		for i := lo; i < hi; i++ {
			if i >= failAt {
				finish(errC23Load)
				return 0, errC23Load
			}
			t := c23SlotTime(lod.FromSec, lod.StepSec, i, lod.Location)
			k := c23RowCount(rec.Q, t, id)
			for j := 0; j < k; j++ {
				row := tsSelectRow{time: t}
				row.tag[0] = int64(rec.Q)
				row.tag[1] = id
				row.tag[2] = int64(j)
				ret[retStartIx+i] = append(ret[retStartIx+i], row)
				rows++
			}
		}
	}
	if beh.Fail && failAt >= n {
		finish(errC23Load)
		return 0, errC23Load
	}
	if err := ctx.Err(); err != nil {
		finish(err)
		return 0, err
	}
	finish(nil)
	return rows, nil
}

// summarize the rows returned by a Get: load id per slot + every row-level mismatch
func (r *c23Run) summarize(ev *c23Ev, res cache2Data) {
	want := c23SlotCount(ev.From, ev.To, ev.Step, r.loc)
	if len(res) != want {
		ev.Bad = append(ev.Bad, fmt.Sprintf("returned %d slots, requested %d", len(res), want))
	}
	ev.Slots = make([]int64, len(res))
	for i := range res {
		t := c23SlotTime(ev.From, ev.Step, i, r.loc)
		rows := res[i]
		if len(rows) == 0 {
			ev.Bad = append(ev.Bad, fmt.Sprintf("slot %d (time %d) is empty, the storage has rows for every slot", i, t))
			continue
		}
		lid := rows[0].tag[1]
		ev.Slots[i] = lid
		if len(ev.Bad) > 8 {
			continue
		}
		if k := c23RowCount(ev.Q, t, lid); k != len(rows) {
			ev.Bad = append(ev.Bad, fmt.Sprintf("slot %d (time %d): %d rows, load %d produced %d for that time", i, t, len(rows), lid, k))
		}
		for j := range rows {
			row := &rows[j]
			if row.time != t || row.tag[0] != int64(ev.Q) || row.tag[1] != lid || row.tag[2] != int64(j) {
				ev.Bad = append(ev.Bad, fmt.Sprintf("slot %d (time %d, query %d) row %d is {time %d query %d load %d row %d} (slot filled from load %d)",
					i, t, ev.Q, j, row.time, row.tag[0], row.tag[1], row.tag[2], lid))
				break
			}
		}
	}
}

func (r *c23Run) absTimes(ts []c23T, now int64) []int64 {
	s := make([]int64, 0, len(ts))
	for _, v := range ts {
		if v.Near {
			s = append(s, now-v.Off)
		} else {
			s = append(s, c23Base+v.Off)
		}
	}
	// the invalidation loop passes sorted, de-duplicated seconds
	sort.Slice(s, func(i, j int) bool { return s[i] < s[j] })
	out := s[:0]
	for i, v := range s {
		if i == 0 || v != s[i-1] {
			out = append(out, v)
		}
	}
	return out
}

func (r *c23Run) limits(op c23Op) {
	r.cache.setLimits(cache2Limits{
		maxAge:      time.Duration(op.MaxAgeMs) * time.Millisecond,
		maxSize:     op.MaxSize,
		maxSizeSoft: op.Soft,
	})
}

var c23Users = []string{"u1", "u2", "nocache"}

func (r *c23Run) thread(th int, ops []c23Op) {
	lk := &r.evMu[th]
	cur := -1
	begin := func(ev c23Ev) { // record the call before it is made, so that a call that never returns is in the history
		lk.Lock()
		r.evs[th] = append(r.evs[th], ev)
		cur = len(r.evs[th]) - 1
		lk.Unlock()
		b := r.stamp()
		lk.Lock()
		r.evs[th][cur].Begin = b
		lk.Unlock()
	}
	end := func(f func(e *c23Ev)) {
		ret := r.stamp()
		lk.Lock()
		e := &r.evs[th][cur]
		if f != nil {
			f(e)
		}
		e.Ret = ret
		lk.Unlock()
	}
	defer func() {
		if p := recover(); p != nil {
			lk.Lock()
			if cur >= 0 {
				r.evs[th][cur].Panic = fmt.Sprint(p)
			} else {
				r.evs[th] = append(r.evs[th], c23Ev{Th: th, Ix: -1, K: "panic", Panic: fmt.Sprint(p)})
			}
			lk.Unlock()
		}
	}()
	for ix, op := range ops {
		ev := c23Ev{Th: th, Ix: ix, K: op.K}
		switch op.K {
		case "get":
			step := r.c.Steps[op.StepIx%len(r.c.Steps)]
			var from int64
			if op.Near {
				from = c23SlotTime(c23Align(time.Now().Unix(), step, r.utcOffset, r.loc), step, -op.Off, r.loc)
			} else {
				from = c23SlotTime(c23Align(c23Base, step, r.utcOffset, r.loc), step, op.Off, r.loc)
			}
			to := c23SlotTime(from, step, op.Len, r.loc)
			user := c23Users[op.User%len(c23Users)]
			ev.Q, ev.Step, ev.From, ev.To, ev.Play, ev.Force, ev.NoCache = op.Q, step, from, to, op.Play, op.Force, user == "nocache"
			h := &requestHandler{Handler: r.hh, accessInfo: accessInfo{user: user}}
			q := &queryBuilder{metric: r.metrics[op.Q], play: op.Play, user: user}
			lod := data_model.LOD{FromSec: from, ToSec: to, StepSec: step, Version: Version6, Metric: r.metrics[op.Q], Location: r.loc}
			ctx, cancel := context.Background(), context.CancelFunc(func() {})
			if op.CancelUs > 0 {
				ctx, cancel = context.WithTimeout(ctx, time.Duration(op.CancelUs)*time.Microsecond)
			}
			begin(ev)
			res, err := r.cache.Get(ctx, h, q, lod, op.Force)
			end(func(e *c23Ev) {
				if err != nil {
					e.Err = err.Error()
				} else {
					r.summarize(e, res)
				}
			})
			cancel()
		case "inv":
			step := r.c.Steps[op.StepIx%len(r.c.Steps)]
			ev.Step = step
			ev.Times = r.absTimes(op.Times, time.Now().Unix())
			r.invMu.Lock()
			begin(ev)
			r.cache.invalidate(ev.Times, step)
			end(nil)
			r.invMu.Unlock()
		case "lim":
			begin(ev)
			r.limits(op)
			end(nil)
		case "reset":
			begin(ev)
			r.cache.reset()
			end(nil)
		case "pause":
			for i := 0; i < op.Yields; i++ {
				runtime.Gosched()
			}
			if op.Us > 0 {
				time.Sleep(time.Duration(op.Us) * time.Microsecond)
			}
			r.stamp()
		}
	}
}

var c23GoHeadRe = regexp.MustCompile(`^goroutine \d+ \[([^\],]+)`)

// stacks of the goroutines that are inside cache2 code (diagnostics of a hang), and whether all of them are
// blocked on a condition variable / channel / mutex (then, with no timer armed, nothing can ever wake them)
func c23CacheStacks() (string, bool) {
	buf := make([]byte, 8<<20)
	buf = buf[:runtime.Stack(buf, true)]
	var sb strings.Builder
	n, blocked := 0, true
	for _, g := range strings.Split(string(buf), "\n\n") {
		if !(strings.Contains(g, "api.(*cache2") || strings.Contains(g, "api.cache2") || strings.Contains(g, "api.(*c23Run)")) {
			continue
		}
		if strings.Contains(g, ".runtimeInfo(") || strings.Contains(g, "c23CacheStacks") {
			continue // the watchdog's own observers
		}
		n++
		m := c23GoHeadRe.FindStringSubmatch(g)
		switch {
		case m == nil:
			blocked = false
		default:
			switch m[1] {
			case "sync.Cond.Wait", "chan receive", "chan send", "select", "sync.Mutex.Lock", "sync.RWMutex.Lock", "sync.RWMutex.RLock", "semacquire", "sync.WaitGroup.Wait":
			default:
				blocked = false // running, runnable, sleep, syscall, IO wait, ...
			}
		}
		if sb.Len() < 30000 {
			sb.WriteString(g)
			sb.WriteString("\n\n")
		}
	}
	return sb.String(), blocked && n > 0
}

func (c *c23Case) armsAgeTimer() bool {
	if c.Init.MaxAgeMs > 0 {
		return true
	}
	for _, th := range c.Threads {
		for _, op := range th {
			if op.K == "lim" && op.MaxAgeMs > 0 {
				return true
			}
		}
	}
	return false
}

type c23Outcome struct {
	hist *c23Hist
	hang bool
}

func c23InfoZero(info cache2RuntimeInfo) bool {
	return info.sizeS[0]+info.sizeS[1] == 0 && info.bucketCountS[0]+info.bucketCountS[1] == 0 &&
		info.chunkSizeS[0]+info.chunkSizeS[1] == 0 && info.chunkCountS[0]+info.chunkCountS[1] == 0
}

// c23Execute runs the plan once with real goroutines and returns the stamped history.
func c23Execute(c *c23Case, hangAfter time.Duration) c23Outcome {
	loc, utcOffset := c23Zone(c.Zone)
	r := &c23Run{c: c, loc: loc, utcOffset: utcOffset, done: map[int64]int64{}, evs: make([][]c23Ev, len(c.Threads)), evMu: make([]sync.Mutex, len(c.Threads))}
	for q := 0; q <= 24; q++ {
		r.metrics = append(r.metrics, &format.MetricMetaValue{MetricID: int32(q), Name: fmt.Sprintf("c23_metric_%d", q)})
	}
	r.hh = &Handler{HandlerOptions: HandlerOptions{location: loc, utcOffset: utcOffset}}
	r.hh.CacheBlacklist = []string{"nocache"}
	r.cache = newCache2(r.hh, c.ChunkSize, r.loader)
	r.limits(c.Init)
	hist := &c23Hist{GoMaxProcs: runtime.GOMAXPROCS(0), Zone: loc.String(), UTCOffset: utcOffset}
	wall0 := time.Now()

	// progress signal for the watchdog: the logical clock (every begin/return/load start/finish
	// stamps it) and the cache's own accounting (the trimmer works without stamping)
	var infoSig atomic.Int64
	stopInfo := make(chan struct{})
	go func() {
		for {
			select {
			case <-stopInfo:
				return
			case <-time.After(20 * time.Millisecond):
			}
			i := r.cache.runtimeInfo()
			infoSig.Store(int64(i.sizeS[0]*7 + i.sizeS[1]*11 + i.bucketCountS[0]*13 + i.bucketCountS[1]*17 + i.chunkCountS[0]*19 + i.chunkCountS[1]*23))
		}
	}()
	defer close(stopInfo)
	lastSig, lastAt := int64(-1), time.Now()
	stuck := func() bool {
		sig := r.seq.Load()*1000003 + infoSig.Load() + r.active.Load()
		if sig != lastSig {
			lastSig, lastAt = sig, time.Now()
			return false
		}
		return time.Since(lastAt) > hangAfter
	}
	waitFor := func(done <-chan struct{}) bool { // true = finished, false = no progress for hangAfter
		lastSig, lastAt = -1, time.Now()
		for {
			select {
			case <-done:
				return true
			case <-time.After(time.Millisecond):
			}
			if stuck() {
				return false
			}
		}
	}
	collect := func() {
		for th := range r.evs {
			r.evMu[th].Lock()
			hist.Events = append(hist.Events, r.evs[th]...)
			r.evMu[th].Unlock()
		}
		r.mu.Lock()
		hist.Loads = append([]c23Load(nil), r.loads...)
		for i := range hist.Loads {
			hist.Loads[i].Done = r.done[hist.Loads[i].ID]
		}
		r.mu.Unlock()
		sort.Slice(hist.Loads, func(i, j int) bool { return hist.Loads[i].ID < hist.Loads[j].ID })
		dm := time.Since(wall0)
		dw := time.Duration(time.Now().UnixNano() - wall0.UnixNano())
		hist.ClockSkew = int64(dw - dm)
	}

	var wg sync.WaitGroup
	for th := range c.Threads {
		wg.Add(1)
		go func(th int) {
			defer wg.Done()
			r.thread(th, c.Threads[th])
		}(th)
	}
	done := make(chan struct{})
	go func() { wg.Wait(); close(done) }()
	if !waitFor(done) {
		// some call never returned; the threads are abandoned
		var pend []string
		for th := range r.evs {
			r.evMu[th].Lock()
			for _, e := range r.evs[th] {
				if e.Ret == 0 {
					pend = append(pend, fmt.Sprintf("thread %d op %d %s q=%d step=%d [%d,%d) play=%d begin=%d", th, e.Ix, e.K, e.Q, e.Step, e.From, e.To, e.Play, e.Begin))
				}
				hist.Events = append(hist.Events, e)
			}
			r.evMu[th].Unlock()
		}
		hist.Hang = fmt.Sprintf("no progress for %v, calls that did not return: %s; loader calls in flight: %d", hangAfter, strings.Join(pend, "; "), r.active.Load())
		var allBlocked bool
		hist.HangStacks, allBlocked = c23CacheStacks()
		hist.Deadlock = allBlocked && !c.armsAgeTimer()
		go r.cache.shutdown() // best effort: releases waiters on the memory limit
		r.mu.Lock()
		hist.Loads = append([]c23Load(nil), r.loads...)
		for i := range hist.Loads {
			hist.Loads[i].Done = r.done[hist.Loads[i].ID]
		}
		r.mu.Unlock()
		return c23Outcome{hist: hist, hang: true}
	}
	if c.ShutdownFirst {
		down := make(chan struct{})
		go func() { r.cache.shutdown().Wait(); close(down) }()
		if !waitFor(down) {
			collect()
			hist.HangStacks, _ = c23CacheStacks()
			hist.Hang = fmt.Sprintf("no progress for %v: shutdown().Wait() does not return", hangAfter)
			return c23Outcome{hist: hist, hang: true}
		}
		if info := r.cache.runtimeInfo(); !c23InfoZero(info) {
			hist.AfterShutdown = fmt.Sprintf("size=%v bucketCount=%v chunkCount=%v", info.sizeS, info.bucketCountS, info.chunkCountS)
		}
	}
	// quiescence: background loads (refreshes, loads of cancelled requests) end
	idle := make(chan struct{})
	go func() {
		for r.active.Load() != 0 || r.watchers.Load() != 0 {
			time.Sleep(200 * time.Microsecond)
		}
		close(idle)
	}()
	if !waitFor(idle) {
		collect()
		var allBlocked bool
		hist.HangStacks, allBlocked = c23CacheStacks()
		hist.Deadlock = allBlocked && !c.armsAgeTimer()
		hist.Hang = fmt.Sprintf("no progress for %v: %d storage loads started by the cache never finish (blocked in the cache's in-flight accounting), %d finished loads are never completed by the cache", hangAfter, r.active.Load(), r.watchers.Load())
		go r.cache.shutdown()
		return c23Outcome{hist: hist, hang: true}
	}
	collect()
	if c.ShutdownFirst {
		// every chunk loader has returned and the trimmer is gone: the counters must equal a recount of the content
		// that shutdown left behind (it stops trimming as soon as the momentary size is <= 0)
		deadline := time.Now().Add(2 * time.Second)
		for {
			info := r.cache.runtimeInfo()
			nb, nc, ncs, sz := 0, 0, 0, 0
			for _, shard := range r.cache.shards {
				shard.mu.Lock()
				for _, b := range shard.bucketM {
					b.mu.Lock()
					nb++
					nc += len(b.chunks)
					ncs += len(b.chunks) * b.chunkSize
					sz += sizeofCache2Chunks(b.chunks)
					b.mu.Unlock()
				}
				shard.mu.Unlock()
			}
			if info.sizeS[0]+info.sizeS[1] == sz && info.bucketCountS[0]+info.bucketCountS[1] == nb &&
				info.chunkCountS[0]+info.chunkCountS[1] == nc && info.chunkSizeS[0]+info.chunkSizeS[1] == ncs {
				break
			}
			if time.Now().After(deadline) {
				hist.Accounting = fmt.Sprintf("after shutdown().Wait() and the end of every chunk load: counters size=%v bucketCount=%v chunkSize=%v chunkCount=%v, recount of the content left: size=%d buckets=%d chunkSlots=%d chunks=%d",
					info.sizeS, info.bucketCountS, info.chunkSizeS, info.chunkCountS, sz, nb, ncs, nc)
				return c23Outcome{hist: hist}
			}
			time.Sleep(time.Millisecond)
		}
	}
	// empty the cache, stop it, then the accounting must drain to zero
	down := make(chan struct{})
	go func() {
		r.cache.reset()
		r.cache.shutdown().Wait()
		close(down)
	}()
	if !waitFor(down) {
		hist.HangStacks, _ = c23CacheStacks()
		hist.Hang = fmt.Sprintf("no progress for %v: reset()+shutdown().Wait() does not return", hangAfter)
		return c23Outcome{hist: hist, hang: true}
	}
	deadline := time.Now().Add(hangAfter)
	for {
		info := r.cache.runtimeInfo()
		if c23InfoZero(info) {
			break
		}
		if time.Now().After(deadline) {
			hist.Accounting = fmt.Sprintf("after all requests returned, reset() and shutdown().Wait(): size=%v bucketCount=%v chunkSize=%v chunkCount=%v (want all zero)",
				info.sizeS, info.bucketCountS, info.chunkSizeS, info.chunkCountS)
			break
		}
		time.Sleep(2 * time.Millisecond)
	}
	return c23Outcome{hist: hist}
}

// ---------------------------------------------------------------- the oracle: a checker over the history

type c23Stats struct {
	checkedGets, checkedSlots     int
	hitSlots, awaitSlots          int
	armedGets                     int // a stale load of the same chunk existed that the Get had to avoid
	afterInval                    int
	failedGets, cancelled         int
	failedLoads, loads            int
	midChunk, multiLoad, nearGets int
	playGets, nocacheGets         int
	invals, resets, lims          int
	joinedStale                   int // tolerated by the statement, counted: see c23Check
	transientAfterShutdown        int
}

func c23Check(h *c23Hist, loc *time.Location) (viol []string, st c23Stats) {
	loads := make(map[int64]*c23Load, len(h.Loads))
	for i := range h.Loads {
		l := &h.Loads[i]
		loads[l.ID] = l
		st.loads++
		if l.Err != "" {
			st.failedLoads++
		}
	}
	var invs []*c23Ev
	for i := range h.Events {
		e := &h.Events[i]
		switch e.K {
		case "inv":
			if e.Ret != 0 {
				invs = append(invs, e)
			}
			st.invals++
		case "reset":
			st.resets++
		case "lim":
			st.lims++
		}
		if e.Panic != "" {
			viol = append(viol, fmt.Sprintf("thread %d op %d %s panicked: %s", e.Th, e.Ix, e.K, e.Panic))
		}
	}
	covers := func(inv *c23Ev, step, t int64) bool {
		end := c23SlotTime(t, step, 1, loc)
		for _, x := range inv.Times {
			if t <= x && x < end {
				return true
			}
		}
		return false
	}
	for i := range h.Events {
		g := &h.Events[i]
		if g.K != "get" || g.Ret == 0 {
			continue
		}
		if g.Err != "" {
			if strings.Contains(g.Err, "context") {
				st.cancelled++
			} else {
				st.failedGets++
			}
			continue
		}
		if g.Play != 0 {
			st.playGets++
			continue // the statement covers non-play requests
		}
		if g.NoCache {
			st.nocacheGets++
		}
		st.checkedGets++
		where := fmt.Sprintf("Get(thread %d op %d q=%d step=%d [%d,%d) force=%v begin=%d ret=%d)", g.Th, g.Ix, g.Q, g.Step, g.From, g.To, g.Force, g.Begin, g.Ret)
		for _, b := range g.Bad {
			viol = append(viol, "placement: "+where+": "+b)
		}
		armed, after := false, false
		seen := map[int64]bool{}
		for s, lid := range g.Slots {
			if lid == 0 {
				continue // reported through Bad
			}
			st.checkedSlots++
			t := c23SlotTime(g.From, g.Step, s, loc)
			l := loads[lid]
			switch {
			case l == nil:
				viol = append(viol, fmt.Sprintf("placement: %s slot %d: rows of load %d which never finished in the recorded history", where, s, lid))
				continue
			case l.Err != "":
				viol = append(viol, fmt.Sprintf("placement: %s slot %d: rows of failed load %d (%s)", where, s, lid, l.Err))
				continue
			case l.Q != g.Q || l.Step != g.Step || t < l.From || t >= l.To:
				viol = append(viol, fmt.Sprintf("placement: %s slot %d (time %d): rows of load %d which was q=%d step=%d [%d,%d)", where, s, t, lid, l.Q, l.Step, l.From, l.To))
				continue
			case l.Finish > g.Ret:
				viol = append(viol, fmt.Sprintf("placement: %s slot %d: returned before load %d finished (finish=%d)", where, s, lid, l.Finish))
				continue
			}
			seen[lid] = true
			if l.Done != 0 && l.Done < g.Begin {
				st.hitSlots++
			} else if l.Start < g.Begin {
				st.awaitSlots++
			}
			for _, inv := range invs {
				if inv.Step != g.Step || inv.Ret > g.Begin || !covers(inv, g.Step, t) {
					continue
				}
				after = true
				if l.Start < inv.Begin && l.Done != 0 && l.Done < inv.Ret {
					viol = append(viol, fmt.Sprintf("freshness: %s slot %d (time %d) holds rows of load %d (start=%d finish=%d done=%d) although invalidate(%v, step %d) (begin=%d return=%d) completed after that load and before the request began",
						where, s, t, lid, l.Start, l.Finish, l.Done, inv.Times, inv.Step, inv.Begin, inv.Ret))
				}
				if l.Start < inv.Begin && l.Finish < inv.Ret && !(l.Done != 0 && l.Done < inv.Ret) {
					// the storage call had returned before the invalidation completed, but the cache was not through
					// with the load yet and the request joined it ("awaits an in-flight load"): not asserted
					st.joinedStale++
				}
				// was there anything stale to avoid? another successful load of this slot that the invalidation outdated
				if !armed {
					for k := range h.Loads {
						o := &h.Loads[k]
						if o.Err == "" && o.Q == g.Q && o.Step == g.Step && o.From <= t && t < o.To && o.Start < inv.Begin && o.Done != 0 && o.Done < inv.Ret {
							armed = true
							break
						}
					}
				}
			}
		}
		if armed {
			st.armedGets++
		}
		if after {
			st.afterInval++
		}
		if len(seen) > 1 {
			st.multiLoad++
		}
	}
	if h.Accounting != "" {
		viol = append(viol, "accounting: "+h.Accounting)
	}
	if h.AfterShutdown != "" {
		st.transientAfterShutdown++
	}
	if len(viol) > 12 {
		viol = append(viol[:12], fmt.Sprintf("... and %d more", len(viol)-12))
	}
	return viol, st
}

// ---------------------------------------------------------------- property

var c23FailSeen atomic.Bool // after the first failure (i.e. while rapid shrinks) plans are executed several times

const c23HangAfter = 20 * time.Second

// c23Prop executes the plan up to reps times (stopping at the first failure) and checks every history.
func c23Prop(t vpT, s *c23Saved, reps int, budget time.Duration) (nontrivial bool, classes []string) {
	c := &s.c23Case
	loc, _ := c23Zone(c.Zone)
	started := time.Now()
	cls := map[string]bool{}
	c23Persist(s)
	for rep := 0; rep < reps; rep++ {
		if rep > 0 && time.Since(started) > budget {
			break
		}
		hangAfter := c23HangAfter
		if c23FailSeen.Load() {
			hangAfter = 6 * time.Second
		}
		out := c23Execute(c, hangAfter)
		if out.hang && out.hist.Deadlock {
			// certified: every goroutine inside the cache is parked on a condition variable / channel and the plan
			// never arms the max-age timer, so nothing can wake them: no reproduction needed to rule out a slow machine
			c23FailSeen.Store(true)
			s.History = out.hist
			s.Violation = "deadlock: " + out.hist.Hang
			t.Fatalf("C23 liveness: %s\ndeadlock certificate: all goroutines inside the cache are blocked (below) and no timer is armed\n%s", out.hist.Hang, out.hist.HangStacks)
		}
		if out.hang {
			// reproduce twice on the same plan before calling it a violation
			again := 0
			for i := 0; i < 3 && again < 2; i++ {
				if o2 := c23Execute(c, min(hangAfter, 8*time.Second)); o2.hang {
					again++
				}
			}
			s.History = out.hist
			if again < 2 {
				s.Violation = "VP-INCONCLUSIVE"
				t.Fatalf("VP-INCONCLUSIVE C23: %s -- reproduced only %d times on re-execution of the same plan\ngoroutines inside the cache:\n%s", out.hist.Hang, again, out.hist.HangStacks)
			}
			c23FailSeen.Store(true)
			s.Violation = "hang: " + out.hist.Hang
			t.Fatalf("C23 liveness: %s (reproduced on %d re-executions of the plan)\ngoroutines inside the cache:\n%s", out.hist.Hang, again, out.hist.HangStacks)
		}
		viol, st := c23Check(out.hist, loc)
		if len(viol) != 0 {
			s.History = out.hist
			s.Violation = strings.Join(viol, "\n")
			if d := time.Duration(out.hist.ClockSkew); d > 5*time.Millisecond || d < -5*time.Millisecond {
				t.Fatalf("VP-INCONCLUSIVE C23: wall clock stepped by %v during the history (the cache orders loads and invalidations by wall clock); violations seen: %s", d, s.Violation)
			}
			c23FailSeen.Store(true)
			hj, _ := json.Marshal(out.hist)
			if len(hj) > 20000 {
				hj = append(hj[:20000], "...(full history in the replay file)"...)
			}
			t.Fatalf("C23 violated (GOMAXPROCS=%d):\n%s\nhistory: %s", out.hist.GoMaxProcs, s.Violation, hj)
		}
		// classes of this history
		if st.hitSlots > 0 {
			cls["cache-hit"] = true
		}
		if st.awaitSlots > 0 {
			cls["awaited-foreign-load"] = true
		}
		if st.armedGets > 0 {
			cls["stale-load-avoided"] = true
		}
		if st.afterInval > 0 {
			cls["get-after-invalidation"] = true
		}
		if st.failedLoads > 0 {
			cls["load-failed"] = true
		}
		if st.failedGets > 0 {
			cls["get-failed"] = true
		}
		if st.cancelled > 0 {
			cls["get-cancelled"] = true
		}
		if st.multiLoad > 0 {
			cls["get-from-several-loads"] = true
		}
		if st.resets > 0 {
			cls["reset"] = true
		}
		if st.playGets > 0 {
			cls["play-requests"] = true
		}
		if st.nocacheGets > 0 {
			cls["cache-disabled-user"] = true
		}
		if c.ShutdownFirst {
			cls["shutdown-first-ending"] = true
		}
		if st.transientAfterShutdown > 0 {
			cls["counters-nonzero-right-after-shutdown(transient,not-asserted)"] = true
		}
		if rep == 0 {
			c23Totals.add(st)
		}
		if st.hitSlots > 0 || st.awaitSlots > 0 || st.afterInval > 0 {
			nontrivial = true
		}
	}
	for k := range cls {
		classes = append(classes, k)
	}
	sort.Strings(classes)
	return nontrivial, classes
}

type c23TotalsT struct {
	mu sync.Mutex
	st c23Stats
}

var c23Totals c23TotalsT

func (a *c23TotalsT) add(s c23Stats) {
	a.mu.Lock()
	a.st.checkedGets += s.checkedGets
	a.st.checkedSlots += s.checkedSlots
	a.st.hitSlots += s.hitSlots
	a.st.awaitSlots += s.awaitSlots
	a.st.armedGets += s.armedGets
	a.st.afterInval += s.afterInval
	a.st.failedGets += s.failedGets
	a.st.cancelled += s.cancelled
	a.st.loads += s.loads
	a.st.failedLoads += s.failedLoads
	a.st.playGets += s.playGets
	a.st.joinedStale += s.joinedStale
	a.mu.Unlock()
}

// ---------------------------------------------------------------- generator

var c23StepChoices = []int64{1, 1, 5, 15, 60, 60, 300, 900, 3600, 3600, 4 * 3600, 24 * 3600, 7 * 24 * 3600, c23Month}

// c23GenChurn: many queries (= buckets) in one shard, a tiny max age so that the trimmer keeps removing single idle
// buckets, hot queries that are re-read (cache hits) and frequent invalidations: the shape in which an
// invalidate() walk over the bucket list races with the removal of individual buckets.
func c23GenChurn(t *rapid.T) c23Case {
	var c c23Case
	c.ChunkSize = rapid.SampledFrom([]int{5, 5, 2, 3}).Draw(t, "chunkSize")
	c.Zone = rapid.IntRange(0, 2).Draw(t, "zone")
	step := rapid.SampledFrom([]int64{1, 15, 60, 300, 900, 3600}).Draw(t, "step")
	c.Steps = []int64{step}
	cs := c23ChunkSlots(c.ChunkSize, step)
	nq := rapid.IntRange(6, 20).Draw(t, "queries")
	// either memory pressure (the trimmer evicts the least recently used bucket again and again) or a tiny max age
	c.Init = c23Op{K: "lim"}
	if rapid.IntRange(0, 3).Draw(t, "pressure") != 0 {
		c.Init.MaxSize = rapid.SampledFrom([]int{200_000, 400_000, 800_000}).Draw(t, "maxSize")
		c.Init.Soft = c.Init.MaxSize / 2
		c.Init.MaxAgeMs = rapid.SampledFrom([]int{0, 0, 2}).Draw(t, "maxAgeMs")
	} else {
		c.Init.MaxAgeMs = rapid.IntRange(1, 3).Draw(t, "maxAgeMs")
	}
	// one thread plays the invalidation loop: back-to-back invalidations of single chunks, so that a walk over the
	// bucket list is in progress most of the time
	var inv []c23Op
	ninv := rapid.IntRange(30, 120).Draw(t, "ninv")
	for i := 0; i < ninv; i++ {
		op := c23Op{K: "inv"}
		n := rapid.IntRange(1, 2).Draw(t, "ntimes")
		for j := 0; j < n; j++ {
			op.Times = append(op.Times, c23T{Off: rapid.Int64Range(0, int64(7*cs)*step-1).Draw(t, "invOff")})
		}
		inv = append(inv, op)
		if rapid.IntRange(0, 1).Draw(t, "invPause") == 0 {
			inv = append(inv, c23Op{K: "pause", Yields: rapid.IntRange(0, 3).Draw(t, "yields"), Us: rapid.IntRange(0, 200).Draw(t, "us")})
		}
	}
	c.Threads = append(c.Threads, inv)
	// readers: each keeps re-reading "its" query (hits), pauses longer than the max age now and then (its bucket is
	// trimmed on its own and re-created at the tail of the list)
	nth := rapid.IntRange(5, 10).Draw(t, "threads")
	for th := 0; th < nth; th++ {
		hot := rapid.IntRange(1, nq).Draw(t, "hot")
		nops := rapid.IntRange(8, 24).Draw(t, "ops")
		var ops []c23Op
		for i := 0; i < nops; i++ {
			kind := rapid.IntRange(0, 99).Draw(t, "kind")
			switch {
			case kind < 80:
				op := c23Op{K: "get", Q: 1 + (hot+rapid.IntRange(0, 2).Draw(t, "hotOf3"))%nq} // three hot queries per reader
				if rapid.IntRange(0, 5).Draw(t, "other") == 0 {
					op.Q = rapid.IntRange(1, nq).Draw(t, "q")
				}
				op.Off = rapid.IntRange(0, 6*cs-1).Draw(t, "off")
				op.Len = rapid.IntRange(1, cs+1).Draw(t, "len")
				ops = append(ops, op)
			default:
				ops = append(ops, c23Op{K: "pause", Yields: rapid.IntRange(0, 10).Draw(t, "yields"), Us: rapid.IntRange(100, 5000).Draw(t, "us")})
			}
		}
		c.Threads = append(c.Threads, ops)
	}
	c.Loads = rapid.SliceOfN(rapid.Custom(func(t *rapid.T) c23LoadBeh {
		b := c23LoadBeh{Blocks: rapid.IntRange(1, 2).Draw(t, "blocks"), Yields: rapid.IntRange(0, 6).Draw(t, "yields")}
		if rapid.IntRange(0, 15).Draw(t, "fail") == 0 {
			b.Fail = true
			b.FailPct = rapid.IntRange(0, 100).Draw(t, "failPct")
		}
		return b
	}), 1, 6).Draw(t, "loads")
	return c
}

// c23GenStorm: the shape of the repo's TestCache2Parallel: a hard limit far below a single chunk (every request
// waits for the trimmer to empty the cache), many goroutines, all steps, play 0..14, fast loads, and the
// shutdown-first ending.
func c23GenStorm(t *rapid.T) c23Case {
	var c c23Case
	c.ChunkSize = rapid.SampledFrom([]int{0, 0, 5}).Draw(t, "chunkSize")
	c.Zone = rapid.IntRange(0, 2).Draw(t, "zone")
	ns := rapid.IntRange(2, 4).Draw(t, "nsteps")
	for len(c.Steps) < ns {
		s := rapid.SampledFrom([]int64{1, 5, 15, 60, 300, 900, 3600, 4 * 3600, 24 * 3600, 7 * 24 * 3600}).Draw(t, "step")
		dup := false
		for _, x := range c.Steps {
			dup = dup || x == s
		}
		if !dup {
			c.Steps = append(c.Steps, s)
		}
	}
	c.Init = c23Op{K: "lim", MaxSize: rapid.SampledFrom([]int{32, 32, 32, 5000}).Draw(t, "maxSize")}
	c.ShutdownFirst = true
	nq := rapid.IntRange(2, 12).Draw(t, "queries")
	nth := rapid.IntRange(8, 16).Draw(t, "threads")
	for th := 0; th < nth; th++ {
		play := rapid.IntRange(0, 14).Draw(t, "play") // one play interval per goroutine, as in the repo test
		nops := rapid.IntRange(6, 20).Draw(t, "ops")
		var ops []c23Op
		for i := 0; i < nops; i++ {
			si := rapid.IntRange(0, len(c.Steps)-1).Draw(t, "stepIx")
			cs := c23ChunkSlots(c.ChunkSize, c.Steps[si])
			op := c23Op{K: "get", StepIx: si, Q: rapid.IntRange(1, nq).Draw(t, "q"), Play: play}
			op.Off = rapid.IntRange(0, 3*cs-1).Draw(t, "off")
			op.Len = rapid.IntRange(1, 9).Draw(t, "len")
			if rapid.IntRange(0, 9).Draw(t, "near") == 0 {
				op.Near = true
				op.Off = rapid.IntRange(0, 9).Draw(t, "nearOff")
			}
			ops = append(ops, op)
		}
		c.Threads = append(c.Threads, ops)
	}
	c.Loads = []c23LoadBeh{{Blocks: 1}, {Blocks: 1, Yields: rapid.IntRange(0, 5).Draw(t, "yields")}}
	return c
}

func c23Gen() *rapid.Generator[c23Case] {
	return rapid.Custom(func(t *rapid.T) c23Case {
		profile := rapid.IntRange(0, 5).Draw(t, "profile") // 0,1: churn (1/3 of the plans), 2: storm (1/6), else the general mix
		switch os.Getenv("VERIF_C23_PROFILE") {            // development knob: force one profile
		case "churn":
			profile = 0
		case "storm":
			profile = 2
		case "mix":
			profile = 3
		}
		if profile <= 1 {
			return c23GenChurn(t)
		}
		if profile == 2 {
			return c23GenStorm(t)
		}
		var c c23Case
		c.ChunkSize = rapid.SampledFrom([]int{5, 5, 1, 2, 3, 7, 0}).Draw(t, "chunkSize")
		c.Zone = rapid.IntRange(0, 2).Draw(t, "zone")
		nsteps := rapid.SampledFrom([]int{1, 1, 2}).Draw(t, "nsteps")
		for len(c.Steps) < nsteps {
			s := rapid.SampledFrom(c23StepChoices).Draw(t, "step")
			if len(c.Steps) == 0 || c.Steps[0] != s {
				c.Steps = append(c.Steps, s)
			}
		}
		nq := rapid.IntRange(1, 3).Draw(t, "queries")
		limGen := func(label string) c23Op {
			op := c23Op{K: "lim"}
			op.MaxSize = rapid.SampledFrom([]int{0, 0, 32, 20_000, 200_000, 2_000_000}).Draw(t, label+"maxSize")
			if op.MaxSize > 0 && rapid.Bool().Draw(t, label+"soft") {
				op.Soft = op.MaxSize / 2
			}
			op.MaxAgeMs = rapid.SampledFrom([]int{0, 0, 0, 1, 20, 60_000}).Draw(t, label+"maxAgeMs")
			return op
		}
		c.Init = limGen("init-")
		nth := rapid.IntRange(2, 8).Draw(t, "threads")
		for th := 0; th < nth; th++ {
			nops := rapid.IntRange(1, 12).Draw(t, "ops")
			var ops []c23Op
			for i := 0; i < nops; i++ {
				kind := rapid.IntRange(0, 99).Draw(t, "kind")
				si := rapid.IntRange(0, len(c.Steps)-1).Draw(t, "stepIx")
				step := c.Steps[si]
				cs := c23ChunkSlots(c.ChunkSize, step)
				switch {
				case kind < 62:
					op := c23Op{K: "get", StepIx: si, Q: rapid.IntRange(1, nq).Draw(t, "q")}
					if rapid.IntRange(0, 6).Draw(t, "near") == 0 {
						op.Near = true
						op.Off = rapid.IntRange(0, 2*cs+1).Draw(t, "nearOff")
						op.Len = rapid.IntRange(1, cs+3).Draw(t, "nearLen")
					} else {
						op.Off = rapid.IntRange(0, 3*cs-1).Draw(t, "off")
						op.Len = rapid.IntRange(1, 2*cs+2).Draw(t, "len")
					}
					op.Play = rapid.SampledFrom([]int{0, 0, 0, 0, 0, 1, 5}).Draw(t, "play")
					op.Force = rapid.IntRange(0, 9).Draw(t, "force") == 0
					op.User = rapid.SampledFrom([]int{0, 0, 0, 1, 1, 2}).Draw(t, "user")
					if rapid.IntRange(0, 11).Draw(t, "cancel") == 0 {
						op.CancelUs = rapid.IntRange(1, 1500).Draw(t, "cancelUs")
					}
					ops = append(ops, op)
				case kind < 80:
					op := c23Op{K: "inv", StepIx: si}
					n := rapid.IntRange(1, 4).Draw(t, "ntimes")
					span := int64(3*cs) * step
					for j := 0; j < n; j++ {
						if rapid.IntRange(0, 6).Draw(t, "invNear") == 0 {
							op.Times = append(op.Times, c23T{Near: true, Off: rapid.Int64Range(0, int64(2*cs+1)*step).Draw(t, "invOff")})
						} else {
							op.Times = append(op.Times, c23T{Off: rapid.Int64Range(0, span-1).Draw(t, "invOff")})
						}
					}
					ops = append(ops, op)
				case kind < 87:
					ops = append(ops, limGen(""))
				case kind < 90:
					ops = append(ops, c23Op{K: "reset"})
				default:
					op := c23Op{K: "pause", Yields: rapid.IntRange(0, 20).Draw(t, "yields")}
					if rapid.Bool().Draw(t, "sleep") {
						op.Us = rapid.IntRange(1, 1500).Draw(t, "us")
					}
					ops = append(ops, op)
				}
			}
			c.Threads = append(c.Threads, ops)
		}
		c.Loads = rapid.SliceOfN(rapid.Custom(func(t *rapid.T) c23LoadBeh {
			b := c23LoadBeh{Blocks: rapid.IntRange(1, 3).Draw(t, "blocks"), Yields: rapid.IntRange(0, 30).Draw(t, "yields")}
			if rapid.IntRange(0, 2).Draw(t, "sleeps") == 0 {
				b.SleepUs = rapid.IntRange(1, 2500).Draw(t, "sleepUs")
			}
			if rapid.IntRange(0, 7).Draw(t, "fail") == 0 {
				b.Fail = true
				b.FailPct = rapid.IntRange(0, 100).Draw(t, "failPct")
			}
			return b
		}), 1, 12).Draw(t, "loads")
		c.ShutdownFirst = rapid.IntRange(0, 3).Draw(t, "shutdownFirst") == 0
		return c
	})
}

// A panic inside a goroutine that the cache itself spawned (trimmer, chunk loader) cannot be recovered
// by the test: it kills the process. So the search runs in a child process (the same test binary, same
// flags); the child leaves the plan it is about to execute in a file, and if it dies the parent turns
// that into a failure with a replay file.
const c23ChildEnv = "VERIF_C23_CHILD"

func c23Persist(s *c23Saved) {
	if p := os.Getenv("VERIF_C23_CUR"); p != "" {
		if b, err := json.Marshal(s.c23Case); err == nil {
			_ = os.WriteFile(p, b, 0o644)
		}
	}
}

var c23CrashRe = regexp.MustCompile(`(?m)^(panic: |fatal error: |\[signal SIG)`)

// c23RunChild re-executes the test binary and reports (output, crashed-plan or nil, failed).
func c23RunChild(t vpT, args []string, extraEnv ...string) (out string, crashed *c23Saved, failed bool) {
	dir := os.Getenv("TMPDIR")
	f, err := os.CreateTemp(dir, "c23-cur-*.json")
	if err != nil {
		t.Fatalf("VP-INCONCLUSIVE C23: %v", err)
	}
	cur := f.Name()
	f.Close()
	defer os.Remove(cur)
	cmd := exec.Command(os.Args[0], args...)
	cmd.Env = append(append(os.Environ(), c23ChildEnv+"=1", "VERIF_C23_CUR="+cur), extraEnv...)
	b, err := cmd.CombinedOutput()
	out = string(b)
	if err == nil {
		return out, nil, false
	}
	if c23CrashRe.MatchString(out) && !strings.Contains(out, "panic: test timed out") && !strings.Contains(out, "--- FAIL") {
		var s c23Saved
		if pb, e := os.ReadFile(cur); e == nil && json.Unmarshal(pb, &s.c23Case) == nil {
			crashed = &s
		}
	}
	return out, crashed, true
}

func c23Tail(s string, n int) string {
	if len(s) > n {
		return "...\n" + s[len(s)-n:]
	}
	return s
}

func c23CrashHead(out string) string {
	loc := c23CrashRe.FindStringIndex(out)
	if loc == nil {
		return c23Tail(out, 3000)
	}
	h := out[loc[0]:]
	if len(h) > 3500 {
		h = h[:3500] + "\n..."
	}
	return h
}

func TestVerifC23Hist(t *testing.T) {
	if os.Getenv(c23ChildEnv) == "" {
		out, crashed, failed := c23RunChild(t, os.Args[1:])
		if !failed {
			t.Logf("child ok: %s", c23Tail(out, 300))
			return
		}
		if crashed != nil {
			crashed.Violation = "the process died while this plan was executing:\n" + c23CrashHead(out)
			vpSaveFail("C23", "hist", crashed, "")
			t.Fatalf("C23: the cache crashed the process (panic in a goroutine of the code under test) while executing the saved plan:\n%s", c23CrashHead(out))
		}
		// ordinary failure of the child (violation, VP-INCONCLUSIVE, timeout): its replay file is already saved; relay
		fmt.Print(c23Tail(out, 30000))
		t.Fatalf("C23: child search process failed (see its output above)")
	}
	c23HistSearch(t)
}

func c23HistSearch(t *testing.T) {
	ev := vpNewEv(t, "C23", "hist")
	t.Cleanup(func() {
		c23Totals.mu.Lock()
		st := c23Totals.st
		c23Totals.mu.Unlock()
		ev.Class("n:checked-gets", int64(st.checkedGets))
		ev.Class("n:checked-slots", int64(st.checkedSlots))
		ev.Class("n:slots-from-cache-hit", int64(st.hitSlots))
		ev.Class("n:slots-from-awaited-load", int64(st.awaitSlots))
		ev.Class("n:gets-that-had-to-avoid-a-stale-load", int64(st.armedGets))
		ev.Class("n:gets-after-invalidation-of-a-slot", int64(st.afterInval))
		ev.Class("n:gets-failed", int64(st.failedGets))
		ev.Class("n:gets-cancelled", int64(st.cancelled))
		ev.Class("n:loads", int64(st.loads))
		ev.Class("n:loads-failed", int64(st.failedLoads))
		ev.Class("n:tolerated-slots-joined-a-load-read-before-the-invalidation", int64(st.joinedStale))
		ev.Class(fmt.Sprintf("gomaxprocs=%d", runtime.GOMAXPROCS(0)), 1)
		ev.Extra("gomaxprocs", runtime.GOMAXPROCS(0))
	})
	// wall-clock budget of this process (unit config "env"): once it is spent the remaining generated plans are
	// skipped and counted; a budget hit is never a violation (the driver's class floors decide if enough was explored)
	var deadline time.Time
	if v, err := strconv.Atoi(os.Getenv("VERIF_C23_TIME_S")); err == nil && v > 0 {
		deadline = time.Now().Add(time.Duration(v) * time.Second)
	}
	rapid.Check(t, func(rt *rapid.T) {
		s := &c23Saved{c23Case: c23Gen().Draw(rt, "case")}
		if !deadline.IsZero() && time.Now().After(deadline) && !c23FailSeen.Load() {
			ev.Class("skipped-after-time-budget", 1)
			return
		}
		vpRunCase(rt, "C23", "hist", s, func() {
			reps := 1
			if c23FailSeen.Load() {
				reps = 6 // shrinking a schedule-dependent failure
			}
			nt, cls := c23Prop(rt, s, reps, 5*time.Second)
			ev.Case(nt, s.c23Case, cls...)
		})
	})
}

func init() {
	vpReplayers["C23/hist"] = func(t vpT, raw json.RawMessage) {
		var s c23Saved
		if err := json.Unmarshal(raw, &s); err != nil {
			t.Fatalf("decode: %v", err)
		}
		if os.Getenv(c23ChildEnv) == "" {
			// run the replay in a child so that a crash of the code under test is a failure, not a dead test binary
			ff, _ := json.Marshal(vpFailFile{Prop: "C23", Sub: "hist", Case: raw})
			f, err := os.CreateTemp(os.Getenv("TMPDIR"), "c23-replay-*.json")
			if err != nil {
				t.Fatalf("VP-INCONCLUSIVE C23: %v", err)
			}
			defer os.Remove(f.Name())
			f.Write(ff)
			f.Close()
			out, crashed, failed := c23RunChild(t, []string{"-test.run", "^TestVerifReplay$", "-test.v", "-test.timeout", "580s"}, "VERIF_REPLAY="+f.Name(), "VERIF_FAIL_DIR=")
			out = strings.ReplaceAll(out, "--- FAIL", "--- child-FAIL") // the driver greps the parent's output for failed replay names
			if !failed {
				t.Logf("replay child ok: %s", c23Tail(out, 600))
				return
			}
			if crashed != nil {
				t.Fatalf("C23: the cache crashed the process while executing the plan:\n%s", c23CrashHead(out))
			}
			t.Fatalf("C23 replay failed in the child process:\n%s", c23Tail(out, 12000))
		}
		if s.History != nil {
			loc, _ := c23Zone(s.Zone)
			viol, _ := c23Check(s.History, loc)
			t.Logf("saved history: %d events, %d loads, checker verdict on it: %d violation(s) %s", len(s.History.Events), len(s.History.Loads), len(viol), s.History.Hang)
		}
		s.History, s.Violation = nil, ""
		// the schedule is not owned: re-execute the plan until the failure shows again (bounded)
		reps, budget := 200, 8*time.Second
		if v, err := strconv.Atoi(os.Getenv("VERIF_C23_REPS")); err == nil && v > 0 {
			reps = v
		}
		if v, err := strconv.Atoi(os.Getenv("VERIF_C23_BUDGET_S")); err == nil && v > 0 {
			budget = time.Duration(v) * time.Second
		}
		c23Prop(t, &s, reps, budget)
	}
}
