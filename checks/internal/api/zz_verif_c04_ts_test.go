//go:build verif

package api

// C04 (API part) — tsValues.merge does not depend on merge order or grouping.
//
// Rows as the series cache hands them to the PromQL engine are merged (a) as a left fold, (b) as a left
// fold of a permutation, (c) along a random binary tree; every accumulator starts as a struct copy
// with mergeCount == 0 exactly as promql.go does (`tagV.tsValues = row.tsValues`, then `.merge`), so
// both the deep-copy path (first merge) and the in-place path (later merges) run. The reference is
// computed from the row list with exact rationals and an exact set of 32-bit hashes.

import (
	"encoding/json"
	"math"
	"math/big"
	"math/bits"
	"sort"
	"testing"

	"github.com/hrissan/tdigest"
	"pgregory.net/rapid"

	"github.com/VKCOM/statshouse/internal/data_model"
)

type c04tsHost struct {
	Arg int32   `json:"arg,omitempty"`
	Str string  `json:"str,omitempty"`
	Val float32 `json:"val"`
}

type c04tsRow struct {
	Min     float64      `json:"min"`
	Max     float64      `json:"max"`
	Sum     float64      `json:"sum"`
	Count   float64      `json:"count"`
	SumSq   float64      `json:"sumsq"`
	Card    float64      `json:"card"`
	Uniq    []uint64     `json:"uniq,omitempty"`
	USeed   uint64       `json:"useed,omitempty"`
	UStart  uint64       `json:"ustart,omitempty"`
	UN      uint64       `json:"un,omitempty"`
	Pct     [][2]float64 `json:"pct,omitempty"` // (value, weight) fed to the row's digest; nil = no digest
	MinHost c04tsHost    `json:"min_host"`      // v2 int host
	MaxHost c04tsHost    `json:"max_host"`
	MinHStr c04tsHost    `json:"min_host_str"` // v3 string-or-int host
	MaxHStr c04tsHost    `json:"max_host_str"`
}

type c04tsOrder struct {
	Perm  []int    `json:"perm"`
	Steps [][2]int `json:"steps"`
}

type c04tsCase struct {
	Rows   []c04tsRow    `json:"rows"`
	Orders [2]c04tsOrder `json:"orders"` // [0] fold of a permutation, [1] tree
}

func c04tsIntHash32(key uint64) uint32 {
	key = ^key + (key << 18)
	key ^= bits.RotateLeft64(key, 64-31)
	key *= 21
	key ^= bits.RotateLeft64(key, 64-11)
	key += key << 6
	key ^= bits.RotateLeft64(key, 64-22)
	return uint32(key)
}

func c04tsSplitMix(seed uint64, i uint64) uint64 {
	z := seed + (i+1)*0x9E3779B97F4A7C15
	z = (z ^ (z >> 30)) * 0xBF58476D1CE4E5B9
	z = (z ^ (z >> 27)) * 0x94D049BB133111EB
	return z ^ (z >> 31)
}

func (r *c04tsRow) values() []uint64 {
	out := append([]uint64(nil), r.Uniq...)
	for i := uint64(0); i < r.UN; i++ {
		out = append(out, c04tsSplitMix(r.USeed, r.UStart+i))
	}
	return out
}

func (r *c04tsRow) build() tsValues {
	v := tsValues{min: r.Min, max: r.Max, sum: r.Sum, count: r.Count, sumsquare: r.SumSq, cardinality: r.Card}
	for _, x := range r.values() {
		v.unique.Insert(x)
	}
	if r.Pct != nil {
		v.percentile = tdigest.NewWithCompression(100)
		for _, p := range r.Pct {
			v.percentile.Add(p[0], p[1])
		}
	}
	v.minHost = data_model.ArgMinInt32Float32{ArgMinMaxInt32Float32: data_model.ArgMinMaxInt32Float32{Arg: r.MinHost.Arg, Val: r.MinHost.Val}}
	v.maxHost = data_model.ArgMaxInt32Float32{ArgMinMaxInt32Float32: data_model.ArgMinMaxInt32Float32{Arg: r.MaxHost.Arg, Val: r.MaxHost.Val}}
	v.minHostStr = data_model.ArgMinStringFloat32{ArgMinMaxStringFloat32: data_model.ArgMinMaxStringFloat32{AsString: r.MinHStr.Str, AsInt32: r.MinHStr.Arg, Val: r.MinHStr.Val}}
	v.maxHostStr = data_model.ArgMaxStringFloat32{ArgMinMaxStringFloat32: data_model.ArgMinMaxStringFloat32{AsString: r.MaxHStr.Str, AsInt32: r.MaxHStr.Arg, Val: r.MaxHStr.Val}}
	return v
}

func c04tsRat(f float64) *big.Rat { return new(big.Rat).SetFloat64(f) }

func c04tsClose(got float64, want, scale *big.Rat, exact bool) bool {
	if math.IsNaN(got) || math.IsInf(got, 0) {
		return false
	}
	if exact {
		return c04tsRat(got).Cmp(want) == 0
	}
	d := new(big.Rat).Sub(c04tsRat(got), want)
	d.Abs(d)
	tol := new(big.Rat).Mul(new(big.Rat).Abs(scale), c04tsRat(1e-9))
	tol.Add(tol, c04tsRat(1e-300))
	return d.Cmp(tol) <= 0
}

func c04tsSmallInt(f float64) bool { return f == math.Trunc(f) && math.Abs(f) <= 1<<30 }

func (o *c04tsOrder) valid(n int) bool {
	if len(o.Perm) != n || len(o.Steps) != n-1 {
		return false
	}
	seen := make([]bool, n)
	for _, p := range o.Perm {
		if p < 0 || p >= n || seen[p] {
			return false
		}
		seen[p] = true
	}
	m := n
	for _, s := range o.Steps {
		if s[0] < 0 || s[1] < 0 || s[0] >= m || s[1] >= m || s[0] == s[1] {
			return false
		}
		m--
	}
	return true
}

func c04tsProp(t vpT, c c04tsCase) (bool, []string) {
	cls := map[string]bool{}
	n := len(c.Rows)
	if n < 2 || !c.Orders[0].valid(n) || !c.Orders[1].valid(n) {
		t.Fatalf("bad case")
	}
	// ---- reference
	wMin, wMax := c.Rows[0].Min, c.Rows[0].Max
	sum, sumAbs, count, sumsq, card := new(big.Rat), new(big.Rat), new(big.Rat), new(big.Rat), new(big.Rat)
	hashes := map[uint32]struct{}{}
	exact := true
	var pctWeight float64
	anyPct := false
	minHostVal, maxHostVal := c.Rows[0].MinHost.Val, c.Rows[0].MaxHost.Val
	minHStrVal, maxHStrVal := c.Rows[0].MinHStr.Val, c.Rows[0].MaxHStr.Val
	hosts := map[int32]bool{}
	for i := range c.Rows {
		r := &c.Rows[i]
		if r.Min > r.Max || r.Count < 0 || r.SumSq < 0 {
			t.Fatalf("bad case: row %d", i)
		}
		if r.MinHost.Arg == 0 || r.MaxHost.Arg == 0 || (r.MinHStr.Arg == 0 && r.MinHStr.Str == "") || (r.MaxHStr.Arg == 0 && r.MaxHStr.Str == "") {
			t.Fatalf("bad case: row %d without host", i)
		}
		wMin = math.Min(wMin, r.Min)
		wMax = math.Max(wMax, r.Max)
		sum.Add(sum, c04tsRat(r.Sum))
		sumAbs.Add(sumAbs, c04tsRat(math.Abs(r.Sum)))
		count.Add(count, c04tsRat(r.Count))
		sumsq.Add(sumsq, c04tsRat(r.SumSq))
		card.Add(card, c04tsRat(r.Card))
		if !c04tsSmallInt(r.Sum) || !c04tsSmallInt(r.Count) || !c04tsSmallInt(r.SumSq) || !c04tsSmallInt(r.Card) {
			exact = false
		}
		for _, x := range r.values() {
			hashes[c04tsIntHash32(x)] = struct{}{}
		}
		if r.Pct != nil {
			anyPct = true
			for _, p := range r.Pct {
				pctWeight += p[1]
			}
		}
		minHostVal = float32(math.Min(float64(minHostVal), float64(r.MinHost.Val)))
		maxHostVal = float32(math.Max(float64(maxHostVal), float64(r.MaxHost.Val)))
		minHStrVal = float32(math.Min(float64(minHStrVal), float64(r.MinHStr.Val)))
		maxHStrVal = float32(math.Max(float64(maxHStrVal), float64(r.MaxHStr.Val)))
		hosts[r.MinHost.Arg] = true
	}
	if len(hashes) > 60000 {
		t.Fatalf("bad case: too many unique values for the exact mode")
	}
	if exact {
		cls["exact"] = true
	}
	if len(hashes) > 0 {
		cls["uniques"] = true
	}
	if anyPct {
		cls["percentiles"] = true
	}
	hostOK := func(arg int32, str string, val float32, pick func(r *c04tsRow) c04tsHost) bool {
		for i := range c.Rows {
			h := pick(&c.Rows[i])
			if h.Arg == arg && h.Str == str && h.Val == val {
				return true
			}
		}
		return false
	}

	// ---- the three orders
	left := c04tsOrder{}
	for i := 0; i < n; i++ {
		left.Perm = append(left.Perm, i)
		if i > 0 {
			left.Steps = append(left.Steps, [2]int{0, 1})
		}
	}
	nonIdentity := false
	for k, o := range []*c04tsOrder{&left, &c.Orders[0], &c.Orders[1]} {
		for i, p := range o.Perm {
			if p != i {
				nonIdentity = true
			}
		}
		// rows are built fresh per order: the real rows live in a read-only cache and merge() promises not to
		// modify them; that promise is checked below by comparing the leaves' sketches afterwards
		leaves := make([]tsValues, n)
		sizesBefore := make([]uint64, n)
		for i := range c.Rows {
			leaves[i] = c.Rows[i].build()
			sizesBefore[i] = leaves[i].unique.Size(false)
		}
		work := make([]tsValues, n)
		for i, p := range o.Perm {
			work[i] = leaves[p] // struct copy, mergeCount == 0, shares sketch memory with the "cache"
		}
		for _, s := range o.Steps {
			if s != [2]int{0, 1} {
				nonIdentity = true
			}
			if work[s[0]].mergeCount == 0 {
				cls["copy-path"] = true
			} else {
				cls["in-place-path"] = true
			}
			work[s[0]].merge(work[s[1]])
			work = append(work[:s[1]], work[s[1]+1:]...)
		}
		res := &work[0]
		if res.min != wMin || res.max != wMax {
			t.Fatalf("order %d: min/max %v/%v, want %v/%v", k, res.min, res.max, wMin, wMax)
		}
		if !c04tsClose(res.count, count, count, exact) {
			t.Fatalf("order %d: count %v, want %v", k, res.count, count.FloatString(6))
		}
		if !c04tsClose(res.sum, sum, sumAbs, exact) {
			t.Fatalf("order %d: sum %v, want %v", k, res.sum, sum.FloatString(6))
		}
		if !c04tsClose(res.sumsquare, sumsq, sumsq, exact) {
			t.Fatalf("order %d: sumsquare %v, want %v", k, res.sumsquare, sumsq.FloatString(6))
		}
		if !c04tsClose(res.cardinality, card, card, exact) {
			t.Fatalf("order %d: cardinality %v, want %v", k, res.cardinality, card.FloatString(6))
		}
		if got := res.unique.Size(false); got != uint64(len(hashes)) {
			t.Fatalf("order %d: unique estimate %d, rows hold %d distinct hashes", k, got, len(hashes))
		}
		if anyPct {
			if res.percentile == nil || math.Abs(res.percentile.Count()-pctWeight) > 1e-9*pctWeight {
				t.Fatalf("order %d: digest weight, want %v", k, pctWeight)
			}
		} else if res.percentile != nil {
			t.Fatalf("order %d: digest appeared from nowhere", k)
		}
		// host attributions: the smallest (largest) recorded value wins whatever the order; the host is one
		// that recorded exactly that value
		if res.minHost.Val != minHostVal || !hostOK(res.minHost.Arg, "", res.minHost.Val, func(r *c04tsRow) c04tsHost { return r.MinHost }) {
			t.Fatalf("order %d: min host %+v, smallest recorded value %v", k, res.minHost, minHostVal)
		}
		if res.maxHost.Val != maxHostVal || !hostOK(res.maxHost.Arg, "", res.maxHost.Val, func(r *c04tsRow) c04tsHost { return r.MaxHost }) {
			t.Fatalf("order %d: max host %+v, largest recorded value %v", k, res.maxHost, maxHostVal)
		}
		if res.minHostStr.Val != minHStrVal || !hostOK(res.minHostStr.AsInt32, res.minHostStr.AsString, res.minHostStr.Val, func(r *c04tsRow) c04tsHost { return r.MinHStr }) {
			t.Fatalf("order %d: min host (v3) %+v, smallest recorded value %v", k, res.minHostStr, minHStrVal)
		}
		if res.maxHostStr.Val != maxHStrVal || !hostOK(res.maxHostStr.AsInt32, res.maxHostStr.AsString, res.maxHostStr.Val, func(r *c04tsRow) c04tsHost { return r.MaxHStr }) {
			t.Fatalf("order %d: max host (v3) %+v, largest recorded value %v", k, res.maxHostStr, maxHStrVal)
		}
		// rows in the cache must not have been modified (deep copy on the first merge)
		for i := range leaves {
			if got := leaves[i].unique.Size(false); got != sizesBefore[i] {
				t.Fatalf("order %d: cached row %d was modified by merge: unique %d -> %d", k, i, sizesBefore[i], got)
			}
		}
	}
	if len(hosts) >= 2 {
		cls["multi-host"] = true
	}
	out := make([]string, 0, len(cls))
	for k := range cls {
		out = append(out, k)
	}
	sort.Strings(out)
	return nonIdentity && (len(hosts) >= 2 || len(hashes) > 0), out
}

// ---------- generator ----------

func c04tsGenHost(t *rapid.T, str bool, exactVals bool) c04tsHost {
	h := c04tsHost{}
	if str && rapid.Bool().Draw(t, "hostIsStr") {
		h.Str = rapid.SampledFrom([]string{"ha", "hb", "hc"}).Draw(t, "hostStr")
	} else {
		h.Arg = int32(rapid.IntRange(1, 4).Draw(t, "hostArg"))
	}
	if exactVals {
		h.Val = float32(rapid.IntRange(-5, 20).Draw(t, "hostVal"))
	} else {
		h.Val = rapid.Float32Range(-1e6, 1e6).Draw(t, "hostValF")
	}
	return h
}

func c04tsGen() *rapid.Generator[c04tsCase] {
	return rapid.Custom(func(t *rapid.T) c04tsCase {
		var c c04tsCase
		n := rapid.SampledFrom([]int{2, 2, 3, 3, 4, 5, 8}).Draw(t, "n")
		ints := rapid.IntRange(0, 2).Draw(t, "ints") != 0
		useed := rapid.Uint64().Draw(t, "useed")
		uniq := rapid.IntRange(0, 2).Draw(t, "uniqMode") // 0 none, 1 small explicit, 2 ranges
		pct := rapid.IntRange(0, 3).Draw(t, "pct") == 0
		for i := 0; i < n; i++ {
			var r c04tsRow
			if ints {
				a := float64(rapid.IntRange(-20, 100).Draw(t, "a"))
				b := float64(rapid.IntRange(0, 50).Draw(t, "b"))
				r.Min, r.Max = a, a+b
				r.Count = float64(rapid.IntRange(0, 1000).Draw(t, "count"))
				r.Sum = float64(rapid.IntRange(-100000, 100000).Draw(t, "sum"))
				r.SumSq = float64(rapid.IntRange(0, 1<<29).Draw(t, "sumsq"))
				r.Card = float64(rapid.IntRange(0, 5000).Draw(t, "card"))
			} else {
				a := rapid.Float64Range(-1e6, 1e6).Draw(t, "af")
				b := rapid.Float64Range(0, 1e6).Draw(t, "bf")
				r.Min, r.Max = a, a+b
				r.Count = rapid.Float64Range(0, 1e9).Draw(t, "countf")
				r.Sum = rapid.Float64Range(-1e12, 1e12).Draw(t, "sumf")
				r.SumSq = rapid.Float64Range(0, 1e18).Draw(t, "sumsqf")
				r.Card = rapid.Float64Range(0, 1e6).Draw(t, "cardf")
			}
			switch uniq {
			case 1:
				k := rapid.IntRange(0, 20).Draw(t, "nu")
				for j := 0; j < k; j++ {
					r.Uniq = append(r.Uniq, uint64(rapid.IntRange(0, 40).Draw(t, "u")))
				}
			case 2:
				if rapid.IntRange(0, 3).Draw(t, "hasRange") != 0 {
					r.USeed = useed
					r.UStart = uint64(rapid.IntRange(0, 4000).Draw(t, "ustart"))
					r.UN = uint64(rapid.IntRange(1, 3000).Draw(t, "un"))
				}
			}
			if pct && rapid.IntRange(0, 3).Draw(t, "rowPct") != 0 {
				k := rapid.IntRange(0, 5).Draw(t, "npct")
				r.Pct = [][2]float64{}
				for j := 0; j < k; j++ {
					r.Pct = append(r.Pct, [2]float64{float64(rapid.IntRange(-10, 100).Draw(t, "pv")), float64(rapid.IntRange(1, 10).Draw(t, "pw"))})
				}
			}
			r.MinHost = c04tsGenHost(t, false, ints)
			r.MaxHost = c04tsGenHost(t, false, ints)
			r.MinHStr = c04tsGenHost(t, true, ints)
			r.MaxHStr = c04tsGenHost(t, true, ints)
			c.Rows = append(c.Rows, r)
		}
		for k := 0; k < 2; k++ {
			o := c04tsOrder{Perm: rapid.Permutation(func() []int {
				l := make([]int, n)
				for i := range l {
					l[i] = i
				}
				return l
			}()).Draw(t, "perm")}
			m := n
			for s := 0; s < n-1; s++ {
				if k == 0 {
					o.Steps = append(o.Steps, [2]int{0, 1})
				} else {
					i := rapid.IntRange(0, m-1).Draw(t, "si")
					j := rapid.IntRange(0, m-2).Draw(t, "sj")
					if j >= i {
						j++
					}
					o.Steps = append(o.Steps, [2]int{i, j})
				}
				m--
			}
			c.Orders[k] = o
		}
		return c
	})
}

func TestVerifC04TsValues(t *testing.T) {
	ev := vpNewEv(t, "C04", "tsvalues")
	rapid.Check(t, func(rt *rapid.T) {
		c := c04tsGen().Draw(rt, "case")
		vpRunCase(rt, "C04", "tsvalues", c, func() {
			nt, cls := c04tsProp(rt, c)
			ev.Case(nt, c, cls...)
		})
	})
}

func init() {
	vpReplayers["C04/tsvalues"] = func(t vpT, raw json.RawMessage) {
		var c c04tsCase
		if err := json.Unmarshal(raw, &c); err != nil {
			t.Fatalf("decode: %v", err)
		}
		c04tsProp(t, c)
	}
}
