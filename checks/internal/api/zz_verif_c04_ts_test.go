//go:build verif

package api

// C04 (API part) — tsValues.merge does not depend on merge order or grouping.
//
// A pool of shared rows is built ONCE per case the way the series cache holds them (unique sketches
// and digests decoded from their ClickHouse wire form, the cache owns them and they are read-only).
// The pool is then folded REPEATEDLY (left fold, then 2–3 further rounds: folds of permutations and
// random binary trees) over the same shared objects, with the protocol of promql.go: the accumulator
// is a struct copy of the first row (mergeCount == 0, sharing sketch/digest memory with the cache),
// every further row is passed to merge() by value. Asserted: (a) every round gives the same
// count/min/max/sum/sumsquare/cardinality/unique estimate as the reference computed from the row
// definitions (exact rationals, exact set of 32-bit hashes); (b) after every round every shared row is
// bit-for-bit what it was (scalars, hosts, marshalled sketch bytes, digest centroids) — immutability of
// cached rows is what makes order independence possible at all.

import (
	"bytes"
	"encoding/json"
	"fmt"
	"math"
	"math/big"
	"math/bits"
	"sort"
	"testing"

	"github.com/hrissan/tdigest"
	"pgregory.net/rapid"

	"github.com/VKCOM/statshouse/internal/data_model"
)

type c04tsHost struct {
	Arg int32   `json:"arg,omitempty"`
	Str string  `json:"str,omitempty"`
	Val float32 `json:"val"`
}

type c04tsRow struct {
	Min     float64      `json:"min"`
	Max     float64      `json:"max"`
	Sum     float64      `json:"sum"`
	Count   float64      `json:"count"`
	SumSq   float64      `json:"sumsq"`
	Card    float64      `json:"card"`
	Uniq    []uint64     `json:"uniq,omitempty"`
	USeed   uint64       `json:"useed,omitempty"`
	UStart  uint64       `json:"ustart,omitempty"`
	UN      uint64       `json:"un,omitempty"`
	Pct     [][2]float64 `json:"pct,omitempty"` // (value, weight) of the row's digest centroids (used when HasPct)
	MinHost c04tsHost    `json:"min_host"`      // v2 int host
	MaxHost c04tsHost    `json:"max_host"`
	MinHStr c04tsHost    `json:"min_host_str"` // v3 string-or-int host
	MaxHStr c04tsHost    `json:"max_host_str"`
}

type c04tsOrder struct {
	Perm  []int    `json:"perm"`
	Steps [][2]int `json:"steps"`
}

type c04tsCase struct {
	Rows    []c04tsRow   `json:"rows"`
	HasUniq bool         `json:"has_uniq"` // the query selected the unique column: every row holds a decoded sketch (maybe empty)
	HasPct  bool         `json:"has_pct"`  // the query selected the percentile column: every row holds a decoded digest (maybe empty)
	Rounds  []c04tsOrder `json:"rounds"`   // evaluated after an identity left fold, over the same shared rows
}

func c04tsIntHash32(key uint64) uint32 {
	key = ^key + (key << 18)
	key ^= bits.RotateLeft64(key, 64-31)
	key *= 21
	key ^= bits.RotateLeft64(key, 64-11)
	key += key << 6
	key ^= bits.RotateLeft64(key, 64-22)
	return uint32(key)
}

func c04tsSplitMix(seed uint64, i uint64) uint64 {
	z := seed + (i+1)*0x9E3779B97F4A7C15
	z = (z ^ (z >> 30)) * 0xBF58476D1CE4E5B9
	z = (z ^ (z >> 27)) * 0x94D049BB133111EB
	return z ^ (z >> 31)
}

func (r *c04tsRow) values() []uint64 {
	out := append([]uint64(nil), r.Uniq...)
	for i := uint64(0); i < r.UN; i++ {
		out = append(out, c04tsSplitMix(r.USeed, r.UStart+i))
	}
	return out
}

// build creates the row as the series cache holds it: the sketch and the digest are decoded from their
// ClickHouse wire form (chutil column readers: ChUnique.ReadFrom, a compression-256 digest fed with the
// float32 centroids and normalized); columns that the query did not select stay zero.
func (r *c04tsRow) build(t vpT, hasUniq, hasPct bool) tsValues {
	v := tsValues{min: r.Min, max: r.Max, sum: r.Sum, count: r.Count, sumsquare: r.SumSq, cardinality: r.Card}
	if hasUniq {
		var tmp data_model.ChUnique
		for _, x := range r.values() {
			tmp.Insert(x)
		}
		if err := v.unique.ReadFrom(bytes.NewReader(tmp.MarshallAppend(nil))); err != nil {
			t.Fatalf("cannot decode own sketch: %v", err)
		}
	}
	if hasPct {
		v.percentile = tdigest.NewWithCompression(256)
		for _, p := range r.Pct {
			v.percentile.AddCentroid(tdigest.Centroid{Mean: float64(float32(p[0])), Weight: float64(float32(p[1]))})
		}
		v.percentile.Normalize()
	}
	v.minHost = data_model.ArgMinInt32Float32{ArgMinMaxInt32Float32: data_model.ArgMinMaxInt32Float32{Arg: r.MinHost.Arg, Val: r.MinHost.Val}}
	v.maxHost = data_model.ArgMaxInt32Float32{ArgMinMaxInt32Float32: data_model.ArgMinMaxInt32Float32{Arg: r.MaxHost.Arg, Val: r.MaxHost.Val}}
	v.minHostStr = data_model.ArgMinStringFloat32{ArgMinMaxStringFloat32: data_model.ArgMinMaxStringFloat32{AsString: r.MinHStr.Str, AsInt32: r.MinHStr.Arg, Val: r.MinHStr.Val}}
	v.maxHostStr = data_model.ArgMaxStringFloat32{ArgMinMaxStringFloat32: data_model.ArgMinMaxStringFloat32{AsString: r.MaxHStr.Str, AsInt32: r.MaxHStr.Arg, Val: r.MaxHStr.Val}}
	return v
}

// c04tsSnap is a deep snapshot of a shared row.
type c04tsSnap struct {
	scalars   [6]float64
	mergeCnt  int
	hosts     string
	sketch    []byte
	items     int
	size      uint64
	hasDigest bool
	centroids []tdigest.Centroid
	weight    float64
}

func c04tsSnapshot(v *tsValues) c04tsSnap {
	sn := c04tsSnap{
		scalars:  [6]float64{v.min, v.max, v.sum, v.count, v.sumsquare, v.cardinality},
		mergeCnt: v.mergeCount,
		hosts:    fmt.Sprintf("%+v|%+v|%+v|%+v", v.minHost, v.maxHost, v.minHostStr, v.maxHostStr),
		sketch:   v.unique.MarshallAppend(nil),
		items:    v.unique.ItemsCount(),
		size:     v.unique.Size(false),
	}
	if v.percentile != nil {
		sn.hasDigest = true
		sn.centroids = append([]tdigest.Centroid(nil), v.percentile.Centroids()...)
		sn.weight = v.percentile.Count()
	}
	return sn
}

func (a *c04tsSnap) diff(b *c04tsSnap) string {
	switch {
	case a.scalars != b.scalars:
		return fmt.Sprintf("scalars %v -> %v", a.scalars, b.scalars)
	case a.mergeCnt != b.mergeCnt:
		return fmt.Sprintf("mergeCount %d -> %d", a.mergeCnt, b.mergeCnt)
	case a.hosts != b.hosts:
		return fmt.Sprintf("hosts %s -> %s", a.hosts, b.hosts)
	case a.items != b.items || a.size != b.size:
		return fmt.Sprintf("unique items/size %d/%d -> %d/%d", a.items, a.size, b.items, b.size)
	case !bytes.Equal(a.sketch, b.sketch):
		return fmt.Sprintf("unique sketch memory changed: marshalled %d bytes (%d items declared) -> %d bytes (%d items declared)", len(a.sketch), a.items, len(b.sketch), b.items)
	case a.hasDigest != b.hasDigest:
		return "digest pointer appeared/disappeared"
	case a.weight != b.weight || len(a.centroids) != len(b.centroids):
		return fmt.Sprintf("digest %d centroids weight %v -> %d centroids weight %v", len(a.centroids), a.weight, len(b.centroids), b.weight)
	}
	for i := range a.centroids {
		if a.centroids[i] != b.centroids[i] {
			return fmt.Sprintf("digest centroid %d %v -> %v", i, a.centroids[i], b.centroids[i])
		}
	}
	return ""
}

func c04tsRat(f float64) *big.Rat { return new(big.Rat).SetFloat64(f) }

func c04tsClose(got float64, want, scale *big.Rat, exact bool) bool {
	if math.IsNaN(got) || math.IsInf(got, 0) {
		return false
	}
	if exact {
		return c04tsRat(got).Cmp(want) == 0
	}
	d := new(big.Rat).Sub(c04tsRat(got), want)
	d.Abs(d)
	tol := new(big.Rat).Mul(new(big.Rat).Abs(scale), c04tsRat(1e-9))
	tol.Add(tol, c04tsRat(1e-300))
	return d.Cmp(tol) <= 0
}

func c04tsSmallInt(f float64) bool { return f == math.Trunc(f) && math.Abs(f) <= 1<<30 }

func (o *c04tsOrder) valid(n int) bool {
	if len(o.Perm) != n || len(o.Steps) != n-1 {
		return false
	}
	seen := make([]bool, n)
	for _, p := range o.Perm {
		if p < 0 || p >= n || seen[p] {
			return false
		}
		seen[p] = true
	}
	m := n
	for _, s := range o.Steps {
		if s[0] < 0 || s[1] < 0 || s[0] >= m || s[1] >= m || s[0] == s[1] {
			return false
		}
		m--
	}
	return true
}

func c04tsProp(t vpT, c c04tsCase) (bool, []string) {
	cls := map[string]bool{}
	n := len(c.Rows)
	if n < 2 || len(c.Rounds) < 1 || len(c.Rounds) > 4 {
		t.Fatalf("bad case")
	}
	for k := range c.Rounds {
		if !c.Rounds[k].valid(n) {
			t.Fatalf("bad case: round %d", k)
		}
	}
	// ---- reference
	wMin, wMax := c.Rows[0].Min, c.Rows[0].Max
	sum, sumAbs, count, sumsq, card := new(big.Rat), new(big.Rat), new(big.Rat), new(big.Rat), new(big.Rat)
	hashes := map[uint32]struct{}{}
	exact := true
	var pctWeight float64
	anyPct := false
	minHostVal, maxHostVal := c.Rows[0].MinHost.Val, c.Rows[0].MaxHost.Val
	minHStrVal, maxHStrVal := c.Rows[0].MinHStr.Val, c.Rows[0].MaxHStr.Val
	hosts := map[int32]bool{}
	for i := range c.Rows {
		r := &c.Rows[i]
		if r.Min > r.Max || r.Count < 0 || r.SumSq < 0 {
			t.Fatalf("bad case: row %d", i)
		}
		if r.MinHost.Arg == 0 || r.MaxHost.Arg == 0 || (r.MinHStr.Arg == 0 && r.MinHStr.Str == "") || (r.MaxHStr.Arg == 0 && r.MaxHStr.Str == "") {
			t.Fatalf("bad case: row %d without host", i)
		}
		wMin = math.Min(wMin, r.Min)
		wMax = math.Max(wMax, r.Max)
		sum.Add(sum, c04tsRat(r.Sum))
		sumAbs.Add(sumAbs, c04tsRat(math.Abs(r.Sum)))
		count.Add(count, c04tsRat(r.Count))
		sumsq.Add(sumsq, c04tsRat(r.SumSq))
		card.Add(card, c04tsRat(r.Card))
		if !c04tsSmallInt(r.Sum) || !c04tsSmallInt(r.Count) || !c04tsSmallInt(r.SumSq) || !c04tsSmallInt(r.Card) {
			exact = false
		}
		if c.HasUniq {
			for _, x := range r.values() {
				hashes[c04tsIntHash32(x)] = struct{}{}
			}
		}
		if c.HasPct {
			anyPct = true
			for _, p := range r.Pct {
				pctWeight += float64(float32(p[1]))
			}
		}
		minHostVal = float32(math.Min(float64(minHostVal), float64(r.MinHost.Val)))
		maxHostVal = float32(math.Max(float64(maxHostVal), float64(r.MaxHost.Val)))
		minHStrVal = float32(math.Min(float64(minHStrVal), float64(r.MinHStr.Val)))
		maxHStrVal = float32(math.Max(float64(maxHStrVal), float64(r.MaxHStr.Val)))
		hosts[r.MinHost.Arg] = true
	}
	if len(hashes) > 60000 {
		t.Fatalf("bad case: too many unique values for the exact mode")
	}
	if exact {
		cls["exact"] = true
	}
	if len(hashes) > 0 {
		cls["uniques"] = true
	}
	if anyPct {
		cls["percentiles"] = true
	}
	hostOK := func(arg int32, str string, val float32, pick func(r *c04tsRow) c04tsHost) bool {
		for i := range c.Rows {
			h := pick(&c.Rows[i])
			if h.Arg == arg && h.Str == str && h.Val == val {
				return true
			}
		}
		return false
	}

	// ---- the shared pool, built once
	pool := make([]tsValues, n)
	snaps := make([]c04tsSnap, n)
	rowUniq := make([]int, n)
	for i := range c.Rows {
		pool[i] = c.Rows[i].build(t, c.HasUniq, c.HasPct)
		snaps[i] = c04tsSnapshot(&pool[i])
		rowUniq[i] = pool[i].unique.ItemsCount()
		if c.HasUniq && rowUniq[i] == 0 {
			cls["row-with-empty-uniques"] = true
		}
		if c.HasPct && len(c.Rows[i].Pct) == 0 {
			cls["row-with-empty-digest"] = true
		}
	}

	// ---- rounds: identity left fold first, then the generated ones, all over the same shared rows
	left := c04tsOrder{}
	for i := 0; i < n; i++ {
		left.Perm = append(left.Perm, i)
		if i > 0 {
			left.Steps = append(left.Steps, [2]int{0, 1})
		}
	}
	rounds := []*c04tsOrder{&left}
	for k := range c.Rounds {
		rounds = append(rounds, &c.Rounds[k])
	}
	nonIdentity := false
	for k, o := range rounds {
		for i, p := range o.Perm {
			if p != i {
				nonIdentity = true
			}
		}
		work := make([]tsValues, n)
		// per accumulator: 0 = nothing special, 1 = started from a row with uniques and the first row merged in
		// had none (the copy on first merge is the only thing that separates it from cache memory)
		armed := make([]int, n)
		leafUniq := make([]int, n) // unique items of the accumulator when it still is a plain copy of a cached row
		for i, p := range o.Perm {
			work[i] = pool[p] // `tagV.tsValues = row.tsValues`: struct copy, mergeCount == 0, shares memory with the cache
			leafUniq[i] = rowUniq[p]
		}
		for _, s := range o.Steps {
			if s != [2]int{0, 1} {
				nonIdentity = true
			}
			dst, src := &work[s[0]], work[s[1]]
			if dst.mergeCount == 0 {
				cls["copy-path"] = true
				if c.HasUniq && leafUniq[s[0]] > 0 && src.unique.ItemsCount() == 0 {
					armed[s[0]] = 1
				}
			} else {
				cls["in-place-path"] = true
				if armed[s[0]] == 1 && src.unique.ItemsCount() > 0 {
					cls["first merged row has no uniques, later row has"] = true
				}
			}
			dst.merge(src) // rhs by value, as `tagV.tsValues.merge(data[i][j].tsValues)`
			work = append(work[:s[1]], work[s[1]+1:]...)
			armed = append(armed[:s[1]], armed[s[1]+1:]...)
			leafUniq = append(leafUniq[:s[1]], leafUniq[s[1]+1:]...)
		}
		res := &work[0]
		if res.min != wMin || res.max != wMax {
			t.Fatalf("round %d: min/max %v/%v, want %v/%v", k, res.min, res.max, wMin, wMax)
		}
		if !c04tsClose(res.count, count, count, exact) {
			t.Fatalf("round %d: count %v, want %v", k, res.count, count.FloatString(6))
		}
		if !c04tsClose(res.sum, sum, sumAbs, exact) {
			t.Fatalf("round %d: sum %v, want %v", k, res.sum, sum.FloatString(6))
		}
		if !c04tsClose(res.sumsquare, sumsq, sumsq, exact) {
			t.Fatalf("round %d: sumsquare %v, want %v", k, res.sumsquare, sumsq.FloatString(6))
		}
		if !c04tsClose(res.cardinality, card, card, exact) {
			t.Fatalf("round %d: cardinality %v, want %v", k, res.cardinality, card.FloatString(6))
		}
		if got := res.unique.Size(false); got != uint64(len(hashes)) {
			t.Fatalf("round %d (%+v): unique estimate %d, rows hold %d distinct hashes", k, *o, got, len(hashes))
		}
		if anyPct {
			if res.percentile == nil || math.Abs(res.percentile.Count()-pctWeight) > 1e-9*pctWeight {
				t.Fatalf("round %d: digest weight, want %v", k, pctWeight)
			}
		} else if res.percentile != nil {
			t.Fatalf("round %d: digest appeared from nowhere", k)
		}
		if res.minHost.Val != minHostVal || !hostOK(res.minHost.Arg, "", res.minHost.Val, func(r *c04tsRow) c04tsHost { return r.MinHost }) {
			t.Fatalf("round %d: min host %+v, smallest recorded value %v", k, res.minHost, minHostVal)
		}
		if res.maxHost.Val != maxHostVal || !hostOK(res.maxHost.Arg, "", res.maxHost.Val, func(r *c04tsRow) c04tsHost { return r.MaxHost }) {
			t.Fatalf("round %d: max host %+v, largest recorded value %v", k, res.maxHost, maxHostVal)
		}
		if res.minHostStr.Val != minHStrVal || !hostOK(res.minHostStr.AsInt32, res.minHostStr.AsString, res.minHostStr.Val, func(r *c04tsRow) c04tsHost { return r.MinHStr }) {
			t.Fatalf("round %d: min host (v3) %+v, smallest recorded value %v", k, res.minHostStr, minHStrVal)
		}
		if res.maxHostStr.Val != maxHStrVal || !hostOK(res.maxHostStr.AsInt32, res.maxHostStr.AsString, res.maxHostStr.Val, func(r *c04tsRow) c04tsHost { return r.MaxHStr }) {
			t.Fatalf("round %d: max host (v3) %+v, largest recorded value %v", k, res.maxHostStr, maxHStrVal)
		}
		// (b) the cache is read-only: every shared row must be exactly what it was before the first fold
		for i := range pool {
			now := c04tsSnapshot(&pool[i])
			if d := snaps[i].diff(&now); d != "" {
				t.Fatalf("round %d (%+v): shared (cached) row %d was modified by merge: %s", k, *o, i, d)
			}
		}
	}
	if len(rounds) >= 3 {
		cls["rounds>=3"] = true
	}
	if len(hosts) >= 2 {
		cls["multi-host"] = true
	}
	out := make([]string, 0, len(cls))
	for k := range cls {
		out = append(out, k)
	}
	sort.Strings(out)
	_ = nonIdentity
	return len(hosts) >= 2 || len(hashes) > 0, out
}

// ---------- generator ----------

func c04tsGenHost(t *rapid.T, str bool, exactVals bool) c04tsHost {
	h := c04tsHost{}
	if str && rapid.Bool().Draw(t, "hostIsStr") {
		h.Str = rapid.SampledFrom([]string{"ha", "hb", "hc"}).Draw(t, "hostStr")
	} else {
		h.Arg = int32(rapid.IntRange(1, 4).Draw(t, "hostArg"))
	}
	if exactVals {
		h.Val = float32(rapid.IntRange(-5, 20).Draw(t, "hostVal"))
	} else {
		h.Val = rapid.Float32Range(-1e6, 1e6).Draw(t, "hostValF")
	}
	return h
}

func c04tsGen() *rapid.Generator[c04tsCase] {
	return rapid.Custom(func(t *rapid.T) c04tsCase {
		var c c04tsCase
		n := rapid.SampledFrom([]int{2, 3, 3, 3, 4, 4, 5, 8}).Draw(t, "n")
		ints := rapid.IntRange(0, 2).Draw(t, "ints") != 0
		useed := rapid.Uint64().Draw(t, "useed")
		uniq := rapid.SampledFrom([]int{0, 1, 1, 1, 2, 2}).Draw(t, "uniqMode") // 0 column not selected, 1 small explicit, 2 ranges
		c.HasUniq = uniq != 0
		c.HasPct = rapid.IntRange(0, 3).Draw(t, "pct") == 0
		pct := c.HasPct
		emptyRate := rapid.SampledFrom([]int{2, 2, 3, 5}).Draw(t, "emptyRate") // one row in emptyRate has an empty sketch
		for i := 0; i < n; i++ {
			var r c04tsRow
			if ints {
				a := float64(rapid.IntRange(-20, 100).Draw(t, "a"))
				b := float64(rapid.IntRange(0, 50).Draw(t, "b"))
				r.Min, r.Max = a, a+b
				r.Count = float64(rapid.IntRange(0, 1000).Draw(t, "count"))
				r.Sum = float64(rapid.IntRange(-100000, 100000).Draw(t, "sum"))
				r.SumSq = float64(rapid.IntRange(0, 1<<29).Draw(t, "sumsq"))
				r.Card = float64(rapid.IntRange(0, 5000).Draw(t, "card"))
			} else {
				a := rapid.Float64Range(-1e6, 1e6).Draw(t, "af")
				b := rapid.Float64Range(0, 1e6).Draw(t, "bf")
				r.Min, r.Max = a, a+b
				r.Count = rapid.Float64Range(0, 1e9).Draw(t, "countf")
				r.Sum = rapid.Float64Range(-1e12, 1e12).Draw(t, "sumf")
				r.SumSq = rapid.Float64Range(0, 1e18).Draw(t, "sumsqf")
				r.Card = rapid.Float64Range(0, 1e6).Draw(t, "cardf")
			}
			u := uniq
			if u != 0 && rapid.IntRange(1, emptyRate).Draw(t, "emptyUniq") == 1 {
				u = 0 // decoded, but empty sketch
			}
			switch u {
			case 1:
				k := rapid.IntRange(1, 20).Draw(t, "nu")
				for j := 0; j < k; j++ {
					r.Uniq = append(r.Uniq, uint64(rapid.IntRange(0, 40).Draw(t, "u")))
				}
			case 2:
				if rapid.IntRange(0, 3).Draw(t, "hasRange") != 0 {
					r.USeed = useed
					r.UStart = uint64(rapid.IntRange(0, 4000).Draw(t, "ustart"))
					r.UN = uint64(rapid.IntRange(1, 3000).Draw(t, "un"))
				}
			}
			if pct && rapid.IntRange(0, 2).Draw(t, "rowPct") != 0 {
				k := rapid.IntRange(0, 5).Draw(t, "npct")
				for j := 0; j < k; j++ {
					r.Pct = append(r.Pct, [2]float64{float64(rapid.IntRange(-10, 100).Draw(t, "pv")), float64(rapid.IntRange(1, 10).Draw(t, "pw"))})
				}
			}
			r.MinHost = c04tsGenHost(t, false, ints)
			r.MaxHost = c04tsGenHost(t, false, ints)
			r.MinHStr = c04tsGenHost(t, true, ints)
			r.MaxHStr = c04tsGenHost(t, true, ints)
			c.Rows = append(c.Rows, r)
		}
		iota := make([]int, n)
		for i := range iota {
			iota[i] = i
		}
		nr := rapid.IntRange(2, 3).Draw(t, "nRounds")
		for k := 0; k < nr; k++ {
			var o c04tsOrder
			mode := rapid.IntRange(0, 3).Draw(t, "roundMode") // 0 identity again, 1-2 fold of a permutation, 3 tree
			if mode == 0 {
				o.Perm = append([]int(nil), iota...)
			} else {
				o.Perm = rapid.Permutation(iota).Draw(t, "perm")
			}
			m := n
			for s := 0; s < n-1; s++ {
				if mode != 3 {
					o.Steps = append(o.Steps, [2]int{0, 1})
				} else {
					i := rapid.IntRange(0, m-1).Draw(t, "si")
					j := rapid.IntRange(0, m-2).Draw(t, "sj")
					if j >= i {
						j++
					}
					o.Steps = append(o.Steps, [2]int{i, j})
				}
				m--
			}
			c.Rounds = append(c.Rounds, o)
		}
		return c
	})
}

func TestVerifC04TsValues(t *testing.T) {
	ev := vpNewEv(t, "C04", "tsvalues")
	rapid.Check(t, func(rt *rapid.T) {
		c := c04tsGen().Draw(rt, "case")
		vpRunCase(rt, "C04", "tsvalues", c, func() {
			nt, cls := c04tsProp(rt, c)
			ev.Case(nt, c, cls...)
		})
	})
}

func init() {
	vpReplayers["C04/tsvalues"] = func(t vpT, raw json.RawMessage) {
		var c c04tsCase
		if err := json.Unmarshal(raw, &c); err != nil {
			t.Fatalf("decode: %v", err)
		}
		c04tsProp(t, c)
	}
}
