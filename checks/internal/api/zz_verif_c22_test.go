//go:build verif

package api

import (
	"encoding/json"
	"testing"
	"time"

	"pgregory.net/rapid"
)

// ---------- C22 (api half): calcUTCOffset / roundTime / mathDiv / shiftTimestamp ----------
//
// Validity predicates written from the meaning of the "utc offset": rounding a UNIX time with it yields the start of the
// local day for daily steps and the start of the local week (configured first week day) for weekly steps.

type c22aCase struct {
	Zone      string `json:"zone,omitempty"`
	ZoneOff   int    `json:"zone_off"`
	WeekStart int    `json:"week_start"`
	T         int64  `json:"t"`
	Step      int64  `json:"step"`
	Months    int    `json:"months"`
}

var c22aZones = []string{"UTC", "Europe/Moscow", "America/New_York", "Europe/Berlin", "Asia/Kolkata", "Asia/Kathmandu",
	"Australia/Lord_Howe", "Pacific/Chatham", "America/St_Johns", "Asia/Tokyo", "America/Los_Angeles"}

func c22aTZ() bool {
	_, err := time.LoadLocation("Europe/Moscow")
	return err == nil
}

func c22aProp(t vpT, c c22aCase) (nontrivial bool, classes []string) {
	var loc *time.Location
	if c.Zone != "" {
		var err error
		if loc, err = time.LoadLocation(c.Zone); err != nil {
			return false, []string{"zone-unavailable"}
		}
		classes = append(classes, "named-zone")
	} else {
		loc = time.FixedZone("vp", c.ZoneOff)
	}
	off := calcUTCOffset(loc, time.Weekday(c.WeekStart))
	if off != 0 {
		classes = append(classes, "utc-offset-nonzero")
	}
	if off < 0 {
		classes = append(classes, "utc-offset-negative")
	}
	// mathDiv is floor division
	if c.Step > 0 {
		q := mathDiv(c.T, c.Step)
		if r := c.T - q*c.Step; r < 0 || r >= c.Step {
			t.Fatalf("mathDiv(%d,%d)=%d is not the floor quotient", c.T, c.Step, q)
		}
		r := roundTime(c.T, c.Step, off)
		if !(r <= c.T && c.T < r+c.Step) {
			t.Fatalf("roundTime(%d,%d,%d)=%d does not bracket the input", c.T, c.Step, off, r)
		}
		lt := time.Unix(r, 0).In(loc)
		_, zoneAtEpoch := time.Unix(0, 0).In(loc).Zone()
		_, zoneAtR := lt.Zone()
		if zoneAtEpoch == zoneAtR { // the offset is fixed at start-up from the zone's offset at the epoch
			h, m, s := lt.Clock()
			sinceMidnight := int64(h*3600 + m*60 + s)
			switch {
			case c.Step == _7d:
				if sinceMidnight != 0 || int(lt.Weekday()) != c.WeekStart {
					t.Fatalf("weekly rounding of %d gives %v, want midnight of week day %d (zone %v, utc offset %d)", c.T, lt, c.WeekStart, loc, off)
				}
				classes = append(classes, "weekly")
			case _24h%c.Step == 0:
				if sinceMidnight%c.Step != 0 {
					t.Fatalf("rounding of %d to %d gives local time %v, not a multiple of the step since midnight (utc offset %d)", c.T, c.Step, lt, off)
				}
				classes = append(classes, "divides-day")
			}
		} else {
			classes = append(classes, "zone-offset-differs-from-epoch")
		}
	}
	// shiftTimestamp: plain addition, except calendar months for the monthly step
	if got := shiftTimestamp(c.T, 60, int64(c.Months)*60, loc); got != c.T+int64(c.Months)*60 {
		t.Fatalf("shiftTimestamp non-monthly: %d", got)
	}
	lt := time.Unix(c.T, 0).In(loc)
	ms := time.Date(lt.Year(), lt.Month(), 1, 0, 0, 0, 0, loc)
	want := time.Date(lt.Year(), lt.Month()+time.Month(c.Months), 1, 0, 0, 0, 0, loc).Unix()
	if h, m, s := ms.Clock(); h != 0 || m != 0 || s != 0 || ms.Day() != 1 {
		return off != 0, append(classes, "month-start-in-dst-gap") // local midnight does not exist: shift semantics undefined
	}
	if h, m, s := time.Unix(want, 0).In(loc).Clock(); h != 0 || m != 0 || s != 0 {
		return off != 0, append(classes, "month-start-in-dst-gap")
	}
	if got := shiftTimestamp(ms.Unix(), _1M, int64(c.Months)*_1M, loc); got != want {
		t.Fatalf("shiftTimestamp(%v, 1M, %d months) = %v, want %v", ms, c.Months, time.Unix(got, 0).In(loc), time.Unix(want, 0).In(loc))
	}
	return off != 0, classes
}

func c22aGen() *rapid.Generator[c22aCase] {
	tz := c22aTZ()
	steps := []int64{1, 5, 15, 60, 300, 900, 3600, 4 * 3600, 86400, 7 * 86400}
	return rapid.Custom(func(t *rapid.T) c22aCase {
		var c c22aCase
		if tz && rapid.IntRange(0, 2).Draw(t, "named") == 0 {
			c.Zone = rapid.SampledFrom(c22aZones).Draw(t, "zone")
		} else if rapid.Bool().Draw(t, "quarter") {
			c.ZoneOff = rapid.IntRange(-14*4, 14*4).Draw(t, "zone15") * 900
		} else {
			c.ZoneOff = rapid.IntRange(-14*3600, 14*3600).Draw(t, "zonesec")
		}
		c.WeekStart = rapid.IntRange(0, 6).Draw(t, "weekstart")
		if rapid.IntRange(0, 4).Draw(t, "neg") == 0 {
			c.T = rapid.Int64Range(-2_000_000_000, 1_000_000).Draw(t, "t")
		} else {
			c.T = rapid.Int64Range(0, 4_000_000_000).Draw(t, "t")
		}
		if rapid.IntRange(0, 4).Draw(t, "oddstep") == 0 {
			c.Step = rapid.Int64Range(1, 1_000_000).Draw(t, "step")
		} else {
			c.Step = rapid.SampledFrom(steps).Draw(t, "step")
		}
		c.Months = rapid.IntRange(-30, 30).Draw(t, "months")
		return c
	})
}

func TestVerifC22UTCOffset(t *testing.T) {
	ev := vpNewEv(t, "C22", "utcoffset")
	rapid.Check(t, func(rt *rapid.T) {
		c := c22aGen().Draw(rt, "case")
		vpRunCase(rt, "C22", "utcoffset", c, func() {
			nt, cls := c22aProp(rt, c)
			ev.Case(nt, c, cls...)
		})
	})
}

func init() {
	vpReplayers["C22/utcoffset"] = func(t vpT, raw json.RawMessage) {
		var c c22aCase
		if err := json.Unmarshal(raw, &c); err != nil {
			t.Fatalf("decode: %v", err)
		}
		c22aProp(t, c)
	}
}
