//go:build verif

package api

import (
	"crypto/ed25519"
	"crypto/sha256"
	"encoding/base64"
	"encoding/binary"
	"encoding/hex"
	"encoding/json"
	"fmt"
	"strings"
	"testing"
	"time"

	"github.com/VKCOM/statshouse/internal/format"
	"github.com/VKCOM/statshouse/internal/vkgo/vkuth"
	"pgregory.net/rapid"
)

// ---------- C30 (policy part): what a token's bits allow in the API ----------
//
// A case is a list of *grants* (admin, default view/edit, metric / prefix / namespace rights), decoy
// bits that carry no or a foreign application prefix, protected prefixes and a pair of metric
// descriptions. The grants are encoded as vkuth bits ("<app>:view_metric.<name>", ':' inside a name
// written '@', namespaces as view_namespace.<ns>), put into a properly signed token and sent through
// the real parseAccessToken; the resulting accessInfo is asked to view every name of a small universe
// and to apply the edit. The reference decides from the grants, never from the bits:
//   non-admin view(name)  <=> not remote-config  and  (metric grant == name or prefix/namespace grant
//                             is a prefix of name or (default grant and name not protected))
//   non-admin edit(old,new) allowed <=> neither name remote-config, edit right on both names, and none
//                             of: weight changed other than 0->1, presort, presort-only, sharding
//                             fields, host/sum-square skips, raw-ness of any tag changed
//   admin edit            <=> always (the statement restricts non-admins only; admin view is not asserted)
// Not asserted: a rename whose two names are covered by rights of different kinds (metric bit for one,
// prefix for the other: the code wants the same kind for both, the statement says "rights on both");
// a raw kind replaced by another raw kind (raw-ness unchanged).
// Degenerate bits (empty, ":" or blank name after the dot) are generated too. The reference stays literal:
// a namespace bit for namespace v covers exactly the names that start with v+":" -- for an empty v that
// is no legal metric name, so an empty namespace bit grants nothing; a metric bit with an empty or blank
// name equals no legal name. An EMPTY PREFIX bit is literally a prefix of every name: decisions that
// hinge on such a bit alone are generated but not asserted.
// Tokens that must not authenticate (expired, signed by an unconfigured key) must yield an error.

type c30Grant struct {
	Kind string `json:"kind"` // admin developer view_default edit_default view_metric edit_metric view_prefix edit_prefix view_namespace edit_namespace
	Val  string `json:"val,omitempty"`
}

type c30Metric struct {
	Name       string    `json:"name"`
	Weight     float64   `json:"weight"`
	PreKeyFrom uint32    `json:"pre_key_from"`
	PreKeyOnly bool      `json:"pre_key_only"`
	Skips      [3]bool   `json:"skips"`
	Strategy   string    `json:"strategy"`
	ShardNum   uint32    `json:"shard_num"`
	Fixed      [3]uint32 `json:"fixed"`
	Raw        []string  `json:"raw"` // raw kind per tag
	Descr      string    `json:"descr"`
	Resolution int       `json:"resolution"`
}

type c30Pol struct {
	Seed      uint64     `json:"seed"`
	App       string     `json:"app"`
	Grants    []c30Grant `json:"grants"`
	Decoys    []string   `json:"decoys"` // full bit strings that must grant nothing
	Protected []string   `json:"protected"`
	Old       c30Metric  `json:"old"`
	New       c30Metric  `json:"new"`
	Create    bool       `json:"create"`    // handler calls CanEditMetric(true, m, m) on create
	BadToken  int        `json:"bad_token"` // 0 valid, 1 expired, 2 signed by a key that is not configured
}

var c30Names = []string{
	"foo", "foo_bar", "foo_baz", "bar", "barn", "__priv_x", "ns:foo", "ns:foo_bar", "ns2:m", "nsx", "other",
	format.StatshouseAgentRemoteConfigMetric, format.StatshouseJournalDump, format.StatshouseAggregatorRemoteConfigMetric, format.StatshouseAPIRemoteConfig,
}
var c30Prefixes = []string{"foo", "foo_", "ba", "bar", "ns:fo", "ns:", "__", "statshouse_", "o"}
var c30Namespaces = []string{"ns", "ns2", "n"}
var c30Protected = []string{"foo_", "__", "ns:", "b", "statshouse_"}

func c30Remote(name string) bool { // the four remote-config metrics named by the statement's code anchor
	switch name {
	case "statshouse_agent_remote_config", "statshouse_journal_dump", "statshouse_aggregator_remote_config", "statshouse_api_remote_config":
		return true
	}
	return false
}

type c30Ref struct {
	admin                  bool
	viewDef, editDef       bool
	viewMetric, editMetric map[string]bool
	viewPrefix, editPrefix []string
	protected              []string
}

func c30MakeRef(c c30Pol, withEmptyPrefix bool) c30Ref {
	r := c30Ref{viewMetric: map[string]bool{}, editMetric: map[string]bool{}, protected: c.Protected}
	for _, g := range c.Grants {
		switch g.Kind {
		case "admin":
			r.admin = true
		case "view_default":
			r.viewDef = true
		case "edit_default":
			r.editDef = true
		case "view_metric":
			r.viewMetric[g.Val] = true
		case "edit_metric":
			r.editMetric[g.Val] = true
		case "view_prefix":
			if g.Val != "" || withEmptyPrefix {
				r.viewPrefix = append(r.viewPrefix, g.Val)
			}
		case "edit_prefix":
			if g.Val != "" || withEmptyPrefix {
				r.editPrefix = append(r.editPrefix, g.Val)
			}
		case "view_namespace":
			r.viewPrefix = append(r.viewPrefix, g.Val+":")
		case "edit_namespace":
			r.editPrefix = append(r.editPrefix, g.Val+":")
		}
	}
	return r
}

func c30AnyPrefix(ps []string, name string) bool {
	for _, p := range ps {
		if strings.HasPrefix(name, p) {
			return true
		}
	}
	return false
}

func (r c30Ref) canView(name string) bool {
	if c30Remote(name) {
		return false
	}
	return r.viewMetric[name] || c30AnyPrefix(r.viewPrefix, name) || (r.viewDef && !c30AnyPrefix(r.protected, name))
}

// edit rights on the pair of names: 1 yes, 0 no, -1 not asserted (rights of different kinds)
func (r c30Ref) editNames(oldN, newN string) int {
	if c30Remote(oldN) || c30Remote(newN) {
		return 0
	}
	byMetric := func(n string) bool { return r.editMetric[n] }
	byPrefix := func(n string) bool { return c30AnyPrefix(r.editPrefix, n) }
	byDefault := func(n string) bool { return r.editDef && !c30AnyPrefix(r.protected, n) }
	any := func(n string) bool { return byMetric(n) || byPrefix(n) || byDefault(n) }
	if !any(oldN) || !any(newN) {
		return 0
	}
	if byMetric(oldN) && byMetric(newN) || byPrefix(oldN) && byPrefix(newN) || byDefault(oldN) && byDefault(newN) {
		return 1
	}
	return -1
}

// forbidden attribute change: 1 yes, 0 no, -1 only a raw kind was replaced by another raw kind
func c30Forbidden(o, n c30Metric) (int, string) {
	if o.Weight != n.Weight && !(o.Weight == 0 && n.Weight == 1) {
		return 1, "weight"
	}
	if o.PreKeyFrom != n.PreKeyFrom || o.PreKeyOnly != n.PreKeyOnly {
		return 1, "presort"
	}
	if o.Skips != n.Skips {
		return 1, "skips"
	}
	if o.Strategy != n.Strategy || o.ShardNum != n.ShardNum || o.Fixed != n.Fixed {
		return 1, "sharding"
	}
	kindOnly := false
	for i := 0; i < len(o.Raw) || i < len(n.Raw); i++ {
		var a, b string
		if i < len(o.Raw) {
			a = o.Raw[i]
		}
		if i < len(n.Raw) {
			b = n.Raw[i]
		}
		if (a == "") != (b == "") {
			return 1, "raw tag"
		}
		if a != b {
			kindOnly = true
		}
	}
	if kindOnly {
		return -1, "raw kind replaced"
	}
	return 0, ""
}

func c30Meta(m c30Metric) format.MetricMetaValue {
	v := format.MetricMetaValue{
		Name: m.Name, Weight: m.Weight, PreKeyFrom: m.PreKeyFrom, PreKeyOnly: m.PreKeyOnly,
		SkipMaxHost: m.Skips[0], SkipMinHost: m.Skips[1], SkipSumSquare: m.Skips[2],
		ShardStrategy: m.Strategy, ShardNum: m.ShardNum,
		ShardFixedKey: m.Fixed[0], ShardFixedKey2: m.Fixed[1], ShardFixedKey2Timestamp: m.Fixed[2],
		Description: m.Descr, Resolution: m.Resolution,
	}
	for i, k := range m.Raw {
		v.Tags = append(v.Tags, format.MetricMetaTag{Name: fmt.Sprintf("t%d", i), RawKind: k})
	}
	return v
}

func c30EncodeGrant(app string, g c30Grant) string {
	v := strings.Replace(g.Val, ":", "@", 1) // vkuth bits cannot contain ':' after the application prefix
	switch g.Kind {
	case "admin", "developer", "view_default", "edit_default":
		return app + ":" + g.Kind
	default:
		return app + ":" + g.Kind + "." + v
	}
}

func c30Token(c c30Pol, now time.Time) (string, map[string][]byte) {
	mk := func(i byte) (ed25519.PublicKey, ed25519.PrivateKey) {
		var b [9]byte
		binary.LittleEndian.PutUint64(b[:], c.Seed)
		b[8] = i
		h := sha256.Sum256(b[:])
		priv := ed25519.NewKeyFromSeed(h[:])
		return priv.Public().(ed25519.PublicKey), priv
	}
	kid := func(p ed25519.PublicKey) string { h := sha256.Sum256(p); return hex.EncodeToString(h[:8]) }
	pub0, priv0 := mk(0)
	pubX, privX := mk(9)
	signPub, signPriv := pub0, priv0
	if c.BadToken == 2 {
		signPub, signPriv = pubX, privX
	}
	bits := []string{}
	for _, g := range c.Grants {
		bits = append(bits, c30EncodeGrant(c.App, g))
	}
	bits = append(bits, c.Decoys...)
	exp := now.Unix() + 600
	if c.BadToken == 1 {
		exp = now.Unix() - 600
	}
	b64 := base64.RawURLEncoding.EncodeToString
	hdr, _ := json.Marshal(map[string]any{"alg": "EdDSA", "typ": "JWT", "kind": "token", "kid": kid(signPub)})
	pl, _ := json.Marshal(map[string]any{"iss": "vkuth", "exp": exp, "iat": now.Unix() - 10,
		"vkuth_data": map[string]any{"user": "u@example.com", "bits": bits}})
	signed := b64(hdr) + "." + b64(pl)
	return signed + "." + b64(ed25519.Sign(signPriv, []byte(signed))), map[string][]byte{kid(pub0): pub0}
}

func c30PolProp(t vpT, c c30Pol) (classes []string) {
	now := time.Unix(1_700_000_000, 0)
	token, keys := c30Token(c, now)
	helper := vkuth.NewJWTHelper(keys, c.App)
	helper.SetNow(func() time.Time { return now })
	ai, err := parseAccessToken(helper, token, c.Protected, false, false)
	if c.BadToken != 0 {
		if err == nil {
			t.Fatalf("token that must not authenticate (kind %d) produced access info for %q", c.BadToken, ai.user)
		}
		return []string{"bad-token-rejected"}
	}
	if err != nil {
		t.Fatalf("valid token rejected: %v", err)
	}
	ref := c30MakeRef(c, false)
	refE := c30MakeRef(c, true) // the reading in which an empty prefix bit covers every name
	cls := map[string]bool{}
	for _, g := range c.Grants {
		switch {
		case g.Kind == "admin" || g.Kind == "developer" || g.Kind == "view_default" || g.Kind == "edit_default":
		case g.Val == "" && (g.Kind == "view_namespace" || g.Kind == "edit_namespace"):
			cls["degenerate-empty-namespace-bit"] = true
		case g.Val == "":
			cls["degenerate-empty-bit"] = true
		case strings.TrimSpace(strings.Trim(g.Val, ":")) == "":
			cls["degenerate-separator-or-blank-bit"] = true
		}
	}
	// view: every name of the universe
	if !ref.admin {
		for _, name := range c30Names {
			got, want := ai.CanViewMetricName(name), ref.canView(name)
			if want != refE.canView(name) {
				cls["unasserted-empty-prefix-bit"] = true
				continue
			}
			if got != want {
				t.Fatalf("non-admin view %q: got %v, want %v\ngrants %+v decoys %q protected %q", name, got, want, c.Grants, c.Decoys, c.Protected)
			}
			if got2 := ai.CanViewMetric(format.MetricMetaValue{Name: name}); got2 != got {
				t.Fatalf("CanViewMetric and CanViewMetricName disagree on %q", name)
			}
			switch {
			case c30Remote(name):
				cls["view-remote-config-denied"] = true
			case want && !ref.viewMetric[name] && !c30AnyPrefix(ref.viewPrefix, name):
				cls["view-by-default"] = true
			case want:
				cls["view-by-bit"] = true
			case ref.viewDef:
				cls["view-protected-denied"] = true
			}
		}
	}
	// edit
	o, n := c.Old, c.New
	if c.Create {
		o = n
	}
	gotErr := ai.CanEditMetric(c.Create, c30Meta(o), c30Meta(n))
	got := gotErr == nil
	if ref.admin {
		cls["admin"] = true
		if !got {
			t.Fatalf("admin edit refused: %v", gotErr)
		}
	} else {
		names := ref.editNames(o.Name, n.Name)
		forb, what := c30Forbidden(o, n)
		switch {
		case names != refE.editNames(o.Name, n.Name):
			cls["unasserted-empty-prefix-bit"] = true
		case names == 0:
			if got {
				t.Fatalf("non-admin edit %q -> %q allowed without edit rights on both names\ngrants %+v decoys %q protected %q", o.Name, n.Name, c.Grants, c.Decoys, c.Protected)
			}
			if c30Remote(o.Name) || c30Remote(n.Name) {
				cls["edit-remote-config-denied"] = true
			} else {
				cls["edit-no-rights-denied"] = true
			}
		case forb == 1:
			if got {
				t.Fatalf("non-admin changed %s of %q: allowed\nold %+v\nnew %+v", what, o.Name, o, n)
			}
			cls["edit-forbidden-"+strings.ReplaceAll(what, " ", "-")] = true
		case names == -1:
			cls["unasserted-rename-rights-of-different-kinds"] = true
		case forb == -1:
			cls["unasserted-raw-kind-replaced"] = true
		default:
			if !got {
				t.Fatalf("non-admin edit %q -> %q refused (%v) although the grants cover both names and nothing restricted changes\ngrants %+v protected %q\nold %+v\nnew %+v", o.Name, n.Name, gotErr, c.Grants, c.Protected, o, n)
			}
			if o.Name != n.Name {
				cls["rename-allowed"] = true
			} else if o.Weight == 0 && n.Weight == 1 {
				cls["weight-0-to-1-allowed"] = true
			} else {
				cls["edit-allowed"] = true
			}
		}
		if o.Name != n.Name {
			cls["non-admin-rename"] = true
		}
	}
	if len(c.Decoys) > 0 {
		cls["has-decoy-bits"] = true
	}
	for k := range cls {
		classes = append(classes, k)
	}
	return classes
}

func c30GenMetric(t *rapid.T, name string) c30Metric {
	m := c30Metric{Name: name}
	m.Weight = rapid.SampledFrom([]float64{0, 0, 1, 1, 2, 0.5}).Draw(t, "weight")
	if rapid.IntRange(0, 3).Draw(t, "prekey") == 0 {
		m.PreKeyFrom = rapid.Uint32Range(1, 3).Draw(t, "prekeyfrom")
		m.PreKeyOnly = rapid.Bool().Draw(t, "prekeyonly")
	}
	if rapid.IntRange(0, 3).Draw(t, "skips") == 0 {
		m.Skips = [3]bool{rapid.Bool().Draw(t, "s0"), rapid.Bool().Draw(t, "s1"), rapid.Bool().Draw(t, "s2")}
	}
	if rapid.IntRange(0, 3).Draw(t, "shard") == 0 {
		m.Strategy = rapid.SampledFrom([]string{"", "fixed_shard", "tags_hash", "metric_id"}).Draw(t, "strategy")
		m.ShardNum = rapid.Uint32Range(0, 3).Draw(t, "shardnum")
		m.Fixed = [3]uint32{rapid.Uint32Range(0, 2).Draw(t, "f0"), rapid.Uint32Range(0, 2).Draw(t, "f1"), rapid.Uint32Range(0, 2).Draw(t, "f2")}
	}
	m.Raw = rapid.SliceOfN(rapid.SampledFrom([]string{"", "", "", "uint", "hex"}), 0, 5).Draw(t, "raw")
	m.Descr = rapid.SampledFrom([]string{"", "d1"}).Draw(t, "descr")
	m.Resolution = rapid.SampledFrom([]int{1, 5, 60}).Draw(t, "res")
	return m
}

func c30GenPol() *rapid.Generator[c30Pol] {
	return rapid.Custom(func(t *rapid.T) c30Pol {
		c := c30Pol{Seed: rapid.Uint64().Draw(t, "seed"), App: rapid.SampledFrom([]string{"statshouse-api", "sh"}).Draw(t, "app")}
		oldName := rapid.SampledFrom(c30Names).Draw(t, "old")
		newName := oldName
		if rapid.IntRange(0, 2).Draw(t, "rename") == 0 {
			newName = rapid.SampledFrom(c30Names).Draw(t, "new")
		}
		ng := rapid.IntRange(0, 5).Draw(t, "ngrants")
		for i := 0; i < ng; i++ {
			var g c30Grant
			switch k := rapid.IntRange(0, 19).Draw(t, "grant"); { // rapid favours small values: the rare kinds are the large ones
			case k < 3:
				g.Kind = "view_default"
			case k < 6:
				g.Kind = "edit_default"
			case k < 8:
				g = c30Grant{"view_metric", rapid.SampledFrom(c30Names).Draw(t, "name")}
			case k < 11:
				g = c30Grant{"edit_metric", rapid.SampledFrom(c30Names).Draw(t, "name")}
			case k < 13:
				g = c30Grant{"view_prefix", rapid.SampledFrom(c30Prefixes).Draw(t, "prefix")}
			case k < 15:
				g = c30Grant{"edit_prefix", rapid.SampledFrom(c30Prefixes).Draw(t, "prefix")}
			case k < 16:
				g = c30Grant{"view_namespace", rapid.SampledFrom(c30Namespaces).Draw(t, "ns")}
			case k < 18:
				g = c30Grant{"edit_namespace", rapid.SampledFrom(c30Namespaces).Draw(t, "ns")}
			case k < 19:
				g.Kind = "developer"
			default:
				g.Kind = "admin"
			}
			if g.Val != "" && rapid.IntRange(0, 5).Draw(t, "degenerate") == 0 { // degenerate name after the dot
				if g.Kind == "view_namespace" || g.Kind == "edit_namespace" {
					g.Val = rapid.SampledFrom([]string{"", "", "", ":", " ", "@", "ns:"}).Draw(t, "degns")
				} else {
					g.Val = rapid.SampledFrom([]string{"", "", ":", " ", "  "}).Draw(t, "degval")
				}
			}
			c.Grants = append(c.Grants, g)
		}
		if rapid.IntRange(0, 7).Draw(t, "emptyns") == 0 { // the bit "<app>:view_namespace." / "<app>:edit_namespace."
			c.Grants = append(c.Grants, c30Grant{Kind: rapid.SampledFrom([]string{"edit_namespace", "view_namespace"}).Draw(t, "emptynskind")})
		}
		// most cases: make sure the edit is covered by rights of one kind, so that the attribute rules decide
		switch rapid.IntRange(0, 5).Draw(t, "cover") {
		case 0, 1:
			c.Grants = append(c.Grants, c30Grant{"edit_metric", oldName}, c30Grant{"edit_metric", newName})
		case 2:
			for _, n := range []string{oldName, newName} {
				cut := rapid.IntRange(1, len(n)).Draw(t, "cut")
				c.Grants = append(c.Grants, c30Grant{"edit_prefix", n[:cut]})
			}
		case 3:
			c.Grants = append(c.Grants, c30Grant{Kind: "edit_default"})
		}
		nd := rapid.IntRange(0, 3).Draw(t, "ndecoys")
		for i := 0; i < nd; i++ {
			bit := rapid.SampledFrom([]string{"admin", "view_default", "edit_default", "edit_prefix.f", "view_prefix.f", "edit_namespace.ns", "edit_metric.foo", "view_metric.bar"}).Draw(t, "decoy")
			pre := rapid.SampledFrom([]string{"", "other:", c.App, c.App + "2:", strings.ToUpper(c.App) + ":", ":"}).Draw(t, "decoyprefix")
			c.Decoys = append(c.Decoys, pre+bit)
		}
		c.Protected = rapid.SliceOfNDistinct(rapid.SampledFrom(c30Protected), 0, 3, func(s string) string { return s }).Draw(t, "protected")
		c.Old = c30GenMetric(t, oldName)
		c.New = c.Old
		c.New.Raw = append([]string(nil), c.Old.Raw...)
		c.New.Name = newName
		nch := rapid.SampledFrom([]int{0, 0, 1, 1, 1, 2}).Draw(t, "nchanges")
		for i := 0; i < nch; i++ {
			switch rapid.IntRange(0, 9).Draw(t, "change") {
			case 0, 1:
				c.New.Weight = rapid.SampledFrom([]float64{0, 1, 1, 2, 0.5}).Draw(t, "w")
			case 2:
				c.New.PreKeyFrom = rapid.Uint32Range(0, 3).Draw(t, "pk")
			case 3:
				c.New.PreKeyOnly = !c.New.PreKeyOnly
			case 4:
				j := rapid.IntRange(0, 2).Draw(t, "skip")
				c.New.Skips[j] = !c.New.Skips[j]
			case 5:
				switch rapid.IntRange(0, 2).Draw(t, "shardfield") {
				case 0:
					c.New.Strategy = rapid.SampledFrom([]string{"", "fixed_shard", "tags_hash"}).Draw(t, "st")
				case 1:
					c.New.ShardNum++
				default:
					j := rapid.IntRange(0, 2).Draw(t, "fx")
					c.New.Fixed[j]++
				}
			case 6, 7:
				switch rapid.IntRange(0, 3).Draw(t, "rawchange") {
				case 0: // flip raw-ness of one tag
					if len(c.New.Raw) > 0 {
						j := rapid.IntRange(0, len(c.New.Raw)-1).Draw(t, "tag")
						if c.New.Raw[j] == "" {
							c.New.Raw[j] = "uint"
						} else {
							c.New.Raw[j] = ""
						}
					}
				case 1: // drop the last tag (clears its raw attribute implicitly)
					if len(c.New.Raw) > 0 {
						c.New.Raw = c.New.Raw[:len(c.New.Raw)-1]
					}
				case 2:
					c.New.Raw = append(c.New.Raw, rapid.SampledFrom([]string{"", "hex"}).Draw(t, "newtag"))
				default: // another raw kind
					for j := range c.New.Raw {
						if c.New.Raw[j] == "uint" {
							c.New.Raw[j] = "hex"
							break
						}
					}
				}
			default: // changes everybody with edit rights may make
				c.New.Descr = "changed"
				c.New.Resolution = 15
			}
		}
		c.Create = rapid.IntRange(0, 5).Draw(t, "create") == 0
		if rapid.IntRange(0, 19).Draw(t, "badtoken") == 0 {
			c.BadToken = rapid.IntRange(1, 2).Draw(t, "bad")
		}
		return c
	})
}

func TestVerifC30Policy(t *testing.T) {
	ev := vpNewEv(t, "C30", "policy")
	rapid.Check(t, func(rt *rapid.T) {
		c := c30GenPol().Draw(rt, "case")
		vpRunCase(rt, "C30", "policy", c, func() {
			cls := c30PolProp(rt, c)
			nt := false
			for _, k := range cls {
				if k == "non-admin-rename" || strings.HasPrefix(k, "edit-forbidden-") {
					nt = true
				}
			}
			ev.Case(nt, c, cls...)
		})
	})
}

func init() {
	vpReplayers["C30/policy"] = func(t vpT, raw json.RawMessage) {
		var c c30Pol
		if err := json.Unmarshal(raw, &c); err != nil {
			t.Fatalf("decode: %v", err)
		}
		c30PolProp(t, c)
	}
}
