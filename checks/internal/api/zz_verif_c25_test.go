//go:build verif

package api

import (
	"context"
	"encoding/json"
	"fmt"
	"math"
	"sort"
	"testing"
	"time"

	"github.com/hrissan/tdigest"
	"pgregory.net/rapid"

	"github.com/VKCOM/statshouse/internal/data_model"
	"github.com/VKCOM/statshouse/internal/format"
	"github.com/VKCOM/statshouse/internal/promql"
)

// ---------- C25: table queries assemble aligned, unique, ordered rows ----------
//
// getTableFromLODs is driven through its real code path with a stub storage loader. The expected table is assembled by a
// reference written from the statement: per requested function, the rows inside the requested row window, in the
// requested direction, cut at the limit; rows of all functions united by (time, tags); has-more iff some function has
// in-window rows beyond the limit.

type c25LOD struct {
	From int64 `json:"from"`
	To   int64 `json:"to"`
	Step int64 `json:"step"`
}

type c25Key struct {
	Time int64   `json:"time"`
	Tags []int64 `json:"tags,omitempty"` // one value per By entry
	// unmapped string values, one per By entry ("" = the value is the mapped integer in Tags; otherwise Tags[i] is 0)
	STags []string `json:"stags,omitempty"`
	SKey string  `json:"skey,omitempty"`
}

type c25Marker struct {
	Set  bool    `json:"set"`
	Time int64   `json:"time"`
	Tags []int64 `json:"tags,omitempty"`
	SKey string  `json:"skey,omitempty"`
}

type c25Case struct {
	LODs    []c25LOD  `json:"lods"` // ascending, disjoint
	Whats   []int     `json:"whats"`
	By      []int     `json:"by,omitempty"` // tag indexes, ascending
	BySKey  bool      `json:"by_skey,omitempty"`
	Keys    []c25Key  `json:"keys"`              // universe of row keys, every time is a slot of some LOD
	Missing [][]int   `json:"missing,omitempty"` // per storage pass: indexes into Keys the storage does not return for that pass
	FromEnd bool      `json:"from_end,omitempty"`
	Limit   int       `json:"limit"`
	From    c25Marker `json:"from_row"`
	To      c25Marker `json:"to_row"`
}

func (k *c25Key) cmp(o *c25Key) int {
	if k.Time != o.Time {
		if k.Time < o.Time {
			return -1
		}
		return 1
	}
	for i := range k.Tags {
		if i < len(o.Tags) && k.Tags[i] != o.Tags[i] {
			if k.Tags[i] < o.Tags[i] {
				return -1
			}
			return 1
		}
	}
	if k.SKey != o.SKey {
		if k.SKey < o.SKey {
			return -1
		}
		return 1
	}
	return 0
}

// id identifies a storage series: time, every grouped-by tag including unmapped string values, string key.
// (cmp above is the order row markers define: they carry integer tag values and the string key only.)
func (k *c25Key) id() string { return fmt.Sprintf("%d|%v|%q|%q", k.Time, k.Tags, k.stags(), k.SKey) }

func (k *c25Key) stags() []string {
	res := make([]string, len(k.Tags))
	copy(res, k.STags)
	return res
}

// cmpFull: storage order (ORDER BY time, tag, stag, ...): cmp, ties broken by the string values.
func (k *c25Key) cmpFull(o *c25Key) int {
	if d := k.cmp(o); d != 0 {
		return d
	}
	a, b := k.stags(), o.stags()
	for i := range a {
		if i < len(b) && a[i] != b[i] {
			if a[i] < b[i] {
				return -1
			}
			return 1
		}
	}
	return 0
}

// c25InWindow: strictly between the "from" row and the "to" row in the requested direction (both markers are rows of
// neighbouring pages and are excluded, as Test_limitQueries documents).
func c25InWindow(c *c25Case, k *c25Key) bool {
	dir := 1
	if c.FromEnd {
		dir = -1
	}
	if c.From.Set {
		m := c25Key{Time: c.From.Time, Tags: c.From.Tags, SKey: c.From.SKey}
		if dir*k.cmp(&m) <= 0 {
			return false
		}
	}
	if c.To.Set {
		m := c25Key{Time: c.To.Time, Tags: c.To.Tags, SKey: c.To.SKey}
		if dir*k.cmp(&m) >= 0 {
			return false
		}
	}
	return true
}

func c25MarkerOf(c *c25Case, m c25Marker) RowMarker {
	if !m.Set {
		return RowMarker{}
	}
	r := RowMarker{Time: m.Time, SKey: m.SKey}
	for i, x := range c.By {
		if i < len(m.Tags) {
			r.Tags = append(r.Tags, RawTag{Index: x, Value: m.Tags[i]})
		}
	}
	return r
}

func c25Base(pass, key int) float64 { return float64(100000*(pass+1) + 10*key) }

func c25Prop(t vpT, c c25Case) (nontrivial bool, classes []string) {
	loc := time.UTC
	whats := make([]promql.SelectorWhat, len(c.Whats))
	anyPercentile := false
	for i, w := range c.Whats {
		whats[i] = promql.SelectorWhat{Digest: promql.DigestWhat(w)}
		if w >= int(promql.DigestP0_1) && w <= int(promql.DigestP999) {
			anyPercentile = true
		}
	}
	meta := &format.MetricMetaValue{Name: "vp_metric", MetricID: 1, Tags: make([]format.MetricMetaTag, 16)}
	for i := 1; i < len(meta.Tags); i++ {
		meta.Tags[i].RawKind = "int" // raw tags: values are rendered without a mapping storage
	}
	_ = meta.RestoreCachedInfo()
	var by []string
	for _, x := range c.By {
		by = append(by, format.TagID(x))
	}
	if c.BySKey {
		by = append(by, format.StringTopTagID)
	}
	h := &requestHandler{Handler: &Handler{HandlerOptions: HandlerOptions{location: loc}}}
	// which storage pass serves which function: the grouping of functions into storage queries is not part of the property
	passes := h.getHandlerWhat(append([]promql.SelectorWhat(nil), whats...))
	passOf := map[tsWhat]int{}
	for p, hw := range passes {
		if _, ok := passOf[hw.qry]; !ok {
			passOf[hw.qry] = p
		}
	}
	missing := func(p, k int) bool {
		if p < len(c.Missing) {
			for _, x := range c.Missing[p] {
				if x == k {
					return true
				}
			}
		}
		return false
	}
	makeRow := func(p, ki int) tsSelectRow {
		k := &c.Keys[ki]
		var r tsSelectRow
		r.time = k.Time
		for i, x := range c.By {
			r.tag[x] = k.Tags[i]
			if i < len(k.STags) {
				r.stag[x] = k.STags[i]
			}
		}
		r.stag[format.StringTopTagIndexV3] = k.SKey
		b := c25Base(p, ki)
		r.count, r.sum, r.min, r.max, r.cardinality, r.sumsquare = b+1, b+2, b+3, b+4, b+5, (b+2)*(b+2)
		if anyPercentile {
			r.percentile = tdigest.New()
			r.percentile.Add(b+6, 1)
		}
		return r
	}
	// keys in ascending order
	order := make([]int, len(c.Keys))
	for i := range order {
		order[i] = i
	}
	sort.SliceStable(order, func(a, b int) bool { return c.Keys[order[a]].cmpFull(&c.Keys[order[b]]) < 0 })
	loaderCalls := 0
	load := func(_ context.Context, _ *requestHandler, pq *queryBuilder, lod data_model.LOD, _ bool) ([][]tsSelectRow, error) {
		loaderCalls++
		p, ok := passOf[pq.what]
		if !ok {
			t.Fatalf("storage asked for an unknown set of functions %v", pq.what)
		}
		res := make([][]tsSelectRow, (lod.ToSec-lod.FromSec)/lod.StepSec)
		wantSort := sortAscending
		if c.FromEnd {
			wantSort = sortDescending
		}
		if pq.sort != wantSort {
			t.Fatalf("storage query sort %v for fromEnd=%v", pq.sort, c.FromEnd)
		}
		for _, ki := range order {
			k := &c.Keys[ki]
			if k.Time < lod.FromSec || k.Time >= lod.ToSec || missing(p, ki) {
				continue
			}
			ix := (k.Time - lod.FromSec) / lod.StepSec
			res[ix] = append(res[ix], makeRow(p, ki))
		}
		if c.FromEnd { // ORDER BY ... DESC: rows of a time slot arrive in descending order
			for _, rows := range res {
				for i, j := 0, len(rows)-1; i < j; i, j = i+1, j-1 {
					rows[i], rows[j] = rows[j], rows[i]
				}
			}
		}
		return res, nil
	}
	lods := make([]data_model.LOD, len(c.LODs))
	for i, l := range c.LODs {
		lods[i] = data_model.LOD{FromSec: l.From, ToSec: l.To, StepSec: l.Step, Version: data_model.Version6, Metric: meta, Location: loc}
	}
	if c.FromEnd { // as handleGetTable does
		for i, j := 0, len(lods)-1; i < j; i, j = i+1, j-1 {
			lods[i], lods[j] = lods[j], lods[i]
		}
	}
	params := tableReqParams{
		req: seriesRequest{
			numResults: c.Limit,
			what:       whats,
			by:         by,
			fromEnd:    c.FromEnd,
			fromRow:    c25MarkerOf(&c, c.From),
			toRow:      c25MarkerOf(&c, c.To),
		},
		metricMeta:     meta,
		desiredStepMul: 1,
		location:       loc,
	}
	got, gotMore, err := h.getTableFromLODs(context.Background(), lods, params, load)
	if err != nil {
		t.Fatalf("getTableFromLODs: %v", err)
	}
	// ---- reference ----
	// functions are reported in the order of params.req.what after the call (the handler sorts them by kind)
	funcs := params.req.what
	if len(funcs) != len(c.Whats) {
		t.Fatalf("number of requested functions changed: %d -> %d", len(c.Whats), len(funcs))
	}
	funcPass := make([]int, 0, len(funcs))
	for p, hw := range passes {
		for range hw.sel {
			funcPass = append(funcPass, passOf[passes[p].qry])
		}
	}
	if len(funcPass) != len(funcs) {
		t.Fatalf("storage passes cover %d functions of %d", len(funcPass), len(funcs))
	}
	taken := map[int]map[int]bool{} // pass -> key index -> taken
	wantMore := false
	limitInside := false
	for _, p := range funcPass {
		if taken[p] != nil {
			continue
		}
		taken[p] = map[int]bool{}
		var window []int
		for _, ki := range order {
			if !missing(p, ki) && c25InWindow(&c, &c.Keys[ki]) {
				window = append(window, ki)
			}
		}
		if c.FromEnd {
			for i, j := 0, len(window)-1; i < j; i, j = i+1, j-1 {
				window[i], window[j] = window[j], window[i]
			}
		}
		if len(window) > c.Limit {
			wantMore = true
			limitInside = true
			window = window[:c.Limit]
		}
		for _, ki := range window {
			taken[p][ki] = true
		}
	}
	wantRows := map[string]int{} // key id -> key index
	for _, m := range taken {
		for ki := range m {
			wantRows[c.Keys[ki].id()] = ki
		}
	}
	// ---- compare ----
	seen := map[string]bool{}
	var prev *c25Key
	onlyStag, unmapped, mixed := false, false, false
	for ri := range got {
		row := &got[ri]
		k := c25Key{Time: row.row.time, SKey: row.row.stag[format.StringTopTagIndexV3]}
		for _, x := range c.By {
			k.Tags = append(k.Tags, row.row.tag[x])
			k.STags = append(k.STags, row.row.stag[x])
		}
		id := k.id()
		if row.Time != k.Time {
			t.Fatalf("row %d: Time %d differs from the storage row time %d", ri, row.Time, k.Time)
		}
		if seen[id] {
			t.Fatalf("row %d: duplicate row for time %d tags %v skey %q", ri, k.Time, k.Tags, k.SKey)
		}
		seen[id] = true
		if len(row.Data) != len(funcs) {
			t.Fatalf("row %d (time %d tags %v): %d columns for %d requested functions", ri, k.Time, k.Tags, len(row.Data), len(funcs))
		}
		if !c25InWindow(&c, &k) {
			t.Fatalf("row %d (time %d tags %v skey %q) is outside the requested row window", ri, k.Time, k.Tags, k.SKey)
		}
		if prev != nil {
			d := prev.cmp(&k)
			// rows that differ only in unmapped string tag values are equal for the marker order
			if (!c.FromEnd && d > 0) || (c.FromEnd && d < 0) {
				t.Fatalf("rows %d and %d are not in the requested order (fromEnd=%v): %s then %s", ri-1, ri, c.FromEnd, prev.id(), id)
			}
		}
		if prev != nil && prev.cmp(&k) == 0 {
			onlyStag = true
		}
		for i := range k.STags {
			if k.STags[i] != "" {
				unmapped = true
				for rj := range got[:ri] {
					if x := c.By[i]; got[rj].row.stag[x] == "" && got[rj].row.tag[x] != 0 {
						mixed = true
					}
				}
			}
		}
		kk := k
		prev = &kk
		ki, ok := wantRows[id]
		if !ok {
			t.Fatalf("row %d (time %d tags %v skey %q) is not among the first %d in-window rows of any function", ri, k.Time, k.Tags, k.SKey, c.Limit)
		}
		for j := range funcs {
			v := float64(row.Data[j])
			p := funcPass[j]
			if !taken[p][ki] {
				if !math.IsNaN(v) {
					t.Fatalf("row %d column %d: value %v, want NaN (the function has no such row within its limit)", ri, j, v)
				}
				continue
			}
			if math.IsNaN(v) {
				t.Fatalf("row %d (time %d tags %v) column %d: NaN, the storage returned a row for this function", ri, k.Time, k.Tags, j)
			}
			b := c25Base(p, ki)
			want := math.NaN()
			switch funcs[j].Digest {
			case promql.DigestCountRaw:
				want = b + 1
			case promql.DigestSumRaw:
				want = b + 2
			case promql.DigestMin:
				want = b + 3
			case promql.DigestMax:
				want = b + 4
			case promql.DigestCardinalityRaw:
				want = b + 5
			}
			if !math.IsNaN(want) && v != want {
				t.Fatalf("row %d column %d (%v): value %v, storage row has %v", ri, j, funcs[j].Digest, v, want)
			}
		}
	}
	if len(got) != len(wantRows) {
		for id, ki := range wantRows {
			if !seen[id] {
				t.Fatalf("row time %d tags %v skey %q is missing: it is inside the window and within the limit (%d rows returned, %d expected)",
					c.Keys[ki].Time, c.Keys[ki].Tags, c.Keys[ki].SKey, len(got), len(wantRows))
			}
		}
	}
	if gotMore != wantMore {
		t.Fatalf("has-more flag is %v, rows beyond the limit exist: %v (limit %d, %d rows returned)", gotMore, wantMore, c.Limit, len(got))
	}
	// ---- classes ----
	add := func(b bool, name string) {
		if b {
			classes = append(classes, name)
		}
	}
	distinctPasses := len(taken)
	add(len(c.LODs) >= 2, "multi-lod")
	add(onlyStag, "rows-differ-only-in-stag")
	add(unmapped, "unmapped-string-tag")
	add(mixed, "mapped-and-unmapped-on-one-tag")
	add(distinctPasses >= 2, "multi-pass")
	add(limitInside, "limit-inside-data")
	add(c.FromEnd, "from-end")
	add(c.From.Set, "from-row")
	add(c.To.Set, "to-row")
	add(len(c.Missing) != 0, "missing-keys")
	add(len(got) == 0, "empty-result")
	add(wantMore, "has-more")
	// the shape of the suspected defect: the limit is used up exactly and nothing in-window is left
	exact := false
	for p, m := range taken {
		n := 0
		for _, ki := range order {
			if !missing(p, ki) && c25InWindow(&c, &c.Keys[ki]) {
				n++
			}
		}
		if n == c.Limit && len(m) == c.Limit {
			exact = true
		}
	}
	add(exact, "limit-exactly-exhausted")
	return len(c.LODs) >= 2 && limitInside, classes
}

func c25Gen() *rapid.Generator[c25Case] {
	digests := []int{int(promql.DigestCount), int(promql.DigestCountSec), int(promql.DigestCountRaw), int(promql.DigestSum), int(promql.DigestSumSec),
		int(promql.DigestSumRaw), int(promql.DigestAvg), int(promql.DigestMin), int(promql.DigestMax), int(promql.DigestP0_1), int(promql.DigestP1),
		int(promql.DigestP5), int(promql.DigestP10), int(promql.DigestP25), int(promql.DigestP50), int(promql.DigestP75), int(promql.DigestP90),
		int(promql.DigestP95), int(promql.DigestP99), int(promql.DigestP999), int(promql.DigestStdDev), int(promql.DigestStdVar),
		int(promql.DigestCardinality), int(promql.DigestCardinalitySec), int(promql.DigestCardinalityRaw), int(promql.DigestUnique), int(promql.DigestUniqueSec)}
	simple := []int{int(promql.DigestCountRaw), int(promql.DigestSumRaw), int(promql.DigestMin), int(promql.DigestMax), int(promql.DigestCardinalityRaw)}
	return rapid.Custom(func(t *rapid.T) c25Case {
		var c c25Case
		// LODs: ascending, disjoint, mostly contiguous
		nl := rapid.IntRange(1, 4).Draw(t, "nlods")
		cur := int64(rapid.IntRange(2, 50).Draw(t, "t0")) * 3600
		steps := []int64{3600, 900, 60, 1}
		si := rapid.IntRange(0, len(steps)-1).Draw(t, "step0")
		for i := 0; i < nl; i++ {
			step := steps[si]
			n := int64(rapid.IntRange(1, 5).Draw(t, "slots"))
			c.LODs = append(c.LODs, c25LOD{From: cur, To: cur + n*step, Step: step})
			cur += n * step
			if rapid.IntRange(0, 5).Draw(t, "gap") == 0 {
				cur += 3600
			}
			if si+1 < len(steps) && rapid.Bool().Draw(t, "finer") {
				si++
			}
		}
		// functions
		switch rapid.IntRange(0, 3).Draw(t, "whatkind") {
		case 0:
			c.Whats = []int{rapid.SampledFrom(simple).Draw(t, "what")}
		case 1:
			c.Whats = rapid.SliceOfNDistinct(rapid.SampledFrom(simple), 1, 3, rapid.ID[int]).Draw(t, "whats")
		case 2:
			c.Whats = rapid.SliceOfNDistinct(rapid.SampledFrom(digests), 1, 6, rapid.ID[int]).Draw(t, "whats")
		default: // enough distinct storage selectors for several storage passes
			c.Whats = rapid.SliceOfNDistinct(rapid.SampledFrom(digests), 9, 20, rapid.ID[int]).Draw(t, "whats")
		}
		// grouping
		nby := rapid.SampledFrom([]int{0, 1, 1, 2, 2}).Draw(t, "nby")
		c.By = rapid.SliceOfNDistinct(rapid.SampledFrom([]int{1, 2, 3}), nby, nby, rapid.ID[int]).Draw(t, "by")
		sort.Ints(c.By)
		c.BySKey = rapid.IntRange(0, 3).Draw(t, "byskey") == 0
		// keys
		seen := map[string]bool{}
		nk := rapid.IntRange(1, 14).Draw(t, "nkeys")
		if rapid.IntRange(0, 19).Draw(t, "nokeys") == 0 {
			nk = 0
		}
		for i := 0; i < nk; i++ {
			l := c.LODs[rapid.IntRange(0, len(c.LODs)-1).Draw(t, "key-lod")]
			slot := int64(rapid.IntRange(0, int((l.To-l.From)/l.Step)-1).Draw(t, "key-slot"))
			k := c25Key{Time: l.From + slot*l.Step}
			for range c.By {
				if rapid.IntRange(0, 2).Draw(t, "key-unmapped") == 0 { // unmapped value: integer 0 and a string
					k.Tags = append(k.Tags, 0)
					k.STags = append(k.STags, rapid.SampledFrom([]string{"x", "y", "z"}).Draw(t, "key-stag"))
				} else {
					k.Tags = append(k.Tags, int64(rapid.IntRange(-2, 3).Draw(t, "key-tag")))
					k.STags = append(k.STags, "")
				}
			}
			if c.BySKey {
				k.SKey = rapid.SampledFrom([]string{"", "a", "b", "c"}).Draw(t, "key-skey")
			}
			// another series of the same time bucket that differs from an existing one only in a string tag value
			if len(c.Keys) > 0 && len(c.By) > 0 && rapid.IntRange(0, 2).Draw(t, "key-clone") == 0 {
				o := c.Keys[rapid.IntRange(0, len(c.Keys)-1).Draw(t, "clone-of")]
				k = c25Key{Time: o.Time, Tags: append([]int64(nil), o.Tags...), STags: append([]string(nil), o.STags...), SKey: o.SKey}
				i := rapid.IntRange(0, len(c.By)-1).Draw(t, "clone-tag")
				k.Tags[i] = 0 // the clone's value is unmapped; it differs only in the string when the original's integer is 0
				k.STags[i] = rapid.SampledFrom([]string{"x", "y", "z", "w"}).Draw(t, "clone-stag")
			}
			if !seen[k.id()] {
				seen[k.id()] = true
				c.Keys = append(c.Keys, k)
			}
		}
		// keys some storage pass does not return
		if len(c.Keys) > 0 && rapid.IntRange(0, 2).Draw(t, "has-missing") == 0 {
			np := rapid.IntRange(1, 3).Draw(t, "missing-passes")
			for p := 0; p < np; p++ {
				c.Missing = append(c.Missing, rapid.SliceOfNDistinct(rapid.IntRange(0, len(c.Keys)-1), 0, 3, rapid.ID[int]).Draw(t, "missing"))
			}
		}
		c.FromEnd = rapid.Bool().Draw(t, "from-end")
		// limit: around the number of keys, so that it falls inside the data or is used up exactly
		switch rapid.IntRange(0, 3).Draw(t, "limitkind") {
		case 0:
			c.Limit = rapid.IntRange(1, 3).Draw(t, "limit")
		case 1:
			c.Limit = rapid.IntRange(1, len(c.Keys)+1).Draw(t, "limit")
		case 2:
			c.Limit = len(c.Keys) + rapid.IntRange(0, 2).Draw(t, "limit")
			if c.Limit == 0 {
				c.Limit = 1
			}
		default:
			c.Limit = rapid.IntRange(1, 20).Draw(t, "limit")
		}
		marker := func(label string) c25Marker {
			var m c25Marker
			if rapid.IntRange(0, 3).Draw(t, label+"-set") != 0 {
				return m
			}
			m.Set = true
			if len(c.Keys) > 0 && rapid.IntRange(0, 3).Draw(t, label+"-key") != 0 { // the first/last row of a previous page
				k := c.Keys[rapid.IntRange(0, len(c.Keys)-1).Draw(t, label+"-ix")]
				m.Time, m.Tags, m.SKey = k.Time, append([]int64(nil), k.Tags...), k.SKey
				return m
			}
			l := c.LODs[rapid.IntRange(0, len(c.LODs)-1).Draw(t, label+"-lod")]
			m.Time = l.From + int64(rapid.IntRange(-1, int((l.To-l.From)/l.Step)).Draw(t, label+"-slot"))*l.Step
			for range c.By {
				m.Tags = append(m.Tags, int64(rapid.IntRange(-2, 3).Draw(t, label+"-tag")))
			}
			if c.BySKey {
				m.SKey = rapid.SampledFrom([]string{"", "a", "b", "c"}).Draw(t, label+"-skey")
			}
			return m
		}
		c.From = marker("from")
		c.To = marker("to")
		return c
	})
}

func TestVerifC25Table(t *testing.T) {
	ev := vpNewEv(t, "C25", "table")
	rapid.Check(t, func(rt *rapid.T) {
		c := c25Gen().Draw(rt, "case")
		vpRunCase(rt, "C25", "table", c, func() {
			nt, cls := c25Prop(rt, c)
			ev.Case(nt, c, cls...)
		})
	})
}

func init() {
	vpReplayers["C25/table"] = func(t vpT, raw json.RawMessage) {
		var c c25Case
		if err := json.Unmarshal(raw, &c); err != nil {
			t.Fatalf("decode: %v", err)
		}
		c25Prop(t, c)
	}
}
